package main

// closedloopbg — the blue-green strategy end to end as ONE transition system (Lean: RV.ClosedLoopBG).
//
// Walks of the REAL RolloutReconciler.Reconcile and BatchReleaseReconciler.Reconcile on a fake API server holding a
// blue-green Rollout over a CloneSet (with the user's own minReadySeconds / maxSurge / maxUnavailable and HPAs), a
// simulated CloneSet controller (`bgcEnv`: under blue-green settings new pods appear only as surge, old pods stay), the
// workload webhook admitting a revision (`bgcRelease`; a rollback is the release of the stable revision), user events
// (approve, delete), the clock, crashes and call-level API faults (LogClient.FailCallN).  Every transition is emitted as
//
//	op "bstep": in = {scenario, hist, pre, label, …}, impl = joint state afterwards        (compared with RV.ClosedLoopBG.bgStep)
//	op "proj":  the joint state with the worlds the one-step suites `rolloutsm` / `executorx` get at that instant
//	op "final": a disturbed fair walk next to the undisturbed walk of the same scenario (C06 same final state)
//
// and the invariants of RV.Oracle.ClosedLoopBG are evaluated on every state the implementation reaches.

import (
	"context"
	"encoding/json"
	"fmt"
	"strconv"
	"strings"

	kruisev1alpha1 "github.com/openkruise/kruise-api/apps/v1alpha1"
	"github.com/openkruise/rollouts/api/v1beta1"
	"github.com/openkruise/rollouts/pkg/controller/batchrelease"
	rolloutctl "github.com/openkruise/rollouts/pkg/controller/rollout"
	"github.com/openkruise/rollouts/pkg/util"
	"github.com/openkruise/rollouts/pkg/util/grace"
	apierrors "k8s.io/apimachinery/pkg/api/errors"
	metav1 "k8s.io/apimachinery/pkg/apis/meta/v1"
	"k8s.io/apimachinery/pkg/util/intstr"
	ctrl "sigs.k8s.io/controller-runtime"
	"sigs.k8s.io/controller-runtime/pkg/client"
)

func init() { register("closedloopbg", runClosedLoopBG, replayClosedLoopBG) }

// ---- scenario: the plan and the user's own configuration of the CloneSet ----

type bgcScenario struct {
	Name            string      `json:"name"`
	Replicas        int         `json:"replicas"`
	Steps           []rsStep    `json:"steps"`
	HasTraffic      bool        `json:"hasTraffic"`
	MinReadySeconds int         `json:"minReadySeconds"`
	MaxSurge        interface{} `json:"maxSurge"`       // ios | null
	MaxUnavailable  interface{} `json:"maxUnavailable"` // ios | null
	Paused          bool        `json:"paused"`
	SType           string      `json:"stype"` // empty | expected | other
	HpaV2           []bgHPA     `json:"hpaV2"`
	HpaV1           []bgHPA     `json:"hpaV1"`
}

// ---- abstract joint state (mirrors RV.ClosedLoopBG.BS) ----

type bgcBW struct {
	WL                 *bgWL   `json:"wl"`
	HpaV2              []bgHPA `json:"hpaV2"`
	HpaV1              []bgHPA `json:"hpaV1"`
	Generation         int     `json:"generation"`
	ObservedGeneration int     `json:"observedGeneration"`
	UpdateRevision     string  `json:"updateRevision"`
	CurrentRevision    string  `json:"currentRevision"`
	InProgressAnno     bool    `json:"inProgressAnno"`
}

type bgcCS struct {
	Ro    *rsRollout `json:"ro"`
	World bgcBW      `json:"world"`
	Br    *cllBr     `json:"br"`
	Net   trNet      `json:"net"`
	Mem   trMem      `json:"mem"`
}

type bgcSim struct {
	*clSim
	sc bgcScenario
}

func bgcNewSim(c *Ctx, sc bgcScenario) *bgcSim {
	ro, hash := rsBuildRollout(rsRollout{Style: "blueGreen", Steps: sc.Steps, HasTraffic: sc.HasTraffic, Grace: trLongGrace, Reason: "none", Term: "none", RealPartition: true})
	ro.Status = v1beta1.RolloutStatus{}
	R := sc.Replicas
	wl := &bgWL{Replicas: &R, Paused: sc.Paused, MinReadySeconds: sc.MinReadySeconds, SType: sc.SType,
		RU: &bgRU{MaxSurge: sc.MaxSurge, MaxUnavailable: sc.MaxUnavailable}, Ctl: -1,
		Status: bgStatus{Replicas: R, Ready: R, Updated: R, Available: R, UpdatedReady: R}}
	cs := bgBuildCloneSet(wl)
	cs.Generation, cs.Status.ObservedGeneration = 1, 1
	cs.Status.UpdateRevision, cs.Status.CurrentRevision = "v1", "v1"
	if cs.Annotations == nil {
		cs.Annotations = map[string]string{}
	}
	cs.Annotations[util.WorkloadTypeLabel] = "cloneset"
	objs := []client.Object{ro, cs}
	for i, h := range sc.HpaV2 {
		objs = append(objs, bgBuildHPA("cloneSet", "v2", i, h))
	}
	for i, h := range sc.HpaV1 {
		objs = append(objs, bgBuildHPA("cloneSet", "v1", i, h))
	}
	cli := trBuildWith(trNet{StableExists: true, StableIngress: true}, objs...)
	s := &bgcSim{clSim: &clSim{c: c, cli: cli, hash: hash}, sc: sc}
	s.restart()
	grace.ResetExpectations()
	return s
}

func bgcSpecOf(ro *v1beta1.Rollout) rsRollout {
	r := rsRollout{Style: "blueGreen", Paused: ro.Spec.Strategy.Paused, Disabled: ro.Spec.Disabled, Reason: "none", Term: "none", RealPartition: true}
	var steps []v1beta1.CanaryStep
	if bg := ro.Spec.Strategy.BlueGreen; bg != nil {
		steps = bg.Steps
		r.DisableGen = bg.DisableGenerateCanaryService
		if len(bg.TrafficRoutings) > 0 {
			r.HasTraffic = true
			r.Grace = int(bg.TrafficRoutings[0].GracePeriodSeconds)
		}
	}
	for _, st := range steps {
		x := rsStep{Replicas: ios(*st.Replicas), Pause: "manual"}
		if st.Traffic != nil {
			w, _ := strconv.Atoi(strings.TrimSuffix(*st.Traffic, "%"))
			x.Weight = &w
		}
		if st.Pause.Duration != nil {
			if *st.Pause.Duration >= rsPauseLong {
				x.Pause = "long"
			} else {
				x.Pause = "short"
			}
		}
		r.Steps = append(r.Steps, x)
	}
	return r
}

// bgcWorld: the input of one Rollout reconcile in the format of suite `rolloutsm`
func (s *bgcSim) bgcWorld() (rsWorld, bool) {
	ctx := context.TODO()
	w := rsWorld{}
	ro := &v1beta1.Rollout{}
	found := s.cli.Client.Get(ctx, clRoKey, ro) == nil
	if found {
		spec := bgcSpecOf(ro)
		if !spec.HasTraffic {
			spec.Grace = trLongGrace
		}
		w.Ro = rsAbstractRollout(ro, spec, s.hash)
		if cs := ro.Status.GetSubStatus(); cs != nil && w.Ro.Sub != nil {
			w.Ro.Sub.NextIdx = int(cs.NextStepIndex)
		}
		if c := util.GetRolloutCondition(ro.Status, v1beta1.RolloutConditionProgressing); c != nil {
			w.Ro.CondAge = rsAgeOf(&c.LastUpdateTime)
		} else {
			w.Ro.CondAge = "none"
		}
	}
	cs := &kruisev1alpha1.CloneSet{}
	if err := s.cli.Client.Get(ctx, clWlKey, cs); err == nil {
		wl := &rsWL{Consistent: cs.Generation == cs.Status.ObservedGeneration, Replicas: int(*cs.Spec.Replicas), Generation: int(cs.Generation)}
		_, wl.InProgressAnno = cs.Annotations[util.InRolloutProgressingAnnotation]
		wl.CanaryRev, wl.StableRev = cs.Status.UpdateRevision, cs.Status.CurrentRevision
		wl.PodTemplateHash = wl.CanaryRev
		wl.InRollback = wl.InProgressAnno && cs.Status.CurrentRevision == cs.Status.UpdateRevision && cs.Status.UpdatedReplicas != cs.Status.Replicas
		w.WL = wl
	}
	br := &v1beta1.BatchRelease{}
	if err := s.cli.Client.Get(ctx, clRoKey, br); err == nil {
		w.BR = cllSafeAbstractBR(br, ro)
	}
	w.Net = trAbstract(s.cli.Client)
	w.Mem = trGetMem(trNS + "/" + trSvc + "-canary")
	return w, found
}

// bgcBGWorld abstracts the CloneSet and the HPAs the way suite `ctlbluegreen` does; the control-info of the current (most
// recent) BatchRelease is UID 0, any other BatchRelease's is UID 1.
func (s *bgcSim) bgcBGWorld() bgWorld {
	in := bgWorld{HpaV2: make([]bgHPA, len(s.sc.HpaV2)), HpaV1: make([]bgHPA, len(s.sc.HpaV1))}
	w := bgAbstract("cloneSet", s.cli.Client, in)
	if w.WL != nil && w.WL.Ctl >= 0 {
		if bgBRUID(w.WL.Ctl) == exOwnerUID {
			w.WL.Ctl = 0
		} else {
			w.WL.Ctl = 1
		}
	}
	return w
}

func (s *bgcSim) bgcJoint() bgcCS {
	ctx := context.TODO()
	out := bgcCS{}
	w, found := s.bgcWorld()
	if found {
		r := w.Ro
		out.Ro = &r
	}
	out.Net, out.Mem = w.Net, w.Mem
	bw := s.bgcBGWorld()
	out.World = bgcBW{WL: bw.WL, HpaV2: bw.HpaV2, HpaV1: bw.HpaV1}
	cs := &kruisev1alpha1.CloneSet{}
	if err := s.cli.Client.Get(ctx, clWlKey, cs); err == nil {
		_, anno := cs.Annotations[util.InRolloutProgressingAnnotation]
		out.World.Generation, out.World.ObservedGeneration = int(cs.Generation), int(cs.Status.ObservedGeneration)
		out.World.UpdateRevision, out.World.CurrentRevision = cs.Status.UpdateRevision, cs.Status.CurrentRevision
		out.World.InProgressAnno = anno
	}
	br := &v1beta1.BatchRelease{}
	if err := s.cli.Client.Get(ctx, clRoKey, br); err == nil {
		out.Br = bgcAbstractBr(s.cli.Client, br)
	}
	return out
}

func bgcAbstractBr(cli client.Client, br *v1beta1.BatchRelease) *cllBr {
	b := &cllBr{RolloutID: br.Spec.ReleasePlan.RolloutID, Policy: string(br.Spec.ReleasePlan.FinalizingPolicy),
		RollbackAnno: br.Annotations["rollouts.kruise.io/rollback-in-batch"] != "", Deleting: !br.DeletionTimestamp.IsZero(),
		Generation: int(br.Generation), ObservedGeneration: int(br.Status.ObservedGeneration), ObservedRolloutID: br.Status.ObservedRolloutID,
		FailureThreshold: iosPtr(br.Spec.ReleasePlan.FailureThreshold)}
	for _, x := range br.Spec.ReleasePlan.Batches {
		b.Batches = append(b.Batches, iosOut(x.CanaryReplicas))
	}
	if br.Spec.ReleasePlan.BatchPartition != nil {
		p := int(*br.Spec.ReleasePlan.BatchPartition)
		b.Partition = &p
	}
	for _, f := range br.Finalizers {
		if f == batchrelease.ReleaseFinalizer {
			b.HasFinalizer = true
		}
	}
	b.SpecOther = true
	ro := &v1beta1.Rollout{}
	if err := cli.Get(context.TODO(), clRoKey, ro); err == nil {
		b.SpecOther = br.Spec.ReleasePlan.RollingStyle == ro.Spec.Strategy.GetRollingStyle() &&
			br.Spec.ReleasePlan.EnableExtraWorkloadForCanary == rsExtraWorkload(ro) && br.Spec.ReleasePlan.PatchPodTemplateMetadata == nil &&
			br.Spec.WorkloadRef == v1beta1.ObjectRef{APIVersion: ro.Spec.WorkloadRef.APIVersion, Kind: ro.Spec.WorkloadRef.Kind, Name: "wl"}
	}
	st := exAbstractStatus(br)
	b.St = cllSt{Phase: st.Phase, CurrentBatch: st.CurrentBatch, BatchState: st.BatchState, HasReadyTime: st.HasReadyTime, Hash: st.Hash,
		ObservedReplicas: st.ObservedReplicas, UpdateRevision: st.UpdateRevision, StableRevision: st.StableRevision,
		NoNeedUpdate: st.NoNeedUpdate, Updated: st.Updated, UpdatedReady: st.UpdatedReady}
	return b
}

func bgcCanon(cs bgcCS) bgcCS {
	if cs.Ro != nil {
		r := *cs.Ro
		if r.Sub != nil {
			sub := *r.Sub
			if n := len(r.Steps); sub.NextIdx <= 0 || sub.NextIdx > n {
				if sub.CurIdx >= n {
					sub.NextIdx = -1
				} else {
					sub.NextIdx = sub.CurIdx + 1
				}
			}
			r.Sub = &sub
		}
		if r.Reason != "initializing" {
			r.CondAge = "ignored"
		}
		cs.Ro = &r
	}
	return cs
}

// bgcExIn: the input of one BatchRelease reconcile in the format of suite `executorx` (blue-green CloneSet world)
func (s *bgcSim) bgcExIn() (J, bool) {
	ctx := context.TODO()
	br := &v1beta1.BatchRelease{}
	if err := s.cli.Client.Get(ctx, clRoKey, br); err != nil {
		return nil, false
	}
	b := exBR{Deleting: !br.DeletionTimestamp.IsZero(), RollbackAnno: br.Annotations["rollouts.kruise.io/rollback-in-batch"] != "", Status: exAbstractStatus(br)}
	for _, x := range br.Spec.ReleasePlan.Batches {
		b.Batches = append(b.Batches, ios(x.CanaryReplicas))
	}
	if br.Spec.ReleasePlan.BatchPartition != nil {
		p := int(*br.Spec.ReleasePlan.BatchPartition)
		b.Partition = &p
	}
	b.FailureThreshold = iosPtr(br.Spec.ReleasePlan.FailureThreshold)
	for _, f := range br.Finalizers {
		if f == batchrelease.ReleaseFinalizer {
			b.HasFinalizer = true
		}
	}
	bw := s.bgcBGWorld()
	obs := exxObs{}
	cs := &kruisev1alpha1.CloneSet{}
	if err := s.cli.Client.Get(ctx, clWlKey, cs); err == nil {
		obs = exxObs{Generation: int(cs.Generation), ObservedGeneration: int(cs.Status.ObservedGeneration),
			UpdateRevision: cs.Status.UpdateRevision, StableRevision: cs.Status.CurrentRevision}
	}
	return J{"br": b, "world": J{"shape": "bg", "bg": bw, "obs": obs}, "style": string(br.Spec.ReleasePlan.RollingStyle),
		"kind": br.Spec.WorkloadRef.Kind}, true
}

// ---- reconciles (fault: FailCallN — the n-th API call of the reconcile, reads included, fails; n < 0: a 409 on a mutating call) ----

func (s *bgcSim) bgcReconcile(which string, failN int) {
	s.cli.Log, s.cli.FailAt, s.cli.sequence = nil, -1, 0
	s.cli.Calls, s.cli.FailCallN, s.cli.FaultHit = 0, failN, ""
	old := rolloutctl.VerifSetGracePeriodSeconds(trLongGrace)
	impl := guard(func() interface{} {
		if which == "ro" {
			_, err := s.ro.Reconcile(context.TODO(), ctrl.Request{NamespacedName: clRoKey})
			return J{"err": err != nil}
		}
		_, err := s.br.Reconcile(context.TODO(), ctrl.Request{NamespacedName: clRoKey})
		return J{"err": err != nil}
	})
	rolloutctl.VerifSetGracePeriodSeconds(old)
	s.cli.FailCallN = 0
	s.recs++
	if out, isJ := impl.(J); !isJ || out["panic"] != nil {
		s.panicked = true
	}
}

// bgcEnv: one round of the simulated CloneSet controller (RV.ClosedLoopBG.bgEnv), all pods healthy.
func (s *bgcSim) bgcEnv() {
	ctx := context.TODO()
	cs := &kruisev1alpha1.CloneSet{}
	if err := s.cli.Client.Get(ctx, clWlKey, cs); err != nil || cs.Spec.Replicas == nil {
		return
	}
	R := int(*cs.Spec.Replicas)
	if cs.Status.ObservedGeneration != cs.Generation {
		// the sync that observes a new generation reports the pods it found; what it does to them shows in the next one
		cs.Status.ObservedGeneration = cs.Generation
		_ = s.cli.Client.Status().Update(ctx, cs)
		_ = s.cli.Client.Update(ctx, cs)
		return
	}
	st := &cs.Status
	never := int64(cs.Spec.MinReadySeconds) >= int64(v1beta1.MaxReadySeconds)
	scaled := func(v *intstr.IntOrString, up bool) int {
		if v == nil {
			return 0
		}
		n, err := intstr.GetScaledValueFromIntOrPercent(v, R, up)
		if err != nil || n < 0 {
			return 0
		}
		return n
	}
	if st.UpdateRevision != st.CurrentRevision {
		if !cs.Spec.UpdateStrategy.Paused {
			kept := 0
			if p := cs.Spec.UpdateStrategy.Partition; p != nil {
				kept = scaled(p, true)
				if kept > R {
					kept = R
				}
			}
			want := R - kept
			old := int(st.ReadyReplicas - st.UpdatedReadyReplicas)
			upd := int(st.UpdatedReplicas)
			if never {
				surge, unav := scaled(cs.Spec.UpdateStrategy.MaxSurge, true), scaled(cs.Spec.UpdateStrategy.MaxUnavailable, false)
				cap := want
				if surge+unav < want {
					cap = surge + unav
				}
				if upd < cap {
					upd = cap
				}
				gone := want
				if unav < want {
					gone = unav
				}
				if old > R-gone {
					old = R - gone
				}
				st.Replicas, st.ReadyReplicas, st.UpdatedReplicas, st.AvailableReplicas, st.UpdatedReadyReplicas = int32(old+upd), int32(old+upd), int32(upd), 0, int32(upd)
			} else {
				if upd < want {
					upd = want
				}
				old = R - upd
				if old < 0 {
					old = 0
				}
				st.Replicas, st.ReadyReplicas, st.UpdatedReplicas, st.AvailableReplicas, st.UpdatedReadyReplicas = int32(old+upd), int32(old+upd), int32(upd), int32(old+upd), int32(upd)
				if upd >= R {
					st.CurrentRevision = st.UpdateRevision
				}
			}
		}
	} else {
		av := R
		if never {
			av = 0
		}
		st.Replicas, st.ReadyReplicas, st.UpdatedReplicas, st.AvailableReplicas, st.UpdatedReadyReplicas = int32(R), int32(R), int32(R), int32(av), int32(R)
	}
	_ = s.cli.Client.Status().Update(ctx, cs)
	_ = s.cli.Client.Update(ctx, cs)
}

// bgcRelease: the user pushes revision `rev` through the workload webhook (handleCloneSet): partition 100%, in-progress
// annotation; the CloneSet status names the new update revision (RV.ClosedLoopBG.bgRelease).
func (s *bgcSim) bgcRelease(rev string) {
	ctx := context.TODO()
	cs := &kruisev1alpha1.CloneSet{}
	if err := s.cli.Client.Get(ctx, clWlKey, cs); err != nil || rev == cs.Status.UpdateRevision {
		return // an unchanged template is not a release: the webhook does not act
	}
	cs.Generation++
	cs.Annotations[util.InRolloutProgressingAnnotation] = `{"rolloutName":"r"}`
	p := intstr.FromString("100%")
	cs.Spec.UpdateStrategy.Partition = &p
	st := &cs.Status
	old := st.ReadyReplicas - st.UpdatedReadyReplicas
	if cs.Spec.Replicas != nil && old > *cs.Spec.Replicas {
		old = *cs.Spec.Replicas
	}
	st.UpdateRevision = rev
	if rev == st.CurrentRevision {
		st.UpdatedReplicas, st.UpdatedReadyReplicas = old, old
	} else {
		st.UpdatedReplicas, st.UpdatedReadyReplicas = 0, 0
	}
	_ = s.cli.Client.Update(ctx, cs)
	_ = s.cli.Client.Status().Update(ctx, cs)
}

func (s *bgcSim) bgcTerminal() bool {
	ro := &v1beta1.Rollout{}
	if err := s.cli.Client.Get(context.TODO(), clRoKey, ro); err != nil {
		if !apierrors.IsNotFound(err) {
			return false
		}
	} else if ro.Status.Phase != v1beta1.RolloutPhaseHealthy && ro.Status.Phase != v1beta1.RolloutPhaseDisabled {
		return false
	}
	cs := &kruisev1alpha1.CloneSet{}
	if err := s.cli.Client.Get(context.TODO(), clWlKey, cs); err != nil {
		return true
	}
	br := &v1beta1.BatchRelease{}
	if err := s.cli.Client.Get(context.TODO(), clRoKey, br); err == nil {
		return false
	}
	_, inProg := cs.Annotations[util.InRolloutProgressingAnnotation]
	return !inProg && cs.Generation == cs.Status.ObservedGeneration
}

// ---- walks ----

type bgcWalk struct {
	c     *Ctx
	s     *bgcSim
	sc    bgcScenario
	hist  []string
	quiet bool
	steps int
	// history facts the oracles' guards need
	lateRelease bool // a revision was admitted while the clean-up was running (known finding releaseWhileFinalising)
	earlyExit   bool // the rollout was deleted between the admission of a release and its first BatchRelease (exitBeforeBatchRelease)
	// (finding bgCursorCarried — a rollout deleted while its success / rollback clean-up was under way continued the deletion
	// sequence from the other sequence's cursor — is repaired: Reconcile clears the cursor when a Progressing rollout turns
	// Terminating / Disabling; that region carries no history flag any more and is judged at full strength)
	faulted     bool
	ticks       int
	releasedAt  int
	terminalAt  int
}

func bgcNewWalk(c *Ctx, sc bgcScenario) *bgcWalk {
	exOwnerUID = "none-yet"
	return &bgcWalk{c: c, s: bgcNewSim(c, sc), sc: sc, releasedAt: -1, terminalAt: -1}
}

func (w *bgcWalk) flags() J {
	return J{"lateRelease": w.lateRelease, "earlyExit": w.earlyExit}
}

func (w *bgcWalk) do(label string) {
	s := w.s
	if !w.quiet {
		w.c.Begin("bstep", J{"scenario": w.sc, "hist": append([]string{}, w.hist...), "label": label})
	}
	pre := s.bgcJoint()
	emitLabel := label
	switch {
	case label == "ro" || label == "br" || strings.HasPrefix(label, "fault-ro:") || strings.HasPrefix(label, "fault-br:"):
		which, failN := label, 0
		if strings.HasPrefix(label, "fault-") {
			which = label[6:8]
			failN, _ = strconv.Atoi(label[9:])
			emitLabel = "fault"
			w.faulted = true
		}
		if !w.quiet && failN == 0 {
			w.proj(pre)
		}
		b0, w0, had := s.cllSpecs()
		if which == "br" && pre.Br == nil {
			break
		}
		s.bgcReconcile(which, failN)
		s.cllApiServer(b0, w0, had)
	case label == "env":
		s.bgcEnv()
	case strings.HasPrefix(label, "release:"):
		if pre.Ro != nil && pre.Ro.Sub != nil && pre.Ro.Sub.FinStep != "empty" && pre.Ro.Sub.FinStep != "end_" && pre.Ro.Phase != "Healthy" {
			w.lateRelease = true
		}
		s.bgcRelease(label[len("release:"):])
	case label == "approve":
		s.approve()
	case label == "tick":
		s.tick()
	case label == "crash":
		s.restart()
	case label == "delete":
		if pre.Ro != nil && pre.Br == nil && pre.World.InProgressAnno {
			w.earlyExit = true
		}
		s.deleteRollout()
	default:
		panic("closedloopbg: unknown label " + label)
	}
	post := bgcCanon(s.bgcJoint())
	if !w.quiet {
		var impl interface{} = post
		if s.panicked {
			impl = J{"panic": "?"}
		}
		in := J{"scenario": w.sc, "hist": append([]string{}, w.hist...), "pre": pre, "label": emitLabel}
		for k, v := range w.flags() {
			in[k] = v
		}
		w.c.EmitAs("closedloopbg", "bstep", in, impl)
		w.c.Done(0)
	}
	if strings.HasPrefix(label, "release:") && w.releasedAt < 0 {
		w.releasedAt = w.ticks
	}
	if label == "tick" {
		w.ticks++
		if w.releasedAt >= 0 && w.terminalAt < 0 && s.bgcTerminal() {
			w.terminalAt = w.ticks - w.releasedAt
		}
	}
	w.hist = append(w.hist, label)
	w.steps++
}

func (w *bgcWalk) proj(cs bgcCS) {
	in := J{"cs": cs}
	if rw, ok := w.s.bgcWorld(); ok {
		in["w"] = rw
	}
	if ex, ok := w.s.bgcExIn(); ok {
		in["ex"] = ex
	}
	w.c.EmitAs("closedloopbg", "proj", in, nil)
}

var bgcRound = []string{"ro", "br", "env", "approve", "tick"}

func (w *bgcWalk) manualPause() bool {
	cs := w.s.bgcJoint()
	if cs.Ro == nil || cs.Ro.Sub == nil {
		return true
	}
	i := cs.Ro.Sub.CurIdx - 1
	if i < 0 || i >= len(cs.Ro.Steps) {
		return true
	}
	return cs.Ro.Steps[i].Pause == "manual"
}

func (w *bgcWalk) round() {
	for _, l := range bgcRound {
		if l == "approve" && !w.manualPause() {
			continue
		}
		w.do(l)
		if w.s.panicked {
			return
		}
	}
}

// bgcFair: rounds of the healthy closed loop; events[r] = labels injected before round r
func bgcFair(c *Ctx, sc bgcScenario, events map[int]string, rounds int, quiet bool) *bgcWalk {
	w := bgcNewWalk(c, sc)
	w.quiet = quiet
	stopAt := -1
	for r := 0; r < rounds; r++ {
		if ev, ok := events[r]; ok {
			for _, l := range strings.Split(ev, ",") {
				w.do(l)
			}
		}
		w.round()
		if w.s.panicked {
			return w
		}
		if w.terminalAt >= 0 && stopAt < 0 {
			stopAt = r + 2
		}
		if stopAt >= 0 && r >= stopAt {
			break
		}
	}
	return w
}

// bgcAt: a fair walk in which `labels` are injected as soon as `when(joint state)` holds after the first release
func bgcAt(c *Ctx, sc bgcScenario, when func(bgcCS) bool, labels string, rounds int) *bgcWalk {
	w := bgcNewWalk(c, sc)
	for r := 0; r < 2; r++ {
		w.round()
	}
	w.do("release:v2")
	fired := false
	stopAt := -1
	var before, after bgcCS
	eventAt := 0
	for r := 0; r < rounds && !w.s.panicked; r++ {
		for _, l := range bgcRound {
			if !fired && when(w.s.bgcJoint()) {
				fired = true
				before = w.s.bgcJoint()
				eventAt = len(w.hist)
				for _, x := range strings.Split(labels, ",") {
					w.do(x)
				}
				after = w.s.bgcJoint()
				w.terminalAt = -1
			}
			if l == "approve" && !w.manualPause() {
				continue
			}
			w.do(l)
		}
		if w.terminalAt >= 0 && stopAt < 0 {
			stopAt = r + 2
		}
		if stopAt >= 0 && r >= stopAt {
			break
		}
	}
	if fired && !w.quiet {
		w.emitExit(labels, eventAt, before, after)
	}
	return w
}

func (w *bgcWalk) emitExit(labels string, eventAt int, before, after bgcCS) {
	xs := strings.Split(labels, ",")
	in := J{"scenario": w.sc, "labels": w.hist, "event": labels, "eventAt": eventAt, "last": xs[len(xs)-1], "before": before, "after": after,
		"done": w.terminalAt >= 0 && !w.s.panicked, "end": bgcCanon(w.s.bgcJoint()), "rounds": w.ticks}
	for k, v := range w.flags() {
		in[k] = v
	}
	w.c.EmitAs("closedloopbg", "exit", in, nil)
}

func bgcPickLabel(c *Ctx, deleted *bool) string {
	x := c.Rng.Intn(100)
	switch {
	case x < 30:
		return "ro"
	case x < 55:
		return "br"
	case x < 70:
		return "env"
	case x < 78:
		return "approve"
	case x < 88:
		return "tick"
	case x < 91:
		return "crash"
	case x < 95:
		n := 1 + c.Rng.Intn(6)
		if c.Rng.Intn(4) == 0 {
			n = -n
		}
		return fmt.Sprintf("fault-%s:%d", pickS(c, "ro", "br"), n)
	case x < 99:
		if *deleted {
			return "ro"
		}
		return "release:?"
	default:
		if *deleted {
			return "br"
		}
		*deleted = true
		return "delete"
	}
}

func bgcRandom(c *Ctx, sc bgcScenario, n int) *bgcWalk {
	w := bgcNewWalk(c, sc)
	for r := 0; r < 2; r++ {
		w.round()
	}
	w.do("release:v2")
	deleted := false
	for i := 0; i < n && !w.s.panicked; i++ {
		if c.Rng.Intn(5) == 0 {
			w.round()
			continue
		}
		l := bgcPickLabel(c, &deleted)
		if l == "release:?" {
			cur := ""
			if cs := w.s.bgcJoint(); cs.World.WL != nil {
				cur = cs.World.UpdateRevision
			}
			var cand []string
			for _, r := range []string{"v1", "v1", "v2", "v3"} {
				if r != cur {
					cand = append(cand, r)
				}
			}
			l = "release:" + cand[c.Rng.Intn(len(cand))]
		}
		w.do(l)
	}
	return w
}

// ---- final states (C06 same final state) ----

func (w *bgcWalk) finalState() J {
	cs := bgcCanon(w.s.bgcJoint())
	if cs.Ro != nil {
		cs.Ro.CondAge = "ignored"
		if cs.Ro.Sub != nil {
			cs.Ro.Sub.LastUpdate = "ignored"
			cs.Ro.Sub.ObservedGen = 0
		}
	}
	cs.Mem = trMem{}
	// metadata.generation counts spec writes: a re-run after a failed call may repeat a patch
	cs.World.Generation, cs.World.ObservedGeneration = 0, 0
	b, _ := json.Marshal(cs)
	var out J
	_ = json.Unmarshal(b, &out)
	return out
}

func bgcFinal(c *Ctx, sc bgcScenario, events map[int]string, plan string, base J, baseDone bool, rounds int) {
	w := bgcFair(c, sc, events, rounds, false)
	c.EmitAs("closedloopbg", "final", J{"scenario": sc, "plan": plan, "labels": w.hist, "baseline": base, "run": w.finalState(),
		"done": w.terminalAt >= 0 && !w.s.panicked, "baseDone": baseDone, "rounds": w.ticks, "steps": len(sc.Steps)}, nil)
}

// ---- scenarios ----

func bgcScenarios(c *Ctx, n int) []bgcScenario {
	w := func(x int) *int { return &x }
	hpa := bgHPA{AV: "same", Kind: "same", Name: 0}
	out := []bgcScenario{
		{Name: "pct-traffic", Replicas: 10, HasTraffic: true, MinReadySeconds: 5, MaxSurge: J{"p": 25}, MaxUnavailable: J{"i": 1}, SType: "expected", HpaV2: []bgHPA{hpa},
			Steps: []rsStep{{Replicas: J{"p": 50}, Weight: w(0), Pause: "manual"}, {Replicas: J{"p": 100}, Weight: w(50), Pause: "short"}, {Replicas: J{"p": 100}, Weight: w(100), Pause: "short"}}},
		{Name: "int-notraffic", Replicas: 5, HasTraffic: false, MinReadySeconds: 0, MaxSurge: nil, MaxUnavailable: J{"p": 20}, SType: "empty", HpaV1: []bgHPA{hpa},
			Steps: []rsStep{{Replicas: J{"i": 2}, Pause: "short"}, {Replicas: J{"i": 5}, Pause: "manual"}}},
		{Name: "one-step", Replicas: 3, HasTraffic: true, MinReadySeconds: 30, MaxSurge: J{"i": 2}, MaxUnavailable: J{"i": 0}, SType: "expected",
			Steps: []rsStep{{Replicas: J{"p": 100}, Weight: w(100), Pause: "manual"}}},
		{Name: "traffic-then-plain", Replicas: 4, HasTraffic: true, MinReadySeconds: 0, MaxSurge: J{"i": 1}, MaxUnavailable: J{"p": 25}, SType: "expected", HpaV2: []bgHPA{hpa},
			Steps: []rsStep{{Replicas: J{"p": 50}, Weight: w(50), Pause: "manual"}, {Replicas: J{"p": 100}, Pause: "short"}}},
	}
	if c.Thorough() {
		// the user's CloneSet is paused when the release starts (finding csPausedLost)
		out = append(out, bgcScenario{Name: "user-paused", Replicas: 3, HasTraffic: false, MinReadySeconds: 0, MaxSurge: J{"i": 1}, MaxUnavailable: J{"i": 1}, SType: "expected", Paused: true,
			Steps: []rsStep{{Replicas: J{"p": 100}, Pause: "short"}}})
	}
	for i := 0; i < n; i++ {
		R := 1 + c.Rng.Intn(12)
		k := 1 + c.Rng.Intn(3)
		tr := c.Rng.Intn(3) != 0
		sc := bgcScenario{Name: fmt.Sprintf("gen-%d", i), Replicas: R, HasTraffic: tr, MinReadySeconds: []int{0, 0, 10, 600}[c.Rng.Intn(4)],
			SType: pickS(c, "expected", "expected", "empty")}
		if c.Rng.Intn(4) != 0 {
			sc.MaxSurge = bgGenIOS(c, R, false)
		}
		if c.Rng.Intn(4) != 0 {
			sc.MaxUnavailable = bgGenIOS(c, R, false)
		}
		for v := 0; v < 2; v++ {
			var hs []bgHPA
			for j := c.Rng.Intn(3); j > 0; j-- {
				h := bgHPA{AV: pickS(c, "same", "same", "same", "other", "absent"), Kind: pickS(c, "same", "same", "same", "other"), Name: pickInt(c, 0, 0, 0, -1)}
				hs = append(hs, h)
			}
			if v == 0 {
				sc.HpaV2 = hs
			} else {
				sc.HpaV1 = hs
			}
		}
		acc := 0
		pcts := c.Rng.Intn(2) == 0
		for j := 0; j < k; j++ {
			st := rsStep{Pause: pickS(c, "manual", "short", "short")}
			if pcts {
				acc += 10 + c.Rng.Intn(60)
				if acc > 100 || j == k-1 {
					acc = 100
				}
				st.Replicas = J{"p": acc}
			} else {
				acc += 1 + c.Rng.Intn(R)
				if j == k-1 && acc < R {
					acc = R
				}
				st.Replicas = J{"i": acc}
			}
			if tr && c.Rng.Intn(4) != 0 {
				st.Weight = w([]int{0, 5, 20, 50, 100}[c.Rng.Intn(5)])
			}
			sc.Steps = append(sc.Steps, st)
		}
		out = append(out, sc)
	}
	return out
}

func bgcFinStep(cs bgcCS) string {
	if cs.Ro == nil || cs.Ro.Sub == nil {
		return ""
	}
	return cs.Ro.Sub.FinStep
}

func runClosedLoopBG(c *Ctx) {
	nScen := 2
	if c.Thorough() {
		nScen = 7
	}
	scens := bgcScenarios(c, nScen)
	budget := c.N
	rel := map[int]string{2: "release:v2"}
	roundsOf := func(sc bgcScenario) int { return 12 * (len(sc.Steps) + 3) }
	type combo struct{ at, ev string }
	var states, fins []combo
	for _, st := range []string{"upgrade", "trafficRouting", "paused"} {
		for _, ev := range []string{"release:v1", "delete", "release:v3", "release:v3,ro,br,env,release:v1"} {
			states = append(states, combo{st, ev})
		}
	}
	for _, f := range []string{"routeTrafficToNew", "restoreStableService", "resumeWorkload", "routeTrafficToStable", "removeCanaryService", "releaseWorkloadControl"} {
		for _, ev := range []string{"delete", "crash", "release:v1"} {
			fins = append(fins, combo{f, ev})
		}
	}
	atState := func(sc bgcScenario, x combo) {
		bgcAt(c, sc, func(cs bgcCS) bool { return cs.Ro != nil && cs.Ro.Sub != nil && cs.Ro.Reason == "inRolling" && cs.Ro.Sub.State == x.at }, x.ev, roundsOf(sc))
	}
	atFin := func(sc bgcScenario, x combo) {
		bgcAt(c, sc, func(cs bgcCS) bool { return bgcFinStep(cs) == x.at }, x.ev, roundsOf(sc))
	}
	for _, sc := range scens {
		// the undisturbed fair walk, and disturbed ones that must end in the same state
		base := bgcFair(c, sc, rel, roundsOf(sc), false)
		fin, done := base.finalState(), base.terminalAt >= 0 && !base.s.panicked
		c.EmitAs("closedloopbg", "final", J{"scenario": sc, "plan": "baseline", "labels": base.hist, "baseline": fin, "run": fin, "done": done, "baseDone": done,
			"rounds": base.ticks, "steps": len(sc.Steps)}, nil)
		nd := 2
		if c.Thorough() {
			nd = 10
		}
		for j := 0; j < nd; j++ {
			at := 3 + c.Rng.Intn(base.ticks+1)
			n := 1 + c.Rng.Intn(7)
			if c.Rng.Intn(4) == 0 {
				n = -n
			}
			ev := pickS(c, "crash", fmt.Sprintf("fault-ro:%d", n), fmt.Sprintf("fault-br:%d", n), fmt.Sprintf("fault-br:%d,crash", n), fmt.Sprintf("fault-ro:%d,fault-br:%d", n, 1+c.Rng.Intn(5)))
			bgcFinal(c, sc, map[int]string{2: "release:v2", at: ev}, fmt.Sprintf("%s@%d", ev, at), fin, done, roundsOf(sc)+10)
		}
		// exits at chosen points of the rollout: rollback / delete / v3 in a sub-state or at a clean-up step
		if c.Thorough() {
			for _, x := range states {
				atState(sc, x)
			}
			for _, x := range fins {
				atFin(sc, x)
			}
		} else {
			// deterministic on every run: the witnesses of the open findings
			switch sc.Name {
			case "traffic-then-plain":
				atFin(sc, combo{"routeTrafficToNew", "delete"}) // fixed finding bgCursorCarried
				atState(sc, combo{"paused", "release:v1"})      // a rollback while half of the traffic is on the canary Service
				atState(sc, combo{"paused", "release:v3"})      // a newer revision while step 1 waits: refused
			case "pct-traffic":
				atState(sc, combo{"upgrade", "release:v1"}) // bgRollbackNoSurge: a rollback before the first surge pod
				atState(sc, combo{"paused", "release:v1"})  // a rollback with surge pods: completes, partition stays (csPartitionKept)
			case "int-notraffic":
				atState(sc, combo{"upgrade", "delete"}) // csPartitionKept: deleted before the first UpgradeBatch
			}
			atState(sc, states[c.Rng.Intn(len(states))])
			atFin(sc, fins[c.Rng.Intn(len(fins))])
			atFin(sc, fins[c.Rng.Intn(len(fins))])
		}
	}
	for c.Count < budget {
		before := c.Count
		for _, sc := range scens {
			if c.Count >= budget {
				break
			}
			events := map[int]string{2: "release:v2"}
			if c.Rng.Intn(2) == 0 {
				at := 3 + c.Rng.Intn(8*len(sc.Steps)+4)
				events[at] = pickS(c, "crash", "release:v3", "release:v1", "delete", "crash,release:v1", "fault-ro:2", "fault-br:1", "fault-br:3", "release:v3,ro,br,env,release:v1")
			}
			bgcFair(c, sc, events, roundsOf(sc), false)
			if c.Count >= budget {
				break
			}
			bgcRandom(c, sc, 60+c.Rng.Intn(120))
		}
		if c.Count == before {
			break
		}
	}
}

func replayClosedLoopBG(c *Ctx, op string, raw json.RawMessage) {
	var in struct {
		Scenario bgcScenario `json:"scenario"`
		Hist     []string    `json:"hist"`
		Labels   []string    `json:"labels"`
		Label    string      `json:"label"`
		Plan     string      `json:"plan"`
		Event    string      `json:"event"`
		EventAt  int         `json:"eventAt"`
		Baseline J           `json:"baseline"`
		BaseDone bool        `json:"baseDone"`
	}
	if err := json.Unmarshal(raw, &in); err != nil {
		panic(err)
	}
	switch op {
	case "bstep":
		w := bgcNewWalk(c, in.Scenario)
		w.quiet = true
		for _, l := range in.Hist {
			w.do(l)
		}
		w.quiet = false
		if in.Label == "fault" {
			return // the fault index is not part of the line; faults are not compared
		}
		w.do(in.Label)
	case "final":
		w := bgcNewWalk(c, in.Scenario)
		w.quiet = true
		for _, l := range in.Labels {
			w.do(l)
		}
		c.EmitAs("closedloopbg", "final", J{"scenario": in.Scenario, "plan": in.Plan, "labels": w.hist, "baseline": in.Baseline, "run": w.finalState(),
			"done": w.terminalAt >= 0 && !w.s.panicked, "baseDone": in.BaseDone, "rounds": w.ticks, "steps": len(in.Scenario.Steps)}, nil)
	case "exit":
		w := bgcNewWalk(c, in.Scenario)
		w.quiet = true
		var before, after bgcCS
		n := len(strings.Split(in.Event, ","))
		for i, l := range in.Labels {
			if i == in.EventAt {
				before = w.s.bgcJoint()
			}
			w.do(l)
			if i == in.EventAt+n-1 {
				after = w.s.bgcJoint()
				w.terminalAt = -1
			}
		}
		w.quiet = false
		w.emitExit(in.Event, in.EventAt, before, after)
	case "proj":
	}
}

var _ = metav1.Now
