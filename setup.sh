#!/bin/sh
# Build the framework from files on disk only (offline).
set -e
cd "$(dirname "$0")"
export GOFLAGS=-mod=mod GOPROXY=off GOSUMDB=off GOTOOLCHAIN=local CGO_ENABLED=0
mkdir -p build evidence replays
cp /repo/go.sum harness/go.sum
[ -f harness/go.mod ] || cp harness/go.mod.in harness/go.mod
(cd harness && go build -tags verif -o ../build/rvh .)
# the driver and every theorem module the checks name (about 2 min on 16 cores; the checks then only re-verify what changed)
MODS=$(python3 -c "import json,glob; print(' '.join(sorted({m for f in glob.glob('props/C*.json') for m in json.load(open(f))['lean_modules']})))")
(cd lean && lake build $MODS rvdrv)
echo setup done
