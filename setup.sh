#!/bin/sh
# Build the framework from files on disk only (offline).
set -e
cd "$(dirname "$0")"
export GOFLAGS=-mod=mod GOPROXY=off GOSUMDB=off GOTOOLCHAIN=local CGO_ENABLED=0
mkdir -p build evidence replays
cp /repo/go.sum harness/go.sum
[ -f harness/go.mod ] || cp harness/go.mod.in harness/go.mod
(cd harness && go build -tags verif -o ../build/rvh .)
(cd lean && lake build)
echo setup done
