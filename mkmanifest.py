#!/usr/bin/env python3
"""Regenerate MANIFEST.json from props/*.json (run by hand after editing props)."""
import json, glob, os
V = os.path.dirname(os.path.abspath(__file__))
props = [json.loads(l) for l in open(os.path.join(V, "properties.jsonl"))]
hooks_commits = []
hp = os.path.join(V, "hooks_commits.txt")
if os.path.exists(hp):
    hooks_commits = [l.split()[0] for l in open(hp) if l.strip()]
checks, na = [], []
for p in props:
    pid = p["id"]
    cfgp = os.path.join(V, "props", pid + ".json")
    cfg = json.load(open(cfgp)) if os.path.exists(cfgp) else None
    if not cfg or not cfg.get("claimed", True):
        na.append({"property_id": pid, "reason": (cfg or {}).get("na_reason", "check not built yet (work in progress; the design for it is in DESIGN.md Part II)")})
        continue
    checks.append({
        "property_id": pid,
        "quick_cmd": "./check %s --tier quick" % pid,
        "thorough_cmd": "./check %s --tier thorough" % pid,
        "evidence_file": "/verif/evidence/%s.json" % pid,
        "replay_cmd_template": "./check %s --replay {path}" % pid,
        "engine": "lean4-proof+correspondence",
        "level_claimed": {"category": "proof", "text": cfg.get("level_text", ""), "design_ref": cfg.get("design_ref", "DESIGN.md Part II, " + pid)},
        "level_note": cfg.get("level_note", "; ".join(cfg.get("trusted_base", []) + cfg.get("assumptions", []))),
        "technique": cfg.get("technique", "Lean 4 theorems over a hand-written executable model + differential correspondence check against the real Go code"),
    })
m = {
    "version": 1,
    "setup_cmd": "./setup.sh",
    "hooks": {"guard": "verif", "enable": "go build -tags verif (the harness module /verif/harness replaces github.com/openkruise/rollouts with /repo)",
              "baseline_off_cmd": "cd /repo && go test -mod=mod -vet=off -count=1 -timeout 25m ./...",
              "source_commits": hooks_commits, "add_only": True},
    "engines": [{"name": "lean4-proof+correspondence", "path": "/verif/check",
                 "serves_properties": [c["property_id"] for c in checks],
                 "kind_free_text": "Lean 4 model + theorems (lake project /verif/lean), Go differential harness (/verif/harness, rvh) and Lean driver (rvdrv) tied by a JSON-lines protocol; python driver ./check"}],
    "checks": checks,
    "not_applicable": na,
    "notes": "See DESIGN.md. known_findings.json lists genuine defects found (open or fixed).",
}
json.dump(m, open(os.path.join(V, "MANIFEST.json"), "w"), indent=1)
print("claimed:", [c["property_id"] for c in checks])
