#!/bin/bash
# processes round-4 seed deliveries (/tmp/s5/<Cxx>/out) sequentially; stops when /tmp/s5/STOP exists
mkdir -p /verif/build/seedr5
while [ ! -f /tmp/s5/STOP ]; do
  for d in /tmp/s5/C*/out; do
    [ -d $d ] || continue
    id=$(basename $(dirname $d))
    [ -f $d/meta.json ] && [ -f $d/patch.diff ] && [ -f $d/demo_path.txt ] && [ -f $d/zz_seed_demo_test.go ] || continue
    [ -f /verif/build/seedr5/$id.done ] && continue
    age=$(( $(date +%s) - $(stat -c %Y $d/meta.json) ))
    [ $age -lt 90 ] && continue
    SEEDDIR=/tmp/s5 /verif/tools/seedr3.sh $id R5 > /verif/build/seedr5/$id.log 2>&1
    touch /verif/build/seedr5/$id.done
  done
  sleep 20
done
