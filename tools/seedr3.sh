#!/bin/bash
# usage: seedr3.sh <Cxx> [round-prefix]  — confirm a round-3 seeded change delivered in /tmp/s3/<Cxx>/out, keep it as seeded/R3-<Cxx>, run the check of its property on it
id=$1; pre=${2:-R3}
out=${SEEDDIR:-/tmp/s3}/$id/out
[ -f $out/patch.diff ] || { echo "$id: no patch"; exit 2; }
line=$(/verif/tools/seedverify.sh ${pre}x$id $out | tail -1)
echo "$line"
case "$line" in
  *"demo-unchanged=PASS apply=ok build=ok demo-changed=FAIL suite=ok"*)
    python3 /verif/tools/seedkeep.py $out $pre-$id "$line"
    /verif/tools/seedmatrix.sh quick 1 $pre-$id ;;
  *) echo "$id: NOT CONFIRMED" ;;
esac
