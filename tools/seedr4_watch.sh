#!/bin/bash
# processes round-4 seed deliveries (/tmp/s4/<Cxx>/out) sequentially; stops when /tmp/s4/STOP exists
mkdir -p /verif/build/seedr4
while [ ! -f /tmp/s4/STOP ]; do
  for d in /tmp/s4/C*/out; do
    [ -d $d ] || continue
    id=$(basename $(dirname $d))
    [ -f $d/meta.json ] && [ -f $d/patch.diff ] && [ -f $d/demo_path.txt ] && [ -f $d/zz_seed_demo_test.go ] || continue
    [ -f /verif/build/seedr4/$id.done ] && continue
    age=$(( $(date +%s) - $(stat -c %Y $d/meta.json) ))
    [ $age -lt 90 ] && continue
    SEEDDIR=/tmp/s4 /verif/tools/seedr3.sh $id R4 > /verif/build/seedr4/$id.log 2>&1
    touch /verif/build/seedr4/$id.done
  done
  sleep 20
done
