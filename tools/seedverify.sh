#!/bin/bash
# usage: seedverify.sh <id> <outdir>  — confirm a seeded change in a scratch worktree:
#   demo passes on the unchanged tree, fails with the change; the tree builds; the whole suite passes with the change.
set -u
id=$1; out=$2
export GOFLAGS=-mod=mod GOPROXY=off GOSUMDB=off GOTOOLCHAIN=local
wt=/tmp/sv-$id
git -C /repo worktree remove --force $wt >/dev/null 2>&1
git -C /repo worktree add --detach $wt HEAD >/dev/null 2>&1 || { echo "$id: worktree failed"; exit 2; }
dp=$(cat $out/demo_path.txt | tr -d '\n ')
res=""
cp $out/zz_seed_demo_test.go $wt/$dp/
(cd $wt && go test -vet=off -count=1 -run 'Seed' ./$dp/ > /tmp/sv-$id.unchanged.log 2>&1) && res="$res demo-unchanged=PASS" || res="$res demo-unchanged=FAIL"
(cd $wt && git apply $out/patch.diff) && res="$res apply=ok" || res="$res apply=FAILED"
(cd $wt && go build ./... > /tmp/sv-$id.build.log 2>&1) && res="$res build=ok" || res="$res build=FAILED"
(cd $wt && go test -vet=off -count=1 -run 'Seed' ./$dp/ > /tmp/sv-$id.changed.log 2>&1) && res="$res demo-changed=PASS" || res="$res demo-changed=FAIL"
rm $wt/$dp/zz_seed_demo_test.go
(cd $wt && go test -vet=off -count=1 -timeout 25m ./... > /tmp/sv-$id.suite.log 2>&1)
# test/e2e needs a live cluster and fails on the pinned tree as well (it is not part of the 503 baseline tests)
bad=$(grep -E '^(FAIL|--- FAIL|panic:)' /tmp/sv-$id.suite.log | grep -v 'test/e2e' | grep -vc '^FAIL$')
okc=$(grep -c '^ok' /tmp/sv-$id.suite.log)
[ "$bad" = "0" ] && [ "$okc" -ge 29 ] && res="$res suite=ok($okc pkgs)" || res="$res suite=FAILED"
git -C /repo worktree remove --force $wt
echo "$id:$res"
