#!/bin/sh
# Supporting runner for property C19 (NOT a proof): builds harness/cmd/raceiso with the Go race
# detector against /repo's working tree and lets it hammer the process-wide helpers (grace
# expectations, resource expectations, Lua runtime, dynamic watch registry) and the Rollout and
# BatchRelease reconcilers of several rollouts from many goroutines.
# Result: build/race_isolation.json  {"built","races","racesInRepo","failed","iterations",...}
# Env: RV_RACE_SECONDS (default 20), RV_RACE_SEED (default 1), RV_REPO (default /repo).
set -u
ROOT=$(cd "$(dirname "$0")/.." && pwd)
REPO=${RV_REPO:-/repo}
export GOFLAGS=-mod=mod GOPROXY=off GOSUMDB=off GOTOOLCHAIN=local CGO_ENABLED=1
mkdir -p "$ROOT/build"
OUT="$ROOT/build/race_isolation.json"
LOG="$ROOT/build/race_isolation.log"
SECS=${RV_RACE_SECONDS:-20}
SEED=${RV_RACE_SEED:-1}
cp "$REPO/go.sum" "$ROOT/harness/go.sum"
[ -f "$ROOT/harness/go.mod" ] || cp "$ROOT/harness/go.mod.in" "$ROOT/harness/go.mod"
rm -f "$OUT.run"
if ! (cd "$ROOT/harness" && go build -race -tags verif -o "$ROOT/build/raceiso" ./cmd/raceiso) >"$LOG.build" 2>&1; then
  echo '{"built":false,"note":"go build -race failed, see build/race_isolation.log.build"}' > "$OUT"
  cat "$OUT"
  exit 0
fi
(cd "$REPO" && GORACE="halt_on_error=0" "$ROOT/build/raceiso" -seconds "$SECS" -seed "$SEED" -out "$OUT.run") >"$LOG" 2>&1
rc=$?
python3 - "$LOG" "$OUT.run" "$OUT" "$rc" "$SEED" <<'PY'
import sys, json, re
log, runf, outf, rc, seed = sys.argv[1], sys.argv[2], sys.argv[3], int(sys.argv[4]), int(sys.argv[5])
txt = open(log, errors="replace").read()
reports = [r for r in txt.split("==================") if "WARNING: DATA RACE" in r]
in_repo = [r for r in reports if "github.com/openkruise/rollouts/pkg" in r]
res = {"built": True, "races": len(reports), "racesInRepo": len(in_repo), "exit": rc, "seed": seed}
try:
    res.update(json.load(open(runf)))
except Exception as e:
    res["note"] = "driver wrote no result: %s" % e
res["failed"] = (rc not in (0, 66)) or res.get("panics", 0) > 0 or res.get("luaErrors", 0) > 0 or "iterations" not in res
if reports:
    res["firstReport"] = "\n".join((in_repo or reports)[0].strip().splitlines()[:40])
json.dump(res, open(outf, "w"), indent=1)
print(json.dumps({k: v for k, v in res.items() if k != "firstReport"}))
PY
