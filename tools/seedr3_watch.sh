#!/bin/bash
# processes round-3 seed deliveries as they appear (sequentially); stops when /tmp/s3/STOP exists
mkdir -p /verif/build/seedr3
while [ ! -f /tmp/s3/STOP ]; do
  for d in /tmp/s3/C*/out; do
    id=$(basename $(dirname $d))
    [ -f $d/meta.json ] && [ -f $d/patch.diff ] && [ -f $d/demo_path.txt ] && [ -f $d/zz_seed_demo_test.go ] || continue
    [ -f /verif/build/seedr3/$id.done ] && continue
    # the agent may still be finishing: wait until its files are 90 s old
    age=$(( $(date +%s) - $(stat -c %Y $d/meta.json) ))
    [ $age -lt 90 ] && continue
    /verif/tools/seedr3.sh $id > /verif/build/seedr3/$id.log 2>&1
    touch /verif/build/seedr3/$id.done
  done
  sleep 20
done
