#!/bin/bash
# processes round-8 seed deliveries (/tmp/s8/<Cxx>/out) sequentially; stops when /tmp/s8/STOP exists
mkdir -p /verif/build/seedr8
while [ ! -f /tmp/s8/STOP ]; do
  for d in /tmp/s8/C*/out; do
    [ -d $d ] || continue
    id=$(basename $(dirname $d))
    [ -f $d/meta.json ] && [ -f $d/patch.diff ] && [ -f $d/demo_path.txt ] && [ -f $d/zz_seed_demo_test.go ] || continue
    [ -f /verif/build/seedr8/$id.done ] && continue
    age=$(( $(date +%s) - $(stat -c %Y $d/meta.json) ))
    [ $age -lt 90 ] && continue
    SEEDDIR=/tmp/s8 /verif/tools/seedr3.sh $id R8 > /verif/build/seedr8/$id.log 2>&1
    touch /verif/build/seedr8/$id.done
  done
  sleep 20
done
