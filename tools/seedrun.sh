#!/bin/bash
# usage: seedrun.sh <patch.diff> <tier> <prop>...  — apply a seeded change to /repo, run the checks, undo it
p=$1; tier=$2; shift 2
git -C /repo status --porcelain -uno | grep -q . && { echo "/repo not clean"; exit 2; }
git -C /repo apply $p || exit 2
for prop in "$@"; do
  out=$(cd /verif && ./check $prop --tier $tier 2>&1)
  rc=$?
  echo "== $prop rc=$rc"
  echo "$out" | grep -E "VIOLATION|-> |error" | cut -c1-400 | head -8
done
git -C /repo checkout -- .
(cd /verif/harness && GOFLAGS=-mod=mod GOPROXY=off GOSUMDB=off GOTOOLCHAIN=local CGO_ENABLED=0 go build -tags verif -o ../build/rvh . ) # rebuild the harness from the restored tree
git -C /repo status --porcelain | head -3
