#!/bin/bash
# usage: seedmatrix.sh <tier> <jobs> [seed-id ...]
# Runs every seeded change (seeded/<id>/patch.diff) through the check of its property, in parallel, each in its own
# scratch copy: a git worktree of /repo HEAD with the patch applied + a copy of /verif whose harness module points at it.
# /repo and /verif themselves are not touched. Results: build/seedmatrix/<id>.log and one line per seed on stdout.
tier=${1:-quick}; jobs=${2:-6}; shift 2
V=$(cd "$(dirname "$0")/.." && pwd)
ids="$@"; [ -z "$ids" ] && ids=$(ls $V/seeded)
mkdir -p $V/build/seedmatrix /tmp/sm
one() {
  id=$1; tier=$2; V=$3
  d=/tmp/sm/$id
  prop=${PROP:-$(python3 -c "import json,sys;print(json.load(open('$V/seeded/$id/meta.json'))['property'])")}
  git -C /repo worktree remove --force $d/repo >/dev/null 2>&1; rm -rf $d; mkdir -p $d
  git -C /repo worktree add --detach $d/repo HEAD >/dev/null 2>&1 || { echo "$id $prop worktree-failed"; return; }
  if ! git -C $d/repo apply $V/seeded/$id/patch.diff 2>$d/apply.err; then
    echo "$id $prop patch-does-not-apply"; git -C /repo worktree remove --force $d/repo; rm -rf $d; return
  fi
  rsync -a --exclude .git --exclude 'build/run-*' --exclude build/seedmatrix --exclude build/logs --exclude replays --exclude seeded $V/ $d/verif/
  sed "s#=> /repo#=> $d/repo#" $V/harness/go.mod.in > $d/verif/harness/go.mod
  (cd $d/verif && RV_REPO=$d/repo ./check $prop --tier $tier > $V/build/seedmatrix/$id.log 2>&1)
  rc=$?
  what=$(grep -E '^failing clause|^BROKEN' $V/build/seedmatrix/$id.log | head -2 | cut -c1-160 | tr '\n' ' ')
  viol=$(grep -E '^VIOLATION' $V/build/seedmatrix/$id.log | head -1 | sed 's#replay=[^ ]*##')
  cp $d/verif/replays/$prop-*.jsonl $V/build/seedmatrix/$id.$prop.replay.jsonl 2>/dev/null
  echo "$id $prop rc=$rc $viol :: $what"
  git -C /repo worktree remove --force $d/repo >/dev/null 2>&1; rm -rf $d
}
export -f one
echo $ids | tr ' ' '\n' | xargs -P $jobs -I{} bash -c "one {} $tier $V"
git -C /repo worktree prune
