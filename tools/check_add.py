#!/usr/bin/env python3
"""dev helper for attached slices:  tools/check_add.py <slice> <Cxx> [--full] [check args...]

Temporarily merges props-add/<slice>.json[<Cxx>] into props/<Cxx>.json (and the slice's proposed
known findings into known_findings.json), runs ./check <Cxx> ..., then restores both files.
Without --full only the slice's own modules / theorems / suites are kept (fast)."""
import sys, os, json, subprocess
root = os.path.dirname(os.path.dirname(os.path.abspath(__file__)))
sl, pid = sys.argv[1], sys.argv[2]
rest = sys.argv[3:]
full = "--full" in rest
nofind = "--no-findings" in rest
rest = [a for a in rest if a not in ("--full", "--no-findings")]
add = json.load(open(os.path.join(root, "props-add", sl + ".json")))
pp = os.path.join(root, "props", pid + ".json")
kp = os.path.join(root, "known_findings.json")
ep = os.path.join(root, "evidence", pid + ".json")
orig_p, orig_k = open(pp).read(), open(kp).read()
orig_e = open(ep).read() if os.path.exists(ep) else None
prop = json.loads(orig_p)
a = add[pid]
if full:
    for k in ("lean_modules", "theorems", "trusted_base"):
        prop[k] = prop.get(k, []) + [x for x in a.get(k, []) if x not in prop.get(k, [])]
    prop["suites"] = prop.get("suites", []) + a["suites"]
else:
    prop.update({k: a[k] for k in ("lean_modules", "theorems", "suites")})
    prop["gen_tables"] = []
kf = json.loads(orig_k)
if not nofind:
    kf["findings"] += [f for f in add.get("known_findings_proposed", [])]
try:
    open(pp, "w").write(json.dumps(prop, indent=1))
    open(kp, "w").write(json.dumps(kf, indent=1))
    rc = subprocess.call([os.path.join(root, "check"), pid] + rest, cwd=root)
finally:
    open(pp, "w").write(orig_p)
    open(kp, "w").write(orig_k)
    if os.path.exists(ep):
        # keep the slice's evidence beside the property's, restore the property's own
        os.replace(ep, os.path.join(root, "evidence", "%s-%s.json" % (sl, pid)))
    if orig_e is not None:
        open(ep, "w").write(orig_e)
sys.exit(rc)
