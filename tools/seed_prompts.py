#!/usr/bin/env python3
"""usage: seed_prompts.py <dir> — writes <dir>/<Cxx>/PROMPT.md and creates the scratch worktree <dir>/<Cxx>/repo (detached HEAD of /repo)
for every property: the brief of an independent "bug seeder" sub-agent, which gets the property text only and nothing from /verif."""
import json, os, subprocess, glob, sys
D = sys.argv[1]
props = {json.loads(l)['id']: json.loads(l) for l in open('/verif/properties.jsonl')}
tried = {}
for d in sorted(glob.glob('/verif/seeded/*')):
    m = json.load(open(d + '/meta.json'))
    tried.setdefault(m['property'], []).append("- %s: %s" % (", ".join(m.get('files', [])), m.get('summary', '')[:180].replace('\n', ' ')))
tmpl = '''# Task: seed one realistic property-breaking change into openkruise/rollouts

You are helping to evaluate a verification effort for **openkruise/rollouts** (a Kubernetes controller, Go). Your job is to act as
an independent "bug seeder": produce ONE realistic source change that breaks the semantic property below, while the repository
still compiles and its existing test suite still passes, plus a small demonstration (a Go test) that fails with your change and
passes without it.

Your scratch copy of the repository is the git worktree **{wt}** (a detached checkout of the current HEAD). Work ONLY there.
Never use `git stash` (it is shared between worktrees). Never read, list or touch anything under `/verif`, and never touch `/repo` itself or other directories under `{D}` than yours.
(Files named `zz_verif*.go` with build tag `verif` in the tree are test hooks; ignore them, do not edit them.)

## The property (this is all you get)

```json
{prop}
```

## What makes a good seeded change

* It is the kind of change a maintainer could plausibly make by accident and a reviewer could plausibly approve: a refactor, a
  "simplification", an "optimisation", a hardening, a changed comparison, a hoisted/reordered check, an aliasing slip, a helper
  shared between two call sites, an error that is swallowed or shadowed, a key/cache/label mix-up … Give it a plausible motive.
* It must need **something specific to manifest** — a particular interleaving, a crash or API fault at a particular point, a
  multi-step sequence of operations, an unusual (but legal) input, a rarely used workload kind / strategy / provider, or two
  cooperating sites that each look fine alone. NOT something ordinary use or the simplest happy-path test would expose at once.
* It must really violate the property as stated (think about which clause), not merely change behaviour.
* It compiles (`go build ./...`) and the **whole existing test suite passes unedited** with it.
* Prefer a site / mechanism that is **different** from these already-explored ones for this property (earlier rounds):
{tried}
  Look across all the anchor files of the property (and their callees, helpers in pkg/util, the API types, the Lua scripts) and pick a place nobody touched yet.
* **This round wants the hard kind.** Strongly prefer a change whose violation shows up ONLY under one of: (i) an API call that FAILS
  (a read — Get/List — returning a non-NotFound error, a conflict, or a write that fails) or a controller crash/restart at one particular
  point of a multi-write reconcile; (ii) a particular INTERLEAVING of the Rollout controller, the BatchRelease controller, the workload's own
  controller, the admission webhook and user actions (scale, plan edit, pause, jump, rollback, new revision, delete) — i.e. a multi-step history,
  not a single call; (iii) a rarely used configuration: a less common workload kind (native/Advanced StatefulSet, DaemonSet, third-party
  StatefulSet-like CR, native Deployment in partition or blue-green style), several traffic providers in one reference, the TrafficRouting CR
  (Rollouts bound to it by annotation, several Rollouts sharing one), `disableGenerateCanaryService`, rollout-id labels with rollback-in-batch,
  `failureThreshold`, percent plans on odd sizes, v1alpha1 objects, blue-green strategy with an HPA; (iv) two cooperating sites that each look correct alone
  (a helper whose contract shifts slightly and one caller that relied on the old contract); (v) the event handlers / predicates / requeue requests that
  decide WHEN a reconcile runs. Say in meta.json which of (i)–(v) it is.

## Demonstration

One new test file `zz_seed_demo_test.go` placed in exactly one package directory of the repository, containing test function(s)
whose names start with `TestSeed`. It must PASS on the unchanged tree and FAIL with your change. It may use the fake client and
helpers that the package's existing tests use. Keep it self-contained and deterministic.

## Sandbox facts

* No network. Each shell call needs: `export GOFLAGS=-mod=mod GOPROXY=off GOSUMDB=off GOTOOLCHAIN=local`
* Build: `cd {wt} && go build ./...`; whole suite: `cd {wt} && go test -vet=off -count=1 -timeout 25m ./pkg/... ./api/...`
  (`test/e2e` needs a live cluster — ignore it). The suite takes several minutes; run it once at the end with your change applied
  (and your demo file moved out of the tree, so the suite is unedited).
* Some packages load `./lua_configuration` relative to the working directory in `init()`; package tests run with cwd = package dir
  as usual, that is fine.
* Every shell call prints a harmless conda WARNING line.

## Deliverables — write them to **{out}/** (create it)

1. `patch.diff` — `git -C {wt} diff` of your source change ONLY (not the demo test). It must apply with `git apply` to a clean checkout of HEAD.
2. `zz_seed_demo_test.go` — the demonstration test file.
3. `demo_path.txt` — the package directory (relative to the repo root, e.g. `pkg/controller/rollout`) the demo file goes into.
4. `meta.json` — `{{"property": "{pid}", "summary": "<what you changed and the plausible motive>", "needs": "<what exactly is needed for it to manifest, and why ordinary use does not show it>", "clause": "<which part of the property statement it violates>", "kind": "<(i)-(v)>", "files": ["<changed files>"], "ran": ["<commands you ran and their outcome>"]}}`

Before you finish, verify yourself: (a) unchanged tree + demo → PASS, (b) changed tree + demo → FAIL, (c) changed tree builds,
(d) changed tree, demo file removed → whole suite passes. Leave the worktree with your change applied and the demo file removed.
Your final message: a 5-line summary (what, where, what it needs to manifest, outcome of (a)-(d)).
'''
for pid, p in props.items():
    wt = '%s/%s/repo' % (D, pid); out = '%s/%s/out' % (D, pid)
    os.makedirs('%s/%s' % (D, pid), exist_ok=True)
    if not os.path.exists(wt):
        subprocess.run(['git', '-C', '/repo', 'worktree', 'add', '--detach', wt, 'HEAD'], capture_output=True)
    open('%s/%s/PROMPT.md' % (D, pid), 'w').write(tmpl.format(D=D, wt=wt, out=out, pid=pid, prop=json.dumps(p, indent=1),
                                                     tried="\n".join("  " + t for t in tried.get(pid, []))))
print("prompts written to", D)
