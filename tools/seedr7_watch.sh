#!/bin/bash
# processes round-7 seed deliveries (/tmp/s7/<Cxx>/out) sequentially; stops when /tmp/s7/STOP exists
mkdir -p /verif/build/seedr7
while [ ! -f /tmp/s7/STOP ]; do
  for d in /tmp/s7/C*/out; do
    [ -d $d ] || continue
    id=$(basename $(dirname $d))
    [ -f $d/meta.json ] && [ -f $d/patch.diff ] && [ -f $d/demo_path.txt ] && [ -f $d/zz_seed_demo_test.go ] || continue
    [ -f /verif/build/seedr7/$id.done ] && continue
    age=$(( $(date +%s) - $(stat -c %Y $d/meta.json) ))
    [ $age -lt 90 ] && continue
    SEEDDIR=/tmp/s7 /verif/tools/seedr3.sh $id R7 > /verif/build/seedr7/$id.log 2>&1
    touch /verif/build/seedr7/$id.done
  done
  sleep 20
done
