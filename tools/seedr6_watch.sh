#!/bin/bash
# processes round-6 seed deliveries (/tmp/s6/<Cxx>/out) sequentially; stops when /tmp/s6/STOP exists
mkdir -p /verif/build/seedr6
while [ ! -f /tmp/s6/STOP ]; do
  for d in /tmp/s6/C*/out; do
    [ -d $d ] || continue
    id=$(basename $(dirname $d))
    [ -f $d/meta.json ] && [ -f $d/patch.diff ] && [ -f $d/demo_path.txt ] && [ -f $d/zz_seed_demo_test.go ] || continue
    [ -f /verif/build/seedr6/$id.done ] && continue
    age=$(( $(date +%s) - $(stat -c %Y $d/meta.json) ))
    [ $age -lt 90 ] && continue
    SEEDDIR=/tmp/s6 /verif/tools/seedr3.sh $id R6 > /verif/build/seedr6/$id.log 2>&1
    touch /verif/build/seedr6/$id.done
  done
  sleep 20
done
