#!/usr/bin/env python3
"""seedkeep.py <outdir> <seed-id> <verify-line>: store a confirmed seeded change under /verif/seeded/<seed-id>/"""
import sys, json, os, shutil
out, sid, line = sys.argv[1], sys.argv[2], sys.argv[3]
d = f"/verif/seeded/{sid}"
os.makedirs(d, exist_ok=True)
shutil.copy(f"{out}/patch.diff", d)
shutil.copy(f"{out}/zz_seed_demo_test.go", f"{d}/zz_seed_demo_test.go.txt")
meta = json.load(open(f"{out}/meta.json"))
meta["demo_path"] = open(f"{out}/demo_path.txt").read().strip()
meta["demo_file"] = "zz_seed_demo_test.go.txt (copy to <demo_path>/zz_seed_demo_test.go)"
meta["confirmed_by_main"] = {"how": "tools/seedverify.sh in a fresh scratch worktree of /repo HEAD (removed afterwards): demo passes on the unchanged tree, the change applies and builds, the demo fails with it, the whole existing suite (all packages but test/e2e, which needs a live cluster) passes with it", "result": line}
json.dump(meta, open(f"{d}/meta.json", "w"), indent=1)
print("kept", d)
