#!/usr/bin/env python3
"""merge_props_add.py <slice>: merge props-add/<slice>.json into props/Cxx.json and known_findings.json"""
import json, sys, os
V = os.path.dirname(os.path.dirname(os.path.abspath(__file__)))
sl = sys.argv[1]
add = json.load(open(f"{V}/props-add/{sl}.json"))
for pid, a in add.items():
    if not pid.startswith("C") or not isinstance(a, dict):
        continue
    path = f"{V}/props/{pid}.json"
    if os.path.exists(path):
        p = json.load(open(path))
    else:
        p = {"id": pid, "lean_modules": [], "theorems": [], "suites": [], "trusted_base": [], "assumptions": [], "gen_tables": []}
    for key in ("lean_modules", "theorems", "trusted_base", "assumptions", "gen_tables", "oracle_prefixes"):
        for x in a.get(key, []):
            p.setdefault(key, [])
            if x not in p[key]:
                p[key].append(x)
    for s in a.get("suites", []):
        if not any(t["name"] == s["name"] for t in p["suites"]):
            p["suites"].append(s)
    for key in ("level_text", "rule", "technique", "claimed", "na_reason"):
        if key in a and (key not in p or not os.path.exists(path)):
            p[key] = a[key]
    if "level_text_add" in a:
        p["level_text"] = p.get("level_text", "") + " " + a["level_text_add"]
    json.dump(p, open(path, "w"), indent=1)
    print("merged into", pid)
kf = add.get("known_findings_proposed", [])
if kf:
    k = json.load(open(f"{V}/known_findings.json"))
    have = {f["id"] for f in k["findings"]}
    for f in kf:
        if f["id"] not in have:
            k["findings"].append(f)
            print("finding", f["id"])
    json.dump(k, open(f"{V}/known_findings.json", "w"), indent=1)
