#!/usr/bin/env python3
"""dev helper: show differing leaf paths between impl and model for each disagreement (grouped)"""
import sys, json, collections
def leaves(x, p=""):
    if isinstance(x, dict):
        for k in sorted(x): yield from leaves(x[k], p + "." + k)
    elif isinstance(x, list):
        yield p, json.dumps(x, sort_keys=True)
    else:
        yield p, json.dumps(x)
groups = collections.defaultdict(list)
for la, lb in zip(open(sys.argv[1]), open(sys.argv[2])):
    a, b = json.loads(la), json.loads(lb)
    if "error" in b: groups["ERR " + b["error"][:80]].append(a); continue
    m, i = b.get("model"), a["impl"]
    if m is None or json.dumps(m, sort_keys=True) == json.dumps(i, sort_keys=True): continue
    dm, di = dict(leaves(m)), dict(leaves(i))
    diff = sorted(k for k in set(dm) | set(di) if dm.get(k) != di.get(k))
    key = " | ".join("%s impl=%s model=%s" % (k, di.get(k), dm.get(k)) for k in diff[:4])
    groups[key].append(a)
for k, v in sorted(groups.items(), key=lambda kv: -len(kv[1]))[:int(sys.argv[3]) if len(sys.argv) > 3 else 15]:
    print(len(v), k[:400])
    print("     in:", json.dumps(min(v, key=lambda x: len(json.dumps(x)))["in"], sort_keys=True)[:int(sys.argv[4]) if len(sys.argv) > 4 else 0])
