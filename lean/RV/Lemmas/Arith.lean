import RV.Model.Arith
/-! Helper lemmas about the arithmetic core. -/
namespace RV.Arith
open IntOrPct

theorem ceilDiv100_ge (a : Int) : a ≤ 100 * ceilDiv100 a := by
  unfold ceilDiv100; omega

theorem ceilDiv100_lt (a : Int) : 100 * ceilDiv100 a < a + 100 := by
  unfold ceilDiv100; omega

theorem ceilDiv100_mono {a b : Int} (h : a ≤ b) : ceilDiv100 a ≤ ceilDiv100 b := by
  unfold ceilDiv100; omega

theorem ceilDiv100_nonneg {a : Int} (h : 0 ≤ a) : 0 ≤ ceilDiv100 a := by
  unfold ceilDiv100; omega

theorem ceilDiv100_mul100 (a : Int) : ceilDiv100 (100 * a) = a := by
  unfold ceilDiv100; omega

/-- For positive operands Go's truncating division is floor division. -/
theorem tdiv_pos_eq {a b : Int} (ha : 0 ≤ a) (_hb : 0 < b) : a.tdiv b = a / b := by
  exact Int.tdiv_eq_ediv_of_nonneg ha

/-- `q = ⌊100·s / R⌋` brackets: `q·R ≤ 100·s < q·R + R`. -/
theorem floor_bracket {s R : Int} (hR : 0 < R) :
    (100 * s / R) * R ≤ 100 * s ∧ 100 * s < (100 * s / R) * R + R := by
  constructor
  · exact Int.ediv_mul_le _ (by omega)
  · have := Int.lt_ediv_add_one_mul_self (100 * s) hR
    have h2 : (100 * s / R + 1) * R = (100 * s / R) * R + R := by
      rw [Int.add_mul, Int.one_mul]
    omega

theorem calcBatch_nonneg (R : Int) (e : IntOrPct) (hR : 0 ≤ R) : 0 ≤ calcBatchReplicas R e := by
  unfold calcBatchReplicas; simp only []; split
  · exact hR
  · split <;> omega

theorem calcBatch_le (R : Int) (e : IntOrPct) (hR : 0 ≤ R) : calcBatchReplicas R e ≤ R := by
  unfold calcBatchReplicas; simp only []; split
  · omega
  · split <;> omega

end RV.Arith
