/-
  Progress of the closed loop, round-boundary classes 1, 2, 4, 30 and the terminal class 40: one fair round from a state of the
  class leads to a state of the invariant with a strictly smaller measure (`round_cls_X`), and keeps `doneInv` (`done_cls_X`)
  and `polInv` (`pol_cls_X`).
-/
import RV.Lemmas.ClosedLoopLiveBase
namespace RV.Lemmas.ClosedLoop
open RV.Arith RV.Traffic RV.RolloutSM RV.ClosedLoop RV.Oracle.ClosedLoop RV.Props.Reconcile

/-! ### the last three labels, explicitly -/

/-- what `approve` does to the rollout -/
def lG1_ap (ro : Rollout) : Rollout :=
  match ro.sub with
  | some sub => if sub.state = .paused then { ro with sub := some { sub with state := .ready } } else ro
  | none => ro

/-- what `tick` does to the rollout -/
def lG1_tk (ro : Rollout) : Rollout :=
  { ro with sub := ro.sub.map (fun sub => { sub with lastUpdate := ageAge sub.lastUpdate }), condAge := ageAge ro.condAge }

/-- what `tick` does to the grace map -/
def lG1_tm (m : Mem) : Mem :=
  { patchService := ageExp m.patchService, restoreService := ageExp m.restoreService,
    restoreGateway := ageExp m.restoreGateway, removeCanaryService := ageExp m.removeCanaryService,
    updateRoute := ageExp m.updateRoute }

/-- the state after a round whose Rollout reconcile wrote only the status `ro'` and that has no BatchRelease -/
def lG1_next (s : CS) (ro' : Rollout) (w : CWl) : CS :=
  { gone := false, ro := lG1_tk (lG1_ap ro'), wl := some (envWl w), br := none, net := s.net, mem := lG1_tm s.mem }

theorem lG1_approve_eq (x : CS) (h : x.gone = false) : approve x = { x with ro := lG1_ap x.ro } := by
  obtain ⟨g, ro, wl, br, net, mem⟩ := x
  simp only at h
  subst h
  unfold approve lG1_ap
  rw [if_neg (by simp)]
  dsimp only
  cases ro.sub with
  | none => rfl
  | some sub =>
    dsimp only
    split <;> rfl

theorem lG1_tick_eq (x : CS) (h : x.gone = false) : tick x = { x with ro := lG1_tk x.ro, mem := lG1_tm x.mem } := by
  unfold tick lG1_tk lG1_tm
  dsimp only
  rw [if_neg (by simp [h])]

theorem lG1_ageAge_idem (a : Age) : ageAge (ageAge a) = ageAge a := by cases a <;> rfl
theorem lG1_ageExp_idem (a : Exp) : ageExp (ageExp a) = ageExp a := by cases a <;> rfl

theorem lG1_tk_idem (ro : Rollout) : lG1_tk (lG1_tk ro) = lG1_tk ro := by
  unfold lG1_tk
  dsimp only
  rw [lG1_ageAge_idem]
  cases ro.sub with
  | none => rfl
  | some sub => simp only [Option.map_some, lG1_ageAge_idem]

theorem lG1_tm_idem (m : Mem) : lG1_tm (lG1_tm m) = lG1_tm m := by
  unfold lG1_tm
  simp only [lG1_ageExp_idem]

theorem lG1_ap_frame (ro : Rollout) :
    (lG1_ap ro).phase = ro.phase ∧ (lG1_ap ro).reason = ro.reason ∧ (lG1_ap ro).steps = ro.steps ∧
    (lG1_ap ro).hasTraffic = ro.hasTraffic ∧ (lG1_ap ro).condAge = ro.condAge := by
  unfold lG1_ap
  split
  · split <;> exact ⟨rfl, rfl, rfl, rfl, rfl⟩
  · exact ⟨rfl, rfl, rfl, rfl, rfl⟩

theorem lG1_ta_frame (ro : Rollout) :
    (lG1_tk (lG1_ap ro)).phase = ro.phase ∧ (lG1_tk (lG1_ap ro)).reason = ro.reason ∧ (lG1_tk (lG1_ap ro)).steps = ro.steps ∧
    (lG1_tk (lG1_ap ro)).hasTraffic = ro.hasTraffic ∧ (lG1_tk (lG1_ap ro)).condAge = ageAge ro.condAge := by
  obtain ⟨h1, h2, h3, h4, h5⟩ := lG1_ap_frame ro
  refine ⟨h1, h2, h3, h4, ?_⟩
  show ageAge (lG1_ap ro).condAge = _
  rw [h5]

theorem lG1_ta_sub (ro : Rollout) :
    (lG1_tk (lG1_ap ro)).sub = ro.sub.map (fun sub =>
      { sub with state := if sub.state = .paused then .ready else sub.state, lastUpdate := ageAge sub.lastUpdate }) := by
  unfold lG1_tk lG1_ap
  dsimp only
  cases hs : ro.sub with
  | none => dsimp only; rw [hs]; rfl
  | some sub =>
    dsimp only
    split
    · rename_i hp; simp only [Option.map_some, if_pos hp]
    · rename_i hp; rw [hs]; simp only [Option.map_some, if_neg hp]

/-! ### the simulated CloneSet controller is idempotent -/

theorem lG1_envWl_paused (w : CWl) : (envWl w).paused = w.paused := by
  unfold envWl
  dsimp only
  split <;> rfl

def lG1_allowed (w : CWl) : Int :=
  if w.paused then w.updated
  else match w.partition with
    | some p => w.replicas - (if scaledV p w.replicas true > w.replicas then w.replicas else scaledV p w.replicas true)
    | none => w.replicas

def lG1_upd (w : CWl) : Int := if w.updated < lG1_allowed w then lG1_allowed w else w.updated

theorem lG1_envWl_ne (w : CWl) (hne : w.updateRevision ≠ w.currentRevision) :
    envWl w = { w with observedGeneration := w.generation, statusReplicas := w.replicas, updated := lG1_upd w,
                       updatedReady := lG1_upd w,
                       currentRevision := if lG1_upd w ≥ w.replicas then w.updateRevision else w.currentRevision } := by
  unfold envWl
  dsimp only
  rw [if_pos hne]
  rfl

theorem lG1_envWl_eq (w : CWl) (he : w.updateRevision = w.currentRevision) :
    envWl w = { w with observedGeneration := w.generation, statusReplicas := w.replicas, updated := w.replicas,
                       updatedReady := w.replicas } := by
  unfold envWl
  dsimp only
  rw [if_neg (by simp [he])]

theorem lG1_upd_le (w : CWl) (h2 : 0 ≤ w.replicas) (h3 : w.updated ≤ w.replicas)
    (h5 : ∀ k, w.partition = some k → 0 ≤ scaledV k w.replicas true) :
    lG1_upd w ≤ w.replicas ∧ lG1_allowed w ≤ lG1_upd w ∧ w.updated ≤ lG1_upd w := by
  have hle : lG1_allowed w ≤ w.replicas := by
    unfold lG1_allowed
    split
    · exact h3
    · split
      · rename_i p hp
        have := h5 p hp
        split <;> omega
      · exact Int.le_refl _
  unfold lG1_upd
  split <;> omega

theorem lG1_allowed_w2 (w : CWl) (u : Int) (c : String) :
    lG1_allowed { w with observedGeneration := w.generation, statusReplicas := w.replicas, updated := u, updatedReady := u,
                         currentRevision := c } = if w.paused then u else lG1_allowed w := by
  unfold lG1_allowed
  dsimp only
  split <;> rfl

theorem lG1_envWl_idem (w : CWl) (h : wlOK w = true) : envWl (envWl w) = envWl w := by
  unfold wlOK at h
  simp only [Bool.and_eq_true, Bool.or_eq_true, decide_eq_true_eq, beq_iff_eq, bne_iff_ne] at h
  obtain ⟨⟨⟨⟨h1, h2⟩, h3⟩, h4⟩, h5⟩ := h
  have h5' : ∀ k, w.partition = some k → 0 ≤ scaledV k w.replicas true := by
    intro k hk; rw [hk] at h5; simpa using h5
  by_cases hne : w.updateRevision = w.currentRevision
  · rw [lG1_envWl_eq w hne, lG1_envWl_eq]
    exact hne
  · obtain ⟨k1, k2, k3⟩ := lG1_upd_le w h2 h3 h5'
    rw [lG1_envWl_ne w hne]
    by_cases hge : lG1_upd w ≥ w.replicas
    · have e : lG1_upd w = w.replicas := by omega
      rw [if_pos hge, e, lG1_envWl_eq]
      rfl
    · rw [if_neg hge, lG1_envWl_ne]
      · dsimp only
        have eu : ∀ c, lG1_upd { w with observedGeneration := w.generation, statusReplicas := w.replicas, updated := lG1_upd w, updatedReady := lG1_upd w, currentRevision := c } = lG1_upd w := by
          intro c
          rw [lG1_upd, lG1_allowed_w2]
          dsimp only
          split
          · rw [if_neg (by omega)]
          · rw [if_neg (by omega)]
        rw [eu, if_neg hge]
      · exact hne

/-! ### one round without BatchRelease whose Rollout reconcile wrote only the status -/

theorem lG1_stepRo_status (s : CS) (r : StepResult) (hgone : s.gone = false) (hrec : reconcile (roWorld s) = .val r)
    (hwl : r.w.wl = (roWorld s).wl) (hbr : r.w.br = (roWorld s).br) (hnet : r.w.net = s.net) (hmem : r.w.mem = s.mem)
    (hg : r.roGone = false) : stepRo s = some { s with gone := false, ro := r.w.ro } := by
  rw [stepRo_eq s hgone r hrec, landRo_status s r hwl hbr hnet hmem, hg]

theorem lG1_round_of (s : CS) (w : CWl) (ro' : Rollout) (h : fwdInv s = true) (hw : s.wl = some w) (hbr : s.br = none)
    (hro : stepRo s = some { s with gone := false, ro := ro' }) :
    round s = some (lG1_next s ro' w) ∧ fwdInv (lG1_next s ro' w) = true := by
  obtain ⟨a, b, ha, _, hb, _, hr, hf⟩ := round_fwd s h
  rw [hro] at ha
  cases ha
  have hb' : stepBr { s with gone := false, ro := ro' } = some { s with gone := false, ro := ro' } := by
    unfold stepBr; dsimp only; rw [hbr]
  rw [hb'] at hb
  cases hb
  have e : roundTail { s with gone := false, ro := ro' } = lG1_next s ro' w := by
    unfold roundTail
    rw [lG1_approve_eq _ rfl, lG1_tick_eq _ rfl]
    unfold lG1_next
    dsimp only
    rw [hw, hbr]; rfl
  rw [e] at hr hf
  exact ⟨hr, hf⟩

theorem lG1_next_boundary (s : CS) (ro' : Rollout) (w : CWl) (hwok : wlOK w = true) : atBoundary (lG1_next s ro' w) = true := by
  unfold atBoundary
  have e1 : tick (lG1_next s ro' w) = lG1_next s ro' w := by
    rw [lG1_tick_eq _ rfl]; unfold lG1_next; dsimp only; rw [lG1_tk_idem, lG1_tm_idem]
  rw [e1]
  unfold lG1_next; dsimp only
  rw [lG1_envWl_idem w hwok]; simp

theorem lG1_next_cfg (s : CS) (ro' : Rollout) (w : CWl) (hw : s.wl = some w) (hc : liveCfg s = true)
    (hst : ro'.steps = s.ro.steps) (htr : ro'.hasTraffic = s.ro.hasTraffic) : liveCfg (lG1_next s ro' w) = true := by
  obtain ⟨_, _, f3, f4, _⟩ := lG1_ta_frame ro'
  obtain ⟨e1, _, _, e4, _⟩ := envWl_frame w
  unfold liveCfg at hc ⊢
  rw [hw] at hc
  unfold lG1_next planOf at *
  dsimp only at hc ⊢
  rw [f3, f4, hst, htr, e1, e4, lG1_envWl_paused]
  exact hc

theorem lG1_cls_phase (s : CS) (k : Nat) (hc : cls s = k) (hk : k = 1 ∨ k = 2 ∨ k = 4 ∨ k = 30 ∨ k = 40) :
    ∃ w, s.wl = some w ∧ (s.ro.phase = .healthy ∨ (s.ro.phase = .progressing ∧ (s.ro.reason = .initializing ∨ s.ro.reason = .completed))) := by
  unfold cls at hc
  split at hc
  · omega
  · rename_i w hw
    refine ⟨w, hw, ?_⟩
    split at hc
    · left; assumption
    · right; exact ⟨by assumption, Or.inl (by assumption)⟩
    · exfalso
      repeat' split at hc
      all_goals omega
    · exfalso
      repeat' split at hc
      all_goals omega
    · right; exact ⟨by assumption, Or.inr (by assumption)⟩
    · omega

/-! ### evaluating `cls` and `mu` -/

theorem lG1_cls_healthy (s : CS) (w : CWl) (hw : s.wl = some w) (hph : s.ro.phase = .healthy) :
    cls s = if w.inProgressAnno then
        (if w.updateRevision == w.currentRevision then 0 else if w.generation = w.observedGeneration then 2
         else if w.updated < w.replicas then 1 else 0)
      else if s.br.isNone && (match s.ro.sub with | some sub => sub.state != .paused | none => false) &&
              csObserve s.ro (roWl w) == s.ro then 40 else 0 := by
  unfold cls; rw [hw]; dsimp only; rw [hph]; rfl

theorem lG1_cls_init (s : CS) (w : CWl) (hw : s.wl = some w) (hph : s.ro.phase = .progressing) (hr : s.ro.reason = .initializing) :
    cls s = if s.ro.condAge = .fresh || w.updateRevision == w.currentRevision then 0 else 4 := by
  unfold cls; rw [hw]; dsimp only; rw [hph, hr]

theorem lG1_cls_completed (s : CS) (w : CWl) (hw : s.wl = some w) (hph : s.ro.phase = .progressing) (hr : s.ro.reason = .completed) :
    cls s = if s.br.isNone && s.ro.sub.isSome then 30 else 0 := by
  unfold cls; rw [hw]; dsimp only; rw [hph, hr]

theorem lG1_cls_roll_init (s : CS) (w : CWl) (sub : Sub) (hw : s.wl = some w) (hph : s.ro.phase = .progressing)
    (hr : s.ro.reason = .inRolling) (hs : s.ro.sub = some sub) (hst : sub.state = .init) (hbr : s.br = none) :
    cls s = if sub.curIdx = 1 && w.updateRevision != w.currentRevision then 5 else 0 := by
  unfold cls; rw [hw]; dsimp only; rw [hph, hr]; dsimp only; rw [hs]; dsimp only; rw [hst]; dsimp only; rw [hbr]

theorem lG1_mu_healthy (s : CS) (w : CWl) (hw : s.wl = some w) (hph : s.ro.phase = .healthy) :
    mu s = if w.inProgressAnno then 32 + s.ro.steps.length * stepW + 2 + (if w.generation = w.observedGeneration then 0 else 1) else 0 := by
  unfold mu; rw [hw]; dsimp only; rw [hph]

theorem lG1_mu_init (s : CS) (w : CWl) (hw : s.wl = some w) (hph : s.ro.phase = .progressing) (hr : s.ro.reason = .initializing) :
    mu s = 32 + s.ro.steps.length * stepW + (if s.ro.condAge = .fresh then 1 else 0) := by
  unfold mu; rw [hw]; dsimp only; rw [hph, hr]

theorem lG1_mu_completed (s : CS) (w : CWl) (hw : s.wl = some w) (hph : s.ro.phase = .progressing) (hr : s.ro.reason = .completed) :
    mu s = 1 := by
  unfold mu; rw [hw]; dsimp only; rw [hph, hr]

theorem lG1_mu_roll_init (s : CS) (w : CWl) (sub : Sub) (hw : s.wl = some w) (hph : s.ro.phase = .progressing)
    (hr : s.ro.reason = .inRolling) (hs : s.ro.sub = some sub) (hst : sub.state = .init) :
    mu s = 32 + (s.ro.steps.length - sub.curIdx.toNat) * stepW + 40 := by
  unfold mu; rw [hw]; dsimp only; rw [hph, hr]; dsimp only; rw [hs]; dsimp only; unfold subRank; rw [hst]

/-! ### class facts -/

theorem lG1_boundary (s : CS) (w : CWl) (hw : s.wl = some w) (hb : atBoundary s = true) : envWl w = w ∧ tick s = s := by
  unfold atBoundary at hb
  rw [hw] at hb
  simpa using hb

theorem lG1_envWl_gen (w : CWl) : (envWl w).generation = w.generation ∧ (envWl w).observedGeneration = w.generation := by
  unfold envWl
  dsimp only
  split <;> exact ⟨rfl, rfl⟩

theorem lG1_cons (w : CWl) (h : envWl w = w) : (roWl w).consistent = true := by
  have := (lG1_envWl_gen w).2
  rw [h] at this
  unfold roWl
  simp [this]

theorem lG1_wl_R (w : CWl) (h : wlOK w = true) : 0 ≤ w.replicas := by
  unfold wlOK at h
  simp only [Bool.and_eq_true, decide_eq_true_eq] at h
  exact h.1.1.1.2

theorem lG1_obs_condAge (ro : Rollout) (wl : WL) : (csObserve ro wl).condAge = ro.condAge := by
  unfold csObserve
  split
  · split <;> rfl
  · rfl

theorem lG1_obs_sub (ro : Rollout) (wl : WL) (sub0 : Sub) (hs : ro.sub = some sub0) :
    (csObserve ro wl).sub = some (if sub0.canaryRev ≠ "" ∧ sub0.canaryRev = wl.canaryRev then
      { sub0 with observedRolloutID := getRolloutID wl, observedGen := wl.generation } else sub0) := by
  unfold csObserve
  rw [hs]
  dsimp only
  split
  · rfl
  · exact hs

theorem lG1_obs_fix (ro : Rollout) (wl : WL) (sub : Sub) (hs : ro.sub = some sub)
    (h : sub.canaryRev ≠ "" ∧ sub.canaryRev = wl.canaryRev → sub.observedRolloutID = getRolloutID wl ∧ sub.observedGen = wl.generation) :
    csObserve ro wl = ro := by
  unfold csObserve
  rw [hs]
  dsimp only
  split
  · rename_i hc
    obtain ⟨a, b⟩ := h hc
    rw [← a, ← b]
    cases ro
    simp only at hs
    subst hs
    rfl
  · rfl

theorem lG1_csPhase_anno (ro o : Rollout) (wl : WL) (h : o.phase = .healthy) (ha : wl.inProgressAnno = true) :
    csPhase ro o wl = { o with phase := .progressing, reason := .initializing, condAge := .fresh, succeeded := none } := by
  unfold csPhase; rw [h]; dsimp only; rw [if_pos ha]

theorem lG1_csPhase_idle (ro o : Rollout) (wl : WL) (h : o.phase = .healthy) (ha : wl.inProgressAnno = false)
    (hs : o.sub.isNone = false) : csPhase ro o wl = o := by
  unfold csPhase; rw [h]; dsimp only; rw [if_neg (by simp [ha]), if_neg (by simp [hs])]

/-- Initializing without traffic routing, the condition older than the grace period: start rolling at step 1 -/
theorem lG1_reconcile_init (w : World) (wl : WL) (hg : RoGood w.ro) (hwl : w.wl = some wl) (hc : wl.consistent = true)
    (hph : w.ro.phase = .progressing) (hr : w.ro.reason = .initializing) (htr : w.ro.hasTraffic = false)
    (hage : w.ro.condAge ≠ .fresh) :
    reconcile w = .val { w := { w with ro := { csObserve w.ro wl with sub := some (initSub w.ro wl), reason := .inRolling } }, roGone := false, requeue := false, err := false, writes := [] } := by
  have hst : (csObserve w.ro wl).steps = w.ro.steps := (csObserve_same w.ro wl).1.1
  have htr' : (csObserve w.ro wl).hasTraffic = false := (csObserve_same w.ro wl).1.2.1.trans htr
  have hne : (csObserve w.ro wl).steps.isEmpty = false := by rw [hst]; simpa using hg.steps
  rw [reconcile_eq_core_of_alive w hg.notDeleting hg.enabled]
  unfold reconcileCore
  dsimp only
  rw [hf_good w.ro hg]
  dsimp only
  rw [hwl, cs_good w.ro wl hg hph hc]
  dsimp only
  rw [hph]
  dsimp only
  rw [if_neg (by simp [hc]), hr]
  dsimp only
  rw [if_neg (by rw [hne]; simp)]
  unfold initSub
  rw [hst]
  rw [if_neg (by rw [htr']; simp), if_neg (by rw [lG1_obs_condAge]; exact hage)]

/-- the classes of the Healthy phase -/
theorem lG1_cls_h (s : CS) (k : Nat) (hc : cls s = k) (hk : k = 1 ∨ k = 2 ∨ k = 40) :
    ∃ w, s.wl = some w ∧ s.ro.phase = .healthy := by
  obtain ⟨w, hw, hp⟩ := lG1_cls_phase s k hc (by omega)
  refine ⟨w, hw, ?_⟩
  rcases hp with hp | ⟨hp, hr | hr⟩
  · exact hp
  · rw [lG1_cls_init s w hw hp hr] at hc; split at hc <;> omega
  · rw [lG1_cls_completed s w hw hp hr] at hc; split at hc <;> omega

theorem lG1_next_steps (s : CS) (ro' : Rollout) (w : CWl) : (lG1_next s ro' w).ro.steps = ro'.steps := (lG1_ta_frame ro').2.2.1

/-! ### the classes -/

theorem lG1_cls_12 (s : CS) (k : Nat) (hc : cls s = k) (hk : k = 1 ∨ k = 2) :
    ∃ w, s.wl = some w ∧ s.ro.phase = .healthy ∧ w.inProgressAnno = true ∧ w.updateRevision ≠ w.currentRevision ∧
      (w.generation = w.observedGeneration ↔ k = 2) ∧ (k = 1 → w.updated < w.replicas) := by
  obtain ⟨w, hw, hph⟩ := lG1_cls_h s k hc (by omega)
  rw [lG1_cls_healthy s w hw hph] at hc
  refine ⟨w, hw, hph, ?_⟩
  cases ha : w.inProgressAnno
  · rw [ha] at hc; simp only [Bool.false_eq_true, if_false] at hc; exfalso; (repeat' split at hc) <;> omega
  · rw [ha] at hc
    simp only [if_true] at hc
    split at hc
    · omega
    · rename_i hne
      refine ⟨rfl, by simpa using hne, ?_⟩
      split at hc
      · rename_i hgen; exact ⟨⟨fun _ => hc.symm, fun _ => hgen⟩, fun g => by omega⟩
      · rename_i hgen
        split at hc
        · rename_i hu; exact ⟨⟨fun g => absurd g hgen, fun g => by omega⟩, fun _ => hu⟩
        · omega

theorem lG1_cfg_R (s : CS) (w : CWl) (hw : s.wl = some w) (h : liveCfg s = true) : 0 < w.replicas ∧ w.paused = false := by
  unfold liveCfg at h
  rw [hw] at h
  simp only [Bool.and_eq_true, decide_eq_true_eq, Bool.not_eq_true'] at h
  exact ⟨h.2.1.1.1, h.2.1.2⟩

/-- a workload held back at 100 % with pods still to update keeps its current revision -/
theorem lG1_envWl_rev (w : CWl) (hheld : w.partition = some (.pct 100)) (hR : 0 < w.replicas) (hu : w.updated < w.replicas)
    (hne : w.updateRevision ≠ w.currentRevision) : (envWl w).updateRevision ≠ (envWl w).currentRevision := by
  have hlt : lG1_upd w < w.replicas := by
    have ha : lG1_allowed w ≤ (if w.updated < 0 then 0 else w.updated) := by
      unfold lG1_allowed
      rw [hheld]
      dsimp only
      rw [RV.Lemmas.ClosedLoop.scaled_pct100]
      split <;> split <;> omega
    unfold lG1_upd
    split at ha <;> split <;> omega
  rw [lG1_envWl_ne w hne]
  dsimp only
  rw [if_neg (by omega)]
  exact hne

theorem lG1_r1 (s : CS) (h : liveInv s = true) (hc : cls s = 1) :
    ∃ s', round s = some s' ∧ s'.br = none ∧ mu s' < mu s ∧ 12 < mu s' ∧ liveInv s' = true := by
  obtain ⟨hf, hcfg, _, _⟩ := (liveInv_iff s).1 h
  obtain ⟨w, hw, hph, hanno, hne, hgen, hu⟩ := lG1_cls_12 s 1 hc (Or.inl rfl)
  have hu : w.updated < w.replicas := hu rfl
  have hgen : w.generation ≠ w.observedGeneration := fun g => by have := hgen.1 g; omega
  obtain ⟨hgone, hg, w', hw', hwok, hmono, hbro, hpi⟩ := fwd_parts s hf
  rw [hw] at hw'; cases hw'
  rw [phaseInv_healthy s w hph] at hpi
  simp only [Bool.and_eq_true, Option.isNone_iff_eq_none, hanno, Bool.not_true, Bool.false_or] at hpi
  have hbr : s.br = none := hpi.1
  have hheld := (held_iff w).1 hpi.2
  have hcons : (roWl w).consistent = false := by unfold roWl; simp [hgen]
  have hrec := reconcile_wait (roWorld s) (roWl w) hg (world_wl s w hw) hcons
  have hro := lG1_stepRo_status s _ hgone hrec rfl rfl rfl rfl rfl
  obtain ⟨hround, hfwd⟩ := lG1_round_of s w s.ro hf hw hbr hro
  have hph' : (lG1_next s s.ro w).ro.phase = .healthy := (lG1_ta_frame s.ro).1.trans hph
  have hanno' : (envWl w).inProgressAnno = true := (envWl_frame w).2.2.2.2.trans hanno
  have hgen' : (envWl w).generation = (envWl w).observedGeneration := by
    rw [(lG1_envWl_gen w).1, (lG1_envWl_gen w).2]
  refine ⟨_, hround, rfl, ?_, ?_, ?_⟩
  · rw [lG1_mu_healthy _ (envWl w) rfl hph', lG1_mu_healthy s w hw hph, hanno', hanno, if_pos rfl, if_pos rfl, if_pos hgen',
      if_neg hgen, lG1_next_steps]
    omega
  · rw [lG1_mu_healthy _ (envWl w) rfl hph', hanno', if_pos rfl]
    omega
  · have hne' := lG1_envWl_rev w hheld (lG1_cfg_R s w hw hcfg).1 hu hne
    have hcls : cls (lG1_next s s.ro w) = 2 := by
      rw [lG1_cls_healthy _ (envWl w) rfl hph', hanno', if_pos rfl, if_neg (by simpa using hne'), if_pos hgen']
    exact (liveInv_iff _).2 ⟨hfwd, lG1_next_cfg s s.ro w hw hcfg rfl rfl, by rw [hcls]; decide,
      Or.inr (lG1_next_boundary s s.ro w hwok)⟩

theorem lG1_r2 (s : CS) (h : liveInv s = true) (hc : cls s = 2) :
    ∃ s', round s = some s' ∧ liveInv s' = true ∧ mu s' < mu s ∧ 12 < mu s' ∧ s'.br = none := by
  obtain ⟨hf, hcfg, _, hb⟩ := (liveInv_iff s).1 h
  have hb : atBoundary s = true := by
    rcases hb with hb | hb
    · omega
    · exact hb
  obtain ⟨w, hw, hph, hanno, hne, hgen, _⟩ := lG1_cls_12 s 2 hc (Or.inr rfl)
  have hgen : w.generation = w.observedGeneration := hgen.2 rfl
  have henv := (lG1_boundary s w hw hb).1
  obtain ⟨hgone, hg, w', hw', hwok, hmono, hbro, hpi⟩ := fwd_parts s hf
  rw [hw] at hw'; cases hw'
  rw [phaseInv_healthy s w hph] at hpi
  simp only [Bool.and_eq_true, Option.isNone_iff_eq_none] at hpi
  have hbr : s.br = none := hpi.1
  have hcons : (roWl w).consistent = true := by unfold roWl; simp [hgen]
  have hrec := reconcile_healthy (roWorld s) (roWl w) hg (world_wl s w hw) hcons hph
  have hro : stepRo s = some { s with gone := false, ro := csPhase s.ro (csObserve s.ro (roWl w)) (roWl w) } :=
    lG1_stepRo_status s _ hgone hrec rfl rfl rfl rfl rfl
  have hoph : (csObserve s.ro (roWl w)).phase = .healthy := (csObserve_same s.ro (roWl w)).2.2.trans hph
  have hro' := lG1_csPhase_anno s.ro (csObserve s.ro (roWl w)) (roWl w) hoph hanno
  generalize hR : csPhase s.ro (csObserve s.ro (roWl w)) (roWl w) = R at hro hro'
  obtain ⟨hround, hfwd⟩ := lG1_round_of s w R hf hw hbr hro
  have hsame := (csObserve_same s.ro (roWl w)).1
  have hst : R.steps = s.ro.steps := by rw [hro']; exact hsame.1
  have htr : R.hasTraffic = s.ro.hasTraffic := by rw [hro']; exact hsame.2.1
  obtain ⟨t1, t2, t3, t4, t5⟩ := lG1_ta_frame R
  have hph' : (lG1_next s R w).ro.phase = .progressing := by rw [show (lG1_next s R w).ro.phase = R.phase from t1, hro']
  have hr' : (lG1_next s R w).ro.reason = .initializing := by rw [show (lG1_next s R w).ro.reason = R.reason from t2, hro']
  have hage' : (lG1_next s R w).ro.condAge ≠ .fresh := by
    rw [show (lG1_next s R w).ro.condAge = ageAge R.condAge from t5, hro']
    show ageAge Age.fresh ≠ Age.fresh
    decide
  have hne' : (envWl w).updateRevision ≠ (envWl w).currentRevision := by rw [henv]; exact hne
  have hcls : cls (lG1_next s R w) = 4 := by
    rw [lG1_cls_init _ (envWl w) rfl hph' hr', if_neg (by simp [hage', hne'])]
  refine ⟨_, hround, (liveInv_iff _).2 ⟨hfwd, lG1_next_cfg s R w hw hcfg hst htr, by rw [hcls]; decide,
    Or.inr (lG1_next_boundary s R w hwok)⟩, ?_, ?_, rfl⟩
  · rw [lG1_mu_init _ (envWl w) rfl hph' hr', lG1_mu_healthy s w hw hph, hanno, if_pos rfl, if_pos hgen,
      if_neg hage', lG1_next_steps, hst]
    omega
  · rw [lG1_mu_init _ (envWl w) rfl hph' hr']
    omega

theorem lG1_cls_4 (s : CS) (hc : cls s = 4) :
    ∃ w, s.wl = some w ∧ s.ro.phase = .progressing ∧ s.ro.reason = .initializing ∧ s.ro.condAge ≠ .fresh ∧
      w.updateRevision ≠ w.currentRevision := by
  obtain ⟨w, hw, hp⟩ := lG1_cls_phase s 4 hc (by omega)
  refine ⟨w, hw, ?_⟩
  rcases hp with hp | ⟨hp, hr | hr⟩
  · rw [lG1_cls_healthy s w hw hp] at hc; (repeat' split at hc) <;> omega
  · rw [lG1_cls_init s w hw hp hr] at hc
    split at hc
    · omega
    · rename_i hcond
      simp only [Bool.or_eq_true, decide_eq_true_eq, beq_iff_eq, not_or] at hcond
      exact ⟨hp, hr, hcond.1, hcond.2⟩
  · rw [lG1_cls_completed s w hw hp hr] at hc; split at hc <;> omega

theorem lG1_cls_30 (s : CS) (hc : cls s = 30) :
    ∃ w, s.wl = some w ∧ s.ro.phase = .progressing ∧ s.ro.reason = .completed ∧ s.ro.sub.isSome = true := by
  obtain ⟨w, hw, hp⟩ := lG1_cls_phase s 30 hc (by omega)
  refine ⟨w, hw, ?_⟩
  rcases hp with hp | ⟨hp, hr | hr⟩
  · rw [lG1_cls_healthy s w hw hp] at hc; (repeat' split at hc) <;> omega
  · rw [lG1_cls_init s w hw hp hr] at hc; split at hc <;> omega
  · refine ⟨hp, hr, ?_⟩
    rw [lG1_cls_completed s w hw hp hr] at hc
    split at hc
    · rename_i hcond
      simp only [Bool.and_eq_true] at hcond
      exact hcond.2
    · omega

theorem lG1_cfg_tr (s : CS) (h : liveCfg s = true) : s.ro.hasTraffic = false := by
  unfold liveCfg at h
  simp only [Bool.and_eq_true, Bool.not_eq_true'] at h
  exact h.1.1

theorem lG1_r4 (s : CS) (h : liveInv s = true) (hc : cls s = 4) :
    ∃ s', round s = some s' ∧ liveInv s' = true ∧ mu s' < mu s ∧ 12 < mu s' ∧ s'.br = none := by
  obtain ⟨hf, hcfg, _, hb⟩ := (liveInv_iff s).1 h
  obtain ⟨w, hw, hph, hr, hage, hne⟩ := lG1_cls_4 s hc
  have hb : atBoundary s = true := by
    rcases hb with hb | hb
    · omega
    · exact hb
  obtain ⟨hgone, hg, w', hw', hwok, hmono, hbro, hpi⟩ := fwd_parts s hf
  rw [hw] at hw'; cases hw'
  rw [phaseInv_init s w hph hr] at hpi
  simp only [Bool.and_eq_true, Option.isNone_iff_eq_none] at hpi
  have hbr : s.br = none := hpi.1
  have henv := (lG1_boundary s w hw hb).1
  have hcons := lG1_cons w henv
  have hrec := lG1_reconcile_init (roWorld s) (roWl w) hg (world_wl s w hw) hcons hph hr (lG1_cfg_tr s hcfg) hage
  have hro : stepRo s = some { s with gone := false, ro := { csObserve s.ro (roWl w) with sub := some (initSub s.ro (roWl w)), reason := .inRolling } } :=
    lG1_stepRo_status s _ hgone hrec rfl rfl rfl rfl rfl
  obtain ⟨R, hR⟩ : ∃ R : Rollout, R = { csObserve s.ro (roWl w) with sub := some (initSub s.ro (roWl w)), reason := .inRolling } := ⟨_, rfl⟩
  rw [← hR] at hro
  obtain ⟨hround, hfwd⟩ := lG1_round_of s w R hf hw hbr hro
  have hsame := (csObserve_same s.ro (roWl w)).1
  have hst : R.steps = s.ro.steps := by rw [hR]; exact hsame.1
  have htr : R.hasTraffic = s.ro.hasTraffic := by rw [hR]; exact hsame.2.1
  have hRph : R.phase = .progressing := by rw [hR]; exact (csObserve_same s.ro (roWl w)).2.2.trans hph
  have hRr : R.reason = .inRolling := by rw [hR]
  have hRs : R.sub = some (initSub s.ro (roWl w)) := by rw [hR]
  obtain ⟨t1, t2, t3, t4, t5⟩ := lG1_ta_frame R
  have hph' : (lG1_next s R w).ro.phase = .progressing := t1.trans hRph
  have hr' : (lG1_next s R w).ro.reason = .inRolling := t2.trans hRr
  obtain ⟨sub', hsub'⟩ : ∃ sub' : Sub, sub' = { initSub s.ro (roWl w) with state := .init, lastUpdate := .elapsed } := ⟨_, rfl⟩
  have hs' : (lG1_next s R w).ro.sub = some sub' := by
    refine (lG1_ta_sub R).trans ?_
    rw [hRs, hsub']
    rfl
  have hst' : sub'.state = .init := by rw [hsub']
  have hidx : sub'.curIdx = 1 := by rw [hsub']; rfl
  have hne' : (envWl w).updateRevision ≠ (envWl w).currentRevision := by rw [henv]; exact hne
  have hcls : cls (lG1_next s R w) = 5 := by
    rw [lG1_cls_roll_init _ (envWl w) sub' rfl hph' hr' hs' hst' rfl, if_pos (by simp [hidx, hne'])]
  refine ⟨_, hround, (liveInv_iff _).2 ⟨hfwd, lG1_next_cfg s R w hw hcfg hst htr, by rw [hcls]; decide,
    Or.inr (lG1_next_boundary s R w hwok)⟩, ?_, ?_, rfl⟩
  · rw [lG1_mu_roll_init _ (envWl w) sub' rfl hph' hr' hs' hst', lG1_mu_init s w hw hph hr, if_neg hage, lG1_next_steps, hst, hidx]
    have hn : 0 < s.ro.steps.length := List.length_pos_iff.mpr hg.steps
    simp only [stepW]
    omega
  · rw [lG1_mu_roll_init _ (envWl w) sub' rfl hph' hr' hs' hst']
    omega

/-- a state of rank above 12 is not yet subject to the terminal facts -/
theorem lG1_done_big (s' : CS) (h : 12 < mu s') : doneInv s' = true := by
  unfold doneInv
  split
  · rfl
  · have h1 : 1 < mu s' := by omega
    simp [h, h1]

/-- without a BatchRelease the policy invariant is void -/
theorem lG1_pol_none (s' : CS) (h : s'.br = none) : polInv s' = true := by
  unfold polInv; rw [h]

theorem round_cls_1 (s : CS) (h : liveInv s = true) (hc : cls s = 1) :
    ∃ s', round s = some s' ∧ liveInv s' = true ∧ mu s' < mu s := by
  obtain ⟨s', h1, _, h3, _, h5⟩ := lG1_r1 s h hc
  exact ⟨s', h1, h5, h3⟩

theorem round_cls_2 (s : CS) (h : liveInv s = true) (hc : cls s = 2) :
    ∃ s', round s = some s' ∧ liveInv s' = true ∧ mu s' < mu s := by
  obtain ⟨s', h1, h2, h3, _⟩ := lG1_r2 s h hc
  exact ⟨s', h1, h2, h3⟩

theorem round_cls_4 (s : CS) (h : liveInv s = true) (hc : cls s = 4) :
    ∃ s', round s = some s' ∧ liveInv s' = true ∧ mu s' < mu s := by
  obtain ⟨s', h1, h2, h3, _⟩ := lG1_r4 s h hc
  exact ⟨s', h1, h2, h3⟩

theorem done_cls_1 (s : CS) (h : liveInv s = true) (_hd : doneInv s = true) (hc : cls s = 1) :
    ∀ s', round s = some s' → doneInv s' = true := by
  obtain ⟨s1, h1, _, _, h4, _⟩ := lG1_r1 s h hc
  intro s' hs'
  rw [h1] at hs'; cases hs'
  exact lG1_done_big _ h4

theorem done_cls_2 (s : CS) (h : liveInv s = true) (_hd : doneInv s = true) (hc : cls s = 2) :
    ∀ s', round s = some s' → doneInv s' = true := by
  obtain ⟨s1, h1, _, _, h4, _⟩ := lG1_r2 s h hc
  intro s' hs'
  rw [h1] at hs'; cases hs'
  exact lG1_done_big _ h4

theorem done_cls_4 (s : CS) (h : liveInv s = true) (_hd : doneInv s = true) (hc : cls s = 4) :
    ∀ s', round s = some s' → doneInv s' = true := by
  obtain ⟨s1, h1, _, _, h4, _⟩ := lG1_r4 s h hc
  intro s' hs'
  rw [h1] at hs'; cases hs'
  exact lG1_done_big _ h4

theorem pol_cls_1 (s : CS) (h : liveInv s = true) (_hp : polInv s = true) (hc : cls s = 1) :
    ∀ s', round s = some s' → polInv s' = true := by
  obtain ⟨s1, h1, h2, _⟩ := lG1_r1 s h hc
  intro s' hs'
  rw [h1] at hs'; cases hs'
  exact lG1_pol_none _ h2

theorem pol_cls_2 (s : CS) (h : liveInv s = true) (_hp : polInv s = true) (hc : cls s = 2) :
    ∀ s', round s = some s' → polInv s' = true := by
  obtain ⟨s1, h1, _, _, _, h5⟩ := lG1_r2 s h hc
  intro s' hs'
  rw [h1] at hs'; cases hs'
  exact lG1_pol_none _ h5

theorem pol_cls_4 (s : CS) (h : liveInv s = true) (_hp : polInv s = true) (hc : cls s = 4) :
    ∀ s', round s = some s' → polInv s' = true := by
  obtain ⟨s1, h1, _, _, _, h5⟩ := lG1_r4 s h hc
  intro s' hs'
  rw [h1] at hs'; cases hs'
  exact lG1_pol_none _ h5

/-- a state of the terminal class, from its parts -/
theorem lG1_cls40_of (s : CS) (w : CWl) (sub : Sub) (hw : s.wl = some w) (hph : s.ro.phase = .healthy)
    (ha : w.inProgressAnno = false) (hbr : s.br = none) (hs : s.ro.sub = some sub) (hst : sub.state ≠ .paused)
    (hobs : csObserve s.ro (roWl w) = s.ro) : cls s = 40 := by
  rw [lG1_cls_healthy s w hw hph, ha, hbr, hobs, hs]
  simp [hst]

theorem lG1_mu0_of (s : CS) (w : CWl) (hw : s.wl = some w) (hph : s.ro.phase = .healthy) (ha : w.inProgressAnno = false) :
    mu s = 0 := by
  rw [lG1_mu_healthy s w hw hph, ha]
  rfl

theorem lG1_g_state (sub : Sub) : (if sub.state = .paused then StepState.ready else sub.state) ≠ .paused := by
  split
  · decide
  · assumption

/-- the status calculation's refresh of the observed rollout-id / generation is a fixpoint after one application: the round
    tail (approval, clock) does not touch what it reads or writes -/
theorem lG1_obs_ta_fix (ro R : Rollout) (wl : WL) (sub0 : Sub) (hs0 : ro.sub = some sub0)
    (hR : R.sub = (csObserve ro wl).sub) : csObserve (lG1_tk (lG1_ap R)) wl = lG1_tk (lG1_ap R) := by
  have hs' := lG1_ta_sub R
  rw [hR, lG1_obs_sub ro wl sub0 hs0] at hs'
  refine lG1_obs_fix _ _ _ hs' ?_
  intro hcond
  by_cases hc0 : sub0.canaryRev ≠ "" ∧ sub0.canaryRev = wl.canaryRev
  · rw [if_pos hc0]
    exact ⟨rfl, rfl⟩
  · rw [if_neg hc0] at hcond
    exact absurd hcond hc0

/-- the round from class 30, explicitly -/
theorem lG1_round30 (s : CS) (h : liveInv s = true) (hc : cls s = 30) :
    ∃ w, s.wl = some w ∧ mu s = 1 ∧
      round s = some (lG1_next s { csObserve s.ro (roWl w) with phase := .healthy } w) ∧
      liveInv (lG1_next s { csObserve s.ro (roWl w) with phase := .healthy } w) = true ∧
      mu (lG1_next s { csObserve s.ro (roWl w) with phase := .healthy } w) = 0 := by
  obtain ⟨hf, hcfg, _, hb⟩ := (liveInv_iff s).1 h
  obtain ⟨w, hw, hph, hr, hsub⟩ := lG1_cls_30 s hc
  have hb : atBoundary s = true := by
    rcases hb with hb | hb
    · omega
    · exact hb
  obtain ⟨hgone, hg, w', hw', hwok, hmono, hbro, hpi⟩ := fwd_parts s hf
  rw [hw] at hw'; cases hw'
  rw [phaseInv_completed s w hph hr] at hpi
  simp only [Bool.and_eq_true, Option.isNone_iff_eq_none, Bool.not_eq_true'] at hpi
  obtain ⟨hbr, hanno⟩ := hpi
  have henv := (lG1_boundary s w hw hb).1
  have hcons := lG1_cons w henv
  have hrec := reconcile_completed (roWorld s) (roWl w) hg (world_wl s w hw) hcons hph hr
  have hro : stepRo s = some { s with gone := false, ro := { csObserve s.ro (roWl w) with phase := .healthy } } :=
    lG1_stepRo_status s _ hgone hrec rfl rfl rfl rfl rfl
  refine ⟨w, hw, lG1_mu_completed s w hw hph hr, ?_⟩
  obtain ⟨R, hR⟩ : ∃ R : Rollout, R = { csObserve s.ro (roWl w) with phase := .healthy } := ⟨_, rfl⟩
  rw [← hR] at hro ⊢
  obtain ⟨hround, hfwd⟩ := lG1_round_of s w R hf hw hbr hro
  have hsame := (csObserve_same s.ro (roWl w)).1
  have hst : R.steps = s.ro.steps := by rw [hR]; exact hsame.1
  have htr : R.hasTraffic = s.ro.hasTraffic := by rw [hR]; exact hsame.2.1
  have hRph : R.phase = .healthy := by rw [hR]
  have hRsub : R.sub = (csObserve s.ro (roWl w)).sub := by rw [hR]
  obtain ⟨sub0, hs0⟩ := Option.isSome_iff_exists.1 hsub
  obtain ⟨id, gen, hos⟩ := csObserve_sub s.ro (roWl w) sub0 hs0
  have hRs : R.sub = some { sub0 with observedRolloutID := id, observedGen := gen } := hRsub.trans hos
  obtain ⟨t1, t2, t3, t4, t5⟩ := lG1_ta_frame R
  have hph' : (lG1_next s R w).ro.phase = .healthy := t1.trans hRph
  have hs' := lG1_ta_sub R
  rw [hRs] at hs'
  have hanno' : (envWl w).inProgressAnno = false := (envWl_frame w).2.2.2.2.trans hanno
  have hobs' : csObserve (lG1_next s R w).ro (roWl (envWl w)) = (lG1_next s R w).ro := by
    rw [henv]
    exact lG1_obs_ta_fix s.ro R (roWl w) sub0 hs0 hRsub
  have hcls : cls (lG1_next s R w) = 40 := lG1_cls40_of _ (envWl w) _ rfl hph' hanno' rfl hs' (lG1_g_state _) hobs'
  exact ⟨hround, (liveInv_iff _).2 ⟨hfwd, lG1_next_cfg s R w hw hcfg hst htr, by rw [hcls]; decide,
    Or.inr (lG1_next_boundary s R w hwok)⟩, lG1_mu0_of _ (envWl w) rfl hph' hanno'⟩

theorem round_cls_30 (s : CS) (h : liveInv s = true) (hc : cls s = 30) :
    ∃ s', round s = some s' ∧ liveInv s' = true ∧ mu s' < mu s := by
  obtain ⟨w, _, hmu, hround, hlive, hmu'⟩ := lG1_round30 s h hc
  exact ⟨_, hround, hlive, by rw [hmu', hmu]; decide⟩

/-! ### the terminal class -/

theorem lG1_cls_40 (s : CS) (hc : cls s = 40) :
    ∃ w sub, s.wl = some w ∧ s.ro.phase = .healthy ∧ w.inProgressAnno = false ∧ s.br = none ∧ s.ro.sub = some sub ∧
      sub.state ≠ .paused ∧ csObserve s.ro (roWl w) = s.ro := by
  obtain ⟨w, hw, hph⟩ := lG1_cls_h s 40 hc (by omega)
  rw [lG1_cls_healthy s w hw hph] at hc
  cases ha : w.inProgressAnno
  · rw [ha] at hc
    simp only [Bool.false_eq_true, if_false] at hc
    cases hs : s.ro.sub with
    | none => rw [hs] at hc; simp at hc
    | some sub =>
      rw [hs] at hc
      dsimp only at hc
      split at hc
      · rename_i hcond
        simp only [Bool.and_eq_true, Option.isNone_iff_eq_none, bne_iff_ne, ne_eq, beq_iff_eq] at hcond
        exact ⟨w, sub, hw, hph, ha, hcond.1.1, rfl, hcond.1.2, hcond.2⟩
      · omega
  · rw [ha] at hc
    simp only [if_true] at hc
    (repeat' split at hc) <;> omega

theorem lG1_next_fix (s : CS) (w : CWl) (sub : Sub) (hgone : s.gone = false) (hbr : s.br = none) (hw : s.wl = some w)
    (henv : envWl w = w) (htick : tick s = s) (hs : s.ro.sub = some sub) (hst : sub.state ≠ .paused) :
    lG1_next s s.ro w = s := by
  have hap : lG1_ap s.ro = s.ro := by unfold lG1_ap; rw [hs]; dsimp only; rw [if_neg hst]
  rw [lG1_tick_eq s hgone] at htick
  have h1 : lG1_tk s.ro = s.ro := congrArg CS.ro htick
  have h2 : lG1_tm s.mem = s.mem := congrArg CS.mem htick
  unfold lG1_next
  rw [hap, h1, h2, henv]
  obtain ⟨g, ro, wl, br, net, mem⟩ := s
  simp only at hgone hbr hw
  subst hgone hbr hw
  rfl

/-- **no oscillation** — in the terminal class (Healthy, nothing in progress, no BatchRelease, at a round boundary) a further
    round changes nothing -/
theorem round_cls_40 (s : CS) (h : liveInv s = true) (hc : cls s = 40) : round s = some s ∧ mu s = 0 := by
  obtain ⟨hf, hcfg, _, hb⟩ := (liveInv_iff s).1 h
  obtain ⟨w, sub0, hw, hph, hanno, hbr, hs0, hst0, hobs⟩ := lG1_cls_40 s hc
  have hb : atBoundary s = true := by
    rcases hb with hb | hb
    · omega
    · exact hb
  obtain ⟨henv, htick⟩ := lG1_boundary s w hw hb
  obtain ⟨hgone, hg, w', hw', hwok, hmono, hbro, hpi⟩ := fwd_parts s hf
  rw [hw] at hw'; cases hw'
  have hcons := lG1_cons w henv
  have hrec := reconcile_healthy (roWorld s) (roWl w) hg (world_wl s w hw) hcons hph
  have hro : stepRo s = some { s with gone := false, ro := csPhase s.ro (csObserve s.ro (roWl w)) (roWl w) } :=
    lG1_stepRo_status s _ hgone hrec rfl rfl rfl rfl rfl
  rw [hobs, lG1_csPhase_idle s.ro s.ro (roWl w) hph hanno (by rw [hs0]; rfl)] at hro
  obtain ⟨hround, _⟩ := lG1_round_of s w s.ro hf hw hbr hro
  rw [lG1_next_fix s w sub0 hgone hbr hw henv htick hs0 hst0] at hround
  exact ⟨hround, lG1_mu0_of s w hw hph hanno⟩

/-! ### the terminal facts survive the last two classes -/

theorem lG1_envWl_owner (w : CWl) : (envWl w).owner = w.owner := by
  unfold envWl
  dsimp only
  split <;> rfl

theorem lG1_obs_succeeded (ro : Rollout) (wl : WL) : (csObserve ro wl).succeeded = ro.succeeded := by
  unfold csObserve
  split
  · split <;> rfl
  · rfl

theorem lG1_ta_succeeded (ro : Rollout) : (lG1_tk (lG1_ap ro)).succeeded = ro.succeeded := by
  show (lG1_ap ro).succeeded = _
  unfold lG1_ap
  split
  · split <;> rfl
  · rfl

theorem lG1_next_done (s : CS) (ro' : Rollout) (w : CWl) (hw : s.wl = some w) (hd : doneInv s = true) (hmu : mu s ≤ 1)
    (hsucc : ro'.succeeded = s.ro.succeeded) : doneInv (lG1_next s ro' w) = true := by
  unfold doneInv at hd
  rw [hw] at hd
  have h1 : ¬ 12 < mu s := by omega
  have h2 : ¬ 1 < mu s := by omega
  simp only [h1, h2, decide_false, Bool.false_or, Bool.and_eq_true] at hd
  obtain ⟨hd1, hd2⟩ := hd
  unfold doneInv
  show ((decide (12 < mu (lG1_next s ro' w)) || ((envWl w).partition.isNone && !(envWl w).paused && (envWl w).owner == .none)) &&
    (decide (1 < mu (lG1_next s ro' w)) || (lG1_tk (lG1_ap ro')).succeeded == some true)) = true
  rw [(envWl_frame w).2.2.1, lG1_envWl_paused, lG1_envWl_owner, lG1_ta_succeeded, hsucc, hd1.1.1, hd1.1.2, hd1.2, hd2]
  simp

theorem done_cls_30 (s : CS) (h : liveInv s = true) (hd : doneInv s = true) (hc : cls s = 30) :
    ∀ s', round s = some s' → doneInv s' = true := by
  obtain ⟨w, hw, hmu, hround, _, _⟩ := lG1_round30 s h hc
  intro s' hs'
  rw [hround] at hs'; cases hs'
  exact lG1_next_done s _ w hw hd (by omega) (lG1_obs_succeeded s.ro (roWl w))

theorem done_cls_40 (s : CS) (h : liveInv s = true) (hd : doneInv s = true) (hc : cls s = 40) :
    ∀ s', round s = some s' → doneInv s' = true := by
  intro s' hs'
  rw [(round_cls_40 s h hc).1] at hs'; cases hs'
  exact hd

theorem pol_cls_30 (s : CS) (h : liveInv s = true) (_hp : polInv s = true) (hc : cls s = 30) :
    ∀ s', round s = some s' → polInv s' = true := by
  obtain ⟨w, hw, hmu, hround, _, _⟩ := lG1_round30 s h hc
  intro s' hs'
  rw [hround] at hs'; cases hs'
  exact lG1_pol_none _ rfl

theorem pol_cls_40 (s : CS) (h : liveInv s = true) (hp : polInv s = true) (hc : cls s = 40) :
    ∀ s', round s = some s' → polInv s' = true := by
  intro s' hs'
  rw [(round_cls_40 s h hc).1] at hs'; cases hs'
  exact hp

end RV.Lemmas.ClosedLoop
