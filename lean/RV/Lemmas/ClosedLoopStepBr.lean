/-
  Label `br`: one BatchRelease reconcile preserves the forward-rollout invariant (and cannot crash).
-/
import RV.Lemmas.ClosedLoop
import RV.Lemmas.ClosedLoopArith
namespace RV.Lemmas.ClosedLoop
open RV.Arith RV.Traffic RV.RolloutSM RV.ClosedLoop RV.Oracle.ClosedLoop RV.Oracle.Batch

/-! ### taking the BatchRelease clauses apart -/

theorem brOK_iff (b : CBr) :
    brOK b = true ↔ b.batches ≠ [] ∧ 0 ≤ b.st.currentBatch ∧ (∀ p, b.partition = some p → 0 ≤ p) ∧
      b.rollbackAnno = false ∧ b.st.noNeedUpdate = none := by
  unfold brOK
  cases hp : b.partition with
  | none => simp [and_assoc]
  | some p => simp [and_assoc]

theorem linkOK_iff (ro : Rollout) (sub : Sub) (b : CBr) :
    linkOK ro sub b = true ↔ b.batches = planOf ro ∧
      (∃ p, b.partition = some p ∧ 0 ≤ p ∧ p ≤ sub.curIdx - 1 ∧ b.st.currentBatch ≤ p) ∧ b.deleting = false ∧
      (b.st.phase = .empty ∨ b.st.phase = .preparing ∨ b.st.phase = .progressing) := by
  unfold linkOK
  cases hp : b.partition with
  | none => simp
  | some p => simp [and_assoc, or_assoc]

/-- with a BatchRelease present, the invariant places the rollout in InRolling or Finalising, with a sub-status -/
theorem phaseInv_with_br (s : CS) (w : CWl) (b : CBr) (hb : s.br = some b) (h : phaseInv s w = true) :
    s.ro.phase = .progressing ∧ ∃ sub, s.ro.sub = some sub ∧ (s.ro.reason = .inRolling ∨ s.ro.reason = .finalising) := by
  unfold phaseInv at h
  rw [hb] at h
  split at h
  · simp at h
  · simp at h
  · rename_i hp hr
    cases hs : s.ro.sub with
    | none => rw [hs] at h; cases h
    | some sub => exact ⟨hp, sub, rfl, Or.inl hr⟩
  · rename_i hp hr
    cases hs : s.ro.sub with
    | none => rw [hs] at h; cases h
    | some sub => exact ⟨hp, sub, rfl, Or.inr hr⟩
  · simp at h
  · cases h

/-! ### the workload part -/

/-- the CloneSet after the executor's patch landed -/
def landW (w : CWl) (ew : Executor.Workload) : CWl :=
  { w with partition := ew.partition, paused := ew.paused, owner := ew.owner,
           generation := if ew.partition ≠ w.partition ∨ ew.paused ≠ w.paused then w.generation + 1 else w.generation }

theorem wlLand_some (w : CWl) (ew : Executor.Workload) : wlLand (some w) (some ew) = some (landW w ew) := rfl

/-- only the partition clause of `wlOK` can change under the executor's patch -/
theorem wlOK_land (w : CWl) (ew : Executor.Workload) (h : wlOK w = true)
    (hp : ∀ k, ew.partition = some k → 0 ≤ scaledV k w.replicas true) : wlOK (landW w ew) = true := by
  unfold wlOK at h ⊢
  simp only [Bool.and_eq_true] at h ⊢
  obtain ⟨⟨⟨⟨h1, h2⟩, h3⟩, h4⟩, _⟩ := h
  refine ⟨⟨⟨⟨h1, h2⟩, h3⟩, h4⟩, ?_⟩
  show (match ew.partition with | some k => decide (0 ≤ scaledV k w.replicas true) | none => true) = true
  cases hk : ew.partition with
  | none => rfl
  | some k => exact decide_eq_true (hp k hk)

theorem wlOK_facts (w : CWl) (h : wlOK w = true) :
    0 ≤ w.replicas ∧ ∀ k, w.partition = some k → 0 ≤ scaledV k w.replicas true := by
  unfold wlOK at h
  simp only [Bool.and_eq_true, decide_eq_true_eq] at h
  obtain ⟨⟨⟨⟨_, h2⟩, _⟩, _⟩, h5⟩ := h
  refine ⟨h2, ?_⟩
  intro k hk
  rw [hk] at h5
  exact of_decide_eq_true h5

/-- every effect of one executor reconcile leaves a non-negative partition -/
theorem effect_part_nonneg (br : Executor.BR) (w w' : Executor.Workload) (he : WlEffect br w w') (hR : 0 ≤ w.replicas)
    (hnn : br.status.noNeedUpdate = none) (hold : ∀ k, w.partition = some k → 0 ≤ scaledV k w.replicas true) :
    ∀ k, w'.partition = some k → 0 ≤ scaledV k w.replicas true := by
  cases he with
  | same => exact hold
  | init =>
    intro k hk
    simp only [Option.some.injEq] at hk
    subst hk
    rw [scaled_pct100]; exact hR
  | upgrade e h0 hb =>
    intro k hk
    simp only [Option.some.injEq] at hk
    subst hk
    rw [hnn]
    exact desKnob_nonneg w.replicas e hR
  | release hf =>
    intro k hk
    split at hk
    · cases hk
    · exact hold k hk

/-- every effect of one executor reconcile of a live (not finalising) BatchRelease keeps the partition within
    any plan entry at or after the persisted batch -/
theorem effect_within (br : Executor.BR) (w w' : Executor.Workload) (he : WlEffect br w w') (hR : 0 ≤ w.replicas)
    (hnn : br.status.noNeedUpdate = none) (hm : planMono w.replicas br.batches = true) (j : Nat) (ecur : IntOrPct)
    (hj : br.batches[j]? = some ecur) (hcb : br.status.currentBatch.toNat ≤ j) (hnf : br.status.phase ≠ .finalizing)
    (hold : ∃ k, w.partition = some k ∧ within w.replicas br.batches ecur k = true) :
    ∃ k, w'.partition = some k ∧ within w.replicas br.batches ecur k = true := by
  cases he with
  | same => exact hold
  | init => exact ⟨_, rfl, within_held w.replicas br.batches ecur hR⟩
  | upgrade e h0 hb =>
    refine ⟨_, rfl, ?_⟩
    rw [hnn]
    exact within_mono w.replicas br.batches e ecur _
      (planMono_le w.replicas br.batches hm _ j e ecur hcb hb hj)
      (within_desKnob w.replicas br.batches e _ hR hb)
  | release hf => exact absurd hf hnf

/-! ### the BatchRelease part -/

theorem brOK_land (b : CBr) (wl : Option Executor.Workload) (o : Executor.StepOut) (eb : Executor.BR)
    (hrec : Executor.reconcile (exBr b) wl = .val o) (hb : o.br = some eb) (h : brOK b = true) :
    brOK (stLand b eb) = true := by
  obtain ⟨hne, h0, hp0, hra, hnn⟩ := (brOK_iff b).1 h
  exact (brOK_iff (stLand b eb)).2
    ⟨hne, exec_batch_nonneg (exBr b) wl o eb hrec hb h0 hp0 hne, hp0, hra,
     exec_nn_none (exBr b) wl o eb hrec hb hra hnn⟩

theorem brOKo_land (b : CBr) (wl : Option Executor.Workload) (o : Executor.StepOut)
    (hrec : Executor.reconcile (exBr b) wl = .val o) (h : brOK b = true) :
    brOKo (o.br.map (stLand b)) = true := by
  cases hb : o.br with
  | none => rfl
  | some eb => exact brOK_land b wl o eb hrec hb h

/-- rolling: the three cursors stay linked -/
theorem linkOK_land (ro : Rollout) (sub : Sub) (b : CBr) (w : Executor.Workload) (o : Executor.StepOut)
    (hrec : Executor.reconcile (exBr b) (some w) = .val o) (h : linkOK ro sub b = true) :
    linkOKo ro sub (o.br.map (stLand b)) = true := by
  obtain ⟨hpl, ⟨p, hp, hp0, hpc, hcb⟩, hd, hph⟩ := (linkOK_iff ro sub b).1 h
  cases hb : o.br with
  | none => rfl
  | some eb =>
    have hpe : (exBr b).partition = some p := hp
    refine (linkOK_iff ro sub (stLand b eb)).2 ⟨hpl, ⟨p, hp, hp0, hpc, ?_⟩, hd, ?_⟩
    · exact exec_batch_le (exBr b) (some w) o eb p hrec hb hpe hp0 hcb
    · exact Or.inr (exec_phase_live (exBr b) (some w) o eb hrec hb hd (by rw [hpe]; rfl) rfl hph)

/-- finalising: the executor re-creates nothing the rollout removed -/
theorem brLE_land (b : CBr) (wl : Option Executor.Workload) (o : Executor.StepOut)
    (hrec : Executor.reconcile (exBr b) wl = .val o) :
    RV.Props.Cluster.BrLE (some (roBr b)) ((o.br.map (stLand b)).map roBr) := by
  refine ⟨fun hc => (by cases hc), ?_⟩
  intro rb hrb hpn hpc
  simp only [Option.some.injEq] at hrb
  subst hrb
  cases hb : o.br with
  | none => exact Or.inl rfl
  | some eb =>
    right
    refine ⟨roBr (stLand b eb), rfl, hpn, ?_⟩
    have hc : b.st.phase = .completed := of_decide_eq_true hpc
    exact decide_eq_true (exec_completed_stays (exBr b) wl o eb hrec hb hc)

/-! ### the step -/

theorem stepBr_fwd (s : CS) (h : fwdInv s = true) : ∃ s', stepBr s = some s' ∧ fwdInv s' = true := by
  obtain ⟨hro, w, hw, hwok, hmono, hbrok, hpi⟩ := (fwdInv_iff s).1 h
  obtain ⟨hgone, hg⟩ := (roOK_iff s).1 hro
  cases hb : s.br with
  | none => exact ⟨s, by unfold stepBr; rw [hb], h⟩
  | some b =>
    rw [hb] at hbrok
    have hbok : brOK b = true := hbrok
    obtain ⟨hne, h0, hp0, hra, hnn⟩ := (brOK_iff b).1 hbok
    obtain ⟨hR, hpart⟩ := wlOK_facts w hwok
    cases hrec : Executor.reconcile (exBr b) (some (exWl w)) with
    | panic => exact absurd hrec (exec_total (exBr b) _ h0)
    | val o =>
      obtain ⟨ew, hew, heff⟩ := exec_wl_effect (exBr b) (exWl w) o hrec
      have hstep : stepBr s = some (landBr s b o) := by
        unfold stepBr
        rw [hb]
        dsimp only
        rw [hw]
        simp only [Option.map_some]
        rw [hrec]
      refine ⟨_, hstep, ?_⟩
      have hwl' : (landBr s b o).wl = some (landW w ew) := by
        show wlLand s.wl o.wl = _
        rw [hw, hew]; rfl
      have hnn' : (exBr b).status.noNeedUpdate = none := hnn
      apply fwdInv_mk (landBr s b o) (landW w ew) hgone hg hwl'
      · exact wlOK_land w ew hwok (effect_part_nonneg (exBr b) (exWl w) ew heff hR hnn' hpart)
      · exact hmono
      · exact brOKo_land b _ o hrec hbok
      · obtain ⟨hp, sub, hs, hr | hr⟩ := phaseInv_with_br s w b hb hpi
        · rw [phaseInv_rolling s w sub hp hr hs, hb] at hpi
          rw [phaseInv_rolling (landBr s b o) (landW w ew) sub hp hr hs]
          simp only [Bool.and_eq_true] at hpi ⊢
          obtain ⟨⟨hsub, hlink⟩, hwc⟩ := hpi
          have hlink' : linkOK s.ro sub b = true := hlink
          refine ⟨⟨hsub, linkOK_land s.ro sub b (exWl w) o hrec hlink'⟩, ?_⟩
          obtain ⟨hpl, ⟨p, hpp, hpp0, hpc, hcb⟩, hd, hph⟩ := (linkOK_iff s.ro sub b).1 hlink'
          have hpl' : (exBr b).batches = planOf s.ro := hpl
          unfold withinCur at hwc ⊢
          cases hk : w.partition with
          | none => rw [hk] at hwc; cases hwc
          | some k =>
            cases hj : (planOf s.ro)[(sub.curIdx - 1).toNat]? with
            | none => rw [hk, hj] at hwc; cases hwc
            | some ecur =>
              rw [hk, hj] at hwc
              have hwc' : within w.replicas (planOf s.ro) ecur k = true := hwc
              have hnf : (exBr b).status.phase ≠ .finalizing := by
                show b.st.phase ≠ .finalizing
                rcases hph with h1 | h1 | h1 <;> rw [h1] <;> decide
              have hcbj : (exBr b).status.currentBatch.toNat ≤ (sub.curIdx - 1).toNat := by
                show b.st.currentBatch.toNat ≤ _
                omega
              obtain ⟨k', hk', hwk'⟩ := effect_within (exBr b) (exWl w) ew heff hR hnn'
                (by rw [hpl']; exact hmono) (sub.curIdx - 1).toNat ecur (by rw [hpl']; exact hj) hcbj hnf
                ⟨k, hk, by rw [hpl']; exact hwc'⟩
              rw [hpl'] at hwk'
              show (match ew.partition, (planOf s.ro)[(sub.curIdx - 1).toNat]? with
                | some k, some e => within w.replicas (planOf s.ro) e k
                | _, _ => false) = true
              rw [hk', hj]
              exact hwk'
        · rw [phaseInv_fin s w sub hp hr hs, hb] at hpi
          rw [phaseInv_fin (landBr s b o) (landW w ew) sub hp hr hs]
          simp only [Bool.and_eq_true] at hpi ⊢
          refine ⟨hpi.1, ?_⟩
          exact RV.Props.Cluster.finInv_mono .success s.ro sub.finStep _ _ s.net s.net
            (RV.Props.Cluster.NetLE.refl _) (brLE_land b _ o hrec) hpi.2

end RV.Lemmas.ClosedLoop
