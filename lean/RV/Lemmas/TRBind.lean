/-
  Helper lemmas for `RV.Props.TRBind`: the finalizer set, the Manager calls a TrafficRouting makes, the shape of one
  TrafficRouting reconcile, the two binding functions of the Rollout controller.
-/
import RV.Oracle.TRBind
import RV.Props.TrafficThms
import RV.Props.TRSMThms
namespace RV.Lemmas.TRBind
open RV.Traffic RV.TRBind RV.Oracle.TRBind

/-! ### the finalizer set -/

theorem mem_insertSorted (i j : Nat) (l : List Nat) : j ∈ insertSorted i l ↔ j = i ∨ j ∈ l := by
  induction l with
  | nil => simp [insertSorted]
  | cons x xs ih =>
    unfold insertSorted
    by_cases h1 : i < x
    · simp [h1]
    · by_cases h2 : i = x
      · subst h2; simp
      · simp only [h1, h2, if_false, List.mem_cons, ih]
        constructor
        · rintro (h | h | h)
          · exact Or.inr (Or.inl h)
          · exact Or.inl h
          · exact Or.inr (Or.inr h)
        · rintro (h | h | h)
          · exact Or.inr (Or.inl h)
          · exact Or.inl h
          · exact Or.inr (Or.inr h)

theorem mem_remove (i j : Nat) (l : List Nat) : j ∈ l.filter (· ≠ i) ↔ j ∈ l ∧ j ≠ i := by
  simp [List.mem_filter]

theorem contains_iff (l : List Nat) (i : Nat) : l.contains i = true ↔ i ∈ l := by simp

/-! ### the Manager calls of a TrafficRouting (any context) -/

/-- `FinalisingTrafficRouting` leaves the canary route as it was or withdraws it -/
theorem fin_canaryIng (c : TCtx) (n : Net) (m : Mem) :
    (finalisingTrafficRouting c n m).net.canaryIng = n.canaryIng ∨ (finalisingTrafficRouting c n m).net.canaryIng = none := by
  have hs : ∀ n1 m1, (restoreStableService c n1 m1).net.canaryIng = n1.canaryIng :=
    fun n1 m1 => (RV.Props.Traffic.rs_spec c n1 m1).2.1
  have hg : ∀ n1 m1, (restoreGateway c n1 m1).net.canaryIng = n1.canaryIng ∨ (restoreGateway c n1 m1).net.canaryIng = none := by
    intro n1 m1
    obtain ⟨_, _, _, _, _, h1, h2⟩ := RV.Props.Traffic.rg_spec c n1 m1
    by_cases href : c.hasRef = true
    · exact Or.inr (h1 href)
    · left; rw [h2 (by simpa using href)]
  have hc : ∀ n1 m1, (removeCanaryService c n1 m1).net.canaryIng = n1.canaryIng :=
    fun n1 m1 => (RV.Props.Traffic.rc_spec c n1 m1).2.1
  unfold finalisingTrafficRouting
  split
  · exact Or.inl rfl
  · dsimp only
    split
    · exact Or.inl (hs n m)
    · split
      · rcases hg (restoreStableService c n m).net (restoreStableService c n m).mem with h | h
        · exact Or.inl (h.trans (hs n m))
        · exact Or.inr h
      · split
        all_goals
          rw [hc]
          rcases hg (restoreStableService c n m).net (restoreStableService c n m).mem with h | h
          · exact Or.inl (h.trans (hs n m))
          · exact Or.inr h

/-- `DoTrafficRouting` never withdraws a canary route -/
theorem doTR_keeps_route (c : TCtx) (n : Net) (m : Mem) (h : n.canaryIng.isSome = true) :
    (doTrafficRouting c n m).net.canaryIng.isSome = true := by
  have hsv : ∀ n2 ws, svcStep c n = some (n2, ws) → n2.canaryIng = n.canaryIng := by
    intro n2 ws hs
    unfold svcStep at hs
    split at hs
    · cases hs; rfl
    · split at hs
      · cases hs
      · simp only [Option.some.injEq, Prod.mk.injEq] at hs
        rw [← hs.1]
        repeat' split
        all_goals rfl
  unfold doTrafficRouting
  split
  · exact h
  · split
    · exact h
    · split
      · exact h
      · split
        · exact h
        · split
          · exact h
          · rename_i n2 ws hs
            split
            · show n2.canaryIng.isSome = true
              rw [hsv n2 ws hs]; exact h
            · unfold routeStep ensureRoutes
              cases hci : n.canaryIng with
              | none => rw [hci] at h; cases h
              | some x =>
                dsimp only
                split <;> simp_all

/-- … and changes it only towards the canary when it changes it at all (a route appears or its weight changes) -/
theorem fin_not_routed (c : TCtx) (n : Net) (m : Mem) : routed n (finalisingTrafficRouting c n m).net = false := by
  unfold routed
  rcases fin_canaryIng c n m with h | h
  · rw [h]; simp
  · rw [h]; simp

/-! ### the TrafficRouting context -/

theorem tctx_hasRef (t : TRO) : (tctx t).hasRef = t.hasRef := rfl
theorem tctx_grace (t : TRO) : (tctx t).grace = t.grace := rfl

end RV.Lemmas.TRBind
