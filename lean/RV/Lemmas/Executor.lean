import RV.Oracle.Executor
/-! Helper lemmas for the executor model. -/
namespace RV.Executor
open RV.Arith RV.BatchCtx RV.Oracle.Executor

/-- `reconcile` either removes the object (deleting ∧ Completed ∧ finalizer), stops after the
    sync step, or executes from the synced status. -/
theorem reconcile_cases (br : BR) (wl : Option Workload) (o : StepOut) (h : reconcile br wl = .val o) :
    (br.deleting = true ∧ br.status.phase = .completed ∧ br.hasFinalizer = true ∧ o.br = none ∧ o.wl = wl) ∨
    (¬ (br.deleting = true ∧ br.status.phase = .completed ∧ br.hasFinalizer = true) ∧
      let br1 := withFinalizer br
      let s := syncStatus br1 (initializedStatus br1.status) wl
      ((s.stop = true ∧ o.br = some { br1 with status := s.status } ∧ o.wl = wl) ∨
       (s.stop = false ∧ ∃ ns' wl' rq er, execute br1 s.status wl = .val (ns', wl', rq, er) ∧
          o.br = some { br1 with status := ns' } ∧ o.wl = wl'))) := by
  unfold reconcile at h
  split at h
  · rename_i hc
    left
    simp only [Out.val.injEq] at h
    subst h
    exact ⟨hc.1, hc.2.1, hc.2.2, rfl, rfl⟩
  · rename_i hc
    right
    refine ⟨hc, ?_⟩
    unfold reconcileBody at h
    simp only [] at h ⊢
    split at h
    · rename_i hs
      left
      simp only [Out.val.injEq] at h
      subst h
      exact ⟨hs, rfl, rfl⟩
    · rename_i hs
      right
      refine ⟨by simpa using hs, ?_⟩
      split at h
      · cases h
      · rename_i ns' wl' rq er hex
        simp only [Out.val.injEq] at h
        subst h
        exact ⟨ns', wl', rq, er, hex, rfl, rfl⟩


/-- If the sync step does not stop, it changed nothing: the executor acts on the persisted status. -/
theorem sync_nostop_status (br : BR) (ns : Status) (wl : Option Workload)
    (h : (syncStatus br ns wl).stop = false) : (syncStatus br ns wl).status = br.status := by
  unfold syncStatus at h ⊢
  simp only [Bool.or_eq_false_iff, decide_eq_false_iff_not, ne_eq, Decidable.not_not] at h ⊢
  exact h.2

/-- a completed plan stops the round -/
theorem sync_completed_stops (br : BR) (ns : Status) (wl : Option Workload)
    (hp : br.status.phase = .completed) : (syncStatus br ns wl).stop = true := by
  unfold syncStatus
  simp only [syncDecide, hp, if_true, Bool.true_or]

/-- the executor branch of `reconcile`, with the sync step eliminated -/
theorem reconcile_exec (br : BR) (wl : Option Workload) (o : StepOut) (h : reconcile br wl = .val o)
    (hns : stopped br wl = false) :
    ∃ ns' wl' rq er, execute (withFinalizer br) br.status wl = .val (ns', wl', rq, er) ∧
      o.br = some { withFinalizer br with status := ns' } ∧ o.wl = wl' := by
  rcases reconcile_cases br wl o h with ⟨hd, hp, hf, _, _⟩ | ⟨_, hrest⟩
  · -- deleting ∧ Completed: the sync step stops (plan completed), contradiction with hns
    exfalso
    have : stopped br wl = true := sync_completed_stops _ _ _ hp
    rw [this] at hns; cases hns
  · simp only [] at hrest
    rcases hrest with ⟨hs, _, _⟩ | ⟨hs, ns', wl', rq, er, hex, hb, hw⟩
    · simp only [stopped, withFinalizer] at hns hs
      rw [hs] at hns; cases hns
    · have := sync_nostop_status _ _ _ hs
      rw [this] at hex
      exact ⟨ns', wl', rq, er, hex, hb, hw⟩

end RV.Executor

namespace RV.Executor
open RV.Arith RV.BatchCtx RV.Oracle.Executor

theorem refresh_phase (ns : Status) (info : Option Workload) : (refreshStatus ns info).phase = ns.phase := by
  unfold refreshStatus; cases info <;> rfl

theorem refresh_currentBatch (ns : Status) (info : Option Workload) :
    (refreshStatus ns info).currentBatch = ns.currentBatch := by
  unfold refreshStatus; cases info <;> rfl

theorem refresh_batchState (ns : Status) (info : Option Workload) :
    (refreshStatus ns info).batchState = ns.batchState := by
  unfold refreshStatus; cases info <;> rfl

/-- If the executor acts on a `Progressing` release, the plan is not finalizing:
    it has a batch partition and is not being deleted. -/
theorem nostop_progressing_partitioned (br : BR) (wl : Option Workload)
    (hns : (syncStatus br br.status wl).stop = false) (hp : br.status.phase = .progressing) :
    isPlanFinalizing br = false := by
  have h1 := sync_nostop_status br br.status wl hns
  by_cases hf : isPlanFinalizing br = true
  · exfalso
    have : (syncStatus br br.status wl).status.phase = .finalizing := by
      unfold syncStatus
      simp only [refresh_phase, syncDecide, hp, hf, if_true]
      simp
    rw [h1, hp] at this
    cases this
  · simpa using hf

/-- `initializedStatus` is the identity on a status whose phase is not empty -/
theorem initialized_id (s : Status) (h : s.phase ≠ .empty) : initializedStatus s = s := by
  unfold initializedStatus; simp [h]


/-- currentBatch after the special-case chain: unchanged unless recalculated or restarted -/
theorem syncDecide_currentBatch (br : BR) (ns : Status) (ev : Event) (info : Option Workload)
    (h1 : isPlanChanged br = false) (h2 : isPlanUnhealthy br = false) :
    (syncDecide br ns ev info).1.currentBatch = ns.currentBatch := by
  generalize hr : syncDecide br ns ev info = r
  unfold syncDecide at hr
  simp only [h1, h2, Bool.false_eq_true, if_false] at hr
  repeat' split at hr
  all_goals (subst hr; rfl)

/-- currentBatch after the special-case chain stays within the partition -/
theorem syncDecide_within (br : BR) (ns : Status) (ev : Event) (info : Option Workload) (p : Int)
    (hp : br.partition = some p) (h0 : 0 ≤ p) (hle : ns.currentBatch ≤ p) :
    (syncDecide br ns ev info).1.currentBatch ≤ p := by
  generalize hr : syncDecide br ns ev info = r
  unfold syncDecide at hr
  dsimp only at hr
  repeat' split at hr
  all_goals
    subst hr
    first
      | exact hle
      | (simp only [resetStatus]; exact h0)
      | (simp only [signalRecalculate, hp]; split <;> omega)

/-- the special-case chain never produces phase `Completed` by itself -/
theorem syncDecide_not_completed (br : BR) (ns : Status) (ev : Event) (info : Option Workload)
    (h : ns.phase ≠ .completed) : (syncDecide br ns ev info).1.phase ≠ .completed := by
  generalize hr : syncDecide br ns ev info = r
  unfold syncDecide at hr
  dsimp only at hr
  repeat' split at hr
  all_goals
    subst hr
    first
      | exact h
      | (simp only [signalRecalculate, resetStatus]; first | exact h | decide)
      | decide


theorem normPhase_currentBatch (ns : Status) : (normPhase ns).currentBatch = ns.currentBatch := by
  unfold normPhase; split <;> rfl

theorem normState_currentBatch (ns : Status) : (normState ns).currentBatch = ns.currentBatch := by
  unfold normState; split <;> rfl

theorem normPhase_of_progressing (ns : Status) (h : ns.phase = .progressing) : normPhase ns = ns := by
  unfold normPhase; simp [h]

theorem initializeWl_currentBatch (br : BR) (ns : Status) (wl : Option Workload) :
    (initializeWl br ns wl).2.1.currentBatch = ns.currentBatch := by
  unfold initializeWl
  cases wl with
  | none => rfl
  | some w => dsimp only; split <;> rfl

/-- what one `progressBatches` round can do to the status: keep the cursor, or — only from
    `Ready`, only after the readiness check passed, only when not partitioned — move to the next batch -/
theorem execProgressing_cases (br : BR) (ns : Status) (wl : Option Workload) (ns' : Status)
    (wl' : Option Workload) (rq er : Bool) (h : execProgressing br ns wl = .val (ns', wl', rq, er)) :
    (ns'.currentBatch = ns.currentBatch ∧ ns'.phase = ns.phase ∧
       (ns'.batchState = .ready → (ns.batchState = .verifying ∨ ns.batchState = .ready) ∧
          ensureReady br (normState ns) wl = .val .ok)) ∨
    (ns' = moveToNextBatch br (normState ns) ∧ ns.batchState = .ready ∧
       ensureReady br (normState ns) wl = .val .ok ∧ isPartitioned br = false) := by
  unfold execProgressing at h
  dsimp only at h
  have hns : ∀ s, ns.batchState = s → s ≠ .empty → s ≠ .other → normState ns = ns := by
    intro s hs h1 h2; unfold normState; rw [hs]; simp [h1, h2]
  cases hbs : ns.batchState
  case upgrading =>
    rw [hns _ hbs (by decide) (by decide)] at h ⊢
    simp only [hbs] at h
    split at h
    · cases h
    · simp only [Out.val.injEq, Prod.mk.injEq] at h
      obtain ⟨h1, _⟩ := h; subst h1
      left; exact ⟨rfl, rfl, by intro hc; cases hc⟩
    · simp only [Out.val.injEq, Prod.mk.injEq] at h
      obtain ⟨h1, _⟩ := h; subst h1
      left; exact ⟨rfl, rfl, by intro hc; rw [hbs] at hc; cases hc⟩
  case verifying =>
    rw [hns _ hbs (by decide) (by decide)] at h ⊢
    simp only [hbs] at h
    split at h
    · cases h
    · rename_i hok
      simp only [Out.val.injEq, Prod.mk.injEq] at h
      obtain ⟨h1, _⟩ := h; subst h1
      left; exact ⟨rfl, rfl, fun _ => ⟨Or.inl rfl, hok⟩⟩
    · simp only [Out.val.injEq, Prod.mk.injEq] at h
      obtain ⟨h1, _⟩ := h; subst h1
      left; exact ⟨rfl, rfl, by intro hc; cases hc⟩
  case ready =>
    rw [hns _ hbs (by decide) (by decide)] at h ⊢
    simp only [hbs] at h
    split at h
    · cases h
    · simp only [Out.val.injEq, Prod.mk.injEq] at h
      obtain ⟨h1, _⟩ := h; subst h1
      left; exact ⟨rfl, rfl, by intro hc; cases hc⟩
    · rename_i hok
      split at h
      · rename_i hnp
        simp only [Out.val.injEq, Prod.mk.injEq] at h
        obtain ⟨h1, _⟩ := h; subst h1
        right; exact ⟨rfl, rfl, hok, by simpa using hnp⟩
      · simp only [Out.val.injEq, Prod.mk.injEq] at h
        obtain ⟨h1, _⟩ := h; subst h1
        left; exact ⟨rfl, rfl, fun _ => ⟨Or.inr rfl, hok⟩⟩
  case empty =>
    have hn : normState ns = { ns with batchState := .upgrading } := by unfold normState; simp [hbs]
    rw [hn] at h ⊢
    dsimp only at h
    split at h
    · cases h
    · simp only [Out.val.injEq, Prod.mk.injEq] at h
      obtain ⟨h1, _⟩ := h; subst h1
      left; exact ⟨rfl, rfl, by intro hc; cases hc⟩
    · simp only [Out.val.injEq, Prod.mk.injEq] at h
      obtain ⟨h1, _⟩ := h; subst h1
      left; exact ⟨rfl, rfl, by intro hc; cases hc⟩
  case other =>
    have hn : normState ns = { ns with batchState := .upgrading } := by unfold normState; simp [hbs]
    rw [hn] at h ⊢
    dsimp only at h
    split at h
    · cases h
    · simp only [Out.val.injEq, Prod.mk.injEq] at h
      obtain ⟨h1, _⟩ := h; subst h1
      left; exact ⟨rfl, rfl, by intro hc; cases hc⟩
    · simp only [Out.val.injEq, Prod.mk.injEq] at h
      obtain ⟨h1, _⟩ := h; subst h1
      left; exact ⟨rfl, rfl, by intro hc; cases hc⟩

end RV.Executor
