/-
  The cursor reset at the end of `RolloutReconciler.Reconcile` (fix "cursor reset"):
  `RV.RolloutSM.reconcile w = (reconcileCore w).map (resetOnExit w)`.

  This file: what `resetOnExit` leaves alone (everything except `sub.finStep`, and that only when a Progressing rollout
  leaves towards Terminating / Disabling), and the transfer principle that carries a theorem about `reconcileCore` —
  the body of `Reconcile` up to the reset — to the whole `reconcile`.
-/
import RV.Model.RolloutSM
namespace RV.RolloutSM

theorem resetOnExit_eq (w : World) (r : StepResult) :
    resetOnExit w r = if exitsProgressing w r then { r with w := { r.w with ro := clearCursor r.w.ro } } else r := by
  unfold resetOnExit exitsProgressing
  by_cases h1 : w.ro.phase = .progressing <;> by_cases h2 : r.w.ro.phase = .terminating <;>
    by_cases h3 : r.w.ro.phase = .disabling <;> simp [h1, h2, h3]

theorem resetOnExit_of_not (w : World) (r : StepResult) (h : exitsProgressing w r = false) : resetOnExit w r = r := by
  rw [resetOnExit_eq, h]; rfl

theorem resetOnExit_of_phase (w : World) (r : StepResult) (h : w.ro.phase ≠ .progressing) : resetOnExit w r = r := by
  apply resetOnExit_of_not; simp [exitsProgressing, h]

theorem resetOnExit_of_stays (w : World) (r : StepResult) (h1 : r.w.ro.phase ≠ .terminating) (h2 : r.w.ro.phase ≠ .disabling) :
    resetOnExit w r = r := by
  apply resetOnExit_of_not; simp [exitsProgressing, h1, h2]

/-- the rollout after the reset: the same rollout, its cursor cleared when the reset fires -/
theorem resetOnExit_ro (w : World) (r : StepResult) :
    (resetOnExit w r).w.ro = if exitsProgressing w r then clearCursor r.w.ro else r.w.ro := by
  rw [resetOnExit_eq]; split <;> rfl

@[simp] theorem resetOnExit_br (w : World) (r : StepResult) : (resetOnExit w r).w.br = r.w.br := by
  rw [resetOnExit_eq]; split <;> rfl
@[simp] theorem resetOnExit_wl (w : World) (r : StepResult) : (resetOnExit w r).w.wl = r.w.wl := by
  rw [resetOnExit_eq]; split <;> rfl
@[simp] theorem resetOnExit_net (w : World) (r : StepResult) : (resetOnExit w r).w.net = r.w.net := by
  rw [resetOnExit_eq]; split <;> rfl
@[simp] theorem resetOnExit_mem (w : World) (r : StepResult) : (resetOnExit w r).w.mem = r.w.mem := by
  rw [resetOnExit_eq]; split <;> rfl
@[simp] theorem resetOnExit_roGone (w : World) (r : StepResult) : (resetOnExit w r).roGone = r.roGone := by
  rw [resetOnExit_eq]; split <;> rfl
@[simp] theorem resetOnExit_requeue (w : World) (r : StepResult) : (resetOnExit w r).requeue = r.requeue := by
  rw [resetOnExit_eq]; split <;> rfl
@[simp] theorem resetOnExit_err (w : World) (r : StepResult) : (resetOnExit w r).err = r.err := by
  rw [resetOnExit_eq]; split <;> rfl
@[simp] theorem resetOnExit_writes (w : World) (r : StepResult) : (resetOnExit w r).writes = r.writes := by
  rw [resetOnExit_eq]; split <;> rfl

/-- `clearCursor` touches nothing but `sub.finStep` -/
theorem clearCursor_sub (ro : Rollout) :
    (clearCursor ro).sub = ro.sub.map fun s => { s with finStep := .empty } := rfl

theorem clearCursor_frame (ro : Rollout) :
    clearCursor ro = { ro with sub := ro.sub.map fun s => { s with finStep := .empty } } := rfl

@[simp] theorem clearCursor_phase (ro : Rollout) : (clearCursor ro).phase = ro.phase := rfl
@[simp] theorem clearCursor_reason (ro : Rollout) : (clearCursor ro).reason = ro.reason := rfl
@[simp] theorem clearCursor_term (ro : Rollout) : (clearCursor ro).term = ro.term := rfl
@[simp] theorem clearCursor_steps (ro : Rollout) : (clearCursor ro).steps = ro.steps := rfl
@[simp] theorem clearCursor_style (ro : Rollout) : (clearCursor ro).style = ro.style := rfl
@[simp] theorem clearCursor_paused (ro : Rollout) : (clearCursor ro).paused = ro.paused := rfl
@[simp] theorem clearCursor_disabled (ro : Rollout) : (clearCursor ro).disabled = ro.disabled := rfl
@[simp] theorem clearCursor_deleting (ro : Rollout) : (clearCursor ro).deleting = ro.deleting := rfl
@[simp] theorem clearCursor_hasFinalizer (ro : Rollout) : (clearCursor ro).hasFinalizer = ro.hasFinalizer := rfl
@[simp] theorem clearCursor_hasTraffic (ro : Rollout) : (clearCursor ro).hasTraffic = ro.hasTraffic := rfl
@[simp] theorem clearCursor_disableGen (ro : Rollout) : (clearCursor ro).disableGen = ro.disableGen := rfl
@[simp] theorem clearCursor_rollbackInBatch (ro : Rollout) : (clearCursor ro).rollbackInBatch = ro.rollbackInBatch := rfl
@[simp] theorem clearCursor_grace (ro : Rollout) : (clearCursor ro).grace = ro.grace := rfl
@[simp] theorem clearCursor_condAge (ro : Rollout) : (clearCursor ro).condAge = ro.condAge := rfl
@[simp] theorem clearCursor_succeeded (ro : Rollout) : (clearCursor ro).succeeded = ro.succeeded := rfl
@[simp] theorem clearCursor_realPartition (ro : Rollout) : (clearCursor ro).realPartition = ro.realPartition := rfl

@[simp] theorem resetOnExit_phase (w : World) (r : StepResult) : (resetOnExit w r).w.ro.phase = r.w.ro.phase := by
  rw [resetOnExit_ro]; split <;> simp
@[simp] theorem resetOnExit_reason (w : World) (r : StepResult) : (resetOnExit w r).w.ro.reason = r.w.ro.reason := by
  rw [resetOnExit_ro]; split <;> simp
@[simp] theorem resetOnExit_term (w : World) (r : StepResult) : (resetOnExit w r).w.ro.term = r.w.ro.term := by
  rw [resetOnExit_ro]; split <;> simp
@[simp] theorem resetOnExit_steps (w : World) (r : StepResult) : (resetOnExit w r).w.ro.steps = r.w.ro.steps := by
  rw [resetOnExit_ro]; split <;> simp
@[simp] theorem resetOnExit_style (w : World) (r : StepResult) : (resetOnExit w r).w.ro.style = r.w.ro.style := by
  rw [resetOnExit_ro]; split <;> simp
@[simp] theorem resetOnExit_paused (w : World) (r : StepResult) : (resetOnExit w r).w.ro.paused = r.w.ro.paused := by
  rw [resetOnExit_ro]; split <;> simp
@[simp] theorem resetOnExit_disabled (w : World) (r : StepResult) : (resetOnExit w r).w.ro.disabled = r.w.ro.disabled := by
  rw [resetOnExit_ro]; split <;> simp
@[simp] theorem resetOnExit_deleting (w : World) (r : StepResult) : (resetOnExit w r).w.ro.deleting = r.w.ro.deleting := by
  rw [resetOnExit_ro]; split <;> simp
@[simp] theorem resetOnExit_hasFinalizer (w : World) (r : StepResult) : (resetOnExit w r).w.ro.hasFinalizer = r.w.ro.hasFinalizer := by
  rw [resetOnExit_ro]; split <;> simp
@[simp] theorem resetOnExit_hasTraffic (w : World) (r : StepResult) : (resetOnExit w r).w.ro.hasTraffic = r.w.ro.hasTraffic := by
  rw [resetOnExit_ro]; split <;> simp
@[simp] theorem resetOnExit_succeeded (w : World) (r : StepResult) : (resetOnExit w r).w.ro.succeeded = r.w.ro.succeeded := by
  rw [resetOnExit_ro]; split <;> simp
@[simp] theorem resetOnExit_condAge (w : World) (r : StepResult) : (resetOnExit w r).w.ro.condAge = r.w.ro.condAge := by
  rw [resetOnExit_ro]; split <;> simp
@[simp] theorem resetOnExit_realPartition (w : World) (r : StepResult) : (resetOnExit w r).w.ro.realPartition = r.w.ro.realPartition := by
  rw [resetOnExit_ro]; split <;> simp

/-- the sub-status after the reset: every field but the cursor as before -/
theorem resetOnExit_sub (w : World) (r : StepResult) :
    (resetOnExit w r).w.ro.sub =
      r.w.ro.sub.map fun s => { s with finStep := if exitsProgressing w r then .empty else s.finStep } := by
  rw [resetOnExit_ro]
  split
  · rw [clearCursor_sub]
  · cases r.w.ro.sub <;> rfl

theorem resetOnExit_sub_none (w : World) (r : StepResult) (h : r.w.ro.sub = none) : (resetOnExit w r).w.ro.sub = none := by
  rw [resetOnExit_sub, h]; rfl

theorem resetOnExit_sub_some (w : World) (r : StepResult) (s : Sub) (h : r.w.ro.sub = some s) :
    (resetOnExit w r).w.ro.sub = some { s with finStep := if exitsProgressing w r then .empty else s.finStep } := by
  rw [resetOnExit_sub, h]; rfl

/-! ### transfer -/

theorem reconcile_def (w : World) : reconcile w = (reconcileCore w).map (resetOnExit w) := rfl

theorem reconcile_panic_iff (w : World) : reconcile w = .panic ↔ reconcileCore w = .panic := by
  rw [reconcile_def]; cases reconcileCore w <;> simp [Out.map]

/-- every result of the whole reconcile is the result of the body, passed through the reset -/
theorem reconcile_val {w : World} {r : StepResult} (h : reconcile w = .val r) :
    ∃ r0, reconcileCore w = .val r0 ∧ r = resetOnExit w r0 := by
  rw [reconcile_def] at h
  cases hc : reconcileCore w with
  | panic => rw [hc] at h; simp [Out.map] at h
  | val r0 => rw [hc] at h; simp only [Out.map, Out.val.injEq] at h; exact ⟨r0, rfl, h.symm⟩

theorem reconcile_of_core {w : World} {r0 : StepResult} (h : reconcileCore w = .val r0) :
    reconcile w = .val (resetOnExit w r0) := by
  rw [reconcile_def, h]; rfl

/-- the whole reconcile of a rollout that is not Progressing is the body -/
theorem reconcile_eq_core_of_phase (w : World) (h : w.ro.phase ≠ .progressing) : reconcile w = reconcileCore w := by
  rw [reconcile_def]
  cases reconcileCore w with
  | panic => rfl
  | val r0 => simp only [Out.map]; rw [resetOnExit_of_phase w r0 h]

/-- **transfer principle**: an oracle that does not see the reset holds of the whole reconcile as soon as it holds of the body -/
theorem transfer (P : World → StepResult → Bool)
    (hP : ∀ w r0, P w (resetOnExit w r0) = P w r0)
    (hc : ∀ w r0, reconcileCore w = .val r0 → P w r0 = true)
    (w : World) (r : StepResult) (h : reconcile w = .val r) : P w r = true := by
  obtain ⟨r0, h0, rfl⟩ := reconcile_val h
  rw [hP]; exact hc w r0 h0

end RV.RolloutSM
