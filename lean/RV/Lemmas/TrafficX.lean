/-
  Provider laws (`LawfulProvider`) and the combinators that preserve them: `idle`, `onFst`, `onSnd`,
  `seq (onFst P) (onSnd Q)` (two members of a `CompositeController` over disjoint objects), `seq P idle`
  (the last member of the loop).  Used by `RV/Props/TrafficXThms.lean`.
-/
import RV.Oracle.TrafficX
namespace RV.TrafficX
open RV.Traffic RV.Oracle.TrafficX

variable {S G G₁ G₂ : Type}

/-! ## the API value -/

theorem Api.read_of_not_armed {a : Api} (h : a.armed = false) : a.read = (false, a) := by
  obtain ⟨w, r⟩ := a
  cases r with
  | none => rfl
  | some k => cases k with
    | zero => rfl
    | succ k => simp [Api.armed] at h

@[simp] theorem Api.read_ok : Api.ok.read = (false, Api.ok) := rfl
@[simp] theorem Api.spend_ok : Api.ok.spend = some Api.ok := rfl
@[simp] theorem Api.armed_ok : Api.ok.armed = false := rfl

theorem Api.spend_armed {a a1 : Api} (h : a.spend = some a1) : a1.armed = a.armed := by
  obtain ⟨w, r⟩ := a
  cases w with
  | none => simp [Api.spend] at h; subst h; rfl
  | some k => cases k with
    | zero => simp [Api.spend] at h
    | succ k => simp [Api.spend] at h; subst h; rfl

/-- the read fault after one `Get`: it stays armed unless this `Get` was the one that failed -/
theorem Api.read_cases (a : Api) :
    (a.read.1 = true ∧ a.armed = true ∧ a.read.2.armed = false) ∨
    (a.read.1 = false ∧ a.read.2.armed = a.armed) := by
  obtain ⟨w, r⟩ := a
  cases r with
  | none => right; exact ⟨rfl, rfl⟩
  | some k => cases k with
    | zero => right; exact ⟨rfl, rfl⟩
    | succ k => cases k with
      | zero => left; exact ⟨rfl, rfl, rfl⟩
      | succ k => right; exact ⟨rfl, rfl⟩

theorem Api.read_snd_not_armed {a : Api} (h : a.armed = false) : a.read.2 = a := by
  rw [Api.read_of_not_armed h]

/-- once the read fault is spent it stays spent -/
theorem Api.read_armed_mono (a : Api) : a.read.2.armed = true → a.armed = true := by
  rcases Api.read_cases a with ⟨_, h, h'⟩ | ⟨_, h⟩
  · intro x; rw [h'] at x; cases x
  · intro x; rw [← h]; exact x

theorem readFailed_self (a : Api) : readFailed a a = false := by
  unfold readFailed; cases a.armed <;> rfl

/-! ## provider laws -/

/-- every write of a provider call is a provider write (not one of the Manager's Service writes) -/
def NamedWrites (ws : List String) : Prop := ∀ w, w ∈ ws → isProviderWrite w = true

theorem NamedWrites.nil : NamedWrites [] := fun _ h => by cases h
theorem NamedWrites.append {a b : List String} (ha : NamedWrites a) (hb : NamedWrites b) : NamedWrites (a ++ b) := by
  intro w hw
  rcases List.mem_append.mp hw with h | h
  · exact ha w h
  · exact hb w h
theorem NamedWrites.providerTouched_false {ws : List String} (h : providerTouched ws = false) (hn : NamedWrites ws) :
    ws = [] := by
  cases ws with
  | nil => rfl
  | cons w r =>
    have := hn w (by simp)
    simp [providerTouched, this] at h

/-- the result of a call that found nothing to do -/
def PRes.noop (g : G) (flag : Bool) (a : Api) : PRes G := ⟨g, flag, false, a, [], false⟩

/-- **the provider laws**: what the Manager theorems need of a network provider.
    `Inv` is an invariant of the provider's objects (it may mention the user's original objects),
    `spec g s` says that the objects carry the step `s`, `clean g` that nothing of a rollout is left,
    `μ` is a variant that bounds the number of `EnsureRoutes` rounds. -/
structure LawfulProvider (P : Provider S G) (Inv : G → Prop) (spec : G → S → Prop) (clean : G → Prop)
    (μ : G → S → Nat) (bound : Nat) : Prop where
  /-- safety, whatever the health of the API server -/
  inv_ensure : ∀ a g s, Inv g → Inv (P.ensure a g s).g
  inv_finalise : ∀ a g, Inv g → Inv (P.finalise a g).g
  /-- *verified-means-spec* -/
  verified_spec : ∀ a g s, Inv g → (P.ensure a g s).panic = false → (P.ensure a g s).err = false →
    (P.ensure a g s).flag = true → spec (P.ensure a g s).g s
  /-- *idempotent*: after a verified `EnsureRoutes` the same call changes nothing, writes nothing and verifies -/
  verified_stable : ∀ a g s, Inv g → (P.ensure a g s).panic = false → (P.ensure a g s).err = false →
    (P.ensure a g s).flag = true → ∀ a', a'.armed = false →
      P.ensure a' (P.ensure a g s).g s = PRes.noop (P.ensure a g s).g true a'
  /-- *finalise-restores*: a `Finalise` that returns no error leaves the objects clean … -/
  finalise_clean : ∀ a g, Inv g → (P.finalise a g).panic = false → (P.finalise a g).err = false →
    clean (P.finalise a g).g
  /-- … and a further `Finalise` has nothing to do -/
  finalise_stable : ∀ a g, Inv g → (P.finalise a g).panic = false → (P.finalise a g).err = false →
    ∀ a', a'.armed = false → P.finalise a' (P.finalise a g).g = PRes.noop (P.finalise a g).g false a'
  /-- on a healthy API server `Finalise` neither fails nor panics -/
  finalise_healthy : ∀ g, Inv g → (P.finalise Api.ok g).err = false ∧ (P.finalise Api.ok g).panic = false
  /-- a round of `EnsureRoutes` on a healthy API server that neither fails nor verifies makes progress
      (and a round that verifies does not undo any) -/
  ensure_progress : ∀ g s, Inv g → (P.ensure Api.ok g s).panic = false → (P.ensure Api.ok g s).err = false →
    ((P.ensure Api.ok g s).flag = false → μ (P.ensure Api.ok g s).g s < μ g s) ∧
    μ (P.ensure Api.ok g s).g s ≤ μ g s
  μ_le : ∀ g s, μ g s ≤ bound
  /-- a healthy API server stays healthy -/
  healthy_ensure : ∀ g s, (P.ensure Api.ok g s).a = Api.ok
  healthy_finalise : ∀ g, (P.finalise Api.ok g).a = Api.ok
  /-- provider writes are not Service writes -/
  writes_ensure : ∀ a g s, NamedWrites (P.ensure a g s).writes
  writes_finalise : ∀ a g, NamedWrites (P.finalise a g).writes
  /-- a read that failed (not NotFound) is reported as an error; a spent read fault stays spent -/
  read_fault_ensure : ∀ a g s, (P.ensure a g s).panic = false →
    (readFailed a (P.ensure a g s).a = true → (P.ensure a g s).err = true) ∧
    ((P.ensure a g s).a.armed = true → a.armed = true)
  read_fault_finalise : ∀ a g, (P.finalise a g).panic = false →
    (readFailed a (P.finalise a g).a = true → (P.finalise a g).err = true) ∧
    ((P.finalise a g).a.armed = true → a.armed = true)

/-- weakening of the spec / clean predicates and of the bound -/
theorem LawfulProvider.mono {P : Provider S G} {Inv : G → Prop} {spec spec' : G → S → Prop} {clean clean' : G → Prop}
    {μ : G → S → Nat} {bound bound' : Nat}
    (h : LawfulProvider P Inv spec clean μ bound)
    (hs : ∀ g s, Inv g → spec g s → spec' g s) (hc : ∀ g, Inv g → clean g → clean' g) (hb : bound ≤ bound') :
    LawfulProvider P Inv spec' clean' μ bound' :=
  { h with
    verified_spec := fun a g s hi hp he hf => hs _ _ (h.inv_ensure a g s hi) (h.verified_spec a g s hi hp he hf)
    finalise_clean := fun a g hi hp he => hc _ (h.inv_finalise a g hi) (h.finalise_clean a g hi hp he)
    μ_le := fun g s => Nat.le_trans (h.μ_le g s) hb }

/-! ### `idle` -/

theorem idle_lawful : LawfulProvider (idle : Provider S G) (fun _ => True) (fun _ _ => True) (fun _ => True)
    (fun _ _ => 0) 0 where
  inv_ensure := fun _ _ _ _ => trivial
  inv_finalise := fun _ _ _ => trivial
  verified_spec := fun _ _ _ _ _ _ _ => trivial
  verified_stable := fun _ _ _ _ _ _ _ _ _ => rfl
  finalise_clean := fun _ _ _ _ _ => trivial
  finalise_stable := fun _ _ _ _ _ _ _ => rfl
  finalise_healthy := fun _ _ => ⟨rfl, rfl⟩
  ensure_progress := fun _ _ _ _ _ => ⟨fun h => by simp [idle] at h, Nat.le_refl _⟩
  μ_le := fun _ _ => Nat.le_refl _
  healthy_ensure := fun _ _ => rfl
  healthy_finalise := fun _ => rfl
  writes_ensure := fun _ _ _ => NamedWrites.nil
  writes_finalise := fun _ _ => NamedWrites.nil
  read_fault_ensure := fun a _ _ _ => ⟨fun h => by simp [idle, readFailed_self] at h, fun h => h⟩
  read_fault_finalise := fun a _ _ => ⟨fun h => by simp [idle, readFailed_self] at h, fun h => h⟩

/-! ### lifts -/

theorem onFst_lawful {P : Provider S G₁} {Inv : G₁ → Prop} {spec : G₁ → S → Prop} {clean : G₁ → Prop}
    {μ : G₁ → S → Nat} {bound : Nat} (h : LawfulProvider P Inv spec clean μ bound) :
    LawfulProvider (onFst P : Provider S (G₁ × G₂)) (fun g => Inv g.1) (fun g s => spec g.1 s) (fun g => clean g.1)
      (fun g s => μ g.1 s) bound where
  inv_ensure := fun a g s hi => h.inv_ensure a g.1 s hi
  inv_finalise := fun a g hi => h.inv_finalise a g.1 hi
  verified_spec := fun a g s hi hp he hf => h.verified_spec a g.1 s hi hp he hf
  verified_stable := fun a g s hi hp he hf a' ha' => by
    have := h.verified_stable a g.1 s hi hp he hf a' ha'
    simp only [onFst, PRes.noop] at this ⊢
    rw [this]
  finalise_clean := fun a g hi hp he => h.finalise_clean a g.1 hi hp he
  finalise_stable := fun a g hi hp he a' ha' => by
    have := h.finalise_stable a g.1 hi hp he a' ha'
    simp only [onFst, PRes.noop] at this ⊢
    rw [this]
  finalise_healthy := fun g hi => h.finalise_healthy g.1 hi
  ensure_progress := fun g s hi hp he => h.ensure_progress g.1 s hi hp he
  μ_le := fun g s => h.μ_le g.1 s
  healthy_ensure := fun g s => h.healthy_ensure g.1 s
  healthy_finalise := fun g => h.healthy_finalise g.1
  writes_ensure := fun a g s => h.writes_ensure a g.1 s
  writes_finalise := fun a g => h.writes_finalise a g.1
  read_fault_ensure := fun a g s hp => h.read_fault_ensure a g.1 s hp
  read_fault_finalise := fun a g hp => h.read_fault_finalise a g.1 hp

theorem onSnd_lawful {P : Provider S G₂} {Inv : G₂ → Prop} {spec : G₂ → S → Prop} {clean : G₂ → Prop}
    {μ : G₂ → S → Nat} {bound : Nat} (h : LawfulProvider P Inv spec clean μ bound) :
    LawfulProvider (onSnd P : Provider S (G₁ × G₂)) (fun g => Inv g.2) (fun g s => spec g.2 s) (fun g => clean g.2)
      (fun g s => μ g.2 s) bound where
  inv_ensure := fun a g s hi => h.inv_ensure a g.2 s hi
  inv_finalise := fun a g hi => h.inv_finalise a g.2 hi
  verified_spec := fun a g s hi hp he hf => h.verified_spec a g.2 s hi hp he hf
  verified_stable := fun a g s hi hp he hf a' ha' => by
    have := h.verified_stable a g.2 s hi hp he hf a' ha'
    simp only [onSnd, PRes.noop] at this ⊢
    rw [this]
  finalise_clean := fun a g hi hp he => h.finalise_clean a g.2 hi hp he
  finalise_stable := fun a g hi hp he a' ha' => by
    have := h.finalise_stable a g.2 hi hp he a' ha'
    simp only [onSnd, PRes.noop] at this ⊢
    rw [this]
  finalise_healthy := fun g hi => h.finalise_healthy g.2 hi
  ensure_progress := fun g s hi hp he => h.ensure_progress g.2 s hi hp he
  μ_le := fun g s => h.μ_le g.2 s
  healthy_ensure := fun g s => h.healthy_ensure g.2 s
  healthy_finalise := fun g => h.healthy_finalise g.2
  writes_ensure := fun a g s => h.writes_ensure a g.2 s
  writes_finalise := fun a g => h.writes_finalise a g.2
  read_fault_ensure := fun a g s hp => h.read_fault_ensure a g.2 s hp
  read_fault_finalise := fun a g hp => h.read_fault_finalise a g.2 hp


/-! ### two members over disjoint objects -/

/-- two members of a `CompositeController` that manage disjoint objects -/
def pairP (P : Provider S G₁) (Q : Provider S G₂) : Provider S (G₁ × G₂) := seq (onFst P) (onSnd Q)

theorem pairP_ensure (P : Provider S G₁) (Q : Provider S G₂) (a : Api) (g : G₁ × G₂) (s : S) :
    (pairP P Q).ensure a g s =
      let r1 := P.ensure a g.1 s
      if r1.panic then ⟨(r1.g, g.2), r1.flag, r1.err, r1.a, r1.writes, r1.panic⟩
      else if r1.err then ⟨(r1.g, g.2), false, r1.err, r1.a, r1.writes, r1.panic⟩
      else
        let r2 := Q.ensure r1.a g.2 s
        if r2.panic then ⟨(r1.g, r2.g), r2.flag, r2.err, r2.a, r1.writes ++ r2.writes, r2.panic⟩
        else if r2.err then ⟨(r1.g, r2.g), false, true, r2.a, r1.writes ++ r2.writes, false⟩
        else ⟨(r1.g, r2.g), r1.flag && r2.flag, false, r2.a, r1.writes ++ r2.writes, false⟩ := by
  rfl

theorem pairP_finalise (P : Provider S G₁) (Q : Provider S G₂) (a : Api) (g : G₁ × G₂) :
    (pairP P Q).finalise a g =
      let r1 := P.finalise a g.1
      if r1.panic then ⟨(r1.g, g.2), r1.flag, r1.err, r1.a, r1.writes, r1.panic⟩
      else
        let r2 := Q.finalise r1.a g.2
        if r2.panic then ⟨(r1.g, r2.g), r2.flag, r2.err, r2.a, r1.writes ++ r2.writes, r2.panic⟩
        else ⟨(r1.g, r2.g), (!r1.err && r1.flag) || r2.flag, r1.err || r2.err, r2.a, r1.writes ++ r2.writes, false⟩ := by
  rfl


theorem readFailed_trans {a b c : Api} (hab : readFailed a b = false) (hbc : readFailed b c = false)
    (hb : b.armed = true → a.armed = true) : readFailed a c = false := by
  unfold readFailed at *
  cases ha : a.armed <;> cases hb' : b.armed <;> cases hc : c.armed <;> simp_all

theorem pairP_lawful {P : Provider S G₁} {Q : Provider S G₂}
    {I₁ : G₁ → Prop} {sp₁ : G₁ → S → Prop} {cl₁ : G₁ → Prop} {μ₁ : G₁ → S → Nat} {b₁ : Nat}
    {I₂ : G₂ → Prop} {sp₂ : G₂ → S → Prop} {cl₂ : G₂ → Prop} {μ₂ : G₂ → S → Nat} {b₂ : Nat}
    (hP : LawfulProvider P I₁ sp₁ cl₁ μ₁ b₁) (hQ : LawfulProvider Q I₂ sp₂ cl₂ μ₂ b₂) :
    LawfulProvider (pairP P Q) (fun g => I₁ g.1 ∧ I₂ g.2) (fun g s => sp₁ g.1 s ∧ sp₂ g.2 s)
      (fun g => cl₁ g.1 ∧ cl₂ g.2) (fun g s => μ₁ g.1 s + μ₂ g.2 s) (b₁ + b₂) where
  inv_ensure := by
    intro a g s ⟨h1, h2⟩
    rw [pairP_ensure]
    have i1 := hP.inv_ensure a g.1 s h1
    have i2 := hQ.inv_ensure (P.ensure a g.1 s).a g.2 s h2
    dsimp only
    split
    · exact ⟨i1, h2⟩
    · split
      · exact ⟨i1, h2⟩
      · split
        · exact ⟨i1, i2⟩
        · split <;> exact ⟨i1, i2⟩
  inv_finalise := by
    intro a g ⟨h1, h2⟩
    rw [pairP_finalise]
    have i1 := hP.inv_finalise a g.1 h1
    have i2 := hQ.inv_finalise (P.finalise a g.1).a g.2 h2
    dsimp only
    split
    · exact ⟨i1, h2⟩
    · split <;> exact ⟨i1, i2⟩
  verified_spec := by
    intro a g s ⟨h1, h2⟩ hp he hf
    rw [pairP_ensure] at hp he hf ⊢
    dsimp only at hp he hf ⊢
    cases p1 : (P.ensure a g.1 s).panic <;> simp only [p1, if_true, Bool.false_eq_true, if_false] at hp he hf ⊢ <;> try (first | (cases he; done) | (cases hp; done))
    · cases e1 : (P.ensure a g.1 s).err <;> simp only [e1, if_true, Bool.false_eq_true, if_false] at hp he hf ⊢ <;> try (first | (cases he; done) | (cases hp; done))
      · cases p2 : (Q.ensure (P.ensure a g.1 s).a g.2 s).panic <;>
          simp only [p2, if_true, Bool.false_eq_true, if_false] at hp he hf ⊢ <;> try (first | (cases he; done) | (cases hp; done))
        · cases e2 : (Q.ensure (P.ensure a g.1 s).a g.2 s).err <;>
            simp only [e2, if_true, Bool.false_eq_true, if_false] at hp he hf ⊢ <;> try (first | (cases he; done) | (cases hp; done))
          · simp only [Bool.and_eq_true] at hf
            exact ⟨hP.verified_spec a g.1 s h1 p1 e1 hf.1, hQ.verified_spec _ g.2 s h2 p2 e2 hf.2⟩
  verified_stable := by
    intro a g s ⟨h1, h2⟩ hp he hf a' ha'
    rw [pairP_ensure] at hp he hf
    dsimp only at hp he hf
    cases p1 : (P.ensure a g.1 s).panic <;> simp only [p1, if_true, Bool.false_eq_true, if_false] at hp he hf <;> try (first | (cases he; done) | (cases hp; done))
    · cases e1 : (P.ensure a g.1 s).err <;> simp only [e1, if_true, Bool.false_eq_true, if_false] at hp he hf <;> try (first | (cases he; done) | (cases hp; done))
      · cases p2 : (Q.ensure (P.ensure a g.1 s).a g.2 s).panic <;>
          simp only [p2, if_true, Bool.false_eq_true, if_false] at hp he hf <;> try (first | (cases he; done) | (cases hp; done))
        · cases e2 : (Q.ensure (P.ensure a g.1 s).a g.2 s).err <;>
            simp only [e2, if_true, Bool.false_eq_true, if_false] at hp he hf <;> try (first | (cases he; done) | (cases hp; done))
          · simp only [Bool.and_eq_true] at hf
            have s1 := hP.verified_stable a g.1 s h1 p1 e1 hf.1 a' ha'
            have s2 := hQ.verified_stable _ g.2 s h2 p2 e2 hf.2 a' ha'
            have hg : ((pairP P Q).ensure a g s).g = ((P.ensure a g.1 s).g, (Q.ensure (P.ensure a g.1 s).a g.2 s).g) := by
              rw [pairP_ensure]; simp only [p1, e1, p2, e2, Bool.false_eq_true, if_false]
            rw [hg, pairP_ensure]
            simp only [s1, PRes.noop, s2, Bool.false_eq_true, if_false, Bool.and_self, List.append_nil]
  finalise_clean := by
    intro a g ⟨h1, h2⟩ hp he
    rw [pairP_finalise] at hp he ⊢
    dsimp only at hp he ⊢
    cases p1 : (P.finalise a g.1).panic <;> simp only [p1, if_true, Bool.false_eq_true, if_false] at hp he ⊢ <;> try (first | (cases he; done) | (cases hp; done))
    · cases p2 : (Q.finalise (P.finalise a g.1).a g.2).panic <;>
        simp only [p2, if_true, Bool.false_eq_true, if_false] at hp he ⊢ <;> try (first | (cases he; done) | (cases hp; done))
      · simp only [Bool.or_eq_false_iff] at he
        exact ⟨hP.finalise_clean a g.1 h1 p1 he.1, hQ.finalise_clean _ g.2 h2 p2 he.2⟩
  finalise_stable := by
    intro a g ⟨h1, h2⟩ hp he a' ha'
    rw [pairP_finalise] at hp he
    dsimp only at hp he
    cases p1 : (P.finalise a g.1).panic <;> simp only [p1, if_true, Bool.false_eq_true, if_false] at hp he <;> try (first | (cases he; done) | (cases hp; done))
    · cases p2 : (Q.finalise (P.finalise a g.1).a g.2).panic <;>
        simp only [p2, if_true, Bool.false_eq_true, if_false] at hp he <;> try (first | (cases he; done) | (cases hp; done))
      · simp only [Bool.or_eq_false_iff] at he
        have s1 := hP.finalise_stable a g.1 h1 p1 he.1 a' ha'
        have s2 := hQ.finalise_stable _ g.2 h2 p2 he.2 a' ha'
        have hg : ((pairP P Q).finalise a g).g = ((P.finalise a g.1).g, (Q.finalise (P.finalise a g.1).a g.2).g) := by
          rw [pairP_finalise]; simp only [p1, p2, Bool.false_eq_true, if_false]
        rw [hg, pairP_finalise]
        simp only [s1, PRes.noop, s2, Bool.false_eq_true, if_false, Bool.not_false, Bool.and_false, Bool.or_self,
          List.append_nil]
  finalise_healthy := by
    intro g ⟨h1, h2⟩
    rw [pairP_finalise]
    obtain ⟨e1, p1⟩ := hP.finalise_healthy g.1 h1
    have a1 := hP.healthy_finalise g.1
    obtain ⟨e2, p2⟩ := hQ.finalise_healthy g.2 h2
    simp only [p1, a1, p2, e1, e2, Bool.false_eq_true, if_false, Bool.or_self, and_self]
  ensure_progress := by
    intro g s ⟨h1, h2⟩ hp he
    rw [pairP_ensure] at hp he ⊢
    dsimp only at hp he ⊢
    have a1 := hP.healthy_ensure g.1 s
    cases p1 : (P.ensure Api.ok g.1 s).panic <;> simp only [p1, if_true, Bool.false_eq_true, if_false] at hp he ⊢ <;> try (first | (cases he; done) | (cases hp; done))
    · cases e1 : (P.ensure Api.ok g.1 s).err <;> simp only [e1, if_true, Bool.false_eq_true, if_false] at hp he ⊢ <;> try (first | (cases he; done) | (cases hp; done))
      · rw [a1] at hp he ⊢
        cases p2 : (Q.ensure Api.ok g.2 s).panic <;> simp only [p2, if_true, Bool.false_eq_true, if_false] at hp he ⊢ <;> try (first | (cases he; done) | (cases hp; done))
        · cases e2 : (Q.ensure Api.ok g.2 s).err <;> simp only [e2, if_true, Bool.false_eq_true, if_false] at hp he ⊢ <;> try (first | (cases he; done) | (cases hp; done))
          · obtain ⟨q1, l1⟩ := hP.ensure_progress g.1 s h1 p1 e1
            obtain ⟨q2, l2⟩ := hQ.ensure_progress g.2 s h2 p2 e2
            refine ⟨fun hf => ?_, by omega⟩
            simp only [Bool.and_eq_false_iff] at hf
            rcases hf with hf | hf
            · have := q1 hf; omega
            · have := q2 hf; omega
  μ_le := fun g s => Nat.add_le_add (hP.μ_le g.1 s) (hQ.μ_le g.2 s)
  healthy_ensure := by
    intro g s
    rw [pairP_ensure]
    dsimp only
    have a1 := hP.healthy_ensure g.1 s
    have a2 := hQ.healthy_ensure g.2 s
    split
    · exact a1
    · split
      · exact a1
      · rw [a1]; split
        · exact a2
        · split <;> exact a2
  healthy_finalise := by
    intro g
    rw [pairP_finalise]
    dsimp only
    have a1 := hP.healthy_finalise g.1
    have a2 := hQ.healthy_finalise g.2
    split
    · exact a1
    · rw [a1]; split <;> exact a2
  writes_ensure := by
    intro a g s
    rw [pairP_ensure]
    dsimp only
    have w1 := hP.writes_ensure a g.1 s
    have w2 := hQ.writes_ensure (P.ensure a g.1 s).a g.2 s
    split
    · exact w1
    · split
      · exact w1
      · split
        · exact w1.append w2
        · split <;> exact w1.append w2
  writes_finalise := by
    intro a g
    rw [pairP_finalise]
    dsimp only
    have w1 := hP.writes_finalise a g.1
    have w2 := hQ.writes_finalise (P.finalise a g.1).a g.2
    split
    · exact w1
    · split <;> exact w1.append w2
  read_fault_ensure := by
    intro a g s hp
    rw [pairP_ensure] at hp ⊢
    dsimp only at hp ⊢
    cases p1 : (P.ensure a g.1 s).panic <;> simp only [p1, if_true, Bool.false_eq_true, if_false] at hp ⊢ <;> try (first | (cases he; done) | (cases hp; done))
    · obtain ⟨f1, m1⟩ := hP.read_fault_ensure a g.1 s p1
      cases e1 : (P.ensure a g.1 s).err <;> simp only [e1, if_true, Bool.false_eq_true, if_false] at hp ⊢ <;> try (first | (cases he; done) | (cases hp; done))
      · cases p2 : (Q.ensure (P.ensure a g.1 s).a g.2 s).panic <;>
          simp only [p2, if_true, Bool.false_eq_true, if_false] at hp ⊢ <;> try (first | (cases he; done) | (cases hp; done))
        · obtain ⟨f2, m2⟩ := hQ.read_fault_ensure (P.ensure a g.1 s).a g.2 s p2
          cases e2 : (Q.ensure (P.ensure a g.1 s).a g.2 s).err <;>
            simp only [e2, if_true, Bool.false_eq_true, if_false] at hp ⊢ <;> try (first | (cases he; done) | (cases hp; done))
          · refine ⟨fun h => ?_, fun h => m1 (m2 h)⟩
            have n1 : readFailed a (P.ensure a g.1 s).a = false := by
              cases hh : readFailed a (P.ensure a g.1 s).a
              · rfl
              · have := f1 hh; rw [e1] at this; cases this
            have n2 : readFailed (P.ensure a g.1 s).a (Q.ensure (P.ensure a g.1 s).a g.2 s).a = false := by
              cases hh : readFailed (P.ensure a g.1 s).a (Q.ensure (P.ensure a g.1 s).a g.2 s).a
              · rfl
              · have := f2 hh; rw [e2] at this; cases this
            rw [readFailed_trans n1 n2 m1] at h; cases h
          · exact ⟨fun _ => trivial, fun h => m1 (m2 h)⟩
      · exact ⟨fun _ => trivial, m1⟩
  read_fault_finalise := by
    intro a g hp
    rw [pairP_finalise] at hp ⊢
    dsimp only at hp ⊢
    cases p1 : (P.finalise a g.1).panic <;> simp only [p1, if_true, Bool.false_eq_true, if_false] at hp ⊢ <;> try (first | (cases he; done) | (cases hp; done))
    · obtain ⟨f1, m1⟩ := hP.read_fault_finalise a g.1 p1
      cases p2 : (Q.finalise (P.finalise a g.1).a g.2).panic <;>
        simp only [p2, if_true, Bool.false_eq_true, if_false] at hp ⊢ <;> try (first | (cases he; done) | (cases hp; done))
      · obtain ⟨f2, m2⟩ := hQ.read_fault_finalise (P.finalise a g.1).a g.2 p2
        refine ⟨fun h => ?_, fun h => m1 (m2 h)⟩
        cases e1 : (P.finalise a g.1).err
        · cases e2 : (Q.finalise (P.finalise a g.1).a g.2).err
          · have n1 : readFailed a (P.finalise a g.1).a = false := by
              cases hh : readFailed a (P.finalise a g.1).a
              · rfl
              · have := f1 hh; rw [e1] at this; cases this
            have n2 : readFailed (P.finalise a g.1).a (Q.finalise (P.finalise a g.1).a g.2).a = false := by
              cases hh : readFailed (P.finalise a g.1).a (Q.finalise (P.finalise a g.1).a g.2).a
              · rfl
              · have := f2 hh; rw [e2] at this; cases this
            rw [readFailed_trans n1 n2 m1] at h; cases h
          · rfl
        · rfl


/-! ### re-association of the composite loop -/

theorem Provider.ext' {P Q : Provider S G} (h1 : ∀ g, P.initz g = Q.initz g)
    (h2 : ∀ a g s, P.ensure a g s = Q.ensure a g s) (h3 : ∀ a g, P.finalise a g = Q.finalise a g) : P = Q := by
  cases P; cases Q
  simp only [Provider.mk.injEq]
  exact ⟨funext h1, funext fun a => funext fun g => funext fun s => h2 a g s, funext fun a => funext fun g => h3 a g⟩

/-- two consecutive members that both act on the second component are one member acting on it -/
theorem onSnd_seq (A B : Provider S G₂) : seq (onSnd A) (onSnd B) = (onSnd (seq A B) : Provider S (G₁ × G₂)) := by
  apply Provider.ext'
  · intro g; rfl
  · intro a g s
    simp only [seq, onSnd]
    by_cases hp : (A.ensure a g.2 s).panic = true <;> by_cases he : (A.ensure a g.2 s).err = true <;>
      by_cases hp2 : (B.ensure (A.ensure a g.2 s).a (A.ensure a g.2 s).g s).panic = true <;>
      by_cases he2 : (B.ensure (A.ensure a g.2 s).a (A.ensure a g.2 s).g s).err = true <;>
      simp [hp, he, hp2, he2]
  · intro a g
    simp only [seq, onSnd]
    by_cases hp : (A.finalise a g.2).panic = true <;>
      by_cases hp2 : (B.finalise (A.finalise a g.2).a (A.finalise a g.2).g).panic = true <;>
      simp [hp, hp2]

theorem onSnd_idle : (idle : Provider S (G₁ × G₂)) = onSnd idle := by
  apply Provider.ext' <;> intros <;> rfl

/-- the last member of the loop (`seq P idle`) keeps the laws of `P` -/
theorem seq_idle_lawful {P : Provider S G} {Inv : G → Prop} {spec : G → S → Prop} {clean : G → Prop}
    {μ : G → S → Nat} {bound : Nat} (h : LawfulProvider P Inv spec clean μ bound) :
    LawfulProvider (seq P idle) Inv spec clean μ bound where
  inv_ensure := by
    intro a g s hi
    have := h.inv_ensure a g s hi
    simp only [seq, idle]
    split
    · exact this
    · split <;> exact this
  inv_finalise := by
    intro a g hi
    have := h.inv_finalise a g hi
    simp only [seq, idle]
    split <;> exact this
  verified_spec := by
    intro a g s hi hp he hf
    simp only [seq, idle] at hp he hf ⊢
    cases p1 : (P.ensure a g s).panic <;> simp only [p1, if_true, Bool.false_eq_true, if_false] at hp he hf ⊢ <;> try (first | (cases he; done) | (cases hp; done))
    cases e1 : (P.ensure a g s).err <;> simp only [e1, if_true, Bool.false_eq_true, if_false] at hp he hf ⊢ <;> try (first | (cases he; done) | (cases hp; done))
    simp only [Bool.and_true] at hf
    exact h.verified_spec a g s hi p1 e1 hf
  verified_stable := by
    intro a g s hi hp he hf a' ha'
    simp only [seq, idle] at hp he hf
    cases p1 : (P.ensure a g s).panic <;> simp only [p1, if_true, Bool.false_eq_true, if_false] at hp he hf <;> try (first | (cases he; done) | (cases hp; done))
    cases e1 : (P.ensure a g s).err <;> simp only [e1, if_true, Bool.false_eq_true, if_false] at hp he hf <;> try (first | (cases he; done) | (cases hp; done))
    simp only [Bool.and_true] at hf
    have s1 := h.verified_stable a g s hi p1 e1 hf a' ha'
    have hg : ((seq P idle).ensure a g s).g = (P.ensure a g s).g := by
      simp only [seq, idle, p1, e1, Bool.false_eq_true, if_false]
    rw [hg]
    simp only [seq, idle, s1, PRes.noop, Bool.false_eq_true, if_false, Bool.and_self, List.append_nil]
  finalise_clean := by
    intro a g hi hp he
    simp only [seq, idle] at hp he ⊢
    cases p1 : (P.finalise a g).panic <;> simp only [p1, if_true, Bool.false_eq_true, if_false] at hp he ⊢ <;> try (first | (cases he; done) | (cases hp; done))
    simp only [Bool.or_false] at he
    exact h.finalise_clean a g hi p1 he
  finalise_stable := by
    intro a g hi hp he a' ha'
    simp only [seq, idle] at hp he
    cases p1 : (P.finalise a g).panic <;> simp only [p1, if_true, Bool.false_eq_true, if_false] at hp he <;> try (first | (cases he; done) | (cases hp; done))
    simp only [Bool.or_false] at he
    have s1 := h.finalise_stable a g hi p1 he a' ha'
    have hg : ((seq P idle).finalise a g).g = (P.finalise a g).g := by
      simp only [seq, idle, p1, Bool.false_eq_true, if_false]
    rw [hg]
    simp only [seq, idle, s1, PRes.noop, Bool.false_eq_true, if_false, Bool.not_false, Bool.and_false, Bool.or_self,
      List.append_nil]
  finalise_healthy := by
    intro g hi
    obtain ⟨e1, p1⟩ := h.finalise_healthy g hi
    simp only [seq, idle, p1, e1, Bool.false_eq_true, if_false, Bool.or_self, and_self]
  ensure_progress := by
    intro g s hi hp he
    simp only [seq, idle] at hp he ⊢
    cases p1 : (P.ensure Api.ok g s).panic <;> simp only [p1, if_true, Bool.false_eq_true, if_false] at hp he ⊢ <;> try (first | (cases he; done) | (cases hp; done))
    cases e1 : (P.ensure Api.ok g s).err <;> simp only [e1, if_true, Bool.false_eq_true, if_false] at hp he ⊢ <;> try (first | (cases he; done) | (cases hp; done))
    simp only [Bool.and_true]
    exact h.ensure_progress g s hi p1 e1
  μ_le := h.μ_le
  healthy_ensure := by
    intro g s
    have := h.healthy_ensure g s
    simp only [seq, idle]
    split
    · exact this
    · split <;> exact this
  healthy_finalise := by
    intro g
    have := h.healthy_finalise g
    simp only [seq, idle]
    split <;> exact this
  writes_ensure := by
    intro a g s
    have := h.writes_ensure a g s
    simp only [seq, idle]
    split
    · exact this
    · split
      · exact this
      · simpa using this
  writes_finalise := by
    intro a g
    have := h.writes_finalise a g
    simp only [seq, idle]
    split
    · exact this
    · simpa using this
  read_fault_ensure := by
    intro a g s hp
    simp only [seq, idle] at hp ⊢
    cases p1 : (P.ensure a g s).panic <;> simp only [p1, if_true, Bool.false_eq_true, if_false] at hp ⊢ <;> try (cases hp; done)
    obtain ⟨f1, m1⟩ := h.read_fault_ensure a g s p1
    cases e1 : (P.ensure a g s).err <;> simp only [e1, if_true, Bool.false_eq_true, if_false] at hp ⊢
    · exact ⟨fun hh => (by have := f1 hh; rw [e1] at this; cases this), m1⟩
    · exact ⟨fun _ => trivial, m1⟩
  read_fault_finalise := by
    intro a g hp
    simp only [seq, idle] at hp ⊢
    cases p1 : (P.finalise a g).panic <;> simp only [p1, if_true, Bool.false_eq_true, if_false] at hp ⊢ <;> try (cases hp; done)
    obtain ⟨f1, m1⟩ := h.read_fault_finalise a g p1
    simp only [Bool.or_false]
    exact ⟨f1, m1⟩

end RV.TrafficX
