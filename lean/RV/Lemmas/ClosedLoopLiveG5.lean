/-
  Progress of the closed loop, round-boundary classes 13, 14, 16, 17: one fair round from a state of the class leads to a state of the
  invariant with a strictly smaller measure.
-/
import RV.Lemmas.ClosedLoopLiveBase
namespace RV.Lemmas.ClosedLoop
open RV.Arith RV.Traffic RV.RolloutSM RV.ClosedLoop RV.Oracle.ClosedLoop

/-! ### the facts of the four classes -/

def lG5_brReady (b : CBr) (w : CWl) (k : Int) : Bool :=
  brSync b w && brInit b w && b.st.batchState == .ready && b.st.hasReadyTime &&
    b.partition == some (k - 1) && b.st.currentBatch == k - 1 &&
    RV.Oracle.Executor.batchReadyNow (exBr b) (some (exWl w))

/-- `cls` of a rolling state -/
theorem lG5_cls_rolling (s : CS) (w : CWl) (sub : Sub) (hw : s.wl = some w) (hph : s.ro.phase = .progressing)
    (hr : s.ro.reason = .inRolling) (hs : s.ro.sub = some sub)
    (hst : sub.state = .trafficRouting ∨ sub.state = .metricsAnalysis ∨ sub.state = .ready ∨ sub.state = .completed) :
    cls s = (match s.br with
       | some b => if lG5_brReady b w sub.curIdx then
            (match sub.state with | .trafficRouting => 13 | .metricsAnalysis => 14 | .ready => 16 | _ => 17) else 0
       | none => 0) := by
  unfold cls
  rw [hw]; dsimp only; rw [hph, hr]; dsimp only; rw [hs]; dsimp only
  rcases hst with h | h | h | h <;> rw [h] <;> rfl

theorem lG5_cls_disc (s : CS) (hc : cls s = 13 ∨ cls s = 14 ∨ cls s = 16 ∨ cls s = 17) :
    ∃ w sub, s.wl = some w ∧ s.ro.phase = .progressing ∧ s.ro.reason = .inRolling ∧ s.ro.sub = some sub ∧
      (sub.state = .trafficRouting ∨ sub.state = .metricsAnalysis ∨ sub.state = .ready ∨ sub.state = .completed) := by
  generalize hn : cls s = n at hc
  unfold cls at hn
  repeat' split at hn
  all_goals first
    | omega
    | exact ⟨_, _, by assumption, by assumption, by assumption, by assumption, Or.inl (by assumption)⟩
    | exact ⟨_, _, by assumption, by assumption, by assumption, by assumption, Or.inr (Or.inl (by assumption))⟩
    | exact ⟨_, _, by assumption, by assumption, by assumption, by assumption, Or.inr (Or.inr (Or.inl (by assumption)))⟩
    | exact ⟨_, _, by assumption, by assumption, by assumption, by assumption, Or.inr (Or.inr (Or.inr (by assumption)))⟩

theorem lG5_cls_facts (s : CS) (hc : cls s = 13 ∨ cls s = 14 ∨ cls s = 16 ∨ cls s = 17) :
    ∃ w sub b, s.wl = some w ∧ s.ro.phase = .progressing ∧ s.ro.reason = .inRolling ∧ s.ro.sub = some sub ∧ s.br = some b ∧
      lG5_brReady b w sub.curIdx = true ∧
      ((cls s = 13 ∧ sub.state = .trafficRouting) ∨ (cls s = 14 ∧ sub.state = .metricsAnalysis) ∨
       (cls s = 16 ∧ sub.state = .ready) ∨ (cls s = 17 ∧ sub.state = .completed)) := by
  obtain ⟨w, sub, hw, hph, hr, hs, hst⟩ := lG5_cls_disc s hc
  have e := lG5_cls_rolling s w sub hw hph hr hs hst
  cases hb : s.br with
  | none => rw [hb] at e; dsimp only at e; omega
  | some b =>
    rw [hb] at e; dsimp only at e
    by_cases hrd : lG5_brReady b w sub.curIdx = true
    · rw [if_pos hrd] at e
      refine ⟨w, sub, b, hw, hph, hr, hs, rfl, hrd, ?_⟩
      rcases hst with h | h | h | h <;> rw [h] at e
      · exact Or.inl ⟨e, h⟩
      · exact Or.inr (Or.inl ⟨e, h⟩)
      · exact Or.inr (Or.inr (Or.inl ⟨e, h⟩))
      · exact Or.inr (Or.inr (Or.inr ⟨e, h⟩))
    · rw [if_neg hrd] at e; omega

/-! ### the Rollout reconcile -/

/-- a Manager call of a rollout without traffic routing -/
theorem lG5_callTM_noref (f : TCtx → Net → Mem → TOut) (d : Bool)
    (hf : ∀ t n m, t.hasRef = false → f t n m = ⟨d, false, n, m, false, []⟩)
    (c : Ctx) (cb : Bool) (hne : c.ro.steps ≠ []) (hnt : c.ro.hasTraffic = false) :
    callTM f c cb = some (c, d, false) := by
  obtain ⟨ro, sub, wl, br, net, mem, rq, ws, seen⟩ := c
  unfold callTM
  unfold trCtx
  dsimp only at hne hnt ⊢
  cases hst : ro.steps with
  | nil => exact absurd hst hne
  | cons s0 rest =>
    dsimp only
    rw [hf _ _ _ hnt]
    simp

theorem lG5_fin_noref (t : TCtx) (n : Net) (m : Mem) (h : t.hasRef = false) :
    finalisingTrafficRouting t n m = ⟨true, false, n, m, false, []⟩ := by
  unfold finalisingTrafficRouting; rw [if_pos (by simp [h])]

theorem lG5_dtr_noref (t : TCtx) (n : Net) (m : Mem) (h : t.hasRef = false) :
    doTrafficRouting t n m = ⟨true, false, n, m, false, []⟩ := by
  unfold doTrafficRouting; rw [if_pos (by simp [h])]

/-- the pod-template hash is filled in when empty -/
def lG5_fill (s : Sub) (h : String) : Sub := if s.podHash = "" then { s with podHash := h } else s

theorem lG5_fill_facts (s : Sub) (h : String) :
    (lG5_fill s h).curIdx = s.curIdx ∧ (lG5_fill s h).nextIdx = s.nextIdx ∧ (lG5_fill s h).state = s.state ∧
    (lG5_fill s h).finStep = s.finStep := by
  unfold lG5_fill; split <;> exact ⟨rfl, rfl, rfl, rfl⟩

theorem lG5_syncStep (c : Ctx) (b : BR) (hbr : c.br = some b) (hid : c.sub.observedRolloutID = b.rolloutID) :
    syncStep c = { c with sub := lG5_fill c.sub c.wl.podTemplateHash } := by
  obtain ⟨ro, sub, wl, br, net, mem, rq, ws, seen⟩ := c
  dsimp only at hbr hid
  subst hbr
  unfold syncStep lG5_fill
  dsimp only
  rw [if_neg (by simp [hid])]

theorem lG5_jump (ro : Rollout) (s : Sub) (hlo : 1 ≤ s.curIdx) (hhi : s.curIdx ≤ ro.steps.length)
    (hn : s.nextIdx = nextBatchIndex ro.steps.length s.curIdx) : doCanaryJump ro s = some (s, false) := by
  unfold doCanaryJump
  dsimp only
  rw [if_neg (by omega), if_neg (by simp [hn])]

/-- one round of the release manager, no traffic routing, BatchRelease in step: straight to the sub-state switch -/
theorem lG5_runCanary (c0 : Ctx) (b : BR) (step : Step) (hbr : c0.br = some b)
    (hid : c0.sub.observedRolloutID = b.rolloutID) (hlo : 1 ≤ c0.sub.curIdx) (hhi : c0.sub.curIdx ≤ c0.ro.steps.length)
    (hn : c0.sub.nextIdx = nextBatchIndex c0.ro.steps.length c0.sub.curIdx)
    (hstep : c0.ro.steps[(c0.sub.curIdx - 1).toNat]? = some step) (hw : step.weight = none)
    (hne : c0.ro.steps ≠ []) (hnt : c0.ro.hasTraffic = false) :
    runCanary c0 = stateStep c0.ro step { c0 with sub := lG5_fill c0.sub c0.wl.podTemplateHash } := by
  obtain ⟨f1, f2, f3, f4⟩ := lG5_fill_facts c0.sub c0.wl.podTemplateHash
  unfold runCanary
  dsimp only
  rw [lG5_syncStep c0 b hbr hid]
  dsimp only
  rw [lG5_jump c0.ro _ (by rw [f1]; exact hlo) (by rw [f1]; exact hhi) (by rw [f1, f2]; exact hn)]
  dsimp only
  rw [f1, hstep]
  dsimp only
  have hpre : preStep step { c0 with sub := lG5_fill c0.sub c0.wl.podTemplateHash } =
      some ({ c0 with sub := lG5_fill c0.sub c0.wl.podTemplateHash }, true, false) := by
    unfold preStep
    rw [if_pos (by simp [stepHasTraffic, hw])]
    exact lG5_callTM_noref _ true lG5_fin_noref _ _ hne hnt
  rw [hpre]
  dsimp only
  rw [if_neg (by simp), if_neg (by simp)]


theorem lG5_env_gen (w : CWl) : (envWl w).observedGeneration = w.generation := by
  unfold envWl; dsimp only; split <;> rfl

/-- the sub-status after the status calculation -/
def lG5_obs (sub : Sub) (w : CWl) : Sub := { sub with observedRolloutID := w.updateRevision, observedGen := w.generation }

theorem lG5_csObserve (ro : Rollout) (w : CWl) (sub : Sub) (hs : ro.sub = some sub) (hne : sub.canaryRev ≠ "")
    (hrev : sub.canaryRev = w.updateRevision) (hnr : (roWl w).inRollback = false) :
    csObserve ro (roWl w) = { ro with sub := some (lG5_obs sub w) } := by
  unfold csObserve
  rw [hs]
  dsimp only
  rw [if_pos ⟨hne, hrev⟩]
  unfold getRolloutID
  rw [if_neg (by simp [hnr])]
  rfl

/-- the context the sub-state switch runs on -/
def lG5_c3 (s : CS) (w : CWl) (sub : Sub) : Ctx :=
  { ro := { s.ro with sub := some (lG5_obs sub w) }, sub := lG5_fill (lG5_obs sub w) w.updateRevision, wl := roWl w,
    br := s.br.map roBr, net := s.net, mem := s.mem }

/-- the Rollout reconcile of classes 13, 14, 16: the sub-state switch, and only the status is written -/
theorem lG5_stepRo (s : CS) (w : CWl) (sub : Sub) (b : CBr) (step : Step) (c : Ctx)
    (hgone : s.gone = false) (hg : RoGood s.ro) (hw : s.wl = some w) (hph : s.ro.phase = .progressing)
    (hr : s.ro.reason = .inRolling) (hs : s.ro.sub = some sub) (hb : s.br = some b) (hwok : wlOK w = true)
    (hsub : SubGood s.ro sub w.updateRevision) (hcons : w.generation = w.observedGeneration) (hrne : w.updateRevision ≠ "")
    (hid : b.rolloutID = w.updateRevision) (hnt : s.ro.hasTraffic = false)
    (hstep : s.ro.steps[(sub.curIdx - 1).toNat]? = some step) (hwt : step.weight = none)
    (hstate : sub.state ≠ .completed)
    (hss : stateStep { s.ro with sub := some (lG5_obs sub w) } step (lG5_c3 s w sub) = .ok c false)
    (hcwl : c.wl = roWl w) (hcbr : c.br = s.br.map roBr) (hcnet : c.net = s.net) (hcmem : c.mem = s.mem) :
    stepRo s = some { s with ro := { s.ro with sub := some c.sub } } := by
  have hnr := noRollback w hwok
  have hobs := lG5_csObserve s.ro w sub hs (by rw [hsub.rev]; exact hrne) hsub.rev hnr
  have hcons' : (roWl w).consistent = true := by simp [roWl, hcons]
  have hrec : reconcile (roWorld s) =
      .val { w := { ro := { s.ro with sub := some c.sub }, wl := some (roWl w), br := s.br.map roBr, net := s.net, mem := s.mem },
             roGone := false, requeue := c.requeue, err := false, writes := [] ++ c.writes } := by
    rw [reconcile_roll (roWorld s) (roWl w) (lG5_obs sub w) hg hph hr (world_wl s w hw) hcons' (by
        show (csObserve s.ro (roWl w)).sub = _
        rw [hobs]),
      inRolling_roll (roWorld s) _ (lG5_obs sub w) sub (roWl w) hs hnr (by
        show (csObserve s.ro (roWl w)).paused = false
        rw [hobs]; exact hg.unpaused) hsub.rev.symm hsub.hash]
    rw [if_neg (by exact hstate)]
    have hN : (if (lG5_obs sub w).nextIdx ≤ 0 ∨ (lG5_obs sub w).nextIdx > ((csObserve (roWorld s).ro (roWl w)).steps.length : Int) then
          { (lG5_obs sub w) with
            nextIdx := nextBatchIndex ((csObserve (roWorld s).ro (roWl w)).steps.length : Int) (lG5_obs sub w).curIdx }
        else (lG5_obs sub w)) = lG5_obs sub w := by
      have hst : (csObserve (roWorld s).ro (roWl w)).steps = s.ro.steps := by
        show (csObserve s.ro (roWl w)).steps = _
        rw [hobs]
      rw [hst]
      split
      · show ({ sub with observedRolloutID := w.updateRevision, observedGen := w.generation,
                         nextIdx := nextBatchIndex (s.ro.steps.length : Int) sub.curIdx } : Sub) = _
        rw [← hsub.next]; rfl
      · rfl
    rw [hN]
    have hro : (csObserve (roWorld s).ro (roWl w)) = { s.ro with sub := some (lG5_obs sub w) } := hobs
    rw [hro]
    have hrc : runCanary (toCtx { roWorld s with ro := { s.ro with sub := some (lG5_obs sub w) } } (lG5_obs sub w) (roWl w)) =
        .ok c false := by
      rw [lG5_runCanary _ (roBr b) step (by show s.br.map roBr = _; rw [hb]; rfl) (by show w.updateRevision = b.rolloutID; rw [hid])
        hsub.lo hsub.hi hsub.next hstep hwt hg.steps hnt]
      exact hss
    rw [hrc]
    dsimp only
    rw [if_neg (by simp)]
    unfold ofCtx
    rw [hcwl, hcbr, hcnet, hcmem]
  rw [stepRo_eq s hgone _ hrec, landRo_status s _ (by rw [world_wl s w hw]) rfl rfl rfl]
  rw [← hgone]


/-- the Rollout reconcile of class 17: the reason becomes Finalising -/
theorem lG5_stepRo_completed (s : CS) (w : CWl) (sub : Sub)
    (hgone : s.gone = false) (hg : RoGood s.ro) (hw : s.wl = some w) (hph : s.ro.phase = .progressing)
    (hr : s.ro.reason = .inRolling) (hs : s.ro.sub = some sub) (hwok : wlOK w = true)
    (hsub : SubGood s.ro sub w.updateRevision) (hcons : w.generation = w.observedGeneration) (hrne : w.updateRevision ≠ "")
    (hstate : sub.state = .completed) :
    stepRo s = some { s with ro := { s.ro with sub := some (lG5_obs sub w), reason := .finalising } } := by
  have hnr := noRollback w hwok
  have hobs := lG5_csObserve s.ro w sub hs (by rw [hsub.rev]; exact hrne) hsub.rev hnr
  have hcons' : (roWl w).consistent = true := by simp [roWl, hcons]
  have hrec : reconcile (roWorld s) =
      .val { w := { roWorld s with ro := { s.ro with sub := some (lG5_obs sub w), reason := .finalising } },
             roGone := false, requeue := false, err := false, writes := [] ++ [] } := by
    rw [reconcile_roll (roWorld s) (roWl w) (lG5_obs sub w) hg hph hr (world_wl s w hw) hcons' (by
        show (csObserve s.ro (roWl w)).sub = _
        rw [hobs]),
      inRolling_roll (roWorld s) _ (lG5_obs sub w) sub (roWl w) hs hnr (by
        show (csObserve s.ro (roWl w)).paused = false
        rw [hobs]; exact hg.unpaused) hsub.rev.symm hsub.hash]
    rw [if_pos (by exact hstate)]
    dsimp only
    rw [if_neg (by simp)]
    have hro : (csObserve (roWorld s).ro (roWl w)) = { s.ro with sub := some (lG5_obs sub w) } := hobs
    rw [hro]
  rw [stepRo_eq s hgone _ hrec, landRo_status s _ rfl rfl rfl rfl]
  rw [← hgone]

/-! ### the BatchRelease reconcile -/

/-- the sync step of an executor whose status is in step with a settled workload: nothing to do, no stop -/
theorem lG5_sync_nostop (br : Executor.BR) (w' : Executor.Workload)
    (hd : br.deleting = false) (hph : br.status.phase = .progressing) (hpart : br.partition.isSome = true)
    (hhash : br.status.hash = .same) (hcb : br.status.currentBatch < br.batches.length)
    (hgen : w'.observedGeneration ≥ w'.generation) (hrep : br.status.observedReplicas = w'.replicas)
    (hrev : br.status.updateRevision = w'.updateRevision)
    (hnrb : w'.updateRevision = w'.currentRevision → w'.statusReplicas = w'.updated)
    (hra : br.rollbackAnno = false) (hu : br.status.updated = w'.updated) (hur : br.status.updatedReady = w'.updatedReady)
    (hsame : br.status.rolloutIDSame = true) :
    (Executor.syncStatus br br.status (some w')).stop = false := by
  have hinfo : Executor.syncInfo br br.status (some w') = (.normal, some w') := by
    unfold Executor.syncInfo
    rw [if_neg (by simp [hd])]
    dsimp only
    rw [if_neg (by simp [hgen])]
    by_cases h1 : w'.statusReplicas = w'.updated
    · rw [if_pos h1]
    · rw [if_neg h1, if_neg (by intro h; exact h.2 hrep.symm), if_neg (by intro h; exact h1 (hnrb h.2.1)),
        if_neg (by intro h; exact h.2 hrev.symm)]
  have hdec : Executor.syncDecide br br.status .normal (some w') = (br.status, false) := by
    unfold Executor.syncDecide
    dsimp only
    rw [if_neg (by rw [hph]; decide),
      if_neg (by simp [Executor.isPlanFinalizing, hd, hph, Option.isSome_iff_ne_none.mp hpart]),
      if_neg (by simp [Executor.isPlanChanged, hhash]),
      if_neg (by simp only [Executor.isPlanUnhealthy, Bool.and_eq_true, decide_eq_true_eq, not_and]; intro h; omega),
      if_neg (by intro h; cases h.1), if_neg (by intro h; cases h.1), if_neg (by intro h; cases h.1),
      if_neg (by intro h; cases h), if_neg (by
        intro h
        rcases h.1 with h1 | h1
        · cases h1
        · rw [hra] at h1; cases h1)]
  have hs := holds_sync_of_decide br br.status (some w') (br.status, false) (by rw [hinfo]; exact hdec)
  rw [hs.2, hinfo]
  dsimp only
  have hrf : Executor.refreshStatus br.status (some w') = br.status := by
    unfold Executor.refreshStatus
    dsimp only
    rw [if_neg (by rw [hhash]; decide), ← hu, ← hur, ← hsame]
  rw [hrf]
  simp



structure lG5_BrF (b : CBr) (w : CWl) (k : Int) : Prop where
  upd : b.st.updated = w.updated
  updR : b.st.updatedReady = w.updatedReady
  gen : b.generation = b.observedGeneration
  fin : b.hasFinalizer = true
  del : b.deleting = false
  oid : b.observedRolloutID = b.rolloutID
  rid : b.rolloutID = w.updateRevision
  so : b.specOther = true
  ft : b.failureThreshold = none
  hash : b.st.hash = .same
  urev : b.st.updateRevision = "wl-" ++ w.updateRevision
  orep : b.st.observedReplicas = w.replicas
  own : w.owner = .this
  ph : b.st.phase = .progressing
  bs : b.st.batchState = .ready
  rt : b.st.hasReadyTime = true
  part : b.partition = some (k - 1)
  cb : b.st.currentBatch = k - 1
  rdy : RV.Oracle.Executor.batchReadyNow (exBr b) (some (exWl w)) = true

theorem lG5_brReady_iff (b : CBr) (w : CWl) (k : Int) : lG5_brReady b w k = true ↔ lG5_BrF b w k := by
  unfold lG5_brReady brSync brInit
  simp only [Bool.and_eq_true, beq_iff_eq, Bool.not_eq_true', Option.isNone_iff_eq_none]
  constructor
  · rintro ⟨⟨⟨⟨⟨⟨⟨⟨⟨⟨⟨⟨⟨⟨⟨a1, a2⟩, a3⟩, a4⟩, a5⟩, a6⟩, a7⟩, a8⟩, a9⟩, a10⟩, ⟨⟨⟨b1, b2⟩, b3⟩, b4⟩⟩, c1⟩, c2⟩, c3⟩, c4⟩, c5⟩
    exact ⟨a1, a2, a3, a4, a5, a6, a7, a8, a9, a10, b1, b2, b3, b4, c1, c2, c3, c4, c5⟩
  · rintro ⟨a1, a2, a3, a4, a5, a6, a7, a8, a9, a10, b1, b2, b3, b4, c1, c2, c3, c4, c5⟩
    exact ⟨⟨⟨⟨⟨⟨⟨⟨⟨⟨⟨⟨⟨⟨⟨a1, a2⟩, a3⟩, a4⟩, a5⟩, a6⟩, a7⟩, a8⟩, a9⟩, a10⟩, ⟨⟨⟨b1, b2⟩, b3⟩, b4⟩⟩, c1⟩, c2⟩, c3⟩, c4⟩, c5⟩

theorem lG5_wlOK (w : CWl) (h : wlOK w = true) :
    w.statusReplicas = w.replicas ∧ 0 ≤ w.replicas ∧ w.updated ≤ w.replicas ∧
    (w.updateRevision ≠ w.currentRevision ∨ w.updated = w.replicas) := by
  unfold wlOK at h
  simp only [Bool.and_eq_true, Bool.or_eq_true, beq_iff_eq, bne_iff_ne, decide_eq_true_eq] at h
  obtain ⟨⟨⟨⟨h1, h2⟩, h3⟩, h4⟩, _⟩ := h
  exact ⟨h1, h2, h3, h4⟩

/-- the BatchRelease after a reconcile that changed nothing (the view's `rolloutIDSame` is written back) -/
def lG5_norm (b : CBr) : CBr := { b with st := { b.st with rolloutIDSame := true } }

theorem lG5_brReady_norm (b : CBr) (w : CWl) (k : Int) : lG5_brReady (lG5_norm b) w k = lG5_brReady b w k := rfl

/-- the BatchRelease reconcile of classes 13, 14, 16, 17: a fixed point -/
theorem lG5_stepBr (a : CS) (w : CWl) (b : CBr) (k : Int) (hw : a.wl = some w) (hb : a.br = some b)
    (hf : lG5_BrF b w k) (hbok : brOK b = true) (hwok : wlOK w = true) (hkn : k ≤ b.batches.length)
    (hgen : w.observedGeneration = w.generation) :
    stepBr a = some { a with br := some (lG5_norm b) } := by
  obtain ⟨_, hcb0, _, hra, _⟩ := (brOK_iff b).1 hbok
  have hnp := exec_total (exBr b) (some (exWl w)) hcb0
  have hwf := wlOK_facts w hwok
  have hns : RV.Oracle.Executor.stopped (exBr b) (some (exWl w)) = false := by
    unfold RV.Oracle.Executor.stopped
    have hini : Executor.initializedStatus (exBr b).status = (Executor.withFinalizer (exBr b)).status := by
      unfold Executor.initializedStatus
      rw [if_neg (by show ¬ b.st.phase = .empty; rw [hf.ph]; decide)]
      rfl
    rw [hini]
    refine lG5_sync_nostop _ _ hf.del hf.ph (by show b.partition.isSome = true; rw [hf.part]; rfl) hf.hash
      (by show b.st.currentBatch < (b.batches.length : Int); rw [hf.cb]; omega) (by show w.observedGeneration ≥ w.generation; omega)
      hf.orep hf.urev ?_ hra hf.upd hf.updR (by show decide (b.observedRolloutID = b.rolloutID) = true; simp [hf.oid])
    intro he
    have he' : w.updateRevision = w.currentRevision := holds_wl_inj _ _ he
    show w.statusReplicas = w.updated
    obtain ⟨w1, _, _, w4⟩ := lG5_wlOK w hwok
    rcases w4 with w4 | w4
    · exact absurd he' w4
    · rw [w1, w4]
  cases hrec : Executor.reconcile (exBr b) (some (exWl w)) with
  | panic => exact absurd hrec hnp
  | val o =>
    obtain ⟨ho1, ho2⟩ := RV.Props.Executor.ready_is_fixed_point _ _ o hrec hns hf.ph hf.bs hf.rdy (by
      show Executor.isPartitioned (exBr b) = true
      unfold Executor.isPartitioned
      show (match b.partition with | some p => decide (p ≤ b.st.currentBatch) | none => false) = true
      rw [hf.part, hf.cb]; simp)
    unfold stepBr
    rw [hb]
    dsimp only
    rw [hw]
    show (match Executor.reconcile (exBr b) (some (exWl w)) with | .panic => none | .val o => some (landBr a b o)) = _
    rw [hrec]
    dsimp only
    unfold landBr
    rw [ho1, ho2, hw]
    have e1 : stLand b (Executor.withFinalizer (exBr b)) = lG5_norm b := by
      unfold stLand lG5_norm
      have h1 : (Executor.withFinalizer (exBr b)).hasFinalizer = b.hasFinalizer := by rw [hf.fin]; rfl
      have h2 : (Executor.withFinalizer (exBr b)).status = { b.st with rolloutIDSame := true } := by
        show ({ b.st with rolloutIDSame := decide (b.observedRolloutID = b.rolloutID) } : Executor.Status) = _
        simp [hf.oid]
      rw [h1, h2]
      dsimp only
      rw [if_pos rfl, ← hf.oid, hf.gen]
    have e2 : wlLand (some w) (some (exWl w)) = some w := by
      rw [wlLand_some]
      unfold landW
      show some ({ w with generation := if w.partition ≠ w.partition ∨ w.paused ≠ w.paused then w.generation + 1 else w.generation } : CWl) = _
      rw [if_neg (by simp)]
    rw [e2, ← hw]
    show some ({ a with br := some (stLand b (Executor.withFinalizer (exBr b))) } : CS) = _
    rw [e1]

/-! ### the last three labels -/

def lG5_ageSub (sub : Sub) : Sub := { sub with lastUpdate := ageAge sub.lastUpdate }
def lG5_apprSub (sub : Sub) : Sub := if sub.state = .paused then { sub with state := .ready } else sub

theorem lG5_ageAge_idem (a : Age) : ageAge (ageAge a) = ageAge a := by cases a <;> rfl
theorem lG5_ageExp_idem (a : Exp) : ageExp (ageExp a) = ageExp a := by cases a <;> rfl

theorem lG5_tick_idem (x : CS) : tick (tick x) = tick x := by
  unfold tick
  cases hg : x.gone
  · simp only [Bool.false_eq_true, if_false, lG5_ageAge_idem, lG5_ageExp_idem, Option.map_map]
    cases x.ro.sub <;> simp [Function.comp, lG5_ageAge_idem]
  · simp only [if_true, lG5_ageExp_idem]

theorem lG5_approve_wl (x : CS) : (approve x).wl = x.wl ∧ (approve x).br = x.br ∧ (approve x).gone = x.gone ∧
    (approve x).ro.steps = x.ro.steps ∧ (approve x).ro.hasTraffic = x.ro.hasTraffic := by
  unfold approve
  split
  · exact ⟨rfl, rfl, rfl, rfl, rfl⟩
  · split
    · split <;> exact ⟨rfl, rfl, rfl, rfl, rfl⟩
    · exact ⟨rfl, rfl, rfl, rfl, rfl⟩

theorem lG5_tick_wl (x : CS) : (tick x).wl = x.wl ∧ (tick x).br = x.br ∧ (tick x).gone = x.gone ∧
    (tick x).ro.steps = x.ro.steps ∧ (tick x).ro.hasTraffic = x.ro.hasTraffic := by
  unfold tick
  dsimp only
  split <;> exact ⟨rfl, rfl, rfl, rfl, rfl⟩

theorem lG5_liveCfg_congr (x y : CS) (h1 : y.ro.hasTraffic = x.ro.hasTraffic) (h2 : y.ro.steps = x.ro.steps) (h3 : y.wl = x.wl) :
    liveCfg y = liveCfg x := by
  unfold liveCfg planOf; rw [h1, h2, h3]

/-- the round ends at a boundary, in the same configuration -/
theorem lG5_tail_boundary (bs : CS) (w : CWl) (hw : bs.wl = some w) (henv : envWl w = w) :
    atBoundary (roundTail bs) = true ∧ liveCfg (roundTail bs) = liveCfg bs := by
  have e1 : ({ bs with wl := bs.wl.map envWl } : CS) = bs := by
    rw [hw]; show ({ bs with wl := some (envWl w) } : CS) = bs
    rw [henv, ← hw]
  have e2 : roundTail bs = tick (approve bs) := by unfold roundTail; rw [e1]
  obtain ⟨a1, _, _, a4, a5⟩ := lG5_approve_wl bs
  obtain ⟨t1, _, _, t4, t5⟩ := lG5_tick_wl (approve bs)
  constructor
  · unfold atBoundary
    rw [e2, t1, a1, hw, lG5_tick_idem]
    simp [henv]
  · rw [e2]
    exact lG5_liveCfg_congr _ _ (t5.trans a5) (t4.trans a4) (t1.trans a1)

/-- the explicit shape of the end of the round -/
theorem lG5_tail (bs : CS) (w : CWl) (sub : Sub) (hg : bs.gone = false) (hw : bs.wl = some w) (henv : envWl w = w)
    (hs : bs.ro.sub = some sub) :
    roundTail bs = { bs with ro := { bs.ro with sub := some (lG5_ageSub (lG5_apprSub sub)), condAge := ageAge bs.ro.condAge },
                             mem := (tick bs).mem } := by
  have e1 : ({ bs with wl := bs.wl.map envWl } : CS) = bs := by
    rw [hw]; show ({ bs with wl := some (envWl w) } : CS) = bs
    rw [henv, ← hw]
  unfold roundTail
  rw [e1]
  unfold approve lG5_apprSub
  rw [hg, hs]
  simp only [Bool.false_eq_true, if_false]
  split <;> (unfold tick; simp [hg, hs, lG5_ageSub])

/-! ### evaluating `cls` and `mu` -/

theorem lG5_mu_rolling (s : CS) (w : CWl) (sub : Sub) (hw : s.wl = some w) (hph : s.ro.phase = .progressing)
    (hr : s.ro.reason = .inRolling) (hs : s.ro.sub = some sub) :
    mu s = 32 + (s.ro.steps.length - sub.curIdx.toNat) * 64 + subRank s sub w := by
  unfold mu
  rw [hw]; dsimp only; rw [hph, hr]; dsimp only; rw [hs]; rfl

theorem lG5_mu_fin (s : CS) (w : CWl) (sub : Sub) (hw : s.wl = some w) (hph : s.ro.phase = .progressing)
    (hr : s.ro.reason = .finalising) (hs : s.ro.sub = some sub) (hf : sub.finStep = .empty) : mu s = 22 := by
  unfold mu
  rw [hw]; dsimp only; rw [hph, hr]; dsimp only; rw [hs]; dsimp only
  unfold finRank
  rw [hf]
  try rfl

/-- class 5 with a BatchRelease "of the previous step" -/
theorem lG5_cls_init (s : CS) (w : CWl) (sub : Sub) (b : CBr) (k : Int) (hw : s.wl = some w) (hph : s.ro.phase = .progressing)
    (hr : s.ro.reason = .inRolling) (hs : s.ro.sub = some sub) (hst : sub.state = .init) (hb : s.br = some b)
    (hk : sub.curIdx = k + 1) (hrd : lG5_brReady b w k = true) : cls s = 5 := by
  unfold cls
  rw [hw]; dsimp only; rw [hph, hr]; dsimp only; rw [hs]; dsimp only; rw [hst]; dsimp only; rw [hb]; dsimp only
  have e : sub.curIdx - 2 = k - 1 := by omega
  rw [e]
  exact if_pos hrd

/-- class 20 -/
theorem lG5_cls_fin (s : CS) (w : CWl) (sub : Sub) (b : CBr) (k : Int) (hw : s.wl = some w) (hph : s.ro.phase = .progressing)
    (hr : s.ro.reason = .finalising) (hs : s.ro.sub = some sub) (hf : sub.finStep = .empty) (hb : s.br = some b)
    (hrd : lG5_brReady b w k = true) : cls s = 20 := by
  have hF := (lG5_brReady_iff b w k).1 hrd
  unfold cls
  rw [hw]; dsimp only; rw [hph, hr]; dsimp only; rw [hs]; dsimp only; rw [hf, hb]; dsimp only
  unfold lG5_brReady at hrd
  simp only [Bool.and_eq_true, beq_iff_eq] at hrd
  obtain ⟨⟨⟨⟨⟨⟨c1, c2⟩, c3⟩, _⟩, _⟩, _⟩, c7⟩ := hrd
  have c8 : cls.isPartitioned' b = true := by
    unfold cls.isPartitioned'
    rw [hF.part, hF.cb]; simp
  have c9 : b.partition.isSome = true := by rw [hF.part]; rfl
  rw [if_pos (by simp [c1, c2, c3, c7, c8, c9])]

/-! ### the hypotheses of the four classes -/

structure lG5_Hyp (s : CS) (w : CWl) (sub : Sub) (b : CBr) : Prop where
  gone : s.gone = false
  good : RoGood s.ro
  hw : s.wl = some w
  hph : s.ro.phase = .progressing
  hr : s.ro.reason = .inRolling
  hs : s.ro.sub = some sub
  hb : s.br = some b
  wok : wlOK w = true
  bok : brOK b = true
  subok : SubGood s.ro sub w.updateRevision
  len : b.batches.length = s.ro.steps.length
  rdy : lG5_brReady b w sub.curIdx = true
  cfg : liveCfg s = true
  noTraffic : s.ro.hasTraffic = false
  noWeight : ∀ st ∈ s.ro.steps, st.weight = none
  revNe : w.updateRevision ≠ ""
  env : envWl w = w

theorem lG5_hyp (s : CS) (h : liveInv s = true) (hc : cls s = 13 ∨ cls s = 14 ∨ cls s = 16 ∨ cls s = 17) :
    fwdInv s = true ∧ ∃ w sub b, lG5_Hyp s w sub b ∧
      ((cls s = 13 ∧ sub.state = .trafficRouting) ∨ (cls s = 14 ∧ sub.state = .metricsAnalysis) ∨
       (cls s = 16 ∧ sub.state = .ready) ∨ (cls s = 17 ∧ sub.state = .completed)) := by
  obtain ⟨hfwd, hcfg, _, hbd⟩ := (liveInv_iff s).1 h
  have hbd' : atBoundary s = true := by
    rcases hbd with hbd | hbd
    · omega
    · exact hbd
  obtain ⟨w, sub, b, hw, hph, hr, hs, hb, hrd, hst⟩ := lG5_cls_facts s hc
  obtain ⟨hgone, hg, w', hw', hwok, _, hbrok, hpi⟩ := fwd_parts s hfwd
  rw [hw] at hw'
  cases hw'
  rw [phaseInv_rolling s w sub hph hr hs, hb] at hpi
  simp only [Bool.and_eq_true] at hpi
  obtain ⟨⟨hsub, hlink⟩, _⟩ := hpi
  rw [hb] at hbrok
  have hlink' : linkOK s.ro sub b = true := hlink
  obtain ⟨hbat, _⟩ := (linkOK_iff s.ro sub b).1 hlink'
  have hcfg' := hcfg
  unfold liveCfg at hcfg'
  rw [hw] at hcfg'
  simp only [Bool.and_eq_true, Bool.not_eq_true', List.all_eq_true, decide_eq_true_eq, bne_iff_ne, ne_eq,
    Option.isNone_iff_eq_none] at hcfg'
  obtain ⟨⟨g1, g2⟩, ⟨⟨⟨g3, g4⟩, g5⟩, g6⟩⟩ := hcfg'
  unfold atBoundary at hbd'
  rw [hw] at hbd'
  simp only [Bool.and_eq_true, beq_iff_eq] at hbd'
  refine ⟨hfwd, w, sub, b, ⟨hgone, hg, hw, hph, hr, hs, hb, hwok, hbrok, (subOK_iff s.ro sub w).1 hsub, ?_, hrd, hcfg, g1,
    fun st hst => (g2 st hst).1, g6, hbd'.1⟩, hst⟩
  rw [hbat, planOf_length]

/-! ### the round of classes 13, 14, 16 -/

theorem lG5_step_exists (steps : List Step) (k : Int) (hlo : 1 ≤ k) (hhi : k ≤ steps.length) :
    ∃ step, steps[(k - 1).toNat]? = some step ∧ step ∈ steps := by
  have hlt : (k - 1).toNat < steps.length := by omega
  exact ⟨steps[(k - 1).toNat], List.getElem?_eq_getElem hlt, List.getElem_mem hlt⟩

theorem lG5_final_sub (x : Sub) :
    (lG5_ageSub (lG5_apprSub x)).curIdx = x.curIdx ∧ (lG5_ageSub (lG5_apprSub x)).finStep = x.finStep ∧
    (lG5_ageSub (lG5_apprSub x)).state = (if x.state = .paused then .ready else x.state) := by
  unfold lG5_ageSub lG5_apprSub
  split <;> exact ⟨rfl, rfl, rfl⟩

/-- the end of the round of classes 13, 14, 16: the sub-status `x` the reconcile wrote, approved and aged -/
def lG5_next (s : CS) (b : CBr) (x : Sub) : CS :=
  { s with ro := { s.ro with sub := some (lG5_ageSub (lG5_apprSub x)), condAge := ageAge s.ro.condAge },
           br := some (lG5_norm b), mem := (tick s).mem }

theorem lG5_round_rolling (s : CS) (w : CWl) (sub : Sub) (b : CBr) (step : Step) (c : Ctx) (H : lG5_Hyp s w sub b)
    (hfwd : fwdInv s = true) (hstep : s.ro.steps[(sub.curIdx - 1).toNat]? = some step) (hmem : step ∈ s.ro.steps)
    (hstate : sub.state ≠ .completed)
    (hss : stateStep { s.ro with sub := some (lG5_obs sub w) } step (lG5_c3 s w sub) = .ok c false)
    (hcwl : c.wl = roWl w) (hcbr : c.br = s.br.map roBr) (hcnet : c.net = s.net) (hcmem : c.mem = s.mem) :
    ∃ s', round s = some s' ∧ fwdInv s' = true ∧ liveCfg s' = true ∧ atBoundary s' = true ∧
      s' = lG5_next s b c.sub := by
  have hF := (lG5_brReady_iff b w sub.curIdx).1 H.rdy
  have hgen : w.observedGeneration = w.generation := by
    have := lG5_env_gen w
    rw [H.env] at this
    exact this
  have h1 := lG5_stepRo s w sub b step c H.gone H.good H.hw H.hph H.hr H.hs H.hb H.wok H.subok hgen.symm H.revNe hF.rid
    H.noTraffic hstep (H.noWeight step hmem) hstate hss hcwl hcbr hcnet hcmem
  have h2 := lG5_stepBr { s with ro := { s.ro with sub := some c.sub } } w b sub.curIdx H.hw H.hb hF H.bok H.wok
    (by rw [H.len]; exact H.subok.hi) hgen
  obtain ⟨a', b', ha', _, hb', _, hr', hf'⟩ := round_fwd s hfwd
  rw [h1] at ha'
  cases ha'
  rw [h2] at hb'
  cases hb'
  obtain ⟨t1, t2⟩ := lG5_tail_boundary { s with ro := { s.ro with sub := some c.sub }, br := some (lG5_norm b) } w H.hw H.env
  refine ⟨_, hr', hf', ?_, t1, ?_⟩
  · rw [t2]
    rw [← H.cfg]
    exact lG5_liveCfg_congr _ _ rfl rfl rfl
  · rw [lG5_tail { s with ro := { s.ro with sub := some c.sub }, br := some (lG5_norm b) } w c.sub H.gone H.hw H.env rfl]
    rfl

/-- the measure of the source state -/
theorem lG5_mu_src (s : CS) (w : CWl) (sub : Sub) (b : CBr) (H : lG5_Hyp s w sub b) :
    mu s = 32 + (s.ro.steps.length - sub.curIdx.toNat) * 64 +
      (match sub.state with
       | .init => 40 | .upgrade => brRank s sub w | .trafficRouting => 8 | .metricsAnalysis => 6 | .paused => 4 | .ready => 2
       | .completed => 1 | .other => 0) := by
  rw [lG5_mu_rolling s w sub H.hw H.hph H.hr H.hs]
  rfl

/-- class and measure of a successor that is still on the same step -/
theorem lG5_succ_same (s : CS) (w : CWl) (sub : Sub) (b : CBr) (H : lG5_Hyp s w sub b) (x : Sub) (hcur : x.curIdx = sub.curIdx)
    (hst : x.state = .metricsAnalysis ∨ x.state = .paused ∨ x.state = .completed) :
    cls (lG5_next s b x) =
      (if x.state = .metricsAnalysis then 14 else if x.state = .paused then 16 else 17) ∧
    mu (lG5_next s b x) =
      32 + (s.ro.steps.length - sub.curIdx.toNat) * 64 +
        (if x.state = .metricsAnalysis then 6 else if x.state = .paused then 2 else 1) := by
  obtain ⟨q1, _, q3⟩ := lG5_final_sub x
  constructor
  · rw [lG5_cls_rolling (lG5_next s b x) w (lG5_ageSub (lG5_apprSub x)) H.hw H.hph H.hr rfl (by
      rw [q3]; rcases hst with h | h | h <;> rw [h] <;> simp)]
    show (if lG5_brReady (lG5_norm b) w (lG5_ageSub (lG5_apprSub x)).curIdx = true then _ else 0) = _
    rw [lG5_brReady_norm, q1, hcur, if_pos H.rdy, q3]
    rcases hst with h | h | h <;> rw [h] <;> rfl
  · rw [lG5_mu_rolling (lG5_next s b x) w (lG5_ageSub (lG5_apprSub x)) H.hw H.hph H.hr rfl]
    unfold subRank
    rw [q1, hcur, q3]
    rcases hst with h | h | h <;> rw [h] <;> rfl

/-- class and measure of a successor that moved to the next step -/
theorem lG5_succ_next (s : CS) (w : CWl) (sub : Sub) (b : CBr) (H : lG5_Hyp s w sub b) (x : Sub) (hcur : x.curIdx = sub.curIdx + 1)
    (hst : x.state = .init) :
    cls (lG5_next s b x) = 5 ∧
    mu (lG5_next s b x) =
      32 + (s.ro.steps.length - (sub.curIdx + 1).toNat) * 64 + 40 := by
  obtain ⟨q1, _, q3⟩ := lG5_final_sub x
  rw [hst, if_neg (by decide)] at q3
  constructor
  · exact lG5_cls_init (lG5_next s b x) w (lG5_ageSub (lG5_apprSub x)) (lG5_norm b) sub.curIdx H.hw H.hph H.hr rfl q3 rfl (q1.trans hcur)
      (by rw [lG5_brReady_norm]; exact H.rdy)
  · rw [lG5_mu_rolling (lG5_next s b x) w (lG5_ageSub (lG5_apprSub x)) H.hw H.hph H.hr rfl]
    unfold subRank
    rw [q1, hcur, q3]
    rfl

theorem lG5_liveInv_mk (s' : CS) (h1 : fwdInv s' = true) (h2 : liveCfg s' = true) (h3 : atBoundary s' = true) (h4 : cls s' ≠ 0) :
    liveInv s' = true := (liveInv_iff s').2 ⟨h1, h2, h4, Or.inr h3⟩

theorem lG5_done (s s' s'' : CS) (h : round s = some s') (hmu : 12 < mu s') (h' : round s = some s'') : doneInv s'' = true := by
  rw [h] at h'
  cases h'
  unfold doneInv
  split
  · rfl
  · simp only [Bool.and_eq_true, Bool.or_eq_true, decide_eq_true_eq]
    exact ⟨Or.inl hmu, Or.inl (by omega)⟩

theorem lG5_pol (s s' s'' : CS) (h : round s = some s') (hp : polInv s = true)
    (hc : mu s' ≤ 32 ∨ ∃ b, s.br = some b ∧ 32 < mu s ∧ s'.br = some (lG5_norm b)) (h' : round s = some s'') :
    polInv s'' = true := by
  rw [h] at h'
  cases h'
  rcases hc with hle | ⟨b, hb, hmu, hb'⟩
  · unfold polInv
    split
    · simp only [Bool.or_eq_true, decide_eq_true_eq]
      exact Or.inl hle
    · rfl
  · unfold polInv at hp ⊢
    rw [hb] at hp
    rw [hb']
    simp only [Bool.or_eq_true, decide_eq_true_eq, beq_iff_eq] at hp ⊢
    rcases hp with hp | hp
    · omega
    · exact Or.inr hp

/-! ### class 13 -/

theorem lG5_core_13 (s : CS) (h : liveInv s = true) (hc : cls s = 13) :
    ∃ s', round s = some s' ∧ liveInv s' = true ∧ mu s' < mu s ∧ 12 < mu s' ∧
      (mu s' ≤ 32 ∨ ∃ b, s.br = some b ∧ 32 < mu s ∧ s'.br = some (lG5_norm b)) := by
  obtain ⟨hfwd, w, sub, b, H, hst⟩ := lG5_hyp s h (Or.inl hc)
  have hst : sub.state = .trafficRouting := by
    rcases hst with ⟨_, h⟩ | ⟨h, _⟩ | ⟨h, _⟩ | ⟨h, _⟩
    · exact h
    all_goals omega
  obtain ⟨step, hstep, hmem⟩ := lG5_step_exists s.ro.steps sub.curIdx H.subok.lo H.subok.hi
  obtain ⟨f1, _, f3, _⟩ := lG5_fill_facts (lG5_obs sub w) w.updateRevision
  have e3 : (lG5_c3 s w sub).sub.state = .trafficRouting := f3.trans hst
  have hss : stateStep { s.ro with sub := some (lG5_obs sub w) } step (lG5_c3 s w sub) =
      .ok { lG5_c3 s w sub with sub := { (lG5_c3 s w sub).sub with state := .metricsAnalysis, lastUpdate := .fresh },
                                requeue := true } false := by
    unfold stateStep
    rw [e3]
    dsimp only
    rw [lG5_callTM_noref _ true lG5_dtr_noref (lG5_c3 s w sub) true H.good.steps H.noTraffic]
    dsimp only
    rw [if_neg (by simp), if_pos rfl]
  obtain ⟨s', hr, hf, hcfg, hbd, hs'⟩ := lG5_round_rolling s w sub b step _ H hfwd hstep hmem (by rw [hst]; decide) hss rfl rfl rfl rfl
  obtain ⟨k1, k2⟩ := lG5_succ_same s w sub b H
    { (lG5_c3 s w sub).sub with state := .metricsAnalysis, lastUpdate := .fresh } f1 (Or.inl rfl)
  rw [← hs'] at k1 k2
  rw [if_pos rfl] at k1 k2
  have hmu := lG5_mu_src s w sub b H
  rw [hst] at hmu
  dsimp only at hmu
  refine ⟨s', hr, lG5_liveInv_mk s' hf hcfg hbd (by rw [k1]; decide), by omega, by omega,
      Or.inr ⟨b, H.hb, by omega, by rw [hs']; rfl⟩⟩

theorem round_cls_13 (s : CS) (h : liveInv s = true) (hc : cls s = 13) :
    ∃ s', round s = some s' ∧ liveInv s' = true ∧ mu s' < mu s := by
  obtain ⟨s', h1, h2, h3, _, _⟩ := lG5_core_13 s h hc
  exact ⟨s', h1, h2, h3⟩

theorem done_cls_13 (s : CS) (h : liveInv s = true) (_hd : doneInv s = true) (hc : cls s = 13) :
    ∀ s', round s = some s' → doneInv s' = true := by
  obtain ⟨s', h1, _, _, h4, _⟩ := lG5_core_13 s h hc
  exact fun s'' h' => lG5_done s s' s'' h1 h4 h'

theorem pol_cls_13 (s : CS) (h : liveInv s = true) (hp : polInv s = true) (hc : cls s = 13) :
    ∀ s', round s = some s' → polInv s' = true := by
  obtain ⟨s', h1, _, _, _, h5⟩ := lG5_core_13 s h hc
  exact fun s'' h' => lG5_pol s s' s'' h1 hp h5 h'

/-! ### class 14 -/

theorem lG5_core_14 (s : CS) (h : liveInv s = true) (hc : cls s = 14) :
    ∃ s', round s = some s' ∧ liveInv s' = true ∧ mu s' < mu s ∧ 12 < mu s' ∧
      (mu s' ≤ 32 ∨ ∃ b, s.br = some b ∧ 32 < mu s ∧ s'.br = some (lG5_norm b)) := by
  obtain ⟨hfwd, w, sub, b, H, hst⟩ := lG5_hyp s h (Or.inr (Or.inl hc))
  have hst : sub.state = .metricsAnalysis := by
    rcases hst with ⟨h, _⟩ | ⟨_, h⟩ | ⟨h, _⟩ | ⟨h, _⟩
    · omega
    · exact h
    all_goals omega
  obtain ⟨step, hstep, hmem⟩ := lG5_step_exists s.ro.steps sub.curIdx H.subok.lo H.subok.hi
  obtain ⟨f1, _, f3, _⟩ := lG5_fill_facts (lG5_obs sub w) w.updateRevision
  have e3 : (lG5_c3 s w sub).sub.state = .metricsAnalysis := f3.trans hst
  have hss : stateStep { s.ro with sub := some (lG5_obs sub w) } step (lG5_c3 s w sub) =
      .ok { lG5_c3 s w sub with sub := { (lG5_c3 s w sub).sub with state := .paused } } false := by
    unfold stateStep
    rw [e3]
  obtain ⟨s', hr, hf, hcfg, hbd, hs'⟩ := lG5_round_rolling s w sub b step _ H hfwd hstep hmem (by rw [hst]; decide) hss rfl rfl rfl rfl
  obtain ⟨k1, k2⟩ := lG5_succ_same s w sub b H { (lG5_c3 s w sub).sub with state := .paused } f1 (Or.inr (Or.inl rfl))
  rw [← hs'] at k1 k2
  rw [if_neg (by intro hh; cases hh), if_pos rfl] at k1 k2
  have hmu := lG5_mu_src s w sub b H
  rw [hst] at hmu
  dsimp only at hmu
  refine ⟨s', hr, lG5_liveInv_mk s' hf hcfg hbd (by rw [k1]; decide), by omega, by omega,
      Or.inr ⟨b, H.hb, by omega, by rw [hs']; rfl⟩⟩

theorem round_cls_14 (s : CS) (h : liveInv s = true) (hc : cls s = 14) :
    ∃ s', round s = some s' ∧ liveInv s' = true ∧ mu s' < mu s := by
  obtain ⟨s', h1, h2, h3, _, _⟩ := lG5_core_14 s h hc
  exact ⟨s', h1, h2, h3⟩

theorem done_cls_14 (s : CS) (h : liveInv s = true) (_hd : doneInv s = true) (hc : cls s = 14) :
    ∀ s', round s = some s' → doneInv s' = true := by
  obtain ⟨s', h1, _, _, h4, _⟩ := lG5_core_14 s h hc
  exact fun s'' h' => lG5_done s s' s'' h1 h4 h'

theorem pol_cls_14 (s : CS) (h : liveInv s = true) (hp : polInv s = true) (hc : cls s = 14) :
    ∀ s', round s = some s' → polInv s' = true := by
  obtain ⟨s', h1, _, _, _, h5⟩ := lG5_core_14 s h hc
  exact fun s'' h' => lG5_pol s s' s'' h1 hp h5 h'

/-! ### class 16 -/

theorem lG5_core_16 (s : CS) (h : liveInv s = true) (hc : cls s = 16) :
    ∃ s', round s = some s' ∧ liveInv s' = true ∧ mu s' < mu s ∧ 12 < mu s' ∧
      (mu s' ≤ 32 ∨ ∃ b, s.br = some b ∧ 32 < mu s ∧ s'.br = some (lG5_norm b)) := by
  obtain ⟨hfwd, w, sub, b, H, hst⟩ := lG5_hyp s h (Or.inr (Or.inr (Or.inl hc)))
  have hst : sub.state = .ready := by
    rcases hst with ⟨h, _⟩ | ⟨h, _⟩ | ⟨_, h⟩ | ⟨h, _⟩
    · omega
    · omega
    · exact h
    · omega
  obtain ⟨step, hstep, hmem⟩ := lG5_step_exists s.ro.steps sub.curIdx H.subok.lo H.subok.hi
  obtain ⟨f1, _, f3, _⟩ := lG5_fill_facts (lG5_obs sub w) w.updateRevision
  have f1' : (lG5_c3 s w sub).sub.curIdx = sub.curIdx := f1
  have e3 : (lG5_c3 s w sub).sub.state = .ready := f3.trans hst
  have hlo := H.subok.lo
  have hhi := H.subok.hi
  have hmu := lG5_mu_src s w sub b H
  rw [hst] at hmu
  dsimp only at hmu
  by_cases hlt : (s.ro.steps.length : Int) > sub.curIdx
  · have hss : stateStep { s.ro with sub := some (lG5_obs sub w) } step (lG5_c3 s w sub) =
        .ok { lG5_c3 s w sub with sub := { (lG5_c3 s w sub).sub with
                curIdx := (lG5_c3 s w sub).sub.curIdx + 1,
                nextIdx := nextBatchIndex (s.ro.steps.length : Int) ((lG5_c3 s w sub).sub.curIdx + 1),
                state := .init, lastUpdate := .fresh } } false := by
      unfold stateStep
      rw [e3]
      dsimp only
      rw [if_pos (by rw [f1']; exact hlt)]
    obtain ⟨s', hr, hf, hcfg, hbd, hs'⟩ := lG5_round_rolling s w sub b step _ H hfwd hstep hmem (by rw [hst]; decide) hss rfl rfl rfl rfl
    obtain ⟨k1, k2⟩ := lG5_succ_next s w sub b H
      { (lG5_c3 s w sub).sub with
          curIdx := (lG5_c3 s w sub).sub.curIdx + 1,
          nextIdx := nextBatchIndex (s.ro.steps.length : Int) ((lG5_c3 s w sub).sub.curIdx + 1),
          state := .init, lastUpdate := .fresh } (by show (lG5_c3 s w sub).sub.curIdx + 1 = _; rw [f1']) rfl
    rw [← hs'] at k1 k2
    refine ⟨s', hr, lG5_liveInv_mk s' hf hcfg hbd (by rw [k1]; decide), by omega, by omega,
      Or.inr ⟨b, H.hb, by omega, by rw [hs']; rfl⟩⟩
  · have hss : stateStep { s.ro with sub := some (lG5_obs sub w) } step (lG5_c3 s w sub) =
        .ok { lG5_c3 s w sub with sub := { (lG5_c3 s w sub).sub with state := .completed, lastUpdate := .fresh } } false := by
      unfold stateStep
      rw [e3]
      dsimp only
      rw [if_neg (by rw [f1']; exact hlt)]
    obtain ⟨s', hr, hf, hcfg, hbd, hs'⟩ := lG5_round_rolling s w sub b step _ H hfwd hstep hmem (by rw [hst]; decide) hss rfl rfl rfl rfl
    obtain ⟨k1, k2⟩ := lG5_succ_same s w sub b H { (lG5_c3 s w sub).sub with state := .completed, lastUpdate := .fresh } f1
      (Or.inr (Or.inr rfl))
    rw [← hs'] at k1 k2
    rw [if_neg (by intro hh; cases hh), if_neg (by intro hh; cases hh)] at k1 k2
    refine ⟨s', hr, lG5_liveInv_mk s' hf hcfg hbd (by rw [k1]; decide), by omega, by omega,
      Or.inr ⟨b, H.hb, by omega, by rw [hs']; rfl⟩⟩

theorem round_cls_16 (s : CS) (h : liveInv s = true) (hc : cls s = 16) :
    ∃ s', round s = some s' ∧ liveInv s' = true ∧ mu s' < mu s := by
  obtain ⟨s', h1, h2, h3, _, _⟩ := lG5_core_16 s h hc
  exact ⟨s', h1, h2, h3⟩

theorem done_cls_16 (s : CS) (h : liveInv s = true) (_hd : doneInv s = true) (hc : cls s = 16) :
    ∀ s', round s = some s' → doneInv s' = true := by
  obtain ⟨s', h1, _, _, h4, _⟩ := lG5_core_16 s h hc
  exact fun s'' h' => lG5_done s s' s'' h1 h4 h'

theorem pol_cls_16 (s : CS) (h : liveInv s = true) (hp : polInv s = true) (hc : cls s = 16) :
    ∀ s', round s = some s' → polInv s' = true := by
  obtain ⟨s', h1, _, _, _, h5⟩ := lG5_core_16 s h hc
  exact fun s'' h' => lG5_pol s s' s'' h1 hp h5 h'

/-! ### class 17 -/

/-- the end of the round of class 17 -/
def lG5_next17 (s : CS) (w : CWl) (sub : Sub) (b : CBr) : CS :=
  { s with ro := { s.ro with sub := some (lG5_ageSub (lG5_apprSub (lG5_obs sub w))), reason := .finalising,
                             condAge := ageAge s.ro.condAge },
           br := some (lG5_norm b), mem := (tick s).mem }

theorem lG5_core_17 (s : CS) (h : liveInv s = true) (hc : cls s = 17) :
    ∃ s', round s = some s' ∧ liveInv s' = true ∧ mu s' < mu s ∧ 12 < mu s' ∧
      (mu s' ≤ 32 ∨ ∃ b, s.br = some b ∧ 32 < mu s ∧ s'.br = some (lG5_norm b)) := by
  obtain ⟨hfwd, w, sub, b, H, hst⟩ := lG5_hyp s h (Or.inr (Or.inr (Or.inr hc)))
  have hst : sub.state = .completed := by
    rcases hst with ⟨h, _⟩ | ⟨h, _⟩ | ⟨h, _⟩ | ⟨_, h⟩
    · omega
    · omega
    · omega
    · exact h
  have hF := (lG5_brReady_iff b w sub.curIdx).1 H.rdy
  have hgen : w.observedGeneration = w.generation := by
    have := lG5_env_gen w
    rw [H.env] at this
    exact this
  have h1 := lG5_stepRo_completed s w sub H.gone H.good H.hw H.hph H.hr H.hs H.wok H.subok hgen.symm H.revNe hst
  have h2 := lG5_stepBr { s with ro := { s.ro with sub := some (lG5_obs sub w), reason := .finalising } } w b sub.curIdx
    H.hw H.hb hF H.bok H.wok (by rw [H.len]; exact H.subok.hi) hgen
  obtain ⟨a', b', ha', _, hb', _, hr', hf'⟩ := round_fwd s hfwd
  rw [h1] at ha'
  cases ha'
  rw [h2] at hb'
  cases hb'
  obtain ⟨t1, t2⟩ := lG5_tail_boundary
    { s with ro := { s.ro with sub := some (lG5_obs sub w), reason := .finalising }, br := some (lG5_norm b) } w H.hw H.env
  have hs' : roundTail { s with ro := { s.ro with sub := some (lG5_obs sub w), reason := .finalising }, br := some (lG5_norm b) } =
      lG5_next17 s w sub b := by
    rw [lG5_tail { s with ro := { s.ro with sub := some (lG5_obs sub w), reason := .finalising }, br := some (lG5_norm b) }
      w (lG5_obs sub w) H.gone H.hw H.env rfl]
    rfl
  rw [hs'] at hr' hf' t1 t2
  obtain ⟨_, q2, _⟩ := lG5_final_sub (lG5_obs sub w)
  have hfin : (lG5_ageSub (lG5_apprSub (lG5_obs sub w))).finStep = .empty := q2.trans H.subok.fin
  have k1 : cls (lG5_next17 s w sub b) = 20 :=
    lG5_cls_fin (lG5_next17 s w sub b) w _ (lG5_norm b) sub.curIdx H.hw H.hph rfl rfl hfin rfl
      (by rw [lG5_brReady_norm]; exact H.rdy)
  have k2 : mu (lG5_next17 s w sub b) = 22 := lG5_mu_fin (lG5_next17 s w sub b) w _ H.hw H.hph rfl rfl hfin
  have hmu := lG5_mu_src s w sub b H
  rw [hst] at hmu
  dsimp only at hmu
  have hcfg : liveCfg (lG5_next17 s w sub b) = true := by
    rw [t2, ← H.cfg]
    exact lG5_liveCfg_congr _ _ rfl rfl rfl
  exact ⟨_, hr', lG5_liveInv_mk _ hf' hcfg t1 (by rw [k1]; decide), by omega, by omega, Or.inl (by omega)⟩

theorem round_cls_17 (s : CS) (h : liveInv s = true) (hc : cls s = 17) :
    ∃ s', round s = some s' ∧ liveInv s' = true ∧ mu s' < mu s := by
  obtain ⟨s', h1, h2, h3, _, _⟩ := lG5_core_17 s h hc
  exact ⟨s', h1, h2, h3⟩

theorem done_cls_17 (s : CS) (h : liveInv s = true) (_hd : doneInv s = true) (hc : cls s = 17) :
    ∀ s', round s = some s' → doneInv s' = true := by
  obtain ⟨s', h1, _, _, h4, _⟩ := lG5_core_17 s h hc
  exact fun s'' h' => lG5_done s s' s'' h1 h4 h'

theorem pol_cls_17 (s : CS) (h : liveInv s = true) (hp : polInv s = true) (hc : cls s = 17) :
    ∀ s', round s = some s' → polInv s' = true := by
  obtain ⟨s', h1, _, _, _, h5⟩ := lG5_core_17 s h hc
  exact fun s'' h' => lG5_pol s s' s'' h1 hp h5 h'

end RV.Lemmas.ClosedLoop
