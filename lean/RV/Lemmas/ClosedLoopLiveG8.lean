/-
  Progress of the closed loop, round-boundary classes 27, 29: one fair round from a state of the class leads to a state of the
  invariant with a strictly smaller measure.
-/
import RV.Lemmas.ClosedLoopLiveBase
namespace RV.Lemmas.ClosedLoop
open RV.Arith RV.Traffic RV.RolloutSM RV.ClosedLoop RV.Oracle.ClosedLoop RV.Props.Reconcile RV.Props.Rollout RV.Props.Cluster

/-! ### the tail of a round (env, approve, tick) -/

theorem lG8_ageAge_idem (a : Age) : ageAge (ageAge a) = ageAge a := by cases a <;> rfl

theorem lG8_ageExp_idem (a : Exp) : ageExp (ageExp a) = ageExp a := by cases a <;> rfl

theorem lG8_tick_idem (s : CS) : tick (tick s) = tick s := by
  obtain ⟨gone, ro, wl, br, net, mem⟩ := s
  cases gone
  · cases hs : ro.sub <;> simp [tick, hs, lG8_ageAge_idem, lG8_ageExp_idem]
  · simp [tick, lG8_ageExp_idem]

theorem lG8_envWl_anno (w : CWl) (x : Bool) :
    envWl { w with inProgressAnno := x } = { envWl w with inProgressAnno := x } := by
  unfold envWl
  dsimp only
  split <;> rfl

theorem lG8_env_consistent (w : CWl) (h : envWl w = w) : w.generation = w.observedGeneration := by
  have h1 := congrArg CWl.observedGeneration h
  unfold envWl at h1
  dsimp only at h1
  split at h1 <;> exact h1

/-- what the classes and the measure read of the state after the tail of a round whose workload is already settled -/
theorem lG8_tail (b : CS) (wb : CWl) (hg : b.gone = false) (hw : b.wl = some wb) (he : envWl wb = wb) :
    (roundTail b).wl = some wb ∧ (roundTail b).br = b.br ∧ (roundTail b).ro.phase = b.ro.phase ∧
    (roundTail b).ro.reason = b.ro.reason ∧ (roundTail b).ro.steps = b.ro.steps ∧
    (roundTail b).ro.hasTraffic = b.ro.hasTraffic ∧
    (∀ sub, b.ro.sub = some sub → ∃ sub', (roundTail b).ro.sub = some sub' ∧ sub'.finStep = sub.finStep) ∧
    atBoundary (roundTail b) = true ∧ (roundTail b).ro.succeeded = b.ro.succeeded := by
  have hwl : (roundTail b).wl = some wb := by
    unfold roundTail approve tick
    dsimp only
    rw [hg, hw]
    simp only [Bool.false_eq_true, if_false, Option.map_some, he]
    split
    · split <;> rfl
    · rfl
  refine ⟨hwl, ?_, ?_, ?_, ?_, ?_, ?_, ?_, ?_⟩
  · unfold roundTail approve tick
    dsimp only
    rw [hg]
    simp only [Bool.false_eq_true, if_false]
    split
    · split <;> rfl
    · rfl
  · unfold roundTail approve tick
    dsimp only
    rw [hg]
    simp only [Bool.false_eq_true, if_false]
    split
    · split <;> rfl
    · rfl
  · unfold roundTail approve tick
    dsimp only
    rw [hg]
    simp only [Bool.false_eq_true, if_false]
    split
    · split <;> rfl
    · rfl
  · unfold roundTail approve tick
    dsimp only
    rw [hg]
    simp only [Bool.false_eq_true, if_false]
    split
    · split <;> rfl
    · rfl
  · unfold roundTail approve tick
    dsimp only
    rw [hg]
    simp only [Bool.false_eq_true, if_false]
    split
    · split <;> rfl
    · rfl
  · intro sub hs
    unfold roundTail approve tick
    dsimp only
    rw [hg]
    simp only [Bool.false_eq_true, if_false, hs]
    split
    · exact ⟨_, rfl, rfl⟩
    · dsimp only
      rw [hs]
      exact ⟨_, rfl, rfl⟩
  · unfold atBoundary
    rw [hwl]
    dsimp only
    rw [he]
    unfold roundTail
    rw [lG8_tick_idem]
    simp
  · unfold roundTail approve tick
    dsimp only
    rw [hg]
    simp only [Bool.false_eq_true, if_false]
    split
    · split <;> rfl
    · rfl

/-! ### the Rollout reconcile at the cursor `releaseWorkloadControl` -/

theorem lG8_doFin_none (c0 : Ctx) (hsteps : c0.ro.steps ≠ []) (hst : c0.ro.style = .canary)
    (hf : c0.sub.finStep = .releaseWorkloadControl) (hb : c0.br = none) :
    ∃ c', doFinalising c0 .success true = some (c', true, false) ∧ c'.ro = c0.ro ∧
      c'.sub = { c0.sub with finStep := .end_, lastUpdate := .fresh } ∧ c'.wl = { c0.wl with inProgressAnno := false } ∧
      c'.br = none ∧ c'.net = c0.net ∧ c'.mem = c0.mem := by
  obtain ⟨hs, hr⟩ := stripAnno_frame c0
  obtain ⟨hb0, hn0, _, hm0⟩ := stripAnno_frame' c0
  have hw0 := stripAnno_wl c0
  unfold doFinalising
  dsimp only
  generalize stripAnno c0 = c at hs hr hb0 hn0 hm0 hw0
  have hnx : nextTask (taskList c.ro.style .success) c.sub.finStep = .end_ := by
    rw [hr, hst, hs, hf]; decide
  rw [hnx]
  rw [if_neg (by rw [hr]; simpa using hsteps), if_neg (by rw [hs, hf]; decide)]
  have hsc : startCursor c .end_ = c := by
    unfold startCursor; rw [if_neg (by rw [hs, hf]; decide)]
  rw [hsc, if_neg (by rw [hr, hst, hs, hf]; decide)]
  unfold finTask
  rw [hs, hf]
  dsimp only
  rw [hb0, hb]
  unfold removeBatchRelease
  dsimp only
  rw [if_neg (by simp)]
  refine ⟨_, rfl, hr, ?_, hw0, rfl, hn0, hm0⟩
  rfl

theorem lG8_doFin_some (c0 : Ctx) (b : BR) (hsteps : c0.ro.steps ≠ []) (hst : c0.ro.style = .canary)
    (hf : c0.sub.finStep = .releaseWorkloadControl) (hb : c0.br = some b) (hd : b.deleting = false) :
    ∃ c', doFinalising c0 .success true = some (c', false, false) ∧ c'.ro = c0.ro ∧
      c'.sub = c0.sub ∧ c'.wl = { c0.wl with inProgressAnno := false } ∧
      c'.br = some { b with deleting := true } ∧ c'.net = c0.net ∧ c'.mem = c0.mem := by
  obtain ⟨hs, hr⟩ := stripAnno_frame c0
  obtain ⟨hb0, hn0, _, hm0⟩ := stripAnno_frame' c0
  have hw0 := stripAnno_wl c0
  unfold doFinalising
  dsimp only
  generalize stripAnno c0 = c at hs hr hb0 hn0 hm0 hw0
  have hnx : nextTask (taskList c.ro.style .success) c.sub.finStep = .end_ := by
    rw [hr, hst, hs, hf]; decide
  rw [hnx]
  rw [if_neg (by rw [hr]; simpa using hsteps), if_neg (by rw [hs, hf]; decide)]
  have hsc : startCursor c .end_ = c := by
    unfold startCursor; rw [if_neg (by rw [hs, hf]; decide)]
  rw [hsc, if_neg (by rw [hr, hst, hs, hf]; decide)]
  unfold finTask
  rw [hs, hf]
  dsimp only
  rw [hb0, hb]
  unfold removeBatchRelease
  dsimp only
  simp only [hd, Bool.false_eq_true, if_false, or_true, if_true]
  exact ⟨_, rfl, hr, rfl, hw0, rfl, hn0, hm0⟩

/-- the reconcile of a Progressing / Finalising rollout, from the result of `doFinalising` -/
theorem lG8_reconcile (w : World) (wl : WL) (s : Sub)
    (hg : RoGood w.ro) (hph : w.ro.phase = .progressing) (hr : w.ro.reason = .finalising)
    (hwl : w.wl = some wl) (hc : wl.consistent = true) (hs : w.ro.sub = some s) :
    ∃ ns s1, Same w.ro ns ∧ ns.phase = .progressing ∧ ns.reason = .finalising ∧ s1.finStep = s.finStep ∧
      (∀ c' d, doFinalising (toCtx { w with ro := ns } s1 wl) .success true = some (c', d, false) →
        reconcile w =
          if d then .val { w := { (ofCtx w c' ns) with ro := { (ofCtx w c' ns).ro with reason := .completed, succeeded := some true } },
                           roGone := false, requeue := false, err := false, writes := [] ++ c'.writes }
          else .val { w := ofCtx w c' ns, roGone := false, requeue := true, err := false, writes := [] ++ c'.writes }) := by
  have hhf := hf_good w.ro hg
  have hcs := cs_good w.ro wl hg hph hc
  have hsame := (csObserve_same w.ro wl).1
  obtain ⟨_, hphase, hreason, s1, hs1, hs1f⟩ := csObserve_facts w.ro wl s hs
  refine ⟨csObserve w.ro wl, s1, hsame, hphase.trans hph, hreason.trans hr, hs1f, ?_⟩
  intro c' d hd
  have hfz : finalise w (csObserve w.ro wl) (some wl) .success true = some (ofCtx w c' (csObserve w.ro wl), d, false, c'.writes) := by
    unfold finalise
    rw [hs1]
    dsimp only
    rw [if_neg (by simp [hc]), hd]
  rw [reconcile_finalising_eq w wl _ _ d false _ hhf hcs hph hr hwl hc hfz hg.notDeleting hg.enabled]
  rw [if_neg (by simp)]

/-! ### the facts of the two classes -/

theorem lG8_cls_fin (s : CS) (hc : cls s = 27 ∨ cls s = 29) :
    ∃ w sub, s.wl = some w ∧ s.ro.phase = .progressing ∧ s.ro.reason = .finalising ∧ s.ro.sub = some sub ∧
      sub.finStep = .releaseWorkloadControl ∧
      (cls s = 29 → s.br = none) ∧
      (cls s = 27 → ∃ b, s.br = some b ∧ b.st.phase = .completed ∧ b.deleting = false ∧ b.hasFinalizer = true) := by
  unfold cls at hc ⊢
  revert hc
  cases hw : s.wl with
  | none => intro hc; simp at hc
  | some w =>
    dsimp only
    cases hp : s.ro.phase <;> try dsimp only
    case progressing =>
      cases hr : s.ro.reason <;> try dsimp only
      case finalising =>
        cases hs : s.ro.sub with
        | none => intro hc; simp at hc
        | some sub =>
          dsimp only
          cases hf : sub.finStep <;> cases hb : s.br <;> dsimp only
          case releaseWorkloadControl.none =>
            intro _
            exact ⟨w, sub, rfl, rfl, rfl, rfl, hf, fun _ => rfl, fun h => by simp at h⟩
          case releaseWorkloadControl.some b =>
            intro hc
            refine ⟨w, sub, rfl, rfl, rfl, rfl, hf, fun h => ?_, fun h => ?_⟩
            · exfalso; split at h <;> simp at h
            · split at h
              · rename_i hcond
                simp only [Bool.and_eq_true, beq_iff_eq, Bool.not_eq_true'] at hcond
                exact ⟨b, rfl, hcond.1.1, hcond.1.2, hcond.2⟩
              · simp at h
          all_goals (intro hc; exfalso; (repeat' split at hc) <;> simp at hc)
      all_goals (intro hc; exfalso; (repeat' split at hc) <;> simp at hc)
    all_goals (intro hc; exfalso; (repeat' split at hc) <;> simp at hc)

/-! ### evaluating class, measure and configuration -/

theorem lG8_cls30 (t : CS) (w : CWl) (hw : t.wl = some w) (hp : t.ro.phase = .progressing) (hr : t.ro.reason = .completed)
    (hb : t.br = none) (sub : Sub) (hs : t.ro.sub = some sub) : cls t = 30 := by
  unfold cls
  rw [hw]; dsimp only
  rw [hp, hr]; dsimp only
  rw [hb, hs]; rfl

theorem lG8_cls29 (t : CS) (w : CWl) (sub : Sub) (hw : t.wl = some w) (hp : t.ro.phase = .progressing)
    (hr : t.ro.reason = .finalising) (hs : t.ro.sub = some sub) (hf : sub.finStep = .releaseWorkloadControl)
    (hb : t.br = none) : cls t = 29 := by
  unfold cls
  rw [hw]; dsimp only
  rw [hp, hr]; dsimp only
  rw [hs]; dsimp only
  rw [hf, hb]

theorem lG8_mu30 (t : CS) (w : CWl) (hw : t.wl = some w) (hp : t.ro.phase = .progressing) (hr : t.ro.reason = .completed) :
    mu t = 1 := by
  unfold mu
  rw [hw]; dsimp only
  rw [hp, hr]

theorem lG8_muFin (t : CS) (w : CWl) (sub : Sub) (hw : t.wl = some w) (hp : t.ro.phase = .progressing)
    (hr : t.ro.reason = .finalising) (hs : t.ro.sub = some sub) (hf : sub.finStep = .releaseWorkloadControl) :
    mu t = 2 + (match t.br with | none => 6 | some b => if b.deleting then 7 else 8) := by
  unfold mu
  rw [hw]; dsimp only
  rw [hp, hr]; dsimp only
  rw [hs]; dsimp only
  unfold finRank
  rw [hf]
  rfl

theorem lG8_liveCfg (s t : CS) (w w' : CWl) (hw : s.wl = some w) (hw' : t.wl = some w') (h1 : w'.replicas = w.replicas)
    (h2 : w'.paused = w.paused) (h3 : w'.updateRevision = w.updateRevision) (h4 : t.ro.steps = s.ro.steps)
    (h5 : t.ro.hasTraffic = s.ro.hasTraffic) (h : liveCfg s = true) : liveCfg t = true := by
  unfold liveCfg planOf at h ⊢
  rw [hw] at h
  rw [hw', h4, h5]
  dsimp only at h ⊢
  rw [h1, h2, h3]
  exact h

/-- what both classes share -/
theorem lG8_setup (s : CS) (h : liveInv s = true) (hc : cls s = 27 ∨ cls s = 29) :
    fwdInv s = true ∧ liveCfg s = true ∧ s.gone = false ∧ RoGood s.ro ∧
    ∃ w sub, s.wl = some w ∧ s.ro.phase = .progressing ∧ s.ro.reason = .finalising ∧ s.ro.sub = some sub ∧
      sub.finStep = .releaseWorkloadControl ∧ envWl w = w ∧ (roWl w).consistent = true ∧
      (cls s = 29 → s.br = none) ∧
      (cls s = 27 → ∃ b, s.br = some b ∧ b.st.phase = .completed ∧ b.deleting = false ∧ b.hasFinalizer = true) := by
  obtain ⟨hfwd, hcfg, _, hab⟩ := (liveInv_iff s).1 h
  obtain ⟨w, sub, hw, hp, hr, hs, hf, h29, h27⟩ := lG8_cls_fin s hc
  obtain ⟨hgone, hg, _⟩ := fwd_parts s hfwd
  have hab' : atBoundary s = true := by
    rcases hab with h1 | h1
    · rcases hc with h2 | h2 <;> rw [h2] at h1 <;> cases h1
    · exact h1
  have henv : envWl w = w := by
    unfold atBoundary at hab'
    rw [hw] at hab'
    simp only [Bool.and_eq_true, beq_iff_eq] at hab'
    exact hab'.1
  have hcons : (roWl w).consistent = true := by
    unfold roWl
    simp [lG8_env_consistent w henv]
  exact ⟨hfwd, hcfg, hgone, hg, w, sub, hw, hp, hr, hs, hf, henv, hcons, h29, h27⟩

/-- class 29: the cursor reaches the end, the release is recorded as succeeded; successor class 30 -/
theorem lG8_step29 (s : CS) (h : liveInv s = true) (hc : cls s = 29) :
    ∃ s' w, round s = some s' ∧ liveInv s' = true ∧ cls s' = 30 ∧ mu s' = 1 ∧ mu s = 8 ∧ s.wl = some w ∧
      s'.wl = some { w with inProgressAnno := false } ∧ s'.ro.succeeded = some true := by
  obtain ⟨hfwd, hcfg, hgone, hg, w, sub, hw, hp, hr, hs, hf, henv, hcons, h29, _⟩ := lG8_setup s h (Or.inr hc)
  have hbr := h29 hc
  obtain ⟨a, b, ha, _, hb, _, hround, hft⟩ := round_fwd s hfwd
  -- the Rollout reconcile: the cursor reaches the end, the release is reported Completed
  obtain ⟨ns, s1, hsame, hnp, _, hs1f, hrec⟩ :=
    lG8_reconcile (roWorld s) (roWl w) sub hg hp hr (world_wl s w hw) hcons hs
  obtain ⟨c', hdf, hcro, _, hcwl, hcbr, _, _⟩ :=
    lG8_doFin_none (toCtx { roWorld s with ro := ns } s1 (roWl w))
      (by show ns.steps ≠ []; rw [hsame.1]; exact hg.steps) (by show ns.style = .canary; rw [hsame.2.2.1]; exact hg.canary)
      (by show s1.finStep = _; rw [hs1f, hf]) (by show s.br.map roBr = none; rw [hbr]; rfl)
  have hcro' : c'.ro = ns := hcro
  have hrec' := hrec c' true hdf
  rw [if_pos rfl] at hrec'
  have hst := stepRo_eq s hgone _ hrec'
  rw [hst] at ha
  have hae : a = _ := (Option.some.inj ha).symm
  have hawl : a.wl = some { w with inProgressAnno := false } := by
    rw [hae]
    unfold landRo ofCtx
    dsimp only
    rw [hbr, hcbr, hw, hcwl]
    rfl
  have habr : a.br = none := by
    rw [hae]
    unfold landRo ofCtx
    dsimp only
    rw [hbr, hcbr]
    rfl
  have hagone : a.gone = false := by rw [hae]; rfl
  have haph : a.ro.phase = .progressing := by rw [hae]; exact hnp
  have har : a.ro.reason = .completed := by rw [hae]; rfl
  have hast : a.ro.steps = s.ro.steps := by rw [hae]; exact hsame.1
  have hatr : a.ro.hasTraffic = s.ro.hasTraffic := by rw [hae]; exact hsame.2.1
  -- the BatchRelease reconcile has nothing to do
  have hba : b = a := by
    unfold stepBr at hb
    rw [habr] at hb
    exact (Option.some.inj hb).symm
  have henv' : envWl { w with inProgressAnno := false } = { w with inProgressAnno := false } := by
    rw [lG8_envWl_anno, henv]
  have hasu : a.ro.succeeded = some true := by rw [hae]; rfl
  have hasub : a.ro.sub = some c'.sub := by rw [hae]; rfl
  subst hba
  obtain ⟨t1, t2, t3, t4, t5, t6, t7, t8, t9⟩ := lG8_tail b _ hagone hawl henv'
  obtain ⟨sub', hsub', _⟩ := t7 c'.sub hasub
  have hcls : cls (roundTail b) = 30 :=
    lG8_cls30 _ _ t1 (t3.trans haph) (t4.trans har) (t2.trans habr) sub' hsub'
  refine ⟨roundTail b, w, hround, ?_, hcls, lG8_mu30 _ _ t1 (t3.trans haph) (t4.trans har), ?_, hw, t1, t9.trans hasu⟩
  · rw [liveInv_iff]
    refine ⟨hft, ?_, by rw [hcls]; decide, Or.inr t8⟩
    exact lG8_liveCfg s _ w _ hw t1 rfl rfl rfl (t5.trans hast) (t6.trans hatr) hcfg
  · rw [lG8_muFin s w sub hw hp hr hs hf, hbr]
    rfl

theorem lG8_updatedBr_del (b0 : CBr) (hd : b0.deleting = false) (hf : b0.hasFinalizer = true) :
    updatedBr b0 { roBr b0 with deleting := true } = some { b0 with deleting := true } := by
  unfold updatedBr specChanged roBr
  simp [hd, hf]

theorem lG8_wlLand_id (w : CWl) : wlLand (some w) (some (exWl w)) = some w := by
  unfold wlLand exWl
  simp

/-- class 27: the Completed BatchRelease is deleted and disappears; successor class 29 -/
theorem lG8_step27 (s : CS) (h : liveInv s = true) (hc : cls s = 27) :
    ∃ s' w, round s = some s' ∧ liveInv s' = true ∧ cls s' = 29 ∧ mu s' = 8 ∧ mu s = 10 ∧ s.wl = some w ∧
      s'.wl = some { w with inProgressAnno := false } := by
  obtain ⟨hfwd, hcfg, hgone, hg, w, sub, hw, hp, hr, hs, hf, henv, hcons, _, h27⟩ := lG8_setup s h (Or.inl hc)
  obtain ⟨b0, hbr, hbph, hbdel, hbfin⟩ := h27 hc
  obtain ⟨a, b, ha, _, hb, _, hround, hft⟩ := round_fwd s hfwd
  -- the Rollout reconcile: the BatchRelease is deleted, the cursor stays
  obtain ⟨ns, s1, hsame, hnp, hnr, hs1f, hrec⟩ :=
    lG8_reconcile (roWorld s) (roWl w) sub hg hp hr (world_wl s w hw) hcons hs
  obtain ⟨c', hdf, hcro, hcsub, hcwl, hcbr, _, _⟩ :=
    lG8_doFin_some (toCtx { roWorld s with ro := ns } s1 (roWl w)) (roBr b0)
      (by show ns.steps ≠ []; rw [hsame.1]; exact hg.steps) (by show ns.style = .canary; rw [hsame.2.2.1]; exact hg.canary)
      (by show s1.finStep = _; rw [hs1f, hf]) (by show s.br.map roBr = _; rw [hbr]; rfl) hbdel
  have hcsub' : c'.sub = s1 := hcsub
  have hrec' := hrec c' false hdf
  rw [if_neg (by simp)] at hrec'
  have hst := stepRo_eq s hgone _ hrec'
  rw [hst] at ha
  have hae : a = _ := (Option.some.inj ha).symm
  have hawl : a.wl = some { w with inProgressAnno := false } := by
    rw [hae]
    unfold landRo ofCtx
    dsimp only
    rw [hbr, hcbr, hw, hcwl]
    rfl
  have habr : a.br = some { b0 with deleting := true } := by
    rw [hae]
    unfold landRo ofCtx
    dsimp only
    rw [hbr, hcbr]
    unfold landBR
    dsimp only
    exact lG8_updatedBr_del b0 hbdel hbfin
  have hagone : a.gone = false := by rw [hae]; rfl
  have haph : a.ro.phase = .progressing := by rw [hae]; exact hnp
  have har : a.ro.reason = .finalising := by rw [hae]; exact hnr
  have hasub : a.ro.sub = some s1 := by rw [hae]; show some c'.sub = _; rw [hcsub']
  have hast : a.ro.steps = s.ro.steps := by rw [hae]; exact hsame.1
  have hatr : a.ro.hasTraffic = s.ro.hasTraffic := by rw [hae]; exact hsame.2.1
  -- the BatchRelease reconcile: deleting, Completed, finalizer present: the object goes away
  have hbe : b = { a with br := none } := by
    unfold stepBr at hb
    rw [habr] at hb
    dsimp only at hb
    unfold Executor.reconcile at hb
    rw [if_pos ⟨rfl, hbph, hbfin⟩] at hb
    dsimp only at hb
    rw [← (Option.some.inj hb)]
    unfold landBr
    dsimp only
    rw [hawl]
    show ({ a with br := none, wl := wlLand (some _) (some (exWl _)) } : CS) = _
    rw [lG8_wlLand_id, ← hawl]
  have hbwl : b.wl = some { w with inProgressAnno := false } := by rw [hbe]; exact hawl
  have henv' : envWl { w with inProgressAnno := false } = { w with inProgressAnno := false } := by
    rw [lG8_envWl_anno, henv]
  obtain ⟨t1, t2, t3, t4, t5, t6, t7, t8, _⟩ := lG8_tail b _ (by rw [hbe]; exact hagone) hbwl henv'
  obtain ⟨sub', hsub', hsub'f⟩ := t7 s1 (by rw [hbe]; exact hasub)
  have hph' : (roundTail b).ro.phase = .progressing := t3.trans (by rw [hbe]; exact haph)
  have hr' : (roundTail b).ro.reason = .finalising := t4.trans (by rw [hbe]; exact har)
  have hbr' : (roundTail b).br = none := t2.trans (by rw [hbe])
  have hf' : sub'.finStep = .releaseWorkloadControl := by rw [hsub'f, hs1f, hf]
  have hcls : cls (roundTail b) = 29 := lG8_cls29 _ _ sub' t1 hph' hr' hsub' hf' hbr'
  refine ⟨roundTail b, w, hround, ?_, hcls, ?_, ?_, hw, t1⟩
  · rw [liveInv_iff]
    refine ⟨hft, ?_, by rw [hcls]; decide, Or.inr t8⟩
    exact lG8_liveCfg s _ w _ hw t1 rfl rfl rfl (t5.trans (by rw [hbe]; exact hast)) (t6.trans (by rw [hbe]; exact hatr)) hcfg
  · rw [lG8_muFin _ _ sub' t1 hph' hr' hsub' hf', hbr']
    rfl
  · rw [lG8_muFin s w sub hw hp hr hs hf, hbr]
    dsimp only
    rw [hbdel]
    rfl

/-! ### the theorems -/

theorem round_cls_27 (s : CS) (h : liveInv s = true) (hc : cls s = 27) :
    ∃ s', round s = some s' ∧ liveInv s' = true ∧ mu s' < mu s := by
  obtain ⟨s', _, h1, h2, _, h4, h5, _⟩ := lG8_step27 s h hc
  exact ⟨s', h1, h2, by rw [h4, h5]; decide⟩

theorem round_cls_29 (s : CS) (h : liveInv s = true) (hc : cls s = 29) :
    ∃ s', round s = some s' ∧ liveInv s' = true ∧ mu s' < mu s := by
  obtain ⟨s', _, h1, h2, _, h4, h5, _⟩ := lG8_step29 s h hc
  exact ⟨s', h1, h2, by rw [h4, h5]; decide⟩

theorem done_cls_27 (s : CS) (h : liveInv s = true) (hd : doneInv s = true) (hc : cls s = 27) :
    ∀ s', round s = some s' → doneInv s' = true := by
  obtain ⟨s1, w, h1, _, _, h4, h5, h6, h7⟩ := lG8_step27 s h hc
  intro s' hs'
  rw [h1] at hs'
  cases hs'
  unfold doneInv at hd ⊢
  rw [h6, h5] at hd
  rw [h7, h4]
  simpa using hd

theorem done_cls_29 (s : CS) (h : liveInv s = true) (hd : doneInv s = true) (hc : cls s = 29) :
    ∀ s', round s = some s' → doneInv s' = true := by
  obtain ⟨s1, w, h1, _, _, h4, h5, h6, h7, h8⟩ := lG8_step29 s h hc
  intro s' hs'
  rw [h1] at hs'
  cases hs'
  unfold doneInv at hd ⊢
  rw [h6, h5] at hd
  rw [h7, h4, h8]
  simpa using hd

theorem lG8_pol_of_mu (t : CS) (h : mu t ≤ 32) : polInv t = true := by
  unfold polInv
  split
  · simp [h]
  · rfl

theorem pol_cls_27 (s : CS) (h : liveInv s = true) (hp : polInv s = true) (hc : cls s = 27) :
    ∀ s', round s = some s' → polInv s' = true := by
  obtain ⟨s1, _, h1, _, _, h4, _⟩ := lG8_step27 s h hc
  intro s' hs'
  rw [h1] at hs'
  cases hs'
  exact lG8_pol_of_mu _ (by rw [h4]; decide)

theorem pol_cls_29 (s : CS) (h : liveInv s = true) (hp : polInv s = true) (hc : cls s = 29) :
    ∀ s', round s = some s' → polInv s' = true := by
  obtain ⟨s1, _, h1, _, _, h4, _⟩ := lG8_step29 s h hc
  intro s' hs'
  rw [h1] at hs'
  cases hs'
  exact lG8_pol_of_mu _ (by rw [h4]; decide)

end RV.Lemmas.ClosedLoop
