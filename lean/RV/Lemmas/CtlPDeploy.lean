import RV.Oracle.CtlPDeploy
import RV.Lemmas.BatchCtx
/-! Helper lemmas for the partition-style Deployment control plane. -/
namespace RV.CtlPDeploy
open RV.Arith IntOrPct RV.Webhook RV.Oracle.CtlPDeploy

/-! ### arithmetic -/

theorem limit_int0 (r : Int) : newRSReplicasLimit (int 0) r = 0 := by
  simp only [newRSReplicasLimit, scaledV, scaled]; omega

theorem limit_nonneg (p : IntOrPct) (r : Int) : 0 ≤ newRSReplicasLimit p r := by
  unfold newRSReplicasLimit
  simp only []
  repeat' split
  all_goals omega

/-- `NewRSReplicasLimit e` never exceeds what `CalculateBatchReplicas e` plans (any size, also a corrupt negative one) -/
theorem limit_le_calc (e : IntOrPct) (r : Int) : newRSReplicasLimit e r ≤ max 0 (calcBatchReplicas r e) := by
  unfold newRSReplicasLimit calcBatchReplicas
  simp only []
  repeat' split
  all_goals omega

theorem limitOf_nonneg (d : Dep) : 0 ≤ limitOf d := by
  unfold limitOf
  split
  · exact limit_nonneg _ _
  · exact Int.le_refl 0

theorem sameButAnno_self (d : Dep) : sameButAnno d d = true := by
  cases d; simp [sameButAnno]

/-! ### strategy helpers -/

theorem isPartitionStyle_Partition (s : DepStrategy) (h : s.rollingStyle = "Partition") : isPartitionStyle s = true := by
  unfold isPartitionStyle; rw [h]; decide +kernel

theorem isPartitionStyle_zero : isPartitionStyle DepStrategy.zero = false := by
  unfold isPartitionStyle DepStrategy.zero; decide +kernel

theorem setDefault_partition (s : DepStrategy) : (setDefaultDeploymentStrategy s).partition = s.partition := by
  unfold setDefaultDeploymentStrategy
  split
  · rfl
  · rw [apply_ite DepStrategy.partition]; exact ite_self _

theorem setDefault_style (s : DepStrategy) : (setDefaultDeploymentStrategy s).rollingStyle = s.rollingStyle := by
  unfold setDefaultDeploymentStrategy
  split
  · rfl
  · rw [apply_ite DepStrategy.rollingStyle]; exact ite_self _

theorem setDefault_paused (s : DepStrategy) : (setDefaultDeploymentStrategy s).paused = s.paused := by
  unfold setDefaultDeploymentStrategy
  split
  · rfl
  · rw [apply_ite DepStrategy.paused]; exact ite_self _

/-- a complete, non-zero `rollingUpdate` block passes `SetDefaultDeploymentStrategy` unchanged -/
theorem setDefault_valid (s : DepStrategy) (u : RU) (hs : s.rollingStyle = "Partition") (hr : s.ru = some u)
    (hu : ruValid u = true) : setDefaultDeploymentStrategy s = s := by
  obtain ⟨mu, ms⟩ := u
  simp only [ruValid, Bool.and_eq_true, Bool.not_eq_true'] at hu
  obtain ⟨⟨h1, h2⟩, h3⟩ := hu
  cases mu with
  | none => simp at h1
  | some a =>
    cases ms with
    | none => simp at h2
    | some b =>
      obtain ⟨st, ru, pa, pt⟩ := s
      simp only at hs hr
      subst hs hr
      simp only [setDefaultDeploymentStrategy, bne_self_eq_false, Bool.false_eq_true, if_false,
        Option.isNone_some, h3]

theorem mergeRU_full (cur : Option RU) (u : RU) (hu : ruValid u = true) (hc : cur = none ∨ cur = some u) :
    mergeRU cur (some u) = some u := by
  obtain ⟨mu, ms⟩ := u
  simp only [ruValid, Bool.and_eq_true] at hu
  obtain ⟨⟨h1, h2⟩, _⟩ := hu
  cases mu with
  | none => simp at h1
  | some a =>
    cases ms with
    | none => simp at h2
    | some b => rcases hc with hc | hc <;> subst hc <;> rfl

/-! ### the shape of a controller step -/

/-- what the controller call of step `s` would write on Deployment `d0` (`none`: nothing) -/
def writeOf (rel : Rel) (s : Step) (d0 : Dep) : Option Dep :=
  match s.call with
  | .initialize => ctrlInitialize d0
  | .upgradeBatch =>
    match d0.replicas, entryOf rel s.batch with
    | some r, some e => if r = 0 then none else ctrlUpgradeBatch d0 r e
    | _, _ => none
  | .finalize => ctrlFinalize d0 s.bpNil
  | .submit => none

theorem commit_cases (d : Dep) (w : Option Dep) (f : Fault) (obs : Option InitObs) :
    (w = none ∧ commit d w f obs = { res := .ok, dep := some d, writes := 0, obs := obs }) ∨
    (∃ d', w = some d' ∧ f = .write ∧ commit d w f obs = { res := .err, dep := some d, writes := 1, obs := none }) ∨
    (∃ d', w = some d' ∧ f ≠ .write ∧ commit d w f obs = { res := .ok, dep := some d', writes := 1, obs := obs }) := by
  cases w with
  | none => left; exact ⟨rfl, rfl⟩
  | some d' =>
    right
    by_cases hf : f = .write
    · left; exact ⟨d', rfl, hf, by simp [commit, hf]⟩
    · right; exact ⟨d', rfl, hf, by simp [commit, hf]⟩

/-- The five things a controller call can do. -/
theorem ctrl_step_cases (c : Cfg) (d : Option Dep) (s : Step) (o : StepOut)
    (hc : s.call ≠ .submit) (h : step c d s = .val o) :
    (s.fault = .get ∧ o.res = .err ∧ o.dep = d ∧ o.writes = 0) ∨
    (s.fault ≠ .get ∧ d = none ∧ o.dep = none ∧ o.writes = 0 ∧ (o.res = .ok ↔ s.call = .finalize)) ∨
    (∃ d0 r, d = some d0 ∧ d0.replicas = some r ∧ s.fault ≠ .get ∧
      ((writeOf c.rel s d0 = none ∧ o.res = .ok ∧ o.dep = some d0 ∧ o.writes = 0) ∨
       (∃ d', writeOf c.rel s d0 = some d' ∧ s.fault = .write ∧ o.res = .err ∧ o.dep = some d0 ∧ o.writes = 1) ∨
       (∃ d', writeOf c.rel s d0 = some d' ∧ s.fault = .none ∧ o.res = .ok ∧ o.dep = some d' ∧ o.writes = 1))) := by
  by_cases hg : s.fault = .get
  · left
    cases hcall : s.call <;> simp only [step, hcall, planeInitialize, planeUpgradeBatch, planeFinalize, build, hg, if_true] at h
    · cases h; exact ⟨hg, rfl, rfl, rfl⟩
    · cases h; exact ⟨hg, rfl, rfl, rfl⟩
    · cases h; exact ⟨hg, rfl, rfl, rfl⟩
    · exact absurd hcall hc
  · right
    cases d with
    | none =>
      left
      cases hcall : s.call <;> simp only [step, hcall, planeInitialize, planeUpgradeBatch, planeFinalize, build, hg, if_false] at h
      · cases h; exact ⟨hg, rfl, rfl, rfl, by simp⟩
      · cases h; exact ⟨hg, rfl, rfl, rfl, by simp⟩
      · cases h; exact ⟨hg, rfl, rfl, rfl, by simp⟩
      · exact absurd hcall hc
    | some d0 =>
      right
      have hfn : s.fault ≠ .write → s.fault = .none := by
        intro hw; cases hs : s.fault <;> simp_all
      cases hr : d0.replicas with
      | none =>
        cases hcall : s.call <;> simp only [step, hcall, planeInitialize, planeUpgradeBatch, planeFinalize, build, hg, if_false, hr] at h
        all_goals first | cases h | exact absurd hcall hc
      | some r =>
        refine ⟨d0, r, rfl, hr, hg, ?_⟩
        cases hcall : s.call
        · -- initialize
          simp only [step, hcall, planeInitialize, build, hg, if_false, hr, Out.val.injEq] at h
          have hw : writeOf c.rel s d0 = ctrlInitialize d0 := by simp [writeOf, hcall]
          rw [hw]
          rcases commit_cases d0 (ctrlInitialize d0) s.fault
              (some { observedReplicas := r, stableRevision := d0.stableRev, noNeedUpdate := noNeedUpdate c.rel })
            with ⟨h1, h2⟩ | ⟨d', h1, h2, h3⟩ | ⟨d', h1, h2, h3⟩
          · left; rw [h2] at h; subst h; exact ⟨h1, rfl, rfl, rfl⟩
          · right; left; rw [h3] at h; subst h; exact ⟨d', h1, h2, rfl, rfl, rfl⟩
          · right; right; rw [h3] at h; subst h; exact ⟨d', h1, hfn h2, rfl, rfl, rfl⟩
        · -- upgradeBatch
          simp only [step, hcall, planeUpgradeBatch, build, hg, if_false, hr] at h
          by_cases hr0 : r = 0
          · left
            simp only [hr0, if_true, Out.val.injEq] at h
            subst h
            refine ⟨?_, rfl, rfl, rfl⟩
            simp only [writeOf, hcall, hr, hr0]
            split <;> simp_all
          · simp only [hr0, if_false] at h
            by_cases hb : s.batch < 0
            · simp only [hb, if_true] at h; cases h
            · simp only [hb, if_false] at h
              cases he : c.rel.batches[s.batch.toNat]? with
              | none => simp only [he] at h; cases h
              | some e =>
                simp only [he, Out.val.injEq] at h
                have hw : writeOf c.rel s d0 = ctrlUpgradeBatch d0 r e := by
                  simp [writeOf, hcall, hr, entryOf, hb, he, hr0]
                rw [hw]
                rcases commit_cases d0 (ctrlUpgradeBatch d0 r e) s.fault none
                  with ⟨h1, h2⟩ | ⟨d', h1, h2, h3⟩ | ⟨d', h1, h2, h3⟩
                · left; rw [h2] at h; subst h; exact ⟨h1, rfl, rfl, rfl⟩
                · right; left; rw [h3] at h; subst h; exact ⟨d', h1, h2, rfl, rfl, rfl⟩
                · right; right; rw [h3] at h; subst h; exact ⟨d', h1, hfn h2, rfl, rfl, rfl⟩
        · -- finalize
          simp only [step, hcall, planeFinalize, build, hg, if_false, hr, Out.val.injEq] at h
          have hw : writeOf c.rel s d0 = ctrlFinalize d0 s.bpNil := by simp [writeOf, hcall]
          rw [hw]
          rcases commit_cases d0 (ctrlFinalize d0 s.bpNil) s.fault none
            with ⟨h1, h2⟩ | ⟨d', h1, h2, h3⟩ | ⟨d', h1, h2, h3⟩
          · left; rw [h2] at h; subst h; exact ⟨h1, rfl, rfl, rfl⟩
          · right; left; rw [h3] at h; subst h; exact ⟨d', h1, h2, rfl, rfl, rfl⟩
          · right; right; rw [h3] at h; subst h; exact ⟨d', h1, hfn h2, rfl, rfl, rfl⟩
        · exact absurd hcall hc

/-! ### what each controller call writes -/

/-- the strategy `Initialize` writes -/
def initStrategy (d : Dep) : DepStrategy :=
  setDefaultDeploymentStrategy
    { paused := false, partition := int 0, rollingStyle := "Partition",
      ru := match d.stratRU with
            | some r => some r
            | none => (getStrategy d).ru }

theorem ctrlInitialize_some {d d' : Dep} (h : ctrlInitialize d = some d') :
    isUnderRolloutControl d = false ∧
    d' = { d with ctrlLabel := true, stratAnno := .valid (initStrategy d), control := .this,
                  paused := true, stratType := "Recreate" } := by
  unfold ctrlInitialize at h
  split at h
  · cases h
  · rename_i hu
    simp only [Option.some.injEq] at h
    exact ⟨by simpa using hu, h.symm⟩

theorem ctrlInitialize_none {d : Dep} (h : ctrlInitialize d = none) : isUnderRolloutControl d = true := by
  unfold ctrlInitialize at h
  split at h
  · assumption
  · cases h

theorem initStrategy_facts (d : Dep) :
    (initStrategy d).partition = int 0 ∧ (initStrategy d).rollingStyle = "Partition" ∧ (initStrategy d).paused = false := by
  unfold initStrategy
  exact ⟨by rw [setDefault_partition], by rw [setDefault_style], by rw [setDefault_paused]⟩

theorem ctrlUpgradeBatch_some {d d' : Dep} {r : Int} {e : IntOrPct} (h : ctrlUpgradeBatch d r e = some d') :
    isUnderRolloutControl d = true ∧
    newRSReplicasLimit (getStrategy d).partition r < newRSReplicasLimit e r ∧
    d' = { d with stratAnno := .valid { getStrategy d with partition := e } } := by
  unfold ctrlUpgradeBatch at h
  split at h
  · cases h
  · rename_i hu
    simp only at h
    split at h
    · cases h
    · rename_i hlt
      simp only [Option.some.injEq] at h
      exact ⟨by simpa using hu, by omega, h.symm⟩

theorem ctrlUpgradeBatch_none {d : Dep} {r : Int} {e : IntOrPct} (h : ctrlUpgradeBatch d r e = none) :
    isUnderRolloutControl d = false ∨ newRSReplicasLimit e r ≤ newRSReplicasLimit (getStrategy d).partition r := by
  unfold ctrlUpgradeBatch at h
  split at h
  · rename_i hu; left; simpa using hu
  · simp only at h
    split at h
    · rename_i hge; right; omega
    · cases h

/-- the Deployment `Finalize` produces when it acts -/
def finalized (d : Dep) (bpNil : Bool) : Dep :=
  if bpNil then
    { d with paused := false,
             stratType := if d.stratType == "Recreate" then "RollingUpdate" else d.stratType,
             stratRU := if d.stratType == "Recreate" then mergeRU d.stratRU (getStrategy d).ru else d.stratRU,
             stratAnno := .absent, extraStatus := false, stableRev := "", ctrlLabel := false, control := .none }
  else { d with control := .none }

theorem ctrlFinalize_some {d d' : Dep} {bpNil : Bool} (h : ctrlFinalize d bpNil = some d') :
    claimed d = true ∧ d' = finalized d bpNil := by
  unfold ctrlFinalize at h
  simp only at h
  split at h
  · cases h
  · rename_i hu
    simp only [Option.some.injEq] at h
    refine ⟨by simpa [claimed] using hu, ?_⟩
    subst h
    unfold finalized
    cases bpNil
    · rfl
    · simp only [if_true]
      by_cases ht : (d.stratType == "Recreate") = true
      · simp only [ht, if_true]
      · simp only [ht, if_false]
        simp only [Bool.false_eq_true, if_false]

theorem ctrlFinalize_none {d : Dep} {bpNil : Bool} (h : ctrlFinalize d bpNil = none) : claimed d = false := by
  unfold ctrlFinalize at h
  simp only at h
  split at h
  · rename_i hu
    simp only [Bool.not_eq_true', Bool.and_eq_false_iff, bne_eq_false_iff_eq] at hu
    simp only [claimed, Bool.and_eq_false_iff, bne_eq_false_iff_eq]
    exact hu
  · cases h

/-! ### the webhook step -/

/-- the not-in-progress branch of `handleDeployment` either leaves the submitted object as it is or pauses it,
    marks it in-progress and (possibly) records the stable revision -/
theorem handleDeployment_notInProgress (new old : Obj) (ros : List Rollout) (rss : List RS) (c : Bool) (o : Obj)
    (hip : new.inProgress = .absent) (h : handleDeployment new old ros rss = .ok c o) :
    o = new ∨ ∃ name sr, o = { new with stableRev := sr, paused := true, inProgress := .rollout name } := by
  unfold handleDeployment at h
  simp only [hip, bne_self_eq_false, Bool.false_eq_true, if_false] at h
  repeat' split at h
  all_goals first
    | (cases h; left; rfl)
    | (cases h; right; exact ⟨_, _, rfl⟩)
    | (cases h; right; exact ⟨_, new.stableRev, rfl⟩)
    | cases h

theorem handleDeployment_inProgress' {new old : Obj} {ros : List Rollout} {rss : List RS}
    (h : new.inProgress ≠ .absent) :
    handleDeployment new old ros rss = handleDeploymentInProgress new old := by
  unfold handleDeployment
  simp [h]

theorem ofObj_toObj (n : Dep) (hip : n.inProgress = false) : ofObj n (toObj n) = n := by
  cases n; simp only at hip; subst hip; rfl

/-- the strategy the partition-style in-progress branch writes back -/
def admitStrategy (n : Dep) (m4 : Bool) : DepStrategy :=
  let s := getStrategy n
  let s := if n.stratRU.isSome then { s with ru := n.stratRU } else s
  let s := if m4 then { s with paused := true } else s
  setDefaultDeploymentStrategy s

/-- The three things an admitted update can become. -/
theorem admit_cases (w : World) (d : Dep) (e : Edit) (d' : Dep) (h : submit w d e = .val d') :
    ((applyEdit d e).inProgress = true ∧ isPartitionStyle (getStrategy (applyEdit d e)) = true ∧ ∃ m4 : Bool,
        d' = { applyEdit d e with
                 paused := true,
                 stratType := if (applyEdit d e).stratType == "RollingUpdate" then "Recreate" else (applyEdit d e).stratType,
                 stratRU := none,
                 stratAnno := .valid (admitStrategy (applyEdit d e) m4) }) ∨
    ((applyEdit d e).inProgress = true ∧ isPartitionStyle (getStrategy (applyEdit d e)) = false ∧
        d' = if (applyEdit d e).stratType == "Recreate"
             then { applyEdit d e with paused := true, stratType := d.stratType, stratRU := d.stratRU }
             else { applyEdit d e with paused := true }) ∨
    ((applyEdit d e).inProgress = false ∧
        (d' = applyEdit d e ∨
         ∃ sr, d' = { applyEdit d e with paused := true, inProgress := true, stableRev := sr })) := by
  unfold submit at h
  simp only at h
  generalize applyEdit d e = n at h ⊢
  by_cases hip : n.inProgress = true
  · have hne : (toObj n).inProgress ≠ .absent := by simp [toObj, hip]
    rw [handleDeployment_inProgress' hne] at h
    unfold handleDeploymentInProgress at h
    have hgs : getDeploymentStrategy (toObj n) = getStrategy n := rfl
    simp only [hgs] at h
    by_cases hps : isPartitionStyle (getStrategy n) = true
    · left
      simp only [hps, if_true] at h
      generalize isEffectiveRevisionChange _ _ = m4 at h
      simp only [Out.val.injEq] at h
      refine ⟨hip, hps, m4, ?_⟩
      subst h
      obtain ⟨rep, pa, st, ru, an, co, cl, sr, es, ip, tm, rs⟩ := n
      simp only at hip
      subst hip
      simp only [ofObj, toObj, admitStrategy]
      by_cases ht : (st == "RollingUpdate") = true <;> simp [ht]
    · right; left
      have hps' : isPartitionStyle (getStrategy n) = false := by simpa using hps
      have hno : (toObj n).hasOrigStrategy = false := rfl
      simp only [hps', hno, Bool.false_eq_true, if_false] at h
      simp only [Out.val.injEq] at h
      refine ⟨hip, hps', ?_⟩
      subst h
      obtain ⟨rep, pa, st, ru, an, co, cl, sr, es, ip, tm, rs⟩ := n
      simp only at hip
      subst hip
      simp only [ofObj, toObj]
      by_cases ht : (st == "Recreate") = true <;> simp [ht]
  · right; right
    have hip' : n.inProgress = false := by simpa using hip
    refine ⟨hip', ?_⟩
    cases hh : handleDeployment (toObj n) (toObj d) (worldRollouts w) (worldRSs w) with
    | panic => rw [hh] at h; cases h
    | ok c o =>
      rw [hh] at h
      simp only [Out.val.injEq] at h
      have hab : (toObj n).inProgress = .absent := by simp [toObj, hip']
      rcases handleDeployment_notInProgress _ _ _ _ c o hab hh with ho | ⟨name, sr, ho⟩
      · left; subst ho; rw [← h]; exact ofObj_toObj n hip'
      · right
        refine ⟨sr, ?_⟩
        subst ho; subst h
        cases n
        simp [ofObj, toObj]

/-! ### user edits -/

theorem applyEdit_frame (d : Dep) (e : Edit) :
    (applyEdit d e).stratAnno = d.stratAnno ∧ (applyEdit d e).inProgress = d.inProgress ∧
    (applyEdit d e).control = d.control ∧ (applyEdit d e).ctrlLabel = d.ctrlLabel ∧
    (applyEdit d e).extraStatus = d.extraStatus ∧ (applyEdit d e).stableRev = d.stableRev ∧
    (applyEdit d e).rest = d.rest := by
  unfold applyEdit
  cases e.tmpl <;> cases e.strat <;> cases e.paused <;> cases e.replicas <;> simp

theorem applyEdit_replicas (d : Dep) (e : Edit) (h : e.replicas = none) : (applyEdit d e).replicas = d.replicas := by
  unfold applyEdit
  rw [h]
  cases e.tmpl <;> cases e.strat <;> cases e.paused <;> simp

theorem applyEdit_paused (d : Dep) (e : Edit) (h : e.paused = none) : (applyEdit d e).paused = d.paused := by
  unfold applyEdit
  rw [h]
  cases e.tmpl <;> cases e.strat <;> cases e.replicas <;> simp

theorem applyEdit_strat_none (d : Dep) (e : Edit) (h : e.strat = none) :
    (applyEdit d e).stratType = d.stratType ∧ (applyEdit d e).stratRU = d.stratRU := by
  unfold applyEdit
  rw [h]
  cases e.tmpl <;> cases e.paused <;> cases e.replicas <;> simp

theorem applyEdit_strat_some (d : Dep) (e : Edit) (t : String) (ru : Option RU) (h : e.strat = some (t, ru)) :
    (applyEdit d e).stratType = t ∧ (applyEdit d e).stratRU = ru := by
  unfold applyEdit
  rw [h]
  cases e.tmpl <;> cases e.paused <;> cases e.replicas <;> simp

theorem getStrategy_congr {a b : Dep} (h : a.stratAnno = b.stratAnno) : getStrategy a = getStrategy b := by
  unfold getStrategy; rw [h]

theorem admitStrategy_partition (n : Dep) (m4 : Bool) : (admitStrategy n m4).partition = (getStrategy n).partition := by
  unfold admitStrategy
  simp only [setDefault_partition]
  cases m4 <;> cases n.stratRU.isSome <;> simp

theorem admitStrategy_style (n : Dep) (m4 : Bool) : (admitStrategy n m4).rollingStyle = (getStrategy n).rollingStyle := by
  unfold admitStrategy
  simp only [setDefault_style]
  cases m4 <;> cases n.stratRU.isSome <;> simp

/-! ### the exposure limit along a walk -/

theorem stepAllow_nonneg (rel : Rel) (r : Int) (s : Step) : 0 ≤ stepAllow rel r s := by
  unfold stepAllow
  split
  · split
    · exact Int.le_max_left _ _
    · exact Int.le_refl 0
  · exact Int.le_refl 0

theorem allowedMax_nonneg (rel : Rel) (r : Int) (ss : List Step) : 0 ≤ allowedMax rel r ss := by
  cases ss with
  | nil => exact Int.le_refl 0
  | cons s ss => exact Int.le_trans (stepAllow_nonneg rel r s) (Int.le_max_left _ _)

/-- One step of a walk (the user does not scale): the Deployment is still there, has the same size, and its
    limit is at most what it was or what the step's batch plans. -/
theorem step_limit (c : Cfg) (d : Dep) (r : Int) (s : Step) (o : StepOut)
    (hrep : d.replicas = some r) (hns : s.edit.replicas = none) (h : step c (some d) s = .val o) :
    ∃ d', o.dep = some d' ∧ d'.replicas = some r ∧ limitOf d' ≤ max (limitOf d) (stepAllow c.rel r s) := by
  have hsame : ∀ d', d'.replicas = some r → limitOf d' = limitOf d → o.dep = some d' →
      ∃ d', o.dep = some d' ∧ d'.replicas = some r ∧ limitOf d' ≤ max (limitOf d) (stepAllow c.rel r s) := by
    intro d' h1 h2 h3
    exact ⟨d', h3, h1, by rw [h2]; exact Int.le_max_left _ _⟩
  have hzero : ∀ d', d'.replicas = some r → limitOf d' = 0 → o.dep = some d' →
      ∃ d', o.dep = some d' ∧ d'.replicas = some r ∧ limitOf d' ≤ max (limitOf d) (stepAllow c.rel r s) := by
    intro d' h1 h2 h3
    have := limitOf_nonneg d
    exact ⟨d', h3, h1, by rw [h2]; omega⟩
  by_cases hc : s.call = .submit
  · simp only [step, hc] at h
    cases ha : submit c.world d s.edit with
    | panic => rw [ha] at h; cases h
    | val d' =>
      rw [ha] at h
      simp only [Out.val.injEq] at h
      subst h
      obtain ⟨fa, _⟩ := applyEdit_frame d s.edit
      have hr := applyEdit_replicas d s.edit hns
      have hg : getStrategy (applyEdit d s.edit) = getStrategy d := getStrategy_congr fa
      rcases admit_cases c.world d s.edit d' ha with ⟨_, _, m4, hd'⟩ | ⟨_, _, hd'⟩ | ⟨_, hd' | ⟨sr, hd'⟩⟩
      · apply hsame d' (by rw [hd']; simp only; rw [hr, hrep]) _ rfl
        have hgs : getStrategy d' = admitStrategy (applyEdit d s.edit) m4 := by rw [hd']; rfl
        have : (getStrategy d').partition = (getStrategy d).partition := by
          rw [hgs, admitStrategy_partition, hg]
        have hr' : d'.replicas = d.replicas := by rw [hd']; exact hr
        simp only [limitOf, hr', this]
      · have hga : d'.stratAnno = d.stratAnno := by rw [hd']; split <;> exact fa
        have hr' : d'.replicas = d.replicas := by rw [hd']; split <;> exact hr
        apply hsame d' (by rw [hr', hrep]) _ rfl
        simp only [limitOf, hr', getStrategy_congr hga]
      · have hga : d'.stratAnno = d.stratAnno := by rw [hd']; exact fa
        have hr' : d'.replicas = d.replicas := by rw [hd']; exact hr
        apply hsame d' (by rw [hr', hrep]) _ rfl
        simp only [limitOf, hr', getStrategy_congr hga]
      · have hga : d'.stratAnno = d.stratAnno := by rw [hd']; exact fa
        have hr' : d'.replicas = d.replicas := by rw [hd']; exact hr
        apply hsame d' (by rw [hr', hrep]) _ rfl
        simp only [limitOf, hr', getStrategy_congr hga]
  · rcases ctrl_step_cases c (some d) s o hc h with ⟨_, _, hdep, _⟩ | ⟨_, hd, _⟩ | ⟨d0, r0, hd, hrep0, _, hrest⟩
    · exact hsame d hrep rfl hdep
    · cases hd
    · simp only [Option.some.injEq] at hd; subst hd
      rcases hrest with ⟨_, _, hdep, _⟩ | ⟨d', _, _, _, hdep, _⟩ | ⟨d', hsome, _, _, hdep, _⟩
      · exact hsame d hrep rfl hdep
      · exact hsame d hrep rfl hdep
      · cases hcall : s.call
        · simp only [writeOf, hcall] at hsome
          obtain ⟨_, hd'⟩ := ctrlInitialize_some hsome
          obtain ⟨f1, _, _⟩ := initStrategy_facts d
          have hr' : d'.replicas = some r := by subst hd'; exact hrep
          have hs : getStrategy d' = initStrategy d := by subst hd'; rfl
          exact hzero d' hr' (by simp only [limitOf, hr', hs, f1, limit_int0]) hdep
        · simp only [writeOf, hcall, hrep] at hsome
          cases he : entryOf c.rel s.batch with
          | none => simp [he] at hsome
          | some e =>
            simp only [he] at hsome
            split at hsome
            · cases hsome
            · obtain ⟨_, _, hd'⟩ := ctrlUpgradeBatch_some hsome
              have hp : (getStrategy d').partition = e := by subst hd'; rfl
              have hr' : d'.replicas = some r := by subst hd'; exact hrep
              refine ⟨d', hdep, hr', ?_⟩
              have h1 := limit_le_calc e r
              have h2 : stepAllow c.rel r s = max 0 (calcBatchReplicas r e) := by simp [stepAllow, hcall, he]
              simp only [limitOf, hr', hp, h2]
              omega
        · simp only [writeOf, hcall] at hsome
          obtain ⟨_, hd'⟩ := ctrlFinalize_some hsome
          cases hb : s.bpNil
          · rw [hb] at hd'
            have hr' : d'.replicas = some r := by subst hd'; exact hrep
            have hga : d'.stratAnno = d.stratAnno := by subst hd'; rfl
            apply hsame d' hr' _ hdep
            simp only [limitOf, hr', hrep, getStrategy_congr hga]
          · rw [hb] at hd'
            have hr' : d'.replicas = some r := by subst hd'; exact hrep
            have hs : getStrategy d' = DepStrategy.zero := by subst hd'; rfl
            exact hzero d' hr' (by simp only [limitOf, hr', hs, DepStrategy.zero, limit_int0]) hdep
        · exact absurd hcall hc

/-! ### the round-trip invariant: "the user's `rollingUpdate` block `u` is still recoverable" -/

def Clean (d : Dep) : Prop :=
  d.control = .none ∧ d.ctrlLabel = false ∧ d.extraStatus = false ∧ d.stableRev = ""

/-- where the user's strategy lives -/
inductive Shape (d : Dep) (u : RU) : Prop where
  /-- in `spec.strategy`, nothing parked -/
  | user : d.stratType = "RollingUpdate" → d.stratRU = some u → d.stratAnno = .absent → Shape d u
  /-- parked in the annotation by `Initialize` / the webhook (`spec.strategy.rollingUpdate` may still hold a copy) -/
  | parked (s : DepStrategy) : d.stratType = "Recreate" → d.paused = true → d.stratAnno = .valid s →
      s.rollingStyle = "Partition" → s.ru = some u → (d.stratRU = none ∨ d.stratRU = some u) → Shape d u
  /-- re-submitted by the user into `spec.strategy` while an (older) copy is parked -/
  | resubmitted (s : DepStrategy) : d.stratType = "RollingUpdate" → d.stratRU = some u → d.paused = true →
      d.stratAnno = .valid s → s.rollingStyle = "Partition" → Shape d u

structure Inv (d : Dep) (u : RU) : Prop where
  clean : d.paused = false → Clean d
  shape : Shape d u

theorem clean_of_paused {d : Dep} (h : d.paused = true) : d.paused = false → Clean d := by
  intro hp; rw [h] at hp; cases hp

theorem ruValid_isSome {u : RU} (hu : ruValid u = true) : ∃ a b, u = { maxUnavailable := some a, maxSurge := some b } := by
  obtain ⟨mu, ms⟩ := u
  simp only [ruValid, Bool.and_eq_true] at hu
  obtain ⟨⟨h1, h2⟩, _⟩ := hu
  cases mu with
  | none => simp at h1
  | some a =>
    cases ms with
    | none => simp at h2
    | some b => exact ⟨a, b, rfl⟩

/-- `Initialize` parks the user's block -/
theorem inv_initialize {d d' : Dep} {u : RU} (hu : ruValid u = true) (hi : Inv d u)
    (h : ctrlInitialize d = some d') : Inv d' u := by
  obtain ⟨hund, hd'⟩ := ctrlInitialize_some h
  have hpa : d'.paused = true := by subst hd'; rfl
  refine ⟨clean_of_paused hpa, ?_⟩
  have key : ∀ ru, (match d.stratRU with
        | some r => some r
        | none => (getStrategy d).ru) = some u → d.stratRU = ru → (ru = none ∨ ru = some u) → Shape d' u := by
    intro ru hru h1 h2
    have hs : initStrategy d = { paused := false, partition := int 0, rollingStyle := "Partition", ru := some u } := by
      unfold initStrategy
      rw [hru]
      exact setDefault_valid _ u rfl rfl hu
    subst hd'
    exact Shape.parked _ rfl rfl rfl (by rw [hs]) (by rw [hs]) (by rw [h1]; exact h2)
  rcases hi.shape with ⟨_, h2, _⟩ | ⟨s, _, _, h3, _, h5, h6⟩ | ⟨s, _, h2, _, _, _⟩
  · exact key (some u) (by rw [h2]) h2 (Or.inr rfl)
  · rcases h6 with h6 | h6
    · exact key none (by rw [h6]; simp only [getStrategy, h3]; exact h5) h6 (Or.inl rfl)
    · exact key (some u) (by rw [h6]) h6 (Or.inr rfl)
  · exact key (some u) (by rw [h2]) h2 (Or.inr rfl)

/-- `UpgradeBatch` only moves the partition -/
theorem inv_upgrade {d d' : Dep} {u : RU} {r : Int} {e : IntOrPct} (hi : Inv d u)
    (h : ctrlUpgradeBatch d r e = some d') : Inv d' u := by
  obtain ⟨hund, _, hd'⟩ := ctrlUpgradeBatch_some h
  have hpa : d'.paused = d.paused := by subst hd'; rfl
  have hund' := hund
  simp only [isUnderRolloutControl] at hund'
  split at hund'
  · cases hund'
  · split at hund'
    · cases hund'
    · rename_i hc ht
      have ht' : d.stratType = "Recreate" := by simpa using ht
      refine ⟨clean_of_paused (by rw [hpa]; exact hund'), ?_⟩
      rcases hi.shape with ⟨h1, _, _⟩ | ⟨s, h1, h2, h3, h4, h5, h6⟩ | ⟨s, h1, _⟩
      · rw [ht'] at h1; simp at h1
      · have hg : getStrategy d = s := by simp only [getStrategy, h3]
        subst hd'
        exact Shape.parked { s with partition := e } h1 h2 (by simp only [hg]) h4 h5 h6
      · rw [ht'] at h1; simp at h1

/-- `Finalize` keeps the invariant, and a complete one (`batchPartition = nil`) restores the user's strategy -/
theorem inv_finalize {d d' : Dep} {u : RU} {bpNil : Bool} (hu : ruValid u = true) (hi : Inv d u)
    (h : ctrlFinalize d bpNil = some d') : Inv d' u ∧ (bpNil = true → restored d' u = true) := by
  obtain ⟨hcl, hd'⟩ := ctrlFinalize_some h
  simp only [claimed, Bool.and_eq_true] at hcl
  obtain ⟨_, hpa⟩ := hcl
  cases bpNil
  · -- only the control-info goes
    simp only [finalized, Bool.false_eq_true, if_false] at hd'
    refine ⟨⟨clean_of_paused (by subst hd'; exact hpa), ?_⟩, (by intro hh; cases hh)⟩
    rcases hi.shape with ⟨h1, h2, h3⟩ | ⟨s, h1, h2, h3, h4, h5, h6⟩ | ⟨s, h1, h2, h3, h4, h5⟩
    · subst hd'; exact Shape.user h1 h2 h3
    · subst hd'; exact Shape.parked s h1 h2 h3 h4 h5 h6
    · subst hd'; exact Shape.resubmitted s h1 h2 h3 h4 h5
  · simp only [finalized, if_true] at hd'
    have hshape : d'.stratType = "RollingUpdate" ∧ d'.stratRU = some u := by
      rcases hi.shape with ⟨h1, h2, _⟩ | ⟨s, h1, _, h3, _, h5, h6⟩ | ⟨s, h1, h2, _⟩
      · subst hd'; simp only [h1]; exact ⟨by simp, by simp [h2]⟩
      · have hg : (getStrategy d).ru = some u := by simp only [getStrategy, h3]; exact h5
        subst hd'
        simp only [h1, beq_self_eq_true, if_true, hg, true_and]
        exact mergeRU_full _ u hu h6
      · subst hd'; simp only [h1]; exact ⟨by simp, by simp [h2]⟩
    obtain ⟨t1, t2⟩ := hshape
    have hrest : d'.paused = false ∧ d'.stratAnno = .absent ∧ d'.control = .none ∧ d'.ctrlLabel = false ∧
        d'.extraStatus = false ∧ d'.stableRev = "" := by subst hd'; exact ⟨rfl, rfl, rfl, rfl, rfl, rfl⟩
    obtain ⟨r1, r2, r3, r4, r5, r6⟩ := hrest
    refine ⟨⟨fun _ => ⟨r3, r4, r5, r6⟩, Shape.user t1 t2 r2⟩, fun _ => ?_⟩
    simp [restored, t1, t2, r1, r2, r3, r4, r5, r6]

/-- a user edit (new template / size / re-submitted RollingUpdate strategy) keeps the invariant for the block
    the user submitted last -/
theorem inv_applyEdit {d : Dep} {u : RU} {e : Edit} (hu : ruValid u = true) (hi : Inv d u) (he : editOK e = true) :
    Inv (applyEdit d e) (editRU u e) ∧ ruValid (editRU u e) = true := by
  obtain ⟨fa, _, fc, fl, fe, fs, _⟩ := applyEdit_frame d e
  simp only [editOK, Bool.and_eq_true] at he
  obtain ⟨hp, hst⟩ := he
  have hpn : e.paused = none := by cases h : e.paused <;> simp_all
  have fp := applyEdit_paused d e hpn
  have hclean : (applyEdit d e).paused = false → Clean (applyEdit d e) := by
    intro h; rw [fp] at h
    obtain ⟨c1, c2, c3, c4⟩ := hi.clean h
    exact ⟨by rw [fc, c1], by rw [fl, c2], by rw [fe, c3], by rw [fs, c4]⟩
  cases hs : e.strat with
  | none =>
    obtain ⟨ft, fr⟩ := applyEdit_strat_none d e hs
    have : editRU u e = u := by simp [editRU, hs]
    rw [this]
    refine ⟨⟨hclean, ?_⟩, hu⟩
    rcases hi.shape with ⟨h1, h2, h3⟩ | ⟨s, h1, h2, h3, h4, h5, h6⟩ | ⟨s, h1, h2, h3, h4, h5⟩
    · exact Shape.user (by rw [ft, h1]) (by rw [fr, h2]) (by rw [fa, h3])
    · exact Shape.parked s (by rw [ft, h1]) (by rw [fp, h2]) (by rw [fa, h3]) h4 h5 (by rw [fr]; exact h6)
    · exact Shape.resubmitted s (by rw [ft, h1]) (by rw [fr, h2]) (by rw [fp, h3]) (by rw [fa, h4]) h5
  | some tr =>
    obtain ⟨t, ru⟩ := tr
    rw [hs] at hst
    cases ru with
    | none => simp at hst
    | some u' =>
      simp only [Bool.and_eq_true, beq_iff_eq] at hst
      obtain ⟨ht, hu'⟩ := hst
      subst ht
      obtain ⟨ft, fr⟩ := applyEdit_strat_some d e _ _ hs
      have : editRU u e = u' := by simp [editRU, hs]
      rw [this]
      refine ⟨⟨hclean, ?_⟩, hu'⟩
      rcases hi.shape with ⟨_, _, h3⟩ | ⟨s, _, h2, h3, h4, _, _⟩ | ⟨s, _, _, h3, h4, h5⟩
      · exact Shape.user ft fr (by rw [fa, h3])
      · exact Shape.resubmitted s ft fr (by rw [fp, h2]) (by rw [fa, h3]) h4
      · exact Shape.resubmitted s ft fr (by rw [fp, h3]) (by rw [fa, h4]) h5

/-- the webhook keeps the invariant (old object `d`, submitted object `n`) -/
theorem inv_webhook {w : World} {d n d' : Dep} {u : RU} {e : Edit} (hn : n = applyEdit d e)
    (hu : ruValid u = true) (hi : Inv n u) (h : submit w d e = .val d') : Inv d' u := by
  subst hn
  rcases admit_cases w d e d' h with ⟨_, hps, m4, hd'⟩ | ⟨_, hps, hd'⟩ | ⟨_, hd' | ⟨sr, hd'⟩⟩
  · -- partition-style in-progress branch: the block moves into the annotation
    have hpa : d'.paused = true := by rw [hd']
    refine ⟨clean_of_paused hpa, ?_⟩
    have key : ∀ s, (applyEdit d e).stratAnno = .valid s → s.rollingStyle = "Partition" →
        (if (applyEdit d e).stratRU.isSome then (applyEdit d e).stratRU else s.ru) = some u →
        ((if ((applyEdit d e).stratType == "RollingUpdate") = true then "Recreate" else (applyEdit d e).stratType) = "Recreate") →
        Shape d' u := by
      intro s h3 h4 hru ht
      have hg : getStrategy (applyEdit d e) = s := by simp only [getStrategy, h3]
      have hs : admitStrategy (applyEdit d e) m4 =
          (if m4 then { (if (applyEdit d e).stratRU.isSome then { s with ru := (applyEdit d e).stratRU } else s) with paused := true }
           else (if (applyEdit d e).stratRU.isSome then { s with ru := (applyEdit d e).stratRU } else s)) := by
        unfold admitStrategy
        rw [hg]
        apply setDefault_valid _ u
        · cases m4 <;> cases (applyEdit d e).stratRU.isSome <;> simp [h4]
        · cases m4 <;> cases hh : (applyEdit d e).stratRU.isSome <;> simp_all
        · exact hu
      rw [hd']
      refine Shape.parked _ ht rfl rfl ?_ ?_ (Or.inl rfl)
      · rw [hs]; cases m4 <;> cases (applyEdit d e).stratRU.isSome <;> simp [h4]
      · rw [hs]; cases m4 <;> cases hh : (applyEdit d e).stratRU.isSome <;> simp_all
    rcases hi.shape with ⟨_, _, h3⟩ | ⟨s, h1, _, h3, h4, h5, h6⟩ | ⟨s, h1, h2, _, h4, h5⟩
    · exfalso
      have : getStrategy (applyEdit d e) = DepStrategy.zero := by simp only [getStrategy, h3]
      rw [this, isPartitionStyle_zero] at hps; cases hps
    · apply key s h3 h4
      · rcases h6 with h6 | h6 <;> simp [h6, h5]
      · simp [h1]
    · apply key s h4 h5
      · simp [h2]
      · simp [h1]
  · -- other in-progress branch: only possible when nothing is parked
    rcases hi.shape with ⟨h1, h2, h3⟩ | ⟨s, _, _, h3, h4, _, _⟩ | ⟨s, _, _, _, h4, h5⟩
    · have hne : ((applyEdit d e).stratType == "Recreate") = false := by rw [h1]; decide
      simp only [hne, Bool.false_eq_true, if_false] at hd'
      have hpa : d'.paused = true := by rw [hd']
      refine ⟨clean_of_paused hpa, ?_⟩
      rw [hd']
      exact Shape.user h1 h2 h3
    · exfalso
      have : getStrategy (applyEdit d e) = s := by simp only [getStrategy, h3]
      rw [this, isPartitionStyle_Partition s h4] at hps; cases hps
    · exfalso
      have : getStrategy (applyEdit d e) = s := by simp only [getStrategy, h4]
      rw [this, isPartitionStyle_Partition s h5] at hps; cases hps
  · rw [hd']; exact hi
  · have hpa : d'.paused = true := by rw [hd']
    refine ⟨clean_of_paused hpa, ?_⟩
    rw [hd']
    rcases hi.shape with ⟨h1, h2, h3⟩ | ⟨s, h1, h2, h3, h4, h5, h6⟩ | ⟨s, h1, h2, h3, h4, h5⟩
    · exact Shape.user h1 h2 h3
    · exact Shape.parked s h1 rfl h3 h4 h5 h6
    · exact Shape.resubmitted s h1 h2 rfl h4 h5

end RV.CtlPDeploy
