import RV.Oracle.CtlPDeploy
import RV.Lemmas.BatchCtx
/-! Helper lemmas for the partition-style Deployment control plane. -/
namespace RV.CtlPDeploy
open RV.Arith IntOrPct RV.Webhook RV.Oracle.CtlPDeploy

/-! ### arithmetic -/

theorem limit_int0 (r : Int) : newRSReplicasLimit (int 0) r = 0 := by
  simp only [newRSReplicasLimit, scaledV, scaled]; omega

theorem limit_nonneg (p : IntOrPct) (r : Int) : 0 ≤ newRSReplicasLimit p r := by
  unfold newRSReplicasLimit
  simp only []
  repeat' split
  all_goals omega

/-- `NewRSReplicasLimit e` never exceeds what `CalculateBatchReplicas e` plans (any size, also a corrupt negative one) -/
theorem limit_le_calc (e : IntOrPct) (r : Int) : newRSReplicasLimit e r ≤ max 0 (calcBatchReplicas r e) := by
  unfold newRSReplicasLimit calcBatchReplicas
  simp only []
  repeat' split
  all_goals omega

theorem limitOf_nonneg (d : Dep) : 0 ≤ limitOf d := by
  unfold limitOf
  split
  · exact limit_nonneg _ _
  · exact Int.le_refl 0

theorem sameButAnno_self (d : Dep) : sameButAnno d d = true := by
  cases d; simp [sameButAnno]

/-! ### strategy helpers -/

theorem isPartitionStyle_Partition (s : DepStrategy) (h : s.rollingStyle = "Partition") : isPartitionStyle s = true := by
  unfold isPartitionStyle; rw [h]; decide +kernel

theorem isPartitionStyle_zero : isPartitionStyle DepStrategy.zero = false := by
  unfold isPartitionStyle DepStrategy.zero; decide +kernel

theorem setDefault_partition (s : DepStrategy) : (setDefaultDeploymentStrategy s).partition = s.partition := by
  unfold setDefaultDeploymentStrategy
  split
  · rfl
  · rw [apply_ite DepStrategy.partition]; exact ite_self _

theorem setDefault_style (s : DepStrategy) : (setDefaultDeploymentStrategy s).rollingStyle = s.rollingStyle := by
  unfold setDefaultDeploymentStrategy
  split
  · rfl
  · rw [apply_ite DepStrategy.rollingStyle]; exact ite_self _

theorem setDefault_paused (s : DepStrategy) : (setDefaultDeploymentStrategy s).paused = s.paused := by
  unfold setDefaultDeploymentStrategy
  split
  · rfl
  · rw [apply_ite DepStrategy.paused]; exact ite_self _

/-- a complete, non-zero `rollingUpdate` block passes `SetDefaultDeploymentStrategy` unchanged -/
theorem setDefault_valid (s : DepStrategy) (u : RU) (hs : s.rollingStyle = "Partition") (hr : s.ru = some u)
    (hu : ruValid u = true) : setDefaultDeploymentStrategy s = s := by
  obtain ⟨mu, ms⟩ := u
  simp only [ruValid, Bool.and_eq_true, Bool.not_eq_true'] at hu
  obtain ⟨⟨h1, h2⟩, h3⟩ := hu
  cases mu with
  | none => simp at h1
  | some a =>
    cases ms with
    | none => simp at h2
    | some b =>
      obtain ⟨st, ru, pa, pt⟩ := s
      simp only at hs hr
      subst hs hr
      simp only [setDefaultDeploymentStrategy, bne_self_eq_false, Bool.false_eq_true, if_false,
        Option.isNone_some, h3]

theorem mergeRU_full (cur : Option RU) (u : RU) (hu : ruValid u = true) (hc : cur = none ∨ cur = some u) :
    mergeRU cur (some u) = some u := by
  obtain ⟨mu, ms⟩ := u
  simp only [ruValid, Bool.and_eq_true] at hu
  obtain ⟨⟨h1, h2⟩, _⟩ := hu
  cases mu with
  | none => simp at h1
  | some a =>
    cases ms with
    | none => simp at h2
    | some b => rcases hc with hc | hc <;> subst hc <;> rfl

/-! ### the shape of a controller step -/

/-- what the controller call of step `s` would write on Deployment `d0` (`none`: nothing) -/
def writeOf (rel : Rel) (s : Step) (d0 : Dep) : Option Dep :=
  match s.call with
  | .initialize => ctrlInitialize d0
  | .upgradeBatch =>
    match d0.replicas, entryOf rel s.batch with
    | some r, some e => if r = 0 then none else ctrlUpgradeBatch d0 r e
    | _, _ => none
  | .finalize => ctrlFinalize d0 s.bpNil
  | .admit => none

theorem commit_cases (d : Dep) (w : Option Dep) (f : Fault) (obs : Option InitObs) :
    (w = none ∧ commit d w f obs = { res := .ok, dep := some d, writes := 0, obs := obs }) ∨
    (∃ d', w = some d' ∧ f = .write ∧ commit d w f obs = { res := .err, dep := some d, writes := 1, obs := none }) ∨
    (∃ d', w = some d' ∧ f ≠ .write ∧ commit d w f obs = { res := .ok, dep := some d', writes := 1, obs := obs }) := by
  cases w with
  | none => left; exact ⟨rfl, rfl⟩
  | some d' =>
    right
    by_cases hf : f = .write
    · left; exact ⟨d', rfl, hf, by simp [commit, hf]⟩
    · right; exact ⟨d', rfl, hf, by simp [commit, hf]⟩

/-- The five things a controller call can do. -/
theorem ctrl_step_cases (c : Cfg) (d : Option Dep) (s : Step) (o : StepOut)
    (hc : s.call ≠ .admit) (h : step c d s = .val o) :
    (s.fault = .get ∧ o.res = .err ∧ o.dep = d ∧ o.writes = 0) ∨
    (s.fault ≠ .get ∧ d = none ∧ o.dep = none ∧ o.writes = 0 ∧ (o.res = .ok ↔ s.call = .finalize)) ∨
    (∃ d0 r, d = some d0 ∧ d0.replicas = some r ∧ s.fault ≠ .get ∧
      ((writeOf c.rel s d0 = none ∧ o.res = .ok ∧ o.dep = some d0 ∧ o.writes = 0) ∨
       (∃ d', writeOf c.rel s d0 = some d' ∧ s.fault = .write ∧ o.res = .err ∧ o.dep = some d0 ∧ o.writes = 1) ∨
       (∃ d', writeOf c.rel s d0 = some d' ∧ s.fault = .none ∧ o.res = .ok ∧ o.dep = some d' ∧ o.writes = 1))) := by
  by_cases hg : s.fault = .get
  · left
    cases hcall : s.call <;> simp only [step, hcall, planeInitialize, planeUpgradeBatch, planeFinalize, build, hg, if_true] at h
    · cases h; exact ⟨hg, rfl, rfl, rfl⟩
    · cases h; exact ⟨hg, rfl, rfl, rfl⟩
    · cases h; exact ⟨hg, rfl, rfl, rfl⟩
    · exact absurd hcall hc
  · right
    cases d with
    | none =>
      left
      cases hcall : s.call <;> simp only [step, hcall, planeInitialize, planeUpgradeBatch, planeFinalize, build, hg, if_false] at h
      · cases h; exact ⟨hg, rfl, rfl, rfl, by simp⟩
      · cases h; exact ⟨hg, rfl, rfl, rfl, by simp⟩
      · cases h; exact ⟨hg, rfl, rfl, rfl, by simp⟩
      · exact absurd hcall hc
    | some d0 =>
      right
      have hfn : s.fault ≠ .write → s.fault = .none := by
        intro hw; cases hs : s.fault <;> simp_all
      cases hr : d0.replicas with
      | none =>
        cases hcall : s.call <;> simp only [step, hcall, planeInitialize, planeUpgradeBatch, planeFinalize, build, hg, if_false, hr] at h
        all_goals first | cases h | exact absurd hcall hc
      | some r =>
        refine ⟨d0, r, rfl, hr, hg, ?_⟩
        cases hcall : s.call
        · -- initialize
          simp only [step, hcall, planeInitialize, build, hg, if_false, hr, Out.val.injEq] at h
          have hw : writeOf c.rel s d0 = ctrlInitialize d0 := by simp [writeOf, hcall]
          rw [hw]
          rcases commit_cases d0 (ctrlInitialize d0) s.fault
              (some { observedReplicas := r, stableRevision := d0.stableRev, noNeedUpdate := noNeedUpdate c.rel })
            with ⟨h1, h2⟩ | ⟨d', h1, h2, h3⟩ | ⟨d', h1, h2, h3⟩
          · left; rw [h2] at h; subst h; exact ⟨h1, rfl, rfl, rfl⟩
          · right; left; rw [h3] at h; subst h; exact ⟨d', h1, h2, rfl, rfl, rfl⟩
          · right; right; rw [h3] at h; subst h; exact ⟨d', h1, hfn h2, rfl, rfl, rfl⟩
        · -- upgradeBatch
          simp only [step, hcall, planeUpgradeBatch, build, hg, if_false, hr] at h
          by_cases hr0 : r = 0
          · left
            simp only [hr0, if_true, Out.val.injEq] at h
            subst h
            refine ⟨?_, rfl, rfl, rfl⟩
            simp only [writeOf, hcall, hr, hr0]
            split <;> simp_all
          · simp only [hr0, if_false] at h
            by_cases hb : s.batch < 0
            · simp only [hb, if_true] at h; cases h
            · simp only [hb, if_false] at h
              cases he : c.rel.batches[s.batch.toNat]? with
              | none => simp only [he] at h; cases h
              | some e =>
                simp only [he, Out.val.injEq] at h
                have hw : writeOf c.rel s d0 = ctrlUpgradeBatch d0 r e := by
                  simp [writeOf, hcall, hr, entryOf, hb, he, hr0]
                rw [hw]
                rcases commit_cases d0 (ctrlUpgradeBatch d0 r e) s.fault none
                  with ⟨h1, h2⟩ | ⟨d', h1, h2, h3⟩ | ⟨d', h1, h2, h3⟩
                · left; rw [h2] at h; subst h; exact ⟨h1, rfl, rfl, rfl⟩
                · right; left; rw [h3] at h; subst h; exact ⟨d', h1, h2, rfl, rfl, rfl⟩
                · right; right; rw [h3] at h; subst h; exact ⟨d', h1, hfn h2, rfl, rfl, rfl⟩
        · -- finalize
          simp only [step, hcall, planeFinalize, build, hg, if_false, hr, Out.val.injEq] at h
          have hw : writeOf c.rel s d0 = ctrlFinalize d0 s.bpNil := by simp [writeOf, hcall]
          rw [hw]
          rcases commit_cases d0 (ctrlFinalize d0 s.bpNil) s.fault none
            with ⟨h1, h2⟩ | ⟨d', h1, h2, h3⟩ | ⟨d', h1, h2, h3⟩
          · left; rw [h2] at h; subst h; exact ⟨h1, rfl, rfl, rfl⟩
          · right; left; rw [h3] at h; subst h; exact ⟨d', h1, h2, rfl, rfl, rfl⟩
          · right; right; rw [h3] at h; subst h; exact ⟨d', h1, hfn h2, rfl, rfl, rfl⟩
        · exact absurd hcall hc

/-! ### what each controller call writes -/

/-- the strategy `Initialize` writes -/
def initStrategy (d : Dep) : DepStrategy :=
  setDefaultDeploymentStrategy
    { paused := false, partition := int 0, rollingStyle := "Partition",
      ru := match d.stratRU with
            | some r => some r
            | none => (getStrategy d).ru }

theorem ctrlInitialize_some {d d' : Dep} (h : ctrlInitialize d = some d') :
    isUnderRolloutControl d = false ∧
    d' = { d with ctrlLabel := true, stratAnno := .valid (initStrategy d), control := .this,
                  paused := true, stratType := "Recreate" } := by
  unfold ctrlInitialize at h
  split at h
  · cases h
  · rename_i hu
    simp only [Option.some.injEq] at h
    exact ⟨by simpa using hu, h.symm⟩

theorem ctrlInitialize_none {d : Dep} (h : ctrlInitialize d = none) : isUnderRolloutControl d = true := by
  unfold ctrlInitialize at h
  split at h
  · assumption
  · cases h

theorem initStrategy_facts (d : Dep) :
    (initStrategy d).partition = int 0 ∧ (initStrategy d).rollingStyle = "Partition" ∧ (initStrategy d).paused = false := by
  unfold initStrategy
  exact ⟨by rw [setDefault_partition], by rw [setDefault_style], by rw [setDefault_paused]⟩

theorem ctrlUpgradeBatch_some {d d' : Dep} {r : Int} {e : IntOrPct} (h : ctrlUpgradeBatch d r e = some d') :
    isUnderRolloutControl d = true ∧
    newRSReplicasLimit (getStrategy d).partition r < newRSReplicasLimit e r ∧
    d' = { d with stratAnno := .valid { getStrategy d with partition := e } } := by
  unfold ctrlUpgradeBatch at h
  split at h
  · cases h
  · rename_i hu
    simp only at h
    split at h
    · cases h
    · rename_i hlt
      simp only [Option.some.injEq] at h
      exact ⟨by simpa using hu, by omega, h.symm⟩

theorem ctrlUpgradeBatch_none {d : Dep} {r : Int} {e : IntOrPct} (h : ctrlUpgradeBatch d r e = none) :
    isUnderRolloutControl d = false ∨ newRSReplicasLimit e r ≤ newRSReplicasLimit (getStrategy d).partition r := by
  unfold ctrlUpgradeBatch at h
  split at h
  · rename_i hu; left; simpa using hu
  · simp only at h
    split at h
    · rename_i hge; right; omega
    · cases h

/-- the Deployment `Finalize` produces when it acts -/
def finalized (d : Dep) (bpNil : Bool) : Dep :=
  if bpNil then
    { d with paused := false,
             stratType := if d.stratType == "Recreate" then "RollingUpdate" else d.stratType,
             stratRU := if d.stratType == "Recreate" then mergeRU d.stratRU (getStrategy d).ru else d.stratRU,
             stratAnno := .absent, extraStatus := false, stableRev := "", ctrlLabel := false, control := .none }
  else { d with control := .none }

theorem ctrlFinalize_some {d d' : Dep} {bpNil : Bool} (h : ctrlFinalize d bpNil = some d') :
    claimed d = true ∧ d' = finalized d bpNil := by
  unfold ctrlFinalize at h
  simp only at h
  split at h
  · cases h
  · rename_i hu
    simp only [Option.some.injEq] at h
    refine ⟨by simpa [claimed] using hu, ?_⟩
    subst h
    unfold finalized
    cases bpNil
    · rfl
    · simp only [if_true]
      by_cases ht : (d.stratType == "Recreate") = true
      · simp only [ht, if_true]
      · simp only [ht, if_false]
        simp only [Bool.false_eq_true, if_false]

theorem ctrlFinalize_none {d : Dep} {bpNil : Bool} (h : ctrlFinalize d bpNil = none) : claimed d = false := by
  unfold ctrlFinalize at h
  simp only at h
  split at h
  · rename_i hu
    simp only [Bool.not_eq_true', Bool.and_eq_false_iff, bne_eq_false_iff_eq] at hu
    simp only [claimed, Bool.and_eq_false_iff, bne_eq_false_iff_eq]
    exact hu
  · cases h

end RV.CtlPDeploy
