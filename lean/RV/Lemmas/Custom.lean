/-
  Helper lemmas for C15 (custom Lua network provider).  Core Lean only.
-/
import RV.Model.Custom
import RV.Oracle.C15
namespace RV.Custom
open RV.Oracle.C15

/-! ## association lists -/

theorem lookup_setKey_self {α} (k : String) (v : α) (l : List (String × α)) :
    lookup k (setKey k v l) = some v := by
  induction l with
  | nil => simp [setKey, lookup]
  | cons p r ih =>
    obtain ⟨k', v'⟩ := p
    by_cases h : k' = k
    · simp [setKey, lookup, h]
    · simp [setKey, lookup, h, ih]

theorem lookup_setKey_ne {α} {k k' : String} (v : α) (l : List (String × α)) (h : k' ≠ k) :
    lookup k' (setKey k v l) = lookup k' l := by
  induction l with
  | nil => simp [setKey, lookup, Ne.symm h]
  | cons p r ih =>
    obtain ⟨k'', v''⟩ := p
    by_cases h2 : k'' = k
    · subst h2
      simp [setKey, lookup, Ne.symm h]
    · by_cases h3 : k'' = k'
      · subst h3
        simp [setKey, lookup, h2]
      · simp [setKey, lookup, h2, h3, ih]

theorem eraseKey_of_lookup_none {α} {k : String} {l : List (String × α)} (h : lookup k l = none) :
    eraseKey k l = l := by
  induction l with
  | nil => rfl
  | cons p r ih =>
    obtain ⟨k', v'⟩ := p
    by_cases h2 : k' = k
    · simp [lookup, h2] at h
    · simp [lookup, h2] at h
      simp [eraseKey, h2, ih h]

theorem eraseKey_setKey {α} (k : String) (v : α) (l : List (String × α)) :
    eraseKey k (setKey k v l) = eraseKey k l := by
  induction l with
  | nil => simp [setKey, eraseKey]
  | cons p r ih =>
    obtain ⟨k', v'⟩ := p
    by_cases h : k' = k
    · simp [setKey, eraseKey, h]
    · simp [setKey, eraseKey, h, ih]

theorem lookup_eraseKey_ne {α} {k k' : String} (l : List (String × α)) (h : k' ≠ k) :
    lookup k' (eraseKey k l) = lookup k' l := by
  induction l with
  | nil => rfl
  | cons p r ih =>
    obtain ⟨k'', v''⟩ := p
    by_cases h2 : k'' = k
    · subst h2
      simp [eraseKey, lookup, Ne.symm h, ih]
    · by_cases h3 : k'' = k'
      · subst h3
        simp [eraseKey, lookup, h2]
      · simp [eraseKey, lookup, h2, h3, ih]

theorem mapsDeepEq_refl (a : Option StrMap) : mapsDeepEq a a = true := by
  cases a <;> simp [mapsDeepEq]

theorem optOfList_getD {α} (o : Option (List α)) : optOfList (o.getD []) = o.bind optOfList := by
  cases o with
  | none => rfl
  | some l => cases l <;> rfl

/-! ## pointwise relation between two lists -/

inductive All2 {α β} (R : α → β → Prop) : List α → List β → Prop
  | nil : All2 R [] []
  | cons {a b as bs} : R a b → All2 R as bs → All2 R (a :: as) (b :: bs)

theorem All2.map_right {α β γ} {R : α → β → Prop} {S : α → γ → Prop} {g : β → γ}
    {l : List α} {m : List β} (h : All2 R l m) (hg : ∀ a b, R a b → S a (g b)) :
    All2 S l (m.map g) := by
  induction h with
  | nil => exact .nil
  | cons hab _ ih => exact .cons (hg _ _ hab) ih

theorem All2.refl_of {α} {R : α → α → Prop} (l : List α) (h : ∀ a, a ∈ l → R a a) : All2 R l l := by
  induction l with
  | nil => exact .nil
  | cons a r ih =>
    exact .cons (h a (by simp)) (ih fun b hb => h b (by simp [hb]))

theorem All2.imp {α β} {R S : α → β → Prop} {l : List α} {m : List β}
    (h : All2 R l m) (hRS : ∀ a b, R a b → S a b) : All2 S l m := by
  induction h with
  | nil => exact .nil
  | cons hab _ ih => exact .cons (hRS _ _ hab) ih

theorem All2.map_eq {α β γ} {R : α → β → Prop} {f : α → γ} {g : β → γ}
    {l : List α} {m : List β} (h : All2 R l m) (hfg : ∀ a b, R a b → g b = f a) :
    m.map g = l.map f := by
  induction h with
  | nil => rfl
  | cons hab _ ih => simp [hfg _ _ hab, ih]

/-! ## the provider on lists whose objects all exist -/

abbrev PRef := Option Script × Obj

def mkRef (p : PRef) : Ref := ⟨p.1, some p.2⟩

theorem getAll_map_mkRef (l : List PRef) : getAll (l.map mkRef) = some l := by
  induction l with
  | nil => rfl
  | cons p r ih =>
    obtain ⟨f, o⟩ := p
    simp only [List.map_cons, getAll, mkRef] at *
    rw [ih]

/-- a `Get` fails: nothing is read further, nothing is written. -/
theorem ensureRoutes_missing (c : Codec) (s : Strategy) (st : List Ref)
    (h : ∃ r, r ∈ st ∧ r.obj = none) : ensureRoutes c s st = (st, .err) := by
  have : getAll st = none := by
    induction st with
    | nil => obtain ⟨r, hr, _⟩ := h; simp at hr
    | cons a rest ih =>
      obtain ⟨r, hr, hnone⟩ := h
      cases ha : a.obj with
      | none => simp [getAll, ha]
      | some o =>
        have : r ∈ rest := by
          rcases List.mem_cons.mp hr with h1 | h1
          · subst h1; simp [ha] at hnone
          · exact h1
        simp [getAll, ha, ih ⟨r, this, hnone⟩]
  simp [ensureRoutes, this]

/-- the plan of one reference after the store step. -/
def planOf (c : Codec) (s : Strategy) (p : PRef) : Option Data := plan c s p.1 (storeIfAbsent c p.2)

/-- every script execution of this call succeeds. -/
def allPlanOK (c : Codec) (s : Strategy) (l : List PRef) : Bool := l.all fun p => (planOf c s p).isSome

/-- one reference through one EnsureRoutes call; `ok` = every plan of the call succeeded. -/
def stepOne (c : Codec) (s : Strategy) (ok : Bool) (p : PRef) : PRef × Bool :=
  let o1 := storeIfAbsent c p.2
  if ok then
    match plan c s p.1 o1 with
    | some d => ((p.1, (compareAndUpdate d o1).1), (compareAndUpdate d o1).2)
    | none => ((p.1, o1), false)
  else ((p.1, o1), false)

theorem planAll_isSome (c : Codec) (s : Strategy) (l : List PRef) :
    (planAll c s l).isSome = l.all fun p => (plan c s p.1 p.2).isSome := by
  induction l with
  | nil => simp [planAll]
  | cons p r ih =>
    obtain ⟨f, o⟩ := p
    cases hp : plan c s f o with
    | none => simp [planAll, hp]
    | some d =>
      cases hr : planAll c s r with
      | none => rw [hr] at ih; simp [planAll, hp, hr, ← ih]
      | some ds => rw [hr] at ih; simp [planAll, hp, hr, ← ih]

theorem applyAll_of_planAll (c : Codec) (s : Strategy) (l : List PRef) (ds : List Data)
    (h : planAll c s l = some ds) :
    applyAll ds l = l.map fun p =>
      match plan c s p.1 p.2 with
      | some d => (⟨p.1, some (compareAndUpdate d p.2).1⟩, (compareAndUpdate d p.2).2)
      | none => (⟨p.1, some p.2⟩, false) := by
  induction l generalizing ds with
  | nil => simp [planAll] at h; subst h; rfl
  | cons p r ih =>
    obtain ⟨f, o⟩ := p
    cases hp : plan c s f o with
    | none => simp [planAll, hp] at h
    | some d =>
      cases hr : planAll c s r with
      | none => simp [planAll, hp, hr] at h
      | some ds' =>
        simp [planAll, hp, hr] at h
        subst h
        simp [applyAll, hp, ih ds' hr]

/-- **characterisation of EnsureRoutes** when every object exists: a pointwise map, the only
    coupling between references is the flag "every script succeeded". -/
theorem ensureRoutes_present (c : Codec) (s : Strategy) (l : List PRef) :
    ensureRoutes c s (l.map mkRef) =
      ((l.map fun p => mkRef (stepOne c s (allPlanOK c s l) p).1),
       if allPlanOK c s l then .ok (l.all fun p => !(stepOne c s true p).2) else .err) := by
  simp only [ensureRoutes, getAll_map_mkRef]
  have hstored : (l.map fun x => match x with | (f, o) => (f, storeIfAbsent c o))
      = l.map fun p => (p.1, storeIfAbsent c p.2) := by
    apply List.map_congr_left; intro p _; rfl
  rw [hstored]
  have hsome := planAll_isSome c s (l.map fun p => (p.1, storeIfAbsent c p.2))
  have hokeq : allPlanOK c s l = (planAll c s (l.map fun p => (p.1, storeIfAbsent c p.2))).isSome := by
    rw [hsome]; simp [allPlanOK, planOf, List.all_map, Function.comp_def]
  cases hpl : planAll c s (l.map fun p => (p.1, storeIfAbsent c p.2)) with
  | none =>
    have hok : allPlanOK c s l = false := by rw [hokeq, hpl]; rfl
    simp [hok, stepOne, mkRef, List.map_map, Function.comp_def]
  | some ds =>
    have hok : allPlanOK c s l = true := by rw [hokeq, hpl]; rfl
    have happ := applyAll_of_planAll c s _ ds hpl
    simp only [hok, if_true, happ, List.map_map, Function.comp_def]
    apply Prod.ext
    · apply List.map_congr_left
      intro p _
      simp only [stepOne, if_true]
      cases plan c s p.1 (storeIfAbsent c p.2) <;> rfl
    · simp only [List.all_map, Function.comp_def]
      congr 1
      apply List.all_congr rfl
      intro p
      simp only [stepOne, if_true]
      cases plan c s p.1 (storeIfAbsent c p.2) <;> rfl

theorem getAll_some {st : List Ref} {l : List PRef} (h : getAll st = some l) : st = l.map mkRef := by
  induction st generalizing l with
  | nil => simp [getAll] at h; subst h; rfl
  | cons r rs ih =>
    obtain ⟨f, o⟩ := r
    cases o with
    | none => simp [getAll] at h
    | some o =>
      cases hr : getAll rs with
      | none => simp [getAll, hr] at h
      | some l' =>
        simp [getAll, hr] at h
        subst h
        simp [mkRef, ← ih hr]

/-! ## one object -/

/-- `x` carries the original configuration of `o0` in its annotation. -/
def Tracked (c : Codec) (o0 x : Obj) : Prop :=
  lookup origKey (x.annotations.getD []) = some (c.enc (dataOf o0))

theorem origOf_of_tracked {c : Codec} {o0 x : Obj} (h : Tracked c o0 x) : origOf x = c.enc (dataOf o0) := by
  unfold Tracked at h
  simp [origOf, h]

theorem storeIfAbsent_tracked {c : Codec} {o0 : Obj} (hc : c.LawfulOn (dataOf o0)) (h : noOrig o0 = true) :
    Tracked c o0 (storeIfAbsent c o0) := by
  have hl : lookup origKey (o0.annotations.getD []) = none := by
    simpa [noOrig, Option.isNone_iff_eq_none] using h
  have hne : ¬ ("" = c.enc (dataOf o0)) := fun e => hc.2 e.symm
  simp [storeIfAbsent, hl, storeObject, origOf, hne, Tracked, lookup_setKey_self]

theorem storeIfAbsent_of_bound {c : Codec} {x : Obj} {v : String}
    (h : lookup origKey (x.annotations.getD []) = some v) : storeIfAbsent c x = x := by
  simp [storeIfAbsent, h]

/-- the two outcomes of `compareAndUpdateObject`. -/
theorem compareAndUpdate_cases (d : Data) (x : Obj) :
    ((canonJ (x.spec.getD .null) = canonJ d.spec
        ∧ mapsDeepEq x.annotations (some (setKey origKey (origOf x) d.annotations)) = true
        ∧ mapsDeepEq x.labels (optOfList d.labels) = true) ∧ compareAndUpdate d x = (x, false))
    ∨ compareAndUpdate d x = (written (origOf x) d, true) := by
  by_cases h : canonJ (x.spec.getD .null) = canonJ d.spec
      ∧ mapsDeepEq x.annotations (some (setKey origKey (origOf x) d.annotations)) = true
      ∧ mapsDeepEq x.labels (optOfList d.labels) = true
  · exact .inl ⟨h, by simp [compareAndUpdate, h]⟩
  · exact .inr (by simp [compareAndUpdate, h, written])

theorem origOf_compareAndUpdate (d : Data) (x : Obj) : origOf (compareAndUpdate d x).1 = origOf x := by
  rcases compareAndUpdate_cases d x with ⟨_, h⟩ | h <;> rw [h]
  simp [origOf, written, lookup_setKey_self]

theorem compareAndUpdate_bound (d : Data) (x : Obj) {v : String}
    (h : lookup origKey (x.annotations.getD []) = some v) :
    lookup origKey ((compareAndUpdate d x).1.annotations.getD []) = some v := by
  rcases compareAndUpdate_cases d x with ⟨_, h2⟩ | h2 <;> rw [h2]
  · exact h
  · simp [origOf, written, h, lookup_setKey_self]

theorem compareAndUpdate_tracked {c : Codec} {o0 x : Obj} (d : Data) (h : Tracked c o0 x) :
    Tracked c o0 (compareAndUpdate d x).1 := compareAndUpdate_bound d x h

theorem plan_of_tracked {c : Codec} {o0 x : Obj} (hc : c.LawfulOn (dataOf o0)) (s : Strategy) (f : Option Script)
    (h : Tracked c o0 x) :
    plan c s f x = match f with
      | none => none
      | some f => f (dataOf o0) s := by
  have ho := origOf_of_tracked h
  cases f <;> simp [plan, ho, hc.1, hc.2]

/-- whatever `compareAndUpdateObject` does, afterwards the object carries the script result `d`. -/
theorem compareAndUpdate_eqv (d : Data) (x : Obj) :
    objEqv (compareAndUpdate d x).1 (written (origOf x) d) = true := by
  rcases compareAndUpdate_cases d x with ⟨h, h2⟩ | h2 <;> rw [h2]
  · simp [objEqv, written, h.1, h.2.1, h.2.2]
  · simp [objEqv, mapsDeepEq_refl]

theorem compareAndUpdate_idem (d : Data) (x : Obj) :
    compareAndUpdate d (compareAndUpdate d x).1 = ((compareAndUpdate d x).1, false) := by
  by_cases h : canonJ (x.spec.getD .null) = canonJ d.spec
      ∧ mapsDeepEq x.annotations (some (setKey origKey (origOf x) d.annotations)) = true
      ∧ mapsDeepEq x.labels (optOfList d.labels) = true
  · have : compareAndUpdate d x = (x, false) := by simp [compareAndUpdate, h]
    rw [this]; exact this
  · have : compareAndUpdate d x =
        ({ spec := some d.spec, labels := optOfList d.labels,
           annotations := some (setKey origKey (origOf x) d.annotations) }, true) := by
      simp [compareAndUpdate, h]
    rw [this]
    simp [compareAndUpdate, origOf, lookup_setKey_self, mapsDeepEq_refl]

theorem restore_of_tracked {c : Codec} {o0 x : Obj} (hc : c.LawfulOn (dataOf o0)) (hno : noOrig o0 = true)
    (h : Tracked c o0 x) : restoreObject c x = (normalise o0, true) := by
  have hl : lookup origKey (o0.annotations.getD []) = none := by
    simpa [noOrig, Option.isNone_iff_eq_none] using hno
  cases ha : x.annotations with
  | none => simp [Tracked, ha, lookup] at h
  | some anns =>
    simp only [Tracked, ha, Option.getD_some] at h
    have hd := hc.1
    have hn := hc.2
    simp only [dataOf, eraseKey_of_lookup_none hl] at hd hn
    simp [restoreObject, ha, h, hn, hd, dataOf, eraseKey_of_lookup_none hl,
      optOfList_getD, normalise]

theorem restore_of_noOrig (c : Codec) {o : Obj} (hno : noOrig o = true) : restoreObject c o = (o, false) := by
  have hl : lookup origKey (o.annotations.getD []) = none := by
    simpa [noOrig, Option.isNone_iff_eq_none] using hno
  cases ha : o.annotations with
  | none => simp [restoreObject, ha]
  | some anns =>
    simp only [ha, Option.getD_some] at hl
    simp [restoreObject, ha, hl]

/-! ## sequences on present lists -/

def ensureP (c : Codec) (s : Strategy) (l : List PRef) : List PRef :=
  l.map fun p => (stepOne c s (allPlanOK c s l) p).1

def ensureSeqP (c : Codec) : List Strategy → List PRef → List PRef
  | [], l => l
  | s :: ss, l => ensureSeqP c ss (ensureP c s l)

theorem ensureRoutes_present_fst (c : Codec) (s : Strategy) (l : List PRef) :
    (ensureRoutes c s (l.map mkRef)).1 = (ensureP c s l).map mkRef := by
  rw [ensureRoutes_present]; simp [ensureP, List.map_map, Function.comp_def]

theorem ensureSeq_present (c : Codec) (steps : List Strategy) (l : List PRef) :
    ensureSeq c steps (l.map mkRef) = (ensureSeqP c steps l).map mkRef := by
  induction steps generalizing l with
  | nil => rfl
  | cons s ss ih => simp only [ensureSeq, ensureSeqP, ensureRoutes_present_fst, ih]

/-- invariant before the first successful store. -/
def Rel0 (c : Codec) (p0 p : PRef) : Prop :=
  (noOrig p0.2 = true ∧ c.LawfulOn (dataOf p0.2)) ∧ p.1 = p0.1 ∧ (p.2 = p0.2 ∨ Tracked c p0.2 p.2)

/-- invariant from the first EnsureRoutes on. -/
def RelT (c : Codec) (p0 p : PRef) : Prop :=
  (noOrig p0.2 = true ∧ c.LawfulOn (dataOf p0.2)) ∧ p.1 = p0.1 ∧ Tracked c p0.2 p.2

theorem RelT.rel0 {c : Codec} {p0 p : PRef} (h : RelT c p0 p) : Rel0 c p0 p := ⟨h.1, h.2.1, .inr h.2.2⟩

theorem store_tracked_of_rel0 {c : Codec} {p0 p : PRef} (h : Rel0 c p0 p) :
    Tracked c p0.2 (storeIfAbsent c p.2) := by
  obtain ⟨⟨hno, hc⟩, _, h3⟩ := h
  rcases h3 with h3 | h3
  · rw [h3]; exact storeIfAbsent_tracked hc hno
  · rw [storeIfAbsent_of_bound h3]; exact h3

theorem stepOne_rel {c : Codec} (s : Strategy) (ok : Bool) {p0 p : PRef}
    (h : Rel0 c p0 p) : RelT c p0 (stepOne c s ok p).1 := by
  have ht := store_tracked_of_rel0 h
  refine ⟨h.1, ?_, ?_⟩
  · unfold stepOne; simp only []; split
    · split <;> exact h.2.1
    · exact h.2.1
  · unfold stepOne; simp only []; split
    · split
      · exact compareAndUpdate_tracked _ ht
      · exact ht
    · exact ht

theorem ensureSeqP_rel {c : Codec} (steps : List Strategy) {l0 l : List PRef}
    (h : All2 (Rel0 c) l0 l) :
    All2 (Rel0 c) l0 (ensureSeqP c steps l) ∧ (steps ≠ [] → All2 (RelT c) l0 (ensureSeqP c steps l)) := by
  induction steps generalizing l with
  | nil => exact ⟨h, fun hne => absurd rfl hne⟩
  | cons s ss ih =>
    have h1 : All2 (RelT c) l0 (ensureP c s l) :=
      h.map_right fun _ _ hab => stepOne_rel s _ hab
    have h2 := ih (h1.imp fun _ _ => RelT.rel0)
    refine ⟨h2.1, fun _ => ?_⟩
    cases ss with
    | nil => exact h1
    | cons s' ss' => exact h2.2 (by simp)

theorem rel0_init (c : Codec) (l0 : List PRef) (hno : ∀ p, p ∈ l0 → noOrig p.2 = true)
    (hc : ∀ p, p ∈ l0 → c.LawfulOn (dataOf p.2)) :
    All2 (Rel0 c) l0 l0 :=
  All2.refl_of l0 fun p hp => ⟨⟨hno p hp, hc p hp⟩, rfl, .inl rfl⟩

/-! ## Finalise on present lists -/

theorem finalise_present (c : Codec) (l : List PRef) :
    finalise c (l.map mkRef) =
      (l.map fun p => mkRef (p.1, (restoreObject c p.2).1), .ok (l.any fun p => (restoreObject c p.2).2)) := by
  simp [finalise, mkRef, List.map_map, Function.comp_def, List.any_map]

theorem all2_of_All2 {α β} {p : α → β → Bool} {l : List α} {m : List β}
    (h : All2 (fun a b => p a b = true) l m) : all2 p l m = true := by
  induction h with
  | nil => rfl
  | cons hab _ ih => simp [all2, hab, ih]

/-! ## the Lua trip -/

theorem lookup_encKV (k : String) (l : List (String × J)) : lookup k (encKV l) = (lookup k l).map encJ := by
  induction l with
  | nil => simp [encKV, lookup]
  | cons p r ih =>
    obtain ⟨k', v⟩ := p
    by_cases h : k' = k <;> simp [encKV, lookup, h, ih]

theorem encJ_obj (kvs : List (String × J)) :
    encJ (.obj kvs) = if kvs = [] then .null else .obj (encKV kvs) := by
  cases kvs with
  | nil => simp [encJ]
  | cons p r => obtain ⟨k, v⟩ := p; simp [encJ, encKV]

theorem encJ_arr (xs : List J) : encJ (.arr xs) = if xs = [] then .null else .arr (encL xs) := by
  cases xs with
  | nil => simp [encJ]
  | cons x r => simp [encJ, encL]

theorem getField_encJ_obj (k : String) (kvs : List (String × J)) :
    getField k (encJ (.obj kvs)) = (lookup k kvs).map encJ := by
  rw [encJ_obj]
  split
  · rename_i h; subst h; simp [getField, lookup]
  · simp [getField, lookup_encKV]

theorem encL_append (a b : List J) : encL (a ++ b) = encL a ++ encL b := by
  induction a with
  | nil => simp [encL]
  | cons x r ih => simp [encL, ih]

theorem lookup_isSome_of_mem {α} {k : String} {v : α} {l : List (String × α)} (h : (k, v) ∈ l) :
    (lookup k l).isSome = true := by
  induction l with
  | nil => simp at h
  | cons p r ih =>
    obtain ⟨k', v'⟩ := p
    by_cases hk : k' = k
    · simp [lookup, hk]
    · have : (k, v) ∈ r := by
        rcases List.mem_cons.mp h with h1 | h1
        · simp only [Prod.mk.injEq] at h1; exact absurd h1.1.symm hk
        · exact h1
      simp [lookup, hk, ih this]

theorem mem_encKV_lookup {k : String} {v : J} {l : List (String × J)} (h : (k, v) ∈ encKV l) :
    (lookup k l).isSome = true := by
  have := lookup_isSome_of_mem h
  rw [lookup_encKV] at this
  simpa using this

/-- the frame oracle holds between an object and the encoding of any object that agrees with it on
    all keys outside `skip` and binds exactly the same keys. -/
theorem frameOK_of_agree (skip : List String) (kvs kvs' : List (String × J))
    (hag : ∀ k, skip.contains k = false → lookup k kvs' = lookup k kvs)
    (hkeys : ∀ k, (lookup k kvs').isSome = (lookup k kvs).isSome) :
    frameOK skip kvs (encJ (.obj kvs')) = true := by
  simp only [frameOK, Bool.and_eq_true, List.all_eq_true, Bool.or_eq_true, decide_eq_true_eq]
  constructor
  · intro p _
    cases hs : skip.contains p.1 with
    | true => exact .inl rfl
    | false => exact .inr (by rw [getField_encJ_obj, hag _ hs])
  · rw [encJ_obj]
    by_cases he : kvs' = []
    · simp [he]
    · simp only [he, if_false, List.all_eq_true]
      intro p hp
      obtain ⟨k, v⟩ := p
      have := mem_encKV_lookup hp
      rw [hkeys] at this
      exact this

/-! ## VirtualService script -/

theorem countStable_zero (stable : String) (rs : List J)
    (h : (rs.all fun r => match routeHost r with
        | some h => h != stable
        | none => false) = true) : countStable stable rs = some 0 := by
  induction rs with
  | nil => rfl
  | cons r rest ih =>
    simp only [List.all_cons, Bool.and_eq_true] at h
    obtain ⟨h1, h2⟩ := h
    cases hr : routeHost r with
    | none => simp [hr] at h1
    | some hst =>
      have hne : ¬ hst = stable := by simpa [hr] using h1
      simp [countStable, hr, ih h2, hne]

theorem patchRule_untouched (stable canary : String) (sw cw : Int) (rule r' : J)
    (hu : (hasMatch rule || noStableDest stable rule) = true)
    (h : patchRule stable canary sw cw rule = some r') : r' = rule := by
  have hm : ruleMult stable rule = some 0 ∨ ruleMult stable rule = none := by
    cases rule with
    | obj kvs =>
      cases hmatch : lookup "match" kvs with
      | some m => left; simp [ruleMult, hmatch]
      | none =>
        have hns : noStableDest stable (.obj kvs) = true := by
          simpa [hasMatch, hmatch] using hu
        simp only [noStableDest] at hns
        cases hroute : lookup "route" kvs with
        | none => simp [hroute] at hns
        | some rt =>
          cases rt with
          | arr rs =>
            left
            simp only [hroute] at hns
            simp [ruleMult, hmatch, hroute, countStable_zero stable rs hns]
          | null => simp [hroute] at hns
          | bool _ => simp [hroute] at hns
          | int _ => simp [hroute] at hns
          | str _ => simp [hroute] at hns
          | obj _ => simp [hroute] at hns
    | null => simp [hasMatch, noStableDest] at hu
    | bool _ => simp [hasMatch, noStableDest] at hu
    | int _ => simp [hasMatch, noStableDest] at hu
    | str _ => simp [hasMatch, noStableDest] at hu
    | arr _ => simp [hasMatch, noStableDest] at hu
  rcases hm with hm | hm
  · simp [patchRule, hm, Nat.repeat] at h; exact h.symm
  · simp [patchRule, hm] at h

theorem patchRule_single (stable canary : String) (w : Int) (kvs r : List (String × J))
    (h : singleStable stable (.obj kvs) = some (kvs, r)) :
    patchRule stable canary (vsStableW w) (vsCanaryW w) (.obj kvs)
      = some (splitRule stable canary w kvs r) := by
  simp only [singleStable] at h
  cases hmatch : lookup "match" kvs with
  | some m => simp [hmatch] at h
  | none =>
    cases hroute : lookup "route" kvs with
    | none => simp [hmatch, hroute] at h
    | some rt =>
      -- the route must be a one-element array holding an object
      have hrt : rt = .arr [.obj r] ∧ routeHost (.obj r) = some stable
          ∧ (lookup "weight" r = none ∨ lookup "weight" r = some (.int 100)) := by
        rw [hmatch, hroute] at h
        rcases rt with _ | _ | _ | _ | xs | _
        all_goals try (simp at h; done)
        rcases xs with _ | ⟨x, _ | ⟨y, rest⟩⟩
        all_goals try (simp at h; done)
        cases x with
        | obj r0 =>
          by_cases hc : routeHost (.obj r0) = some stable
              ∧ (lookup "weight" r0 = none ∨ lookup "weight" r0 = some (.int 100))
          · simp [hc] at h
            subst h
            exact ⟨rfl, hc.1, hc.2⟩
          · simp [hc] at h
        | null => simp at h
        | bool _ => simp at h
        | int _ => simp at h
        | str _ => simp at h
        | arr _ => simp at h
      obtain ⟨hrt, hhost, hw⟩ := hrt
      subst hrt
      have hmult : ruleMult stable (.obj kvs) = some 1 := by
        simp [ruleMult, hmatch, hroute, countStable, hhost]
      have hcalc : calcWeight (.obj r) (vsStableW w) 1 = vsStableW w := by
        rcases hw with hw | hw
        · simp [calcWeight, hw]
        · simp only [calcWeight, hw]
          exact Int.mul_ediv_cancel_left _ (by decide)
      simp [patchRule, hmult, Nat.repeat, patchOnce, hroute, hcalc, setWeight, splitRule]

theorem singleStable_fst {stable : String} {rule : J} {kvs r : List (String × J)}
    (h : singleStable stable rule = some (kvs, r)) : rule = .obj kvs := by
  cases rule with
  | obj k =>
    simp only [singleStable] at h
    split at h
    · split at h
      · simp only [Option.some.injEq, Prod.mk.injEq] at h; rw [h.1]
      · simp at h
    · simp at h
  | null => simp [singleStable] at h
  | bool _ => simp [singleStable] at h
  | int _ => simp [singleStable] at h
  | str _ => simp [singleStable] at h
  | arr _ => simp [singleStable] at h

theorem patchRule_ok (stable canary : String) (w : Int) (rule r' : J)
    (h : patchRule stable canary (vsStableW w) (vsCanaryW w) rule = some r') :
    vsRuleOK stable canary w rule (encJ r') = true := by
  unfold vsRuleOK
  split
  · rename_i hu
    rw [patchRule_untouched stable canary _ _ rule r' hu h]; simp
  · cases hs : singleStable stable rule with
    | none => rfl
    | some pr =>
      obtain ⟨kvs, r⟩ := pr
      have hrule := singleStable_fst hs
      subst hrule
      rw [patchRule_single stable canary w kvs r hs] at h
      simp only [Option.some.injEq] at h
      simp [← h]

theorem patchRules_ok (stable canary : String) (w : Int) (rules rules' : List J)
    (h : patchRules stable canary (vsStableW w) (vsCanaryW w) rules = some rules') :
    all2 (vsRuleOK stable canary w) rules (encL rules') = true ∧ (rules' = [] → rules = []) := by
  induction rules generalizing rules' with
  | nil => simp [patchRules] at h; subst h; simp [all2, encL]
  | cons r rest ih =>
    cases hr : patchRule stable canary (vsStableW w) (vsCanaryW w) r with
    | none => simp [patchRules, hr] at h
    | some r1 =>
      cases hrest : patchRules stable canary (vsStableW w) (vsCanaryW w) rest with
      | none => simp [patchRules, hr, hrest] at h
      | some rest1 =>
        simp [patchRules, hr, hrest] at h
        subst h
        simp [all2, encL, patchRule_ok stable canary w r r1 hr, (ih rest1 hrest).1]

/-- what one `GenerateRoutes` call does to a spec that is an object. -/
theorem genRoutes_obj (stable canary : String) (w : Int) (p : String) (kvs : List (String × J)) (S' : J)
    (h : genRoutes stable canary (vsStableW w) (vsCanaryW w) p (.obj kvs) = some S') :
    ∃ kvs', S' = .obj kvs'
      ∧ (∀ k, k ≠ p → lookup k kvs' = lookup k kvs)
      ∧ (∀ k, (lookup k kvs').isSome = (lookup k kvs).isSome)
      ∧ (match lookup p kvs with
         | some (.arr rules) => ∃ rules', lookup p kvs' = some (.arr rules')
              ∧ all2 (vsRuleOK stable canary w) rules (encL rules') = true ∧ (rules' = [] → rules = [])
         | other => lookup p kvs' = other) := by
  simp only [genRoutes, fields?] at h
  cases hl : lookup p kvs with
  | none =>
    simp [hl] at h; subst h
    exact ⟨kvs, rfl, fun _ _ => rfl, fun _ => rfl, by simp [hl]⟩
  | some v =>
    cases v with
    | arr rules =>
      simp only [hl] at h
      cases hp : patchRules stable canary (vsStableW w) (vsCanaryW w) rules with
      | none => simp [hp] at h
      | some rules' =>
        simp [hp] at h; subst h
        refine ⟨_, rfl, fun k hk => lookup_setKey_ne _ _ hk, ?_, ?_⟩
        · intro k
          by_cases hk : k = p
          · subst hk; simp [lookup_setKey_self, hl]
          · rw [lookup_setKey_ne _ _ hk]
        · have := patchRules_ok stable canary w rules rules' hp
          exact ⟨rules', lookup_setKey_self _ _ _, this.1, this.2⟩
    | obj o =>
      simp [hl] at h; subst h
      exact ⟨kvs, rfl, fun _ _ => rfl, fun _ => rfl, by simp [hl]⟩
    | null => simp [hl] at h
    | bool _ => simp [hl] at h
    | int _ => simp [hl] at h
    | str _ => simp [hl] at h

theorem genRoutes_nonobj (stable canary : String) (sw cw : Int) (p : String) (S S' : J)
    (hS : ∀ kvs, S ≠ .obj kvs) (h : genRoutes stable canary sw cw p S = some S') : S' = S := by
  cases S with
  | obj kvs => exact absurd rfl (hS kvs)
  | arr xs => simp [genRoutes, fields?, lookup] at h; exact h.symm
  | str v => simp [genRoutes, fields?, lookup] at h; exact h.symm
  | null => simp [genRoutes, fields?] at h
  | bool _ => simp [genRoutes, fields?] at h
  | int _ => simp [genRoutes, fields?] at h

theorem getField_encJ_nonobj (k : String) (S : J) (hS : ∀ kvs, S ≠ .obj kvs) : getField k (encJ S) = none := by
  cases S with
  | obj kvs => exact absurd rfl (hS kvs)
  | arr xs => rw [encJ_arr]; split <;> simp [getField]
  | str v => simp [encJ, getField]
  | null => simp [encJ, getField]
  | bool _ => simp [encJ, getField]
  | int _ => simp [encJ, getField]

/-- the per-protocol oracle from the facts `genRoutes_obj` gives, once the other calls are known
    not to touch this protocol's field. -/
theorem vsProtoOK_of (stable canary : String) (w : Int) (p : String) (kvs kvs3 : List (String × J))
    (h : match lookup p kvs with
         | some (.arr rules) => ∃ rules', lookup p kvs3 = some (.arr rules')
              ∧ all2 (vsRuleOK stable canary w) rules (encL rules') = true ∧ (rules' = [] → rules = [])
         | other => lookup p kvs3 = other) :
    vsProtoOK stable canary w (.obj kvs) (encJ (.obj kvs3)) p = true := by
  have hin : getField p (.obj kvs) = lookup p kvs := rfl
  simp only [vsProtoOK, hin, getField_encJ_obj]
  cases hl : lookup p kvs with
  | none => simp [hl] at h; simp [h]
  | some v =>
    cases v with
    | arr rules =>
      simp only [hl] at h
      obtain ⟨rules', h1, h2, h3⟩ := h
      simp only [h1, Option.map_some, encJ_arr]
      by_cases he : rules' = []
      · simp [he, h3 he]
      · simp [he, h2]
    | obj o => simp [hl] at h; simp [h]
    | null => simp [hl] at h; simp [h]
    | bool _ => simp [hl] at h; simp [h]
    | int _ => simp [hl] at h; simp [h]
    | str _ => simp [hl] at h; simp [h]

theorem vsScript_weight_ok (stable canary : String) (d d' : Data) (s : Strategy) (hm : s.mts = [])
    (h : vsScript stable canary d s = some d') :
    vsWeightOK stable canary (canaryWeight s) (decJ d.spec) d'.spec = true
    ∧ d'.labels = d.labels ∧ d'.annotations = d.annotations := by
  simp only [vsScript, hm] at h
  split at h
  · simp at h
  · generalize hw : canaryWeight s = w at h ⊢
    have hsw : (if w = -1 then (0 : Int) else 100 - w) = vsStableW w := rfl
    have hcw : (if w = -1 then (100 : Int) else w) = vsCanaryW w := rfl
    rw [hsw, hcw] at h
    generalize decJ d.spec = S at h ⊢
    simp only [ne_eq, not_true_eq_false, if_false] at h
    cases h1 : genRoutes stable canary (vsStableW w) (vsCanaryW w) "http" S with
    | none => simp [h1] at h
    | some S1 =>
      cases h2 : genRoutes stable canary (vsStableW w) (vsCanaryW w) "tcp" S1 with
      | none => simp [h1, h2] at h
      | some S2 =>
        cases h3 : genRoutes stable canary (vsStableW w) (vsCanaryW w) "tls" S2 with
        | none => simp [h1, h2, h3] at h
        | some S3 =>
          simp [h1, h2, h3] at h
          subst h
          refine ⟨?_, rfl, rfl⟩
          by_cases hobj : ∃ kvs, S = .obj kvs
          · obtain ⟨kvs, hS⟩ := hobj
            subst hS
            obtain ⟨k1, e1, a1, s1, p1⟩ := genRoutes_obj stable canary w "http" kvs S1 h1
            subst e1
            obtain ⟨k2, e2, a2, s2, p2⟩ := genRoutes_obj stable canary w "tcp" k1 S2 h2
            subst e2
            obtain ⟨k3, e3, a3, s3, p3⟩ := genRoutes_obj stable canary w "tls" k2 S3 h3
            subst e3
            have hhttp : lookup "http" k3 = lookup "http" k1 := by
              rw [a3 "http" (by decide), a2 "http" (by decide)]
            have htcp3 : lookup "tcp" k3 = lookup "tcp" k2 := a3 "tcp" (by decide)
            have htcp0 : lookup "tcp" k1 = lookup "tcp" kvs := a1 "tcp" (by decide)
            have htls0 : lookup "tls" k2 = lookup "tls" kvs := by
              rw [a2 "tls" (by decide), a1 "tls" (by decide)]
            rw [htcp0] at p2
            rw [htls0] at p3
            simp only [vsWeightOK, protos, List.all_cons, List.all_nil, Bool.and_true, Bool.and_eq_true]
            refine ⟨⟨?_, ?_, ?_⟩, ?_⟩
            · apply vsProtoOK_of
              rw [hhttp]; exact p1
            · apply vsProtoOK_of
              rw [htcp3]; exact p2
            · apply vsProtoOK_of
              exact p3
            · apply frameOK_of_agree
              · intro k hk
                have hk1 : k ≠ "http" := by intro e; subst e; simp at hk
                have hk2 : k ≠ "tcp" := by intro e; subst e; simp at hk
                have hk3 : k ≠ "tls" := by intro e; subst e; simp at hk
                rw [a3 k hk3, a2 k hk2, a1 k hk1]
              · intro k; rw [s3, s2, s1]
          · have hS : ∀ kvs, S ≠ .obj kvs := fun kvs e => hobj ⟨kvs, e⟩
            have e1 := genRoutes_nonobj _ _ _ _ _ S S1 hS h1
            subst e1
            have e2 := genRoutes_nonobj _ _ _ _ _ S1 S2 hS h2
            subst e2
            have e3 := genRoutes_nonobj _ _ _ _ _ S2 S3 hS h3
            subst e3
            have hg : ∀ p, getField p S3 = none := by
              intro p; cases S3 <;> simp [getField] <;> exact absurd rfl (hS _)
            simp only [vsWeightOK, protos, List.all_cons, List.all_nil, Bool.and_true,
              vsProtoOK, hg, getField_encJ_nonobj _ S3 hS, Option.map_none, decide_true]
            try (cases S3 <;> first | rfl | exact absurd rfl (hS _))

theorem mapM_option_length {α β} (f : α → Option β) (l : List α) (r : List β)
    (h : l.mapM f = some r) : r.length = l.length := by
  induction l generalizing r with
  | nil => simp [List.mapM_nil] at h; subst h; rfl
  | cons x xs ih =>
    simp only [List.mapM_cons] at h
    cases hx : f x with
    | none => simp [hx] at h
    | some y =>
      cases hxs : xs.mapM f with
      | none => simp [hx, hxs] at h
      | some ys =>
        simp [hx, hxs] at h
        subst h
        simp [ih ys hxs]

/-! ## DestinationRule script -/

theorem drScript_ok (d d' : Data) (s : Strategy) (h : drScript d s = some d') :
    drOK (decJ d.spec) d'.spec = true ∧ d'.labels = d.labels ∧ d'.annotations = d.annotations := by
  simp only [drScript] at h
  generalize decJ d.spec = S at h ⊢
  cases S with
  | obj kvs =>
    simp only [fields?] at h
    cases hl : lookup "subsets" kvs with
    | none => simp [hl] at h
    | some v =>
      cases v with
      | arr xs =>
        simp [hl] at h
        subst h
        refine ⟨?_, rfl, rfl⟩
        simp only [drOK, hl, Bool.and_eq_true, decide_eq_true_eq]
        constructor
        · rw [getField_encJ_obj, lookup_setKey_self]
          have hne : xs ++ [canarySubset] ≠ [] := by simp
          have hcs : encJ canarySubset = canarySubset := by decide
          simp [encJ_arr, hne, encL_append, encL, hcs]
        · apply frameOK_of_agree
          · intro k hk
            have : k ≠ "subsets" := by intro e; subst e; simp at hk
            exact lookup_setKey_ne _ _ this
          · intro k
            by_cases hk : k = "subsets"
            · subst hk; simp [lookup_setKey_self, hl]
            · rw [lookup_setKey_ne _ _ hk]
      | obj o =>
        cases o with
        | nil =>
          simp [hl] at h
          subst h
          exact ⟨by simp [drOK, hl], rfl, rfl⟩
        | cons _ _ => simp [hl] at h
      | null => simp [hl] at h
      | bool _ => simp [hl] at h
      | int _ => simp [hl] at h
      | str _ => simp [hl] at h
  | arr xs => simp [fields?] at h
  | str v => simp [fields?] at h
  | null => simp [fields?] at h
  | bool _ => simp [fields?] at h
  | int _ => simp [fields?] at h

end RV.Custom
