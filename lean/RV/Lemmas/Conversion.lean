import RV.Oracle.C20
/-!
  Helper lemmas for C20 (core Lean only).

  * `%d` / `strconv.Atoi` round trip:  `goTrafficWeight (fmtPercent w.toInt) = w` for every int32 `w`
  * ASCII case folding facts used by the style annotation
  * the field-by-field copies are identities
-/
namespace RV.Conversion

/-! ### digits -/

theorem digitVal_digitChar : ∀ d, d < 10 → digitVal? (Nat.digitChar d) = some d := by decide

theorem parseDigits_append (l : List Char) (c : Char) (acc : Nat) :
    parseDigits (l ++ [c]) acc =
      match parseDigits l acc with
      | none => none
      | some v => match digitVal? c with
        | none => none
        | some d => some (v * 10 + d) := by
  induction l generalizing acc with
  | nil => simp [parseDigits]; cases digitVal? c <;> rfl
  | cons x xs ih =>
    simp only [List.cons_append, parseDigits]
    cases digitVal? x with
    | none => rfl
    | some d => exact ih _

/-- parsing the `%d` digits of `n` gives `n` back — every `n`, by strong induction -/
theorem parseDigits_toDigits (n : Nat) : parseDigits (Nat.toDigits 10 n) 0 = some n := by
  induction n using Nat.strongRecOn with
  | _ n ih =>
    by_cases h : n < 10
    · rw [Nat.toDigits_of_lt_base h]
      simp [parseDigits, digitVal_digitChar n h]
    · have h10 : 10 ≤ n := by omega
      rw [Nat.toDigits_of_base_le (by decide) h10, parseDigits_append, ih (n / 10) (by omega)]
      simp only [digitVal_digitChar (n % 10) (by omega)]
      congr 1; omega

theorem parseNat_toDigits (n : Nat) : parseNat (Nat.toDigits 10 n) = some n := by
  unfold parseNat
  have h : (Nat.toDigits 10 n).isEmpty = false := by
    cases hl : Nat.toDigits 10 n with
    | nil => exact absurd hl Nat.toDigits_ne_nil
    | cons _ _ => rfl
  simp [h, parseDigits_toDigits]

theorem toDigits_head (n : Nat) : ∃ c cs, Nat.toDigits 10 n = c :: cs ∧ c ≠ '-' ∧ c ≠ '+' := by
  cases hl : Nat.toDigits 10 n with
  | nil => exact absurd hl Nat.toDigits_ne_nil
  | cons c cs =>
    refine ⟨c, cs, rfl, ?_, ?_⟩
    · intro hc
      have := Nat.isDigit_of_mem_toDigits (b := 10) (n := n) (c := c) (by decide) (by decide) (by simp [hl])
      rw [hc] at this; revert this; decide
    · intro hc
      have := Nat.isDigit_of_mem_toDigits (b := 10) (n := n) (c := c) (by decide) (by decide) (by simp [hl])
      rw [hc] at this; revert this; decide

/-- `strconv.Atoi(fmt.Sprintf("%d", i)) = i` for every `i` in the int64 range -/
theorem goAtoi_showInt (i : Int) (hlo : int64Min ≤ i) (hhi : i ≤ int64Max) :
    goAtoi (showInt i) = some i := by
  unfold showInt
  by_cases hneg : i < 0
  · have hv : -((i.natAbs : Nat) : Int) = i := by omega
    simp only [hneg, if_true, goAtoi, parseNat_toDigits, Int.ofNat_eq_natCast]
    rw [hv]
    simp [hlo, hhi]
  · obtain ⟨c, cs, hl, h1, h2⟩ := toDigits_head i.natAbs
    have hv : ((i.natAbs : Nat) : Int) = i := by omega
    have hp := parseNat_toDigits i.natAbs
    simp only [hneg, if_false]
    rw [hl] at hp ⊢
    unfold goAtoi
    split
    · rename_i heq; simp only [List.cons.injEq] at heq; exact absurd heq.1 h1
    · rename_i heq; simp only [List.cons.injEq] at heq; exact absurd heq.1 h2
    · simp only [hp, Int.ofNat_eq_natCast]
      rw [hv]
      simp [hlo, hhi]

/-- **weight ↔ traffic**: `ConvertFrom` reads back exactly the int32 weight `ConvertTo` wrote as `"<w>%"`. -/
theorem goTrafficWeight_fmtPercent (w : Int32) : goTrafficWeight (fmtPercent w.toInt) = w := by
  have h1 := Int32.le_toInt w
  have h2 := Int32.toInt_lt w
  have hlo : int64Min ≤ w.toInt := by unfold int64Min; omega
  have hhi : w.toInt ≤ int64Max := by unfold int64Max; omega
  unfold goTrafficWeight fmtPercent
  simp only [String.toList_ofList, List.reverse_append, List.reverse_cons, List.reverse_nil,
    List.nil_append, List.singleton_append, List.reverse_reverse, goAtoi_showInt _ hlo hhi,
    Int32.ofInt_toInt]

theorem trafficExpressible_fmtPercent (w : Int32) :
    RV.Oracle.C20.trafficExpressible (fmtPercent w.toInt) = true := by
  simp [RV.Oracle.C20.trafficExpressible, goTrafficWeight_fmtPercent]

/-! ### ASCII case folding -/

theorem toLower_of_not (c : Char) (h : ¬ (c.val ≥ 'A'.val ∧ c.val ≤ 'Z'.val)) : c.toLower = c := by
  unfold Char.toLower; rw [dif_neg h]

theorem toLower_val_of (c : Char) (h : c.val ≥ 'A'.val ∧ c.val ≤ 'Z'.val) :
    c.toLower.val = c.val + ('a'.val - 'A'.val) := by
  unfold Char.toLower; rw [dif_pos h]

theorem toLower_toLower (c : Char) : c.toLower.toLower = c.toLower := by
  by_cases h : c.val ≥ 'A'.val ∧ c.val ≤ 'Z'.val
  · apply toLower_of_not
    rw [toLower_val_of c h]
    have hA : ('A'.val).toNat = 65 := by decide
    have hZ : ('Z'.val).toNat = 90 := by decide
    have hd : ('a'.val - 'A'.val).toNat = 32 := by decide
    obtain ⟨h1, h2⟩ := h
    rw [ge_iff_le, UInt32.le_iff_toNat_le] at h1
    rw [UInt32.le_iff_toNat_le] at h2
    intro ⟨_, h4⟩
    rw [UInt32.le_iff_toNat_le, UInt32.toNat_add, hd, hZ] at h4
    omega
  · rw [toLower_of_not c h, toLower_of_not c h]

theorem map_toLower_idem (l : List Char) : (l.map Char.toLower).map Char.toLower = l.map Char.toLower := by
  induction l with
  | nil => rfl
  | cons c cs ih => simp [toLower_toLower, ih]

/-- `EqualFold(ToLower(s), K) = EqualFold(s, K)` -/
theorem eqFold_lowerAscii (s k : String) : eqFold (lowerAscii s) k = eqFold s k := by
  unfold eqFold lowerAscii
  rw [String.toList_ofList, map_toLower_idem]

/-! ### the field-by-field copies are identities -/

theorem map_id_of {α} (f : α → α) (h : ∀ a, f a = a) (l : List α) : l.map f = l := by
  induction l with
  | nil => rfl
  | cons x xs ih => simp [h, ih]

@[simp] theorem refCopy_id (r : Ref) : refCopy r = r := by cases r; rfl
@[simp] theorem condConv_id (c : Condition) : condConv c = c := by cases c; rfl
@[simp] theorem canaryStatusConv_id (s : CanaryStatus) : canaryStatusConv s = s := by cases s; rfl
@[simp] theorem brCanaryStatusConv_id (s : BRCanaryStatus) : brCanaryStatusConv s = s := by cases s; rfl
@[simp] theorem patchConv_id (p : Option Patch) : patchConv p = p := by
  cases p with
  | none => rfl
  | some p => cases p; rfl

@[simp] theorem trRefConv_id (t : TRRef) : trRefConv t = t := by
  cases t with
  | mk s g i gw c =>
    simp only [trRefConv, TRRef.mk.injEq, true_and]
    refine ⟨?_, ?_, ?_⟩
    · cases i with
      | none => rfl
      | some i => cases i; rfl
    · cases gw with
      | none => rfl
      | some g => cases g; rfl
    · exact map_id_of _ refCopy_id c

@[simp] theorem map_trRefConv (l : List TRRef) : l.map trRefConv = l := map_id_of _ trRefConv_id l
@[simp] theorem map_condConv (l : List Condition) : l.map condConv = l := map_id_of _ condConv_id l
@[simp] theorem map_idfun {α} (l : List α) : (l.map fun b => b) = l := map_id_of _ (fun _ => rfl) l

end RV.Conversion

/-! ### component lemmas of the C20 round-trip theorems -/
namespace RV.Lemmas.C20
open RV.Conversion RV.Oracle.C20

/-- the guard of `ConvertFrom` never panics and is true exactly for a blueGreen strategy -/
theorem blueGreenOnly_eq (r : B.Strategy) : blueGreenOnly r = .ok r.blueGreen.isSome := by
  obtain ⟨p, canary, bg⟩ := r
  cases bg with
  | some x => cases canary <;> rfl
  | none =>
    cases canary with
    | none => rfl
    | some c =>
      simp only [blueGreenOnly, B.Strategy.isEmptyRelease, B.Strategy.isCanaryStrategy,
        B.Strategy.getRollingStyle]
      cases c.enableExtraWorkloadForCanary <;> rfl

theorem stepFrom_stepTo (s : A.Step) : stepFrom (stepTo s) = normStep s := by
  obtain ⟨⟨w, rhm, mts⟩, rep, ⟨d⟩⟩ := s
  have hm : (mts.map fun m => ({ path := none, headers := m.headers, queryParams := [] } : B.Match)).map
      (fun m => ({ headers := m.headers } : A.Match)) = mts := by
    rw [List.map_map]; exact map_id_of _ (fun m => by cases m; rfl) mts
  cases w with
  | none => cases rep <;> simp [stepFrom, stepTo, trStrategyFrom, trStrategyTo, normStep, hm]
  | some w =>
    cases rep <;>
      simp [stepFrom, stepTo, trStrategyFrom, trStrategyTo, normStep, hm, goTrafficWeight_fmtPercent]

theorem normStep_idem (s : A.Step) : normStep (normStep s) = normStep s := by
  obtain ⟨⟨w, rhm, mts⟩, rep, p⟩ := s
  cases w <;> cases rep <;> rfl

theorem statusFrom_statusTo (s : A.Status) : statusFrom (statusTo s) = s := by
  obtain ⟨og, cs, conds, ph, msg⟩ := s
  cases cs <;> simp [statusFrom, statusTo]

theorem canaryFrom_canaryTo (md : Meta) (c : A.Canary) :
    canaryFrom (canaryTo md c) = { c with steps := c.steps.map normStep } := by
  obtain ⟨steps, trs, ft, patch, noSvc⟩ := c
  simp only [canaryFrom, canaryTo, A.Canary.mk.injEq, and_true, List.map_map,
    map_trRefConv, patchConv_id]
  exact List.map_congr_left (fun s _ => stepFrom_stepTo s)

theorem eqFold_canary_partition : eqFold (lowerAscii styleCanary) stylePartition = false := by decide
theorem eqFold_partition_partition : eqFold (lowerAscii stylePartition) stylePartition = true := by decide

theorem mdFrom_canaryTo (md : Meta) (c : A.Canary) :
    mdFrom md (canaryTo md c) = { md with annStyle := normRolloutStyle md.annStyle } := by
  obtain ⟨rest, st, tr, oth⟩ := md
  have htr : (if annGet tr != "" then some (annGet tr) else tr) = tr := by
    cases tr with
    | none => rfl
    | some s => by_cases h : s = "" <;> simp [annGet, h]
  cases h : eqFold (annGet st) stylePartition <;>
    simp [mdFrom, canaryTo, normRolloutStyle, h] <;> split <;> simp_all

theorem normRolloutStyle_idem (v : Option String) :
    normRolloutStyle (normRolloutStyle v) = normRolloutStyle v := by
  unfold normRolloutStyle
  cases h : eqFold (annGet v) stylePartition <;>
    simp [annGet, eqFold_canary_partition, eqFold_partition_partition]

theorem meaningRollout_idem (a : A.Rollout) : meaningRollout (meaningRollout a) = meaningRollout a := by
  obtain ⟨md, ⟨wref, ⟨paused, canary⟩, rid, dis⟩, st⟩ := a
  cases canary with
  | none => cases wref <;> rfl
  | some c =>
    cases wref <;>
      simp [meaningRollout, normRef, normRolloutStyle_idem, List.map_map] <;>
      exact fun s _ => normStep_idem s

theorem planTo_style (ann : Option String) (p : ReleasePlan) :
    (planTo ann p).rollingStyle =
      match styleNamed (annGet ann) with
      | some k => k
      | none => p.rollingStyle := by
  unfold planTo styleNamed
  by_cases h1 : eqFold (annGet ann) styleBlueGreen <;>
  by_cases h2 : eqFold (annGet ann) styleCanary <;>
  by_cases h3 : eqFold (annGet ann) stylePartition <;> simp [h1, h2, h3]

theorem planFrom_planTo (ann : Option String) (p : ReleasePlan) :
    planFrom (planTo ann p) = { p with rollingStyle := (planTo ann p).rollingStyle } := by
  obtain ⟨b, bp, id, ft, pol, pa, sty, ex⟩ := p
  simp [planFrom, planTo]

theorem brStatusFrom_brStatusTo (s : A.BRStatus) : brStatusFrom (brStatusTo s) = s := by
  obtain ⟨c, cs, a, b, d, e, f, g, h, i⟩ := s
  simp [brStatusFrom, brStatusTo]

theorem styleNamed_lowerAscii (s : String) : styleNamed (lowerAscii s) = styleNamed s := by
  simp [styleNamed, eqFold_lowerAscii]

theorem styleNamed_mem {s k : String} (h : styleNamed s = some k) :
    k = styleBlueGreen ∨ k = styleCanary ∨ k = stylePartition := by
  unfold styleNamed at h
  split at h
  · left; exact (Option.some.inj h).symm
  · split at h
    · right; left; exact (Option.some.inj h).symm
    · split at h
      · right; right; exact (Option.some.inj h).symm
      · cases h

theorem canonStyle_of_named {s k : String} (h : styleNamed s = some k) : canonStyle k = k := by
  rcases styleNamed_mem h with rfl | rfl | rfl <;> decide

theorem canonStyle_idem (s : String) : canonStyle (canonStyle s) = canonStyle s := by
  unfold canonStyle
  cases h : styleNamed s with
  | none => simp [h]
  | some k => exact canonStyle_of_named h

/-- the style `ConvertTo` stores for a v1alpha1 BatchRelease (annotation if it names a style,
    else the spec field) -/
def storedStyle (a : A.BatchRelease) : String := (planTo a.md.annStyle a.spec.plan).rollingStyle

theorem canon_storedStyle (a : A.BatchRelease) : canonStyle (storedStyle a) = brStyle a := by
  unfold storedStyle brStyle
  rw [planTo_style]
  cases h : styleNamed (annGet a.md.annStyle) with
  | none => rfl
  | some k => exact canonStyle_of_named h

theorem map_id_of_all {α} (p : α → Bool) (f : α → α) (h : ∀ a, p a = true → f a = a) :
    ∀ (l : List α), l.all p = true → l.map f = l := by
  intro l
  induction l with
  | nil => intro _; rfl
  | cons x xs ih =>
    intro hl
    simp only [List.all_cons, Bool.and_eq_true] at hl
    simp [h x hl.1, ih hl.2]

theorem stepTo_stepFrom (s : B.Step) (h : stepExpressible s = true) : stepTo (stepFrom s) = s := by
  obtain ⟨⟨t, rhm, mts⟩, rep, ⟨d⟩⟩ := s
  simp only [stepExpressible, Bool.and_eq_true, Bool.or_eq_true] at h
  obtain ⟨⟨ht, hm⟩, hr⟩ := h
  have hm' : (mts.map fun m => ({ headers := m.headers } : A.Match)).map
      (fun m => ({ path := none, headers := m.headers, queryParams := [] } : B.Match)) = mts := by
    rw [List.map_map]
    refine map_id_of_all (fun m => m.path.isNone && m.queryParams.isEmpty) _ ?_ mts hm
    intro m hm
    obtain ⟨p, hd, q⟩ := m
    simp only [Bool.and_eq_true, Option.isNone_iff_eq_none, List.isEmpty_iff] at hm
    simp [hm.1, hm.2]
  cases t with
  | none =>
    cases rep <;> simp [stepTo, stepFrom, trStrategyTo, trStrategyFrom, hm']
  | some t =>
    have ht' : fmtPercent (goTrafficWeight t).toInt = t := by
      simpa [trafficExpressible] using ht
    cases rep with
    | none => simp at hr
    | some r => simp [stepTo, stepFrom, trStrategyTo, trStrategyFrom, hm', ht']

theorem statusTo_statusFrom (s : B.Status) (h1 : s.blueGreenStatus = none) (h2 : s.currentStepIndex = 0)
    (h3 : s.currentStepState = "") : statusTo (statusFrom s) = s := by
  obtain ⟨og, cs, bgs, conds, ph, msg, cur, state⟩ := s
  simp only at h1 h2 h3
  subst h1 h2 h3
  cases cs <;> simp [statusFrom, statusTo]

theorem eqFold_stamp (extra : Bool) :
    (!eqFold (annGet (some (if extra then lowerAscii styleCanary else lowerAscii stylePartition))) stylePartition) = extra := by
  cases extra <;> decide

theorem planTo_planFrom (p : ReleasePlan) (h : canonStyle p.rollingStyle = p.rollingStyle) :
    planTo (some (lowerAscii p.rollingStyle)) (planFrom p) = p := by
  have hs := planTo_style (some (lowerAscii p.rollingStyle)) (planFrom p)
  obtain ⟨b, bp, id, ft, pol, pa, sty, ex⟩ := p
  simp only [annGet, styleNamed_lowerAscii, planFrom] at hs h
  have : (match styleNamed sty with | some k => k | none => sty) = sty := h
  rw [this] at hs
  simp only [planTo, planFrom, ReleasePlan.mk.injEq, map_idfun, patchConv_id, true_and, and_true]
  simpa [planTo, planFrom] using hs

theorem brStatusTo_brStatusFrom (s : B.BRStatus) (h : s.message = "") : brStatusTo (brStatusFrom s) = s := by
  obtain ⟨c, cs, a, b, d, e, f, g, hh, i, m⟩ := s
  simp only at h
  subst h
  simp [brStatusFrom, brStatusTo]

end RV.Lemmas.C20
