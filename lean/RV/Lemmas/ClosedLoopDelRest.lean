/-
  Deletion of the Rollout, the other labels: `delete` itself leads from the forward invariant (or the deletion
  invariant) into the deletion invariant; a BatchRelease reconcile, workload progress, approval, clock and crash preserve it.
-/
import RV.Lemmas.ClosedLoopStepBr
import RV.Lemmas.ClosedLoopLabels
namespace RV.Lemmas.ClosedLoop
open RV.Arith RV.Traffic RV.RolloutSM RV.ClosedLoop RV.Oracle.ClosedLoop RV.Oracle.Batch

/-! ### taking the deletion invariant apart -/

/-- the phase-dependent clause of `delInv` -/
def delrest_ph (s : CS) (w : CWl) : Bool :=
  match s.ro.phase with
  | .healthy => true
  | .progressing => phaseInv s w
  | .terminating => s.ro.term != .none
  | _ => false

theorem delrest_inv_iff (s : CS) :
    delInv s = true ↔ ∃ w, s.wl = some w ∧ wlOK w = true ∧ planMono w.replicas (planOf s.ro) = true ∧ brOKo s.br = true ∧
      (s.gone = true ∨ (delOK s.ro = true ∧ delrest_ph s w = true)) := by
  unfold delInv
  cases hw : s.wl with
  | none => simp
  | some w =>
    show (wlOK w && planMono w.replicas (planOf s.ro) && brOKo s.br && (s.gone || (delOK s.ro && delrest_ph s w))) = true ↔ _
    simp [Bool.and_eq_true, and_assoc]

theorem delrest_ph_iff (s : CS) (w : CWl) :
    delrest_ph s w = true ↔ s.ro.phase = .healthy ∨ (s.ro.phase = .progressing ∧ phaseInv s w = true) ∨
      (s.ro.phase = .terminating ∧ s.ro.term ≠ .none) := by
  unfold delrest_ph
  cases hp : s.ro.phase <;> simp

/-- the phase-dependent clause reads the phase, the Terminating condition and (while Progressing) `phaseInv` -/
theorem delrest_ph_frame (s s' : CS) (w w' : CWl) (hph : s'.ro.phase = s.ro.phase) (hterm : s'.ro.term = s.ro.term)
    (hpi : s.ro.phase = .progressing → phaseInv s w = true → phaseInv s' w' = true)
    (h : delrest_ph s w = true) : delrest_ph s' w' = true := by
  rcases (delrest_ph_iff s w).1 h with h1 | ⟨h1, h2⟩ | ⟨h1, h2⟩
  · exact (delrest_ph_iff s' w').2 (Or.inl (hph.trans h1))
  · exact (delrest_ph_iff s' w').2 (Or.inr (Or.inl ⟨hph.trans h1, hpi h1 h2⟩))
  · exact (delrest_ph_iff s' w').2 (Or.inr (Or.inr ⟨hph.trans h1, by rw [hterm]; exact h2⟩))

/-- a transition that keeps `gone`, the deletion configuration, the phase and the Terminating condition -/
theorem delrest_frame (s s' : CS) (w w' : CWl) (hw' : s'.wl = some w') (hwok : wlOK w' = true)
    (hmono : planMono w'.replicas (planOf s'.ro) = true) (hbr : brOKo s'.br = true)
    (hgone : s'.gone = s.gone) (hdel : delOK s'.ro = delOK s.ro)
    (hph : s'.ro.phase = s.ro.phase) (hterm : s'.ro.term = s.ro.term)
    (hpi : s.ro.phase = .progressing → phaseInv s w = true → phaseInv s' w' = true)
    (h : s.gone = true ∨ (delOK s.ro = true ∧ delrest_ph s w = true)) : delInv s' = true := by
  refine (delrest_inv_iff s').2 ⟨w', hw', hwok, hmono, hbr, ?_⟩
  rcases h with h | ⟨h1, h2⟩
  · exact Or.inl (hgone.trans h)
  · exact Or.inr ⟨hdel.trans h1, delrest_ph_frame s s' w w' hph hterm hpi h2⟩

theorem delrest_delOK_iff (ro : Rollout) :
    delOK ro = true ↔ ro.deleting = true ∧ ro.hasFinalizer = true ∧ ro.disabled = false ∧ ro.paused = false ∧
      ro.style = .canary ∧ ro.realPartition = true ∧ ro.steps ≠ [] := by
  unfold delOK
  simp [Bool.and_eq_true, and_assoc]

/-! ### `delete` -/

theorem delrest_deleting_id (ro : Rollout) (h : ro.deleting = true) : ({ ro with deleting := true } : Rollout) = ro := by
  cases ro
  dsimp only at h
  subst h
  rfl

/-- `phaseInv` holds only while Healthy or Progressing -/
theorem delrest_phaseInv_phase (s : CS) (w : CWl) (h : phaseInv s w = true) :
    s.ro.phase = .healthy ∨ s.ro.phase = .progressing := by
  cases hp : s.ro.phase with
  | healthy => exact Or.inl rfl
  | progressing => exact Or.inr rfl
  | empty => unfold phaseInv at h; rw [hp] at h; cases h
  | initial => unfold phaseInv at h; rw [hp] at h; cases h
  | terminating => unfold phaseInv at h; rw [hp] at h; cases h
  | disabled => unfold phaseInv at h; rw [hp] at h; cases h
  | disabling => unfold phaseInv at h; rw [hp] at h; cases h

theorem delete_del (s : CS) (h : fwdInv s = true ∨ delInv s = true) : delInv (delete s) = true := by
  rcases h with h | h
  · obtain ⟨hro, w, hw, hwok, hmono, hbr, hpi⟩ := (fwdInv_iff s).1 h
    obtain ⟨hgone, hg⟩ := (roOK_iff s).1 hro
    have hd : delete s = { s with ro := { s.ro with deleting := true } } := by
      unfold delete
      rw [if_neg (by simp [hgone]), if_pos hg.fin]
    rw [hd]
    refine (delrest_inv_iff _).2 ⟨w, hw, hwok, hmono, hbr, Or.inr ⟨?_, ?_⟩⟩
    · exact (delrest_delOK_iff _).2 ⟨rfl, hg.fin, hg.enabled, hg.unpaused, hg.canary, hg.partitionStyle, hg.steps⟩
    · refine (delrest_ph_iff _ w).2 ?_
      rcases delrest_phaseInv_phase s w hpi with hp | hp
      · exact Or.inl hp
      · refine Or.inr (Or.inl ⟨hp, ?_⟩)
        exact phaseInv_congr s _ w rfl rfl rfl rfl rfl rfl rfl rfl (fun sub hs => ⟨sub, hs, rfl, rfl, rfl, rfl, rfl, rfl⟩) hpi
  · obtain ⟨w, hw, hwok, hmono, hbr, hrest⟩ := (delrest_inv_iff s).1 h
    rcases Bool.eq_false_or_eq_true s.gone with hgone | hgone
    · have hd : delete s = s := by unfold delete; rw [if_pos hgone]
      rw [hd]; exact h
    · rcases hrest with hg | ⟨hdel, _⟩
      · rw [hgone] at hg; cases hg
      · obtain ⟨h1, h2, _⟩ := (delrest_delOK_iff s.ro).1 hdel
        have hd : delete s = s := by
          unfold delete
          rw [if_neg (by simp [hgone]), if_pos h2, delrest_deleting_id s.ro h1]
        rw [hd]; exact h

/-! ### one BatchRelease reconcile -/

/-- with a BatchRelease present, one executor reconcile preserves the phase-dependent part (the argument of
    `stepBr_fwd`, which does not read the Rollout's configuration) -/
theorem del_phaseInv_br (s : CS) (w : CWl) (b : CBr) (o : Executor.StepOut) (ew : Executor.Workload)
    (hb : s.br = some b) (hrec : Executor.reconcile (exBr b) (some (exWl w)) = .val o)
    (heff : WlEffect (exBr b) (exWl w) ew) (hwok : wlOK w = true)
    (hmono : planMono w.replicas (planOf s.ro) = true) (hbok : brOK b = true)
    (hpi : phaseInv s w = true) : phaseInv (landBr s b o) (landW w ew) = true := by
  obtain ⟨hne, h0, hp0, hra, hnn⟩ := (brOK_iff b).1 hbok
  obtain ⟨hR, hpart⟩ := wlOK_facts w hwok
  have hnn' : (exBr b).status.noNeedUpdate = none := hnn
  obtain ⟨hp, sub, hs, hr | hr⟩ := phaseInv_with_br s w b hb hpi
  · rw [phaseInv_rolling s w sub hp hr hs, hb] at hpi
    rw [phaseInv_rolling (landBr s b o) (landW w ew) sub hp hr hs]
    simp only [Bool.and_eq_true] at hpi ⊢
    obtain ⟨⟨hsub, hlink⟩, hwc⟩ := hpi
    have hlink' : linkOK s.ro sub b = true := hlink
    refine ⟨⟨hsub, linkOK_land s.ro sub b (exWl w) o hrec hlink'⟩, ?_⟩
    obtain ⟨hpl, ⟨p, hpp, hpp0, hpc, hcb⟩, hd, hph⟩ := (linkOK_iff s.ro sub b).1 hlink'
    have hpl' : (exBr b).batches = planOf s.ro := hpl
    unfold withinCur at hwc ⊢
    cases hk : w.partition with
    | none => rw [hk] at hwc; cases hwc
    | some k =>
      cases hj : (planOf s.ro)[(sub.curIdx - 1).toNat]? with
      | none => rw [hk, hj] at hwc; cases hwc
      | some ecur =>
        rw [hk, hj] at hwc
        have hwc' : within w.replicas (planOf s.ro) ecur k = true := hwc
        have hnf : (exBr b).status.phase ≠ .finalizing := by
          show b.st.phase ≠ .finalizing
          rcases hph with h1 | h1 | h1 <;> rw [h1] <;> decide
        have hcbj : (exBr b).status.currentBatch.toNat ≤ (sub.curIdx - 1).toNat := by
          show b.st.currentBatch.toNat ≤ _
          omega
        obtain ⟨k', hk', hwk'⟩ := effect_within (exBr b) (exWl w) ew heff hR hnn'
          (by rw [hpl']; exact hmono) (sub.curIdx - 1).toNat ecur (by rw [hpl']; exact hj) hcbj hnf
          ⟨k, hk, by rw [hpl']; exact hwc'⟩
        rw [hpl'] at hwk'
        show (match ew.partition, (planOf s.ro)[(sub.curIdx - 1).toNat]? with
          | some k, some e => within w.replicas (planOf s.ro) e k
          | _, _ => false) = true
        rw [hk', hj]
        exact hwk'
  · rw [phaseInv_fin s w sub hp hr hs, hb] at hpi
    rw [phaseInv_fin (landBr s b o) (landW w ew) sub hp hr hs]
    simp only [Bool.and_eq_true] at hpi ⊢
    refine ⟨hpi.1, ?_⟩
    exact RV.Props.Cluster.finInv_mono .success s.ro sub.finStep _ _ s.net s.net
      (RV.Props.Cluster.NetLE.refl _) (brLE_land b _ o hrec) hpi.2

theorem stepBr_del (s : CS) (h : delInv s = true) : ∃ s', stepBr s = some s' ∧ delInv s' = true := by
  obtain ⟨w, hw, hwok, hmono, hbrok, hrest⟩ := (delrest_inv_iff s).1 h
  cases hb : s.br with
  | none => exact ⟨s, by unfold stepBr; rw [hb], h⟩
  | some b =>
    rw [hb] at hbrok
    have hbok : brOK b = true := hbrok
    obtain ⟨hne, h0, hp0, hra, hnn⟩ := (brOK_iff b).1 hbok
    obtain ⟨hR, hpart⟩ := wlOK_facts w hwok
    cases hrec : Executor.reconcile (exBr b) (some (exWl w)) with
    | panic => exact absurd hrec (exec_total (exBr b) _ h0)
    | val o =>
      obtain ⟨ew, hew, heff⟩ := exec_wl_effect (exBr b) (exWl w) o hrec
      have hstep : stepBr s = some (landBr s b o) := by
        unfold stepBr
        rw [hb]
        dsimp only
        rw [hw]
        simp only [Option.map_some]
        rw [hrec]
      refine ⟨_, hstep, ?_⟩
      have hwl' : (landBr s b o).wl = some (landW w ew) := by
        show wlLand s.wl o.wl = _
        rw [hw, hew]; rfl
      have hnn' : (exBr b).status.noNeedUpdate = none := hnn
      exact delrest_frame s (landBr s b o) w (landW w ew) hwl'
        (wlOK_land w ew hwok (effect_part_nonneg (exBr b) (exWl w) ew heff hR hnn' hpart))
        hmono (brOKo_land b _ o hrec hbok) rfl rfl rfl rfl
        (fun _ hpi => del_phaseInv_br s w b o ew hb hrec heff hwok hmono hbok hpi) hrest

/-! ### workload progress, approval, clock, crash -/

theorem env_del (s : CS) (h : delInv s = true) : delInv { s with wl := s.wl.map envWl } = true := by
  obtain ⟨w, hw, hwok, hmono, hbr, hrest⟩ := (delrest_inv_iff s).1 h
  obtain ⟨f1, _, f3, f4, f5⟩ := envWl_frame w
  refine delrest_frame s _ w (envWl w) (by show s.wl.map envWl = _; rw [hw]; rfl) (envWl_ok w hwok) ?_ hbr
    rfl rfl rfl rfl ?_ hrest
  · show planMono (envWl w).replicas (planOf s.ro) = true
    rw [f1]; exact hmono
  · intro _ hpi
    show phaseInv s (envWl w) = true
    rw [phaseInv_wl s w (envWl w) f5 f3 f4 f1]; exact hpi

theorem approve_del (s : CS) (h : delInv s = true) : delInv (approve s) = true := by
  obtain ⟨w, hw, hwok, hmono, hbr, hrest⟩ := (delrest_inv_iff s).1 h
  unfold approve
  rcases Bool.eq_false_or_eq_true s.gone with hgone | hgone
  · rw [if_pos hgone]; exact h
  · rw [if_neg (by simp [hgone])]
    cases hs : s.ro.sub with
    | none => exact h
    | some sub =>
      dsimp only
      split
      · refine delrest_frame s _ w w hw hwok hmono hbr rfl rfl rfl rfl ?_ hrest
        intro _ hpi
        refine phaseInv_congr s _ w rfl rfl rfl rfl rfl rfl rfl rfl ?_ hpi
        intro sub0 h0
        rw [hs] at h0; cases h0
        exact ⟨_, rfl, rfl, rfl, rfl, rfl, rfl, rfl⟩
      · exact h

theorem tick_del (s : CS) (h : delInv s = true) : delInv (tick s) = true := by
  obtain ⟨w, hw, hwok, hmono, hbr, hrest⟩ := (delrest_inv_iff s).1 h
  unfold tick
  dsimp only
  rcases Bool.eq_false_or_eq_true s.gone with hgone | hgone
  · rw [if_pos hgone]
    exact (delrest_inv_iff _).2 ⟨w, hw, hwok, hmono, hbr, Or.inl hgone⟩
  · rw [if_neg (by simp [hgone])]
    refine delrest_frame s _ w w hw hwok hmono hbr rfl rfl rfl rfl ?_ hrest
    intro _ hpi
    refine phaseInv_congr s _ w rfl rfl rfl rfl rfl rfl rfl rfl ?_ hpi
    intro sub0 h0
    refine ⟨{ sub0 with lastUpdate := ageAge sub0.lastUpdate }, ?_, rfl, rfl, ageAge_none _, rfl, rfl, rfl⟩
    show Option.map _ s.ro.sub = _
    rw [h0]; rfl

theorem crash_del (s : CS) (h : delInv s = true) : delInv (crash s) = true := by
  obtain ⟨w, hw, hwok, hmono, hbr, hrest⟩ := (delrest_inv_iff s).1 h
  exact delrest_frame s (crash s) w w hw hwok hmono hbr rfl rfl rfl rfl
    (fun _ hpi => phaseInv_congr s _ w rfl rfl rfl rfl rfl rfl rfl rfl
      (fun sub hs => ⟨sub, hs, rfl, rfl, rfl, rfl, rfl, rfl⟩) hpi) hrest

end RV.Lemmas.ClosedLoop
