import RV.Oracle.CtlSts
import RV.Props.C07
/-! Helper lemmas for the partition-style StatefulSet-like / DaemonSet control planes. -/
set_option linter.unusedSimpArgs false
namespace RV.CtlSts
open RV.Arith IntOrPct RV.Webhook RV.BatchCtx RV.Oracle.Batch RV.Oracle.CtlSts

/-! ### the update strategy block under patches -/

theorem curPart_norm (k : Kind) (us : US) : currentPartition (normUS k us) = currentPartition us := by
  rcases us with _ | _ | ⟨t, _ | _ | ⟨p, pa, un⟩⟩ <;> cases k <;> (try cases p) <;> rfl

theorem partV_norm (k : Kind) (us : US) : partV (normUS k us) = partV us := by
  rcases us with _ | _ | ⟨t, _ | _ | ⟨p, pa, un⟩⟩ <;> cases k <;> rfl

theorem hasRU_norm (k : Kind) (us : US) : hasRU (normUS k us) = hasRU us := by
  rcases us with _ | _ | ⟨t, _ | _ | ⟨p, pa, un⟩⟩ <;> cases k <;> rfl

theorem effType_norm (k : Kind) (us : US) : effType (normUS k us) = effType us := by
  rcases us with _ | _ | ⟨t, _ | _ | ⟨p, pa, un⟩⟩ <;> cases k <;> rfl

theorem isUnordered_norm (k : Kind) (us : US) : isUnordered k (normUS k us) = isUnordered k us := by
  rcases us with _ | _ | ⟨t, _ | _ | ⟨p, pa, un⟩⟩ <;> cases k <;> rfl

theorem normUS_idem (k : Kind) (us : US) : normUS k (normUS k us) = normUS k us := by
  rcases us with _ | _ | ⟨t, _ | _ | ⟨p, pa, un⟩⟩ <;> cases k <;> try rfl
  simp only [normUS]
  by_cases h : pa = some true <;> simp [h]

theorem curPart_merge_int (us : US) (n : Int) (pa : Option Bool) : currentPartition (mergeRU us (.int n) pa) = n := by
  rcases us with _ | _ | ⟨t, _ | _ | ⟨p, pa', un⟩⟩ <;> rfl

theorem curPart_merge_absent (us : US) (pa : Option Bool) : currentPartition (mergeRU us .absent pa) = 0 := by
  rcases us with _ | _ | ⟨t, _ | _ | ⟨p, pa', un⟩⟩ <;> rfl

theorem partV_merge (us : US) (p : PartV) (pa : Option Bool) : partV (mergeRU us p pa) = p := by
  rcases us with _ | _ | ⟨t, _ | _ | ⟨p', pa', un⟩⟩ <;> rfl

theorem hasRU_merge (us : US) (p : PartV) (pa : Option Bool) : hasRU (mergeRU us p pa) = true := by
  rcases us with _ | _ | ⟨t, _ | _ | ⟨p', pa', un⟩⟩ <;> rfl

theorem effType_merge (us : US) (p : PartV) (pa : Option Bool) : effType (mergeRU us p pa) = effType us := by
  rcases us with _ | _ | ⟨t, _ | _ | ⟨p', pa', un⟩⟩ <;> rfl

theorem isUnordered_merge (k : Kind) (us : US) (p : PartV) (pa : Option Bool) :
    isUnordered k (mergeRU us p pa) = isUnordered k us := by
  rcases us with _ | _ | ⟨t, _ | _ | ⟨p', pa', un⟩⟩ <;> cases k <;> rfl

/-- a patch without `paused` leaves it as the typed object carries it -/
theorem usPaused_merge_none (k : Kind) (us : US) (p : PartV) :
    usPaused (normUS k (mergeRU us p none)) = usPaused (normUS k us) := by
  rcases us with _ | _ | ⟨t, _ | _ | ⟨p', pa', un⟩⟩ <;> cases k <;> rfl

/-- a patch with `paused: false` never leaves `paused: true` -/
theorem usPaused_merge_false (k : Kind) (us : US) (p : PartV) :
    usPaused (normUS k (mergeRU us p (some false))) ≠ some true := by
  rcases us with _ | _ | ⟨t, _ | _ | ⟨p', pa', un⟩⟩ <;> cases k <;> simp [mergeRU, normUS, usPaused]

theorem usPaused_merge_false_ds (us : US) (p : PartV) :
    usPaused (normUS .daemonSet (mergeRU us p (some false))) = some false := by
  rcases us with _ | _ | ⟨t, _ | _ | ⟨p', pa', un⟩⟩ <;> rfl

/-- patching twice is patching once -/
theorem merge_idem (k : Kind) (us : US) (p : PartV) (pa : Option Bool) :
    normUS k (mergeRU (normUS k (mergeRU us p pa)) p pa) = normUS k (mergeRU us p pa) := by
  rcases us with _ | _ | ⟨t, _ | _ | ⟨p', pa', un⟩⟩ <;> cases k <;> cases pa <;> try rfl
  all_goals
    simp only [mergeRU, normUS]
    first
      | rfl
      | (rename_i b; cases b <;> rfl)
      | (by_cases h : pa' = some true <;> simp [h])

theorem curPart_setPartition (us : US) (n : Int) : currentPartition (setPartition us n) = n := by
  rcases us with _ | _ | ⟨t, _ | _ | ⟨p', pa', un⟩⟩ <;> rfl

theorem effType_setPartition (us : US) (n : Int) : effType (setPartition us n) = effType us := by
  rcases us with _ | _ | ⟨t, _ | _ | ⟨p', pa', un⟩⟩ <;> rfl

theorem isUnordered_setPartition (k : Kind) (us : US) (n : Int) : isUnordered k (setPartition us n) = isUnordered k us := by
  rcases us with _ | _ | ⟨t, _ | _ | ⟨p', pa', un⟩⟩ <;> cases k <;> rfl

theorem usPaused_setPartition (us : US) (n : Int) : usPaused (setPartition us n) = usPaused us := by
  rcases us with _ | _ | ⟨t, _ | _ | ⟨p', pa', un⟩⟩ <;> rfl

theorem usType_setPartition (us : US) (n : Int) :
    (match us with
     | .present t _ => usType (setPartition us n) == t
     | _ => usType (setPartition us n) == "RollingUpdate") = true := by
  rcases us with _ | _ | ⟨t, _ | _ | ⟨p', pa', un⟩⟩ <;> simp [setPartition, usType]

/-! ### arithmetic of the exposure -/

theorem sizeOK_iff (r : Int) : sizeOK r = true ↔ 0 ≤ r ∧ r ≤ 32767 :=
  ⟨fun h => of_decide_eq_true h, fun h => decide_eq_true h⟩

theorem exposure_hold (r : Int) (h : sizeOK r = true) : exposure (int maxInt16) r = 0 := by
  obtain ⟨h0, h1⟩ := (sizeOK_iff r).mp h
  simp only [exposure, keptStable, scaledV, scaled, maxInt16]
  omega

theorem exposure_self (r : Int) (h : 0 ≤ r) : exposure (int r) r = 0 := by
  simp only [exposure, keptStable, scaledV, scaled]
  omega

theorem exposure_zero (r : Int) : exposure (int 0) r = max 0 r ∨ exposure (int 0) r = r := by
  simp only [exposure, keptStable, scaledV, scaled]
  omega

theorem exposure_zero' (r : Int) (h : 0 ≤ r) : exposure (int 0) r = r := by
  simp only [exposure, keptStable, scaledV, scaled]
  omega

theorem exposure_anti {a b : Int} (r : Int) (h : a ≤ b) : exposure (int b) r ≤ exposure (int a) r := by
  simp only [exposure, keptStable, scaledV, scaled]
  omega

theorem exposure_nonneg (p r : Int) (h : 0 ≤ r) : 0 ≤ exposure (int p) r := by
  simp only [exposure, keptStable, scaledV, scaled]
  omega

theorem nnValid_of (k : RV.BatchCtx.Kind) (r : Int) (nn : Option Int) (hr : 0 ≤ r) (hn : nnOK r nn = true)
    (hk : RV.Props.C01.partitionKind k = true) : RV.Props.C01.NnValid k r nn := by
  refine ⟨hr, ?_, Or.inl hk⟩
  intro x hx
  subst hx
  simpa [nnOK] using hn

theorem bkind_partition (w : Wl) : RV.Props.C01.partitionKind (bkind w) = true := by
  unfold bkind
  cases w.kind <;> simp only [] <;> (try split) <;> rfl

theorem bkind_cases (w : Wl) : bkind w = .stsOrdered ∨ bkind w = .stsUnordered ∨ bkind w = .daemonSet := by
  unfold bkind
  cases w.kind <;> simp only [] <;> (try split) <;> simp

/-- the desired knob of the three kinds is an integer -/
theorem desKnob_int (w : Wl) (r : Int) (e : IntOrPct) (nn : Option Int) :
    desKnob (bkind w) r e nn = int (desiredPartition w r e nn) := by
  unfold desiredPartition
  rcases bkind_cases w with h | h | h <;> rw [h] <;> simp only [desKnob]
  · cases nn <;> rfl
  · rfl
  · rfl

/-- C01.1 for the three kinds: what `CalculateBatchContext` asks for exposes at most what the step allows -/
theorem desired_exposure_bound (w : Wl) (r : Int) (e : IntOrPct) (nn : Option Int) (hr : 0 ≤ r) (hn : nnOK r nn = true) :
    exposure (int (desiredPartition w r e nn)) r ≤ allowed r e nn := by
  have h := RV.Props.C01.desKnob_exposure_bound (bkind w) r e nn (nnValid_of _ r nn hr hn (bkind_partition w))
  rw [desKnob_int] at h
  rcases bkind_cases w with hk | hk | hk <;> rw [hk] at h <;>
    simp only [exposureBound, exposureOf, reduceCtorEq, false_and, if_false] at h <;> exact of_decide_eq_true h

/-- C07 for the three kinds: what `CalculateBatchContext` asks for lets the workload reach `DesiredUpdatedReplicas`
    (an ordered update together with the `k` no-need-update pods) -/
theorem desired_suffices (w : Wl) (r : Int) (e : IntOrPct) (nn : Option Int) (hr : 0 ≤ r) (hn : nnOK r nn = true) :
    desiredOf (bkind w) r e nn ≤ exposure (int (desiredPartition w r e nn)) r + orderedExtra w nn := by
  have hk : ∀ k, nn = some k → 0 ≤ k ∧ k ≤ r := by
    intro x hx; subst hx; simpa [nnOK] using hn
  obtain ⟨hs0, hs1, hdes, _⟩ := plannedDesired_facts r e nn hr hk
  unfold desiredPartition orderedExtra
  generalize hds : desiredStable r e nn = ds at *
  rcases bkind_cases w with hb | hb | hb <;> rw [hb]
  · cases nn with
    | none =>
      simp only [desiredOf, desKnob, hds, hdes, intVal, exposure, keptStable, scaledV, scaled]
      omega
    | some k =>
      obtain ⟨hk0, hk1⟩ := hk k rfl
      simp only [desiredOf, desKnob, hds, intVal, exposure, keptStable, scaledV, scaled]
      split <;> omega
  · simp only [desiredOf, desKnob, hds, hdes, intVal, exposure, keptStable, scaledV, scaled]
    omega
  · simp only [desiredOf, desKnob, hds, hdes, intVal, exposure, keptStable, scaledV, scaled]
    split <;> omega

/-! ### the shape of a controller step -/

/-- what the controller call of step `s` would write on workload `w` of size `r` (`none`: nothing) -/
def writeOf (rel : Rel) (s : Step) (w : Wl) (r : Int) : Option Wl :=
  match s.call with
  | .initialize => ctrlInitialize w r
  | .upgradeBatch =>
    if r = 0 then none else
    match entryOf rel s.batch with
    | some e => ctrlUpgradeBatch w r e rel.noNeedUpdate
    | none => none
  | .finalize => some (ctrlFinalize w s.bpNil)
  | .submit => none

theorem commit_cases (w : Wl) (w' : Option Wl) (f : Fault) (obs : Option InitObs) :
    (w' = none ∧ commit w w' f obs = { res := .ok, wl := some w, writes := 0, obs := obs }) ∨
    (∃ x, w' = some x ∧ f = .write ∧ commit w w' f obs = { res := .err, wl := some w, writes := 1, obs := none }) ∨
    (∃ x, w' = some x ∧ f ≠ .write ∧ commit w w' f obs = { res := .ok, wl := some x, writes := 1, obs := obs }) := by
  cases w' with
  | none => left; exact ⟨rfl, rfl⟩
  | some x =>
    right
    by_cases hf : f = .write
    · left; exact ⟨x, rfl, hf, by simp [commit, hf]⟩
    · right; exact ⟨x, rfl, hf, by simp [commit, hf]⟩

/-- the read phase of a call fails: the Get does, or the List of the pods does and the pods are listed -/
def readFails (f : Fault) (w : Wl) : Prop := f = .list ∧ needsList w = true

instance (f : Fault) (w : Wl) : Decidable (readFails f w) := by unfold readFails; infer_instance

/-- The things a controller call can do. -/
theorem ctrl_step_cases (c : Cfg) (d : Option Wl) (s : Step) (o : StepOut)
    (hc : s.call ≠ .submit) (h : step c d s = .val o) :
    (s.fault = .get ∧ o.res = .err ∧ o.wl = d ∧ o.writes = 0) ∨
    (s.fault ≠ .get ∧ d = none ∧ o.wl = none ∧ o.writes = 0 ∧ o.res ≠ .rejected ∧ (o.res = .ok ↔ s.call = .finalize)) ∨
    (∃ w r, d = some w ∧ replicasOf w = some r ∧ s.fault ≠ .get ∧
      ((readFails s.fault w ∧ o.res = .err ∧ o.wl = d ∧ o.writes = 0) ∨
       (¬ readFails s.fault w ∧
         ((writeOf c.rel s w r = none ∧ o.res = .ok ∧ o.wl = some w ∧ o.writes = 0) ∨
          (∃ w', writeOf c.rel s w r = some w' ∧ s.fault = .write ∧ o.res = .err ∧ o.wl = some w ∧ o.writes = 1) ∨
          (∃ w', writeOf c.rel s w r = some w' ∧ s.fault ≠ .write ∧ o.res = .ok ∧ o.wl = some w' ∧ o.writes = 1))))) := by
  by_cases hg : s.fault = .get
  · left
    cases hcall : s.call <;> simp only [step, hcall, planeInitialize, planeUpgradeBatch, planeFinalize, build, hg, if_true] at h
    · cases h; exact ⟨hg, rfl, rfl, rfl⟩
    · cases h; exact ⟨hg, rfl, rfl, rfl⟩
    · cases h; exact ⟨hg, rfl, rfl, rfl⟩
    · exact absurd hcall hc
  · right
    cases d with
    | none =>
      left
      cases hcall : s.call <;> simp only [step, hcall, planeInitialize, planeUpgradeBatch, planeFinalize, build, hg, if_false] at h
      · cases h; exact ⟨hg, rfl, rfl, rfl, by simp, by simp⟩
      · cases h; exact ⟨hg, rfl, rfl, rfl, by simp, by simp⟩
      · cases h; exact ⟨hg, rfl, rfl, rfl, by simp, by simp⟩
      · exact absurd hcall hc
    | some w =>
      right
      cases hr : replicasOf w with
      | none =>
        cases hcall : s.call <;> simp only [step, hcall, planeInitialize, planeUpgradeBatch, planeFinalize, build, hg, if_false, hr] at h
        all_goals first | cases h | exact absurd hcall hc
      | some r =>
        refine ⟨w, r, rfl, hr, hg, ?_⟩
        by_cases hrf : readFails s.fault w
        · left
          have hrf' : (needsList w = true ∧ s.fault = .list) := ⟨hrf.2, hrf.1⟩
          cases hcall : s.call <;>
            simp only [step, hcall, planeInitialize, planeUpgradeBatch, planeFinalize, build, hg, hr, hrf', and_self, if_true, if_false] at h
          · cases h; exact ⟨hrf, rfl, rfl, rfl⟩
          · cases h; exact ⟨hrf, rfl, rfl, rfl⟩
          · cases h; exact ⟨hrf, rfl, rfl, rfl⟩
          · exact absurd hcall hc
        · right
          refine ⟨hrf, ?_⟩
          have hrf' : ¬ (needsList w = true ∧ s.fault = .list) := fun hh => hrf ⟨hh.2, hh.1⟩
          cases hcall : s.call
          · -- initialize
            simp only [step, hcall, planeInitialize, build, hg, if_false, hr, hrf', Out.val.injEq] at h
            have hw : writeOf c.rel s w r = ctrlInitialize w r := by simp [writeOf, hcall]
            rw [hw]
            rcases commit_cases w (ctrlInitialize w r) s.fault
                (some { observedReplicas := r, noNeedUpdate := noNeedUpdate c.rel })
              with ⟨h1, h2⟩ | ⟨x, h1, h2, h3⟩ | ⟨x, h1, h2, h3⟩
            · left; rw [h2] at h; subst h; exact ⟨h1, rfl, rfl, rfl⟩
            · right; left; rw [h3] at h; subst h; exact ⟨x, h1, h2, rfl, rfl, rfl⟩
            · right; right; rw [h3] at h; subst h; exact ⟨x, h1, h2, rfl, rfl, rfl⟩
          · -- upgradeBatch
            simp only [step, hcall, planeUpgradeBatch, build, hg, if_false, hr, hrf'] at h
            by_cases hr0 : r = 0
            · left
              simp only [hr0, if_true, Out.val.injEq] at h
              subst h
              exact ⟨by simp [writeOf, hcall, hr0], rfl, rfl, rfl⟩
            · simp only [hr0, if_false] at h
              by_cases hb : s.batch < 0
              · simp only [hb, if_true] at h; cases h
              · simp only [hb, if_false] at h
                cases he : c.rel.batches[s.batch.toNat]? with
                | none => simp only [he] at h; cases h
                | some e =>
                  simp only [he, Out.val.injEq] at h
                  have hw : writeOf c.rel s w r = ctrlUpgradeBatch w r e c.rel.noNeedUpdate := by
                    simp [writeOf, hcall, entryOf, hb, he, hr0]
                  rw [hw]
                  rcases commit_cases w (ctrlUpgradeBatch w r e c.rel.noNeedUpdate) s.fault none
                    with ⟨h1, h2⟩ | ⟨x, h1, h2, h3⟩ | ⟨x, h1, h2, h3⟩
                  · left; rw [h2] at h; subst h; exact ⟨h1, rfl, rfl, rfl⟩
                  · right; left; rw [h3] at h; subst h; exact ⟨x, h1, h2, rfl, rfl, rfl⟩
                  · right; right; rw [h3] at h; subst h; exact ⟨x, h1, h2, rfl, rfl, rfl⟩
          · -- finalize
            simp only [step, hcall, planeFinalize, build, hg, if_false, hr, hrf', Out.val.injEq] at h
            have hw : writeOf c.rel s w r = some (ctrlFinalize w s.bpNil) := by simp [writeOf, hcall]
            rw [hw]
            rcases commit_cases w (some (ctrlFinalize w s.bpNil)) s.fault none
              with ⟨h1, h2⟩ | ⟨x, h1, h2, h3⟩ | ⟨x, h1, h2, h3⟩
            · cases h1
            · right; left; rw [h3] at h; subst h; exact ⟨x, h1, h2, rfl, rfl, rfl⟩
            · right; right; rw [h3] at h; subst h; exact ⟨x, h1, h2, rfl, rfl, rfl⟩
          · exact absurd hcall hc

/-! ### what each controller call writes -/

theorem ctrlInitialize_some {w w' : Wl} {r : Int} (h : ctrlInitialize w r = some w') :
    w.control ≠ .this ∧
    w' = { w with control := .this, us := normUS w.kind (mergeRU w.us (.int (initPartition w r)) (some false)) } := by
  unfold ctrlInitialize at h
  split at h
  · cases h
  · rename_i hu
    simp only [Option.some.injEq] at h
    exact ⟨hu, h.symm⟩

theorem ctrlInitialize_none {w : Wl} {r : Int} (h : ctrlInitialize w r = none) : w.control = .this := by
  unfold ctrlInitialize at h
  split at h
  · assumption
  · cases h

theorem ctrlUpgradeBatch_some {w w' : Wl} {r : Int} {e : IntOrPct} {nn : Option Int}
    (h : ctrlUpgradeBatch w r e nn = some w') :
    desiredPartition w r e nn < currentPartition w.us ∧
    w' = { w with us := normUS w.kind (mergeRU w.us (.int (desiredPartition w r e nn)) none) } := by
  unfold ctrlUpgradeBatch at h
  simp only at h
  split at h
  · cases h
  · rename_i hlt
    simp only [Option.some.injEq] at h
    exact ⟨by omega, h.symm⟩

theorem ctrlUpgradeBatch_none {w : Wl} {r : Int} {e : IntOrPct} {nn : Option Int}
    (h : ctrlUpgradeBatch w r e nn = none) : currentPartition w.us ≤ desiredPartition w r e nn := by
  unfold ctrlUpgradeBatch at h
  simp only at h
  split at h
  · assumption
  · cases h

theorem ctrlFinalize_eq (w : Wl) (bpNil : Bool) :
    ctrlFinalize w bpNil =
      if bpNil then { w with us := normUS w.kind (mergeRU w.us .absent (finPaused w.kind)), control := .none }
      else { w with control := .none } := by
  unfold ctrlFinalize
  cases bpNil <;> simp

theorem replicasOf_congr {a b : Wl} (hk : a.kind = b.kind) (hr : a.replicas = b.replicas) : replicasOf a = replicasOf b := by
  unfold replicasOf; rw [hk, hr]

theorem needsList_congr {a b : Wl} (hk : a.kind = b.kind) (hr : a.updatedReady = b.updatedReady) : needsList a = needsList b := by
  unfold needsList; rw [hk, hr]

/-! ### the webhook step -/

theorem applyEdit_kind (d : Wl) (e : Edit) : (applyEdit d e).kind = d.kind := by
  unfold applyEdit
  cases e.tmpl <;> cases e.replicas <;> cases e.us <;> simp <;> split <;> rfl

theorem applyEdit_frame (d : Wl) (e : Edit) :
    (applyEdit d e).control = d.control ∧ (applyEdit d e).inProgress = d.inProgress ∧
    (applyEdit d e).updatedReady = d.updatedReady ∧ (applyEdit d e).rest = d.rest := by
  unfold applyEdit
  cases e.tmpl <;> cases e.replicas <;> cases e.us <;> simp <;> split <;> simp

theorem parseGV (k : Kind) : parseGroupVersion (apiVersionOf k) = some (groupOf k) := by
  cases k <;> decide +kernel

/-- the one Rollout of the world references the workload -/
theorem fetch_world (w : World) (new : Wl) :
    fetchMatchedRollout (toObj new) (worldRollouts w new.kind) =
      if w.matched then
        some { name := "ro", deleting := false, phaseDisabled := false, refApiVersion := apiVersionOf new.kind,
               refKind := kindName new.kind, refName := "wl", emptyRelease := false, hasTraffic := false }
      else none := by
  unfold worldRollouts
  cases w.matched
  · rfl
  · simp [fetchMatchedRollout, parseGV, toObj]

theorem effChange (d new : Wl) : isEffectiveRevisionChange (toObj d) (toObj new) = (d.tmpl != new.tmpl) := by
  simp [isEffectiveRevisionChange, toObj, equalIgnoreHash]
  by_cases h : d.tmpl = new.tmpl <;> simp [h]

theorem rolling_toObj (new : Wl) : isStatefulSetRollingUpdate (toObj new) = stsRolling new.us := by
  unfold isStatefulSetRollingUpdate toObj
  rcases new.us with _ | _ | ⟨t, _ | _ | ⟨_ | _ | _, pa, un⟩⟩ <;> rfl

theorem replicas0_toObj (new : Wl) : (getReplicasUnstructured (toObj new) == 0) = (new.replicas == some 0) := by
  unfold getReplicasUnstructured toObj
  cases new.replicas with
  | none => simp
  | some r => simp

theorem hasRU_toUS (us : US) :
    (match toUS us with
     | .present _ (.present _) => true
     | _ => false) = hasRU us := by
  rcases us with _ | _ | ⟨t, _ | _ | ⟨_ | _ | _, pa, un⟩⟩ <;> rfl

/-- the decision of `handleDaemonSet`, in terms of `relevant` -/
theorem decision_ds (w : World) (d new : Wl) (hk : new.kind = d.kind) (hd : d.kind = .daemonSet) :
    webhookDecision w d new =
      if relevant w d new = true then
        (if hasRU new.us = true then
           (match toUS new.us with
            | .present t _ => .ok true { toObj new with us := .present t (.present (some maxInt16)), inProgress := .rollout "ro" }
            | _ => .panic)
         else .panic)
      else .ok false (toObj new) := by
  have hf := fetch_world w new
  rw [hk, hd] at hf
  have hnk : new.kind = .daemonSet := by rw [hk, hd]
  simp only [webhookDecision, hd, handleDaemonSet, effChange, hf, relevant, hnk, Bool.and_true]
  by_cases ht : d.tmpl = new.tmpl
  · simp [ht]
  · have ht' : (d.tmpl != new.tmpl) = true := by simpa using ht
    simp only [ht', Bool.not_true, Bool.false_eq_true, if_false, Bool.and_true]
    cases hm : w.matched
    · simp
    · simp only [if_true, Bool.false_eq_true, if_false]
      have : (toObj new).us = toUS new.us := rfl
      rw [this]
      rcases new.us with _ | _ | ⟨t, _ | _ | ⟨_ | _ | _, pa, un⟩⟩ <;> simp [toUS, hasRU]
theorem decision_sts (w : World) (d new : Wl) (hk : new.kind = d.kind) (hd : d.kind ≠ .daemonSet) :
    webhookDecision w d new =
      if relevant w d new = true then
        .ok true { toObj new with us := setStatefulSetPartition (toUS new.us) maxInt16, inProgress := .rollout "ro" }
      else .ok false (toObj new) := by
  have hf := fetch_world w new
  rw [hk] at hf
  have hnk : new.kind ≠ .daemonSet := by rw [hk]; exact hd
  have hwd : webhookDecision w d new = handleStatefulSetLike (toObj new) (toObj d) true (worldRollouts w d.kind) := by
    unfold webhookDecision
    cases hh : d.kind <;> first | rfl | exact absurd hh hd
  have hrel : relevant w d new =
      (w.matched && (d.tmpl != new.tmpl) && (new.replicas != some 0 && stsRolling new.us && d.tmplPresent && new.tmplPresent)) := by
    unfold relevant
    cases hh : new.kind <;> first | rfl | exact absurd hh hnk
  rw [hwd, hrel]
  have ht1 : (toObj d).tmplPresent = d.tmplPresent := rfl
  have ht2 : (toObj new).tmplPresent = new.tmplPresent := rfl
  have hid : (toObj new).rolloutId = "" := rfl
  have hus : (toObj new).us = toUS new.us := rfl
  simp only [handleStatefulSetLike, effChange, hf, replicas0_toObj, rolling_toObj, ht1, ht2, hid, hus]
  by_cases hr0 : new.replicas = some 0 <;>
  cases w.matched <;> cases (d.tmpl != new.tmpl) <;> cases stsRolling new.us <;>
    cases d.tmplPresent <;> cases new.tmplPresent <;> simp [hr0]

/-- **what the webhook does to a user's update**, in terms of the specification `relevant`: a relevant change is
    admitted held and marked (a DaemonSet without `rollingUpdate` makes the handler panic), anything else is
    admitted as submitted. -/
theorem submit_spec (w : World) (d : Wl) (e : Edit) :
    submit w d e =
      if relevant w d (applyEdit d e) = true then
        (if dsNoRU (applyEdit d e) = true then none
         else some { applyEdit d e with us := setPartition (applyEdit d e).us maxInt16, inProgress := true })
      else some (applyEdit d e) := by
  have hk := applyEdit_kind d e
  unfold submit
  simp only
  generalize applyEdit d e = new at hk ⊢
  by_cases hd : d.kind = .daemonSet
  · rw [decision_ds w d new hk hd]
    have hnk : new.kind = .daemonSet := by rw [hk, hd]
    cases relevant w d new
    · simp
    · simp only [if_true, dsNoRU, hnk, beq_self_eq_true, Bool.true_and]
      rcases new.us with _ | _ | ⟨t, _ | _ | ⟨_ | _ | _, pa, un⟩⟩ <;> simp [toUS, hasRU]
  · rw [decision_sts w d new hk hd]
    have hnk : new.kind ≠ .daemonSet := by rw [hk]; exact hd
    cases relevant w d new
    · simp
    · simp [dsNoRU, hnk]

/-! ### the user's view -/

theorem view_applyEdit (d : Wl) (e : Edit) : view (applyEdit d e) = editView (view d) e := by
  unfold applyEdit editView view
  cases e.tmpl <;> cases e.replicas <;> cases e.us <;> simp <;> (try split) <;> simp_all

theorem view_setPartition (w : Wl) (n : Int) (b : Bool) :
    view { w with us := setPartition w.us n, inProgress := b } = view w := by
  simp only [view, effType_setPartition, isUnordered_setPartition]

theorem view_patch (w : Wl) (p : PartV) (pa : Option Bool) (c : Owner) :
    view { w with us := normUS w.kind (mergeRU w.us p pa), control := c } = view w := by
  simp only [view, effType_norm, effType_merge, isUnordered_norm, isUnordered_merge]

theorem view_control (w : Wl) (c : Owner) : view { w with control := c } = view w := rfl

/-- what a controller call writes has the view of what it read, the same in-progress marker, kind, size and
    `updatedReadyReplicas` -/
theorem writeOf_frame (rel : Rel) (s : Step) (w w' : Wl) (r : Int) (h : writeOf rel s w r = some w') :
    view w' = view w ∧ w'.inProgress = w.inProgress ∧ w'.kind = w.kind ∧ w'.replicas = w.replicas ∧
    w'.updatedReady = w.updatedReady ∧ { w' with us := w.us, control := w.control } = w := by
  unfold writeOf at h
  cases hc : s.call <;> simp only [hc] at h
  · obtain ⟨_, hw⟩ := ctrlInitialize_some h
    subst hw
    exact ⟨view_patch w _ _ _, rfl, rfl, rfl, rfl, rfl⟩
  · split at h
    · cases h
    · split at h
      · obtain ⟨_, hw⟩ := ctrlUpgradeBatch_some h
        subst hw
        exact ⟨view_patch w _ none w.control, rfl, rfl, rfl, rfl, rfl⟩
      · cases h
  · simp only [Option.some.injEq] at h
    subst h
    rw [ctrlFinalize_eq]
    cases s.bpNil
    · exact ⟨rfl, rfl, rfl, rfl, rfl, rfl⟩
    · exact ⟨view_patch w _ _ _, rfl, rfl, rfl, rfl, rfl⟩
  · cases h

/-! ### the shapes of what the steps write -/

/-- the admitted object of a relevant change -/
def heldOf (new : Wl) : Wl := { new with us := setPartition new.us maxInt16, inProgress := true }

/-- The three things a user's update can become. -/
theorem submit_step_cases (c : Cfg) (d0 : Wl) (s : Step) (o : StepOut) (hc : s.call = .submit)
    (h : step c (some d0) s = .val o) :
    (relevant c.world d0 (applyEdit d0 s.edit) = true ∧ dsNoRU (applyEdit d0 s.edit) = true ∧
       o = { res := .rejected, wl := some d0, writes := 0, obs := none }) ∨
    (relevant c.world d0 (applyEdit d0 s.edit) = true ∧ dsNoRU (applyEdit d0 s.edit) = false ∧
       o = { res := .ok, wl := some (heldOf (applyEdit d0 s.edit)), writes := 0, obs := none }) ∨
    (relevant c.world d0 (applyEdit d0 s.edit) = false ∧
       o = { res := .ok, wl := some (applyEdit d0 s.edit), writes := 0, obs := none }) := by
  simp only [step, hc] at h
  rw [submit_spec] at h
  cases hr : relevant c.world d0 (applyEdit d0 s.edit)
  · right; right
    simp only [hr, Bool.false_eq_true, if_false, Out.val.injEq] at h
    exact ⟨rfl, h.symm⟩
  · cases hn : dsNoRU (applyEdit d0 s.edit)
    · right; left
      simp only [hr, hn, if_true, Bool.false_eq_true, if_false, Out.val.injEq] at h
      exact ⟨rfl, rfl, h.symm⟩
    · left
      simp only [hr, hn, if_true, Out.val.injEq] at h
      exact ⟨rfl, rfl, h.symm⟩

theorem released_finalize (w : Wl) : released (ctrlFinalize w true) = true := by
  rw [ctrlFinalize_eq]
  simp only [if_true, released, partV_norm, partV_merge, curPart_norm, curPart_merge_absent, hasRU_norm, hasRU_merge,
    beq_self_eq_true, Bool.true_and, Bool.and_true]
  cases hk : w.kind <;> simp [finPaused, usPaused_merge_false_ds]

theorem holdFrame_heldOf (new : Wl) : holdFrame new (heldOf new) = true := by
  have h1 : ({ heldOf new with us := new.us, inProgress := new.inProgress } : Wl) = new := by cases new; rfl
  have h4 := usType_setPartition new.us maxInt16
  simp only [holdFrame, h1, beq_self_eq_true, Bool.true_and]
  have h2 : usPaused (heldOf new).us = usPaused new.us := usPaused_setPartition _ _
  have h3 : isUnordered (heldOf new).kind (heldOf new).us = isUnordered new.kind new.us := isUnordered_setPartition _ _ _
  have h5 : (heldOf new).us = setPartition new.us maxInt16 := rfl
  rw [h2, h3, h5]
  simp only [beq_self_eq_true, Bool.true_and]
  exact h4

theorem exposure_heldOf (new : Wl) (r : Int) (hr : replicasOf new = some r) (hs : sizeOK r = true) :
    exposureW (heldOf new) = 0 := by
  have h1 : replicasOf (heldOf new) = some r := by rw [← hr]; exact replicasOf_congr rfl rfl
  simp only [exposureW, h1]
  have : currentPartition (heldOf new).us = maxInt16 := curPart_setPartition _ _
  rw [this]
  exact exposure_hold r hs

/-- the workload `Initialize` writes -/
def claimed (w : Wl) (r : Int) : Wl :=
  { w with control := .this, us := normUS w.kind (mergeRU w.us (.int (initPartition w r)) (some false)) }

theorem exposure_claimed (w : Wl) (r : Int) (hr : replicasOf w = some r) (hs : sizeOK r = true) :
    exposureW (claimed w r) = 0 := by
  have h1 : replicasOf (claimed w r) = some r := by rw [← hr]; exact replicasOf_congr rfl rfl
  have h2 : currentPartition (claimed w r).us = initPartition w r := by
    simp only [claimed, curPart_norm, curPart_merge_int]
  simp only [exposureW, h1, h2]
  unfold initPartition
  cases w.kind
  · exact exposure_hold r hs
  · exact exposure_hold r hs
  · exact exposure_hold r hs
  · exact exposure_self r ((sizeOK_iff r).mp hs).1

/-- the workload `UpgradeBatch` writes -/
def upgraded (w : Wl) (r : Int) (e : IntOrPct) (nn : Option Int) : Wl :=
  { w with us := normUS w.kind (mergeRU w.us (.int (desiredPartition w r e nn)) none) }

theorem upgrade_write {rel : Rel} {s : Step} {w w' : Wl} {r : Int} (hcall : s.call = .upgradeBatch)
    (h : writeOf rel s w r = some w') :
    r ≠ 0 ∧ ∃ e, entryOf rel s.batch = some e ∧ desiredPartition w r e rel.noNeedUpdate < currentPartition w.us ∧
      w' = upgraded w r e rel.noNeedUpdate := by
  simp only [writeOf, hcall] at h
  split at h
  · cases h
  · rename_i hr0
    split at h
    · rename_i e he
      obtain ⟨hlt, hw'⟩ := ctrlUpgradeBatch_some h
      exact ⟨hr0, e, he, hlt, hw'⟩
    · cases h

theorem upgrade_nowrite {rel : Rel} {s : Step} {w : Wl} {r : Int} {e : IntOrPct} (hcall : s.call = .upgradeBatch)
    (hr0 : r ≠ 0) (he : entryOf rel s.batch = some e) (h : writeOf rel s w r = none) :
    currentPartition w.us ≤ desiredPartition w r e rel.noNeedUpdate := by
  simp only [writeOf, hcall, hr0, if_false, he] at h
  exact ctrlUpgradeBatch_none h

theorem upgraded_facts (w : Wl) (r : Int) (e : IntOrPct) (nn : Option Int) :
    replicasOf (upgraded w r e nn) = replicasOf w ∧
    currentPartition (upgraded w r e nn).us = desiredPartition w r e nn ∧
    partV (upgraded w r e nn).us = .int (desiredPartition w r e nn) ∧
    sameButPartition w (upgraded w r e nn) = true := by
  refine ⟨replicasOf_congr rfl rfl, ?_, ?_, ?_⟩
  · simp only [upgraded, curPart_norm, curPart_merge_int]
  · simp only [upgraded, partV_norm, partV_merge]
  · have h1 : ({ upgraded w r e nn with us := w.us } : Wl) = w := by cases w; rfl
    have h2 : effType (upgraded w r e nn).us = effType w.us := by simp only [upgraded, effType_norm, effType_merge]
    have h3 : usPaused (upgraded w r e nn).us = usPaused (normUS w.kind w.us) := usPaused_merge_none _ _ _
    have h4 : isUnordered (upgraded w r e nn).kind (upgraded w r e nn).us = isUnordered w.kind w.us := by
      simp only [upgraded, isUnordered_norm, isUnordered_merge]
    simp [sameButPartition, h1, h2, h3, h4]

theorem self_withinStep (rel : Rel) (batch : Int) (w : Wl) (o : StepOut) (h : o.wl = some w) :
    upgradeWithinStep rel batch (some w) o = true := by
  simp [upgradeWithinStep, h]

theorem finalize_facts (w : Wl) (b : Bool) :
    (ctrlFinalize w b).control = .none ∧ sameButKnobs w (ctrlFinalize w b) = true ∧
    (b = false → (ctrlFinalize w b).us = w.us) ∧
    (b = true → released (ctrlFinalize w b) = true ∧ effType (ctrlFinalize w b).us = effType w.us ∧
       isUnordered (ctrlFinalize w b).kind (ctrlFinalize w b).us = isUnordered w.kind w.us ∧
       (w.kind ≠ .daemonSet → usPaused (ctrlFinalize w b).us = usPaused (normUS w.kind w.us))) := by
  have h0 : ({ ctrlFinalize w b with us := w.us, control := w.control } : Wl) = w := by
    rw [ctrlFinalize_eq]; cases b <;> (cases w; rfl)
  refine ⟨by rw [ctrlFinalize_eq]; cases b <;> rfl, by simp [sameButKnobs, h0], ?_, ?_⟩
  · intro hb; subst hb; rw [ctrlFinalize_eq]; rfl
  · intro hb; subst hb
    refine ⟨released_finalize w, ?_, ?_, ?_⟩
    · rw [ctrlFinalize_eq]; simp only [if_true, effType_norm, effType_merge]
    · rw [ctrlFinalize_eq]; simp only [if_true, isUnordered_norm, isUnordered_merge]
    · intro hk
      rw [ctrlFinalize_eq]
      simp only [if_true]
      have : finPaused w.kind = none := by
        unfold finPaused; cases hh : w.kind <;> first | rfl | exact absurd hh hk
      rw [this]
      exact usPaused_merge_none _ _ _

theorem applyEdit_quiet (d : Wl) (e : Edit) (h1 : e.replicas = none) (h2 : e.us = none) :
    (applyEdit d e).us = d.us ∧ (applyEdit d e).replicas = d.replicas ∧ (applyEdit d e).kind = d.kind := by
  unfold applyEdit
  rw [h1, h2]
  cases e.tmpl <;> exact ⟨rfl, rfl, rfl⟩

theorem stepAllow_nonneg (rel : Rel) (r : Int) (s : Step) : 0 ≤ stepAllow rel r s := by
  unfold stepAllow
  cases s.call <;> simp only []
  · exact Int.le_refl 0
  · split
    · exact Int.le_max_left _ _
    · exact Int.le_refl 0
  · split
    · exact Int.le_max_left _ _
    · exact Int.le_refl 0
  · exact Int.le_refl 0

/-- One step of a walk (the user neither scales nor edits the update strategy): the workload is still there, has the
    same size, and lets move at most what it did or what the step allows. -/
theorem step_exposure (c : Cfg) (d : Wl) (r : Int) (s : Step) (o : StepOut)
    (hrep : replicasOf d = some r) (hs : sizeOK r = true) (hnn : nnOK r c.rel.noNeedUpdate = true)
    (hq1 : s.edit.replicas = none) (hq2 : s.edit.us = none) (h : step c (some d) s = .val o) :
    ∃ d', o.wl = some d' ∧ replicasOf d' = some r ∧ exposureW d' ≤ max (exposureW d) (stepAllow c.rel r s) := by
  have hr0 : 0 ≤ r := ((sizeOK_iff r).mp hs).1
  have ha0 := stepAllow_nonneg c.rel r s
  have same : ∀ d', replicasOf d' = some r → exposureW d' = exposureW d → o.wl = some d' →
      ∃ d', o.wl = some d' ∧ replicasOf d' = some r ∧ exposureW d' ≤ max (exposureW d) (stepAllow c.rel r s) := by
    intro d' h1 h2 h3
    exact ⟨d', h3, h1, by rw [h2]; exact Int.le_max_left _ _⟩
  have zero : ∀ d', replicasOf d' = some r → exposureW d' = 0 → o.wl = some d' →
      ∃ d', o.wl = some d' ∧ replicasOf d' = some r ∧ exposureW d' ≤ max (exposureW d) (stepAllow c.rel r s) := by
    intro d' h1 h2 h3
    exact ⟨d', h3, h1, by rw [h2]; omega⟩
  by_cases hc : s.call = .submit
  · obtain ⟨e1, e2, e3⟩ := applyEdit_quiet d s.edit hq1 hq2
    have hrn : replicasOf (applyEdit d s.edit) = some r := by rw [replicasOf_congr e3 e2]; exact hrep
    rcases submit_step_cases c d s o hc h with ⟨_, _, ho⟩ | ⟨_, _, ho⟩ | ⟨_, ho⟩ <;> subst ho
    · exact same d hrep rfl rfl
    · exact zero _ (by rw [← hrn]; exact replicasOf_congr rfl rfl) (exposure_heldOf _ r hrn hs) rfl
    · exact same _ hrn (by simp only [exposureW, hrn, hrep, e1]) rfl
  · rcases ctrl_step_cases c (some d) s o hc h with ⟨_, _, hwl, _⟩ | ⟨_, hd, _⟩ |
        ⟨w, r', hd, hrep', _, ⟨_, _, hwl, _⟩ | ⟨_, hrest⟩⟩
    · exact same d hrep rfl hwl
    · cases hd
    · exact same d hrep rfl hwl
    · simp only [Option.some.injEq] at hd; subst hd
      rw [hrep] at hrep'; cases hrep'
      rcases hrest with ⟨_, _, hwl, _⟩ | ⟨w', _, _, _, hwl, _⟩ | ⟨w', hsome, _, _, hwl, _⟩
      · exact same d hrep rfl hwl
      · exact same d hrep rfl hwl
      · cases hcall : s.call
        · simp only [writeOf, hcall] at hsome
          obtain ⟨_, hw'⟩ := ctrlInitialize_some hsome
          have hw'' : w' = claimed d r := hw'
          subst hw''
          exact zero _ (by rw [← hrep]; exact replicasOf_congr rfl rfl) (exposure_claimed d r hrep hs) hwl
        · obtain ⟨_, e, he, _, hw'⟩ := upgrade_write hcall hsome
          subst hw'
          obtain ⟨f1, f2, _, _⟩ := upgraded_facts d r e c.rel.noNeedUpdate
          refine ⟨_, hwl, by rw [f1]; exact hrep, ?_⟩
          have hb := desired_exposure_bound d r e c.rel.noNeedUpdate hr0 hnn
          have hal : stepAllow c.rel r s = max 0 (allowed r e c.rel.noNeedUpdate) := by simp [stepAllow, hcall, he]
          simp only [exposureW, f1, hrep, f2, hal]
          omega
        · simp only [writeOf, hcall, Option.some.injEq] at hsome
          subst hsome
          have hrf : replicasOf (ctrlFinalize d s.bpNil) = some r := by
            rw [← hrep]; rw [ctrlFinalize_eq]; cases s.bpNil <;> exact replicasOf_congr rfl rfl
          cases hb : s.bpNil
          · apply same _ (by rw [hb] at hrf; exact hrf) _ (by rw [hb] at hwl; exact hwl)
            simp only [exposureW, ctrlFinalize_eq]
            rfl
          · refine ⟨_, hwl, hrf, ?_⟩
            have hal : stepAllow c.rel r s = max 0 r := by simp [stepAllow, hcall, hb]
            have hcp : currentPartition (ctrlFinalize d true).us = 0 := by
              rw [ctrlFinalize_eq]; simp only [if_true, curPart_norm, curPart_merge_absent]
            rw [hb] at hrf
            simp only [hb, exposureW, hrf, hcp, hal, exposure_zero' r hr0]
            omega
        · exact absurd hcall hc

/-- when a step panics -/
theorem step_panic_cases (c : Cfg) (d : Option Wl) (s : Step) (h : step c d s = .panic) :
    (∃ w, d = some w ∧ replicasOf w = none) ∨
    (s.call = .upgradeBatch ∧ ∃ w r, d = some w ∧ replicasOf w = some r ∧ r ≠ 0 ∧ entryOf c.rel s.batch = none) := by
  by_cases hg : s.fault = .get
  · cases hc : s.call <;> simp [step, hc, planeInitialize, planeUpgradeBatch, planeFinalize, build, hg] at h
    cases d <;> simp at h
    split at h <;> cases h
  · cases d with
    | none =>
      cases hc : s.call <;> simp [step, hc, planeInitialize, planeUpgradeBatch, planeFinalize, build, hg] at h
    | some w =>
      cases hr : replicasOf w with
      | none => left; exact ⟨w, rfl, hr⟩
      | some r =>
        right
        by_cases hl : needsList w = true ∧ s.fault = .list
        · cases hc : s.call <;>
            simp only [step, hc, planeInitialize, planeUpgradeBatch, planeFinalize, build, hg, if_false, hr, hl, and_self, if_true] at h
          all_goals first | cases h | (split at h <;> cases h)
        · cases hc : s.call
          · simp only [step, hc, planeInitialize, build, hg, if_false, hr, hl] at h
            cases h
          · simp only [step, hc, planeUpgradeBatch, build, hg, if_false, hr, hl] at h
            refine ⟨rfl, w, r, rfl, hr, ?_⟩
            by_cases hr0 : r = 0
            · simp [hr0] at h
            · refine ⟨hr0, ?_⟩
              simp only [hr0, if_false] at h
              by_cases hb : s.batch < 0
              · simp [entryOf, hb]
              · simp only [hb, if_false] at h
                cases he : c.rel.batches[s.batch.toNat]? with
                | none => simp [entryOf, hb, he]
                | some e => simp only [he] at h; cases h
          · simp only [step, hc, planeFinalize, build, hg, if_false, hr, hl] at h
            cases h
          · simp only [step, hc] at h
            split at h <;> cases h

/-! ### the pods behind the readiness verdict -/

theorem foldl_count (f : Pod → Bool) (pods : List Pod) : ∀ n : Int,
    pods.foldl (fun count p => if f p then count + 1 else count) n = n + ((pods.filter f).length : Nat) := by
  induction pods with
  | nil => intro n; simp
  | cons p ps ih =>
    intro n
    simp only [List.foldl_cons, List.filter_cons]
    cases hf : f p
    · simp only [Bool.false_eq_true, if_false]; exact ih n
    · simp only [if_true, List.length_cons]; rw [ih]; omega

theorem wrappedPodCount_eq (f : Pod → Bool) (pods : List Pod) :
    wrappedPodCount f pods = ((pods.filter f).length : Nat) := by
  unfold wrappedPodCount
  rw [foldl_count]; omega

theorem counted_iff (rev : String) (p : Pod) :
    ((countsFilter rev p &&
      (if isCompleted p then false else if !isOwned p.owner then false else true)) && (p.inNamespace && p.selMatch)) =
    liveReadyUpdated rev p := by
  unfold countsFilter liveReadyUpdated livePod
  cases p.inNamespace <;> cases p.selMatch <;> cases isCompleted p <;> cases isOwned p.owner <;>
    cases p.terminating <;> cases isConsistent p rev <;> cases isPodReady p <;> rfl

theorem updatedReadyOf_eq (rev : String) (pods : List Pod) :
    updatedReadyOf rev pods = liveReadyUpdatedCount rev pods := by
  unfold updatedReadyOf liveReadyUpdatedCount listOwned
  rw [wrappedPodCount_eq, List.filter_filter, List.filter_filter]
  congr 2
  apply List.filter_congr
  intro p _
  exact counted_iff rev p

theorem lruCount_cons (rev : String) (p : Pod) (ps : List Pod) :
    liveReadyUpdatedCount rev (p :: ps) = (if liveReadyUpdated rev p = true then 1 else 0) + liveReadyUpdatedCount rev ps := by
  unfold liveReadyUpdatedCount
  simp only [List.filter_cons]
  cases liveReadyUpdated rev p <;> simp <;> omega

theorem lruCount_append (rev : String) (xs ys : List Pod) :
    liveReadyUpdatedCount rev (xs ++ ys) = liveReadyUpdatedCount rev xs + liveReadyUpdatedCount rev ys := by
  unfold liveReadyUpdatedCount
  simp only [List.filter_append, List.length_append]
  omega

theorem lruCount_nonneg (rev : String) (pods : List Pod) : 0 ≤ liveReadyUpdatedCount rev pods := by
  unfold liveReadyUpdatedCount; omega

theorem degradePod_not_counted (rev : String) (h : Degrade) (p q : Pod) (hq : degradePod h p = some q) :
    liveReadyUpdated rev q = false := by
  cases h <;> simp only [degradePod, Option.some.injEq, reduceCtorEq] at hq <;> subst hq
  · -- notReady
    have : isPodReady { p with conds := [("Ready", "False")] } = false := by
      simp [isPodReady, List.find?]
    simp [liveReadyUpdated, this]
  · simp [liveReadyUpdated, livePod]
  · have : isConsistent { p with hashLabel := "", revLabel := "" } rev = false := by
      simp [isConsistent]
    simp [liveReadyUpdated, this]
  · have : isCompleted { p with phase := "Failed" } = true := by simp [isCompleted]
    simp [liveReadyUpdated, livePod, this]
  · simp [liveReadyUpdated, livePod, isOwned]

theorem degradeAt_none (h : Degrade) : ∀ (i : Nat) (pods : List Pod), pods[i]? = none → degradeAt h i pods = pods := by
  intro i pods
  induction pods generalizing i with
  | nil => intro _; cases i <;> rfl
  | cons p ps ih =>
    intro hi
    cases i with
    | zero => simp at hi
    | succ i =>
      simp only [List.getElem?_cons_succ] at hi
      simp only [degradeAt, ih i hi]

/-- a pod that degrades is no longer counted; every other pod is counted as before -/
theorem lruCount_degradeAt (rev : String) (h : Degrade) : ∀ (i : Nat) (pods : List Pod) (p : Pod), pods[i]? = some p →
    liveReadyUpdatedCount rev (degradeAt h i pods) =
      liveReadyUpdatedCount rev pods - (if liveReadyUpdated rev p = true then 1 else 0) := by
  intro i pods
  induction pods generalizing i with
  | nil => intro p hp; simp at hp
  | cons a as ih =>
    intro p hp
    cases i with
    | zero =>
      simp only [List.getElem?_cons_zero, Option.some.injEq] at hp
      subst hp
      simp only [degradeAt]
      cases hq : degradePod h a with
      | none => simp only [Option.toList, List.nil_append, lruCount_cons]; omega
      | some q =>
        have := degradePod_not_counted rev h a q hq
        simp only [Option.toList, List.cons_append, List.nil_append, lruCount_cons, this, Bool.false_eq_true, if_false]
        omega
    | succ i =>
      simp only [List.getElem?_cons_succ] at hp
      simp only [degradeAt, lruCount_cons, ih i p hp]
      omega

theorem needsList_false {w : Wl} (h : needsList w = false) : 0 < w.updatedReady := by
  unfold needsList at h
  cases hk : w.kind <;> simp only [hk, reduceCtorEq, decide_eq_false_iff_not] at h
  omega

theorem readyPods_nonneg (w : Wl) (cl : Cluster) : 0 ≤ readyPods w cl := by
  unfold readyPods
  cases h : needsList w
  · have := needsList_false h
    simp only [Bool.false_eq_true, if_false]; omega
  · simp only [if_true]; exact lruCount_nonneg _ _

theorem countersOf_updatedReady (w : Wl) (r : Int) (cl : Cluster) : (countersOf w r cl).updatedReady = readyPods w cl := by
  unfold countersOf readyPods
  simp only [updatedReadyOf_eq]

theorem countersOf_exact (w : Wl) (r : Int) (cl : Cluster) (hr : replicasOf w = some r) :
    countersExact w cl (countersOf w r cl) = true := by
  simp only [countersExact, countersOf_updatedReady, hr]
  simp [countersOf]

/-- The things a readiness check can answer. -/
theorem planeVerdict_cases (rel : Rel) (batch : Int) (d : Option Wl) (cl : Cluster) (f : Fault) (o : VerdictOut)
    (h : planeVerdict rel batch d cl f = .val o) :
    o.writes = 0 ∧
    ((o.counters = none ∧ o.ctx = none ∧ o.verdict = .err ∧
        (d = none ∨ ∃ w, d = some w ∧ readsOK f w = false)) ∨
     (∃ w r, d = some w ∧ replicasOf w = some r ∧ readsOK f w = true ∧ o.counters = some (countersOf w r cl) ∧
        ((r = 0 ∧ o.ctx = none ∧ o.verdict = .is .ok) ∨
         (r ≠ 0 ∧ ∃ e, entryOf rel batch = some e ∧ o.ctx = some (batchCtxOf rel w (countersOf w r cl) e) ∧
            o.verdict = .is (isBatchReady (batchCtxOf rel w (countersOf w r cl) e) none))))) := by
  unfold planeVerdict at h
  by_cases hg : f = .get
  · simp only [build, hg, if_true, Out.val.injEq] at h
    subst h
    refine ⟨rfl, Or.inl ⟨rfl, rfl, rfl, ?_⟩⟩
    cases d with
    | none => exact Or.inl rfl
    | some w => exact Or.inr ⟨w, rfl, by simp [readsOK, hg]⟩
  · cases d with
    | none =>
      simp only [build, hg, if_false, Out.val.injEq] at h
      subst h
      exact ⟨rfl, Or.inl ⟨rfl, rfl, rfl, Or.inl rfl⟩⟩
    | some w =>
      cases hr : replicasOf w with
      | none => simp only [build, hg, if_false, hr] at h; cases h
      | some r =>
        by_cases hl : needsList w = true ∧ f = .list
        · simp only [build, hg, if_false, hr, hl, and_self, if_true, reduceCtorEq, Out.val.injEq] at h
          subst h
          exact ⟨rfl, Or.inl ⟨rfl, rfl, rfl, Or.inr ⟨w, rfl, by simp [readsOK, hl.1, hl.2]⟩⟩⟩
        · have hro : readsOK f w = true := by
            simp only [readsOK, Bool.and_eq_true, bne_iff_ne, ne_eq, Bool.not_eq_true', Bool.and_eq_false_iff,
              beq_eq_false_iff_ne]
            refine ⟨hg, ?_⟩
            by_cases hfl : f = .list
            · right
              cases hn : needsList w
              · rfl
              · exact absurd ⟨hn, hfl⟩ hl
            · left; exact hfl
          simp only [build, hg, if_false, hr, hl] at h
          by_cases hr0 : r = 0
          · simp only [hr0, if_true, Out.val.injEq] at h
            subst h
            refine ⟨rfl, Or.inr ⟨w, r, rfl, hr, hro, by simp [hr0], Or.inl ⟨hr0, rfl, rfl⟩⟩⟩
          · simp only [hr0, if_false] at h
            by_cases hb : batch < 0
            · simp only [hb, if_true] at h; cases h
            · simp only [hb, if_false] at h
              cases he : rel.batches[batch.toNat]? with
              | none => simp only [he] at h; cases h
              | some e =>
                simp only [he, Out.val.injEq] at h
                subst h
                refine ⟨rfl, Or.inr ⟨w, r, rfl, hr, hro, rfl, Or.inr ⟨hr0, e, by simp [entryOf, hb, he], rfl, rfl⟩⟩⟩

end RV.CtlSts
