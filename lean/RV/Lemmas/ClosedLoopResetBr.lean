/-
  Supersession, label `br`: a BatchRelease reconcile preserves the reset invariant.
-/
import RV.Lemmas.ClosedLoopHolds
namespace RV.Lemmas.ClosedLoop
open RV.Arith RV.ClosedLoop RV.Oracle.ClosedLoop

/-! ### taking the reset invariant apart -/

theorem resetbr_inv_iff (s : CS) :
    resetInv s = true ↔ roOK s = true ∧ ∃ w, s.wl = some w ∧ wlOK w = true ∧ planMono w.replicas (planOf s.ro) = true ∧
      brOKo s.br = true ∧ s.ro.phase = .progressing ∧ s.ro.reason = .inRolling ∧
      (∃ sub, s.ro.sub = some sub ∧ sub.canaryRev ≠ "" ∧ sub.canaryRev ≠ w.updateRevision) ∧
      w.updateRevision ≠ w.currentRevision ∧ 0 < w.replicas ∧ w.updated = 0 ∧ held w = true ∧ brHoldsO s.br w = true := by
  unfold resetInv
  cases hw : s.wl with
  | none => simp
  | some w =>
    cases hs : s.ro.sub with
    | none => simp
    | some sub => simp [Bool.and_eq_true, and_assoc]

/-! ### the landed workload -/

/-- `brHolds` reads of the workload only its update revision and its size -/
theorem resetbr_brHolds_land (b : CBr) (w : CWl) (ew : Executor.Workload) : brHolds b (landW w ew) = brHolds b w := rfl

theorem resetbr_brHoldsO_land (br : Option CBr) (w : CWl) (ew : Executor.Workload) :
    brHoldsO br (landW w ew) = brHoldsO br w := by
  cases br with
  | none => rfl
  | some b => rfl

theorem resetbr_held_land (w : CWl) (ew : Executor.Workload) (hp : ew.partition = w.partition) (h : held w = true) :
    held (landW w ew) = true := by
  unfold held at h ⊢
  show (ew.partition == some (.pct 100)) = true
  rw [hp]; exact h

theorem resetbr_wlOK_land (w : CWl) (ew : Executor.Workload) (hp : ew.partition = w.partition) (h : wlOK w = true) :
    wlOK (landW w ew) = true := by
  apply wlOK_land w ew h
  intro k hk
  rw [hp] at hk
  exact (wlOK_facts w h).2 k hk

theorem resetbr_wlOK_st (w : CWl) (h : wlOK w = true) : w.statusReplicas = w.replicas := by
  unfold wlOK at h
  simp only [Bool.and_eq_true, beq_iff_eq] at h
  exact h.1.1.1.1

/-! ### the step -/

theorem stepBr_reset (s : CS) (h : resetInv s = true) : ∃ s', stepBr s = some s' ∧ resetInv s' = true := by
  obtain ⟨hro, w, hw, hwok, hmono, hbrok, hph, hr, ⟨sub, hsub, hc1, hc2⟩, hne, hR, hupd, hheld, hholds⟩ :=
    (resetbr_inv_iff s).1 h
  cases hb : s.br with
  | none => exact ⟨s, by unfold stepBr; rw [hb], h⟩
  | some b =>
    rw [hb] at hbrok hholds
    have hbok : brOK b = true := hbrok
    have hbh : brHolds b w = true := hholds
    obtain ⟨_, h0, _, _, _⟩ := (brOK_iff b).1 hbok
    cases hrec : Executor.reconcile (exBr b) (some (exWl w)) with
    | panic => exact absurd hrec (exec_total (exBr b) _ h0)
    | val o =>
      obtain ⟨⟨ew, hew, hpart, _⟩, hholds'⟩ :=
        holds_step b w o hrec hbh hbok (resetbr_wlOK_st w hwok) hR hupd hne
      have hstep : stepBr s = some (landBr s b o) := by
        unfold stepBr
        rw [hb]
        dsimp only
        rw [hw]
        simp only [Option.map_some]
        rw [hrec]
      refine ⟨_, hstep, ?_⟩
      have hwl' : (landBr s b o).wl = some (landW w ew) := by
        show wlLand s.wl o.wl = _
        rw [hw, hew]; rfl
      refine (resetbr_inv_iff (landBr s b o)).2
        ⟨hro, landW w ew, hwl', resetbr_wlOK_land w ew hpart hwok, hmono, brOKo_land b _ o hrec hbok, hph, hr,
         ⟨sub, hsub, hc1, hc2⟩, hne, hR, hupd, resetbr_held_land w ew hpart hheld, ?_⟩
      show brHoldsO (o.br.map (stLand b)) (landW w ew) = true
      rw [resetbr_brHoldsO_land]
      exact hholds'

end RV.Lemmas.ClosedLoop
