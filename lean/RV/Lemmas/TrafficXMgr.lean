/-
  Facts about the Service part of the Manager model (`svcStepX`) and about the retry-style calls
  (`restoreStableServiceX`, `removeCanaryServiceX`, `restoreGatewayX`), used by `RV/Props/TrafficXThms.lean`.
-/
import RV.Lemmas.TrafficX
namespace RV.TrafficX
open RV.Traffic RV.Oracle.TrafficX

variable {S G : Type}

/-! ## the Service part of `DoTrafficRouting` -/

/-- the writes the Service part can issue -/
def SvcWritesOnly (ws : List String) : Prop :=
  ∀ w, w ∈ ws → w = "createCanarySvc" ∨ w = "patchCanarySvc" ∨ w = "patchStable"

theorem SvcWritesOnly.not_provider {ws : List String} (h : SvcWritesOnly ws) : providerTouched ws = false := by
  unfold providerTouched
  rw [List.any_eq_false]
  intro w hw
  rcases h w hw with e | e | e <;> subst e <;> decide

theorem servicesInPlace_noGen {c : XCtx S} {n : XNet G} (h : c.noGen = true) : servicesInPlace c n = true := by
  simp [servicesInPlace, h]

theorem SvcWritesOnly.nil : SvcWritesOnly [] := fun _ h => by cases h
theorem SvcWritesOnly.of_mem {ws : List String}
    (h : ∀ w, w ∈ ws → w ∈ ["createCanarySvc", "patchCanarySvc", "patchStable"]) : SvcWritesOnly ws := by
  intro w hw
  have := h w hw
  simp only [List.mem_cons, List.not_mem_nil, or_false] at this
  exact this

theorem sel_of_getD {x : Option String} {r : String} (h : x.getD "" = r) (hr : r ≠ "") : x = some r := by
  cases x with
  | none => simp at h; exact absurd h hr
  | some v => simp at h; rw [h]

/-- everything the Service part can do, by outcome -/
theorem svcStepX_spec (c : XCtx S) (a : Api) (n : XNet G) :
    (svcStepX c a n = .wait ∧ c.noGen = false ∧ (c.stableRev = "" ∨ c.canaryRev = "")) ∨
    (∃ n2 ws a2, svcStepX c a n = .fail n2 ws a2 ∧ c.noGen = false ∧ n2.g = n.g ∧ n2.stableExists = n.stableExists ∧
      SvcWritesOnly ws ∧ (a2.armed = true → a.armed = true)) ∨
    (∃ n2 ws a2, svcStepX c a n = .ok n2 ws a2 ∧ n2.g = n.g ∧ n2.stableExists = n.stableExists ∧
      servicesInPlace c n2 = true ∧ SvcWritesOnly ws ∧ (ws = [] → n2 = n) ∧
      (a2.armed = true → a.armed = true) ∧ readFailed a a2 = false) := by
  unfold svcStepX
  by_cases hng : c.noGen = true
  · right; right
    exact ⟨n, [], a, (by simp [hng]), rfl, rfl, servicesInPlace_noGen hng, SvcWritesOnly.nil, (fun _ => rfl),
      (fun h => h), readFailed_self a⟩
  · have hng' : c.noGen = false := by simpa using hng
    simp only [hng', Bool.false_eq_true, if_false]
    by_cases hrev : c.stableRev = "" ∨ c.canaryRev = ""
    · left; exact ⟨(by simp [hrev]), trivial, hrev⟩
    · simp only [hrev, if_false]
      have hsr : c.stableRev ≠ "" := fun h => hrev (Or.inl h)
      rcases Api.read_cases a with ⟨hr, har, hr2⟩ | ⟨hr, hr2⟩
      · -- the Get of the canary Service fails
        right; left
        refine ⟨n, [], a.read.2, ?_, trivial, rfl, rfl, SvcWritesOnly.nil, (fun h => by rw [hr2] at h; cases h)⟩
        rw [show a.read = (a.read.1, a.read.2) from rfl, hr]
        simp
      · rw [show a.read = (a.read.1, a.read.2) from rfl, hr]
        simp only [Bool.false_eq_true, if_false]
        generalize a.read.2 = a1 at hr2
        have mono : ∀ x : Api, x.armed = a1.armed → (x.armed = true → a.armed = true) := by
          intro x hx h; rw [← hr2, ← hx]; exact h
        have rf0 : ∀ x : Api, x.armed = a1.armed → readFailed a x = false := by
          intro x hx; unfold readFailed; rw [hx, hr2]; cases a.armed <;> rfl
        have sip : ∀ (st : Option String), servicesInPlace c
            ({ stableExists := n.stableExists, stableSel := some c.stableRev, canarySvc := some c.canaryRev, g := n.g } : XNet G) = true := by
          intro _; simp [servicesInPlace]
        -- canary Service
        cases hcs : n.canarySvc with
        | none =>
          cases hsp : a1.spend with
          | none =>
            right; left
            exact ⟨n, [], a1, (by simp), trivial, rfl, rfl, SvcWritesOnly.nil, mono a1 rfl⟩
          | some a2 =>
            have ha2 := Api.spend_armed hsp
            simp only []
            by_cases hst : n.stableSel.getD "" = c.stableRev
            · right; right
              refine ⟨{ n with canarySvc := some c.canaryRev }, ["createCanarySvc"], a2, (by simp [hst]), rfl, rfl, ?_,
                SvcWritesOnly.of_mem (by simp), (fun h => by cases h), mono a2 ha2, rf0 a2 ha2⟩
              simp [servicesInPlace, sel_of_getD hst hsr]
            · cases hsp2 : a2.spend with
              | none =>
                right; left
                exact ⟨{ n with canarySvc := some c.canaryRev }, ["createCanarySvc"], a2, (by simp [hst, hsp2]), trivial, rfl, rfl,
                  SvcWritesOnly.of_mem (by simp), mono a2 ha2⟩
              | some a3 =>
                have ha3 := (Api.spend_armed hsp2).trans ha2
                right; right
                exact ⟨{ n with canarySvc := some c.canaryRev, stableSel := some c.stableRev },
                  ["createCanarySvc", "patchStable"], a3, (by simp [hst, hsp2]), rfl, rfl, (by simp [servicesInPlace]),
                  SvcWritesOnly.of_mem (by simp), (fun h => by cases h), mono a3 ha3, rf0 a3 ha3⟩
        | some r =>
          by_cases hr' : r = c.canaryRev
          · subst hr'
            simp only [ne_eq, not_true_eq_false, if_false]
            by_cases hst : n.stableSel.getD "" = c.stableRev
            · right; right
              refine ⟨n, [], a1, (by simp [hst]), rfl, rfl, ?_, SvcWritesOnly.nil, (fun _ => rfl), mono a1 rfl, rf0 a1 rfl⟩
              simp [servicesInPlace, sel_of_getD hst hsr, hcs]
            · cases hsp2 : a1.spend with
              | none =>
                right; left
                exact ⟨n, [], a1, (by simp [hst, hsp2]), trivial, rfl, rfl, SvcWritesOnly.nil, mono a1 rfl⟩
              | some a3 =>
                have ha3 := Api.spend_armed hsp2
                right; right
                exact ⟨{ n with stableSel := some c.stableRev }, ["patchStable"], a3, (by simp [hst, hsp2]), rfl, rfl,
                  (by simp [servicesInPlace, hcs]), SvcWritesOnly.of_mem (by simp), (fun h => by cases h),
                  mono a3 ha3, rf0 a3 ha3⟩
          · simp only [ne_eq, hr', not_false_eq_true, if_true]
            cases hsp : a1.spend with
            | none =>
              right; left
              exact ⟨n, [], a1, (by simp), trivial, rfl, rfl, SvcWritesOnly.nil, mono a1 rfl⟩
            | some a2 =>
              have ha2 := Api.spend_armed hsp
              simp only []
              by_cases hst : n.stableSel.getD "" = c.stableRev
              · right; right
                refine ⟨{ n with canarySvc := some c.canaryRev }, ["patchCanarySvc"], a2, (by simp [hst]), rfl, rfl, ?_,
                  SvcWritesOnly.of_mem (by simp), (fun h => by cases h), mono a2 ha2, rf0 a2 ha2⟩
                simp [servicesInPlace, sel_of_getD hst hsr]
              · cases hsp2 : a2.spend with
                | none =>
                  right; left
                  exact ⟨{ n with canarySvc := some c.canaryRev }, ["patchCanarySvc"], a2, (by simp [hst, hsp2]), trivial, rfl, rfl,
                    SvcWritesOnly.of_mem (by simp), mono a2 ha2⟩
                | some a3 =>
                  have ha3 := (Api.spend_armed hsp2).trans ha2
                  right; right
                  exact ⟨{ n with canarySvc := some c.canaryRev, stableSel := some c.stableRev },
                    ["patchCanarySvc", "patchStable"], a3, (by simp [hst, hsp2]), rfl, rfl, (by simp [servicesInPlace]),
                    SvcWritesOnly.of_mem (by simp), (fun h => by cases h), mono a3 ha3, rf0 a3 ha3⟩

/-- with the Services in place (and the revisions known) the Service part has nothing to do -/
theorem svcStepX_inPlace (c : XCtx S) (a : Api) (n : XNet G) (ha : a.armed = false)
    (hin : servicesInPlace c n = true) (hrev : c.noGen = true ∨ (c.stableRev ≠ "" ∧ c.canaryRev ≠ "")) :
    svcStepX c a n = .ok n [] a := by
  unfold svcStepX
  by_cases hng : c.noGen = true
  · simp [hng]
  · have hng' : c.noGen = false := by simpa using hng
    rcases hrev with h | ⟨h1, h2⟩
    · exact absurd h hng
    · simp only [servicesInPlace, hng', Bool.false_or, Bool.and_eq_true, beq_iff_eq] at hin
      obtain ⟨hc, hs⟩ := hin
      simp [hng', h1, h2, Api.read_of_not_armed ha, hc, hs]

end RV.TrafficX
