/-
  Facts about the Service part of the Manager model (`svcStepX`) and about the retry-style calls
  (`restoreStableServiceX`, `removeCanaryServiceX`, `restoreGatewayX`), used by `RV/Props/TrafficXThms.lean`.
-/
import RV.Lemmas.TrafficX
namespace RV.TrafficX
open RV.Traffic RV.Oracle.TrafficX

variable {S G : Type}

/-! ## the Service part of `DoTrafficRouting` -/

/-- the writes the Service part can issue -/
def SvcWritesOnly (ws : List String) : Prop :=
  ∀ w, w ∈ ws → w = "createCanarySvc" ∨ w = "patchCanarySvc" ∨ w = "patchStable"

theorem SvcWritesOnly.not_provider {ws : List String} (h : SvcWritesOnly ws) : providerTouched ws = false := by
  unfold providerTouched
  rw [List.any_eq_false]
  intro w hw
  rcases h w hw with e | e | e <;> subst e <;> decide

theorem servicesInPlace_noGen {c : XCtx S} {n : XNet G} (h : c.noGen = true) : servicesInPlace c n = true := by
  simp [servicesInPlace, h]

theorem SvcWritesOnly.nil : SvcWritesOnly [] := fun _ h => by cases h
theorem SvcWritesOnly.of_mem {ws : List String}
    (h : ∀ w, w ∈ ws → w ∈ ["createCanarySvc", "patchCanarySvc", "patchStable"]) : SvcWritesOnly ws := by
  intro w hw
  have := h w hw
  simp only [List.mem_cons, List.not_mem_nil, or_false] at this
  exact this

theorem sel_of_getD {x : Option String} {r : String} (h : x.getD "" = r) (hr : r ≠ "") : x = some r := by
  cases x with
  | none => simp at h; exact absurd h hr
  | some v => simp at h; rw [h]

/-- everything the Service part can do, by outcome -/
theorem svcStepX_spec (c : XCtx S) (a : Api) (n : XNet G) :
    (svcStepX c a n = .wait ∧ c.noGen = false ∧ (c.stableRev = "" ∨ c.canaryRev = "")) ∨
    (∃ n2 ws a2, svcStepX c a n = .fail n2 ws a2 ∧ c.noGen = false ∧ n2.g = n.g ∧ n2.stableExists = n.stableExists ∧
      SvcWritesOnly ws ∧ (a2.armed = true → a.armed = true)) ∨
    (∃ n2 ws a2, svcStepX c a n = .ok n2 ws a2 ∧ n2.g = n.g ∧ n2.stableExists = n.stableExists ∧
      servicesInPlace c n2 = true ∧ SvcWritesOnly ws ∧ (ws = [] → n2 = n) ∧
      (a2.armed = true → a.armed = true) ∧ readFailed a a2 = false) := by
  unfold svcStepX
  by_cases hng : c.noGen = true
  · right; right
    exact ⟨n, [], a, (by simp [hng]), rfl, rfl, servicesInPlace_noGen hng, SvcWritesOnly.nil, (fun _ => rfl),
      (fun h => h), readFailed_self a⟩
  · have hng' : c.noGen = false := by simpa using hng
    simp only [hng', Bool.false_eq_true, if_false]
    by_cases hrev : c.stableRev = "" ∨ c.canaryRev = ""
    · left; exact ⟨(by simp [hrev]), trivial, hrev⟩
    · simp only [hrev, if_false]
      have hsr : c.stableRev ≠ "" := fun h => hrev (Or.inl h)
      rcases Api.read_cases a with ⟨hr, har, hr2⟩ | ⟨hr, hr2⟩
      · -- the Get of the canary Service fails
        right; left
        refine ⟨n, [], a.read.2, ?_, trivial, rfl, rfl, SvcWritesOnly.nil, (fun h => by rw [hr2] at h; cases h)⟩
        rw [show a.read = (a.read.1, a.read.2) from rfl, hr]
        simp
      · rw [show a.read = (a.read.1, a.read.2) from rfl, hr]
        simp only [Bool.false_eq_true, if_false]
        generalize a.read.2 = a1 at hr2
        have mono : ∀ x : Api, x.armed = a1.armed → (x.armed = true → a.armed = true) := by
          intro x hx h; rw [← hr2, ← hx]; exact h
        have rf0 : ∀ x : Api, x.armed = a1.armed → readFailed a x = false := by
          intro x hx; unfold readFailed; rw [hx, hr2]; cases a.armed <;> rfl
        have sip : ∀ (st : Option String), servicesInPlace c
            ({ stableExists := n.stableExists, stableSel := some c.stableRev, canarySvc := some c.canaryRev, g := n.g } : XNet G) = true := by
          intro _; simp [servicesInPlace]
        -- canary Service
        cases hcs : n.canarySvc with
        | none =>
          cases hsp : a1.spend with
          | none =>
            right; left
            exact ⟨n, [], a1, (by simp), trivial, rfl, rfl, SvcWritesOnly.nil, mono a1 rfl⟩
          | some a2 =>
            have ha2 := Api.spend_armed hsp
            simp only []
            by_cases hst : n.stableSel.getD "" = c.stableRev
            · right; right
              refine ⟨{ n with canarySvc := some c.canaryRev }, ["createCanarySvc"], a2, (by simp [hst]), rfl, rfl, ?_,
                SvcWritesOnly.of_mem (by simp), (fun h => by cases h), mono a2 ha2, rf0 a2 ha2⟩
              simp [servicesInPlace, sel_of_getD hst hsr]
            · cases hsp2 : a2.spend with
              | none =>
                right; left
                exact ⟨{ n with canarySvc := some c.canaryRev }, ["createCanarySvc"], a2, (by simp [hst, hsp2]), trivial, rfl, rfl,
                  SvcWritesOnly.of_mem (by simp), mono a2 ha2⟩
              | some a3 =>
                have ha3 := (Api.spend_armed hsp2).trans ha2
                right; right
                exact ⟨{ n with canarySvc := some c.canaryRev, stableSel := some c.stableRev },
                  ["createCanarySvc", "patchStable"], a3, (by simp [hst, hsp2]), rfl, rfl, (by simp [servicesInPlace]),
                  SvcWritesOnly.of_mem (by simp), (fun h => by cases h), mono a3 ha3, rf0 a3 ha3⟩
        | some r =>
          by_cases hr' : r = c.canaryRev
          · subst hr'
            simp only [ne_eq, not_true_eq_false, if_false]
            by_cases hst : n.stableSel.getD "" = c.stableRev
            · right; right
              refine ⟨n, [], a1, (by simp [hst]), rfl, rfl, ?_, SvcWritesOnly.nil, (fun _ => rfl), mono a1 rfl, rf0 a1 rfl⟩
              simp [servicesInPlace, sel_of_getD hst hsr, hcs]
            · cases hsp2 : a1.spend with
              | none =>
                right; left
                exact ⟨n, [], a1, (by simp [hst, hsp2]), trivial, rfl, rfl, SvcWritesOnly.nil, mono a1 rfl⟩
              | some a3 =>
                have ha3 := Api.spend_armed hsp2
                right; right
                exact ⟨{ n with stableSel := some c.stableRev }, ["patchStable"], a3, (by simp [hst, hsp2]), rfl, rfl,
                  (by simp [servicesInPlace, hcs]), SvcWritesOnly.of_mem (by simp), (fun h => by cases h),
                  mono a3 ha3, rf0 a3 ha3⟩
          · simp only [ne_eq, hr', not_false_eq_true, if_true]
            cases hsp : a1.spend with
            | none =>
              right; left
              exact ⟨n, [], a1, (by simp), trivial, rfl, rfl, SvcWritesOnly.nil, mono a1 rfl⟩
            | some a2 =>
              have ha2 := Api.spend_armed hsp
              simp only []
              by_cases hst : n.stableSel.getD "" = c.stableRev
              · right; right
                refine ⟨{ n with canarySvc := some c.canaryRev }, ["patchCanarySvc"], a2, (by simp [hst]), rfl, rfl, ?_,
                  SvcWritesOnly.of_mem (by simp), (fun h => by cases h), mono a2 ha2, rf0 a2 ha2⟩
                simp [servicesInPlace, sel_of_getD hst hsr]
              · cases hsp2 : a2.spend with
                | none =>
                  right; left
                  exact ⟨{ n with canarySvc := some c.canaryRev }, ["patchCanarySvc"], a2, (by simp [hst, hsp2]), trivial, rfl, rfl,
                    SvcWritesOnly.of_mem (by simp), mono a2 ha2⟩
                | some a3 =>
                  have ha3 := (Api.spend_armed hsp2).trans ha2
                  right; right
                  exact ⟨{ n with canarySvc := some c.canaryRev, stableSel := some c.stableRev },
                    ["patchCanarySvc", "patchStable"], a3, (by simp [hst, hsp2]), rfl, rfl, (by simp [servicesInPlace]),
                    SvcWritesOnly.of_mem (by simp), (fun h => by cases h), mono a3 ha3, rf0 a3 ha3⟩

/-- with the Services in place (and the revisions known) the Service part has nothing to do -/
theorem svcStepX_inPlace (c : XCtx S) (a : Api) (n : XNet G) (ha : a.armed = false)
    (hin : servicesInPlace c n = true) (hrev : c.noGen = true ∨ (c.stableRev ≠ "" ∧ c.canaryRev ≠ "")) :
    svcStepX c a n = .ok n [] a := by
  unfold svcStepX
  by_cases hng : c.noGen = true
  · simp [hng]
  · have hng' : c.noGen = false := by simpa using hng
    rcases hrev with h | ⟨h1, h2⟩
    · exact absurd h hng
    · simp only [servicesInPlace, hng', Bool.false_or, Bool.and_eq_true, beq_iff_eq] at hin
      obtain ⟨hc, hs⟩ := hin
      simp [hng', h1, h2, Api.read_of_not_armed ha, hc, hs]


/-- on a healthy API server, with the revisions known, the Service part always succeeds and leaves the
    Services in place -/
theorem svcStepX_healthy (c : XCtx S) (n : XNet G)
    (hrev : c.noGen = true ∨ (c.stableRev ≠ "" ∧ c.canaryRev ≠ "")) :
    ∃ n2 ws, svcStepX c Api.ok n = .ok n2 ws Api.ok ∧ servicesInPlace c n2 = true ∧ n2.g = n.g ∧
      n2.stableExists = n.stableExists ∧ (ws = [] → n2 = n) := by
  rcases svcStepX_spec c Api.ok n with ⟨_, hng, hr⟩ | ⟨n2, ws, a2, hs, hng, _⟩ | ⟨n2, ws, a2, hs, hg, hse, hin, _, hnil, _, _⟩
  · rcases hrev with h | ⟨h1, h2⟩
    · rw [hng] at h; cases h
    · rcases hr with h | h
      · exact absurd h h1
      · exact absurd h h2
  · -- a healthy API server refuses neither a read nor a write
    exfalso
    unfold svcStepX at hs
    rcases hrev with h | ⟨h1, h2⟩
    · rw [hng] at h; cases h
    · simp only [hng, Bool.false_eq_true, if_false, h1, h2, or_self, Api.read_ok, Api.spend_ok] at hs
      cases hcs : n.canarySvc with
      | none =>
        simp only [hcs] at hs
        split at hs <;> cases hs
      | some r =>
        simp only [hcs] at hs
        by_cases hr : r = c.canaryRev
        · simp only [hr, ne_eq, not_true_eq_false, if_false] at hs
          split at hs <;> cases hs
        · simp only [ne_eq, hr, not_false_eq_true, if_true] at hs
          split at hs <;> cases hs
  · have ha2 : a2 = Api.ok := by
      unfold svcStepX at hs
      by_cases hng : c.noGen = true
      · simp only [hng, if_true] at hs
        injection hs with _ _ h3
        exact h3.symm
      · have hng' : c.noGen = false := by simpa using hng
        rcases hrev with h | ⟨h1, h2⟩
        · exact absurd h hng
        · simp only [hng', Bool.false_eq_true, if_false, h1, h2, or_self, Api.read_ok, Api.spend_ok] at hs
          cases hcs : n.canarySvc with
          | none =>
            simp only [hcs] at hs
            split at hs <;> (injection hs with _ _ h3; exact h3.symm)
          | some r =>
            simp only [hcs] at hs
            by_cases hr : r = c.canaryRev
            · simp only [hr, ne_eq, not_true_eq_false, if_false] at hs
              split at hs <;> (injection hs with _ _ h3; exact h3.symm)
            · simp only [ne_eq, hr, not_false_eq_true, if_true] at hs
              split at hs <;> (injection hs with _ _ h3; exact h3.symm)
    subst ha2
    exact ⟨n2, ws, hs, hin, hg, hse, hnil⟩

/-! ## the retry-style calls -/

theorem unpinned_of_none {n : XNet G} (h : n.stableSel.getD "" = "") : unpinned n = true := by
  simp [unpinned, h]

/-- `RestoreStableService`: what it touches, what it writes, what its completion means -/
theorem rs_specX (c : XCtx S) (a : Api) (n : XNet G) (m : Mem) :
    (restoreStableServiceX c a n m).net.g = n.g ∧
    (restoreStableServiceX c a n m).net.canarySvc = n.canarySvc ∧
    (restoreStableServiceX c a n m).net.stableExists = n.stableExists ∧
    ((restoreStableServiceX c a n m).writes = [] ∨ (restoreStableServiceX c a n m).writes = ["unpinStable"]) ∧
    (restoreStableServiceX c a n m).panic = false ∧
    (readFailed a (restoreStableServiceX c a n m).a = true → (restoreStableServiceX c a n m).err = true) ∧
    ((restoreStableServiceX c a n m).a.armed = true → a.armed = true) ∧
    ((restoreStableServiceX c a n m).err = false → c.hasRef = true → c.hasRevKey = true →
      unpinned (restoreStableServiceX c a n m).net = true) ∧
    (restoreStableServiceX c a n m).mem.restoreGateway = m.restoreGateway ∧
    (restoreStableServiceX c a n m).mem.removeCanaryService = m.removeCanaryService := by
  generalize ho : restoreStableServiceX c a n m = o
  unfold restoreStableServiceX at ho
  by_cases href : c.hasRef = true
  · simp only [href, not_true_eq_false, if_false] at ho
    rcases Api.read_cases a with ⟨hr, har, hr2⟩ | ⟨hr, hr2⟩
    · rw [show a.read = (a.read.1, a.read.2) from rfl, hr] at ho
      simp only [if_true, XOut.same] at ho
      subst ho
      exact ⟨rfl, rfl, rfl, Or.inl rfl, rfl, fun _ => rfl, (fun h => by rw [hr2] at h; cases h),
        (fun h => by cases h), rfl, rfl⟩
    · rw [show a.read = (a.read.1, a.read.2) from rfl, hr] at ho
      simp only [Bool.false_eq_true, if_false] at ho
      generalize a.read.2 = a1 at hr2 ho
      have rf1 : readFailed a a1 = false := by unfold readFailed; rw [hr2]; cases a.armed <;> rfl
      have mono1 : a1.armed = true → a.armed = true := fun h => by rw [← hr2]; exact h
      by_cases hex : n.stableExists = true
      · simp only [hex, not_true_eq_false, if_false] at ho
        by_cases hmod : (c.hasRevKey && decide (n.stableSel.getD "" ≠ "")) = true
        · simp only [hmod, if_true] at ho
          cases hsp : a1.spend with
          | none =>
            simp only [hsp, XOut.same] at ho
            subst ho
            exact ⟨rfl, rfl, rfl, Or.inl rfl, rfl, fun _ => rfl, mono1, (fun h => by cases h), rfl, rfl⟩
          | some a2 =>
            have ha2 := Api.spend_armed hsp
            simp only [hsp] at ho
            subst ho
            refine ⟨rfl, rfl, hex.symm, Or.inr rfl, rfl, ?_, (fun h => mono1 (by rw [← ha2]; exact h)),
              (fun _ _ _ => unpinned_of_none rfl), rfl, rfl⟩
            intro h
            have : readFailed a a2 = false := by unfold readFailed at rf1 ⊢; rw [ha2]; exact rf1
            rw [this] at h; cases h
        · simp only [hmod, Bool.false_eq_true, if_false] at ho
          subst ho
          refine ⟨rfl, rfl, rfl, Or.inl rfl, rfl, (fun h => by rw [rf1] at h; cases h), mono1, ?_, rfl, rfl⟩
          intro _ _ hk
          have : n.stableSel.getD "" = "" := by
            simp only [hk, Bool.true_and, decide_eq_true_eq, ne_eq, Decidable.not_not] at hmod
            exact hmod
          exact unpinned_of_none this
      · have hex' : n.stableExists = false := by simpa using hex
        simp only [hex', Bool.false_eq_true, not_false_eq_true, if_true, XOut.same] at ho
        subst ho
        exact ⟨rfl, rfl, rfl, Or.inl rfl, rfl, (fun h => by rw [rf1] at h; cases h), mono1,
          (fun _ _ _ => by simp [unpinned, hex']), rfl, rfl⟩
  · have href' : c.hasRef = false := by simpa using href
    simp only [href', Bool.false_eq_true, not_false_eq_true, if_true, XOut.same] at ho
    subst ho
    exact ⟨rfl, rfl, rfl, Or.inl rfl, rfl, (fun h => by rw [readFailed_self] at h; cases h), fun h => h,
      (fun _ h => absurd h href), rfl, rfl⟩

/-- `RemoveCanaryService`: it reads nothing, touches only the canary Service, and its completion means the
    canary Service is gone (when one is generated at all) -/
theorem rc_specX (c : XCtx S) (a : Api) (n : XNet G) (m : Mem) :
    (removeCanaryServiceX c a n m).net.g = n.g ∧
    (removeCanaryServiceX c a n m).net.stableSel = n.stableSel ∧
    (removeCanaryServiceX c a n m).net.stableExists = n.stableExists ∧
    ((removeCanaryServiceX c a n m).writes = [] ∨ (removeCanaryServiceX c a n m).writes = ["deleteCanarySvc"]) ∧
    (removeCanaryServiceX c a n m).panic = false ∧
    (removeCanaryServiceX c a n m).a.armed = a.armed ∧
    ((removeCanaryServiceX c a n m).err = false → c.hasRef = true → c.noGen = false →
      (removeCanaryServiceX c a n m).net.canarySvc = none) ∧
    (c.noGen = true → (removeCanaryServiceX c a n m).net.canarySvc = n.canarySvc) := by
  generalize ho : removeCanaryServiceX c a n m = o
  unfold removeCanaryServiceX at ho
  by_cases href : c.hasRef = true
  · simp only [href, not_true_eq_false, if_false] at ho
    by_cases hng : c.noGen = true
    · simp only [hng, if_true, XOut.same] at ho
      subst ho
      exact ⟨rfl, rfl, rfl, Or.inl rfl, rfl, rfl, (fun _ _ h => by rw [hng] at h; cases h), fun _ => rfl⟩
    · have hng' : c.noGen = false := by simpa using hng
      simp only [hng', Bool.false_eq_true, if_false] at ho
      cases hcs : n.canarySvc with
      | none =>
        simp only [hcs] at ho
        cases hsp : a.spend with
        | none =>
          simp only [hsp, XOut.same] at ho
          subst ho
          exact ⟨rfl, rfl, rfl, Or.inl rfl, rfl, rfl, (fun h => by cases h), fun h => absurd h hng⟩
        | some a1 =>
          simp only [hsp] at ho
          subst ho
          exact ⟨rfl, rfl, rfl, Or.inl rfl, rfl, Api.spend_armed hsp, (fun _ _ _ => hcs), fun h => absurd h hng⟩
      | some r =>
        simp only [hcs] at ho
        cases hsp : a.spend with
        | none =>
          simp only [hsp, XOut.same] at ho
          subst ho
          exact ⟨rfl, rfl, rfl, Or.inl rfl, rfl, rfl, (fun h => by cases h), fun h => absurd h hng⟩
        | some a1 =>
          simp only [hsp] at ho
          subst ho
          exact ⟨rfl, rfl, rfl, Or.inr rfl, rfl, Api.spend_armed hsp, (fun _ _ _ => rfl), fun h => absurd h hng⟩
  · have href' : c.hasRef = false := by simpa using href
    simp only [href', Bool.false_eq_true, not_false_eq_true, if_true, XOut.same] at ho
    subst ho
    exact ⟨rfl, rfl, rfl, Or.inl rfl, rfl, rfl, (fun _ h => absurd h href), fun _ => rfl⟩

/-! ## the phases of the clean-up writes -/

theorem finPhase_provider {w : String} (h : isProviderWrite w = true) : finPhase w = 1 := by
  unfold finPhase
  by_cases h1 : w = "unpinStable"
  · subst h1; revert h; decide
  · by_cases h2 : w = "deleteCanarySvc"
    · subst h2; revert h; decide
    · simp [h1, h2, h]

theorem phasesOrdered_provider (ws tail : List String) (k : Nat) (hk : k ≤ 1) (hn : NamedWrites ws)
    (ht : tail = [] ∨ tail = ["deleteCanarySvc"]) : phasesOrdered (ws ++ tail) k = true := by
  induction ws generalizing k with
  | nil =>
    rcases ht with rfl | rfl
    · rfl
    · simp only [List.nil_append, phasesOrdered, Bool.and_true, Bool.and_eq_true, decide_eq_true_eq]
      have : finPhase "deleteCanarySvc" = 2 := by decide
      rw [this]; omega
  | cons w r ih =>
    have hw := finPhase_provider (hn w (by simp))
    simp only [List.cons_append, phasesOrdered, hw, Bool.and_eq_true, decide_eq_true_eq]
    exact ⟨⟨hk, by omega⟩, ih 1 (Nat.le_refl _) (fun x hx => hn x (by simp [hx]))⟩

/-- un-pin (at most once), then provider writes, then the removal of the canary Service (at most once) -/
theorem phasesOrdered_fin (w1 w2 w3 : List String) (h1 : w1 = [] ∨ w1 = ["unpinStable"]) (h2 : NamedWrites w2)
    (h3 : w3 = [] ∨ w3 = ["deleteCanarySvc"]) : phasesOrdered (w1 ++ w2 ++ w3) 0 = true := by
  rcases h1 with rfl | rfl
  · simpa using phasesOrdered_provider w2 w3 0 (by omega) h2 h3
  · have : finPhase "unpinStable" = 0 := by decide
    simp only [List.cons_append, List.nil_append, phasesOrdered, this, Nat.le_refl, decide_true, Bool.true_and,
      Nat.zero_le]
    exact phasesOrdered_provider w2 w3 0 (by omega) h2 h3

theorem not_mem_delete_of_named {ws : List String} (h : NamedWrites ws) : ws.contains "deleteCanarySvc" = false := by
  cases hc : ws.contains "deleteCanarySvc"
  · rfl
  · have := h _ (List.contains_iff_mem.mp hc)
    revert this; decide

end RV.TrafficX
