/-
  Arithmetic of the closed-loop exposure invariant: `within` is monotone along a monotone plan, the partition the
  CloneSet control writes for an entry of the plan is `within` that entry, a workload held at 100 % exposes nothing.
-/
import RV.Oracle.ClosedLoop
import RV.Props.C01
namespace RV.Lemmas.ClosedLoop
open RV.Arith IntOrPct RV.BatchCtx RV.Oracle.ClosedLoop RV.Oracle.Batch

theorem within_mono (R : Int) (plan : List IntOrPct) (e e' k : IntOrPct)
    (hle : calcBatchReplicas R e ≤ calcBatchReplicas R e') (h : within R plan e k = true) : within R plan e' k = true := by
  unfold within at h ⊢
  simp only [Bool.or_eq_true, Bool.and_eq_true, decide_eq_true_eq] at h ⊢
  rcases h with h | ⟨h1, h2⟩
  · left; omega
  · right; exact ⟨h1, by omega⟩

/-- adjacent monotonicity gives monotonicity at any distance -/
theorem planMono_le (R : Int) (plan : List IntOrPct) (h : planMono R plan = true) (i j : Nat) (a b : IntOrPct) (hij : i ≤ j)
    (ha : plan[i]? = some a) (hb : plan[j]? = some b) : calcBatchReplicas R a ≤ calcBatchReplicas R b := by
  induction plan generalizing i j a b with
  | nil => simp at ha
  | cons x rest ih =>
    cases rest with
    | nil =>
      cases i with
      | zero =>
        cases j with
        | zero => simp at ha hb; subst ha; subst hb; exact Int.le_refl _
        | succ j => simp at hb
      | succ i => simp at ha
    | cons y rest' =>
      unfold planMono at h
      simp only [Bool.and_eq_true, decide_eq_true_eq] at h
      obtain ⟨hxy, hrest⟩ := h
      cases i with
      | zero =>
        simp only [List.getElem?_cons_zero, Option.some.injEq] at ha
        subst ha
        cases j with
        | zero => simp only [List.getElem?_cons_zero, Option.some.injEq] at hb; subst hb; exact Int.le_refl _
        | succ j =>
          simp only [List.getElem?_cons_succ] at hb
          have h0 : (y :: rest')[0]? = some y := rfl
          have := ih hrest 0 j y b (Nat.zero_le _) h0 hb
          omega
      | succ i =>
        cases j with
        | zero => omega
        | succ j =>
          simp only [List.getElem?_cons_succ] at ha hb
          exact ih hrest i j a b (by omega) ha hb

theorem scaled_pct100 (R : Int) : scaledV (pct 100) R true = R := by
  simp only [scaledV, scaled, if_true]
  exact ceilDiv100_mul100 R

/-- a workload held back at partition 100 % exposes nothing -/
theorem exposure_pct100 (R : Int) (hR : 0 ≤ R) : exposure (pct 100) R = 0 := by
  unfold exposure keptStable
  rw [scaled_pct100]
  omega

theorem within_held (R : Int) (plan : List IntOrPct) (e : IntOrPct) (hR : 0 ≤ R) : within R plan e (pct 100) = true := by
  unfold within
  rw [exposure_pct100 R hR]
  have := calcBatch_nonneg R e hR
  simp only [Bool.or_eq_true, decide_eq_true_eq]
  left; exact this

theorem mem_any_isStr (plan : List IntOrPct) (e : IntOrPct) (i : Nat) (h : plan[i]? = some e) (hs : isStr e = true) :
    plan.any isStr = true := by
  rw [List.any_eq_true]
  exact ⟨e, List.mem_of_getElem? h, hs⟩

/-- **C01.1 → closed loop** — the partition the CloneSet control computes for entry `e` of the plan is within `e` -/
theorem within_desKnob (R : Int) (plan : List IntOrPct) (e : IntOrPct) (i : Nat) (hR : 0 ≤ R) (h : plan[i]? = some e) :
    within R plan e (desKnob .cloneSet R e none) = true := by
  have hb := RV.Props.C01.desKnob_exposure_bound .cloneSet R e none ⟨hR, (fun k hk => by cases hk), Or.inl rfl⟩
  unfold exposureBound at hb
  unfold within
  simp only [allowed, exposureOf] at hb
  by_cases hs : isStr e = true
  · rw [if_pos ⟨trivial, hs⟩] at hb
    have hb' := of_decide_eq_true hb
    simp only [Bool.or_eq_true, Bool.and_eq_true, decide_eq_true_eq]
    right; exact ⟨mem_any_isStr plan e i h hs, hb'⟩
  · rw [if_neg (by intro hc; exact hs hc.2)] at hb
    have hb' := of_decide_eq_true hb
    simp only [Bool.or_eq_true, decide_eq_true_eq]
    left; exact hb'

/-- the partition the CloneSet control writes is never negative (so the workload controller never over-updates) -/
theorem desKnob_nonneg (R : Int) (e : IntOrPct) (hR : 0 ≤ R) : 0 ≤ scaledV (desKnob .cloneSet R e none) R true := by
  obtain ⟨hs0, hs1, _, _⟩ := plannedDesired_facts R e none hR (by intro k hk; cases hk)
  have hpp : ∀ c : IntOrPct, 0 ≤ scaledV (parsePct (desiredStable R e none) R c) R true := by
    intro c
    unfold parsePct
    split
    · rw [scaled_pct100]; exact hR
    · split
      · simp [scaledV, scaled, ceilDiv100]
      · rename_i h1 h2
        have hq : 0 ≤ (desiredStable R e none * 100).tdiv R := Int.tdiv_nonneg (by omega) hR
        dsimp only
        split
        · simp only [scaledV, scaled, if_true]
          exact ceilDiv100_nonneg (by omega)
        · simp only [scaledV, scaled, if_true]
          exact ceilDiv100_nonneg (Int.mul_nonneg hq hR)
  cases e with
  | int n => simp only [desKnob, scaledV, scaled]; exact hs0
  | pct p => simp only [desKnob]; exact hpp _
  | bad => simp only [desKnob]; exact hpp _

end RV.Lemmas.ClosedLoop
