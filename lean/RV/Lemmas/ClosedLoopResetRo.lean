/-
  Supersession, label `ro`: a Rollout reconcile from the reset invariant leads to the reset invariant or back to the forward one.
-/
import RV.Lemmas.ClosedLoopReset
import RV.Lemmas.ClosedLoopStepRo
namespace RV.Lemmas.ClosedLoop
open RV.Arith RV.Traffic RV.RolloutSM RV.ClosedLoop RV.Oracle.ClosedLoop RV.Props.Reconcile

/-! ### the reset invariant as a proposition -/

theorem resetro_iff (s : CS) :
    resetInv s = true ↔ roOK s = true ∧ ∃ w, s.wl = some w ∧ wlOK w = true ∧ planMono w.replicas (planOf s.ro) = true ∧
      brOKo s.br = true ∧ s.ro.phase = .progressing ∧ s.ro.reason = .inRolling ∧
      (∃ sub, s.ro.sub = some sub ∧ sub.canaryRev ≠ "" ∧ sub.canaryRev ≠ w.updateRevision) ∧
      w.updateRevision ≠ w.currentRevision ∧ 0 < w.replicas ∧ w.updated = 0 ∧ held w = true ∧ brHoldsO s.br w = true := by
  unfold resetInv
  cases hw : s.wl with
  | none => simp
  | some w =>
    cases hs : s.ro.sub with
    | none => simp
    | some sub => simp [Bool.and_eq_true, and_assoc]

theorem resetro_mk (s' : CS) (w : CWl) (sub : Sub) (hgone : s'.gone = false) (hg : RoGood s'.ro) (hw : s'.wl = some w)
    (hwok : wlOK w = true) (hmono : planMono w.replicas (planOf s'.ro) = true) (hbr : brOKo s'.br = true)
    (hph : s'.ro.phase = .progressing) (hr : s'.ro.reason = .inRolling) (hs : s'.ro.sub = some sub)
    (h1 : sub.canaryRev ≠ "") (h2 : sub.canaryRev ≠ w.updateRevision) (h3 : w.updateRevision ≠ w.currentRevision)
    (h4 : 0 < w.replicas) (h5 : w.updated = 0) (h6 : held w = true) (h7 : brHoldsO s'.br w = true) : resetInv s' = true :=
  (resetro_iff s').2 ⟨(roOK_iff s').2 ⟨hgone, hg⟩, w, hw, hwok, hmono, hbr, hph, hr, ⟨sub, hs, h1, h2⟩, h3, h4, h5, h6, h7⟩

/-! ### the waiting reconcile -/

theorem resetro_wait (s : CS) (w : CWl) (h : resetInv s = true) (hgone : s.gone = false) (hg : RoGood s.ro) (hw : s.wl = some w)
    (hc : (roWl w).consistent = false) : stepRo s = some s := by
  have hrec := reconcile_wait (roWorld s) (roWl w) hg (world_wl s w hw) hc
  rw [stepRo_eq s hgone _ hrec, landRo_status s _ rfl rfl rfl rfl]
  have e : ({ s with gone := false, ro := s.ro } : CS) = s := by
    cases s; simp only at hgone; subst hgone; rfl
  show some ({ s with gone := false, ro := s.ro } : CS) = some s
  rw [e]

/-! ### a delete of the BatchRelease landing -/

theorem resetro_upd2 (c : CBr) : upd2 c { roBr c with deleting := true } = c := by
  cases c
  unfold upd2 specChanged roBr
  simp

theorem resetro_brOK_del (c : CBr) (h : brOK c = true) : brOK { c with deleting := true } = true := h

theorem resetro_holds_del (c : CBr) (w : CWl) (h : brHolds c w = true) : brHolds { c with deleting := true } w = true := by
  unfold brHolds at h ⊢
  simp only [Bool.or_eq_true, Bool.and_eq_true, Bool.not_eq_true'] at h ⊢
  rcases h with (h | h) | h
  · exact Or.inl (Or.inl h)
  · exact Or.inl (Or.inr ⟨h.1, Or.inl trivial⟩)
  · exact Or.inl (Or.inr ⟨h.1.1.1.1.1.2, Or.inl trivial⟩)

/-- how the BatchRelease write of one reset round lands: the workload is untouched, the stored object stays good and
    still cannot lower the partition -/
theorem resetro_land (cbr : Option CBr) (nb : Option BR) (w : CWl) (h : BrDel (cbr.map roBr) nb)
    (hbrok : brOKo cbr = true) (hh : brHoldsO cbr w = true) :
    ∃ br', landBR cbr nb (some w) = (br', some w) ∧ brOKo br' = true ∧ brHoldsO br' w = true := by
  generalize hb0 : cbr.map roBr = b0 at h
  cases h with
  | same =>
    subst hb0
    exact ⟨cbr, landBR_id _ _, hbrok, hh⟩
  | deleted b =>
    obtain ⟨c, hc, hcb⟩ := map_roBr_some cbr b hb0
    subst hc
    subst hcb
    have hbrok' : brOK c = true := hbrok
    have hh' : brHolds c w = true := hh
    refine ⟨updatedBr c { roBr c with deleting := true }, rfl, ?_, ?_⟩
    · rw [updatedBr_eq, resetro_upd2]
      split
      · split
        · exact resetro_brOK_del c hbrok'
        · rfl
      · exact hbrok'
    · rw [updatedBr_eq, resetro_upd2]
      split
      · split
        · exact resetro_holds_del c w hh'
        · rfl
      · exact hh'

theorem resetro_landBR_none (cbr : Option CBr) (wl : Option CWl) : landBR cbr none wl = (none, wl) := by
  cases cbr <;> rfl

/-! ### one Rollout reconcile -/

theorem stepRo_reset (s : CS) (h : resetInv s = true) (hcur : resetCursor s = true) :
    ∃ s', stepRo s = some s' ∧ (fwdInv s' = true ∨ (resetInv s' = true ∧ resetCursor s' = true)) := by
  obtain ⟨hro, w, hw, hwok, hmono, hbr, hph, hr, ⟨sub, hs, hrev, hne⟩, hur, hpos, hupd, hheld, hholds⟩ := (resetro_iff s).1 h
  obtain ⟨hgone, hg⟩ := (roOK_iff s).1 hro
  cases hc : (roWl w).consistent with
  | false =>
    exact ⟨s, resetro_wait s w h hgone hg hw hc, Or.inr ⟨h, hcur⟩⟩
  | true =>
    have hnr : (roWl w).inRollback = false := by
      show (w.inProgressAnno && decide (w.currentRevision = w.updateRevision) && decide (w.updated ≠ w.statusReplicas)) = false
      have : ¬ w.currentRevision = w.updateRevision := fun e => hur e.symm
      simp [this]
    have hne' : (roWl w).canaryRev ≠ sub.canaryRev := fun e => hne e.symm
    have hfin : (roWorld s).ro.hasTraffic = true → sub.finStep = .removeCanaryService → (roWorld s).br = none := by
      intro ht hf
      unfold resetCursor at hcur
      rw [hs] at hcur
      have ht' : s.ro.hasTraffic = true := ht
      simp only [ht', hf, Bool.true_and, beq_self_eq_true, Bool.not_true, Bool.false_or, Option.isNone_iff_eq_none] at hcur
      show s.br.map roBr = none
      rw [hcur]; rfl
    obtain ⟨r, hrec, hrg, hk, hrph, hrwl, hdel, hout⟩ :=
      reset_step (roWorld s) (roWl w) sub hg hph hr (world_wl s w hw) hc hnr hs hrev hne' hfin
    have hk' : SpecKept s.ro r.w.ro := hk
    have hg' : RoGood r.w.ro := hk'.good hg
    have hmono' : planMono w.replicas (planOf r.w.ro) = true := by rw [planOf_same hk'.1]; exact hmono
    have hanno : annoLand s.wl r.w.wl = some w := by
      rw [hw, hrwl]
      show annoLand (some w) ((some w).map roWl) = _
      rw [annoLand_id]
    refine ⟨landRo s r, stepRo_eq s hgone r hrec, ?_⟩
    rcases hout with ⟨hrr, s', hs', hcan, hcl⟩ | ⟨hrr, _, hnone⟩
    · obtain ⟨br', hland, hbrok', hholds'⟩ := resetro_land s.br r.w.br w hdel hbr hholds
      have e : landRo s r = ⟨false, r.w.ro, some w, br', r.w.net, r.w.mem⟩ := by
        unfold landRo; rw [hanno, hland, hrg]
      rw [e]
      right
      refine ⟨resetro_mk _ w s' rfl hg' rfl hwok hmono' hbrok' hrph hrr hs' (by rw [hcan]; exact hrev)
        (by rw [hcan]; exact hne) hur hpos hupd hheld hholds', ?_⟩
      -- the cursor clause: at the last stage the reconcile saw no BatchRelease, so none lands
      unfold resetCursor
      show (match r.w.ro.sub with
        | some sub => !(r.w.ro.hasTraffic && sub.finStep == .removeCanaryService) || br'.isNone
        | none => true) = true
      rw [hs']
      by_cases hx : r.w.ro.hasTraffic = true ∧ s'.finStep = .removeCanaryService
      · have hn := hcl hx.1 hx.2
        rw [hn, resetro_landBR_none] at hland
        have : br' = none := (Prod.mk.inj hland).1.symm
        rw [this]; simp
      · cases ht : r.w.ro.hasTraffic
        · simp
        · have : s'.finStep ≠ .removeCanaryService := fun hf => hx ⟨ht, hf⟩
          simp [this]
    · have e : landRo s r = ⟨false, r.w.ro, some w, none, r.w.net, r.w.mem⟩ := by
        unfold landRo; rw [hanno, hnone, resetro_landBR_none, hrg]
      rw [e]
      left
      refine fwdInv_mk _ w rfl hg' rfl hwok hmono' rfl ?_
      rw [phaseInv_init _ w hrph hrr]
      show (true && held w) = true
      rw [hheld]; rfl

end RV.Lemmas.ClosedLoop
