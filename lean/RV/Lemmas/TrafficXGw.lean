/-
  The Gateway API provider (`RV.TrafficX.gwProvider`, over `RV/Model/Gateway.lean`) satisfies the provider
  laws — from the C13 lemmas `step_preserves`, `step_idem`, `canaryFree_finaliseRules`.
-/
import RV.Lemmas.TrafficX
import RV.Lemmas.Gateway
import RV.Props.C13
namespace RV.TrafficX
open RV.Gateway RV.Oracle.C13 RV.Oracle.TrafficX

/-- the weight / matches the builder gets are those of the strategy -/
theorem gwStep_weight (s : Strat) : (gwStep s).weight = s.weight := by
  unfold gwStep Step.weight Strat.weight
  cases s.traffic <;> rfl

theorem gwStep_ms (s : Strat) : (gwStep s).ms = s.mts := rfl

/-- invariant of the stored route: two different Service names, and a route of reachable shape -/
def gwInv (c : Conf) (st : Option (List Rule)) : Prop :=
  confOk c = true ∧ ∀ r, st = some r → inv c r = true

/-- rounds still needed: 1 while the stored route is not what the builder wants -/
def gwMu (c : Conf) (st : Option (List Rule)) (s : Strat) : Nat :=
  match st with
  | none => 0
  | some r => if buildDesired c r s.weight s.mts = .ok r then 0 else 1

/-- `EnsureRoutes` of the Gateway provider in normal form (the builder's verdict made explicit) -/
def gwEnsureNF (c : Conf) (a : Api) (st : Option (List Rule)) (s : Strat) : PRes (Option (List Rule)) :=
  if a.read.1 then ⟨st, false, true, a.read.2, [], false⟩ else
  match st with
  | none => ⟨st, false, true, a.read.2, [], false⟩
  | some r =>
    match buildDesired c r s.weight s.mts with
    | .panic => ⟨st, false, false, a.read.2, [], true⟩
    | .ok d =>
      if r = d then ⟨st, true, false, a.read.2, [], false⟩
      else if a.read.2.read.1 then ⟨st, false, true, a.read.2.read.2, [], false⟩
      else
        match a.read.2.read.2.spend with
        | none => ⟨st, false, true, a.read.2.read.2, [], false⟩
        | some a3 => ⟨some d, false, false, a3, ["updateRoute"], false⟩

theorem gw_ensure_eq (c : Conf) (a : Api) (st : Option (List Rule)) (s : Strat) :
    (gwProvider c).ensure a st s = gwEnsureNF c a st s := by
  simp only [gwProvider, gwEnsureNF]
  rw [show a.read = (a.read.1, a.read.2) from rfl]
  cases h1 : a.read.1
  · simp only [Bool.false_eq_true, if_false]
    cases st with
    | none => simp [ensureRoutes]
    | some r =>
      cases hb : buildDesired c r s.weight s.mts with
      | panic =>
        have hb' : buildDesired c r (gwStep s).weight (gwStep s).ms = .panic := by rw [gwStep_weight, gwStep_ms]; exact hb
        simp [ensureRoutes_panic hb', hb]
      | ok d =>
        have hb' : buildDesired c r (gwStep s).weight (gwStep s).ms = .ok d := by rw [gwStep_weight, gwStep_ms]; exact hb
        by_cases hrd : r = d
        · subst hrd
          simp [ensureRoutes_ok hb', hb]
        · have hne : (r == d) = false := by simpa using hrd
          rw [show a.read.2.read = (a.read.2.read.1, a.read.2.read.2) from rfl]
          cases h2 : a.read.2.read.1
          · cases hsp : a.read.2.read.2.spend with
            | none => simp [ensureRoutes_ok hb', hb, hne, hrd, hsp]
            | some a3 => simp [ensureRoutes_ok hb', hb, hne, hrd, hsp]
          · simp [ensureRoutes_ok hb', hb, hne, hrd]
  · simp

/-- `Finalise` of the Gateway provider in normal form -/
def gwFinaliseNF (c : Conf) (a : Api) (st : Option (List Rule)) : PRes (Option (List Rule)) :=
  if a.read.1 then ⟨st, false, true, a.read.2, [], false⟩ else
  match st with
  | none => ⟨st, false, false, a.read.2, [], false⟩
  | some r =>
    if r = finaliseRules c r then ⟨st, false, false, a.read.2, [], false⟩
    else if a.read.2.read.1 then ⟨st, false, true, a.read.2.read.2, [], false⟩
    else
      match a.read.2.read.2.spend with
      | none => ⟨st, false, true, a.read.2.read.2, [], false⟩
      | some a3 => ⟨some (finaliseRules c r), true, false, a3, ["updateRoute"], false⟩

theorem gw_finalise_eq (c : Conf) (a : Api) (st : Option (List Rule)) :
    (gwProvider c).finalise a st = gwFinaliseNF c a st := by
  simp only [gwProvider, gwFinaliseNF]
  rw [show a.read = (a.read.1, a.read.2) from rfl]
  cases h1 : a.read.1
  · simp only [Bool.false_eq_true, if_false]
    cases st with
    | none => simp [finalise]
    | some r =>
      by_cases hrd : r = finaliseRules c r
      · have : (r == finaliseRules c r) = true := by rw [beq_iff_eq]; exact hrd
        simp [finalise_some, this, ← hrd]
      · have hne : (r == finaliseRules c r) = false := by simpa using hrd
        rw [show a.read.2.read = (a.read.2.read.1, a.read.2.read.2) from rfl]
        cases h2 : a.read.2.read.1
        · cases hsp : a.read.2.read.2.spend with
          | none => simp [finalise_some, hne, hrd, hsp]
          | some a3 => simp [finalise_some, hne, hrd, hsp]
        · simp [finalise_some, hne, hrd]
  · simp


theorem ne_of_confOk' {c : Conf} (h : confOk c = true) : c.stable ≠ c.canary := by simpa [confOk] using h

theorem named_updateRoute : NamedWrites ["updateRoute"] := by
  intro w hw
  simp only [List.mem_singleton] at hw
  subst hw
  decide

/-- the step's clause of C13 holds of a route that is a fixed point of the builder for that step -/
theorem gwClause_of_fixed {c : Conf} (hc : confOk c = true) {r : List Rule} (hi : inv c r = true) (s : Strat)
    (hb : buildDesired c r s.weight s.mts = .ok r) : gwClauseB c s r = true := by
  unfold gwClauseB
  by_cases hw : (s.weight == some (-1)) = true
  · simp only [hw, if_true]
    have hw' : s.weight = some (-1) := by simpa using hw
    obtain ⟨out, h1, h2⟩ := RV.Props.C13.finalise_step c hc r hi s.mts
    rw [hw', h1] at hb
    cases hb
    exact h2
  · have hw' : s.weight ≠ some (-1) := by simpa using hw
    simp only [hw, Bool.false_eq_true, if_false]
    by_cases hm : s.mts = []
    · simp only [hm, List.isEmpty_nil, Bool.not_true, Bool.false_eq_true, if_false]
      cases hwt : s.weight with
      | none => rfl
      | some w =>
        have hw1 : w ≠ -1 := by intro h; apply hw'; rw [hwt, h]
        obtain ⟨out, h1, h2⟩ := RV.Props.C13.weight_step c hc r w hw1
        rw [hwt, hm, h1] at hb
        cases hb
        exact h2
    · have : s.mts.isEmpty = false := by cases h : s.mts with
        | nil => exact absurd h hm
        | cons _ _ => rfl
      simp only [this, Bool.not_false, if_true]
      obtain ⟨out, h1, h2⟩ := RV.Props.C13.match_step c hc r s.weight hw' s.mts hm
      rw [h1] at hb
      cases hb
      exact h2

/-- a verified `EnsureRoutes`: the first Get succeeded, the route exists and is a fixed point of the builder -/
theorem gw_ens_verified {c : Conf} {a : Api} {st : Option (List Rule)} {s : Strat}
    (hf : (gwEnsureNF c a st s).flag = true) :
    a.read.1 = false ∧ ∃ r, st = some r ∧ buildDesired c r s.weight s.mts = .ok r := by
  unfold gwEnsureNF at hf
  split at hf
  · cases hf
  · rename_i h1
    split at hf
    · cases hf
    · rename_i r
      split at hf
      · cases hf
      · rename_i d hb
        split at hf
        · rename_i hrd
          subst hrd
          exact ⟨by simpa using h1, r, rfl, hb⟩
        · split at hf
          · cases hf
          · split at hf <;> cases hf

/-- a `Finalise` that returned no error -/
theorem gw_fin_noerr {c : Conf} {a : Api} {st : Option (List Rule)} (he : (gwFinaliseNF c a st).err = false) :
    a.read.1 = false ∧
    (st = none ∨ ∃ r, st = some r ∧
      (r = finaliseRules c r ∨
       (r ≠ finaliseRules c r ∧ a.read.2.read.1 = false ∧ ∃ a3, a.read.2.read.2.spend = some a3))) := by
  unfold gwFinaliseNF at he
  split at he
  · cases he
  · rename_i h1
    refine ⟨by simpa using h1, ?_⟩
    split at he
    · exact Or.inl rfl
    · rename_i r
      right
      refine ⟨r, rfl, ?_⟩
      split at he
      · rename_i hrd; exact Or.inl hrd
      · rename_i hrd
        split at he
        · cases he
        · rename_i h2
          split at he
          · cases he
          · rename_i a3 hsp
            exact Or.inr ⟨hrd, by simpa using h2, a3, hsp⟩

theorem armed_of_spend_read2 {a a3 : Api} (h1 : a.read.1 = false) (h2 : a.read.2.read.1 = false)
    (hsp : a.read.2.read.2.spend = some a3) : a3.armed = a.armed := by
  have e1 : a.read.2.armed = a.armed := by
    rcases Api.read_cases a with ⟨h, _, _⟩ | ⟨_, h⟩
    · rw [h1] at h; cases h
    · exact h
  have e2 : a.read.2.read.2.armed = a.read.2.armed := by
    rcases Api.read_cases a.read.2 with ⟨h, _, _⟩ | ⟨_, h⟩
    · rw [h2] at h; cases h
    · exact h
  rw [Api.spend_armed hsp, e2, e1]

theorem rf_false_elim {a b : Api} {p : Prop} (h0 : readFailed a b = false) (h : readFailed a b = true) : p := by
  rw [h0] at h; cases h

theorem armed_false_elim {a : Api} {p : Prop} (h0 : a.armed = false) (h : a.armed = true) : p := by
  rw [h0] at h; cases h

theorem readFailed_of_armed_eq {a b : Api} (h : b.armed = a.armed) : readFailed a b = false := by
  unfold readFailed; rw [h]; cases a.armed <;> rfl

/-- read faults of the Gateway `EnsureRoutes`: the result's API value after a failed read comes with an error -/
theorem gw_ens_read (c : Conf) (a : Api) (st : Option (List Rule)) (s : Strat) :
    (readFailed a (gwEnsureNF c a st s).a = true → (gwEnsureNF c a st s).err = true) ∧
    ((gwEnsureNF c a st s).a.armed = true → a.armed = true) := by
  rcases Api.read_cases a with ⟨hr, har, hr2⟩ | ⟨hr, hr2⟩
  · have : gwEnsureNF c a st s = ⟨st, false, true, a.read.2, [], false⟩ := by simp [gwEnsureNF, hr]
    rw [this]
    exact ⟨fun _ => rfl, armed_false_elim hr2⟩
  · have rf1 := readFailed_of_armed_eq hr2
    have mono1 : a.read.2.armed = true → a.armed = true := fun h => by rw [← hr2]; exact h
    cases st with
    | none =>
      have : gwEnsureNF c a none s = ⟨none, false, true, a.read.2, [], false⟩ := by simp [gwEnsureNF, hr]
      rw [this]; exact ⟨fun _ => rfl, mono1⟩
    | some r =>
      cases hb : buildDesired c r s.weight s.mts with
      | panic =>
        have : gwEnsureNF c a (some r) s = ⟨some r, false, false, a.read.2, [], true⟩ := by simp [gwEnsureNF, hr, hb]
        rw [this]; exact ⟨rf_false_elim rf1, mono1⟩
      | ok d =>
        by_cases hrd : r = d
        · subst hrd
          have : gwEnsureNF c a (some r) s = ⟨some r, true, false, a.read.2, [], false⟩ := by
            simp [gwEnsureNF, hr, hb]
          rw [this]; exact ⟨rf_false_elim rf1, mono1⟩
        · rcases Api.read_cases a.read.2 with ⟨hq, _, hq2⟩ | ⟨hq, hq2⟩
          · have : gwEnsureNF c a (some r) s = ⟨some r, false, true, a.read.2.read.2, [], false⟩ := by
              simp [gwEnsureNF, hr, hb, hrd, hq]
            rw [this]; exact ⟨fun _ => rfl, armed_false_elim hq2⟩
          · have mono2 : a.read.2.read.2.armed = true → a.armed = true := fun h => mono1 (by rw [← hq2]; exact h)
            cases hsp : a.read.2.read.2.spend with
            | none =>
              have : gwEnsureNF c a (some r) s = ⟨some r, false, true, a.read.2.read.2, [], false⟩ := by
                simp [gwEnsureNF, hr, hb, hrd, hq, hsp]
              rw [this]; exact ⟨fun _ => rfl, mono2⟩
            | some a3 =>
              have : gwEnsureNF c a (some r) s = ⟨some d, false, false, a3, ["updateRoute"], false⟩ := by
                simp [gwEnsureNF, hr, hb, hrd, hq, hsp]
              rw [this]
              have h3 := armed_of_spend_read2 hr hq hsp
              exact ⟨rf_false_elim (readFailed_of_armed_eq h3), fun h => h3 ▸ h⟩

theorem gw_fin_read (c : Conf) (a : Api) (st : Option (List Rule)) :
    (readFailed a (gwFinaliseNF c a st).a = true → (gwFinaliseNF c a st).err = true) ∧
    ((gwFinaliseNF c a st).a.armed = true → a.armed = true) := by
  rcases Api.read_cases a with ⟨hr, har, hr2⟩ | ⟨hr, hr2⟩
  · have : gwFinaliseNF c a st = ⟨st, false, true, a.read.2, [], false⟩ := by simp [gwFinaliseNF, hr]
    rw [this]
    exact ⟨fun _ => rfl, armed_false_elim hr2⟩
  · have rf1 := readFailed_of_armed_eq hr2
    have mono1 : a.read.2.armed = true → a.armed = true := fun h => by rw [← hr2]; exact h
    cases st with
    | none =>
      have : gwFinaliseNF c a none = ⟨none, false, false, a.read.2, [], false⟩ := by simp [gwFinaliseNF, hr]
      rw [this]; exact ⟨rf_false_elim rf1, mono1⟩
    | some r =>
      by_cases hrd : r = finaliseRules c r
      · have : gwFinaliseNF c a (some r) = ⟨some r, false, false, a.read.2, [], false⟩ := by
          simp [gwFinaliseNF, hr, ← hrd]
        rw [this]; exact ⟨rf_false_elim rf1, mono1⟩
      · rcases Api.read_cases a.read.2 with ⟨hq, _, hq2⟩ | ⟨hq, hq2⟩
        · have : gwFinaliseNF c a (some r) = ⟨some r, false, true, a.read.2.read.2, [], false⟩ := by
            simp [gwFinaliseNF, hr, hrd, hq]
          rw [this]; exact ⟨fun _ => rfl, armed_false_elim hq2⟩
        · have mono2 : a.read.2.read.2.armed = true → a.armed = true := fun h => mono1 (by rw [← hq2]; exact h)
          cases hsp : a.read.2.read.2.spend with
          | none =>
            have : gwFinaliseNF c a (some r) = ⟨some r, false, true, a.read.2.read.2, [], false⟩ := by
              simp [gwFinaliseNF, hr, hrd, hq, hsp]
            rw [this]; exact ⟨fun _ => rfl, mono2⟩
          | some a3 =>
            have : gwFinaliseNF c a (some r) = ⟨some (finaliseRules c r), true, false, a3, ["updateRoute"], false⟩ := by
              simp [gwFinaliseNF, hr, hrd, hq, hsp]
            rw [this]
            have h3 := armed_of_spend_read2 hr hq hsp
            exact ⟨rf_false_elim (readFailed_of_armed_eq h3), fun h => h3 ▸ h⟩

/-- **the Gateway API provider is lawful** (C13: `step_preserves`, `step_idem`, `weight_step`, `match_step`,
    `finalise_step`): on routes of reachable shape, with two different Service names. -/
theorem gw_lawful (c : Conf) :
    LawfulProvider (gwProvider c) (gwInv c) (fun st s => gwSpecB c s st = true) (fun st => gwCleanB c st = true)
      (gwMu c) 1 where
  inv_ensure := by
    intro a st s ⟨hc, hi⟩
    rw [gw_ensure_eq]
    refine ⟨hc, ?_⟩
    unfold gwEnsureNF
    split
    · exact hi
    · split
      · exact hi
      · rename_i r
        split
        · exact hi
        · rename_i d hb
          split
          · exact hi
          · split
            · exact hi
            · split
              · exact hi
              · intro r' hr'
                cases hr'
                exact (step_preserves (ne_of_confOk' hc) (hi r rfl) hb).1
  inv_finalise := by
    intro a st ⟨hc, hi⟩
    rw [gw_finalise_eq]
    refine ⟨hc, ?_⟩
    unfold gwFinaliseNF
    split
    · exact hi
    · split
      · exact hi
      · rename_i r
        split
        · exact hi
        · split
          · exact hi
          · split
            · exact hi
            · intro r' hr'
              cases hr'
              exact (step_preserves (ne_of_confOk' hc) (hi r rfl) (buildDesired_finalise c r [])).1
  verified_spec := by
    intro a st s ⟨hc, hi⟩ _ _ hf
    rw [gw_ensure_eq] at hf ⊢
    obtain ⟨h1, r, hst, hb⟩ := gw_ens_verified hf
    subst hst
    simp only [gwEnsureNF, h1, Bool.false_eq_true, if_false, hb, if_true, gwSpecB, beq_self_eq_true, Bool.true_and]
    exact gwClause_of_fixed hc (hi r rfl) s hb
  verified_stable := by
    intro a st s _ _ _ hf a' ha'
    rw [gw_ensure_eq] at hf ⊢
    obtain ⟨h1, r, hst, hb⟩ := gw_ens_verified hf
    subst hst
    rw [gw_ensure_eq]
    simp [gwEnsureNF, h1, Api.read_of_not_armed ha', hb, PRes.noop]
  finalise_clean := by
    intro a st ⟨hc, hi⟩ _ he
    have hne := ne_of_confOk' hc
    rw [gw_finalise_eq] at he ⊢
    obtain ⟨h1, hcase⟩ := gw_fin_noerr he
    rcases hcase with hst | ⟨r, hst, hcase⟩
    · subst hst
      simp [gwFinaliseNF, h1, gwCleanB]
    · subst hst
      have hcf := canaryFree_finaliseRules hne (hi r rfl)
      have hfix := step_idem hne (hi r rfl) (buildDesired_finalise c r [])
      rcases hcase with hrd | ⟨hrd, h2, a3, hsp⟩
      · rw [← hrd] at hcf hfix
        simp [gwFinaliseNF, h1, ← hrd, gwCleanB, hcf, hfix]
      · simp [gwFinaliseNF, h1, hrd, h2, hsp, gwCleanB, hcf, hfix]
  finalise_stable := by
    intro a st ⟨hc, hi⟩ _ he a' ha'
    have hne := ne_of_confOk' hc
    rw [gw_finalise_eq] at he ⊢
    obtain ⟨h1, hcase⟩ := gw_fin_noerr he
    rcases hcase with hst | ⟨r, hst, hcase⟩
    · subst hst
      rw [gw_finalise_eq]
      simp [gwFinaliseNF, h1, Api.read_of_not_armed ha', PRes.noop]
    · subst hst
      have hfix := step_idem hne (hi r rfl) (buildDesired_finalise c r [])
      rw [buildDesired_finalise, Out.ok.injEq] at hfix
      rcases hcase with hrd | ⟨hrd, h2, a3, hsp⟩
      · rw [gw_finalise_eq]
        simp [gwFinaliseNF, h1, ← hrd, Api.read_of_not_armed ha', PRes.noop]
      · rw [gw_finalise_eq]
        simp [gwFinaliseNF, h1, hrd, h2, hsp, Api.read_of_not_armed ha', PRes.noop, hfix]
  finalise_healthy := by
    intro st _
    rw [gw_finalise_eq]
    unfold gwFinaliseNF
    simp only [Api.read_ok, Bool.false_eq_true, if_false, Api.spend_ok]
    split
    · exact ⟨rfl, rfl⟩
    · split <;> exact ⟨rfl, rfl⟩
  ensure_progress := by
    intro st s ⟨hc, hi⟩ hp he
    have hne := ne_of_confOk' hc
    rw [gw_ensure_eq] at hp he ⊢
    cases st with
    | none => simp [gwEnsureNF] at he
    | some r =>
      cases hb : buildDesired c r s.weight s.mts with
      | panic => simp [gwEnsureNF, hb] at hp
      | ok d =>
        by_cases hrd : r = d
        · subst hrd
          simp [gwEnsureNF, hb]
        · have hid := step_idem hne (hi r rfl) hb
          have h1 : gwMu c (some d) s = 0 := by simp [gwMu, hid]
          have h2 : gwMu c (some r) s = 1 := by
            have : buildDesired c r s.weight s.mts ≠ .ok r := by
              rw [hb]; intro h; injection h with h; exact hrd h.symm
            simp [gwMu, this]
          simp [gwEnsureNF, hb, hrd, h1, h2]
  μ_le := by
    intro st s
    unfold gwMu
    split
    · exact Nat.zero_le _
    · split <;> omega
  healthy_ensure := by
    intro st s
    rw [gw_ensure_eq]
    unfold gwEnsureNF
    simp only [Api.read_ok, Bool.false_eq_true, if_false, Api.spend_ok]
    split
    · rfl
    · split
      · rfl
      · split <;> rfl
  healthy_finalise := by
    intro st
    rw [gw_finalise_eq]
    unfold gwFinaliseNF
    simp only [Api.read_ok, Bool.false_eq_true, if_false, Api.spend_ok]
    split
    · rfl
    · split <;> rfl
  writes_ensure := by
    intro a st s
    rw [gw_ensure_eq]
    unfold gwEnsureNF
    split
    · exact NamedWrites.nil
    · split
      · exact NamedWrites.nil
      · split
        · exact NamedWrites.nil
        · split
          · exact NamedWrites.nil
          · split
            · exact NamedWrites.nil
            · split
              · exact NamedWrites.nil
              · exact named_updateRoute
  writes_finalise := by
    intro a st
    rw [gw_finalise_eq]
    unfold gwFinaliseNF
    split
    · exact NamedWrites.nil
    · split
      · exact NamedWrites.nil
      · split
        · exact NamedWrites.nil
        · split
          · exact NamedWrites.nil
          · split
            · exact NamedWrites.nil
            · exact named_updateRoute
  read_fault_ensure := by
    intro a st s _
    rw [gw_ensure_eq]
    exact gw_ens_read c a st s
  read_fault_finalise := by
    intro a st _
    rw [gw_finalise_eq]
    exact gw_fin_read c a st

end RV.TrafficX
