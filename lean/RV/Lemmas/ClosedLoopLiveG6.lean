/-
  Progress of the closed loop, round-boundary classes 20, 21, 22, 23: one fair round from a state of the class leads to a state of the
  invariant with a strictly smaller measure.
-/
import RV.Lemmas.ClosedLoopLiveBase
namespace RV.Lemmas.ClosedLoop
open RV.Arith RV.Traffic RV.RolloutSM RV.ClosedLoop RV.Oracle.ClosedLoop RV.Props.Reconcile RV.Props.Rollout RV.Props.Cluster

/-! ### the Rollout reconcile of a clean-up round whose task is a Manager call without traffic routing -/

/-- a Manager call of a rollout without traffic routing returns at once -/
theorem lG6_callTM (f : TCtx → Net → Mem → TOut) (c : Ctx) (hst : c.ro.steps ≠ []) (hnt : c.ro.hasTraffic = false)
    (hf : ∀ (t : TCtx) (n : Net) (m : Mem), t.hasRef = false → f t n m = ⟨false, false, n, m, false, []⟩) :
    callTM f c = some (c, false, false) := by
  obtain ⟨t, ht, hh⟩ : ∃ t, trCtx c.ro c.sub = some t ∧ t.hasRef = false := by
    unfold trCtx
    split
    · rename_i hs; exact absurd hs hst
    · exact ⟨_, rfl, hnt⟩
  unfold callTM
  rw [ht]
  have e := hf { t with hasRevKey := c.wlSeen } c.net c.mem hh
  dsimp only
  rw [e]
  simp

theorem lG6_tm_restoreStable (t : TCtx) (n : Net) (m : Mem) (h : t.hasRef = false) :
    restoreStableService t n m = ⟨false, false, n, m, false, []⟩ := by
  unfold restoreStableService; rw [if_pos (by simp [h])]

theorem lG6_tm_restoreGateway (t : TCtx) (n : Net) (m : Mem) (h : t.hasRef = false) :
    restoreGateway t n m = ⟨false, false, n, m, false, []⟩ := by
  unfold restoreGateway; rw [if_pos (by simp [h])]

theorem lG6_tm_removeCanary (t : TCtx) (n : Net) (m : Mem) (h : t.hasRef = false) :
    removeCanaryService t n m = ⟨false, false, n, m, false, []⟩ := by
  unfold removeCanaryService; rw [if_pos (by simp [h])]

/-- the four cursors of the classes 20 – 23 -/
def lG6_tmCursor (f : FinStep) : Prop :=
  f = .empty ∨ f = .restoreStableService ∨ f = .routeTrafficToStable ∨ f = .removeCanaryService

/-- where the cursor stands after the round -/
def lG6_nxt (f : FinStep) : FinStep := nextTask (canaryTasks false) f

theorem lG6_doFin_aux (c c1 : Ctx) (nx : FinStep) (h0 : (stripAnno c).ro.steps.isEmpty = false)
    (hnx : nextTask (taskList (stripAnno c).ro.style .success) (stripAnno c).sub.finStep = nx)
    (hne : (stripAnno c).sub.finStep ≠ .end_) (h1 : startCursor (stripAnno c) nx = c1)
    (hk : finKnown c1.ro.style c1.sub.finStep = true) (ht : finTask c1 true = some (c1, false, false)) (hnx' : nx ≠ .end_) :
    doFinalising c .success true = some ({ c1 with sub := { c1.sub with finStep := nx, lastUpdate := .fresh } }, false, false) := by
  unfold doFinalising
  simp only [h0, hnx, h1, hk, ht, hne, hnx', if_false, Bool.false_eq_true, not_true_eq_false, or_self, decide_false]

/-- one clean-up round on one of the Manager tasks, no traffic routing: the annotation goes, the cursor moves on -/
theorem lG6_doFinalising (c : Ctx) (hst : c.ro.steps ≠ []) (hsty : c.ro.style = .canary) (hnt : c.ro.hasTraffic = false)
    (hf : lG6_tmCursor c.sub.finStep) :
    doFinalising c .success true =
      some ({ stripAnno c with sub := { c.sub with finStep := lG6_nxt c.sub.finStep, lastUpdate := .fresh } }, false, false) := by
  obtain ⟨hs, hr⟩ := stripAnno_frame c
  have hst' : (stripAnno c).ro.steps ≠ [] := by rw [hr]; exact hst
  have hnt' : (stripAnno c).ro.hasTraffic = false := by rw [hr]; exact hnt
  have h0 : (stripAnno c).ro.steps.isEmpty = false := by rw [hr]; simpa using hst
  rcases hf with h | h | h | h
  · have hfs : (stripAnno c).sub.finStep = .empty := by rw [hs, h]
    have e := lG6_doFin_aux c
      { stripAnno c with sub := { (stripAnno c).sub with finStep := .restoreStableService, lastUpdate := .fresh } }
      .restoreStableService h0 (by rw [hr, hsty, hfs]; rfl) (by rw [hfs]; decide)
      (by unfold startCursor; rw [if_pos hfs]) rfl
      (by unfold finTask; dsimp only; exact lG6_callTM _ _ hst' hnt' lG6_tm_restoreStable) (by decide)
    rw [e, h]
    simp only [hs]
    rfl
  · have hfs : (stripAnno c).sub.finStep = .restoreStableService := by rw [hs, h]
    have e := lG6_doFin_aux c (stripAnno c) .routeTrafficToStable h0 (by rw [hr, hsty, hfs]; rfl) (by rw [hfs]; decide)
      (by unfold startCursor; rw [if_neg (by rw [hfs]; decide)]) (by rw [hfs]; rfl)
      (by unfold finTask; rw [hfs]; exact lG6_callTM _ _ hst' hnt' lG6_tm_restoreStable) (by decide)
    rw [e, h, hs]
    rfl
  · have hfs : (stripAnno c).sub.finStep = .routeTrafficToStable := by rw [hs, h]
    have e := lG6_doFin_aux c (stripAnno c) .removeCanaryService h0 (by rw [hr, hsty, hfs]; rfl) (by rw [hfs]; decide)
      (by unfold startCursor; rw [if_neg (by rw [hfs]; decide)]) (by rw [hfs]; rfl)
      (by unfold finTask; rw [hfs]; exact lG6_callTM _ _ hst' hnt' lG6_tm_restoreGateway) (by decide)
    rw [e, h, hs]
    rfl
  · have hfs : (stripAnno c).sub.finStep = .removeCanaryService := by rw [hs, h]
    have e := lG6_doFin_aux c (stripAnno c) .resumeWorkload h0 (by rw [hr, hsty, hfs]; rfl) (by rw [hfs]; decide)
      (by unfold startCursor; rw [if_neg (by rw [hfs]; decide)]) (by rw [hfs]; rfl)
      (by unfold finTask; rw [hfs]; exact lG6_callTM _ _ hst' hnt' lG6_tm_removeCanary) (by decide)
    rw [e, h, hs]
    rfl

/-- the whole Rollout reconcile of such a round -/
theorem lG6_reconcile (w : World) (wl : WL) (s1 : Sub) (hg : RoGood w.ro) (hph : w.ro.phase = .progressing)
    (hr : w.ro.reason = .finalising) (hwl : w.wl = some wl) (hc : wl.consistent = true) (hnt : w.ro.hasTraffic = false)
    (hs1 : (csObserve w.ro wl).sub = some s1) (hf : lG6_tmCursor s1.finStep) :
    ∃ ws, reconcile w = .val
      { w := { ro := { csObserve w.ro wl with sub := some { s1 with finStep := lG6_nxt s1.finStep, lastUpdate := .fresh } },
               wl := some { wl with inProgressAnno := false }, br := w.br, net := w.net, mem := w.mem },
        roGone := false, requeue := true, err := false, writes := ws } := by
  have hhf := hf_good w.ro hg
  have hcs := cs_good w.ro wl hg hph hc
  have hsame := (csObserve_same w.ro wl).1
  generalize csObserve w.ro wl = ns at hcs hsame hs1
  have hsteps : ns.steps ≠ [] := by rw [hsame.1]; exact hg.steps
  have hstyle : ns.style = .canary := by rw [hsame.2.2.1]; exact hg.canary
  have hnt' : ns.hasTraffic = false := by rw [hsame.2.1]; exact hnt
  have hd := lG6_doFinalising (toCtx { w with ro := ns } s1 wl) hsteps hstyle hnt' hf
  obtain ⟨hb0, hn0, _, hm0⟩ := stripAnno_frame' (toCtx { w with ro := ns } s1 wl)
  have hw0 := stripAnno_wl (toCtx { w with ro := ns } s1 wl)
  generalize hc' : ({ stripAnno (toCtx { w with ro := ns } s1 wl) with
      sub := { (toCtx { w with ro := ns } s1 wl).sub with
        finStep := lG6_nxt (toCtx { w with ro := ns } s1 wl).sub.finStep, lastUpdate := .fresh } } : Ctx) = c' at hd
  have hfz : finalise w ns (some wl) .success true = some (ofCtx w c' ns, false, false, c'.writes) := by
    unfold finalise
    rw [hs1]
    dsimp only
    rw [if_neg (by simp [hc]), hd]
  have hrec := reconcile_finalising_eq w wl ns _ false false _ hhf hcs hph hr hwl hc hfz hg.notDeleting hg.enabled
  rw [if_neg (by simp), if_neg (by simp)] at hrec
  refine ⟨[] ++ c'.writes, ?_⟩
  rw [hrec]
  subst hc'
  unfold ofCtx
  dsimp only
  rw [hb0, hn0, hm0, hw0]
  rfl

/-! ### the BatchRelease reconcile: a Ready, partitioned, synchronised release is left as it is -/

theorem lG6_nostop (br : Executor.BR) (ew : Executor.Workload)
    (h1 : br.deleting = false) (h2 : ew.observedGeneration = ew.generation) (h3 : br.status.observedReplicas = ew.replicas)
    (h4 : br.status.updateRevision = ew.updateRevision) (h5 : br.status.phase = .progressing) (h6 : br.partition.isSome = true)
    (h7 : br.status.hash = .same) (h8 : br.status.currentBatch < br.batches.length) (h9 : br.rollbackAnno = false)
    (h10 : br.status.updated = ew.updated) (h11 : br.status.updatedReady = ew.updatedReady)
    (h12 : br.status.rolloutIDSame = true) :
    RV.Oracle.Executor.stopped br (some ew) = false := by
  have e1 : Executor.initializedStatus br.status = br.status := by
    unfold Executor.initializedStatus; rw [if_neg (by rw [h5]; decide)]
  have e2 : Executor.syncInfo (Executor.withFinalizer br) br.status (some ew) = (.normal, some ew) := by
    unfold Executor.syncInfo
    rw [if_neg (by show ¬ br.deleting = true; rw [h1]; decide)]
    dsimp only
    rw [if_neg (by rw [h2]; omega)]
    split
    · rfl
    · rw [if_neg (by rw [h3]; simp), if_neg (by rw [h4]; intro ⟨_, a, b, c⟩; exact c b),
        if_neg (by rw [h4]; simp)]
  have e3 : Executor.syncDecide (Executor.withFinalizer br) br.status .normal (some ew) = (br.status, false) := by
    have hp : (Executor.withFinalizer br).partition.isNone = false := by
      show br.partition.isNone = false
      cases hq : br.partition with
      | none => rw [hq] at h6; cases h6
      | some p => rfl
    unfold Executor.syncDecide Executor.isPlanFinalizing Executor.isPlanChanged Executor.isPlanUnhealthy
    have hd : (Executor.withFinalizer br).deleting = false := h1
    have hra : (Executor.withFinalizer br).rollbackAnno = false := h9
    have h8' : ¬ (br.status.currentBatch ≥ br.batches.length) := by omega
    simp [wf_status, wf_batches, hp, hd, hra, h5, h7, h8']
  have e4 : Executor.refreshStatus br.status (some ew) = br.status := by
    unfold Executor.refreshStatus
    dsimp only
    rw [← h10, ← h11, h7]
    rw [if_neg (by decide)]
    have : ∀ st : Executor.Status, st.rolloutIDSame = true → st.hash = .same →
        ({ st with hash := .same, rolloutIDSame := true } : Executor.Status) = st := by
      intro st a b; cases st; simp_all
    exact this _ h12 h7
  unfold RV.Oracle.Executor.stopped Executor.syncStatus
  dsimp only
  rw [e1, e2]
  dsimp only
  rw [e3]
  dsimp only
  rw [e4]
  simp [wf_status]

/-! ### the classes 20 – 23 (and the successor 24) -/

/-- the facts shared by the classes 20 – 24 -/
structure lG6_Facts (s : CS) (w : CWl) (sub : Sub) (b : CBr) : Prop where
  hw : s.wl = some w
  hph : s.ro.phase = .progressing
  hr : s.ro.reason = .finalising
  hsub : s.ro.sub = some sub
  hb : s.br = some b
  sync : brSync b w = true
  init : brInit b w = true
  ready : b.st.batchState = .ready
  part : b.partition.isSome = true
  rdy : RV.Oracle.Executor.batchReadyNow (exBr b) (some (exWl w)) = true
  isp : cls.isPartitioned' b = true

def lG6_code (f : FinStep) : Nat :=
  match f with
  | .empty => 20
  | .restoreStableService => 21
  | .routeTrafficToStable => 22
  | .removeCanaryService => 23
  | .resumeWorkload => 24
  | _ => 0

theorem lG6_cls_facts (s : CS) (k : Nat) (hc : cls s = k) (hk : 20 ≤ k ∧ k ≤ 23) :
    ∃ w sub b, lG6_Facts s w sub b ∧ lG6_tmCursor sub.finStep ∧ k = lG6_code sub.finStep := by
  unfold cls at hc
  split at hc
  · omega
  · rename_i w hw
    split at hc
    case h_4 =>
      rename_i hph hr
      split at hc
      · omega
      · rename_i sub hsub
        split at hc
        · rename_i b hf hb
          split at hc
          · rename_i hcond
            simp only [Bool.and_eq_true, beq_iff_eq] at hcond
            obtain ⟨⟨⟨⟨⟨h1, h2⟩, h3⟩, h4⟩, h5⟩, h6⟩ := hcond
            rw [hf] at hc
            dsimp only at hc
            refine ⟨w, sub, b, ⟨hw, hph, hr, hsub, hb, h1, h2, h3, h4, h5, h6⟩, ?_, ?_⟩
            · unfold lG6_tmCursor; rw [hf]; simp
            · rw [hf, ← hc]; rfl
          · omega
        · rename_i b hf hb
          split at hc
          · rename_i hcond
            simp only [Bool.and_eq_true, beq_iff_eq] at hcond
            obtain ⟨⟨⟨⟨⟨h1, h2⟩, h3⟩, h4⟩, h5⟩, h6⟩ := hcond
            rw [hf] at hc
            dsimp only at hc
            refine ⟨w, sub, b, ⟨hw, hph, hr, hsub, hb, h1, h2, h3, h4, h5, h6⟩, ?_, ?_⟩
            · unfold lG6_tmCursor; rw [hf]; simp
            · rw [hf, ← hc]; rfl
          · omega
        · rename_i b hf hb
          split at hc
          · rename_i hcond
            simp only [Bool.and_eq_true, beq_iff_eq] at hcond
            obtain ⟨⟨⟨⟨⟨h1, h2⟩, h3⟩, h4⟩, h5⟩, h6⟩ := hcond
            rw [hf] at hc
            dsimp only at hc
            refine ⟨w, sub, b, ⟨hw, hph, hr, hsub, hb, h1, h2, h3, h4, h5, h6⟩, ?_, ?_⟩
            · unfold lG6_tmCursor; rw [hf]; simp
            · rw [hf, ← hc]; rfl
          · omega
        · rename_i b hf hb
          split at hc
          · rename_i hcond
            simp only [Bool.and_eq_true, beq_iff_eq] at hcond
            obtain ⟨⟨⟨⟨⟨h1, h2⟩, h3⟩, h4⟩, h5⟩, h6⟩ := hcond
            rw [hf] at hc
            dsimp only at hc
            refine ⟨w, sub, b, ⟨hw, hph, hr, hsub, hb, h1, h2, h3, h4, h5, h6⟩, ?_, ?_⟩
            · unfold lG6_tmCursor; rw [hf]; simp
            · rw [hf, ← hc]; rfl
          · omega
        all_goals (try (repeat' split at hc))
        all_goals omega
    all_goals (try (repeat' split at hc))
    all_goals omega

theorem lG6_cls_of (s : CS) (w : CWl) (sub : Sub) (b : CBr) (F : lG6_Facts s w sub b)
    (hf : lG6_tmCursor sub.finStep ∨ sub.finStep = .resumeWorkload) : cls s = lG6_code sub.finStep := by
  have hcond : (brSync b w && brInit b w && b.st.batchState == Executor.BState.ready && b.partition.isSome &&
      RV.Oracle.Executor.batchReadyNow (exBr b) (some (exWl w)) && cls.isPartitioned' b) = true := by
    simp [F.sync, F.init, F.ready, F.part, F.rdy, F.isp]
  have hcond' : (brSync b w && brInit b w && b.st.batchState == Executor.BState.ready &&
      RV.Oracle.Executor.batchReadyNow (exBr b) (some (exWl w)) && cls.isPartitioned' b) = true := by
    simp [F.sync, F.init, F.ready, F.rdy, F.isp]
  unfold cls
  rw [F.hw]
  dsimp only
  rw [F.hph, F.hr]
  dsimp only
  rw [F.hsub]
  dsimp only
  rw [F.hb]
  rcases hf with (h | h | h | h) | h
  all_goals
    rw [h]
    dsimp only
    first
      | rw [if_pos hcond]; rfl
      | rw [if_pos F.part, if_pos hcond']; rfl

def lG6_rank (f : FinStep) : Nat :=
  match f with
  | .empty => 20
  | .restoreStableService => 18
  | .routeTrafficToStable => 16
  | .removeCanaryService => 14
  | .resumeWorkload => 12
  | _ => 0

theorem lG6_mu_of (s : CS) (w : CWl) (sub : Sub) (b : CBr) (F : lG6_Facts s w sub b)
    (hf : lG6_tmCursor sub.finStep ∨ sub.finStep = .resumeWorkload) : mu s = 2 + lG6_rank sub.finStep := by
  unfold mu
  dsimp only
  rw [F.hw]
  dsimp only
  rw [F.hph, F.hr]
  dsimp only
  rw [F.hsub]
  dsimp only
  unfold finRank
  rw [F.hb]
  rcases hf with (h | h | h | h) | h
  all_goals
    rw [h]
    dsimp only
    first
      | rfl
      | rw [if_pos F.part]; rfl

/-! ### the Rollout reconcile on the joint state -/

theorem lG6_csObserve_condAge (ro : Rollout) (wl : WL) : (csObserve ro wl).condAge = ro.condAge := by
  unfold csObserve
  split
  · split <;> rfl
  · rfl

theorem lG6_stepRo (s : CS) (w : CWl) (sub : Sub) (b : CBr) (hfwd : fwdInv s = true) (F : lG6_Facts s w sub b)
    (hnt : s.ro.hasTraffic = false) (hgen : w.generation = w.observedGeneration) (hf : lG6_tmCursor sub.finStep) :
    ∃ ro' sub', stepRo s = some { gone := false, ro := ro', wl := some { w with inProgressAnno := false }, br := some b,
                                   net := s.net, mem := s.mem } ∧
      ro'.sub = some sub' ∧ sub'.finStep = lG6_nxt sub.finStep ∧ sub'.lastUpdate = .fresh ∧ ro'.phase = .progressing ∧
      ro'.reason = .finalising ∧ ro'.steps = s.ro.steps ∧ ro'.hasTraffic = s.ro.hasTraffic := by
  obtain ⟨hgone, hg, _⟩ := fwd_parts s hfwd
  obtain ⟨_, hphase, hreason, s1, hs1, hs1f⟩ := csObserve_facts s.ro (roWl w) sub F.hsub
  have hsame := (csObserve_same s.ro (roWl w)).1
  have hc : (roWl w).consistent = true := by unfold roWl; simp [hgen]
  obtain ⟨ws, hrec⟩ := lG6_reconcile (roWorld s) (roWl w) s1 hg F.hph F.hr (world_wl s w F.hw) hc hnt hs1 (by rw [hs1f]; exact hf)
  have hst := stepRo_eq s hgone _ hrec
  refine ⟨{ csObserve s.ro (roWl w) with sub := some { s1 with finStep := lG6_nxt s1.finStep, lastUpdate := .fresh } },
    { s1 with finStep := lG6_nxt s1.finStep, lastUpdate := .fresh }, ?_, rfl, ?_, rfl, hphase.trans F.hph, hreason.trans F.hr,
    hsame.1, hsame.2.1⟩
  · rw [hst]
    unfold landRo
    dsimp only
    have e1 : (roWorld s).br = s.br.map roBr := rfl
    rw [e1, landBR_id, F.hw, F.hb]
    rfl
  · show lG6_nxt s1.finStep = _
    rw [hs1f]

/-! ### the BatchRelease reconcile on the joint state -/

theorem lG6_brSync_iff (b : CBr) (w : CWl) :
    brSync b w = true ↔ b.st.updated = w.updated ∧ b.st.updatedReady = w.updatedReady ∧ b.generation = b.observedGeneration ∧
      b.hasFinalizer = true ∧ b.deleting = false ∧ b.observedRolloutID = b.rolloutID ∧ b.rolloutID = w.updateRevision ∧
      b.specOther = true ∧ b.failureThreshold.isNone = true ∧ b.st.hash = .same := by
  unfold brSync
  simp only [Bool.and_eq_true, beq_iff_eq, Bool.not_eq_true', and_assoc]

theorem lG6_brInit_iff (b : CBr) (w : CWl) :
    brInit b w = true ↔ b.st.updateRevision = "wl-" ++ w.updateRevision ∧ b.st.observedReplicas = w.replicas ∧ w.owner = .this ∧
      b.st.phase = .progressing := by
  unfold brInit
  simp only [Bool.and_eq_true, beq_iff_eq, and_assoc]

/-- the batch the executor is on is inside the plan when the readiness check can be evaluated -/
theorem lG6_ready_lt (br : Executor.BR) (ew : Executor.Workload) (hR : ew.replicas ≠ 0) (h0 : 0 ≤ br.status.currentBatch)
    (h : RV.Oracle.Executor.batchReadyNow br (some ew) = true) : br.status.currentBatch < br.batches.length := by
  by_cases hlt : br.status.currentBatch < br.batches.length
  · exact hlt
  · exfalso
    unfold RV.Oracle.Executor.batchReadyNow at h
    dsimp only at h
    rw [if_neg hR] at h
    have e : RV.BatchCtx.calcCtx (Executor.obsOf br br.status ew) = .panic := by
      unfold RV.BatchCtx.calcCtx Executor.obsOf
      dsimp only
      have : (if br.status.currentBatch < 0 then none else br.batches[br.status.currentBatch.toNat]?) = none := by
        split
        · rfl
        · apply List.getElem?_eq_none; omega
      rw [this]
    rw [e] at h
    cases h

theorem lG6_stepBr (a : CS) (w w1 : CWl) (b : CBr) (hwl : a.wl = some w1) (hbr : a.br = some b) (hex : exWl w1 = exWl w)
    (hsync : brSync b w = true) (hinit : brInit b w = true) (hready : b.st.batchState = .ready)
    (hpart : b.partition.isSome = true) (hrdy : RV.Oracle.Executor.batchReadyNow (exBr b) (some (exWl w)) = true)
    (hisp : cls.isPartitioned' b = true) (hbok : brOK b = true) (hR : 0 < w.replicas)
    (hgen : w.generation = w.observedGeneration) :
    stepBr a = some { a with br := some { b with st := stOf b } } := by
  obtain ⟨y1, y2, y3, y4, y5, y6, y7, y8, y9, y10⟩ := (lG6_brSync_iff b w).1 hsync
  obtain ⟨i1, i2, i3, i4⟩ := (lG6_brInit_iff b w).1 hinit
  obtain ⟨k1, k2, k3, k4, k5⟩ := (brOK_iff b).1 hbok
  have hlt : (exBr b).status.currentBatch < (exBr b).batches.length :=
    lG6_ready_lt (exBr b) (exWl w) (by show w.replicas ≠ 0; omega) k2 hrdy
  have hns : RV.Oracle.Executor.stopped (exBr b) (some (exWl w)) = false :=
    lG6_nostop (exBr b) (exWl w) y5 hgen.symm i2 i1 i4 hpart y10 hlt k4 y1 y2 (by show decide (b.observedRolloutID = b.rolloutID) = true; simp [y6])
  cases hrec : Executor.reconcile (exBr b) (some (exWl w)) with
  | panic => exact absurd hrec (exec_total _ _ k2)
  | val o =>
    obtain ⟨ho1, ho2⟩ := RV.Props.Executor.ready_is_fixed_point (exBr b) (some (exWl w)) o hrec hns i4 hready hrdy hisp
    unfold stepBr
    rw [hbr]
    dsimp only
    rw [hwl]
    simp only [Option.map_some]
    rw [hex, hrec]
    dsimp only
    unfold landBr
    rw [ho1, ho2, hwl, ← hex]
    have e1 : wlLand (some w1) (some (exWl w1)) = some w1 := by
      unfold wlLand exWl
      cases w1
      simp
    have e2 : stLand b (Executor.withFinalizer (exBr b)) = { b with st := stOf b } := by
      unfold stLand Executor.withFinalizer exBr
      cases b
      simp_all [stOf]
    rw [e1, Option.map_some, e2]

/-! ### the rest of the round -/

theorem lG6_ageAge_idem (a : Age) : ageAge (ageAge a) = ageAge a := by cases a <;> rfl
theorem lG6_ageExp_idem (a : Exp) : ageExp (ageExp a) = ageExp a := by cases a <;> rfl

theorem lG6_tick_idem (x : CS) : tick (tick x) = tick x := by
  obtain ⟨gone, ro, wl, br, net, mem⟩ := x
  cases gone
  · unfold tick
    simp only [Bool.false_eq_true, if_false, lG6_ageAge_idem, lG6_ageExp_idem, Option.map_map]
    congr 2
    cases ro.sub with
    | none => rfl
    | some sb => simp [lG6_ageAge_idem]
  · unfold tick
    simp only [if_true, lG6_ageExp_idem]

theorem lG6_envWl_anno (w : CWl) (x : Bool) : envWl { w with inProgressAnno := x } = { envWl w with inProgressAnno := x } := by
  unfold envWl
  dsimp only
  split <;> rfl

theorem lG6_envWl_gen (w : CWl) : (envWl w).observedGeneration = w.generation ∧ (envWl w).generation = w.generation := by
  unfold envWl
  dsimp only
  split <;> exact ⟨rfl, rfl⟩

theorem lG6_atBoundary_tick (x : CS) (w : CWl) (hw : x.wl = some w) (henv : envWl w = w) : atBoundary (tick x) = true := by
  unfold atBoundary
  have : (tick x).wl = x.wl := rfl
  rw [this, hw]
  simp [henv, lG6_tick_idem]

theorem lG6_tick_ro (y : CS) (hg : y.gone = false) :
    (tick y).ro = { y.ro with sub := y.ro.sub.map (fun sub => { sub with lastUpdate := ageAge sub.lastUpdate }),
                              condAge := ageAge y.ro.condAge } := by
  unfold tick
  rw [hg]
  rfl

theorem lG6_tail (m : CS) (w1 : CWl) (sub' : Sub) (b' : CBr) (F : lG6_Facts m w1 sub' b') (hg : m.gone = false)
    (henv : envWl w1 = w1) :
    ∃ sub'', lG6_Facts (roundTail m) w1 sub'' b' ∧ sub''.finStep = sub'.finStep ∧ (roundTail m).ro.steps = m.ro.steps ∧
      (roundTail m).ro.hasTraffic = m.ro.hasTraffic ∧ atBoundary (roundTail m) = true := by
  have e0 : ({ m with wl := m.wl.map envWl } : CS) = m := by
    rw [F.hw, Option.map_some, henv, ← F.hw]
  unfold roundTail
  rw [e0]
  obtain ⟨sub2, hy, hy2⟩ : ∃ sub2, approve m = { m with ro := { m.ro with sub := some sub2 } } ∧ sub2.finStep = sub'.finStep := by
    unfold approve
    rw [hg, F.hsub]
    simp only [Bool.false_eq_true, if_false]
    by_cases hp : sub'.state = .paused
    · rw [if_pos hp]; exact ⟨_, rfl, rfl⟩
    · rw [if_neg hp]
      refine ⟨sub', ?_, rfl⟩
      rw [← F.hsub]
      clear e0 F
      obtain ⟨g, r, w', b0, n, me⟩ := m
      dsimp only at hg
      subst hg
      rfl
  rw [hy]
  have hro := lG6_tick_ro { m with ro := { m.ro with sub := some sub2 } } hg
  refine ⟨{ sub2 with lastUpdate := ageAge sub2.lastUpdate }, ⟨F.hw, ?_, ?_, ?_, F.hb, F.sync, F.init, F.ready, F.part, F.rdy, F.isp⟩,
    hy2, ?_, ?_, lG6_atBoundary_tick _ w1 F.hw henv⟩
  · rw [hro]; exact F.hph
  · rw [hro]; exact F.hr
  · rw [hro]; rfl
  · rw [hro]
  · rw [hro]

/-! ### the round -/

theorem lG6_liveCfg (s s' : CS) (w w1 : CWl) (hw : s.wl = some w) (hw' : s'.wl = some w1) (h1 : w1.replicas = w.replicas)
    (h2 : w1.paused = w.paused) (h3 : w1.updateRevision = w.updateRevision) (hsteps : s'.ro.steps = s.ro.steps)
    (hht : s'.ro.hasTraffic = s.ro.hasTraffic) : liveCfg s' = liveCfg s := by
  unfold liveCfg planOf
  rw [hw, hw', hsteps, hht]
  dsimp only
  rw [h1, h2, h3]

theorem lG6_nxt_cases (f : FinStep) (hf : lG6_tmCursor f) :
    (lG6_tmCursor (lG6_nxt f) ∨ lG6_nxt f = .resumeWorkload) ∧ lG6_code (lG6_nxt f) ≠ 0 ∧
      lG6_rank (lG6_nxt f) < lG6_rank f ∧ 10 < lG6_rank (lG6_nxt f) ∧ lG6_rank (lG6_nxt f) ≤ 20 := by
  unfold lG6_tmCursor at hf ⊢
  rcases hf with h | h | h | h <;> subst h <;> decide

/-- one fair round from a state of the classes 20 – 23 -/
theorem lG6_round (s : CS) (k : Nat) (h : liveInv s = true) (hc : cls s = k) (hk : 20 ≤ k ∧ k ≤ 23) :
    ∃ s', round s = some s' ∧ liveInv s' = true ∧ mu s' < mu s ∧ 12 < mu s' ∧ mu s' ≤ 32 := by
  obtain ⟨hfwd, hcfg, _, hbd⟩ := (liveInv_iff s).1 h
  have hbd : atBoundary s = true := by
    rcases hbd with h1 | h1
    · omega
    · exact h1
  obtain ⟨w, sub, b, F, hf, _⟩ := lG6_cls_facts s k hc hk
  -- the boundary: the CloneSet controller has caught up
  have henv : envWl w = w := by
    unfold atBoundary at hbd
    rw [F.hw] at hbd
    simp only [Bool.and_eq_true, beq_iff_eq] at hbd
    exact hbd.1
  have hgen : w.generation = w.observedGeneration := by
    have e := (lG6_envWl_gen w).1
    rw [henv] at e
    exact e.symm
  -- the configuration
  obtain ⟨hnt, hR⟩ : s.ro.hasTraffic = false ∧ 0 < w.replicas := by
    have hcfg' := hcfg
    unfold liveCfg at hcfg'
    rw [F.hw] at hcfg'
    simp only [Bool.and_eq_true, Bool.not_eq_true', decide_eq_true_eq] at hcfg'
    exact ⟨hcfg'.1.1, hcfg'.2.1.1.1⟩
  obtain ⟨_, _, w0, hw0, _, _, hbrok, _⟩ := fwd_parts s hfwd
  have hbok : brOK b = true := by
    have := hbrok
    rw [F.hb] at this
    exact this
  -- the two reconciles
  obtain ⟨a, bb, ha, _, hb, _, hround, hfin⟩ := round_fwd s hfwd
  obtain ⟨ro', sub', hro, hsub', hfs', _, hph', hr', hsteps', hht'⟩ := lG6_stepRo s w sub b hfwd F hnt hgen hf
  rw [hro] at ha
  cases ha
  have hbr := lG6_stepBr
    { gone := false, ro := ro', wl := some { w with inProgressAnno := false }, br := some b, net := s.net, mem := s.mem }
    w { w with inProgressAnno := false } b rfl rfl rfl F.sync F.init F.ready F.part F.rdy F.isp hbok hR hgen
  rw [hbr] at hb
  cases hb
  -- the rest of the round
  have henv1 : envWl { w with inProgressAnno := false } = { w with inProgressAnno := false } := by
    rw [lG6_envWl_anno, henv]
  have F1 : lG6_Facts
      { gone := false, ro := ro', wl := some { w with inProgressAnno := false }, br := some { b with st := stOf b },
        net := s.net, mem := s.mem } { w with inProgressAnno := false } sub' { b with st := stOf b } :=
    ⟨rfl, hph', hr', hsub', rfl, F.sync, F.init, F.ready, F.part, F.rdy, F.isp⟩
  obtain ⟨sub2, F2, hfs2, hsteps2, hht2, hbd2⟩ := lG6_tail _ _ _ _ F1 rfl henv1
  obtain ⟨n1, n2, n3, n4, n5⟩ := lG6_nxt_cases sub.finStep hf
  have hfin2 : sub2.finStep = lG6_nxt sub.finStep := hfs2.trans hfs'
  rw [← hfin2] at n1 n2 n3 n4 n5
  refine ⟨_, hround, (liveInv_iff _).2 ⟨hfin, ?_, ?_, Or.inr hbd2⟩, ?_, ?_, ?_⟩
  · rw [lG6_liveCfg s _ w _ F.hw F2.hw rfl rfl rfl (hsteps2.trans hsteps') (hht2.trans hht')]
    exact hcfg
  · rw [lG6_cls_of _ _ _ _ F2 n1]
    exact n2
  · rw [lG6_mu_of _ _ _ _ F2 n1, lG6_mu_of s w sub b F (Or.inl hf)]
    omega
  · rw [lG6_mu_of _ _ _ _ F2 n1]
    omega
  · rw [lG6_mu_of _ _ _ _ F2 n1]
    omega

theorem lG6_doneInv_of (s : CS) (h : 12 < mu s) : doneInv s = true := by
  unfold doneInv
  split
  · rfl
  · have h1 : 1 < mu s := by omega
    simp [h, h1]

theorem lG6_done (s : CS) (k : Nat) (h : liveInv s = true) (hc : cls s = k) (hk : 20 ≤ k ∧ k ≤ 23) :
    ∀ s', round s = some s' → doneInv s' = true := by
  intro s' hs'
  obtain ⟨s2, h1, _, _, h4, _⟩ := lG6_round s k h hc hk
  rw [h1] at hs'
  cases hs'
  exact lG6_doneInv_of _ h4

theorem round_cls_20 (s : CS) (h : liveInv s = true) (hc : cls s = 20) :
    ∃ s', round s = some s' ∧ liveInv s' = true ∧ mu s' < mu s := by
  obtain ⟨s', h1, h2, h3, _, _⟩ := lG6_round s 20 h hc (by omega)
  exact ⟨s', h1, h2, h3⟩

theorem round_cls_21 (s : CS) (h : liveInv s = true) (hc : cls s = 21) :
    ∃ s', round s = some s' ∧ liveInv s' = true ∧ mu s' < mu s := by
  obtain ⟨s', h1, h2, h3, _, _⟩ := lG6_round s 21 h hc (by omega)
  exact ⟨s', h1, h2, h3⟩

theorem round_cls_22 (s : CS) (h : liveInv s = true) (hc : cls s = 22) :
    ∃ s', round s = some s' ∧ liveInv s' = true ∧ mu s' < mu s := by
  obtain ⟨s', h1, h2, h3, _, _⟩ := lG6_round s 22 h hc (by omega)
  exact ⟨s', h1, h2, h3⟩

theorem round_cls_23 (s : CS) (h : liveInv s = true) (hc : cls s = 23) :
    ∃ s', round s = some s' ∧ liveInv s' = true ∧ mu s' < mu s := by
  obtain ⟨s', h1, h2, h3, _, _⟩ := lG6_round s 23 h hc (by omega)
  exact ⟨s', h1, h2, h3⟩

theorem done_cls_20 (s : CS) (h : liveInv s = true) (hd : doneInv s = true) (hc : cls s = 20) :
    ∀ s', round s = some s' → doneInv s' = true := by
  have _ := hd
  exact lG6_done s 20 h hc (by omega)

theorem done_cls_21 (s : CS) (h : liveInv s = true) (hd : doneInv s = true) (hc : cls s = 21) :
    ∀ s', round s = some s' → doneInv s' = true := by
  have _ := hd
  exact lG6_done s 21 h hc (by omega)

theorem done_cls_22 (s : CS) (h : liveInv s = true) (hd : doneInv s = true) (hc : cls s = 22) :
    ∀ s', round s = some s' → doneInv s' = true := by
  have _ := hd
  exact lG6_done s 22 h hc (by omega)

theorem done_cls_23 (s : CS) (h : liveInv s = true) (hd : doneInv s = true) (hc : cls s = 23) :
    ∀ s', round s = some s' → doneInv s' = true := by
  have _ := hd
  exact lG6_done s 23 h hc (by omega)

theorem lG6_polInv_of (s : CS) (h : mu s ≤ 32) : polInv s = true := by
  unfold polInv
  split
  · simp [h]
  · rfl

theorem lG6_pol (s : CS) (k : Nat) (h : liveInv s = true) (hc : cls s = k) (hk : 20 ≤ k ∧ k ≤ 23) :
    ∀ s', round s = some s' → polInv s' = true := by
  intro s' hs'
  obtain ⟨s2, h1, _, _, _, h5⟩ := lG6_round s k h hc hk
  rw [h1] at hs'
  cases hs'
  exact lG6_polInv_of _ h5

theorem pol_cls_20 (s : CS) (h : liveInv s = true) (hp : polInv s = true) (hc : cls s = 20) :
    ∀ s', round s = some s' → polInv s' = true := by
  have _ := hp
  exact lG6_pol s 20 h hc (by omega)

theorem pol_cls_21 (s : CS) (h : liveInv s = true) (hp : polInv s = true) (hc : cls s = 21) :
    ∀ s', round s = some s' → polInv s' = true := by
  have _ := hp
  exact lG6_pol s 21 h hc (by omega)

theorem pol_cls_22 (s : CS) (h : liveInv s = true) (hp : polInv s = true) (hc : cls s = 22) :
    ∀ s', round s = some s' → polInv s' = true := by
  have _ := hp
  exact lG6_pol s 22 h hc (by omega)

theorem pol_cls_23 (s : CS) (h : liveInv s = true) (hp : polInv s = true) (hc : cls s = 23) :
    ∀ s', round s = some s' → polInv s' = true := by
  have _ := hp
  exact lG6_pol s 23 h hc (by omega)

end RV.Lemmas.ClosedLoop
