/-
  Supersession, executor side: a BatchRelease that "holds" (Completed; deleted / being finalised with its batch partition still
  set; or Progressing on a recorded revision that is no longer the workload's) never lowers the workload's partition, and keeps holding.
-/
import RV.Lemmas.ClosedLoopStepBr
namespace RV.Lemmas.ClosedLoop
open RV.Arith RV.BatchCtx RV.ClosedLoop RV.Oracle.ClosedLoop

/-! ### helpers: the sync step, branch by branch -/

theorem holds_wl_inj (a b : String) (h : "wl-" ++ a = "wl-" ++ b) : a = b :=
  (String.append_right_inj "wl-").mp h

theorem holds_refresh_updateRevision (ns : Executor.Status) (info : Option Executor.Workload) :
    (Executor.refreshStatus ns info).updateRevision = ns.updateRevision := by
  unfold Executor.refreshStatus; cases info <;> rfl

theorem holds_refresh_observedReplicas (ns : Executor.Status) (info : Option Executor.Workload) :
    (Executor.refreshStatus ns info).observedReplicas = ns.observedReplicas := by
  unfold Executor.refreshStatus; cases info <;> rfl

/-- status and stop flag of the sync step from the verdict of the special-case chain -/
theorem holds_sync_of_decide (br : Executor.BR) (ns : Executor.Status) (wl : Option Executor.Workload)
    (d : Executor.Status × Bool)
    (hd : Executor.syncDecide br ns (Executor.syncInfo br ns wl).1 (Executor.syncInfo br ns wl).2 = d) :
    (Executor.syncStatus br ns wl).status = Executor.refreshStatus d.1 (Executor.syncInfo br ns wl).2 ∧
    (Executor.syncStatus br ns wl).stop =
      (d.2 || decide (Executor.refreshStatus d.1 (Executor.syncInfo br ns wl).2 ≠ br.status)) := by
  subst hd
  exact ⟨rfl, rfl⟩

theorem holds_decide_finalizing (br : Executor.BR) (ns : Executor.Status) (ev : Executor.Event)
    (info : Option Executor.Workload) (hc : br.status.phase ≠ .completed) (hf : Executor.isPlanFinalizing br = true) :
    Executor.syncDecide br ns ev info = ({ ns with phase := .finalizing }, false) := by
  unfold Executor.syncDecide
  dsimp only
  rw [if_neg hc, if_pos hf]

theorem holds_decide_changed (br : Executor.BR) (ns : Executor.Status) (ev : Executor.Event)
    (info : Option Executor.Workload) (hc : br.status.phase ≠ .completed) (hf : Executor.isPlanFinalizing br = false)
    (hch : Executor.isPlanChanged br = true) :
    Executor.syncDecide br ns ev info = (Executor.signalRecalculate br ns, false) := by
  unfold Executor.syncDecide
  dsimp only
  rw [if_neg hc, if_neg (by rw [hf]; exact Bool.false_ne_true), if_pos hch]

theorem holds_decide_unhealthy (br : Executor.BR) (ns : Executor.Status) (ev : Executor.Event)
    (info : Option Executor.Workload) (hc : br.status.phase ≠ .completed) (hf : Executor.isPlanFinalizing br = false)
    (hch : ¬ Executor.isPlanChanged br = true) (hu : Executor.isPlanUnhealthy br = true) :
    Executor.syncDecide br ns ev info = (Executor.resetStatus ns, false) := by
  unfold Executor.syncDecide
  dsimp only
  rw [if_neg hc, if_neg (by rw [hf]; exact Bool.false_ne_true), if_neg hch, if_pos hu]

theorem holds_decide_stop (br : Executor.BR) (ns : Executor.Status) (ev : Executor.Event)
    (info : Option Executor.Workload) (hp : br.status.phase = .progressing) (hf : Executor.isPlanFinalizing br = false)
    (hch : ¬ Executor.isPlanChanged br = true) (hu : ¬ Executor.isPlanUnhealthy br = true)
    (hev : ev = .podTemplateChanged ∨ ev = .stillReconciling) :
    Executor.syncDecide br ns ev info = (ns, true) := by
  have hc : br.status.phase ≠ .completed := by rw [hp]; decide
  unfold Executor.syncDecide
  dsimp only
  rw [if_neg hc, if_neg (by rw [hf]; exact Bool.false_ne_true), if_neg hch, if_neg hu]
  rcases hev with hev | hev
  · subst hev
    rw [if_neg (by intro hx; cases hx.1), if_neg (by intro hx; cases hx.1), if_pos ⟨rfl, hp⟩]
  · subst hev
    rw [if_neg (by intro hx; cases hx.1), if_neg (by intro hx; cases hx.1), if_neg (by intro hx; cases hx.1),
      if_pos rfl]

theorem holds_recalc_lt (br : Executor.BR) (ns : Executor.Status) (hne : br.batches ≠ []) :
    (Executor.signalRecalculate br ns).currentBatch < br.batches.length := by
  have hlen : 1 ≤ (br.batches.length : Int) := by
    cases hb : br.batches with
    | nil => exact absurd hb hne
    | cons a t => simp only [List.length_cons]; omega
  simp only [Executor.signalRecalculate]
  cases hpp : br.partition with
  | none => simp only []; omega
  | some p =>
    simp only []
    split <;> omega

/-- the sync step of a Progressing release that is not being finalised, when the workload reports another pod template
    (or is still reconciling): the round stops; the status keeps phase, recorded revision and observed replicas (the
    batch index is kept or recalculated) — or the plan is unhealthy and the status is reset to Preparing -/
theorem holds_sync_stop (br : Executor.BR) (wl : Option Executor.Workload) (hph : br.status.phase = .progressing)
    (hnf : Executor.isPlanFinalizing br = false)
    (hev : (Executor.syncInfo br br.status wl).1 = .podTemplateChanged ∨
           (Executor.syncInfo br br.status wl).1 = .stillReconciling) :
    (Executor.syncStatus br br.status wl).stop = true ∧
    (((Executor.syncStatus br br.status wl).status.phase = .progressing ∧
      (Executor.syncStatus br br.status wl).status.updateRevision = br.status.updateRevision ∧
      (Executor.syncStatus br br.status wl).status.observedReplicas = br.status.observedReplicas ∧
      ((Executor.syncStatus br br.status wl).status.currentBatch = br.status.currentBatch ∨
       (Executor.syncStatus br br.status wl).status.currentBatch = (Executor.signalRecalculate br br.status).currentBatch)) ∨
     (Executor.isPlanUnhealthy br = true ∧ (Executor.syncStatus br br.status wl).status.phase = .preparing)) := by
  have hc : br.status.phase ≠ .completed := by rw [hph]; decide
  by_cases hch : Executor.isPlanChanged br = true
  · obtain ⟨hs, hstop⟩ := holds_sync_of_decide br br.status wl _ (holds_decide_changed br br.status _ _ hc hnf hch)
    dsimp only at hs hstop
    have hh : (Executor.refreshStatus (Executor.signalRecalculate br br.status)
        (Executor.syncInfo br br.status wl).2).hash = .same := refresh_hash_same _ _ rfl
    have hne : br.status.hash ≠ .same := by
      simp only [Executor.isPlanChanged, Bool.and_eq_true, decide_eq_true_eq] at hch
      exact hch.1
    refine ⟨?_, Or.inl ?_⟩
    · rw [hstop, Bool.false_or, decide_eq_true_eq]
      intro heq
      rw [heq] at hh
      exact hne hh
    · rw [hs]
      refine ⟨?_, ?_, ?_, Or.inr ?_⟩
      · rw [Executor.refresh_phase]; exact hph
      · rw [holds_refresh_updateRevision]; rfl
      · rw [holds_refresh_observedReplicas]; rfl
      · rw [Executor.refresh_currentBatch]
  · by_cases hu : Executor.isPlanUnhealthy br = true
    · obtain ⟨hs, hstop⟩ := holds_sync_of_decide br br.status wl _ (holds_decide_unhealthy br br.status _ _ hc hnf hch hu)
      dsimp only at hs hstop
      have hp : (Executor.refreshStatus (Executor.resetStatus br.status)
          (Executor.syncInfo br br.status wl).2).phase = .preparing := by
        rw [Executor.refresh_phase]; rfl
      refine ⟨?_, Or.inr ⟨hu, ?_⟩⟩
      · rw [hstop, Bool.false_or, decide_eq_true_eq]
        intro heq
        rw [heq, hph] at hp
        cases hp
      · rw [hs]; exact hp
    · obtain ⟨hs, hstop⟩ := holds_sync_of_decide br br.status wl _ (holds_decide_stop br br.status _ _ hph hnf hch hu hev)
      dsimp only at hs hstop
      refine ⟨?_, Or.inl ?_⟩
      · rw [hstop, Bool.true_or]
      · rw [hs]
        refine ⟨?_, ?_, ?_, Or.inl ?_⟩
        · rw [Executor.refresh_phase]; exact hph
        · rw [holds_refresh_updateRevision]
        · rw [holds_refresh_observedReplicas]
        · rw [Executor.refresh_currentBatch]

/-- **C08 / C10 (executor, every state)** — a BatchRelease in phase Progressing that is not being finalised, for which the
    workload reports a pod template other than the update revision the release recorded (`WorkloadPodTemplateChanged`),
    stops after the sync step: the workload is not written, and the recorded revision is kept (unless the plan is unhealthy and
    the status is reset) — so the same holds on every following round until the owner rewrites or deletes the BatchRelease. -/
theorem superseded_never_writes (br : Executor.BR) (wl : Option Executor.Workload) (o : Executor.StepOut)
    (h : Executor.reconcile br wl = .val o)
    (hph : br.status.phase = .progressing) (hnf : Executor.isPlanFinalizing br = false)
    (hev : (Executor.syncInfo (Executor.withFinalizer br) (Executor.initializedStatus br.status) wl).1 = .podTemplateChanged) :
    o.wl = wl ∧ ∀ b', o.br = some b' → (b'.status.updateRevision = br.status.updateRevision ∨ b'.status.phase = .preparing) := by
  have hne : br.status.phase ≠ .empty := by rw [hph]; decide
  rw [Executor.initialized_id _ hne] at hev
  have hsync := holds_sync_stop (Executor.withFinalizer br) wl hph hnf (Or.inl hev)
  rw [wf_status] at hsync
  obtain ⟨hstop, hshape⟩ := hsync
  rcases rec_cases br wl o h with ⟨_, hp, _, _⟩ | ⟨_, hb, hw⟩ | ⟨hs, _⟩
  · rw [hph] at hp; cases hp
  · rw [Executor.initialized_id _ hne] at hb
    refine ⟨hw, ?_⟩
    intro b' hb'
    rw [hb] at hb'
    simp only [Option.some.injEq] at hb'
    subst hb'
    dsimp only
    rcases hshape with ⟨_, hur, _⟩ | ⟨_, hp⟩
    · exact Or.inl hur
    · exact Or.inr hp
  · rw [Executor.initialized_id _ hne, hstop] at hs; cases hs

/-! ### one reconcile of a BatchRelease that holds -/

theorem holds_iff (b : CBr) (w : CWl) :
    brHolds b w = true ↔
      b.st.phase = .completed ∨
      (b.partition.isSome = true ∧ (b.deleting = true ∨ b.st.phase = .finalizing)) ∨
      (b.deleting = false ∧ b.partition.isSome = true ∧ b.st.phase = .progressing ∧ b.st.updateRevision ≠ "" ∧
        b.st.updateRevision ≠ "wl-" ++ w.updateRevision ∧ b.st.currentBatch < b.batches.length ∧
        b.st.observedReplicas = w.replicas) := by
  unfold brHolds
  simp [and_assoc, or_assoc]

/-- the event a held-back workload raises for a release recorded on another revision -/
theorem holds_event (b : CBr) (w : CWl) (hd : b.deleting = false) (hur : b.st.updateRevision ≠ "")
    (hur2 : b.st.updateRevision ≠ "wl-" ++ w.updateRevision) (hor : b.st.observedReplicas = w.replicas)
    (hst : w.statusReplicas = w.replicas) (hR : 0 < w.replicas) (hupd : w.updated = 0)
    (hne : w.updateRevision ≠ w.currentRevision) :
    (Executor.syncInfo (Executor.withFinalizer (exBr b)) (exBr b).status (some (exWl w))).1 = .podTemplateChanged ∨
    (Executor.syncInfo (Executor.withFinalizer (exBr b)) (exBr b).status (some (exWl w))).1 = .stillReconciling := by
  have hd' : ¬ (Executor.withFinalizer (exBr b)).deleting = true := by
    show ¬ b.deleting = true
    rw [hd]; exact Bool.false_ne_true
  unfold Executor.syncInfo
  rw [if_neg hd']
  dsimp only
  by_cases hg : ¬ ((exWl w).observedGeneration ≥ (exWl w).generation)
  · rw [if_pos hg]; right; rfl
  · rw [if_neg hg]
    have h1 : ¬ (exWl w).statusReplicas = (exWl w).updated := by
      show ¬ w.statusReplicas = w.updated
      omega
    have h2 : ¬ ((exBr b).status.observedReplicas ≠ -1 ∧ (exWl w).replicas ≠ (exBr b).status.observedReplicas) := by
      intro hx
      exact hx.2 hor.symm
    have h3 : ¬ ((exBr b).status.updateRevision ≠ "" ∧ (exWl w).updateRevision = (exWl w).currentRevision ∧
        (exBr b).status.stableRevision = (exWl w).updateRevision ∧
        (exBr b).status.stableRevision ≠ (exBr b).status.updateRevision) := by
      intro hx
      exact hne (holds_wl_inj _ _ hx.2.1)
    have h4 : (exBr b).status.updateRevision ≠ "" ∧ (exWl w).updateRevision ≠ (exBr b).status.updateRevision :=
      ⟨hur, fun hx => hur2 hx.symm⟩
    rw [if_neg h1, if_neg h2, if_neg h3, if_pos h4]
    left; rfl

theorem holds_step_completed (b : CBr) (w : CWl) (o : Executor.StepOut)
    (h : Executor.reconcile (exBr b) (some (exWl w)) = .val o) (hc : b.st.phase = .completed) :
    (∃ ew, o.wl = some ew ∧ ew.partition = w.partition ∧ ew.paused = w.paused) ∧
    brHoldsO (o.br.map (stLand b)) w = true := by
  have hc' : (exBr b).status.phase = .completed := hc
  rcases rec_cases _ _ o h with ⟨_, _, hb', hw⟩ | ⟨_, hb', hw⟩ | ⟨hs, _⟩
  · refine ⟨⟨exWl w, hw, rfl, rfl⟩, ?_⟩
    rw [hb']; rfl
  · refine ⟨⟨exWl w, hw, rfl, rfl⟩, ?_⟩
    have hk := exec_completed_stays _ _ o _ h hb' hc'
    rw [hb']
    show brHolds (stLand b _) w = true
    exact (holds_iff _ _).2 (Or.inl hk)
  · have := Executor.sync_completed_stops (Executor.withFinalizer (exBr b))
      (Executor.initializedStatus (exBr b).status) (some (exWl w)) hc'
    rw [this] at hs; cases hs

theorem holds_step_finalizing (b : CBr) (w : CWl) (o : Executor.StepOut)
    (h : Executor.reconcile (exBr b) (some (exWl w)) = .val o) (hc : b.st.phase ≠ .completed)
    (hps : b.partition.isSome = true) (hdf : b.deleting = true ∨ b.st.phase = .finalizing) :
    (∃ ew, o.wl = some ew ∧ ew.partition = w.partition ∧ ew.paused = w.paused) ∧
    brHoldsO (o.br.map (stLand b)) w = true := by
  have hfin : Executor.isPlanFinalizing (Executor.withFinalizer (exBr b)) = true := by
    show (b.deleting || decide (b.st.phase = .finalizing) || b.partition.isNone) = true
    rcases hdf with hd | hf
    · simp [hd]
    · simp [hf]
  have hcn : (Executor.withFinalizer (exBr b)).status.phase ≠ .completed := hc
  obtain ⟨hs, _⟩ := holds_sync_of_decide _ (Executor.initializedStatus (exBr b).status) (some (exWl w)) _
    (holds_decide_finalizing (Executor.withFinalizer (exBr b)) (Executor.initializedStatus (exBr b).status) _ _ hcn hfin)
  have hsp : (Executor.syncStatus (Executor.withFinalizer (exBr b)) (Executor.initializedStatus (exBr b).status)
      (some (exWl w))).status.phase = .finalizing := by
    rw [hs, Executor.refresh_phase]
  rcases rec_cases _ _ o h with ⟨_, hp, _⟩ | ⟨_, hb', hw⟩ | ⟨hns, ns', wl', rq, er, hex, hb', hw⟩
  · exact absurd hp hc
  · refine ⟨⟨exWl w, hw, rfl, rfl⟩, ?_⟩
    rw [hb']
    show brHolds (stLand b _) w = true
    exact (holds_iff _ _).2 (Or.inr (Or.inl ⟨hps, Or.inr hsp⟩))
  · rw [Executor.sync_nostop_status _ _ _ hns] at hsp
    have hsp' : (exBr b).status.phase = .finalizing := hsp
    have hnp : (exBr b).status.phase ≠ .progressing := by rw [hsp']; decide
    rcases execute_np _ _ _ _ _ _ _ hex hnp with ⟨hcc, _⟩ | ⟨_, hns', hwl'⟩ | ⟨hcc, _⟩
    · rw [hsp'] at hcc; cases hcc
    · refine ⟨⟨{ exWl w with owner := .none }, ?_, rfl, rfl⟩, ?_⟩
      · rw [hw, hwl']
        unfold Executor.finalize
        dsimp only
        have hpn : ¬ (Executor.withFinalizer (exBr b)).partition.isNone = true := by
          show ¬ b.partition.isNone = true
          cases hpp : b.partition with
          | none => rw [hpp] at hps; cases hps
          | some p => exact Bool.false_ne_true
        rw [if_neg hpn]
      · rw [hb']
        show brHolds (stLand b _) w = true
        refine (holds_iff _ _).2 (Or.inl ?_)
        show ns'.phase = .completed
        rw [hns']
    · rw [hsp'] at hcc
      rcases hcc with hcc | hcc | hcc <;> cases hcc

theorem holds_step_superseded (b : CBr) (w : CWl) (o : Executor.StepOut)
    (h : Executor.reconcile (exBr b) (some (exWl w)) = .val o) (hbne : b.batches ≠ [])
    (hd : b.deleting = false) (hps : b.partition.isSome = true) (hpg : b.st.phase = .progressing)
    (hur : b.st.updateRevision ≠ "") (hur2 : b.st.updateRevision ≠ "wl-" ++ w.updateRevision)
    (hcb : b.st.currentBatch < b.batches.length) (hor : b.st.observedReplicas = w.replicas)
    (hst : w.statusReplicas = w.replicas) (hR : 0 < w.replicas) (hupd : w.updated = 0)
    (hne : w.updateRevision ≠ w.currentRevision) :
    (∃ ew, o.wl = some ew ∧ ew.partition = w.partition ∧ ew.paused = w.paused) ∧
    brHoldsO (o.br.map (stLand b)) w = true := by
  have hpg' : (Executor.withFinalizer (exBr b)).status.phase = .progressing := hpg
  have hnf : Executor.isPlanFinalizing (Executor.withFinalizer (exBr b)) = false := by
    show (b.deleting || decide (b.st.phase = .finalizing) || b.partition.isNone) = false
    cases hpp : b.partition with
    | none => rw [hpp] at hps; cases hps
    | some p => simp [hd, hpg]
  have hne0 : (exBr b).status.phase ≠ .empty := by
    show b.st.phase ≠ .empty
    rw [hpg]; decide
  have hev := holds_event b w hd hur hur2 hor hst hR hupd hne
  have hsync := holds_sync_stop (Executor.withFinalizer (exBr b)) (some (exWl w)) hpg' hnf hev
  rw [wf_status] at hsync
  obtain ⟨hstop, hshape⟩ := hsync
  rcases rec_cases _ _ o h with ⟨_, hp, _⟩ | ⟨_, hb', hw⟩ | ⟨hns, _⟩
  · have hp' : b.st.phase = .completed := hp
    rw [hpg] at hp'; cases hp'
  · rw [Executor.initialized_id _ hne0] at hb'
    refine ⟨⟨exWl w, hw, rfl, rfl⟩, ?_⟩
    rw [hb']
    show brHolds (stLand b _) w = true
    rcases hshape with ⟨h1, h2, h3, h4⟩ | ⟨hu, _⟩
    · refine (holds_iff _ _).2 (Or.inr (Or.inr ⟨hd, hps, h1, ?_, ?_, ?_, ?_⟩))
      · show (Executor.syncStatus _ _ _).status.updateRevision ≠ ""
        rw [h2]; exact hur
      · show (Executor.syncStatus _ _ _).status.updateRevision ≠ _
        rw [h2]; exact hur2
      · show (Executor.syncStatus _ _ _).status.currentBatch < (b.batches.length : Int)
        rcases h4 with h4 | h4
        · rw [h4]; exact hcb
        · rw [h4]
          exact holds_recalc_lt (Executor.withFinalizer (exBr b)) _ hbne
      · show (Executor.syncStatus _ _ _).status.observedReplicas = _
        rw [h3]; exact hor
    · exfalso
      have hu' : (decide (b.st.currentBatch ≥ b.batches.length) && decide (b.st.phase = .progressing)) = true := hu
      simp only [Bool.and_eq_true, decide_eq_true_eq] at hu'
      omega
  · rw [Executor.initialized_id _ hne0, hstop] at hns; cases hns

/-- one BatchRelease reconcile over a held-back workload (at least one replica, no pod on the new revision yet, revisions
    differ) whose BatchRelease `brHolds`: partition and pause flag of the workload are untouched and the BatchRelease still holds
    (or is gone) -/
theorem holds_step (b : CBr) (w : CWl) (o : Executor.StepOut)
    (h : Executor.reconcile (exBr b) (some (exWl w)) = .val o)
    (hb : brHolds b w = true) (hbok : brOK b = true) (hst : w.statusReplicas = w.replicas) (hR : 0 < w.replicas)
    (hupd : w.updated = 0) (hne : w.updateRevision ≠ w.currentRevision) :
    (∃ ew, o.wl = some ew ∧ ew.partition = w.partition ∧ ew.paused = w.paused) ∧
    brHoldsO (o.br.map (stLand b)) w = true := by
  obtain ⟨hbne, _⟩ := (brOK_iff b).1 hbok
  by_cases hc : b.st.phase = .completed
  · exact holds_step_completed b w o h hc
  · rcases (holds_iff b w).1 hb with hc' | ⟨hps, hdf⟩ | ⟨hd, hps, hpg, hur, hur2, hcb, hor⟩
    · exact absurd hc' hc
    · exact holds_step_finalizing b w o h hc hps hdf
    · exact holds_step_superseded b w o h hbne hd hps hpg hur hur2 hcb hor hst hR hupd hne

end RV.Lemmas.ClosedLoop
