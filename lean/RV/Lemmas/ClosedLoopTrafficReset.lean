/-
  C10 — supersession in the closed loop: while the Rollout controller resets a superseded release (`resetInv` of
  `RV.Oracle.ClosedLoop`), the canary route is withdrawn before the BatchRelease is deleted or the canary Service removed
  (`resetNet`), and no reconcile hands the workload back while the route carries weight (`rollbackRoutesFirst`).
-/
import RV.Lemmas.ClosedLoopTrafficDefs
import RV.Lemmas.ClosedLoopResetRo
import RV.Lemmas.ClosedLoopResetBr
import RV.Lemmas.ClosedLoopResetLabels
namespace RV.Lemmas.ClosedLoopTraffic
open RV.Arith RV.Traffic RV.RolloutSM RV.ClosedLoop RV.Oracle.ClosedLoop RV.Oracle.ClosedLoopTraffic RV.Lemmas.ClosedLoop
open RV.Props.Reconcile

/-- the labels of the reset region: both reconcilers, workload controller, approval, clock, crash -/
def resetLabel : Label → Bool
  | .ro | .br | .env | .approve | .tick | .crash => true
  | _ => false

/-! ### the Manager calls of the reset, on the network -/

theorem rst_rg (c : TCtx) (n : Net) (m : Mem) :
    (restoreGateway c n m).err = false ∧ (restoreGateway c n m).net.stableExists = n.stableExists ∧
    (restoreGateway c n m).net.stableIngress = n.stableIngress ∧
    (c.hasRef = true → (restoreGateway c n m).net.canaryIng = none) := by
  unfold restoreGateway finaliseGw
  by_cases h1 : c.hasRef = true
  · cases h2 : n.canaryIng <;> simp [h1]
  · simp [h1]

theorem rst_rc (c : TCtx) (n : Net) (m : Mem) :
    (removeCanaryService c n m).err = false ∧ (removeCanaryService c n m).net.stableExists = n.stableExists ∧
    (removeCanaryService c n m).net.stableIngress = n.stableIngress ∧
    (removeCanaryService c n m).net.canaryIng = n.canaryIng := by
  unfold removeCanaryService
  by_cases h1 : c.hasRef = true
  · by_cases h2 : c.disableGen = true
    · simp [h1, h2]
    · simp [h1, h2]
  · simp [h1]

theorem rst_trCtx_ref (ro : Rollout) (s : Sub) (t : TCtx) (h : trCtx ro s = some t) : t.hasRef = ro.hasTraffic := by
  unfold trCtx at h
  split at h
  · cases h
  · simp only [Option.some.injEq] at h
    rw [← h]

theorem rst_call_rg (c c' : Ctx) (cb d e : Bool) (h : callTM restoreGateway c cb = some (c', d, e)) :
    e = false ∧ c'.net.stableExists = c.net.stableExists ∧ c'.net.stableIngress = c.net.stableIngress ∧
    (c.ro.hasTraffic = true → c'.net.canaryIng = none) := by
  unfold callTM at h
  split at h
  · cases h
  · rename_i t ht
    simp only [Option.some.injEq, Prod.mk.injEq] at h
    obtain ⟨hc, _, he⟩ := h
    subst hc
    obtain ⟨a1, a2, a3, a4⟩ := rst_rg { t with hasRevKey := c.wlSeen } c.net c.mem
    refine ⟨by rw [← he]; exact a1, a2, a3, fun hh => a4 ?_⟩
    show t.hasRef = true
    rw [rst_trCtx_ref _ _ _ ht]; exact hh

theorem rst_call_rc (c c' : Ctx) (cb d e : Bool) (h : callTM removeCanaryService c cb = some (c', d, e)) :
    e = false ∧ c'.net.stableExists = c.net.stableExists ∧ c'.net.stableIngress = c.net.stableIngress ∧
    c'.net.canaryIng = c.net.canaryIng := by
  unfold callTM at h
  split at h
  · cases h
  · rename_i t ht
    simp only [Option.some.injEq, Prod.mk.injEq] at h
    obtain ⟨hc, _, he⟩ := h
    subst hc
    obtain ⟨a1, a2, a3, a4⟩ := rst_rc { t with hasRevKey := c.wlSeen } c.net c.mem
    exact ⟨by rw [← he]; exact a1, a2, a3, a4⟩

/-- what a stage of the reset does to the network: the stable objects are not written, the canary Ingress is kept -/
def NetKept (n n' : Net) : Prop :=
  n'.stableExists = n.stableExists ∧ n'.stableIngress = n.stableIngress ∧ n'.canaryIng = n.canaryIng

theorem rst_stage3 (c c' : Ctx) (d e : Bool) (h : prStage3 c = some (c', d, e)) : e = false ∧ NetKept c.net c'.net := by
  unfold prStage3 at h
  split at h
  · cases h
  · rename_i c1 d1 e1 hc
    obtain ⟨a1, a2, a3, a4⟩ := rst_call_rc _ _ _ _ _ hc
    subst a1
    simp only [Bool.false_eq_true, if_false, Option.some.injEq, Prod.mk.injEq] at h
    obtain ⟨h1, _, h3⟩ := h
    subst h1
    exact ⟨h3.symm, a2, a3, a4⟩

theorem rst_stage2 (c c' : Ctx) (d e : Bool) (h : prStage2 c = some (c', d, e)) : e = false ∧ NetKept c.net c'.net := by
  unfold prStage2 at h
  dsimp only at h
  split at h
  · cases h; exact ⟨rfl, rfl, rfl, rfl⟩
  · have := rst_stage3 _ _ _ _ h
    exact this

theorem rst_cursor (c : Ctx) :
    (prCursor c).ro = c.ro ∧ (prCursor c).net = c.net ∧
    ((prCursor c).sub.finStep = .routeTrafficToStable ∨ (prCursor c).sub.finStep = c.sub.finStep) := by
  unfold prCursor
  split
  · exact ⟨rfl, rfl, Or.inr rfl⟩
  · exact ⟨rfl, rfl, Or.inr rfl⟩
  · exact ⟨rfl, rfl, Or.inr rfl⟩
  · exact ⟨rfl, rfl, Or.inl rfl⟩

/-- **one round of `doProgressingReset`, on the network**: no error; the stable Service / Ingress are not written; without
    traffic routing the network is not written at all; with traffic routing the canary Ingress is gone afterwards, unless the
    cursor already stood past the gateway stage (then it is left as it was) -/
theorem rst_round (c c' : Ctx) (d e : Bool) (h : doProgressingReset c = some (c', d, e)) :
    e = false ∧ c'.net.stableExists = c.net.stableExists ∧ c'.net.stableIngress = c.net.stableIngress ∧
    (c.ro.hasTraffic = false → c'.net = c.net) ∧
    (c.ro.hasTraffic = true → c'.net.canaryIng = none ∨
      ((c.sub.finStep = .releaseWorkloadControl ∨ c.sub.finStep = .removeCanaryService) ∧ c'.net.canaryIng = c.net.canaryIng)) := by
  obtain ⟨p1, p2, p3⟩ := rst_cursor c
  unfold doProgressingReset at h
  split at h
  · rename_i hnt
    cases h
    exact ⟨rfl, rfl, rfl, fun _ => rfl, fun ht => absurd ht hnt⟩
  · rename_i htr
    have htr' : c.ro.hasTraffic = true := by simpa using htr
    split at h
    · cases h
    · dsimp only at h
      split at h
      · rename_i hq
        split at h
        · cases h
        · rename_i c2 rt er hc
          obtain ⟨a1, a2, a3, a4⟩ := rst_call_rg _ _ _ _ _ hc
          rw [p2] at a2 a3
          have a4' : c2.net.canaryIng = none := a4 (by rw [p1]; exact htr')
          split at h
          · simp only [Option.some.injEq, Prod.mk.injEq] at h
            obtain ⟨h1, _, h3⟩ := h
            subst h1
            exact ⟨by rw [← h3]; exact a1, a2, a3, (fun hf => by rw [hf] at htr'; cases htr'), fun _ => Or.inl a4'⟩
          · obtain ⟨x1, x2, x3, x4⟩ := rst_stage2 _ _ _ _ h
            exact ⟨x1, x2.trans a2, x3.trans a3, (fun hf => by rw [hf] at htr'; cases htr'), fun _ => Or.inl (x4.trans a4')⟩
      · rename_i hq
        obtain ⟨x1, x2, x3, x4⟩ := rst_stage2 _ _ _ _ h
        rw [p2] at x2 x3 x4
        have hf : c.sub.finStep = .releaseWorkloadControl := by
          rcases p3 with q | q
          · rw [q] at hq; cases hq
          · rw [← q]; exact hq
        exact ⟨x1, x2, x3, (fun hf => by rw [hf] at htr'; cases htr'), fun _ => Or.inr ⟨Or.inl hf, x4⟩⟩
      · rename_i n1 n2
        obtain ⟨x1, x2, x3, x4⟩ := rst_stage3 _ _ _ _ h
        rw [p2] at x2 x3 x4
        have hf : c.sub.finStep = .removeCanaryService := by
          rcases p3 with q | q
          · exact absurd q n1
          · rw [← q]
            revert n1 n2
            unfold prCursor
            split <;> simp_all
        exact ⟨x1, x2, x3, (fun hf => by rw [hf] at htr'; cases htr'), fun _ => Or.inr ⟨Or.inr hf, x4⟩⟩

/-- **the reset reconcile, on the network** (hypotheses of `RV.Lemmas.ClosedLoop.reset_step_gen`) -/
theorem rst_world (w : World) (wl : WL) (os : Sub)
    (hg : RoGood w.ro) (hph : w.ro.phase = .progressing) (hr : w.ro.reason = .inRolling)
    (hwl : w.wl = some wl) (hc : wl.consistent = true) (hnr : wl.inRollback = false)
    (hs : w.ro.sub = some os) (hrev : os.canaryRev ≠ "") (hne : wl.canaryRev ≠ os.canaryRev) :
    ∃ r, reconcile w = .val r ∧ r.w.ro.hasTraffic = w.ro.hasTraffic ∧ r.w.ro.disableGen = w.ro.disableGen ∧
      r.w.net.stableExists = w.net.stableExists ∧ r.w.net.stableIngress = w.net.stableIngress ∧
      (w.ro.hasTraffic = false → r.w.net = w.net) ∧
      (w.ro.hasTraffic = true → r.w.net.canaryIng = none ∨
        ((os.finStep = .releaseWorkloadControl ∨ os.finStep = .removeCanaryService) ∧ r.w.net.canaryIng = w.net.canaryIng)) := by
  have hobs := reset_observe w.ro wl os hs hne
  have hs1 : (csObserve w.ro wl).sub = some os := by rw [hobs]; exact hs
  rw [reconcile_roll w wl os hg hph hr hwl hc hs1, hobs,
    reset_inRolling w w.ro os os wl hs hnr hg.unpaused hg.canary hrev hne]
  cases hd : doProgressingReset (toCtx { w with ro := w.ro } os wl) with
  | none => exact absurd hd (doProgressingReset_total _ hg.steps)
  | some p =>
    obtain ⟨c, done, err⟩ := p
    obtain ⟨r1, r2, r3, r4, r5⟩ := rst_round _ c done err hd
    subst r1
    have r2' : c.net.stableExists = w.net.stableExists := r2
    have r3' : c.net.stableIngress = w.net.stableIngress := r3
    have r4' : w.ro.hasTraffic = false → c.net = w.net := r4
    have r5' : w.ro.hasTraffic = true → c.net.canaryIng = none ∨
        ((os.finStep = .releaseWorkloadControl ∨ os.finStep = .removeCanaryService) ∧ c.net.canaryIng = w.net.canaryIng) := r5
    cases done with
    | true => exact ⟨_, rfl, rfl, rfl, r2', r3', r4', r5'⟩
    | false => exact ⟨_, rfl, rfl, rfl, r2', r3', r4', r5'⟩

/-! ### the clauses on the joint state -/

theorem rst_expo (s : CS) (h : resetInv s = true) : expoOf s = 0 := by
  obtain ⟨_, w, hw, _, _, _, _, _, _, _, hpos, _, hheld, _⟩ := (resetro_iff s).1 h
  unfold expoOf
  rw [hw]
  dsimp only
  rw [(held_iff w).1 hheld]
  exact exposure_pct100 w.replicas (by omega)

theorem rst_rrf_noroute (s s' : CS) (h : s'.net.canaryIng = none) : rollbackRoutesFirst s s' = true := by
  unfold rollbackRoutesFirst routeLive
  rw [h]
  simp

/-- nothing is handed back by a transition inside the reset region that keeps `deleting` and the batch partition of the
    BatchRelease -/
theorem rst_rrf_kept (s s' : CS) (hr : resetInv s = true) (hr' : resetInv s' = true)
    (hb : ∀ b, s.br = some b → ∃ b', s'.br = some b' ∧ b'.deleting = b.deleting ∧ b'.partition = b.partition) :
    rollbackRoutesFirst s s' = true := by
  have hh : handedBack s s' = false := by
    unfold handedBack
    rw [rst_expo s hr, rst_expo s' hr']
    cases hbo : s.br with
    | none => simp
    | some b =>
      obtain ⟨b', hb', hd, hp⟩ := hb b hbo
      rw [hb']
      dsimp only
      rw [hd, hp]
      cases b.deleting <;> cases b.partition <;> simp
  unfold rollbackRoutesFirst
  rw [hh]
  simp

theorem rst_rrf_same (s s' : CS) (hr : resetInv s = true) (hr' : resetInv s' = true) (hb : s'.br = s.br) :
    rollbackRoutesFirst s s' = true :=
  rst_rrf_kept s s' hr hr' (fun b hbo => ⟨b, by rw [hb]; exact hbo, rfl, rfl⟩)

/-- `resetNet` reads the clean-up cursor, the traffic configuration, the BatchRelease's deletion mark and the network -/
theorem rst_net_ext (s s' : CS) (sub sub' : Sub) (hs : s.ro.sub = some sub) (hs' : s'.ro.sub = some sub')
    (hf : sub'.finStep = sub.finStep) (ht : s'.ro.hasTraffic = s.ro.hasTraffic) (hd : s'.ro.disableGen = s.ro.disableGen)
    (hn : s'.net = s.net)
    (hb : ∀ b', s'.br = some b' → b'.deleting = true → ∃ b, s.br = some b ∧ b.deleting = true)
    (h : resetNet s = true) : resetNet s' = true := by
  unfold resetNet ingOK baseOK at h ⊢
  rw [hs] at h
  rw [hs']
  dsimp only at h ⊢
  rw [hf, ht, hd, hn]
  simp only [Bool.and_eq_true] at h ⊢
  obtain ⟨h123, h4⟩ := h
  refine ⟨h123, ?_⟩
  cases hb' : s'.br with
  | none => rfl
  | some b' =>
    dsimp only
    cases hdel : b'.deleting with
    | false => rfl
    | true =>
      obtain ⟨b, hbo, hbd⟩ := hb b' hb' hdel
      rw [hbo] at h4
      dsimp only at h4
      rw [hbd] at h4
      exact h4

theorem rst_net_none (s' : CS) (sub' : Sub) (hs' : s'.ro.sub = some sub') (hi : s'.net.canaryIng = none)
    (hbase : baseOK s' = true) : resetNet s' = true := by
  unfold resetNet ingOK
  rw [hs', hi, hbase]
  cases s'.br <;> simp

theorem rst_base_ext (s s' : CS) (ht : s'.ro.hasTraffic = s.ro.hasTraffic) (h1 : s'.net.stableExists = s.net.stableExists)
    (h2 : s'.net.stableIngress = s.net.stableIngress) : baseOK s' = baseOK s := by
  unfold baseOK
  rw [ht, h1, h2]

/-- the parts of `resetNet` -/
theorem rst_net_iff (s : CS) (sub : Sub) (hs : s.ro.sub = some sub) :
    resetNet s = true ↔ ingOK s = true ∧ baseOK s = true ∧
      ((sub.finStep = .releaseWorkloadControl ∨ sub.finStep = .removeCanaryService) → s.net.canaryIng = none) ∧
      (∀ b, s.br = some b → b.deleting = true → s.net.canaryIng = none) := by
  unfold resetNet
  rw [hs]
  dsimp only
  cases hb : s.br with
  | none =>
    simp only [Bool.and_eq_true, Bool.or_eq_true, Bool.not_eq_true', Option.isNone_iff_eq_none]
    constructor
    · rintro ⟨⟨⟨a, b⟩, c⟩, _⟩
      refine ⟨a, b, fun hc => ?_, fun _ h => by cases h⟩
      rcases c with c | c
      · rcases hc with hc | hc <;> simp [hc] at c
      · exact c
    · rintro ⟨a, b, c, _⟩
      refine ⟨⟨⟨a, b⟩, ?_⟩, trivial⟩
      by_cases hc : sub.finStep = .releaseWorkloadControl ∨ sub.finStep = .removeCanaryService
      · exact Or.inr (c hc)
      · left
        rcases hx : (sub.finStep == FinStep.releaseWorkloadControl) with _ | _ <;>
          rcases hy : (sub.finStep == FinStep.removeCanaryService) with _ | _ <;> simp_all
  | some b0 =>
    simp only [Bool.and_eq_true, Bool.or_eq_true, Bool.not_eq_true', Option.isNone_iff_eq_none]
    constructor
    · rintro ⟨⟨⟨a, b⟩, c⟩, d⟩
      refine ⟨a, b, fun hc => ?_, fun b1 h hdel => ?_⟩
      · rcases c with c | c
        · rcases hc with hc | hc <;> simp [hc] at c
        · exact c
      · cases h
        rcases d with d | d
        · rw [hdel] at d; cases d
        · exact d
    · rintro ⟨a, b, c, d⟩
      refine ⟨⟨⟨a, b⟩, ?_⟩, ?_⟩
      · by_cases hc : sub.finStep = .releaseWorkloadControl ∨ sub.finStep = .removeCanaryService
        · exact Or.inr (c hc)
        · left
          rcases hx : (sub.finStep == FinStep.releaseWorkloadControl) with _ | _ <;>
            rcases hy : (sub.finStep == FinStep.removeCanaryService) with _ | _ <;> simp_all
      · cases hdel : b0.deleting with
        | false => exact Or.inl rfl
        | true => exact Or.inr (d b0 rfl hdel)


/-! ### the superseding release -/

/-- a superseding release pushed from a state of the traffic invariant starts the reset region with `resetNet` -/
theorem reset_start (s : CS) (rev : String) (h : trInv s = true) (hs : supersedeOK s rev = true) :
    resetInv { s with wl := s.wl.map (releaseWl rev) } = true ∧ resetCursor { s with wl := s.wl.map (releaseWl rev) } = true ∧
    resetNet { s with wl := s.wl.map (releaseWl rev) } = true := by
  obtain ⟨hf, _, _, w, hw, _, _, _, hpi, _, htp⟩ := tr_parts s h
  have hr := supersede_release s rev hf hs
  have hs0 := hs
  simp only [supersedeOK, Bool.and_eq_true, beq_iff_eq, Bool.not_eq_true'] at hs0
  obtain ⟨⟨⟨_, hph⟩, hre⟩, _⟩ := hs0
  cases hsub : s.ro.sub with
  | none => rw [phaseInv, hph, hre] at hpi; simp only [hsub] at hpi; cases hpi
  | some sub =>
    rw [phaseInv_rolling s w sub hph hre hsub] at hpi
    simp only [Bool.and_eq_true] at hpi
    obtain ⟨⟨hsok, hlink⟩, _⟩ := hpi
    have sg := (subOK_iff s.ro sub w).1 hsok
    rw [trPhase_rolling s w sub hph hre hsub] at htp
    simp only [netCore, Bool.and_eq_true] at htp
    obtain ⟨⟨⟨⟨⟨⟨⟨⟨_, _⟩, _⟩, hing⟩, _⟩, hbase⟩, _⟩, _⟩, _⟩ := htp
    refine ⟨hr, ?_, ?_⟩
    · simp only [resetCursor, hsub, sg.fin]
      simp
    · refine (rst_net_iff _ sub hsub).2 ⟨hing, hbase, fun hc => ?_, fun b hb hdel => ?_⟩
      · rw [sg.fin] at hc
        rcases hc with hc | hc <;> cases hc
      · have hb' : s.br = some b := hb
        rw [hb'] at hlink
        obtain ⟨_, _, hnd, _⟩ := (linkOK_iff s.ro sub b).1 hlink
        rw [hnd] at hdel; cases hdel

/-! ### the transitions of the reset region -/

/-- label `ro` -/
theorem rst_ro (s s' : CS) (hr : resetInv s = true) (hc : resetCursor s = true) (hn : resetNet s = true)
    (hs : stepRo s = some s') :
    rollbackRoutesFirst s s' = true ∧
    (fwdInv s' = true ∨ (resetInv s' = true ∧ resetCursor s' = true ∧ resetNet s' = true)) := by
  obtain ⟨hro, w, hw, _, _, _, hph, hre, ⟨sub, hsub, hrev, hne⟩, hur, _, _, _, _⟩ := (resetro_iff s).1 hr
  obtain ⟨hgone, hg⟩ := (roOK_iff s).1 hro
  obtain ⟨t, ht, hi⟩ := stepRo_reset s hr hc
  rw [hs] at ht
  cases ht
  cases hcons : (roWl w).consistent with
  | false =>
    have hw' := resetro_wait s w hr hgone hg hw hcons
    rw [hs] at hw'
    cases hw'
    exact ⟨rst_rrf_same _ _ hr hr rfl, Or.inr ⟨hr, hc, hn⟩⟩
  | true =>
    have hnr : (roWl w).inRollback = false := by
      show (w.inProgressAnno && decide (w.currentRevision = w.updateRevision) && decide (w.updated ≠ w.statusReplicas)) = false
      have : ¬ w.currentRevision = w.updateRevision := fun e => hur e.symm
      simp [this]
    have hne' : (roWl w).canaryRev ≠ sub.canaryRev := fun e => hne e.symm
    obtain ⟨r, hrec, e1, _, e3, e4, e5, e6⟩ :=
      rst_world (roWorld s) (roWl w) sub hg hph hre (world_wl s w hw) hcons hnr hsub hrev hne'
    have hst := stepRo_eq s hgone r hrec
    rw [hs] at hst
    cases hst
    obtain ⟨hing, hbase, hcur, _⟩ := (rst_net_iff s sub hsub).1 hn
    have hnone : (landRo s r).net.canaryIng = none := by
      show r.w.net.canaryIng = none
      cases htr : s.ro.hasTraffic with
      | false =>
        rw [e5 htr]
        show s.net.canaryIng = none
        unfold ingOK at hing
        cases hci : s.net.canaryIng with
        | none => rfl
        | some x => rw [hci, htr] at hing; simp at hing
      | true =>
        rcases e6 htr with a | ⟨a, b⟩
        · exact a
        · rw [b]; exact hcur a
    have hbase' : baseOK (landRo s r) = true := by
      rw [rst_base_ext s _ e1 e3 e4]; exact hbase
    refine ⟨rst_rrf_noroute _ _ hnone, ?_⟩
    rcases hi with hi | ⟨a, b⟩
    · exact Or.inl hi
    · obtain ⟨_, _, _, _, _, _, _, _, ⟨sub', hs', _, _⟩, _⟩ := (resetro_iff _).1 a
      exact Or.inr ⟨a, b, rst_net_none _ sub' hs' hnone hbase'⟩

/-- a BatchRelease reconcile does not move the reset cursor (as `stepBr_cursor` of `RV.Props.ClosedLoopThms`) -/
theorem rst_stepBr_cursor (s s' : CS) (h : resetCursor s = true) (hs : stepBr s = some s') : resetCursor s' = true := by
  unfold stepBr at hs
  cases hb : s.br with
  | none => rw [hb] at hs; cases hs; exact h
  | some b =>
    rw [hb] at hs
    dsimp only at hs
    split at hs
    · cases hs
    · cases hs
      unfold resetCursor at h ⊢
      simp only [landBr]
      cases hsub : s.ro.sub with
      | none => rfl
      | some sub =>
        rw [hsub] at h
        simp only [hb, Option.isNone_some, Bool.or_false] at h
        simp only [h, Bool.true_or]

/-- label `br` -/
theorem rst_br (s s' : CS) (hr : resetInv s = true) (hc : resetCursor s = true) (hn : resetNet s = true)
    (hs : stepBr s = some s') :
    rollbackRoutesFirst s s' = true ∧
    (fwdInv s' = true ∨ (resetInv s' = true ∧ resetCursor s' = true ∧ resetNet s' = true)) := by
  obtain ⟨t, ht, hi⟩ := stepBr_reset s hr
  rw [hs] at ht
  cases ht
  have hcur' := rst_stepBr_cursor s s' hc hs
  obtain ⟨_, w, hw, _, _, _, _, _, ⟨sub, hsub, _, _⟩, _⟩ := (resetro_iff s).1 hr
  obtain ⟨_, hbase, _, hdel⟩ := (rst_net_iff s sub hsub).1 hn
  unfold stepBr at hs
  cases hb : s.br with
  | none =>
    rw [hb] at hs
    cases hs
    exact ⟨rst_rrf_same _ _ hr hr rfl, Or.inr ⟨hr, hc, hn⟩⟩
  | some b =>
    rw [hb] at hs
    dsimp only at hs
    cases hrec : Executor.reconcile (exBr b) (s.wl.map exWl) with
    | panic => rw [hrec] at hs; cases hs
    | val o =>
      rw [hrec] at hs
      cases hs
      cases hob : o.br with
      | none =>
        obtain ⟨hd, _, _⟩ := exec_gone _ _ o hrec hob
        have hnone : s.net.canaryIng = none := hdel b hb hd
        exact ⟨rst_rrf_noroute _ _ hnone, Or.inr ⟨hi, hcur', rst_net_none (landBr s b o) sub hsub hnone hbase⟩⟩
      | some eb =>
        have hbr' : (landBr s b o).br = some (stLand b eb) := by
          show o.br.map (stLand b) = _
          rw [hob]; rfl
        refine ⟨rst_rrf_kept s _ hr hi (fun b0 hb0 => ?_),
          Or.inr ⟨hi, hcur', rst_net_ext s (landBr s b o) sub sub hsub hsub rfl rfl rfl rfl ?_ hn⟩⟩
        · rw [hb] at hb0
          cases hb0
          exact ⟨_, hbr', rfl, rfl⟩
        · intro b' hb' hd'
          rw [hbr'] at hb'
          cases hb'
          exact ⟨b, hb, hd'⟩

/-- a transition that keeps BatchRelease, network, traffic configuration and the clean-up cursor -/
theorem rst_frame (s s' : CS) (hr : resetInv s = true) (hr' : resetInv s' = true) (hc : resetCursor s = true)
    (hn : resetNet s = true) (hbr : s'.br = s.br) (hnet : s'.net = s.net) (ht : s'.ro.hasTraffic = s.ro.hasTraffic)
    (hd : s'.ro.disableGen = s.ro.disableGen)
    (hsub : ∀ sub, s.ro.sub = some sub → ∃ sub', s'.ro.sub = some sub' ∧ sub'.finStep = sub.finStep) :
    rollbackRoutesFirst s s' = true ∧
    (fwdInv s' = true ∨ (resetInv s' = true ∧ resetCursor s' = true ∧ resetNet s' = true)) := by
  obtain ⟨_, _, _, _, _, _, _, _, ⟨sub, hs, _, _⟩, _⟩ := (resetro_iff s).1 hr
  obtain ⟨sub', hs', hf⟩ := hsub sub hs
  refine ⟨rst_rrf_same s s' hr hr' hbr, Or.inr ⟨hr', ?_, ?_⟩⟩
  · unfold resetCursor at hc ⊢
    rw [hs] at hc
    rw [hs']
    dsimp only at hc ⊢
    rw [ht, hf, hbr]
    exact hc
  · refine rst_net_ext s s' sub sub' hs hs' hf ht hd hnet (fun b' hb' hdel => ?_) hn
    rw [hbr] at hb'
    exact ⟨b', hb', hdel⟩

theorem rst_approve (s : CS) :
    (approve s).br = s.br ∧ (approve s).net = s.net ∧ (approve s).ro.hasTraffic = s.ro.hasTraffic ∧
    (approve s).ro.disableGen = s.ro.disableGen ∧
    (∀ sub, s.ro.sub = some sub → ∃ sub', (approve s).ro.sub = some sub' ∧ sub'.finStep = sub.finStep) := by
  unfold approve
  split
  · exact ⟨rfl, rfl, rfl, rfl, fun sub h => ⟨sub, h, rfl⟩⟩
  · cases hsub : s.ro.sub with
    | none => exact ⟨rfl, rfl, rfl, rfl, fun sub h => by cases h⟩
    | some sub0 =>
      dsimp only
      split
      · exact ⟨rfl, rfl, rfl, rfl, fun sub h => by cases h; exact ⟨_, rfl, rfl⟩⟩
      · exact ⟨rfl, rfl, rfl, rfl, fun sub h => by cases h; exact ⟨_, hsub, rfl⟩⟩

theorem rst_tick (s : CS) :
    (tick s).br = s.br ∧ (tick s).net = s.net ∧ (tick s).ro.hasTraffic = s.ro.hasTraffic ∧
    (tick s).ro.disableGen = s.ro.disableGen ∧
    (∀ sub, s.ro.sub = some sub → ∃ sub', (tick s).ro.sub = some sub' ∧ sub'.finStep = sub.finStep) := by
  unfold tick
  dsimp only
  split
  · exact ⟨rfl, rfl, rfl, rfl, fun sub h => ⟨sub, h, rfl⟩⟩
  · refine ⟨rfl, rfl, rfl, rfl, fun sub h => ?_⟩
    dsimp only
    rw [h]
    exact ⟨_, rfl, rfl⟩

/-- one transition inside the reset region: the C10 clause holds for it, and while the reset is still running the
    reset invariants (`resetInv`, `resetCursor` — by the existing lemmas — and `resetNet`) are kept -/
theorem reset_step (s s' : CS) (l : Label) (hr : resetInv s = true) (hc : resetCursor s = true) (hn : resetNet s = true)
    (hl : resetLabel l = true) (hs : step s l = some s') :
    rollbackRoutesFirst s s' = true ∧
    (fwdInv s' = true ∨ (resetInv s' = true ∧ resetCursor s' = true ∧ resetNet s' = true)) := by
  cases l with
  | ro => exact rst_ro s s' hr hc hn hs
  | br => exact rst_br s s' hr hc hn hs
  | release rev => cases hl
  | delete => cases hl
  | env =>
    cases hs
    exact rst_frame s _ hr (env_reset s hr) hc hn rfl rfl rfl rfl (fun sub h => ⟨sub, h, rfl⟩)
  | approve =>
    cases hs
    obtain ⟨a1, a2, a3, a4, a5⟩ := rst_approve s
    exact rst_frame s _ hr (approve_reset s hr) hc hn a1 a2 a3 a4 a5
  | tick =>
    cases hs
    obtain ⟨a1, a2, a3, a4, a5⟩ := rst_tick s
    exact rst_frame s _ hr (tick_reset s hr) hc hn a1 a2 a3 a4 a5
  | crash =>
    cases hs
    exact rst_frame s _ hr (crash_reset s hr) hc hn rfl rfl rfl rfl (fun sub h => ⟨sub, h, rfl⟩)

/-- in the reset region: a BatchRelease that is being deleted, or a reset cursor past the gateway stage, implies that the canary
    route is gone (read off `resetNet`) -/
theorem resetNet_route (s : CS) (hn : resetNet s = true) :
    (∀ b, s.br = some b → b.deleting = true → s.net.canaryIng = none) ∧
    (∀ sub, s.ro.sub = some sub → (sub.finStep = .releaseWorkloadControl ∨ sub.finStep = .removeCanaryService) → s.net.canaryIng = none) := by
  cases hsub : s.ro.sub with
  | none => unfold resetNet at hn; rw [hsub] at hn; cases hn
  | some sub0 =>
    obtain ⟨_, _, c, d⟩ := (rst_net_iff s sub0 hsub).1 hn
    exact ⟨d, fun sub hs hf => by cases hs; exact c hf⟩

end RV.Lemmas.ClosedLoopTraffic
