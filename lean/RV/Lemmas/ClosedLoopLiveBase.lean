/-
  Progress of the closed loop: shared basics of the per-class round lemmas.
-/
import RV.Oracle.ClosedLoopLive
import RV.Props.ClosedLoopThms
namespace RV.Lemmas.ClosedLoop
open RV.Arith RV.Traffic RV.RolloutSM RV.ClosedLoop RV.Oracle.ClosedLoop

/-- the last three labels of a round, which cannot fail -/
def roundTail (b : CS) : CS := tick (approve { b with wl := b.wl.map envWl })

/-- one fair round, label by label -/
theorem round_eq (s a b : CS) (h1 : stepRo s = some a) (h2 : stepBr a = some b) : round s = some (roundTail b) := by
  simp only [round, roundLabels, run, step, h1, h2, roundTail]

/-- the forward invariant survives a whole round, and the round never panics -/
theorem round_fwd (s : CS) (h : fwdInv s = true) :
    ∃ a b, stepRo s = some a ∧ fwdInv a = true ∧ stepBr a = some b ∧ fwdInv b = true ∧ round s = some (roundTail b) ∧
      fwdInv (roundTail b) = true := by
  obtain ⟨a, ha, hia⟩ := stepRo_fwd s h
  obtain ⟨b, hb, hib⟩ := stepBr_fwd a hia
  refine ⟨a, b, ha, hia, hb, hib, round_eq s a b ha hb, ?_⟩
  exact tick_fwd _ (approve_fwd _ (env_fwd b hib))

theorem liveInv_iff (s : CS) :
    liveInv s = true ↔ fwdInv s = true ∧ liveCfg s = true ∧ cls s ≠ 0 ∧ (cls s = 1 ∨ atBoundary s = true) := by
  unfold liveInv
  simp only [Bool.and_eq_true, Bool.or_eq_true, bne_iff_ne, ne_eq, beq_iff_eq, and_assoc]

end RV.Lemmas.ClosedLoop
