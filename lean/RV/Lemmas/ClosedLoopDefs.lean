/-
  Shared vocabulary of the closed-loop lemmas: what is assumed about a rollout / its sub-status when a reconcile
  starts, and how one reconcile may change the BatchRelease.
-/
import RV.Props.ReconcileThms
import RV.Oracle.ClosedLoop
namespace RV.Lemmas.ClosedLoop
open RV.Arith RV.Traffic RV.RolloutSM RV.Props.Reconcile

/-- the rollouts the forward theorems speak about: live, enabled, un-paused canary rollout in partition style with a
    non-empty plan, carrying the controller's finalizer -/
structure RoGood (ro : Rollout) : Prop where
  notDeleting : ro.deleting = false
  fin : ro.hasFinalizer = true
  enabled : ro.disabled = false
  unpaused : ro.paused = false
  canary : ro.style = .canary
  partitionStyle : ro.realPartition = true
  steps : ro.steps ≠ []

/-- a reconcile leaves the user's configuration (and the finalizer) alone -/
def SpecKept (a b : Rollout) : Prop := Same a b ∧ b.hasFinalizer = a.hasFinalizer

theorem SpecKept.good {a b : Rollout} (h : SpecKept a b) (g : RoGood a) : RoGood b := by
  obtain ⟨⟨h1, _, h3, h4, _, _, _, h8, h9, h10⟩, hf⟩ := h
  exact ⟨by rw [h9]; exact g.notDeleting, by rw [hf]; exact g.fin, by rw [h8]; exact g.enabled, by rw [h4]; exact g.unpaused,
    by rw [h3]; exact g.canary, by rw [h10]; exact g.partitionStyle, by rw [h1]; exact g.steps⟩

/-- the sub-status of a rolling rollout: inside the plan, no jump request, a recorded last-update time, the plan hash
    observed, the revision being released is the workload's, the clean-up cursor unset -/
structure SubGood (ro : Rollout) (s : Sub) (rev : String) : Prop where
  lo : 1 ≤ s.curIdx
  hi : s.curIdx ≤ ro.steps.length
  next : s.nextIdx = nextBatchIndex ro.steps.length s.curIdx
  lu : s.lastUpdate ≠ .none
  hash : s.hash = .same
  rev : s.canaryRev = rev
  fin : s.finStep = .empty

/-- what one round of the release manager may do to the BatchRelease (as the Rollout controller sees it) while the
    rollout is on step `cur`: nothing; create it for this step; patch its rollout-id; rewrite its plan for this step -/
inductive BrRoll (ro : Rollout) (cur : Int) (id : String) : Option BR → Option BR → Prop
  | same (br : Option BR) : BrRoll ro cur id br br
  | created : BrRoll ro cur id none (some (desiredBR ro id (cur - 1) false))
  | kept (b b' : BR) : b'.deleting = b.deleting → b'.batches = b.batches → b'.partition = b.partition →
      b'.rollbackAnno = b.rollbackAnno → BrRoll ro cur id (some b) (some b')
  | updated (b b' : BR) : b'.deleting = b.deleting → b'.batches = ro.steps.map (·.replicas) → b'.partition = some (cur - 1) →
      b'.rollbackAnno = false → BrRoll ro cur id (some b) (some b')

/-- what one clean-up round may do to the BatchRelease: nothing; resume it (batch partition removed); delete it -/
inductive BrFin : Option BR → Option BR → Prop
  | same (br : Option BR) : BrFin br br
  | changed (b b' : BR) : b'.batches = b.batches → b'.rollbackAnno = b.rollbackAnno → b'.phaseCompleted = b.phaseCompleted →
      (b'.partition = b.partition ∨ b'.partition = none) → (b'.deleting = b.deleting ∨ b'.deleting = true) →
      BrFin (some b) (some b')

end RV.Lemmas.ClosedLoop
