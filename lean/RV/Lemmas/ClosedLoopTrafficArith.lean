/-
  Arithmetic behind the traffic invariant: "full" steps are upward closed along a monotone plan, and the partition the
  CloneSet control writes for a step that is not full keeps at least one pod on the old revision.
-/
import RV.Lemmas.ClosedLoopTrafficDefs
namespace RV.Lemmas.ClosedLoopTraffic
open RV.Arith RV.Traffic RV.RolloutSM RV.ClosedLoop RV.Oracle.ClosedLoop RV.Oracle.ClosedLoopTraffic RV.Lemmas.ClosedLoop RV.BatchCtx

/-- entries of the plan are the `replicas` of the steps -/
theorem arith_planOf_get (ro : Rollout) (k : Nat) : (planOf ro)[k]? = (ro.steps[k]?).map (·.replicas) := by
  unfold planOf
  rw [List.getElem?_map]

/-- index 0 (and below) is never full -/
theorem fullAt_nonpos (ro : Rollout) (R : Int) (j : Int) (hj : j < 1) : fullAt ro R j = false := by
  unfold fullAt stepAt
  rw [if_pos hj]

/-- `fullAt` in terms of the plan entry -/
theorem fullAt_entry (ro : Rollout) (R : Int) (j : Int) (hj : 1 ≤ j) (e : IntOrPct)
    (he : (planOf ro)[(j - 1).toNat]? = some e) : fullAt ro R j = decide (scaledV e R true ≥ R) := by
  rw [arith_planOf_get] at he
  unfold fullAt stepAt
  rw [if_neg (by omega)]
  cases hs : ro.steps[(j - 1).toNat]? with
  | none => rw [hs] at he; simp at he
  | some st =>
    rw [hs] at he
    simp only [Option.map_some, Option.some.injEq] at he
    subst he
    rfl

/-- a full step has an entry in the plan -/
theorem arith_fullAt_some (ro : Rollout) (R : Int) (i : Int) (h : fullAt ro R i = true) :
    1 ≤ i ∧ ∃ e, (planOf ro)[(i - 1).toNat]? = some e ∧ scaledV e R true ≥ R := by
  by_cases hi : i < 1
  · rw [fullAt_nonpos ro R i hi] at h; cases h
  · refine ⟨by omega, ?_⟩
    unfold fullAt stepAt at h
    rw [if_neg hi] at h
    cases hs : ro.steps[(i - 1).toNat]? with
    | none => rw [hs] at h; cases h
    | some st =>
      rw [hs] at h
      refine ⟨st.replicas, ?_, of_decide_eq_true h⟩
      rw [arith_planOf_get, hs]; rfl

/-- for a workload with at least one pod: the entry covers the workload iff `calcBatchReplicas` returns everything -/
theorem arith_full_iff_calc (R : Int) (e : IntOrPct) (hR : 0 < R) : scaledV e R true ≥ R ↔ R ≤ calcBatchReplicas R e := by
  unfold calcBatchReplicas
  simp only []
  constructor
  · intro h; split
    · omega
    · split <;> omega
  · intro h; split at h
    · omega
    · split at h <;> omega

/-- along a plan whose entries never ask for fewer pods than an earlier one, a step after a full step is full.
    Needs `0 < R`: for `R = 0` the plan `[int 0, int (-1)]` is monotone (both clamp to 0), step 1 is full, step 2 is not. -/
theorem fullAt_mono (ro : Rollout) (R : Int) (hR : 0 < R) (hm : planMono R (planOf ro) = true) (i j : Int) (hij : i ≤ j)
    (hj : j ≤ ro.steps.length) (h : fullAt ro R i = true) : fullAt ro R j = true := by
  obtain ⟨hi1, a, ha, hfa⟩ := arith_fullAt_some ro R i h
  have hlen : (j - 1).toNat < (planOf ro).length := by
    unfold planOf; rw [List.length_map]; omega
  have hb : (planOf ro)[(j - 1).toNat]? = some ((planOf ro)[(j - 1).toNat]) := List.getElem?_eq_getElem hlen
  have hle := planMono_le R (planOf ro) hm (i - 1).toNat (j - 1).toNat a _ (by omega) ha hb
  rw [fullAt_entry ro R j (by omega) _ hb]
  apply decide_eq_true
  rw [arith_full_iff_calc R _ hR]
  have := (arith_full_iff_calc R a hR).1 hfa
  omega

/-- the stable count the CloneSet control plans for an entry that does not cover the workload -/
theorem arith_desiredStable_pos (R : Int) (e : IntOrPct) (hR : 0 < R) (h : scaledV e R true < R) :
    1 ≤ desiredStable R e none ∧ desiredStable R e none ≤ R := by
  simp only [desiredStable, plannedDesired, calcBatchReplicas]
  split
  · omega
  · split <;> omega

theorem arith_parsePct_keepsOne (s R : Int) (e : IntOrPct) (hR : 0 < R) (hs : 1 ≤ s) (he : e = IntOrPct.pct 100 → False) :
    1 ≤ scaledV (parsePct s R e) R true := by
  unfold parsePct
  split
  · rw [scaled_pct100]; omega
  · split
    · omega
    · dsimp only
      split
      · simp only [scaledV, scaled, if_true, Int.one_mul]
        have := ceilDiv100_ge R
        omega
      · rename_i hn
        have : ¬ (scaledV (IntOrPct.pct ((s * 100).tdiv R)) R true ≤ 0) := by
          intro hc; exact hn ⟨hc, fun h => he h⟩
        omega

/-- the partition written for a plan entry that does not cover the whole workload keeps at least one old pod -/
theorem desKnob_keepsOne (R : Int) (e : IntOrPct) (hR : 0 < R) (h : scaledV e R true < R) :
    1 ≤ scaledV (desKnob .cloneSet R e none) R true := by
  obtain ⟨hs1, _⟩ := arith_desiredStable_pos R e hR h
  have hne : e = IntOrPct.pct 100 → False := by
    intro he; subst he; rw [scaled_pct100] at h; omega
  cases e with
  | int n => simp only [desKnob, scaledV, scaled]; exact hs1
  | pct p => simp only [desKnob]; exact arith_parsePct_keepsOne _ R _ hR hs1 hne
  | bad => simp only [desKnob]; exact arith_parsePct_keepsOne _ R _ hR hs1 hne

end RV.Lemmas.ClosedLoopTraffic
