/-
  Arithmetic behind the traffic invariant: "full" steps are upward closed along a monotone plan, and the partition the
  CloneSet control writes for a step that is not full keeps at least one pod on the old revision.
-/
import RV.Lemmas.ClosedLoopTrafficDefs
namespace RV.Lemmas.ClosedLoopTraffic
open RV.Arith RV.Traffic RV.RolloutSM RV.ClosedLoop RV.Oracle.ClosedLoop RV.Oracle.ClosedLoopTraffic RV.Lemmas.ClosedLoop RV.BatchCtx

/-- along a plan whose entries never ask for fewer pods than an earlier one, a step after a full step is full -/
theorem fullAt_mono (ro : Rollout) (R : Int) (hR : 0 ≤ R) (hm : planMono R (planOf ro) = true) (i j : Int) (hij : i ≤ j)
    (hj : j ≤ ro.steps.length) (h : fullAt ro R i = true) : fullAt ro R j = true := by
  sorry

/-- index 0 (and below) is never full -/
theorem fullAt_nonpos (ro : Rollout) (R : Int) (j : Int) (hj : j < 1) : fullAt ro R j = false := by
  sorry

/-- `fullAt` in terms of the plan entry -/
theorem fullAt_entry (ro : Rollout) (R : Int) (j : Int) (hj : 1 ≤ j) (e : IntOrPct)
    (he : (planOf ro)[(j - 1).toNat]? = some e) : fullAt ro R j = decide (scaledV e R true ≥ R) := by
  sorry

/-- the partition written for a plan entry that does not cover the whole workload keeps at least one old pod -/
theorem desKnob_keepsOne (R : Int) (e : IntOrPct) (hR : 0 < R) (h : scaledV e R true < R) :
    1 ≤ scaledV (desKnob .cloneSet R e none) R true := by
  sorry

end RV.Lemmas.ClosedLoopTraffic
