/-
  C01.5, second half: while the rollout is rolling, no reconcile lowers the exposure of the CloneSet partition.
-/
import RV.Lemmas.ClosedLoop
import RV.Lemmas.ClosedLoopArith
import RV.Lemmas.ClosedLoopStepBr
namespace RV.Lemmas.ClosedLoop
open RV.Arith RV.Traffic RV.RolloutSM RV.ClosedLoop RV.Oracle.ClosedLoop RV.Oracle.Batch

/-- new-revision pods the partition in force lets the CloneSet controller run (no partition = all of them) -/
def expo (w : CWl) : Int := exposure (w.partition.getD (.int 0)) w.replicas

/-- the relation "same size, exposure not lowered" between the workload before and after -/
def MonoW (w w' : Executor.Workload) : Prop :=
  w'.replicas = w.replicas ∧
  exposure (w.partition.getD (.int 0)) w.replicas ≤ exposure (w'.partition.getD (.int 0)) w.replicas

theorem MonoW.refl (w : Executor.Workload) : MonoW w w := ⟨rfl, Int.le_refl _⟩

/-- `UpgradeBatch` writes only a partition that keeps fewer pods on the old revision -/
theorem upgradeBatch_mono (br : Executor.BR) (ns : Executor.Status) (w : Executor.Workload)
    (wl' : Option Executor.Workload) (r : Executor.CallResult)
    (h : Executor.upgradeBatch br ns (some w) = .val (wl', r)) : ∃ w', wl' = some w' ∧ MonoW w w' := by
  unfold Executor.upgradeBatch at h
  dsimp only at h
  split at h
  · simp only [Executor.Out.val.injEq, Prod.mk.injEq] at h
    exact ⟨w, h.1.symm, MonoW.refl w⟩
  · split at h
    · cases h
    · rename_i c hc
      split at h
      · simp only [Executor.Out.val.injEq, Prod.mk.injEq] at h
        exact ⟨w, h.1.symm, MonoW.refl w⟩
      · rename_i k hk
        simp only [Executor.Out.val.injEq, Prod.mk.injEq] at h
        refine ⟨_, h.1.symm, rfl, ?_⟩
        have hcur : c.knobCur = w.partition.getD (.int 0) ∧ c.replicas = w.replicas := by
          unfold RV.BatchCtx.calcCtx at hc
          split at hc
          · cases hc
          · simp only [RV.BatchCtx.Outcome.ok.injEq] at hc
            subst hc
            exact ⟨rfl, rfl⟩
        simp only [RV.BatchCtx.upgrade] at hk
        split at hk
        · cases hk
        · rename_i hlt
          simp only [Option.some.injEq] at hk
          subst hk
          rw [hcur.1, hcur.2] at hlt
          show exposure (w.partition.getD (.int 0)) w.replicas ≤ exposure c.knobDes w.replicas
          have : keptStable c.knobDes w.replicas ≤ keptStable (w.partition.getD (.int 0)) w.replicas :=
            RV.Props.C01.keptStable_mono (by omega)
          simp only [exposure]
          omega

theorem execProgressing_mono (br : Executor.BR) (ns : Executor.Status) (w : Executor.Workload) (ns' : Executor.Status)
    (wl' : Option Executor.Workload) (rq er : Bool)
    (h : Executor.execProgressing br ns (some w) = .val (ns', wl', rq, er)) : ∃ w', wl' = some w' ∧ MonoW w w' := by
  unfold Executor.execProgressing at h
  dsimp only at h
  split at h
  · split at h
    · cases h
    · rename_i hu
      simp only [Executor.Out.val.injEq, Prod.mk.injEq] at h
      rw [← h.2.1]
      exact upgradeBatch_mono _ _ _ _ _ hu
    · rename_i hu
      simp only [Executor.Out.val.injEq, Prod.mk.injEq] at h
      rw [← h.2.1]
      exact upgradeBatch_mono _ _ _ _ _ hu
  all_goals
    refine ⟨w, ?_, MonoW.refl w⟩
    repeat' split at h
    all_goals
      first
        | (cases h; done)
        | (simp only [Executor.Out.val.injEq, Prod.mk.injEq] at h; exact h.2.1.symm)

theorem initializeWl_own (br : Executor.BR) (ns : Executor.Status) (w : Executor.Workload) (hown : w.owner = .this) :
    (Executor.initializeWl br ns (some w)).1 = some w := by
  unfold Executor.initializeWl
  dsimp only
  rw [if_pos hown]

/-- **C01.2 (executor level)** — one BatchRelease reconcile over a CloneSet it controls (control annotation naming it),
    unless the BatchRelease is being finalised, never lowers the exposure: the partition is untouched, or rewritten by
    `UpgradeBatch`, which writes only when the new partition keeps fewer pods on the old revision -/
theorem exec_wl_monotone (br : Executor.BR) (w w' : Executor.Workload) (o : Executor.StepOut)
    (h : Executor.reconcile br (some w) = .val o) (hw : o.wl = some w') (hown : w.owner = .this)
    (hnf : br.status.phase ≠ .finalizing) :
    w'.replicas = w.replicas ∧
    exposure (w.partition.getD (.int 0)) w.replicas ≤ exposure (w'.partition.getD (.int 0)) w.replicas := by
  have hsame : ∀ x, o.wl = some x → x = w → MonoW w w' := by
    intro x hx hxw
    rw [hx] at hw
    simp only [Option.some.injEq] at hw
    subst hw hxw
    exact MonoW.refl x
  rcases rec_cases br (some w) o h with ⟨_, _, _, hw0⟩ | ⟨_, _, hw0⟩ | ⟨_, ns', wl', rq, er, hex, _, hw0⟩
  · exact hsame w hw0 rfl
  · exact hsame w hw0 rfl
  · by_cases hpg : br.status.phase = .progressing
    · rcases RV.Props.Executor.execute_cases _ _ _ _ _ _ _ hex with ⟨_, hpr⟩ | ⟨hnp, _⟩
      · obtain ⟨x, hx, hm⟩ := execProgressing_mono _ _ _ _ _ _ _ hpr
        rw [hw0, hx] at hw
        simp only [Option.some.injEq] at hw
        subst hw
        exact hm
      · exact absurd hpg hnp
    · rcases execute_np _ _ _ _ _ _ _ hex hpg with ⟨_, _, hs⟩ | ⟨hf, _, _⟩ | ⟨_, _, hs, _⟩
      · exact hsame w (hw0.trans hs) rfl
      · exact absurd hf hnf
      · exact hsame w (hw0.trans (hs.trans (initializeWl_own _ _ w hown))) rfl

/-- a Rollout reconcile never writes the partition (from every joint state) -/
theorem stepRo_partition (s s' : CS) (h : stepRo s = some s') :
    s'.wl.map (fun w => (w.partition, w.replicas)) = s.wl.map (fun w => (w.partition, w.replicas)) := by
  unfold stepRo at h
  split at h
  · simp only [Option.some.injEq] at h
    subst h
    rfl
  · split at h
    · cases h
    · rename_i r hr
      simp only [Option.some.injEq] at h
      subst h
      show (landBR s.br r.w.br (annoLand s.wl r.w.wl)).2.map _ = _
      have ha : (annoLand s.wl r.w.wl).map (fun w => (w.partition, w.replicas)) =
          s.wl.map (fun w => (w.partition, w.replicas)) := by
        unfold annoLand
        cases s.wl <;> cases r.w.wl <;> rfl
      rw [← ha]
      generalize annoLand s.wl r.w.wl = wl
      unfold landBR
      cases s.br <;> cases r.w.br
      · rfl
      · cases wl with
        | none => rfl
        | some w =>
          simp only [Option.map_some, Option.some.injEq]
          split <;> rfl
      · rfl
      · rfl

/-- **C01.5 (monotone, closed loop)** — from a state satisfying the forward invariant in which the rollout is rolling and
    the CloneSet is controlled by the BatchRelease, a BatchRelease reconcile does not lower the exposure -/
theorem stepBr_monotone (s s' : CS) (w : CWl) (hinv : fwdInv s = true) (hph : s.ro.phase = .progressing)
    (hre : s.ro.reason = .inRolling) (hw : s.wl = some w) (hown : w.owner = .this) (h : stepBr s = some s') :
    ∃ w', s'.wl = some w' ∧ w'.replicas = w.replicas ∧ expo w ≤ expo w' := by
  obtain ⟨_, w0, hw0, _, _, _, hpi⟩ := (fwdInv_iff s).1 hinv
  rw [hw] at hw0
  simp only [Option.some.injEq] at hw0
  subst hw0
  unfold stepBr at h
  cases hb : s.br with
  | none =>
    rw [hb] at h
    simp only [Option.some.injEq] at h
    subst h
    exact ⟨w, hw, rfl, Int.le_refl _⟩
  | some b =>
    rw [hb] at h
    dsimp only at h
    rw [hw] at h
    simp only [Option.map_some] at h
    cases hrec : Executor.reconcile (exBr b) (some (exWl w)) with
    | panic => rw [hrec] at h; cases h
    | val o =>
      rw [hrec] at h
      simp only [Option.some.injEq] at h
      subst h
      obtain ⟨ew, hew, _⟩ := exec_wl_effect (exBr b) (exWl w) o hrec
      obtain ⟨_, sub, hs, _⟩ := phaseInv_with_br s w b hb hpi
      rw [phaseInv_rolling s w sub hph hre hs, hb] at hpi
      simp only [Bool.and_eq_true] at hpi
      have hlink : linkOK s.ro sub b = true := hpi.1.2
      obtain ⟨_, _, _, hphs⟩ := (linkOK_iff s.ro sub b).1 hlink
      have hnf : (exBr b).status.phase ≠ .finalizing := by
        show b.st.phase ≠ .finalizing
        rcases hphs with h1 | h1 | h1 <;> rw [h1] <;> decide
      have hown' : (exWl w).owner = .this := hown
      obtain ⟨hr, hle⟩ := exec_wl_monotone (exBr b) (exWl w) ew o hrec hew hown' hnf
      refine ⟨landW w ew, ?_, rfl, ?_⟩
      · show wlLand s.wl o.wl = _
        rw [hw, hew]; rfl
      · exact hle

end RV.Lemmas.ClosedLoop
