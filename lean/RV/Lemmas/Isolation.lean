/-
  Helper lemmas for the isolation slice (C19):
  * association-list maps: lookup after update, and how updates commute with `restrict`;
  * the *locality laws* of every operation of the shared stores: an operation whose keys are all
    selected by `p` commutes with `restrict p` and sees the same result on the restricted store; an
    operation none of whose keys is selected leaves the restricted store unchanged;
  * the generic trace theory built on those two laws.
-/
import RV.Model.Isolation
set_option linter.unusedSimpArgs false
set_option linter.unusedVariables false
namespace RV.Isolation

/-! ## association lists -/
section AMap
variable {β : Type}

theorem aget_restrict (p : String → Bool) (m : AMap β) (k : String) (h : p k = true) :
    aget (restrict p m) k = aget m k := by
  induction m with
  | nil => rfl
  | cons e r ih =>
    obtain ⟨k', v⟩ := e
    unfold restrict at *
    by_cases hp : p k' = true
    · simp only [List.filter_cons, hp, if_true, aget, ih]
    · have hne : k' ≠ k := fun he => hp (he ▸ h)
      simp [List.filter_cons, hp, aget, ih, hne]

theorem restrict_aset_in (p : String → Bool) (m : AMap β) (k : String) (v : β) (h : p k = true) :
    restrict p (aset m k v) = aset (restrict p m) k v := by
  induction m with
  | nil => simp [restrict, aset, h]
  | cons e r ih =>
    obtain ⟨k', v'⟩ := e
    unfold restrict at *
    by_cases hk : k' = k
    · subst hk; simp [aset, List.filter_cons, h]
    · by_cases hp : p k' = true
      · simp [aset, List.filter_cons, hk, hp, ih]
      · simp [aset, List.filter_cons, hk, hp, ih]

theorem restrict_aset_out (p : String → Bool) (m : AMap β) (k : String) (v : β) (h : p k = false) :
    restrict p (aset m k v) = restrict p m := by
  induction m with
  | nil => simp [restrict, aset, h]
  | cons e r ih =>
    obtain ⟨k', v'⟩ := e
    unfold restrict at *
    by_cases hk : k' = k
    · subst hk; simp [aset, List.filter_cons, h]
    · simp [aset, List.filter_cons, hk, ih]

theorem restrict_adel (p : String → Bool) (m : AMap β) (k : String) :
    restrict p (adel m k) = adel (restrict p m) k := by
  unfold restrict adel
  simp only [List.filter_filter]
  congr 1; funext e; exact Bool.and_comm _ _

theorem restrict_adel_out (p : String → Bool) (m : AMap β) (k : String) (h : p k = false) :
    restrict p (adel m k) = restrict p m := by
  unfold restrict adel
  simp only [List.filter_filter]
  apply List.filter_congr
  intro e _
  by_cases hk : e.1 = k
  · simp [hk, h]
  · simp [hk]

theorem restrict_filterMap (p : String → Bool) (m : AMap β) (f : String × β → Option (String × β))
    (hf : ∀ e e', f e = some e' → e'.1 = e.1) :
    restrict p (m.filterMap f) = (restrict p m).filterMap f := by
  induction m with
  | nil => rfl
  | cons e r ih =>
    unfold restrict at *
    cases hfe : f e with
    | none =>
      by_cases hp : p e.1 = true
      · simp [List.filterMap_cons, List.filter_cons, hfe, hp, ih]
      · simp [List.filterMap_cons, List.filter_cons, hfe, hp, ih]
    | some e' =>
      have := hf e e' hfe
      by_cases hp : p e.1 = true
      · simp [List.filterMap_cons, List.filter_cons, hfe, hp, ih, this]
      · simp [List.filterMap_cons, List.filter_cons, hfe, hp, ih, this]

theorem aget_aset_same (m : AMap β) (k : String) (v : β) : aget (aset m k v) k = some v := by
  induction m with
  | nil => simp [aset, aget]
  | cons e r ih =>
    obtain ⟨k', v'⟩ := e
    by_cases hk : k' = k
    · simp [aset, aget, hk]
    · simp [aset, aget, hk, ih]

theorem aget_aset_ne (m : AMap β) (k k' : String) (v : β) (h : k' ≠ k) :
    aget (aset m k v) k' = aget m k' := by
  induction m with
  | nil => simp [aset, aget, Ne.symm h]
  | cons e r ih =>
    obtain ⟨k₀, v₀⟩ := e
    by_cases hk : k₀ = k
    · subst hk; simp [aset, aget, Ne.symm h]
    · by_cases hk' : k₀ = k'
      · subst hk'; simp [aset, aget, hk]
      · simp [aset, aget, hk, hk', ih]

theorem aget_adel_same (m : AMap β) (k : String) : aget (adel m k) k = none := by
  induction m with
  | nil => rfl
  | cons e r ih =>
    obtain ⟨k', v'⟩ := e
    unfold adel at *
    by_cases hk : k' = k
    · simpa [List.filter_cons, hk] using ih
    · simpa [List.filter_cons, hk, aget] using ih

theorem aget_adel_ne (m : AMap β) (k k' : String) (h : k' ≠ k) : aget (adel m k) k' = aget m k' := by
  induction m with
  | nil => rfl
  | cons e r ih =>
    obtain ⟨k₀, v₀⟩ := e
    unfold adel at *
    by_cases hk : k₀ = k
    · subst hk; simpa [List.filter_cons, aget, Ne.symm h] using ih
    · by_cases hk' : k₀ = k'
      · subst hk'; simp [List.filter_cons, h, aget]
      · simpa [List.filter_cons, hk, aget, hk'] using ih

theorem restrict_idem (p : String → Bool) (m : AMap β) : restrict p (restrict p m) = restrict p m := by
  unfold restrict; simp [List.filter_filter]

/-- lookups under a key are lookups in the part of the map under that key -/
theorem aget_eq_of_restrict_eq (m₁ m₂ : AMap β) (k : String)
    (h : restrict (fun x => x == k) m₁ = restrict (fun x => x == k) m₂) : aget m₁ k = aget m₂ k := by
  rw [← aget_restrict (fun x => x == k) m₁ k (by simp), ← aget_restrict (fun x => x == k) m₂ k (by simp), h]

end AMap

/-! ## the two locality laws -/

/-- `apply` uses the store only under `keys o` -/
structure Local {ε Op Obs : Type} (keys : Op → List String)
    (apply : Nat → AMap ε → Op → AMap ε × Obs) : Prop where
  /-- all keys selected: the operation commutes with `restrict` and observes the same -/
  inn : ∀ (p : String → Bool) (now : Nat) (m : AMap ε) (o : Op), (keys o).all p = true →
    restrict p (apply now m o).1 = (apply now (restrict p m) o).1 ∧
    (apply now m o).2 = (apply now (restrict p m) o).2
  /-- no key selected: the selected part is untouched -/
  out : ∀ (p : String → Bool) (now : Nat) (m : AMap ε) (o : Op), (keys o).all (fun k => !p k) = true →
    restrict p (apply now m o).1 = restrict p m

/-- the process-wide maintenance acts on every key separately -/
def GlobLocal {ε : Type} (glob : Nat → Nat → AMap ε → AMap ε) : Prop :=
  ∀ (p : String → Bool) (now a : Nat) (m : AMap ε), restrict p (glob now a m) = glob now a (restrict p m)

/-! ### grace map -/

theorem Grace.expect_in (p : String → Bool) (g : Grace) (now : Nat) (k a : String) (h : p k = true) :
    restrict p (g.expect now k a) = (Grace.expect (restrict p g) now k a) := by
  unfold Grace.expect
  rw [aget_restrict p g k h]
  cases aget g k <;> simp [restrict_aset_in, h]

theorem Grace.expect_out (p : String → Bool) (g : Grace) (now : Nat) (k a : String) (h : p k = false) :
    restrict p (g.expect now k a) = restrict p g := by
  unfold Grace.expect
  cases aget g k <;> simp [restrict_aset_out, h]

theorem Grace.observe_in (p : String → Bool) (g : Grace) (k a : String) (h : p k = true) :
    restrict p (g.observe k a) = (Grace.observe (restrict p g) k a) := by
  unfold Grace.observe
  rw [aget_restrict p g k h]
  cases aget g k with
  | none => rfl
  | some e =>
    by_cases he : (adel e a).isEmpty = true
    · simp [he, restrict_adel]
    · simp [he, restrict_aset_in, h]

theorem Grace.observe_out (p : String → Bool) (g : Grace) (k a : String) (h : p k = false) :
    restrict p (g.observe k a) = restrict p g := by
  unfold Grace.observe
  cases aget g k with
  | none => rfl
  | some e =>
    by_cases he : (adel e a).isEmpty = true
    · simp [he, restrict_adel_out, h]
    · simp [he, restrict_aset_out, h]

theorem Grace.satisfied_in (p : String → Bool) (g : Grace) (now : Nat) (k a : String) (gr : Int) (h : p k = true) :
    g.satisfied now k a gr = Grace.satisfied (restrict p g) now k a gr := by
  unfold Grace.satisfied
  rw [aget_restrict p g k h]

theorem runWithGraceSeconds_in (p : String → Bool) (g : Grace) (now : Nat) (k a : String) (gr : Int)
    (md er : Bool) (h : p k = true) :
    restrict p (runWithGraceSeconds g now k a gr md er).1 = (runWithGraceSeconds (restrict p g) now k a gr md er).1 ∧
    (runWithGraceSeconds g now k a gr md er).2 = (runWithGraceSeconds (restrict p g) now k a gr md er).2 := by
  unfold runWithGraceSeconds
  rw [← Grace.satisfied_in p g now k a gr h]
  by_cases h1 : er = true
  · simp [h1]
  · by_cases h2 : gr = 0
    · simp [h1, h2, Grace.observe_in, h]
    · by_cases h3 : md = true
      · simp [h1, h2, h3, Grace.expect_in, h]
      · by_cases h4 : (g.satisfied now k a gr).1 = true
        · simp [h1, h2, h3, h4, Grace.observe_in, h]
        · simp [h1, h2, h3, h4]

theorem runWithGraceSeconds_out (p : String → Bool) (g : Grace) (now : Nat) (k a : String) (gr : Int)
    (md er : Bool) (h : p k = false) :
    restrict p (runWithGraceSeconds g now k a gr md er).1 = restrict p g := by
  unfold runWithGraceSeconds
  by_cases h1 : er = true
  · simp [h1]
  · by_cases h2 : gr = 0
    · simp [h1, h2, Grace.observe_out, h]
    · by_cases h3 : md = true
      · simp [h1, h2, h3, Grace.expect_out, h]
      · by_cases h4 : (g.satisfied now k a gr).1 = true
        · simp [h1, h2, h3, h4, Grace.observe_out, h]
        · simp [h1, h2, h3, h4]

theorem Grace.local : Local (fun o : GOp => [o.key]) Grace.apply := by
  constructor
  · intro p now m o h
    have hk : p o.key = true := by simpa using h
    cases o with
    | expect k a => exact ⟨Grace.expect_in p m now k a hk, rfl⟩
    | observe k a => exact ⟨Grace.observe_in p m k a hk, rfl⟩
    | satisfied k a gr => refine ⟨rfl, ?_⟩; simp only [Grace.apply]; rw [← Grace.satisfied_in p m now k a gr hk]
    | delete k => exact ⟨restrict_adel p m k, rfl⟩
    | get k =>
      refine ⟨rfl, ?_⟩
      simp only [Grace.apply, Grace.getExpectations]
      rw [aget_restrict p m k hk]
    | run k a gr md er =>
      have := runWithGraceSeconds_in p m now k a gr md er hk
      refine ⟨this.1, ?_⟩; simp only [Grace.apply]; rw [this.2]
  · intro p now m o h
    have hk : p o.key = false := by simpa using h
    cases o with
    | expect k a => exact Grace.expect_out p m now k a hk
    | observe k a => exact Grace.observe_out p m k a hk
    | satisfied k a gr => rfl
    | delete k => exact restrict_adel_out p m k hk
    | get k => rfl
    | run k a gr md er => exact runWithGraceSeconds_out p m now k a gr md er hk

theorem Grace.globLocal : GlobLocal Grace.glob := by
  intro p now a m
  unfold Grace.glob Grace.cleanOutdated
  apply restrict_filterMap
  intro e e' h
  dsimp only at h
  split at h
  · cases h
  · cases h; rfl

/-! ### resource expectations -/

theorem ExpStore.expect_in (p : String → Bool) (st : ExpStore) (k a n : String) (h : p k = true) :
    restrict p (st.expect k a n) = ExpStore.expect (restrict p st) k a n := by
  unfold ExpStore.expect
  rw [aget_restrict p st k h]
  cases aget st k with
  | none => exact restrict_aset_in p st k _ h
  | some e => dsimp only; cases aget e.objs a <;> exact restrict_aset_in p st k _ h

theorem ExpStore.expect_out (p : String → Bool) (st : ExpStore) (k a n : String) (h : p k = false) :
    restrict p (st.expect k a n) = restrict p st := by
  unfold ExpStore.expect
  cases aget st k with
  | none => exact restrict_aset_out p st k _ h
  | some e => dsimp only; cases aget e.objs a <;> exact restrict_aset_out p st k _ h

theorem ExpStore.observe_in (p : String → Bool) (st : ExpStore) (k a n : String) (h : p k = true) :
    restrict p (st.observe k a n) = ExpStore.observe (restrict p st) k a n := by
  unfold ExpStore.observe
  rw [aget_restrict p st k h]
  cases aget st k with
  | none => rfl
  | some e =>
    dsimp only
    cases aget e.objs a with
    | none => rfl
    | some s =>
      dsimp only
      split
      · exact restrict_aset_in p st k _ h
      · exact restrict_adel p st k

theorem ExpStore.observe_out (p : String → Bool) (st : ExpStore) (k a n : String) (h : p k = false) :
    restrict p (st.observe k a n) = restrict p st := by
  unfold ExpStore.observe
  cases aget st k with
  | none => rfl
  | some e =>
    dsimp only
    cases aget e.objs a with
    | none => rfl
    | some s =>
      dsimp only
      split
      · exact restrict_aset_out p st k _ h
      · exact restrict_adel_out p st k h

theorem ExpStore.satisfied_in (p : String → Bool) (st : ExpStore) (now : Nat) (k : String) (h : p k = true) :
    restrict p (st.satisfied now k).1 = (ExpStore.satisfied (restrict p st) now k).1 ∧
    (st.satisfied now k).2 = (ExpStore.satisfied (restrict p st) now k).2 := by
  unfold ExpStore.satisfied
  rw [aget_restrict p st k h]
  cases aget st k with
  | none => exact ⟨rfl, rfl⟩
  | some e =>
    dsimp only
    cases hf : e.objs.filter (fun x => x.2.length > 0) with
    | nil => exact ⟨restrict_adel p st k, rfl⟩
    | cons x more => exact ⟨restrict_aset_in p st k _ h, rfl⟩

theorem ExpStore.satisfied_out (p : String → Bool) (st : ExpStore) (now : Nat) (k : String) (h : p k = false) :
    restrict p (st.satisfied now k).1 = restrict p st := by
  unfold ExpStore.satisfied
  cases aget st k with
  | none => rfl
  | some e =>
    dsimp only
    cases hf : e.objs.filter (fun x => x.2.length > 0) with
    | nil => exact restrict_adel_out p st k h
    | cons x more => exact restrict_aset_out p st k _ h

theorem brCreateCont_in (p : String → Bool) (st : ExpStore) (k : String) (sf ok : Bool) (uid : String)
    (h : p k = true) :
    restrict p (brCreateCont st k sf ok uid).1 = (brCreateCont (restrict p st) k sf ok uid).1 ∧
    (brCreateCont st k sf ok uid).2 = (brCreateCont (restrict p st) k sf ok uid).2 := by
  unfold brCreateCont
  cases sf <;> cases ok <;> refine ⟨?_, ?_⟩ <;> first | rfl | exact ExpStore.expect_in p st k _ _ h

theorem brCreateCont_out (p : String → Bool) (st : ExpStore) (k : String) (sf ok : Bool) (uid : String)
    (h : p k = false) :
    restrict p (brCreateCont st k sf ok uid).1 = restrict p st := by
  unfold brCreateCont
  cases sf <;> cases ok <;> first | rfl | exact ExpStore.expect_out p st k _ _ h

theorem brCreate_in (p : String → Bool) (st : ExpStore) (now t : Nat) (ns n : String) (known sf ok : Bool)
    (uid : String) (h : known = false → p (nsName ns n) = true) :
    restrict p (brCreate st now t ns n known sf ok uid).1 = (brCreate (restrict p st) now t ns n known sf ok uid).1 ∧
    (brCreate st now t ns n known sf ok uid).2 = (brCreate (restrict p st) now t ns n known sf ok uid).2 := by
  unfold brCreate
  cases known with
  | true => exact ⟨rfl, rfl⟩
  | false =>
    have hk := h rfl
    have hs := ExpStore.satisfied_in p st now (nsName ns n) hk
    simp only [Bool.false_eq_true, if_false]
    rw [← hs.2]
    cases h1 : (st.satisfied now (nsName ns n)).2.ok with
    | true =>
      simp only [not_true_eq_false, if_false, ← hs.1]
      exact brCreateCont_in p _ _ sf ok uid hk
    | false =>
      simp only [Bool.false_eq_true, not_false_eq_true, if_true]
      by_cases h4 : (st.satisfied now (nsName ns n)).2.since ≥ t
      · simp only [h4, if_true]
        have hd : restrict p ((st.satisfied now (nsName ns n)).1.deleteExpectations (nsName ns n)) =
            ExpStore.deleteExpectations (ExpStore.satisfied (restrict p st) now (nsName ns n)).1 (nsName ns n) := by
          unfold ExpStore.deleteExpectations; rw [restrict_adel, hs.1]
        rw [← hd]
        exact brCreateCont_in p _ _ sf ok uid hk
      · simp only [h4, if_false]; exact ⟨hs.1, by first | rfl | trivial⟩

theorem brCreate_out (p : String → Bool) (st : ExpStore) (now t : Nat) (ns n : String) (known sf ok : Bool)
    (uid : String) (h : known = false → p (nsName ns n) = false) :
    restrict p (brCreate st now t ns n known sf ok uid).1 = restrict p st := by
  unfold brCreate
  cases known with
  | true => rfl
  | false =>
    have hk := h rfl
    have hs := ExpStore.satisfied_out p st now (nsName ns n) hk
    simp only [Bool.false_eq_true, if_false]
    cases h1 : (st.satisfied now (nsName ns n)).2.ok with
    | true =>
      simp only [not_true_eq_false, if_false]
      rw [brCreateCont_out p _ _ sf ok uid hk]; exact hs
    | false =>
      simp only [Bool.false_eq_true, not_false_eq_true, if_true]
      by_cases h4 : (st.satisfied now (nsName ns n)).2.since ≥ t
      · simp only [h4, if_true]
        rw [brCreateCont_out p _ _ sf ok uid hk]
        unfold ExpStore.deleteExpectations; rw [restrict_adel_out p _ _ hk]; exact hs
      · simp only [h4, if_false]; exact hs

theorem ExpStore.local : Local EOp.keys ExpStore.apply := by
  constructor
  · intro p now m o h
    cases o with
    | expect k a n => exact ⟨ExpStore.expect_in p m k a n (by simpa [EOp.keys] using h), rfl⟩
    | observe k a n => exact ⟨ExpStore.observe_in p m k a n (by simpa [EOp.keys] using h), rfl⟩
    | satisfied k =>
      have := ExpStore.satisfied_in p m now k (by simpa [EOp.keys] using h)
      refine ⟨this.1, ?_⟩; simp only [ExpStore.apply]; rw [this.2]
    | delete k => exact ⟨restrict_adel p m k, rfl⟩
    | get k =>
      refine ⟨rfl, ?_⟩
      simp only [ExpStore.apply, ExpStore.getExpectations]
      rw [aget_restrict p m k (by simpa [EOp.keys] using h)]
    | brCreate t ns n known sf ok uid =>
      have := brCreate_in p m now t ns n known sf ok uid (by intro hk; simpa [EOp.keys, hk] using h)
      refine ⟨this.1, ?_⟩; simp only [ExpStore.apply]; rw [this.2]
    | brObserved ns uid ow =>
      refine ⟨?_, rfl⟩
      simp only [ExpStore.apply, brObserved]
      cases hk : getControllerKey ns ow with
      | none => rfl
      | some k => exact ExpStore.observe_in p m k _ _ (by simpa [EOp.keys, hk] using h)
  · intro p now m o h
    cases o with
    | expect k a n => exact ExpStore.expect_out p m k a n (by simpa [EOp.keys] using h)
    | observe k a n => exact ExpStore.observe_out p m k a n (by simpa [EOp.keys] using h)
    | satisfied k => exact ExpStore.satisfied_out p m now k (by simpa [EOp.keys] using h)
    | delete k => exact restrict_adel_out p m k (by simpa [EOp.keys] using h)
    | get k => rfl
    | brCreate t ns n known sf ok uid =>
      exact brCreate_out p m now t ns n known sf ok uid (by intro hk; simpa [EOp.keys, hk] using h)
    | brObserved ns uid ow =>
      simp only [ExpStore.apply, brObserved]
      cases hk : getControllerKey ns ow with
      | none => rfl
      | some k => exact ExpStore.observe_out p m k _ _ (by simpa [EOp.keys, hk] using h)

theorem ExpStore.globLocal : GlobLocal ExpStore.glob := fun _ _ _ _ => rfl

/-! ### Manager calls -/

/-- a Manager call that returns before `RunWithGraceSeconds` neither reads nor writes the grace map -/
theorem managerCall_none (g : Grace) (now : Nat) (x : MCall) (h : x.graceKey = none) :
    managerCall g now x = (g, (managerCall [] 0 x).2) := by
  unfold managerCall MCall.graceKey at *
  cases hr : x.c.refs with
  | nil => rfl
  | cons ref0 rest =>
    rw [hr] at h
    cases hs : x.site <;> rw [hs] at h <;> dsimp only at h ⊢
    all_goals first
      | (cases hst : x.stable <;> rw [hst] at h <;> simp_all <;> done)
      | (split at h <;> simp_all <;> done)
      | (split at h <;> cases hst : x.stable <;> simp_all <;> done)

/-- otherwise it is exactly one `runWithGraceSeconds` under the key and action of `graceKey` -/
theorem managerCall_some (g : Grace) (now : Nat) (x : MCall) (k a : String) (h : x.graceKey = some (k, a)) :
    managerCall g now x =
      ((runWithGraceSeconds g now k a (getGraceSeconds x.c.refs x.defaultGrace) x.cl.modified x.cl.err).1,
       MOut.ofRun (runWithGraceSeconds g now k a (getGraceSeconds x.c.refs x.defaultGrace) x.cl.modified x.cl.err).2) := by
  unfold managerCall MCall.graceKey at *
  cases hr : x.c.refs with
  | nil => rw [hr] at h; cases h
  | cons ref0 rest =>
    rw [hr] at h
    cases hs : x.site <;> rw [hs] at h <;> dsimp only at h ⊢
    all_goals first
      | (cases hst : x.stable <;> rw [hst] at h <;> simp_all [Site.action] <;> done)
      | (split at h <;> simp_all [Site.action] <;> done)
      | (split at h <;> cases hst : x.stable <;> simp_all [Site.action] <;> done)

theorem managerCall_in (p : String → Bool) (g : Grace) (now : Nat) (x : MCall)
    (h : ((x.graceKey.map (·.1)).toList).all p = true) :
    restrict p (managerCall g now x).1 = (managerCall (restrict p g) now x).1 ∧
    (managerCall g now x).2 = (managerCall (restrict p g) now x).2 := by
  cases hk : x.graceKey with
  | none => rw [managerCall_none g now x hk, managerCall_none (restrict p g) now x hk]; exact ⟨rfl, rfl⟩
  | some ka =>
    obtain ⟨k, a⟩ := ka
    have hp : p k = true := by simpa [hk] using h
    rw [managerCall_some g now x k a hk, managerCall_some (restrict p g) now x k a hk]
    have := runWithGraceSeconds_in p g now k a (getGraceSeconds x.c.refs x.defaultGrace) x.cl.modified x.cl.err hp
    exact ⟨this.1, by rw [this.2]⟩

theorem managerCall_out (p : String → Bool) (g : Grace) (now : Nat) (x : MCall)
    (h : ((x.graceKey.map (·.1)).toList).all (fun k => !p k) = true) :
    restrict p (managerCall g now x).1 = restrict p g := by
  cases hk : x.graceKey with
  | none => rw [managerCall_none g now x hk]
  | some ka =>
    obtain ⟨k, a⟩ := ka
    have hp : p k = false := by simpa [hk] using h
    rw [managerCall_some g now x k a hk]
    exact runWithGraceSeconds_out p g now k a _ _ _ hp

theorem finalising_in (p : String → Bool) (g : Grace) (now : Nat) (a b c : MCall)
    (ha : ((a.graceKey.map (·.1)).toList).all p = true) (hb : ((b.graceKey.map (·.1)).toList).all p = true)
    (hc : ((c.graceKey.map (·.1)).toList).all p = true) :
    restrict p (finalising g now a b c).1 = (finalising (restrict p g) now a b c).1 ∧
    (finalising g now a b c).2 = (finalising (restrict p g) now a b c).2 := by
  unfold finalising
  cases hr : a.c.refs with
  | nil => exact ⟨rfl, rfl⟩
  | cons r0 rs =>
    dsimp only
    have h1 := managerCall_in p g now a ha
    rw [← h1.2]
    by_cases c1 : (managerCall g now a).2.err = true ∨ (managerCall g now a).2.retry = true
    · simp only [c1, if_true]; exact ⟨h1.1, trivial⟩
    · simp only [c1, if_false]
      rw [← h1.1]
      have h2 := managerCall_in p (managerCall g now a).1 now b hb
      rw [← h2.2]
      by_cases c2 : (managerCall (managerCall g now a).1 now b).2.err = true ∨ (managerCall (managerCall g now a).1 now b).2.retry = true
      · simp only [c2, if_true]; exact ⟨h2.1, trivial⟩
      · simp only [c2, if_false]
        rw [← h2.1]
        have h3 := managerCall_in p (managerCall (managerCall g now a).1 now b).1 now c hc
        rw [← h3.2]
        by_cases c3 : (managerCall (managerCall (managerCall g now a).1 now b).1 now c).2.err = true ∨
            (managerCall (managerCall (managerCall g now a).1 now b).1 now c).2.retry = true
        · simp only [c3, if_true]; exact ⟨h3.1, trivial⟩
        · simp only [c3, if_false]; exact ⟨h3.1, trivial⟩

theorem finalising_out (p : String → Bool) (g : Grace) (now : Nat) (a b c : MCall)
    (ha : ((a.graceKey.map (·.1)).toList).all (fun k => !p k) = true)
    (hb : ((b.graceKey.map (·.1)).toList).all (fun k => !p k) = true)
    (hc : ((c.graceKey.map (·.1)).toList).all (fun k => !p k) = true) :
    restrict p (finalising g now a b c).1 = restrict p g := by
  unfold finalising
  cases hr : a.c.refs with
  | nil => rfl
  | cons r0 rs =>
    dsimp only
    have h1 := managerCall_out p g now a ha
    have h2 := managerCall_out p (managerCall g now a).1 now b hb
    have h3 := managerCall_out p (managerCall (managerCall g now a).1 now b).1 now c hc
    split
    · exact h1
    · split
      · exact h2.trans h1
      · split
        · exact h3.trans (h2.trans h1)
        · exact h3.trans (h2.trans h1)

theorem MOp.local : Local MOp.keys MOp.apply := by
  constructor
  · intro p now m o h
    cases o with
    | call x =>
      have := managerCall_in p m now x (by simpa [MOp.keys] using h)
      refine ⟨this.1, ?_⟩; simp only [MOp.apply]; rw [this.2]
    | finalising a b c =>
      simp only [MOp.keys, List.all_append, Bool.and_eq_true] at h
      have := finalising_in p m now a b c h.1.1 h.1.2 h.2
      refine ⟨this.1, ?_⟩; simp only [MOp.apply]; rw [this.2]
  · intro p now m o h
    cases o with
    | call x => exact managerCall_out p m now x (by simpa [MOp.keys] using h)
    | finalising a b c =>
      simp only [MOp.keys, List.all_append, Bool.and_eq_true] at h
      exact finalising_out p m now a b c h.1.1 h.1.2 h.2

/-! ## generic trace theory -/
section Traces
variable {ε Op Obs : Type} {keys : Op → List String}
variable {apply : Nat → AMap ε → Op → AMap ε × Obs} {glob : Nat → Nat → AMap ε → AMap ε}

/-- **frame**: an operation leaves every entry under a key it does not name unchanged -/
theorem Local.frame (L : Local keys apply) (now : Nat) (m : AMap ε) (o : Op) (k : String)
    (h : k ∉ keys o) : aget (apply now m o).1 k = aget m k := by
  apply aget_eq_of_restrict_eq
  apply L.out
  rw [List.all_eq_true]
  intro k' hk'
  have : k' ≠ k := fun e => h (e ▸ hk')
  simp [this]

/-- the result of an operation, and the entries it leaves under its keys, depend only on the entries under its keys -/
theorem Local.obs_local (L : Local keys apply) (p : String → Bool) (now : Nat) (m₁ m₂ : AMap ε) (o : Op)
    (hk : (keys o).all p = true) (h : restrict p m₁ = restrict p m₂) :
    (apply now m₁ o).2 = (apply now m₂ o).2 ∧ restrict p (apply now m₁ o).1 = restrict p (apply now m₂ o).1 := by
  have h1 := L.inn p now m₁ o hk
  have h2 := L.inn p now m₂ o hk
  rw [h] at h1
  exact ⟨h1.2.trans h2.2.symm, h1.1.trans h2.1.symm⟩

theorem proj_cons_own (r : Nat) (o : Op) (es : List (Ev Op)) : proj r (Ev.op r o :: es) = Ev.op r o :: proj r es := by
  simp [proj, List.filter_cons]

theorem proj_cons_other (r r' : Nat) (o : Op) (es : List (Ev Op)) (h : r' ≠ r) :
    proj r (Ev.op r' o :: es) = proj r es := by
  simp [proj, List.filter_cons, h]

theorem proj_cons_tick (r d : Nat) (es : List (Ev Op)) : proj r (Ev.tick d :: es) = Ev.tick d :: proj r es := by
  simp [proj, List.filter_cons]

theorem proj_cons_glob (r a : Nat) (es : List (Ev Op)) : proj r (Ev.glob a :: es) = Ev.glob a :: proj r es := by
  simp [proj, List.filter_cons]

theorem obsOf_cons_own (r : Nat) (x : Obs) (l : List (Nat × Obs)) : obsOf r ((r, x) :: l) = x :: obsOf r l := by
  simp [obsOf, List.filter_cons]

theorem obsOf_cons_other (r r' : Nat) (x : Obs) (l : List (Nat × Obs)) (h : r' ≠ r) :
    obsOf r ((r', x) :: l) = obsOf r l := by
  simp [obsOf, List.filter_cons, h]

/-- **a rollout's view of a run of the whole process is its run alone**: for every trace in which the
    operations of rollout `r` use only keys selected by `p` and nobody else's operation uses such a key,
    the clock, the part of the store under `p`, and everything `r` observes are the same as when only
    `r`'s operations (and the clock, and the maintenance) run on the part of the store under `p` -/
theorem run_restrict (L : Local keys apply) (G : GlobLocal glob) (p : String → Bool) (r : Nat) :
    ∀ (tr : List (Ev Op)) (s : Nat × AMap ε), sepFor keys p r tr = true →
      (run apply glob s tr).1.1 = (run apply glob (s.1, restrict p s.2) (proj r tr)).1.1 ∧
      restrict p (run apply glob s tr).1.2 = (run apply glob (s.1, restrict p s.2) (proj r tr)).1.2 ∧
      obsOf r (run apply glob s tr).2 = obsOf r (run apply glob (s.1, restrict p s.2) (proj r tr)).2 := by
  intro tr
  induction tr with
  | nil => intro s _; exact ⟨rfl, rfl, rfl⟩
  | cons e es ih =>
    intro s hs
    have hes : sepFor keys p r es = true := by
      simp only [sepFor, List.all_cons, Bool.and_eq_true] at hs ⊢; exact hs.2
    cases e with
    | op r' o =>
      by_cases hr : r' = r
      · subst hr
        have hk : (keys o).all p = true := by
          simp only [sepFor, List.all_cons, Bool.and_eq_true] at hs; simpa using hs.1
        have hin := L.inn p s.1 s.2 o hk
        have := ih (s.1, (apply s.1 s.2 o).1) hes
        rw [proj_cons_own]
        simp only [run, stepEv, Option.toList, List.cons_append, List.nil_append, obsOf_cons_own]
        simp only [] at this
        rw [hin.1] at this
        rw [← hin.2]
        exact ⟨this.1, this.2.1, by rw [this.2.2]⟩
      · have hk : (keys o).all (fun k => !p k) = true := by
          simp only [sepFor, List.all_cons, Bool.and_eq_true] at hs; simpa [hr] using hs.1
        have hout := L.out p s.1 s.2 o hk
        have := ih (s.1, (apply s.1 s.2 o).1) hes
        rw [proj_cons_other r r' o es hr]
        simp only [run, stepEv, Option.toList, List.cons_append, List.nil_append, obsOf_cons_other r r' _ _ hr]
        simp only [] at this
        rw [hout] at this
        exact this
    | tick d =>
      have := ih (s.1 + d, s.2) hes
      rw [proj_cons_tick]
      simp only [run, stepEv, Option.toList, List.nil_append]
      exact this
    | glob a =>
      have := ih (s.1, glob s.1 a s.2) hes
      rw [proj_cons_glob]
      simp only [run, stepEv, Option.toList, List.nil_append]
      simp only [] at this
      rw [G p s.1 a s.2] at this
      exact this

/-- a run alone produces only the runner's observations -/
theorem obsOf_proj_all (r : Nat) : ∀ (tr : List (Ev Op)) (s : Nat × AMap ε),
    obsOf r (run apply glob s (proj r tr)).2 = (run apply glob s (proj r tr)).2.map (·.2) := by
  intro tr
  induction tr with
  | nil => intro s; rfl
  | cons e es ih =>
    intro s
    cases e with
    | op r' o =>
      by_cases hr : r' = r
      · subst hr
        rw [proj_cons_own]
        simp only [run, stepEv, Option.toList, List.cons_append, List.nil_append, obsOf_cons_own, List.map_cons]
        rw [ih]
      · rw [proj_cons_other r r' o es hr]; exact ih s
    | tick d => rw [proj_cons_tick]; simp only [run, stepEv, Option.toList, List.nil_append]; exact ih _
    | glob a => rw [proj_cons_glob]; simp only [run, stepEv, Option.toList, List.nil_append]; exact ih _

end Traces

end RV.Isolation
