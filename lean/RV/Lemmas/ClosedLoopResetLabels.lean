/-
  Supersession, the other labels: the superseding release leads from the forward invariant into the reset invariant; workload
  progress, approval, clock and crash preserve the reset invariant.
-/
import RV.Lemmas.ClosedLoopStepBr
import RV.Lemmas.ClosedLoopLabels
import RV.Lemmas.ClosedLoopStepRo
namespace RV.Lemmas.ClosedLoop
open RV.Arith RV.Traffic RV.RolloutSM RV.ClosedLoop RV.Oracle.ClosedLoop

/-! ### taking the reset invariant apart -/

theorem resetlab_inv_iff (s : CS) :
    resetInv s = true ↔ roOK s = true ∧ ∃ w, s.wl = some w ∧ wlOK w = true ∧ planMono w.replicas (planOf s.ro) = true ∧
      brOKo s.br = true ∧ s.ro.phase = .progressing ∧ s.ro.reason = .inRolling ∧
      (∃ sub, s.ro.sub = some sub ∧ sub.canaryRev ≠ "" ∧ sub.canaryRev ≠ w.updateRevision) ∧
      w.updateRevision ≠ w.currentRevision ∧ 0 < w.replicas ∧ w.updated = 0 ∧ held w = true ∧ brHoldsO s.br w = true := by
  unfold resetInv
  cases hw : s.wl with
  | none => simp
  | some w =>
    cases hs : s.ro.sub with
    | none => simp
    | some sub => simp [Bool.and_eq_true, and_assoc]

/-! ### strings -/

theorem resetlab_append_ne_empty (a : String) : "wl-" ++ a ≠ "" := by
  intro h
  have := congrArg String.length h
  simp at this

theorem resetlab_append_inj (a b : String) (h : "wl-" ++ a = "wl-" ++ b) : a = b := by
  exact (String.append_right_inj "wl-").mp h

theorem supersede_release (s : CS) (rev : String) (h : fwdInv s = true) (hs : supersedeOK s rev = true) :
    resetInv { s with wl := s.wl.map (releaseWl rev) } = true := by
  obtain ⟨hgone, hg, w, hw, hwok, hmono, hbr, hpi⟩ := fwd_parts s h
  unfold supersedeOK at hs
  rw [hw] at hs
  cases hsub : s.ro.sub with
  | none => rw [hsub] at hs; simp at hs
  | some sub =>
    rw [hsub] at hs
    simp only [Bool.and_eq_true, beq_iff_eq, bne_iff_ne, Bool.not_eq_true', decide_eq_true_eq] at hs
    obtain ⟨⟨⟨_, hph⟩, hre⟩, ⟨⟨⟨⟨⟨⟨hR, hrev0⟩, hrevc⟩, hrevu⟩, hcan0⟩, hne⟩, hb⟩⟩ := hs
    have hrel : releaseWl rev w =
        { w with generation := w.generation + 1, inProgressAnno := true, partition := some (.pct 100), paused := false,
                 updateRevision := rev, updated := 0, updatedReady := 0 } := by
      unfold releaseWl
      dsimp only
      rw [if_neg hrevc]
    rw [phaseInv_rolling s w sub hph hre hsub] at hpi
    simp only [Bool.and_eq_true] at hpi
    obtain ⟨⟨hsok, hlink⟩, _⟩ := hpi
    have hsg := (subOK_iff s.ro sub w).1 hsok
    unfold wlOK at hwok
    simp only [Bool.and_eq_true, Bool.or_eq_true, decide_eq_true_eq, beq_iff_eq, bne_iff_ne] at hwok
    obtain ⟨⟨⟨⟨h1, h2⟩, h3⟩, h4⟩, h5⟩ := hwok
    refine (resetlab_inv_iff _).2 ⟨(roOK_iff _).2 ⟨hgone, hg⟩, releaseWl rev w,
      by show s.wl.map (releaseWl rev) = _; rw [hw]; rfl, ?_, by rw [hrel]; exact hmono, hbr, hph, hre,
      ⟨sub, hsub, hcan0, by rw [hrel, hsg.rev]; exact fun e => hrevu e.symm⟩, by rw [hrel]; exact hrevc,
      by rw [hrel]; exact hR, by rw [hrel], by rw [hrel]; rfl, ?_⟩
    · rw [hrel]
      unfold wlOK
      dsimp only
      rw [scaled_pct100]
      simp only [Bool.and_eq_true, Bool.or_eq_true, decide_eq_true_eq, beq_iff_eq, bne_iff_ne]
      exact ⟨⟨⟨⟨h1, h2⟩, h2⟩, Or.inl hrevc⟩, h2⟩
    · show brHoldsO s.br (releaseWl rev w) = true
      cases hbo : s.br with
      | none => rfl
      | some b =>
        rw [hbo] at hb hlink
        simp only [Bool.and_eq_true, beq_iff_eq, Bool.not_eq_true'] at hb
        obtain ⟨⟨⟨hdel, hbph⟩, hbrev⟩, hobs⟩ := hb
        obtain ⟨hbat, ⟨p, hp, hp0, hple, hcb⟩, _, _⟩ := (linkOK_iff s.ro sub b).1 hlink
        have hlen : b.st.currentBatch < (b.batches.length : Int) := by
          rw [hbat, planOf_length]
          have := hsg.hi
          omega
        rw [hrel]
        show brHolds b _ = true
        unfold brHolds
        dsimp only
        simp only [Bool.and_eq_true, Bool.or_eq_true, beq_iff_eq, bne_iff_ne, Bool.not_eq_true', decide_eq_true_eq]
        right
        refine ⟨⟨⟨⟨⟨⟨hdel, by rw [hp]; rfl⟩, hbph⟩, ?_⟩, ?_⟩, hlen⟩, hobs⟩
        · rw [hbrev]; exact resetlab_append_ne_empty _
        · rw [hbrev]; exact fun e => hrevu (resetlab_append_inj _ _ e).symm

/-! ### workload progress while held -/

theorem resetlab_envWl_held (w : CWl) (hne : w.updateRevision ≠ w.currentRevision) (hR : 0 < w.replicas)
    (hu : w.updated = 0) (hp : w.partition = some (.pct 100)) :
    (envWl w).updated = 0 ∧ (envWl w).currentRevision = w.currentRevision := by
  unfold envWl
  dsimp only
  rw [if_pos hne, hp, hu]
  dsimp only
  simp only [scaled_pct100]
  have hal : (if w.paused = true then (0 : Int) else w.replicas - (if w.replicas > w.replicas then w.replicas else w.replicas)) = 0 := by
    split
    · rfl
    · split <;> omega
  rw [hal]
  have hge : ¬ ((if (0 : Int) < 0 then (0 : Int) else 0) ≥ w.replicas) := by
    rw [if_neg (by omega)]; omega
  rw [if_neg hge]
  exact ⟨by rw [if_neg (by omega)], rfl⟩

theorem resetlab_brHolds_congr (b : CBr) (w w' : CWl) (h1 : w'.updateRevision = w.updateRevision)
    (h2 : w'.replicas = w.replicas) : brHolds b w' = brHolds b w := by
  unfold brHolds
  rw [h1, h2]

theorem resetlab_brHoldsO_congr (br : Option CBr) (w w' : CWl) (h1 : w'.updateRevision = w.updateRevision)
    (h2 : w'.replicas = w.replicas) : brHoldsO br w' = brHoldsO br w := by
  cases br with
  | none => rfl
  | some b => exact resetlab_brHolds_congr b w w' h1 h2

theorem env_reset (s : CS) (h : resetInv s = true) : resetInv { s with wl := s.wl.map envWl } = true := by
  obtain ⟨hro, w, hw, hwok, hmono, hbr, hph, hre, hsub, hne, hR, hu, hheld, hholds⟩ := (resetlab_inv_iff s).1 h
  obtain ⟨f1, _, f3, f4, _⟩ := envWl_frame w
  obtain ⟨g1, g2⟩ := resetlab_envWl_held w hne hR hu ((held_iff w).1 hheld)
  obtain ⟨sub, hs, hc1, hc2⟩ := hsub
  refine (resetlab_inv_iff _).2 ⟨hro, envWl w, by show s.wl.map envWl = _; rw [hw]; rfl, envWl_ok w hwok, ?_, hbr, hph, hre,
    ⟨sub, hs, hc1, by rw [f4]; exact hc2⟩, by rw [f4, g2]; exact hne, by rw [f1]; exact hR, g1,
    by rw [held_iff, f3]; exact (held_iff w).1 hheld, ?_⟩
  · show planMono (envWl w).replicas (planOf s.ro) = true
    rw [f1]; exact hmono
  · show brHoldsO s.br (envWl w) = true
    rw [resetlab_brHoldsO_congr s.br w (envWl w) f4 f1]; exact hholds

/-! ### approval, clock, crash -/

theorem approve_reset (s : CS) (h : resetInv s = true) : resetInv (approve s) = true := by
  obtain ⟨hro, w, hw, hwok, hmono, hbr, hph, hre, hsub, hne, hR, hu, hheld, hholds⟩ := (resetlab_inv_iff s).1 h
  obtain ⟨hgone, hg⟩ := (roOK_iff s).1 hro
  obtain ⟨sub, hs, hc1, hc2⟩ := hsub
  unfold approve
  rw [if_neg (by simp [hgone]), hs]
  dsimp only
  split
  · refine (resetlab_inv_iff _).2 ⟨(roOK_iff _).2 ⟨hgone, ⟨hg.1, hg.2, hg.3, hg.4, hg.5, hg.6, hg.7⟩⟩, w, hw, hwok, hmono, hbr,
      hph, hre, ⟨_, rfl, hc1, hc2⟩, hne, hR, hu, hheld, hholds⟩
  · exact h

theorem tick_reset (s : CS) (h : resetInv s = true) : resetInv (tick s) = true := by
  obtain ⟨hro, w, hw, hwok, hmono, hbr, hph, hre, hsub, hne, hR, hu, hheld, hholds⟩ := (resetlab_inv_iff s).1 h
  obtain ⟨hgone, hg⟩ := (roOK_iff s).1 hro
  obtain ⟨sub, hs, hc1, hc2⟩ := hsub
  unfold tick
  dsimp only
  rw [if_neg (by simp [hgone])]
  refine (resetlab_inv_iff _).2 ⟨(roOK_iff _).2 ⟨hgone, ⟨hg.1, hg.2, hg.3, hg.4, hg.5, hg.6, hg.7⟩⟩, w, hw, hwok, hmono, hbr,
    hph, hre, ⟨{ sub with lastUpdate := ageAge sub.lastUpdate }, ?_, hc1, hc2⟩, hne, hR, hu, hheld, hholds⟩
  show Option.map _ s.ro.sub = _
  rw [hs]; rfl

theorem crash_reset (s : CS) (h : resetInv s = true) : resetInv (crash s) = true := by
  obtain ⟨hro, w, hw, hwok, hmono, hbr, hph, hre, hsub, hne, hR, hu, hheld, hholds⟩ := (resetlab_inv_iff s).1 h
  obtain ⟨hgone, hg⟩ := (roOK_iff s).1 hro
  exact (resetlab_inv_iff (crash s)).2 ⟨(roOK_iff _).2 ⟨hgone, hg⟩, w, hw, hwok, hmono, hbr, hph, hre, hsub, hne, hR, hu, hheld,
    hholds⟩

end RV.Lemmas.ClosedLoop
