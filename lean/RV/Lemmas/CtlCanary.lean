import RV.Model.CtlCanary
import RV.Oracle.CtlCanary
import RV.Lemmas.Arith
/-! Helper lemmas for the canary-style Deployment control plane. -/
namespace RV.CtlCanary
open RV.Arith RV.Oracle.CtlCanary

/-! ## worlds -/

def names (w : World) : List Nat := w.deps.map (·.name)

theorem find_some {w : World} {n : Nat} {d : Dep} (h : w.find n = some d) : d ∈ w.deps ∧ d.name = n := by
  unfold World.find at h
  have h1 := List.mem_of_find?_eq_some h
  have h2 := List.find?_some h
  exact ⟨h1, by simpa using h2⟩

theorem find_none {w : World} {n : Nat} (h : w.find n = none) : ∀ d ∈ w.deps, d.name ≠ n := by
  unfold World.find at h
  intro d hd
  have := List.find?_eq_none.mp h d hd
  simpa using this

theorem find_of_mem_aux : ∀ (l : List Dep) (d : Dep), (l.map (·.name)).Nodup → d ∈ l →
    l.find? (fun x => x.name == d.name) = some d
  | [], _, _, h => by cases h
  | x :: l, d, hnd, h => by
    rw [List.map_cons, List.nodup_cons] at hnd
    rcases List.mem_cons.mp h with rfl | h
    · simp
    · have hne : x.name ≠ d.name := by
        intro he
        exact hnd.1 (he ▸ List.mem_map_of_mem h)
      rw [List.find?_cons_of_neg (by simpa using hne)]
      exact find_of_mem_aux l d hnd.2 h

theorem find_of_mem {w : World} {d : Dep} (hnd : (names w).Nodup) (h : d ∈ w.deps) : w.find d.name = some d :=
  find_of_mem_aux w.deps d hnd h

theorem namesNodup_iff (w : World) : namesNodup w = true ↔ (names w).Nodup := by
  simp [namesNodup, names]

theorem names_modify (w : World) (id : Nat) (f : Dep → Dep) (hf : ∀ d, (f d).name = d.name) :
    names (w.modify id f) = names w := by
  unfold names World.modify
  simp only [List.map_map]
  apply List.map_congr_left
  intro d _
  simp only [Function.comp]
  split <;> simp [hf]

theorem find_modify_aux (l : List Dep) (id n : Nat) (f : Dep → Dep) (hf : ∀ d, (f d).name = d.name) :
    (l.map (fun d => if d.name = id then f d else d)).find? (fun x => x.name == n) =
      (l.find? (fun x => x.name == n)).map (fun d => if d.name = id then f d else d) := by
  induction l with
  | nil => rfl
  | cons x l ih =>
    have hx : (if x.name = id then f x else x).name = x.name := by split <;> simp [hf]
    by_cases hn : x.name = n
    · subst hn
      simp [List.find?_cons, hx]
    · simp only [List.map_cons, List.find?_cons, hx]
      have : (x.name == n) = false := by simpa using hn
      simp only [this]
      exact ih

theorem find_modify (w : World) (id n : Nat) (f : Dep → Dep) (hf : ∀ d, (f d).name = d.name) :
    (w.modify id f).find n = (w.find n).map (fun d => if d.name = id then f d else d) :=
  find_modify_aux w.deps id n f hf

theorem find_add (w : World) (cd : Dep) (n : Nat) :
    (w.add cd).find n = match w.find n with
      | some d => some d
      | none => if cd.name = n then some cd else none := by
  unfold World.add World.find
  simp only [List.find?_append]
  cases h : List.find? (fun d => d.name == n) w.deps with
  | some d => simp
  | none =>
    simp only [Option.none_or, List.find?_cons, List.find?_nil]
    by_cases hc : cd.name = n
    · simp [hc]
    · have : (cd.name == n) = false := by simpa using hc
      simp [hc, this]

theorem le_foldl_max_name (l : List Dep) (m : Nat) :
    m ≤ l.foldl (fun m d => max m d.name) m ∧ ∀ d ∈ l, d.name ≤ l.foldl (fun m d => max m d.name) m := by
  induction l generalizing m with
  | nil => simp
  | cons x l ih =>
    simp only [List.foldl_cons]
    have h := ih (max m x.name)
    refine ⟨by omega, ?_⟩
    intro d hd
    rcases List.mem_cons.mp hd with rfl | hd
    · omega
    · exact h.2 d hd

theorem name_le_maxName {w : World} {d : Dep} (h : d ∈ w.deps) : d.name ≤ w.maxName :=
  (le_foldl_max_name w.deps 0).2 d h

theorem find_fresh (w : World) : w.find (w.maxName + 1) = none := by
  unfold World.find
  apply List.find?_eq_none.mpr
  intro d hd
  have := name_le_maxName hd
  simp; omega

theorem names_add (w : World) (cd : Dep) : names (w.add cd) = names w ++ [cd.name] := by
  simp [names, World.add]

theorem nodup_add_fresh {w : World} {cd : Dep} (hnd : (names w).Nodup) (hc : cd.name = w.maxName + 1) :
    (names (w.add cd)).Nodup := by
  rw [names_add]
  apply List.nodup_append.mpr
  refine ⟨hnd, by simp, ?_⟩
  intro a ha b hb
  simp only [List.mem_singleton] at hb
  subst hb
  unfold names at ha
  obtain ⟨d, hd, rfl⟩ := List.mem_map.mp ha
  have := name_le_maxName hd
  omega

/-- the per-object effect of removing the finalizer of the object(s) named in `ids` -/
def dropFn (ids : List Nat) (d : Dep) : Option Dep :=
  if d.name ∈ ids then
    (if d.deleting ∧ ¬ d.otherFinalizer then none else some { d with finalizer := false })
  else some d

def dropAll (w : World) (ids : List Nat) : World := { deps := w.deps.filterMap (dropFn ids) }

theorem dropFinalizer_eq (w : World) (id : Nat) : w.dropFinalizer id = dropAll w [id] := by
  unfold World.dropFinalizer dropAll dropFn
  simp

theorem dropFn_name {ids : List Nat} {d d' : Dep} (h : dropFn ids d = some d') : d'.name = d.name := by
  unfold dropFn at h
  split at h
  · split at h
    · cases h
    · cases h; rfl
  · cases h; rfl

theorem dropFn_some {ids : List Nat} {d d' : Dep} (h : dropFn ids d = some d') :
    d' = d ∨ (d.name ∈ ids ∧ d' = { d with finalizer := false }) := by
  unfold dropFn at h
  split at h
  · rename_i hin
    split at h
    · cases h
    · cases h; exact Or.inr ⟨hin, rfl⟩
  · cases h; exact Or.inl rfl

theorem dropFn_none {ids : List Nat} {d : Dep} (h : dropFn ids d = none) :
    d.name ∈ ids ∧ d.deleting = true ∧ d.otherFinalizer = false := by
  unfold dropFn at h
  split at h
  · rename_i hin
    split at h
    · rename_i hc; exact ⟨hin, hc.1, by simpa using hc.2⟩
    · cases h
  · cases h

theorem dropAll_dropAll (w : World) (a b : List Nat) :
    dropAll (dropAll w a) b = dropAll w (a ++ b) := by
  unfold dropAll
  simp only [List.filterMap_filterMap]
  congr 2
  funext d
  unfold dropFn
  cases hd : d.deleting <;> cases ho : d.otherFinalizer <;>
    by_cases h1 : d.name ∈ a <;> by_cases h3 : d.name ∈ b <;> simp [h1, h3, hd, ho]

theorem dropAll_nil (w : World) : dropAll w [] = w := by
  unfold dropAll dropFn
  simp

theorem names_dropAll_sublist (w : World) (ids : List Nat) : (names (dropAll w ids)).Sublist (names w) := by
  unfold names dropAll
  induction w.deps with
  | nil => simp
  | cons x l ih =>
    simp only [List.filterMap_cons]
    cases h : dropFn ids x with
    | none => exact (List.Sublist.cons _ ih)
    | some x' =>
      simp only [List.map_cons, dropFn_name h]
      exact List.Sublist.cons_cons _ ih

theorem nodup_dropAll {w : World} (ids : List Nat) (h : (names w).Nodup) : (names (dropAll w ids)).Nodup :=
  List.Nodup.sublist (names_dropAll_sublist w ids) h

theorem mem_dropAll {w : World} {ids : List Nat} {x : Dep} :
    x ∈ (dropAll w ids).deps ↔ ∃ d ∈ w.deps, dropFn ids d = some x := by
  unfold dropAll
  simp [List.mem_filterMap]

theorem find_dropAll_aux (l : List Dep) (ids : List Nat) (n : Nat) (hnd : (l.map (·.name)).Nodup) :
    (l.filterMap (dropFn ids)).find? (fun x => x.name == n) =
      (l.find? (fun x => x.name == n)).bind (dropFn ids) := by
  induction l with
  | nil => rfl
  | cons x l ih =>
    rw [List.map_cons, List.nodup_cons] at hnd
    by_cases hn : x.name = n
    · -- x is the only object with this name
      have hrest : (l.filterMap (dropFn ids)).find? (fun y => y.name == n) = none := by
        apply List.find?_eq_none.mpr
        intro y hy
        obtain ⟨d, hd, hdy⟩ := List.mem_filterMap.mp hy
        have : y.name = d.name := dropFn_name hdy
        have hdn : d.name ≠ x.name := by
          intro he
          exact hnd.1 (he ▸ List.mem_map_of_mem hd)
        simp; omega
      simp only [List.filterMap_cons, List.find?_cons, hn, beq_self_eq_true, Option.bind_some]
      cases h : dropFn ids x with
      | none => simpa using hrest
      | some x' =>
        have : x'.name = n := by rw [dropFn_name h, hn]
        simp [List.find?_cons, this]
    · have hb : (x.name == n) = false := by simpa using hn
      simp only [List.filterMap_cons, List.find?_cons, hb]
      cases h : dropFn ids x with
      | none => simpa using ih hnd.2
      | some x' =>
        have : (x'.name == n) = false := by rw [dropFn_name h]; exact hb
        simp only [List.find?_cons, this]
        exact ih hnd.2

theorem find_dropAll {w : World} (ids : List Nat) (n : Nat) (hnd : (names w).Nodup) :
    (dropAll w ids).find n = (w.find n).bind (dropFn ids) :=
  find_dropAll_aux w.deps ids n hnd

/-! ## faults: a failed API call is always reported -/

/-- some call of index ≥ the fault index has been made, i.e. some call has failed -/
def faulted (c : Cfg) (n : Nat) : Prop := ∃ k, c.failAt = some k ∧ k < n

theorem tick_fail {c : Cfg} {b : Bool} {n : Nat} (h : (c.tick b n).1 = false) :
    faulted c (c.tick b n).2 → faulted c n := by
  unfold Cfg.tick at h ⊢
  by_cases hb : (b || c.reads) = true
  · simp only [hb, if_true] at h ⊢
    rintro ⟨k, hk, hlt⟩
    simp only [hk] at h
    refine ⟨k, hk, ?_⟩
    have : ¬ k ≤ n := by simpa using h
    omega
  · simp only [hb] at h ⊢
    exact id

theorem buildStable_fault (c : Cfg) (br : BR) (s : S) (h0 : ¬ faulted c s.n) :
    faulted c (buildStable c br s).1.n → (buildStable c br s).2 = .fail .err := by
  unfold buildStable
  split
  · intro h; exact absurd h h0
  · dsimp only
    split
    · intro _; rfl
    · rename_i ht
      have ht' : (c.tick false s.n).1 = false := by simpa using ht
      intro h
      exfalso
      apply h0
      apply tick_fail ht'
      split at h
      · exact h
      · split at h <;> exact h

/-! ## per-function specifications -/

theorem buildStable_spec (c : Cfg) (br : BR) (s : S) :
    (buildStable c br s).1.w = s.w ∧ (buildStable c br s).1.exp = s.exp ∧
    (buildStable c br s).1.canary = s.canary ∧ s.n ≤ (buildStable c br s).1.n ∧
    (∀ d, (buildStable c br s).2 = .ok d → (buildStable c br s).1.stable = some d ∧
        (s.stable = some d ∨ (s.stable = none ∧ s.w.find br.key = some d ∧ d.replicas ≠ none))) ∧
    (∀ x, (buildStable c br s).2 = .fail x → (buildStable c br s).1.stable = none ∧ s.stable = none) ∧
    ((buildStable c br s).2 = .fail .notFound → s.stable = none ∧ s.w.find br.key = none) := by
  unfold buildStable
  split
  · rename_i d hd
    simp [hd]
  · rename_i hs
    dsimp only
    have hn : s.n ≤ (c.tick false s.n).2 := by unfold Cfg.tick; split <;> simp
    split
    · simp [hs, hn]
    · split
      · rename_i hf
        simp [hs, hf, hn]
      · rename_i d hf
        split
        · simp [hs, hn]
        · rename_i r hr
          simp [hs, hf, hr, hn]

theorem buildStable_cached (c : Cfg) (br : BR) (s : S) (d : Dep) (h : s.stable = some d) :
    buildStable c br s = (s, .ok d) := by
  unfold buildStable; simp [h]

/-- the write of `realStableController.Initialize` -/
def setCtrl (x : Dep) : Dep := { x with ctrl := .this }

theorem tick_le (c : Cfg) (b : Bool) (n : Nat) : n ≤ (c.tick b n).2 := by
  unfold Cfg.tick; split <;> simp

theorem stableInitialize_spec (c : Cfg) (br : BR) (s : S) (st : Dep) :
    ((stableInitialize c br s st).1.w = s.w ∨
      ((stableInitialize c br s st).2 = .ok ∧ (stableInitialize c br s st).1.w = s.w.modify br.key setCtrl)) ∧
    (stableInitialize c br s st).1.exp = s.exp ∧ (stableInitialize c br s st).1.stable = s.stable ∧
    (stableInitialize c br s st).1.canary = s.canary ∧ s.n ≤ (stableInitialize c br s st).1.n ∧
    ((stableInitialize c br s st).2 = .ok ∨ (stableInitialize c br s st).2 = .err) := by
  unfold stableInitialize
  split
  · simp
  · dsimp only
    split
    · simp [tick_le]
    · exact ⟨Or.inr ⟨rfl, rfl⟩, rfl, rfl, rfl, tick_le _ _ _, Or.inl rfl⟩

theorem stableInitialize_fault (c : Cfg) (br : BR) (s : S) (st : Dep) (h0 : ¬ faulted c s.n) :
    faulted c (stableInitialize c br s st).1.n → (stableInitialize c br s st).2 = .err := by
  unfold stableInitialize
  split
  · intro h; exact absurd h h0
  · dsimp only
    split
    · intro _; rfl
    · rename_i ht
      intro h
      exact absurd (tick_fail (by simpa using ht) h) h0

theorem listOwned_spec (c : Cfg) (s : S) :
    (listOwned c s).1.w = s.w ∧ (listOwned c s).1.exp = s.exp ∧ (listOwned c s).1.stable = s.stable ∧
    (listOwned c s).1.canary = s.canary ∧ s.n ≤ (listOwned c s).1.n ∧
    (∀ ds, (listOwned c s).2 = some ds → ds = s.w.deps.filter (fun d => d.owner = .this)) := by
  unfold listOwned
  dsimp only
  split <;> simp [tick_le]

theorem listOwned_fault (c : Cfg) (s : S) (h0 : ¬ faulted c s.n) :
    faulted c (listOwned c s).1.n → (listOwned c s).2 = none := by
  unfold listOwned
  dsimp only
  split
  · intro _; rfl
  · rename_i ht
    intro h
    exact absurd (tick_fail (by simpa using ht) h) h0

/-- what `listDeployment` returns -/
def ownedDeps (w : World) : List Dep := w.deps.filter (fun d => d.owner = .this)

theorem buildCanary_spec (c : Cfg) (br : BR) (s : S) (hc : s.canary = none) :
    (buildCanary c br s).1.w = s.w ∧ (buildCanary c br s).1.exp = s.exp ∧ s.n ≤ (buildCanary c br s).1.n ∧
    (∀ d0, s.stable = some d0 → (buildCanary c br s).1.stable = some d0) ∧
    (∀ d, (buildCanary c br s).2 = .ok d → (buildCanary c br s).1.canary = some d ∧ d.replicas ≠ none ∧
        filterCanary br (filterActive (ownedDeps s.w)) ((buildCanary c br s).1.stable.map (·.template)) = some d) ∧
    ((buildCanary c br s).2 = .fail .notFound → (buildCanary c br s).1.canary = none ∧
        filterCanary br (filterActive (ownedDeps s.w)) ((buildCanary c br s).1.stable.map (·.template)) = none) ∧
    (∀ x, (buildCanary c br s).2 = .fail x → (buildCanary c br s).1.canary = none) := by
  unfold buildCanary
  simp only [hc]
  have hl := listOwned_spec c s
  generalize listOwned c s = lo at hl ⊢
  obtain ⟨⟨w1, n1, e1, st1, ca1⟩, ods⟩ := lo
  simp only at hl
  obtain ⟨hw1, he1, hst1, hca1, hn1, hds⟩ := hl
  subst hw1 he1 hst1 hca1
  cases ods with
  | none => simp [hn1, hc]
  | some ds =>
    have hds' := hds ds rfl
    subst hds'
    dsimp only
    have hb := buildStable_spec c br ⟨s.w, n1, s.exp, s.stable, s.canary⟩
    generalize buildStable c br ⟨s.w, n1, s.exp, s.stable, s.canary⟩ = bs at hb ⊢
    obtain ⟨⟨w2, n2, e2, st2, ca2⟩, o⟩ := bs
    simp only at hb
    obtain ⟨hw2, he2, hca2, hn2, hok, hfail, hnf⟩ := hb
    subst hw2 he2 hca2
    have hn : s.n ≤ n2 := by omega
    cases o with
    | fail x =>
      obtain ⟨h1, h2⟩ := hfail x rfl
      subst h1
      cases x
      case err => simp [hn, hc, h2]
      case panic => simp [hn, hc, h2]
      all_goals
        dsimp only
        unfold pickCanary
        split
        · rename_i hfc
          simp [hn, hc, h2, ownedDeps, hfc]
        · rename_i d hfc
          split
          · simp [hn, hc, h2]
          · rename_i r hr
            simp [hn, h2, ownedDeps, hfc, hr]
    | ok st =>
      obtain ⟨h1, h2⟩ := hok st rfl
      subst h1
      have hst : ∀ d0, s.stable = some d0 → st = d0 := by
        intro d0 h0
        rcases h2 with h2 | ⟨h2, _⟩
        · rw [h0] at h2; cases h2; rfl
        · rw [h0] at h2; cases h2
      dsimp only
      unfold pickCanary
      split
      · rename_i hfc
        simp [hn, hc, ownedDeps, hfc]
        intro d0 h0; exact (hst d0 h0)
      · rename_i d hfc
        split
        · simp [hn, hc]
          intro d0 h0; exact (hst d0 h0)
        · rename_i r hr
          simp [hn, ownedDeps, hfc, hr]
          intro d0 h0; exact (hst d0 h0)

theorem buildCanary_fault (c : Cfg) (br : BR) (s : S) (h0 : ¬ faulted c s.n) :
    faulted c (buildCanary c br s).1.n → (buildCanary c br s).2 = .fail .err := by
  unfold buildCanary
  split
  · intro h; exact absurd h h0
  · have hl := listOwned_fault c s h0
    have hl2 := listOwned_spec c s
    generalize listOwned c s = lo at hl hl2 ⊢
    obtain ⟨s1, ods⟩ := lo
    cases ods with
    | none => intro _; rfl
    | some ds =>
      dsimp only at hl ⊢
      have h1 : ¬ faulted c s1.n := fun h => by cases hl h
      have hb := buildStable_fault c br s1 h1
      generalize buildStable c br s1 = bs at hb ⊢
      obtain ⟨s2, o⟩ := bs
      dsimp only at hb
      intro h
      have hf : faulted c s2.n := by
        revert h
        cases o with
        | fail x => cases x <;> dsimp only <;> (try exact id) <;> (unfold pickCanary; split <;> (try exact id) <;> split <;> exact id)
        | ok st => dsimp only; unfold pickCanary; split <;> (try exact id) <;> split <;> exact id
      have := hb hf
      subst this
      rfl

theorem canaryCreate_spec (c : Cfg) (br : BR) (s : S) :
    (canaryCreate c br s).1.stable = s.stable ∧ (canaryCreate c br s).1.canary = s.canary ∧ s.n ≤ (canaryCreate c br s).1.n ∧
    ((canaryCreate c br s).2 = .ok → s.canary ≠ none ∧ (canaryCreate c br s).1 = s) ∧
    ((canaryCreate c br s).1.w = s.w ∨
      (∃ st cd, s.canary = none ∧ s.w.find br.key = some st ∧ newCanary br st s.w = some cd ∧
        (canaryCreate c br s).1.w = s.w.add cd ∧ (canaryCreate c br s).2 = .err)) := by
  unfold canaryCreate
  split
  · rename_i d hd; simp [hd]
  · rename_i hd
    split
    · simp
    · dsimp only
      split
      · simp [tick_le]
      · split
        · simp [tick_le]
        · rename_i st hst
          split
          · simp [tick_le]
          · rename_i cd hcd
            split
            · simp; exact Nat.le_trans (tick_le _ _ _) (tick_le _ _ _)
            · refine ⟨rfl, rfl, Nat.le_trans (tick_le _ _ _) (tick_le _ _ _), by simp, Or.inr ⟨st, cd, hd, hst, hcd, rfl, rfl⟩⟩

theorem canaryCreate_fault (c : Cfg) (br : BR) (s : S) (h0 : ¬ faulted c s.n) :
    faulted c (canaryCreate c br s).1.n → (canaryCreate c br s).2 = .err := by
  unfold canaryCreate
  split
  · intro h; exact absurd h h0
  · split
    · intro _; rfl
    · dsimp only
      split
      · intro _; rfl
      · rename_i ht
        have h1 : ¬ faulted c (c.tick false s.n).2 := fun h => h0 (tick_fail (by simpa using ht) h)
        split
        · intro h; exact absurd h h1
        · split
          · intro h; exact absurd h h1
          · split
            · intro _; rfl
            · intro _; rfl

/-- the write of `realCanaryController.UpgradeBatch` -/
def setReplicas (t : Int) (x : Dep) : Dep := { x with replicas := some t, generation := x.generation + 1 }

theorem canaryUpgrade_spec (c : Cfg) (s : S) (cd : Dep) (cur desired : Int) :
    ((canaryUpgrade c s cd cur desired).1.w = s.w ∧
        ((canaryUpgrade c s cd cur desired).2 = .ok → desired ≤ cur)) ∨
      (cur < desired ∧ (canaryUpgrade c s cd cur desired).2 = .ok ∧
        (canaryUpgrade c s cd cur desired).1.w = s.w.modify cd.name (setReplicas desired)) := by
  unfold canaryUpgrade
  split
  · left; exact ⟨rfl, fun _ => by omega⟩
  · dsimp only
    split
    · left; simp
    · right; exact ⟨by omega, rfl, rfl⟩

theorem canaryUpgrade_misc (c : Cfg) (s : S) (cd : Dep) (cur desired : Int) :
    (canaryUpgrade c s cd cur desired).1.exp = s.exp ∧ s.n ≤ (canaryUpgrade c s cd cur desired).1.n ∧
    ((canaryUpgrade c s cd cur desired).2 = .ok ∨ (canaryUpgrade c s cd cur desired).2 = .err) := by
  unfold canaryUpgrade
  split
  · simp
  · dsimp only
    split <;> simp [tick_le]

theorem canaryUpgrade_fault (c : Cfg) (s : S) (cd : Dep) (cur desired : Int) (h0 : ¬ faulted c s.n) :
    faulted c (canaryUpgrade c s cd cur desired).1.n → (canaryUpgrade c s cd cur desired).2 = .err := by
  unfold canaryUpgrade
  split
  · intro h; exact absurd h h0
  · dsimp only
    split
    · intro _; rfl
    · rename_i ht
      intro h; exact absurd (tick_fail (by simpa using ht) h) h0

theorem removeFinalizer_spec (c : Cfg) (s : S) (id : Nat) :
    (removeFinalizer c s id).1.exp = s.exp ∧ (removeFinalizer c s id).1.stable = s.stable ∧
    (removeFinalizer c s id).1.canary = s.canary ∧ s.n ≤ (removeFinalizer c s id).1.n ∧
    (((removeFinalizer c s id).1.w = s.w ∧
        ((removeFinalizer c s id).2 = .ok → ∃ d, s.w.find id = some d ∧ d.finalizer = false) ∧
        ((removeFinalizer c s id).2 = .notFound → s.w.find id = none) ∧
        (removeFinalizer c s id).2 ≠ .panic) ∨
      ((removeFinalizer c s id).2 = .ok ∧ (removeFinalizer c s id).1.w = dropAll s.w [id])) := by
  unfold removeFinalizer
  dsimp only
  split
  · simp [tick_le]
  · split
    · rename_i hf; simp [tick_le, hf]
    · rename_i d hf
      split
      · rename_i hfin
        simp [tick_le, hf]
        exact Or.inl (by simpa using hfin)
      · split
        · simp; exact Nat.le_trans (tick_le _ _ _) (tick_le _ _ _)
        · refine ⟨rfl, rfl, rfl, Nat.le_trans (tick_le _ _ _) (tick_le _ _ _), Or.inr ⟨rfl, ?_⟩⟩
          exact dropFinalizer_eq _ _

theorem removeFinalizer_fault (c : Cfg) (s : S) (id : Nat) (h0 : ¬ faulted c s.n) :
    faulted c (removeFinalizer c s id).1.n → (removeFinalizer c s id).2 = .err := by
  unfold removeFinalizer
  dsimp only
  split
  · intro _; rfl
  · rename_i ht
    have h1 : ¬ faulted c (c.tick false s.n).2 := fun h => h0 (tick_fail (by simpa using ht) h)
    split
    · intro h; exact absurd h h1
    · split
      · intro h; exact absurd h h1
      · split
        · intro _; rfl
        · rename_i ht2
          intro h; exact absurd (tick_fail (by simpa using ht2) h) h1

theorem deleteLoop_misc (c : Cfg) (ds : List Dep) (s : S) :
    (deleteLoop c ds s).1.exp = s.exp ∧ s.n ≤ (deleteLoop c ds s).1.n ∧ (deleteLoop c ds s).2 ≠ .panic ∧
    ∃ ids, (deleteLoop c ds s).1.w = dropAll s.w ids ∧ ∀ id ∈ ids, ∃ d ∈ ds, d.finalizer = true ∧ d.name = id := by
  induction ds generalizing s with
  | nil => exact ⟨rfl, Nat.le_refl _, by simp [deleteLoop], [], by simp [deleteLoop, dropAll_nil], by simp⟩
  | cons d ds ih =>
    unfold deleteLoop
    split
    · obtain ⟨h1, h2, h3, ids, h4, h5⟩ := ih s
      exact ⟨h1, h2, h3, ids, h4, fun id hid => by
        obtain ⟨d', hd', h⟩ := h5 id hid
        exact ⟨d', List.mem_cons_of_mem _ hd', h⟩⟩
    · rename_i hfin
      have hfin' : d.finalizer = true := by simpa using hfin
      have hr := removeFinalizer_spec c s d.name
      generalize removeFinalizer c s d.name = rf at hr ⊢
      obtain ⟨s1, r⟩ := rf
      simp only at hr
      obtain ⟨he, _, _, hn, hw⟩ := hr
      have lift : ∀ ids : List Nat, (∀ id ∈ ids, ∃ d' ∈ ds, d'.finalizer = true ∧ d'.name = id) →
          ∀ id ∈ ids, ∃ d' ∈ d :: ds, d'.finalizer = true ∧ d'.name = id := fun ids h id hid => by
        obtain ⟨d', hd', h⟩ := h id hid
        exact ⟨d', List.mem_cons_of_mem _ hd', h⟩
      obtain ⟨h1, h2, h3, ids, h4, h5⟩ := ih s1
      rcases hw with ⟨hw, _, _, hnp⟩ | ⟨hok, hw⟩
      · cases r
        case ok => dsimp only; exact ⟨by rw [h1, he], by omega, h3, ids, by rw [h4, hw], lift ids h5⟩
        case notFound => dsimp only; exact ⟨by rw [h1, he], by omega, h3, ids, by rw [h4, hw], lift ids h5⟩
        case err => dsimp only; exact ⟨he, hn, by simp, [], by simp [hw, dropAll_nil], by simp⟩
        case panic => exact absurd rfl hnp
      · subst hok
        dsimp only
        refine ⟨by rw [h1, he], by omega, h3, d.name :: ids, ?_, ?_⟩
        · rw [h4, hw, dropAll_dropAll]; rfl
        · intro id hid
          rcases List.mem_cons.mp hid with rfl | hid
          · exact ⟨d, List.mem_cons_self, hfin', rfl⟩
          · exact lift ids h5 id hid

theorem mem_dropAll_fin {w : World} {ids : List Nat} {x : Dep} (hx : x ∈ (dropAll w ids).deps)
    (hf : x.finalizer = true) : x ∈ w.deps ∧ x.name ∉ ids := by
  obtain ⟨d, hd, hdx⟩ := mem_dropAll.mp hx
  unfold dropFn at hdx
  split at hdx
  · split at hdx
    · cases hdx
    · cases hdx; simp at hf
  · rename_i hn
    cases hdx; exact ⟨hd, hn⟩

/-- the loop of `Delete` returning no error means: of the listed Deployments none keeps the finalizer -/
theorem deleteLoop_ok_gone (c : Cfg) (ds : List Dep) (s s' : S) (hnd : (names s.w).Nodup)
    (h : deleteLoop c ds s = (s', .ok)) :
    ∀ x ∈ s'.w.deps, x.finalizer = true → x ∈ s.w.deps ∧ ∀ d ∈ ds, d.finalizer = true → d.name ≠ x.name := by
  induction ds generalizing s with
  | nil =>
    simp only [deleteLoop, Prod.mk.injEq] at h
    obtain ⟨rfl, _⟩ := h
    intro x hx _
    exact ⟨hx, by simp⟩
  | cons d ds ih =>
    unfold deleteLoop at h
    split at h
    · rename_i hfin
      intro x hx hxf
      obtain ⟨h1, h2⟩ := ih s hnd h x hx hxf
      refine ⟨h1, ?_⟩
      intro d' hd' hf'
      rcases List.mem_cons.mp hd' with rfl | hd'
      · simp [hf'] at hfin
      · exact h2 d' hd' hf'
    · have hr := removeFinalizer_spec c s d.name
      generalize removeFinalizer c s d.name = rf at hr h
      obtain ⟨s1, r⟩ := rf
      simp only at hr
      obtain ⟨_, _, _, _, hw⟩ := hr
      rcases hw with ⟨hw, hok, hnf, _⟩ | ⟨hok, hw⟩
      · have hnd1 : (names s1.w).Nodup := by rw [hw]; exact hnd
        have key : ∀ x ∈ s.w.deps, x.finalizer = true → (r = .ok ∨ r = .notFound) → d.name ≠ x.name := by
          intro x hx hxf hr' hne
          rcases hr' with rfl | rfl
          · obtain ⟨d0, hd0, hd0f⟩ := hok rfl
            have := find_of_mem hnd hx
            rw [← hne, hd0] at this
            cases this
            rw [hd0f] at hxf; cases hxf
          · have := find_none (hnf rfl) x hx
            exact this hne.symm
        cases r
        case ok =>
          dsimp only at h
          intro x hx hxf
          obtain ⟨h1, h2⟩ := ih s1 hnd1 h x hx hxf
          rw [hw] at h1
          refine ⟨h1, ?_⟩
          intro d' hd' hf'
          rcases List.mem_cons.mp hd' with rfl | hd'
          · exact key x h1 hxf (Or.inl rfl)
          · exact h2 d' hd' hf'
        case notFound =>
          dsimp only at h
          intro x hx hxf
          obtain ⟨h1, h2⟩ := ih s1 hnd1 h x hx hxf
          rw [hw] at h1
          refine ⟨h1, ?_⟩
          intro d' hd' hf'
          rcases List.mem_cons.mp hd' with rfl | hd'
          · exact key x h1 hxf (Or.inr rfl)
          · exact h2 d' hd' hf'
        case err => simp at h
        case panic => simp at h
      · subst hok
        dsimp only at h
        have hnd1 : (names s1.w).Nodup := by rw [hw]; exact nodup_dropAll _ hnd
        intro x hx hxf
        obtain ⟨h1, h2⟩ := ih s1 hnd1 h x hx hxf
        rw [hw] at h1
        obtain ⟨h3, h4⟩ := mem_dropAll_fin h1 hxf
        refine ⟨h3, ?_⟩
        intro d' hd' hf'
        rcases List.mem_cons.mp hd' with rfl | hd'
        · intro he; exact h4 (by simp [he])
        · exact h2 d' hd' hf'

theorem deleteLoop_fault (c : Cfg) (ds : List Dep) (s : S) (h0 : ¬ faulted c s.n) :
    faulted c (deleteLoop c ds s).1.n → (deleteLoop c ds s).2 = .err := by
  induction ds generalizing s with
  | nil => intro h; exact absurd h h0
  | cons d ds ih =>
    unfold deleteLoop
    split
    · exact ih s h0
    · have hr := removeFinalizer_fault c s d.name h0
      generalize removeFinalizer c s d.name = rf at hr ⊢
      obtain ⟨s1, r⟩ := rf
      dsimp only at hr
      cases r
      case ok => dsimp only; exact ih s1 (fun h => by cases hr h)
      case notFound => dsimp only; exact ih s1 (fun h => by cases hr h)
      case err => dsimp only; intro _; rfl
      case panic => dsimp only; intro h; cases hr h

theorem stableFinalize_spec (c : Cfg) (br : BR) (s : S) :
    (stableFinalize c br s).1.exp = s.exp ∧ (stableFinalize c br s).1.stable = s.stable ∧
    (stableFinalize c br s).1.canary = s.canary ∧ s.n ≤ (stableFinalize c br s).1.n ∧
    (((stableFinalize c br s).1.w = s.w ∧ ((stableFinalize c br s).2 = .ok → s.stable = none)) ∨
      (s.stable ≠ none ∧ (stableFinalize c br s).1.w = s.w.modify br.key (releaseStable br.partition.isSome))) := by
  unfold stableFinalize
  split
  · rename_i h; simp [h]
  · rename_i d h
    dsimp only
    split
    · simp [tick_le, h]
    · split
      · split
        · exact ⟨rfl, rfl, rfl, tick_le _ _ _, Or.inr ⟨by simp [h], rfl⟩⟩
        · exact ⟨rfl, rfl, rfl, tick_le _ _ _, Or.inr ⟨by simp [h], rfl⟩⟩
      · exact ⟨rfl, rfl, rfl, tick_le _ _ _, Or.inr ⟨by simp [h], rfl⟩⟩

theorem stableFinalize_fault (c : Cfg) (br : BR) (s : S) (h0 : ¬ faulted c s.n) :
    faulted c (stableFinalize c br s).1.n → (stableFinalize c br s).2 = .err := by
  unfold stableFinalize
  split
  · intro h; exact absurd h h0
  · dsimp only
    split
    · intro _; rfl
    · rename_i ht
      have h1 : ¬ faulted c (c.tick true s.n).2 := fun h => h0 (tick_fail (by simpa using ht) h)
      split
      · split <;> (intro h; exact absurd h h1)
      · intro h; exact absurd h h1

theorem canaryDelete_fault (c : Cfg) (s : S) (h0 : ¬ faulted c s.n) :
    faulted c (canaryDelete c s).1.n → (canaryDelete c s).2 = .err := by
  unfold canaryDelete
  have hl := listOwned_fault c s h0
  generalize listOwned c s = lo at hl ⊢
  obtain ⟨s1, ods⟩ := lo
  cases ods with
  | none => intro _; rfl
  | some ds =>
    dsimp only at hl ⊢
    exact deleteLoop_fault c ds s1 (fun h => by cases hl h)

/-! ## plane level: a failed call is reported -/

theorem initTail_fault (c : Cfg) (br : BR) (s : S) (st : Dep) (h0 : ¬ faulted c s.n) :
    faulted c (initTail c br s st).1.n → (initTail c br s st).2.1 = .err := by
  unfold initTail
  have hcc := canaryCreate_fault c br s h0
  generalize canaryCreate c br s = r4 at hcc ⊢
  obtain ⟨s4, o4⟩ := r4
  dsimp only at hcc
  cases o4 <;> dsimp only
  case ok => split <;> (intro h; cases hcc h)
  all_goals exact hcc

theorem planeInitialize_fault (c : Cfg) (br : BR) (s : S) (h0 : ¬ faulted c s.n) :
    faulted c (planeInitialize c br s).1.n → (planeInitialize c br s).2.1 = .err := by
  unfold planeInitialize
  have hb := buildStable_fault c br s h0
  generalize buildStable c br s = r1 at hb ⊢
  obtain ⟨s1, o1⟩ := r1
  cases o1 with
  | fail r => dsimp only at hb ⊢; intro h; cases hb h; rfl
  | ok st =>
    dsimp only at hb ⊢
    have h1 : ¬ faulted c s1.n := fun h => by cases hb h
    have hi := stableInitialize_fault c br s1 st h1
    generalize stableInitialize c br s1 st = r2 at hi ⊢
    obtain ⟨s2, o2⟩ := r2
    dsimp only at hi
    cases o2
    case err => dsimp only; intro _; rfl
    case notFound => dsimp only; intro h; cases hi h
    case panic => dsimp only; intro h; cases hi h
    case ok =>
      dsimp only
      have h2 : ¬ faulted c s2.n := fun h => by cases hi h
      have hc := buildCanary_fault c br s2 h2
      generalize buildCanary c br s2 = r3 at hc ⊢
      obtain ⟨s3, o3⟩ := r3
      dsimp only at hc
      cases o3 with
      | ok cd => dsimp only; exact initTail_fault c br s3 st (fun h => by cases hc h)
      | fail x =>
        cases x
        case err => dsimp only; intro _; rfl
        case panic => dsimp only; intro h; cases hc h
        all_goals (dsimp only; exact initTail_fault c br s3 st (fun h => by cases hc h))

theorem batchPrefix_fault (c : Cfg) (br : BR) (s : S) (h0 : ¬ faulted c s.n) :
    faulted c (batchPrefix c br s).1.n → (batchPrefix c br s).2 = .fail .err := by
  unfold batchPrefix
  have hb := buildStable_fault c br s h0
  generalize buildStable c br s = r1 at hb ⊢
  obtain ⟨s1, o1⟩ := r1
  cases o1 with
  | fail r => dsimp only at hb ⊢; intro h; cases hb h; rfl
  | ok st =>
    dsimp only at hb ⊢
    have h1 : ¬ faulted c s1.n := fun h => by cases hb h
    split
    · intro h; exact absurd h h1
    · split
      · intro h; exact absurd h h1
      · have hc := buildCanary_fault c br s1 h1
        generalize buildCanary c br s1 = r3 at hc ⊢
        obtain ⟨s3, o3⟩ := r3
        dsimp only at hc
        cases o3 with
        | fail r => dsimp only; intro h; cases hc h; rfl
        | ok cd =>
          dsimp only
          have h3 : ¬ faulted c s3.n := fun h => by cases hc h
          split
          · intro h; exact absurd h h3
          · cases hrid : br.rolloutID
            · simp only [Bool.false_eq_true, if_false]
              split <;> (intro h; exact absurd h h3)
            · simp only [if_true]
              split
              · intro _; rfl
              · rename_i ht
                have h4 : ¬ faulted c (c.tick false s3.n).2 := fun h => h3 (tick_fail (by simpa using ht) h)
                split <;> (intro h; exact absurd h h4)

theorem planeUpgradeBatch_fault (c : Cfg) (br : BR) (s : S) (h0 : ¬ faulted c s.n) :
    faulted c (planeUpgradeBatch c br s).1.n → (planeUpgradeBatch c br s).2 = .err := by
  unfold planeUpgradeBatch
  have hb := batchPrefix_fault c br s h0
  generalize batchPrefix c br s = r1 at hb ⊢
  obtain ⟨s1, o1⟩ := r1
  cases o1 with
  | fail r => dsimp only at hb ⊢; intro h; cases hb h; rfl
  | ok x =>
    obtain ⟨cd, R, desired⟩ := x
    dsimp only at hb ⊢
    have h1 : ¬ faulted c s1.n := fun h => by cases hb h
    split
    · intro h; exact absurd h h1
    · exact canaryUpgrade_fault c s1 cd _ desired h1

theorem planeEnsureReady_fault (c : Cfg) (br : BR) (s : S) (h0 : ¬ faulted c s.n) :
    faulted c (planeEnsureReady c br s).1.n → (planeEnsureReady c br s).2 = .err := by
  unfold planeEnsureReady
  have hb := batchPrefix_fault c br s h0
  generalize batchPrefix c br s = r1 at hb ⊢
  obtain ⟨s1, o1⟩ := r1
  cases o1 with
  | fail r => dsimp only at hb ⊢; intro h; cases hb h; rfl
  | ok x =>
    obtain ⟨cd, R, desired⟩ := x
    dsimp only at hb ⊢
    intro h; cases hb h

theorem finTail_fault (c : Cfg) (br : BR) (s1 : S) (h1 : ¬ faulted c s1.n) :
    faulted c (finTail c br s1).1.n → (finTail c br s1).2 = .err := by
  unfold finTail
  have hf := stableFinalize_fault c br s1 h1
  generalize stableFinalize c br s1 = r2 at hf ⊢
  obtain ⟨s2, o2⟩ := r2
  dsimp only at hf
  cases o2
  case err => dsimp only; intro _; rfl
  case notFound => dsimp only; exact hf
  case panic => dsimp only; exact hf
  case ok =>
    dsimp only
    have h2 : ¬ faulted c s2.n := fun h => by cases hf h
    have hc := buildCanary_fault c br s2 h2
    generalize buildCanary c br s2 = r3 at hc ⊢
    obtain ⟨s3, o3⟩ := r3
    dsimp only at hc
    cases o3 with
    | ok cd => dsimp only; exact canaryDelete_fault c s3 (fun h => by cases hc h)
    | fail x =>
      cases x
      case err => dsimp only; intro _; rfl
      case panic => dsimp only; intro h; cases hc h
      all_goals (dsimp only; exact canaryDelete_fault c s3 (fun h => by cases hc h))

theorem planeFinalize_fault (c : Cfg) (br : BR) (s : S) (h0 : ¬ faulted c s.n) :
    faulted c (planeFinalize c br s).1.n → (planeFinalize c br s).2 = .err := by
  unfold planeFinalize
  have hb := buildStable_fault c br s h0
  generalize buildStable c br s = r1 at hb ⊢
  obtain ⟨s1, o1⟩ := r1
  dsimp only at hb
  cases o1 with
  | ok st => dsimp only; exact finTail_fault c br s1 (fun h => by cases hb h)
  | fail x =>
    cases x
    case err => dsimp only; intro _; rfl
    case panic => dsimp only; intro h; cases hb h
    all_goals (dsimp only; exact finTail_fault c br s1 (fun h => by cases hb h))

/-! ## plane level: what the calls do to the world -/

theorem canaryDelete_spec (c : Cfg) (s : S) :
    (canaryDelete c s).1.exp = s.exp ∧ (canaryDelete c s).2 ≠ .panic ∧
    (∃ ids, (canaryDelete c s).1.w = dropAll s.w ids ∧
        ∀ id ∈ ids, ∃ d ∈ ownedDeps s.w, d.finalizer = true ∧ d.name = id) ∧
    (∀ s', canaryDelete c s = (s', .ok) → ∃ s1, s1.w = s.w ∧ deleteLoop c (ownedDeps s.w) s1 = (s', .ok)) := by
  unfold canaryDelete
  have hl := listOwned_spec c s
  generalize listOwned c s = lo at hl ⊢
  obtain ⟨s1, ods⟩ := lo
  simp only at hl
  obtain ⟨hw1, he1, _, _, _, hds⟩ := hl
  cases ods with
  | none =>
    dsimp only
    exact ⟨he1, by simp, ⟨[], by simp [dropAll_nil, hw1], by simp⟩, by intro s' h; simp at h⟩
  | some ds =>
    have := hds ds rfl
    subst this
    dsimp only
    obtain ⟨h1, _, h3, ids, h4, h5⟩ := deleteLoop_misc c (s.w.deps.filter (fun d => d.owner = .this)) s1
    refine ⟨by rw [h1, he1], h3, ⟨ids, by rw [h4, hw1], h5⟩, ?_⟩
    intro s' h
    exact ⟨s1, hw1, h⟩

theorem finTail_spec (c : Cfg) (br : BR) (s : S) (hcan : s.canary = none) :
    ∃ w1 ids, ((w1 = s.w ∧ ((finTail c br s).2 = .ok → s.stable = none)) ∨
               (s.stable ≠ none ∧ w1 = s.w.modify br.key (releaseStable br.partition.isSome))) ∧
      (finTail c br s).1.w = dropAll w1 ids ∧
      (∀ id ∈ ids, ∃ d ∈ ownedDeps w1, d.finalizer = true ∧ d.name = id) ∧
      (finTail c br s).1.exp = s.exp ∧
      (∀ s', finTail c br s = (s', .ok) → ∃ s3, s3.w = w1 ∧ deleteLoop c (ownedDeps w1) s3 = (s', .ok)) := by
  unfold finTail
  have hf := stableFinalize_spec c br s
  generalize stableFinalize c br s = r2 at hf ⊢
  obtain ⟨s2, o2⟩ := r2
  simp only at hf
  obtain ⟨he2, hst2, hca2, _, hw2⟩ := hf
  -- the world after `stable.Finalize`
  have hw1 : (s2.w = s.w ∧ (o2 = .ok → s.stable = none)) ∨
             (s.stable ≠ none ∧ s2.w = s.w.modify br.key (releaseStable br.partition.isSome)) := hw2
  have stop : ∀ r : Res, r ≠ .ok → ∃ w1 ids, ((w1 = s.w ∧ (r = .ok → s.stable = none)) ∨
               (s.stable ≠ none ∧ w1 = s.w.modify br.key (releaseStable br.partition.isSome))) ∧
      s2.w = dropAll w1 ids ∧ (∀ id ∈ ids, ∃ d ∈ ownedDeps w1, d.finalizer = true ∧ d.name = id) ∧
      s2.exp = s.exp ∧ (∀ s', (s2, r) = (s', Res.ok) → ∃ s3, s3.w = w1 ∧ deleteLoop c (ownedDeps w1) s3 = (s', .ok)) := by
    intro r hr
    refine ⟨s2.w, [], ?_, by simp [dropAll_nil], by simp, he2, ?_⟩
    · rcases hw1 with ⟨h, _⟩ | ⟨h1, h2⟩
      · exact Or.inl ⟨h, fun h' => absurd h' hr⟩
      · exact Or.inr ⟨h1, h2⟩
    · intro s' h; simp only [Prod.mk.injEq] at h; exact absurd h.2 hr
  cases o2
  case err => dsimp only; exact stop .err (by simp)
  case notFound => dsimp only; exact stop .notFound (by simp)
  case panic => dsimp only; exact stop .panic (by simp)
  case ok =>
    dsimp only
    have hcan2 : s2.canary = none := by rw [hca2, hcan]
    have hc := buildCanary_spec c br s2 hcan2
    generalize buildCanary c br s2 = r3 at hc ⊢
    obtain ⟨s3, o3⟩ := r3
    simp only at hc
    obtain ⟨hw3, he3, _, _, _, _, _⟩ := hc
    have hw1' : (s2.w = s.w ∧ s.stable = none) ∨
             (s.stable ≠ none ∧ s2.w = s.w.modify br.key (releaseStable br.partition.isSome)) := by
      rcases hw1 with ⟨h, h'⟩ | h
      · exact Or.inl ⟨h, h' rfl⟩
      · exact Or.inr h
    have stop3 : ∀ r : Res, r ≠ .ok → ∃ w1 ids, ((w1 = s.w ∧ (r = .ok → s.stable = none)) ∨
               (s.stable ≠ none ∧ w1 = s.w.modify br.key (releaseStable br.partition.isSome))) ∧
        s3.w = dropAll w1 ids ∧ (∀ id ∈ ids, ∃ d ∈ ownedDeps w1, d.finalizer = true ∧ d.name = id) ∧
        s3.exp = s.exp ∧ (∀ s', (s3, r) = (s', Res.ok) → ∃ s3', s3'.w = w1 ∧ deleteLoop c (ownedDeps w1) s3' = (s', .ok)) := by
      intro r hr
      refine ⟨s2.w, [], ?_, by simp [dropAll_nil, hw3], by simp, by rw [he3, he2], ?_⟩
      · rcases hw1' with ⟨h, _⟩ | ⟨h1, h2⟩
        · exact Or.inl ⟨h, fun h' => absurd h' hr⟩
        · exact Or.inr ⟨h1, h2⟩
      · intro s' h; simp only [Prod.mk.injEq] at h; exact absurd h.2 hr
    have go : ∃ w1 ids, ((w1 = s.w ∧ ((canaryDelete c s3).2 = .ok → s.stable = none)) ∨
               (s.stable ≠ none ∧ w1 = s.w.modify br.key (releaseStable br.partition.isSome))) ∧
        (canaryDelete c s3).1.w = dropAll w1 ids ∧ (∀ id ∈ ids, ∃ d ∈ ownedDeps w1, d.finalizer = true ∧ d.name = id) ∧
        (canaryDelete c s3).1.exp = s.exp ∧
        (∀ s', canaryDelete c s3 = (s', .ok) → ∃ s3', s3'.w = w1 ∧ deleteLoop c (ownedDeps w1) s3' = (s', .ok)) := by
      obtain ⟨hd1, _, ⟨ids, hd3, hd4⟩, hd5⟩ := canaryDelete_spec c s3
      refine ⟨s2.w, ids, ?_, by rw [hd3, hw3], by rw [← hw3]; exact hd4, by rw [hd1, he3, he2], ?_⟩
      · rcases hw1' with ⟨h, h'⟩ | ⟨h1, h2⟩
        · exact Or.inl ⟨h, fun _ => h'⟩
        · exact Or.inr ⟨h1, h2⟩
      · intro s' h
        obtain ⟨s1, h1, h2⟩ := hd5 s' h
        exact ⟨s1, by rw [h1, hw3], by rw [← hw3]; exact h2⟩
    cases o3 with
    | ok cd => dsimp only; exact go
    | fail x =>
      cases x
      case err => dsimp only; exact stop3 .err (by simp)
      case panic => dsimp only; exact stop3 .panic (by simp)
      all_goals (dsimp only; exact go)

theorem buildStable_not_failok (c : Cfg) (br : BR) (s : S) : (buildStable c br s).2 ≠ .fail .ok := by
  unfold buildStable
  split
  · simp
  · dsimp only
    split
    · simp
    · split
      · simp
      · split <;> simp

/-- the plane object at the start of a call -/
def S0 (w : World) (exp : Exp) : S := { w := w, n := 0, exp := exp, stable := none, canary := none }

theorem planeFinalize_spec (c : Cfg) (br : BR) (w : World) (exp : Exp) :
    ∃ w1 ids, ((w1 = w ∧ ((planeFinalize c br (S0 w exp)).2 = .ok → w.find br.key = none)) ∨
               ((w.find br.key).isSome ∧ w1 = w.modify br.key (releaseStable br.partition.isSome))) ∧
      (planeFinalize c br (S0 w exp)).1.w = dropAll w1 ids ∧
      (∀ id ∈ ids, ∃ d ∈ ownedDeps w1, d.finalizer = true ∧ d.name = id) ∧
      (planeFinalize c br (S0 w exp)).1.exp = exp ∧
      (∀ s', planeFinalize c br (S0 w exp) = (s', .ok) →
          ∃ s3, s3.w = w1 ∧ deleteLoop c (ownedDeps w1) s3 = (s', .ok)) := by
  unfold planeFinalize
  have hb := buildStable_spec c br (S0 w exp)
  have hno := buildStable_not_failok c br (S0 w exp)
  generalize buildStable c br (S0 w exp) = r1 at hb hno ⊢
  obtain ⟨s1, o1⟩ := r1
  simp only [S0] at hb hno
  obtain ⟨hw1, he1, hca1, _, hok, hfail, hnf⟩ := hb
  have stop : ∀ r : Res, r ≠ .ok → ∃ w1 ids, ((w1 = w ∧ (r = .ok → w.find br.key = none)) ∨
               ((w.find br.key).isSome ∧ w1 = w.modify br.key (releaseStable br.partition.isSome))) ∧
      s1.w = dropAll w1 ids ∧ (∀ id ∈ ids, ∃ d ∈ ownedDeps w1, d.finalizer = true ∧ d.name = id) ∧
      s1.exp = exp ∧ (∀ s', (s1, r) = (s', Res.ok) → ∃ s3, s3.w = w1 ∧ deleteLoop c (ownedDeps w1) s3 = (s', .ok)) := by
    intro r hr
    refine ⟨w, [], Or.inl ⟨rfl, fun h => absurd h hr⟩, by simp [dropAll_nil, hw1], by simp, he1, ?_⟩
    intro s' h; simp only [Prod.mk.injEq] at h; exact absurd h.2 hr
  have go : (s1.stable = none → w.find br.key = none) → (s1.stable ≠ none → (w.find br.key).isSome) →
      ∃ w1 ids, ((w1 = w ∧ ((finTail c br s1).2 = .ok → w.find br.key = none)) ∨
               ((w.find br.key).isSome ∧ w1 = w.modify br.key (releaseStable br.partition.isSome))) ∧
      (finTail c br s1).1.w = dropAll w1 ids ∧ (∀ id ∈ ids, ∃ d ∈ ownedDeps w1, d.finalizer = true ∧ d.name = id) ∧
      (finTail c br s1).1.exp = exp ∧
      (∀ s', finTail c br s1 = (s', .ok) → ∃ s3, s3.w = w1 ∧ deleteLoop c (ownedDeps w1) s3 = (s', .ok)) := by
    intro hnone hsome
    obtain ⟨w1, ids, h1, h2, h3, h4, h5⟩ := finTail_spec c br s1 hca1
    refine ⟨w1, ids, ?_, h2, h3, by rw [h4, he1], h5⟩
    rcases h1 with ⟨ha, hb⟩ | ⟨ha, hb⟩
    · exact Or.inl ⟨by rw [ha, hw1], fun h => hnone (hb h)⟩
    · exact Or.inr ⟨hsome ha, by rw [hb, hw1]⟩
  cases o1 with
  | ok st =>
    dsimp only
    obtain ⟨h1, h2⟩ := hok st rfl
    apply go
    · intro h; rw [h1] at h; cases h
    · intro _
      rcases h2 with h2 | ⟨_, h2, _⟩
      · cases h2
      · simp [h2]
  | fail x =>
    cases x
    case err => dsimp only; exact stop .err (by simp)
    case panic => dsimp only; exact stop .panic (by simp)
    case ok => exact absurd rfl hno
    case notFound =>
      dsimp only
      apply go
      · intro _; exact (hnf rfl).2
      · intro h; exact absurd (hfail _ rfl).1 h

theorem pickCanary_not_failok (br : BR) (s : S) (ds : List Dep) (tpl : Option Template) :
    (pickCanary br s ds tpl).2 ≠ .fail .ok := by
  unfold pickCanary
  split
  · simp
  · split <;> simp

theorem buildCanary_not_failok (c : Cfg) (br : BR) (s : S) : (buildCanary c br s).2 ≠ .fail .ok := by
  unfold buildCanary
  split
  · simp
  · generalize listOwned c s = lo
    obtain ⟨s1, ods⟩ := lo
    cases ods with
    | none => simp
    | some ds =>
      dsimp only
      generalize buildStable c br s1 = bs
      obtain ⟨s2, o⟩ := bs
      cases o with
      | ok st => exact pickCanary_not_failok _ _ _ _
      | fail x => cases x <;> first | (simp; done) | exact pickCanary_not_failok _ _ _ _

theorem selectCanary_eq (br : BR) (w : World) :
    selectCanary br w = filterCanary br (filterActive (ownedDeps w)) ((w.find br.key).map (·.template)) := rfl

theorem batchPrefix_spec (c : Cfg) (br : BR) (w : World) (exp : Exp) :
    (batchPrefix c br (S0 w exp)).1.w = w ∧ (batchPrefix c br (S0 w exp)).1.exp = exp ∧
    (∀ cd R t, (batchPrefix c br (S0 w exp)).2 = .ok (cd, R, t) →
        ∃ st, w.find br.key = some st ∧ st.replicas = some R ∧ R ≠ 0 ∧
          selectCanary br w = some cd ∧ cd.replicas ≠ none ∧ target br w = some t) ∧
    ((batchPrefix c br (S0 w exp)).2 = .fail .ok → ∃ st, w.find br.key = some st ∧ st.replicas = some 0) := by
  unfold batchPrefix
  have hb := buildStable_spec c br (S0 w exp)
  have hno := buildStable_not_failok c br (S0 w exp)
  generalize buildStable c br (S0 w exp) = r1 at hb hno ⊢
  obtain ⟨s1, o1⟩ := r1
  simp only [S0] at hb hno
  obtain ⟨hw1, he1, hca1, _, hok, hfail, hnf⟩ := hb
  cases o1 with
  | fail x =>
    dsimp only
    refine ⟨hw1, he1, by simp, ?_⟩
    intro h; simp only [Out.fail.injEq] at h; subst h; exact absurd rfl hno
  | ok st =>
    dsimp only
    obtain ⟨hs1, h2⟩ := hok st rfl
    have hfind : w.find br.key = some st := by
      rcases h2 with h2 | ⟨_, h2, _⟩
      · cases h2
      · exact h2
    split
    · simp [hw1, he1]
    · rename_i R hR
      split
      · rename_i h0
        refine ⟨hw1, he1, by simp, fun _ => ⟨st, hfind, by rw [hR, h0]⟩⟩
      · rename_i h0
        have hc := buildCanary_spec c br s1 hca1
        have hno3 := buildCanary_not_failok c br s1
        generalize buildCanary c br s1 = r3 at hc hno3 ⊢
        obtain ⟨s3, o3⟩ := r3
        simp only at hc hno3
        obtain ⟨hw3, he3, _, hst3, hokc, _, _⟩ := hc
        cases o3 with
        | fail r =>
          dsimp only
          refine ⟨by rw [hw3, hw1], by rw [he3, he1], by simp, ?_⟩
          intro h; simp only [Out.fail.injEq] at h
          subst h
          exact absurd rfl hno3
        | ok cd =>
          dsimp only
          obtain ⟨_, hrep, hsel⟩ := hokc cd rfl
          have hst3' := hst3 st hs1
          rw [hst3', hw1] at hsel
          simp only [Option.map_some] at hsel
          have hselect : selectCanary br w = some cd := by
            rw [selectCanary_eq, hfind]; exact hsel
          split
          · simp [hw3, hw1, he3, he1]
          · cases hrid : br.rolloutID
            · simp only [Bool.false_eq_true, if_false]
              split
              · rename_i he; simp [hw3, hw1, he3, he1]
              · rename_i e he
                refine ⟨by rw [hw3, hw1], by rw [he3, he1], ?_, by simp⟩
                intro cd' R' t' h
                simp only [Out.ok.injEq, Prod.mk.injEq] at h
                obtain ⟨rfl, rfl, rfl⟩ := h
                exact ⟨st, hfind, hR, h0, hselect, hrep, by simp [target, hfind, hR, he]⟩
            · simp only [if_true]
              split
              · simp [hw3, hw1, he3, he1]
              · split
                · rename_i he; simp [hw3, hw1, he3, he1]
                · rename_i e he
                  refine ⟨by rw [hw3, hw1], by rw [he3, he1], ?_, by simp⟩
                  intro cd' R' t' h
                  simp only [Out.ok.injEq, Prod.mk.injEq] at h
                  obtain ⟨rfl, rfl, rfl⟩ := h
                  exact ⟨st, hfind, hR, h0, hselect, hrep, by simp [target, hfind, hR, he]⟩

theorem planeEnsureReady_world (c : Cfg) (br : BR) (w : World) (exp : Exp) :
    (planeEnsureReady c br (S0 w exp)).1.w = w ∧ (planeEnsureReady c br (S0 w exp)).1.exp = exp := by
  unfold planeEnsureReady
  obtain ⟨h1, h2, _, _⟩ := batchPrefix_spec c br w exp
  generalize batchPrefix c br (S0 w exp) = r1 at h1 h2 ⊢
  obtain ⟨s1, o1⟩ := r1
  cases o1 with
  | fail r => exact ⟨h1, h2⟩
  | ok x => obtain ⟨cd, R, t⟩ := x; exact ⟨h1, h2⟩

theorem planeUpgradeBatch_spec (c : Cfg) (br : BR) (w : World) (exp : Exp) :
    (planeUpgradeBatch c br (S0 w exp)).1.exp = exp ∧
    (((planeUpgradeBatch c br (S0 w exp)).1.w = w ∧
        ((planeUpgradeBatch c br (S0 w exp)).2 = .ok → ∃ st, w.find br.key = some st ∧
          (st.replicas = some 0 ∨ ∃ cd t cur, selectCanary br w = some cd ∧ target br w = some t ∧
              cd.replicas = some cur ∧ t ≤ cur))) ∨
      (∃ cd t cur st, w.find br.key = some st ∧ st.replicas ≠ some 0 ∧ selectCanary br w = some cd ∧
          target br w = some t ∧ cd.replicas = some cur ∧ cur < t ∧
          (planeUpgradeBatch c br (S0 w exp)).2 = .ok ∧
          (planeUpgradeBatch c br (S0 w exp)).1.w = w.modify cd.name (setReplicas t))) := by
  unfold planeUpgradeBatch
  obtain ⟨h1, h2, h3, h4⟩ := batchPrefix_spec c br w exp
  generalize batchPrefix c br (S0 w exp) = r1 at h1 h2 h3 h4 ⊢
  obtain ⟨s1, o1⟩ := r1
  cases o1 with
  | fail r =>
    dsimp only at h1 h2 h3 h4 ⊢
    refine ⟨h2, Or.inl ⟨h1, ?_⟩⟩
    intro hr
    subst hr
    obtain ⟨st, hst, hrep⟩ := h4 rfl
    exact ⟨st, hst, Or.inl hrep⟩
  | ok x =>
    obtain ⟨cd, R, t⟩ := x
    dsimp only at h1 h2 h3 h4 ⊢
    obtain ⟨st, hst, hR, hR0, hsel, hrep, htgt⟩ := h3 cd R t rfl
    split
    · rename_i hnone; exact absurd hnone hrep
    · rename_i cur hcur
      obtain ⟨he, _, _⟩ := canaryUpgrade_misc c s1 cd cur t
      refine ⟨by rw [he, h2], ?_⟩
      rcases canaryUpgrade_spec c s1 cd cur t with ⟨hw, hok⟩ | ⟨hlt, hok, hw⟩
      · left
        refine ⟨by rw [hw, h1], ?_⟩
        intro hr
        exact ⟨st, hst, Or.inr ⟨cd, t, cur, hsel, htgt, hcur, hok hr⟩⟩
      · right
        refine ⟨cd, t, cur, st, hst, ?_, hsel, htgt, hcur, hlt, hok, by rw [hw, h1]⟩
        rw [hR]; intro h; cases h; exact hR0 rfl

theorem initTail_spec (c : Cfg) (br : BR) (s : S) (st : Dep) :
    (initTail c br s st).1.w = s.w ∨
      (∃ st' cd, s.canary = none ∧ s.w.find br.key = some st' ∧ newCanary br st' s.w = some cd ∧
        (initTail c br s st).1.w = s.w.add cd ∧ (initTail c br s st).2.1 = .err) := by
  unfold initTail
  obtain ⟨_, _, _, hok, hw⟩ := canaryCreate_spec c br s
  generalize canaryCreate c br s = r4 at hok hw ⊢
  obtain ⟨s4, o4⟩ := r4
  dsimp only at hok hw
  rcases hw with hw | ⟨st', cd, h1, h2, h3, h4, h5⟩
  · left
    cases o4 <;> dsimp only
    · split <;> exact hw
    all_goals exact hw
  · right
    subst h5
    exact ⟨st', cd, h1, h2, h3, h4, rfl⟩

theorem planeInitialize_spec (c : Cfg) (br : BR) (w : World) (exp : Exp) :
    ∃ w1, (w1 = w ∨ ((w.find br.key).isSome ∧ w1 = w.modify br.key setCtrl)) ∧
      ((planeInitialize c br (S0 w exp)).1.w = w1 ∨
        (∃ st cd, w1.find br.key = some st ∧ newCanary br st w1 = some cd ∧
          filterCanary br (filterActive (ownedDeps w1)) (some st.template) = none ∧
          (planeInitialize c br (S0 w exp)).1.w = w1.add cd ∧ (planeInitialize c br (S0 w exp)).2.1 = .err)) := by
  unfold planeInitialize
  have hb := buildStable_spec c br (S0 w exp)
  generalize buildStable c br (S0 w exp) = r1 at hb ⊢
  obtain ⟨s1, o1⟩ := r1
  simp only [S0] at hb
  obtain ⟨hw1, _, hca1, _, hok, _, _⟩ := hb
  cases o1 with
  | fail x => exact ⟨w, Or.inl rfl, Or.inl hw1⟩
  | ok st0 =>
    dsimp only
    obtain ⟨hs1, h2⟩ := hok st0 rfl
    have hfind : w.find br.key = some st0 := by
      rcases h2 with h2 | ⟨_, h2, _⟩
      · cases h2
      · exact h2
    have hi := stableInitialize_spec c br s1 st0
    generalize stableInitialize c br s1 st0 = r2 at hi ⊢
    obtain ⟨s2, o2⟩ := r2
    simp only at hi
    obtain ⟨hw2, _, hst2, hca2, _, _⟩ := hi
    -- the world after `stable.Initialize`
    have hw2' : s2.w = w ∨ ((w.find br.key).isSome ∧ s2.w = w.modify br.key setCtrl) := by
      rcases hw2 with h | ⟨_, h⟩
      · left; rw [h, hw1]
      · right; exact ⟨by simp [hfind], by rw [h, hw1]⟩
    have stop : ∃ w1, (w1 = w ∨ ((w.find br.key).isSome ∧ w1 = w.modify br.key setCtrl)) ∧
        (s2.w = w1 ∨ (∃ st cd, w1.find br.key = some st ∧ newCanary br st w1 = some cd ∧
          filterCanary br (filterActive (ownedDeps w1)) (some st.template) = none ∧
          s2.w = w1.add cd ∧ False)) := ⟨s2.w, hw2', Or.inl rfl⟩
    cases o2
    case err => dsimp only; obtain ⟨w1, h1, h2⟩ := stop; exact ⟨w1, h1, Or.inl (by rcases h2 with h | ⟨_, _, _, _, _, _, h⟩; exact h; exact h.elim)⟩
    case notFound => dsimp only; obtain ⟨w1, h1, h2⟩ := stop; exact ⟨w1, h1, Or.inl (by rcases h2 with h | ⟨_, _, _, _, _, _, h⟩; exact h; exact h.elim)⟩
    case panic => dsimp only; obtain ⟨w1, h1, h2⟩ := stop; exact ⟨w1, h1, Or.inl (by rcases h2 with h | ⟨_, _, _, _, _, _, h⟩; exact h; exact h.elim)⟩
    case ok =>
      dsimp only
      have hcan2 : s2.canary = none := by rw [hca2, hca1]
      have hc := buildCanary_spec c br s2 hcan2
      have hno3 := buildCanary_not_failok c br s2
      generalize buildCanary c br s2 = r3 at hc hno3 ⊢
      obtain ⟨s3, o3⟩ := r3
      simp only at hc hno3
      obtain ⟨hw3, _, _, hst3, hokc, hnfc, _⟩ := hc
      have hs3 : s3.stable = some st0 := hst3 st0 (by rw [hst2, hs1])
      -- the stable Deployment in the world after `stable.Initialize` has the template that was read
      have htpl : ∀ st, s2.w.find br.key = some st → st.template = st0.template := by
        intro st hst
        rcases hw2' with h | ⟨_, h⟩
        · rw [h, hfind] at hst; cases hst; rfl
        · rw [h, find_modify _ _ _ _ (by intro d; rfl), hfind] at hst
          simp only [Option.map_some] at hst
          cases hst
          split <;> rfl
      cases o3 with
      | ok cd =>
        dsimp only
        obtain ⟨hcd, _, _⟩ := hokc cd rfl
        refine ⟨s2.w, hw2', Or.inl ?_⟩
        rcases initTail_spec c br s3 st0 with h | ⟨_, _, h, _⟩
        · rw [h, hw3]
        · rw [hcd] at h; cases h
      | fail x =>
        cases x
        case err => dsimp only; exact ⟨s2.w, hw2', Or.inl hw3⟩
        case panic => dsimp only; exact ⟨s2.w, hw2', Or.inl hw3⟩
        case ok => exact absurd rfl hno3
        case notFound =>
          dsimp only
          obtain ⟨_, hnone⟩ := hnfc rfl
          rw [hs3] at hnone
          simp only [Option.map_some] at hnone
          refine ⟨s2.w, hw2', ?_⟩
          rcases initTail_spec c br s3 st0 with h | ⟨st, cd, _, h2, h3, h4, h5⟩
          · left; rw [h, hw3]
          · right
            rw [hw3] at h2 h3 h4
            exact ⟨st, cd, h2, h3, by rw [htpl st h2]; exact hnone, h4, h5⟩

/-! ## uniform description of what a call does to the world -/

/-- per object: the write `f` to the object named `id`, then the finalizer removals `ids` -/
def eff (id : Nat) (f : Dep → Dep) (ids : List Nat) (d : Dep) : Option Dep :=
  dropFn ids (if d.name = id then f d else d)

def effW (w : World) (id : Nat) (f : Dep → Dep) (ids : List Nat) : World := dropAll (w.modify id f) ids

theorem eff_name {id : Nat} {f : Dep → Dep} {ids : List Nat} {d d' : Dep} (hf : ∀ d, (f d).name = d.name)
    (h : eff id f ids d = some d') : d'.name = d.name := by
  unfold eff at h
  rw [dropFn_name h]
  split <;> simp [hf]

theorem effW_find {w : World} {id : Nat} {f : Dep → Dep} {ids : List Nat} {d : Dep}
    (hf : ∀ d, (f d).name = d.name) (hnd : (names w).Nodup) (hd : d ∈ w.deps) :
    (effW w id f ids).find d.name = eff id f ids d := by
  unfold effW eff
  rw [find_dropAll ids d.name (by rw [names_modify _ _ _ hf]; exact hnd), find_modify _ _ _ _ hf,
    find_of_mem hnd hd]
  rfl

theorem effW_find_none {w : World} {id : Nat} {f : Dep → Dep} {ids : List Nat} {n : Nat}
    (hf : ∀ d, (f d).name = d.name) (hnd : (names w).Nodup) (h : w.find n = none) :
    (effW w id f ids).find n = none := by
  unfold effW
  rw [find_dropAll ids n (by rw [names_modify _ _ _ hf]; exact hnd), find_modify _ _ _ _ hf, h]
  rfl

theorem effW_mem {w : World} {id : Nat} {f : Dep → Dep} {ids : List Nat} {d' : Dep}
    (h : d' ∈ (effW w id f ids).deps) : ∃ d ∈ w.deps, eff id f ids d = some d' := by
  unfold effW at h
  obtain ⟨x, hx, hxd⟩ := mem_dropAll.mp h
  unfold World.modify at hx
  obtain ⟨d, hd, rfl⟩ := List.mem_map.mp hx
  exact ⟨d, hd, hxd⟩

theorem effW_id_nil (w : World) (id : Nat) : effW w id (fun d => d) [] = w := by
  unfold effW
  rw [dropAll_nil]
  unfold World.modify
  simp

theorem modify_id (w : World) (id : Nat) : w.modify id (fun d => d) = w := by
  unfold World.modify; simp

theorem effW_nil (w : World) (id : Nat) (f : Dep → Dep) : effW w id f [] = w.modify id f := by
  unfold effW; rw [dropAll_nil]

/-- what `eff` can turn an object into -/
theorem eff_some {id : Nat} {f : Dep → Dep} {ids : List Nat} {d d' : Dep} (h : eff id f ids d = some d') :
    (d' = (if d.name = id then f d else d)) ∨
    ((if d.name = id then f d else d).name ∈ ids ∧ d' = { (if d.name = id then f d else d) with finalizer := false }) :=
  dropFn_some h

/-! ## selection -/

theorem mem_insertNewest {x d : Dep} {l : List Dep} : x ∈ insertNewest d l ↔ x = d ∨ x ∈ l := by
  induction l with
  | nil => simp [insertNewest]
  | cons y ys ih =>
    unfold insertNewest
    split
    · simp
    · simp only [List.mem_cons, ih]
      constructor
      · rintro (h | h | h)
        · exact Or.inr (Or.inl h)
        · exact Or.inl h
        · exact Or.inr (Or.inr h)
      · rintro (h | h | h)
        · exact Or.inr (Or.inl h)
        · exact Or.inl h
        · exact Or.inr (Or.inr h)

theorem mem_newestFirst {x : Dep} {l : List Dep} : x ∈ newestFirst l ↔ x ∈ l := by
  unfold newestFirst
  induction l with
  | nil => simp
  | cons y ys ih => simp only [List.foldr_cons, mem_insertNewest, ih, List.mem_cons]

theorem filterCanary_mem {br : BR} {ds : List Dep} {tpl : Option Template} {d : Dep}
    (h : filterCanary br ds tpl = some d) : d ∈ ds := by
  unfold filterCanary at h
  have hm : ∀ x, x ∈ newestFirst ds → x ∈ ds := fun x hx => mem_newestFirst.mp hx
  split at h
  · cases h
  · rename_i d0 rest heq
    split at h
    · cases h; exact hm _ (by rw [heq]; exact List.mem_cons_self)
    · exact hm _ (by rw [heq]; exact List.mem_of_find?_eq_some h)

theorem filterCanary_none {br : BR} {ds : List Dep} {t : Template}
    (h : filterCanary br ds (some t) = none) : ∀ d ∈ ds, eqIgnore br t d.template = false := by
  unfold filterCanary at h
  intro d hd
  have hd' : d ∈ newestFirst ds := mem_newestFirst.mpr hd
  split at h
  · rename_i heq; rw [heq] at hd'; cases hd'
  · rename_i d0 rest heq
    dsimp only at h
    rw [← heq] at h
    have := List.find?_eq_none.mp h d hd'
    simpa using this

theorem selectCanary_mem {br : BR} {w : World} {cd : Dep} (h : selectCanary br w = some cd) :
    cd ∈ w.deps ∧ cd.owner = .this ∧ cd.deleting = false := by
  rw [selectCanary_eq] at h
  have h1 := filterCanary_mem h
  unfold filterActive at h1
  obtain ⟨h2, h3⟩ := List.mem_filter.mp h1
  unfold ownedDeps at h2
  obtain ⟨h4, h5⟩ := List.mem_filter.mp h2
  exact ⟨h4, by simpa using h5, by simpa using h3⟩

/-- **Everything a call can do to the world**: at most one write `f` to one object `id` (control-info in
    `Initialize`, replicas of the selected canary in `UpgradeBatch`, the release patch in `Finalize`),
    then finalizer removals `ids` from owned Deployments (`Finalize` only), or one creation (`Initialize` only). -/
theorem call_shape (br : BR) (op : Op) (c : Cfg) (w : World) (exp : Exp) :
    ∃ id f ids, (∀ d : Dep, (f d).name = d.name) ∧
      ((f = fun d => d) ∨ (op = .init ∧ id = br.key ∧ f = setCtrl) ∨
        (op = .fin ∧ id = br.key ∧ f = releaseStable br.partition.isSome) ∨
        (op = .upgrade ∧ ∃ cd t cur st, id = cd.name ∧ f = setReplicas t ∧ w.find br.key = some st ∧
            st.replicas ≠ some 0 ∧ selectCanary br w = some cd ∧ target br w = some t ∧
            cd.replicas = some cur ∧ cur < t ∧ (call br op c w exp).res = .ok)) ∧
      (ids = [] ∨ (op = .fin ∧ ∀ i ∈ ids, ∃ d ∈ ownedDeps (w.modify id f), d.finalizer = true ∧ d.name = i)) ∧
      ((call br op c w exp).w = effW w id f ids ∨
        (op = .init ∧ ids = [] ∧ ∃ st cd, (w.modify id f).find br.key = some st ∧
            newCanary br st (w.modify id f) = some cd ∧
            filterCanary br (filterActive (ownedDeps (w.modify id f))) (some st.template) = none ∧
            (call br op c w exp).w = (w.modify id f).add cd ∧ (call br op c w exp).res = .err)) := by
  cases op
  case init =>
    obtain ⟨w1, hw1, hres⟩ := planeInitialize_spec c br w exp
    rcases hw1 with rfl | ⟨_, rfl⟩
    · refine ⟨br.key, fun d => d, [], fun _ => rfl, Or.inl rfl, Or.inl rfl, ?_⟩
      rw [effW_id_nil, modify_id]
      rcases hres with h | ⟨st, cd, h1, h2, h3, h4, h5⟩
      · exact Or.inl h
      · exact Or.inr ⟨rfl, rfl, st, cd, h1, h2, h3, h4, h5⟩
    · refine ⟨br.key, setCtrl, [], fun _ => rfl, Or.inr (Or.inl ⟨rfl, rfl, rfl⟩), Or.inl rfl, ?_⟩
      rw [effW_nil]
      rcases hres with h | ⟨st, cd, h1, h2, h3, h4, h5⟩
      · exact Or.inl h
      · exact Or.inr ⟨rfl, rfl, st, cd, h1, h2, h3, h4, h5⟩
  case upgrade =>
    obtain ⟨_, hres⟩ := planeUpgradeBatch_spec c br w exp
    rcases hres with ⟨h, _⟩ | ⟨cd, t, cur, st, h1, h2, h3, h4, h5, h6, h7, h8⟩
    · exact ⟨0, fun d => d, [], fun _ => rfl, Or.inl rfl, Or.inl rfl, Or.inl (by rw [effW_id_nil]; exact h)⟩
    · exact ⟨cd.name, setReplicas t, [], fun _ => rfl,
        Or.inr (Or.inr (Or.inr ⟨rfl, cd, t, cur, st, rfl, rfl, h1, h2, h3, h4, h5, h6, h7⟩)), Or.inl rfl,
        Or.inl (by rw [effW_nil]; exact h8)⟩
  case ensure =>
    obtain ⟨h, _⟩ := planeEnsureReady_world c br w exp
    exact ⟨0, fun d => d, [], fun _ => rfl, Or.inl rfl, Or.inl rfl, Or.inl (by rw [effW_id_nil]; exact h)⟩
  case fin =>
    obtain ⟨w1, ids, hw1, hw, hids, _, _⟩ := planeFinalize_spec c br w exp
    rcases hw1 with ⟨rfl, _⟩ | ⟨_, rfl⟩
    · refine ⟨br.key, fun d => d, ids, fun _ => rfl, Or.inl rfl, Or.inr ⟨rfl, ?_⟩, Or.inl ?_⟩
      · rw [modify_id]; exact hids
      · unfold effW; rw [modify_id]; exact hw
    · exact ⟨br.key, releaseStable br.partition.isSome, ids, fun _ => rfl,
        Or.inr (Or.inr (Or.inl ⟨rfl, rfl, rfl⟩)), Or.inr ⟨rfl, hids⟩, Or.inl hw⟩

/-! ## looking objects up before and after a call -/

theorem maxName_eq (w : World) : w.maxName = (names w).foldl max 0 := by
  unfold World.maxName names
  rw [List.foldl_map]

theorem maxName_modify (w : World) (id : Nat) (f : Dep → Dep) (hf : ∀ d, (f d).name = d.name) :
    (w.modify id f).maxName = w.maxName := by
  rw [maxName_eq, maxName_eq, names_modify _ _ _ hf]

/-- the world after a call: one write and some finalizer removals, or one write and one new object -/
def After (w : World) (id : Nat) (f : Dep → Dep) (ids : List Nat) (P : Dep → Prop) (w' : World) : Prop :=
  w' = effW w id f ids ∨ (ids = [] ∧ ∃ cd, P cd ∧ cd.name = w.maxName + 1 ∧ w' = (w.modify id f).add cd)

theorem eff_nil (id : Nat) (f : Dep → Dep) (d : Dep) : eff id f [] d = some (if d.name = id then f d else d) := by
  unfold eff dropFn; simp

theorem find_after {w w' : World} {id : Nat} {f : Dep → Dep} {ids : List Nat} {P : Dep → Prop}
    (hf : ∀ d : Dep, (f d).name = d.name) (hnd : (names w).Nodup) (h : After w id f ids P w')
    {d : Dep} (hd : d ∈ w.deps) : w'.find d.name = eff id f ids d := by
  rcases h with h | ⟨hids, cd, _, _, h⟩
  · rw [h, effW_find hf hnd hd]
  · subst hids
    rw [h, find_add, find_modify _ _ _ _ hf, find_of_mem hnd hd, eff_nil]; rfl

theorem mem_after {w w' : World} {id : Nat} {f : Dep → Dep} {ids : List Nat} {P : Dep → Prop}
    (hf : ∀ d : Dep, (f d).name = d.name) (hnd : (names w).Nodup) (h : After w id f ids P w')
    {d' : Dep} (hd' : d' ∈ w'.deps) :
    (∃ d ∈ w.deps, eff id f ids d = some d' ∧ w.find d'.name = some d) ∨
    (ids = [] ∧ P d' ∧ d'.name = w.maxName + 1 ∧ w.find d'.name = none ∧ w' = (w.modify id f).add d') := by
  rcases h with h | ⟨hids, cd, hP, hcd, h⟩
  · left
    rw [h] at hd'
    obtain ⟨d, hd, he⟩ := effW_mem hd'
    exact ⟨d, hd, he, by rw [eff_name hf he]; exact find_of_mem hnd hd⟩
  · subst hids
    rw [h] at hd'
    unfold World.add at hd'
    rcases List.mem_append.mp hd' with hm | hm
    · left
      unfold World.modify at hm
      obtain ⟨d, hd, rfl⟩ := List.mem_map.mp hm
      refine ⟨d, hd, eff_nil id f d, ?_⟩
      have : (if d.name = id then f d else d).name = d.name := by split <;> simp [hf]
      rw [this]; exact find_of_mem hnd hd
    · right
      simp only [List.mem_singleton] at hm
      subst hm
      exact ⟨rfl, hP, hcd, by rw [hcd]; exact find_fresh w, h⟩

/-- the objects whose finalizer `Finalize` removes are owned and carry it -/
theorem ids_owned {w : World} {id : Nat} {f : Dep → Dep} {ids : List Nat}
    (hf : ∀ d : Dep, (f d).name = d.name) (hnd : (names w).Nodup)
    (hids : ∀ i ∈ ids, ∃ x ∈ ownedDeps (w.modify id f), x.finalizer = true ∧ x.name = i)
    {d : Dep} (hd : d ∈ w.deps) (hin : d.name ∈ ids) :
    (if d.name = id then f d else d).owner = .this ∧ (if d.name = id then f d else d).finalizer = true := by
  obtain ⟨x, hx, hxf, hxn⟩ := hids _ hin
  unfold ownedDeps at hx
  obtain ⟨hx1, hx2⟩ := List.mem_filter.mp hx
  unfold World.modify at hx1
  obtain ⟨y, hy, rfl⟩ := List.mem_map.mp hx1
  have hyn : y.name = d.name := by
    rw [← hxn]; split <;> simp [hf]
  have : y = d := by
    have h1 := find_of_mem hnd hy
    have h2 := find_of_mem hnd hd
    rw [hyn, h2] at h1
    cases h1; rfl
  subst this
  exact ⟨by simpa using hx2, hxf⟩

theorem newCanary_some {br : BR} {st cd : Dep} {w : World} (h : newCanary br st w = some cd) :
    ∃ tp, patchedTemplate br st.template = some tp ∧
      cd = { name := w.maxName + 1, owner := .this, ctrl := .this, canaryOf := some st.name, template := tp,
             replicas := some 0, paused := false, finalizer := true, otherFinalizer := false, deleting := false,
             created := w.maxCreated + 1, generation := 1, observedGeneration := 0,
             statusReplicas := 0, updatedReplicas := 0, availableReplicas := 0, strategy := st.strategy } := by
  unfold newCanary at h
  cases hp : patchedTemplate br st.template with
  | none => rw [hp] at h; cases h
  | some tp => rw [hp] at h; simp only [Option.map_some, Option.some.injEq] at h; exact ⟨tp, rfl, h.symm⟩

theorem shape_after {br : BR} {op : Op} {w w' : World} {id : Nat} {f : Dep → Dep} {ids : List Nat} {res : Res}
    (hf : ∀ d : Dep, (f d).name = d.name)
    (hworld : w' = effW w id f ids ∨
        (op = .init ∧ ids = [] ∧ ∃ st cd, (w.modify id f).find br.key = some st ∧
            newCanary br st (w.modify id f) = some cd ∧
            filterCanary br (filterActive (ownedDeps (w.modify id f))) (some st.template) = none ∧
            w' = (w.modify id f).add cd ∧ res = .err)) :
    After w id f ids (fun cd => op = .init ∧ res = .err ∧ ∃ st, (w.modify id f).find br.key = some st ∧
        newCanary br st (w.modify id f) = some cd ∧
        filterCanary br (filterActive (ownedDeps (w.modify id f))) (some st.template) = none) w' := by
  rcases hworld with h | ⟨hop, hids, st, cd, hst, hnew, hnone, h, hres⟩
  · exact Or.inl h
  · refine Or.inr ⟨hids, cd, ⟨hop, hres, st, hst, hnew, hnone⟩, ?_, h⟩
    obtain ⟨tp, _, rfl⟩ := newCanary_some hnew
    simp [maxName_modify _ _ _ hf]

/-! ## maps: the created canary matches the template it was copied from -/

theorem kvEq_refl (a : KV) : kvEq a a = true := by
  unfold kvEq; simp

theorem kvEraseAll_kvSet (m : KV) (k v : String) (ks : List String) (hk : k ∈ ks) :
    kvEraseAll (kvSet m k v) ks = kvEraseAll m ks := by
  unfold kvEraseAll kvSet
  rw [List.filter_append, List.filter_filter]
  have h1 : List.filter (fun e => !ks.contains e.1) [(k, v)] = [] := by simp [hk]
  rw [h1, List.append_nil]
  apply List.filter_congr
  intro e _
  by_cases he : e.1 = k
  · simp [he, hk]
  · simp [he]

theorem kvEraseAll_kvSetAll (m p : KV) (ks : List String) (hp : ∀ e ∈ p, e.1 ∈ ks) :
    kvEraseAll (kvSetAll m p) ks = kvEraseAll m ks := by
  unfold kvSetAll
  induction p generalizing m with
  | nil => rfl
  | cons e p ih =>
    simp only [List.foldl_cons]
    rw [ih (kvSet m e.1 e.2) (fun x hx => hp x (List.mem_cons_of_mem _ hx))]
    exact kvEraseAll_kvSet m e.1 e.2 ks (hp e List.mem_cons_self)

theorem eqIgnore_refl (br : BR) (t : Template) : eqIgnore br t t = true := by
  unfold eqIgnore; simp [kvEq_refl]

/-- the pod template `create` gives the canary equals the stable template modulo the ignored metadata:
    this is why `Initialize` finds its own canary again -/
theorem eqIgnore_patched {br : BR} {t tp : Template} (h : patchedTemplate br t = some tp) :
    eqIgnore br t tp = true := by
  unfold patchedTemplate at h
  cases hp : br.patch with
  | none => rw [hp] at h; cases h; exact eqIgnore_refl br t
  | some p =>
    rw [hp] at h
    dsimp only at h
    split at h
    · cases h
    · cases h
      unfold eqIgnore
      have hl : kvEraseAll (kvSetAll t.labels p.1) (ignoreLabels br) = kvEraseAll t.labels (ignoreLabels br) := by
        apply kvEraseAll_kvSetAll
        intro e he
        unfold ignoreLabels; rw [hp]
        simp only [List.mem_append]
        left; unfold kvKeys; exact List.mem_map_of_mem he
      have ha : kvEraseAll (kvSetAll t.annos p.2) (ignoreAnnos br) = kvEraseAll t.annos (ignoreAnnos br) := by
        apply kvEraseAll_kvSetAll
        intro e he
        unfold ignoreAnnos; rw [hp]
        unfold kvKeys; exact List.mem_map_of_mem he
      simp [hl, ha, kvEq_refl]

/-! ## counting the active canaries of the current template -/

/-- the writes of the plane keep owner, deletion mark and pod template of every object -/
def Pres (f : Dep → Dep) : Prop :=
  ∀ d, (f d).owner = d.owner ∧ (f d).deleting = d.deleting ∧ (f d).template = d.template

theorem pres_id : Pres (fun d => d) := fun _ => ⟨rfl, rfl, rfl⟩
theorem pres_setCtrl : Pres setCtrl := fun _ => ⟨rfl, rfl, rfl⟩
theorem pres_release (p : Bool) : Pres (releaseStable p) := fun _ => ⟨rfl, rfl, rfl⟩
theorem pres_setReplicas (t : Int) : Pres (setReplicas t) := fun _ => ⟨rfl, rfl, rfl⟩

theorem eff_pres {id : Nat} {f : Dep → Dep} {ids : List Nat} {d d' : Dep} (hp : Pres f)
    (h : eff id f ids d = some d') :
    d'.owner = d.owner ∧ d'.deleting = d.deleting ∧ d'.template = d.template := by
  have hx : (if d.name = id then f d else d).owner = d.owner ∧
      (if d.name = id then f d else d).deleting = d.deleting ∧
      (if d.name = id then f d else d).template = d.template := by
    split
    · exact hp d
    · exact ⟨rfl, rfl, rfl⟩
  rcases eff_some h with h | ⟨_, h⟩ <;> rw [h] <;> exact hx

theorem filter_filterMap_length_le {α : Type} (l : List α) (g : α → Option α) (p q : α → Bool)
    (h : ∀ d ∈ l, ∀ d', g d = some d' → p d' = true → q d = true) :
    ((l.filterMap g).filter p).length ≤ (l.filter q).length := by
  induction l with
  | nil => simp
  | cons x l ih =>
    have ih' := ih (fun d hd => h d (List.mem_cons_of_mem _ hd))
    have hq : (l.filter q).length ≤ ((x :: l).filter q).length := by
      simp only [List.filter_cons]; split <;> simp
    simp only [List.filterMap_cons]
    cases hg : g x with
    | none => exact Nat.le_trans ih' hq
    | some x' =>
      by_cases hp : p x' = true
      · have hqx := h x List.mem_cons_self x' hg hp
        rw [List.filter_cons_of_pos hp, List.filter_cons_of_pos hqx]
        simp only [List.length_cons]
        omega
      · have hp' : p x' = false := by simpa using hp
        rw [List.filter_cons_of_neg (by simp [hp'])]
        exact Nat.le_trans ih' hq

/-- the stable template an object is compared with does not change (the stable Deployment may disappear) -/
theorem stable_template_after {br : BR} {w w' : World} {id : Nat} {f : Dep → Dep} {ids : List Nat} {P : Dep → Prop}
    (hf : ∀ d : Dep, (f d).name = d.name) (hp : Pres f) (hnd : (names w).Nodup) (h : After w id f ids P w')
    (hstable : ∀ cd, P cd → (w.find br.key).isSome) :
    ∀ st', w'.find br.key = some st' → ∃ st, w.find br.key = some st ∧ st'.template = st.template := by
  intro st' hst'
  cases hst : w.find br.key with
  | some st =>
    obtain ⟨hmem, hname⟩ := find_some hst
    have := find_after hf hnd h hmem
    rw [hname, hst'] at this
    exact ⟨st, rfl, (eff_pres hp this.symm).2.2⟩
  | none =>
    exfalso
    rcases h with h | ⟨_, cd, hP, _, _⟩
    · rw [h, effW_find_none hf hnd hst] at hst'; cases hst'
    · have := hstable cd hP
      rw [hst] at this; cases this

theorem matching_after {br : BR} {w w' : World} {id : Nat} {f : Dep → Dep} {ids : List Nat} {P : Dep → Prop}
    (hf : ∀ d : Dep, (f d).name = d.name) (hp : Pres f) (hnd : (names w).Nodup) (h : After w id f ids P w')
    (hstable : ∀ cd, P cd → (w.find br.key).isSome)
    {d d' : Dep} (he : eff id f ids d = some d') (hm : matching br w' d' = true) : matching br w d = true := by
  obtain ⟨h1, h2, h3⟩ := eff_pres hp he
  unfold matching at hm ⊢
  cases hst' : w'.find br.key with
  | none => rw [hst'] at hm; simp at hm
  | some st' =>
    obtain ⟨st, hst, ht⟩ := stable_template_after hf hp hnd h hstable st' hst'
    rw [hst'] at hm
    rw [hst]
    simp only [owned, h1, h2, h3, ht] at hm ⊢
    exact hm

theorem matchCount_zero_of_none {br : BR} {w : World} {id : Nat} {f : Dep → Dep} {st : Dep}
    (hf : ∀ d : Dep, (f d).name = d.name) (hp : Pres f)
    (hst : (w.modify id f).find br.key = some st)
    (hnone : filterCanary br (filterActive (ownedDeps (w.modify id f))) (some st.template) = none) :
    matchCount br w = 0 := by
  unfold matchCount
  rw [List.length_eq_zero_iff, List.filter_eq_nil_iff]
  intro d hd
  have hall := filterCanary_none hnone
  rw [find_modify _ _ _ _ hf] at hst
  cases hst0 : w.find br.key with
  | none => simp [matching, hst0]
  | some st0 =>
    rw [hst0] at hst
    simp only [Option.map_some, Option.some.injEq] at hst
    have ht : st.template = st0.template := by
      rw [← hst]; split
      · exact (hp st0).2.2
      · rfl
    unfold matching
    rw [hst0]
    simp only [owned, Bool.and_eq_true, decide_eq_true_eq, Bool.not_eq_true', not_and, Bool.not_eq_true]
    intro ⟨ho, hdel⟩
    have hg : (if d.name = id then f d else d) ∈ filterActive (ownedDeps (w.modify id f)) := by
      unfold filterActive ownedDeps World.modify
      apply List.mem_filter.mpr
      refine ⟨List.mem_filter.mpr ⟨List.mem_map_of_mem hd, ?_⟩, ?_⟩
      · split
        · simp [(hp d).1, ho]
        · simp [ho]
      · split
        · simp [(hp d).2.1, hdel]
        · simp [hdel]
    have := hall _ hg
    rw [ht] at this
    have ht2 : (if d.name = id then f d else d).template = d.template := by
      split
      · exact (hp d).2.2
      · rfl
    rw [ht2] at this
    exact this

theorem effW_deps (w : World) (id : Nat) (f : Dep → Dep) (ids : List Nat) :
    (effW w id f ids).deps = w.deps.filterMap (eff id f ids) := by
  unfold effW dropAll World.modify
  simp only [List.filterMap_map]
  rfl

theorem modify_deps_eff (w : World) (id : Nat) (f : Dep → Dep) :
    (w.modify id f).deps = w.deps.filterMap (eff id f []) := by
  rw [← effW_deps, effW_nil]

theorem which_pres {br : BR} {op : Op} {w : World} {id : Nat} {f : Dep → Dep} {res : Res}
    (h : (f = fun d => d) ∨ (op = .init ∧ id = br.key ∧ f = setCtrl) ∨
        (op = .fin ∧ id = br.key ∧ f = releaseStable br.partition.isSome) ∨
        (op = .upgrade ∧ ∃ cd t cur st, id = cd.name ∧ f = setReplicas t ∧ w.find br.key = some st ∧
            st.replicas ≠ some 0 ∧ selectCanary br w = some cd ∧ target br w = some t ∧
            cd.replicas = some cur ∧ cur < t ∧ res = .ok)) : Pres f := by
  rcases h with rfl | ⟨_, _, rfl⟩ | ⟨_, _, rfl⟩ | ⟨_, _, t, _, _, _, rfl, _⟩
  · exact pres_id
  · exact pres_setCtrl
  · exact pres_release _
  · exact pres_setReplicas t

/-! ## runs -/

theorem call_nodup (br : BR) (op : Op) (c : Cfg) (w : World) (exp : Exp) (hnd : (names w).Nodup) :
    (names (call br op c w exp).w).Nodup := by
  obtain ⟨id, f, ids, hf, _, _, hworld⟩ := call_shape br op c w exp
  rcases hworld with h | ⟨_, _, st, cd, _, hnew, _, h, _⟩
  · rw [h]
    unfold effW
    exact nodup_dropAll _ (by rw [names_modify _ _ _ hf]; exact hnd)
  · rw [h]
    obtain ⟨tp, _, hcd⟩ := newCanary_some hnew
    exact nodup_add_fresh (by rw [names_modify _ _ _ hf]; exact hnd) (by rw [hcd])

theorem find_map_aux (l : List Dep) (g : Dep → Dep) (n : Nat) (hg : ∀ d, (g d).name = d.name) :
    (l.map g).find? (fun x => x.name == n) = (l.find? (fun x => x.name == n)).map g := by
  induction l with
  | nil => rfl
  | cons x l ih =>
    by_cases hn : x.name = n
    · subst hn
      simp [hg]
    · simp only [List.map_cons, List.find?_cons, hg]
      have : (x.name == n) = false := by simpa using hn
      simp only [this]
      exact ih

/-- an environment event that rewrites every object by `g` (names, owners, deletion marks, templates kept) -/
theorem matchCount_map (br : BR) (w : World) (g : Dep → Dep) (hg : ∀ d, (g d).name = d.name)
    (hp : Pres g) : matchCount br { deps := w.deps.map g } = matchCount br w := by
  unfold matchCount
  have hfind : ({ deps := w.deps.map g } : World).find br.key = (w.find br.key).map g :=
    find_map_aux w.deps g br.key hg
  rw [List.filter_map, List.length_map]
  congr 1
  apply List.filter_congr
  intro d _
  simp only [Function.comp]
  unfold matching
  rw [hfind]
  cases hst : w.find br.key with
  | none => simp [owned, (hp d).1, (hp d).2.1]
  | some st => simp [owned, (hp d).1, (hp d).2.1, (hp d).2.2, (hp st).2.2]

theorem pres_observed : Pres observed := fun d => by
  unfold observed; exact ⟨rfl, rfl, rfl⟩

theorem applyEvent_nodup (br : BR) (ev : Event) (w : World) (exp : Exp) (hnd : (names w).Nodup) :
    (names (applyEvent br ev w exp).1).Nodup := by
  cases ev
  · exact hnd
  · exact hnd
  · show (names { deps := w.deps.map observed }).Nodup
    have : names { deps := w.deps.map observed } = names w := by
      unfold names
      simp only [List.map_map]
      apply List.map_congr_left
      intro d _
      rfl
    rw [this]; exact hnd
  · show (names (w.modify br.key _)).Nodup
    rw [names_modify _ _ _ (by intro d; rfl)]; exact hnd

theorem applyEvent_matchCount (br : BR) (ev : Event) (w : World) (exp : Exp) (hev : ev ≠ .newTemplate) :
    matchCount br (applyEvent br ev w exp).1 = matchCount br w := by
  cases ev
  · rfl
  · rfl
  · exact matchCount_map br w observed (fun _ => rfl) pres_observed
  · exact absurd rfl hev

/-! ## the creation expectation -/

theorem canaryCreate_len (c : Cfg) (br : BR) (s : S) :
    ((canaryCreate c br s).1.w.deps.length = s.w.deps.length) ∨
    (¬ (s.exp = .pending ∧ c.timedOut = false) ∧ (canaryCreate c br s).1.exp = .pending) := by
  unfold canaryCreate
  split
  · left; rfl
  · split
    · left; rfl
    · rename_i hb
      have hb' : ¬ (s.exp = .pending ∧ c.timedOut = false) := by simpa using hb
      dsimp only
      split
      · left; rfl
      · split
        · left; rfl
        · split
          · left; rfl
          · split
            · left; rfl
            · right; exact ⟨hb', rfl⟩

theorem initTail_len (c : Cfg) (br : BR) (s : S) (st : Dep) :
    ((initTail c br s st).1.w.deps.length = s.w.deps.length) ∨
    (¬ (s.exp = .pending ∧ c.timedOut = false) ∧ (initTail c br s st).1.exp = .pending) := by
  unfold initTail
  have h := canaryCreate_len c br s
  generalize canaryCreate c br s = r4 at h ⊢
  obtain ⟨s4, o4⟩ := r4
  dsimp only at h
  cases o4 <;> dsimp only
  · split <;> exact h
  all_goals exact h

theorem modify_length (w : World) (id : Nat) (f : Dep → Dep) : (w.modify id f).deps.length = w.deps.length := by
  unfold World.modify; simp

theorem planeInitialize_len (c : Cfg) (br : BR) (w : World) (exp : Exp) :
    ((planeInitialize c br (S0 w exp)).1.w.deps.length = w.deps.length) ∨
    (¬ (exp = .pending ∧ c.timedOut = false) ∧ (planeInitialize c br (S0 w exp)).1.exp = .pending) := by
  unfold planeInitialize
  have hb := buildStable_spec c br (S0 w exp)
  generalize buildStable c br (S0 w exp) = r1 at hb ⊢
  obtain ⟨s1, o1⟩ := r1
  simp only [S0] at hb
  obtain ⟨hw1, he1, hca1, _, _, _, _⟩ := hb
  cases o1 with
  | fail x => left; dsimp only; rw [hw1]
  | ok st0 =>
    dsimp only
    have hi := stableInitialize_spec c br s1 st0
    generalize stableInitialize c br s1 st0 = r2 at hi ⊢
    obtain ⟨s2, o2⟩ := r2
    simp only at hi
    obtain ⟨hw2, he2, _, hca2, _, _⟩ := hi
    have hlen2 : s2.w.deps.length = w.deps.length := by
      rcases hw2 with h | ⟨_, h⟩
      · rw [h, hw1]
      · rw [h, modify_length, hw1]
    cases o2
    case err => left; exact hlen2
    case notFound => left; exact hlen2
    case panic => left; exact hlen2
    case ok =>
      dsimp only
      have hcan2 : s2.canary = none := by rw [hca2, hca1]
      have hc := buildCanary_spec c br s2 hcan2
      generalize buildCanary c br s2 = r3 at hc ⊢
      obtain ⟨s3, o3⟩ := r3
      simp only at hc
      obtain ⟨hw3, he3, _, _, _, _, _⟩ := hc
      have hexp3 : s3.exp = exp := by rw [he3, he2, he1]
      have hlen3 : s3.w.deps.length = w.deps.length := by rw [hw3, hlen2]
      have tail : ((initTail c br s3 st0).1.w.deps.length = w.deps.length) ∨
          (¬ (exp = .pending ∧ c.timedOut = false) ∧ (initTail c br s3 st0).1.exp = .pending) := by
        rcases initTail_len c br s3 st0 with h | h
        · left; rw [h, hlen3]
        · right; rw [hexp3] at h; exact h
      cases o3 with
      | ok cd => exact tail
      | fail x =>
        cases x
        case err => left; exact hlen3
        case panic => left; exact hlen3
        all_goals exact tail

theorem matchCount_batch (br : BR) (b : Int) (w : World) :
    matchCount { br with currentBatch := b } w = matchCount br w := rfl


/-- one call keeps every owned Deployment's replicas under a bound that covers the step's target -/
theorem call_replicas_bound (br : BR) (op : Op) (c : Cfg) (w : World) (exp : Exp) (B : Int)
    (hnd : namesNodup w = true) (hB0 : 0 ≤ B)
    (htgt : ∀ t, target br w = some t → t ≤ B)
    (h0 : ∀ d ∈ w.deps, d.owner = .this → ∀ r, d.replicas = some r → r ≤ B) :
    ∀ d ∈ (call br op c w exp).w.deps, d.owner = .this → ∀ r, d.replicas = some r → r ≤ B := by
  have hndw := (namesNodup_iff w).mp hnd
  obtain ⟨id, f, ids, hf, hwhich, hids, hworld⟩ := call_shape br op c w exp
  have hp : Pres f := which_pres hwhich
  have hafter := shape_after hf hworld
  intro d' hd' hown r hr
  rcases mem_after hf hndw hafter hd' with ⟨d, hd, heff, _⟩ | ⟨_, ⟨_, _, st, _, hnew, _⟩, _, _, _⟩
  · have hrep : d'.replicas = (if d.name = id then f d else d).replicas := by
      rcases eff_some heff with h | ⟨_, h⟩ <;> rw [h]
    have hown' : d.owner = .this := by rw [← (eff_pres hp heff).1]; exact hown
    rw [hrep] at hr
    rcases hwhich with rfl | ⟨_, _, rfl⟩ | ⟨_, _, rfl⟩ | ⟨_, cd, t, cur, st, rfl, rfl, _, _, _, htg, _, _, _⟩
    · exact h0 d hd hown' r (by simpa using hr)
    · exact h0 d hd hown' r (by split at hr <;> exact hr)
    · exact h0 d hd hown' r (by split at hr <;> exact hr)
    · split at hr
      · simp only [setReplicas, Option.some.injEq] at hr
        rw [← hr]; exact htgt t htg
      · exact h0 d hd hown' r hr
  · obtain ⟨tp, _, rfl⟩ := newCanary_some hnew
    simp only [Option.some.injEq] at hr
    omega


/-! ## WaitResume: `Finalize` returning nil means the stored stable Deployment is resumed -/

theorem stableFinalize_wait (c : Cfg) (br : BR) (s : S) (hok : (stableFinalize c br s).2 = .ok)
    (hwr : br.waitResume = true) (hst : s.stable ≠ none) :
    ∃ d, (stableFinalize c br s).1.w.find br.key = some d ∧ waitAllUpdatedAndReady d = .ok := by
  unfold stableFinalize at hok ⊢
  cases hs : s.stable with
  | none => exact absurd hs hst
  | some st0 =>
    simp only [hs] at hok ⊢
    by_cases ht : (c.tick true s.n).1 = true
    · simp only [ht, if_true] at hok; cases hok
    · simp only [ht, hwr, if_true, if_false] at hok ⊢
      simp only [Bool.false_eq_true, if_false] at hok ⊢
      cases hd : (s.w.modify br.key (releaseStable br.partition.isSome)).find br.key with
      | none => rw [hd] at hok; cases hok
      | some d =>
        rw [hd] at hok
        exact ⟨d, hd, hok⟩

theorem finTail_wait (c : Cfg) (br : BR) (s : S) (hok : (finTail c br s).2 = .ok)
    (hwr : br.waitResume = true) (hst : s.stable ≠ none) :
    ∃ d, (s.w.modify br.key (releaseStable br.partition.isSome)).find br.key = some d ∧
      waitAllUpdatedAndReady d = .ok := by
  unfold finTail at hok
  have hspec := stableFinalize_spec c br s
  have hwait := stableFinalize_wait c br s
  generalize stableFinalize c br s = r2 at hok hspec hwait
  obtain ⟨s2, o2⟩ := r2
  simp only at hspec hwait
  obtain ⟨_, _, _, _, hw⟩ := hspec
  cases o2
  case ok =>
    obtain ⟨d, hd, hwd⟩ := hwait rfl hwr hst
    rcases hw with ⟨_, h⟩ | ⟨_, h⟩
    · exact absurd (h rfl) hst
    · rw [h] at hd; exact ⟨d, hd, hwd⟩
  all_goals (dsimp only at hok; cases hok)

theorem planeFinalize_wait (c : Cfg) (br : BR) (w : World) (exp : Exp)
    (hok : (planeFinalize c br (S0 w exp)).2 = .ok) (hwr : br.waitResume = true) :
    w.find br.key = none ∨
    ∃ d, (w.modify br.key (releaseStable br.partition.isSome)).find br.key = some d ∧
      waitAllUpdatedAndReady d = .ok := by
  unfold planeFinalize at hok
  have hb := buildStable_spec c br (S0 w exp)
  have hno := buildStable_not_failok c br (S0 w exp)
  generalize buildStable c br (S0 w exp) = r1 at hok hb hno
  obtain ⟨s1, o1⟩ := r1
  simp only [S0] at hb hno
  obtain ⟨hw1, _, _, _, hokb, _, hnf⟩ := hb
  cases o1 with
  | ok st =>
    dsimp only at hok
    right
    have hs1 : s1.stable ≠ none := by rw [(hokb st rfl).1]; simp
    have := finTail_wait c br s1 hok hwr hs1
    rw [hw1] at this
    exact this
  | fail x =>
    cases x
    case err => dsimp only at hok; cases hok
    case panic => dsimp only at hok; cases hok
    case ok => exact absurd rfl hno
    case notFound => left; exact (hnf rfl).2

/-- the wait looks at nothing the finalizer removals touch -/
theorem wait_dropFn {ids : List Nat} {d d' : Dep} (h : dropFn ids d = some d') :
    waitAllUpdatedAndReady d' = waitAllUpdatedAndReady d := by
  rcases dropFn_some h with h | ⟨_, h⟩ <;> subst h <;> rfl

end RV.CtlCanary
