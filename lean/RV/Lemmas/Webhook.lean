import RV.Model.Webhook
import RV.Oracle.C08
/-!
Helper lemmas for C08: the handlers' loops and comparison chains equal their
specification-level counterparts of `RV.Oracle.C08`.
-/
set_option linter.unusedSimpArgs false
namespace RV.Webhook
open RV.Arith RV.Oracle.C08

/-- `EqualIgnoreHash` compares the templates up to the hash label. -/
theorem equalIgnoreHash_iff (a b : Tmpl) : equalIgnoreHash a b = (a.body == b.body) := by
  cases a with | mk b1 h1 => cases b with | mk b2 h2 =>
  by_cases h : b1 = b2
  · simp [equalIgnoreHash, h]
  · have hne : ({ body := b1, hash := "" } : Tmpl) ≠ { body := b2, hash := "" } := by
      intro e; injection e with e1 _; exact h e1
    have e1 : (({ body := b1, hash := "" } : Tmpl) == { body := b2, hash := "" }) = false := by
      rw [beq_eq_false_iff_ne]; exact hne
    have e2 : (b1 == b2) = false := by rw [beq_eq_false_iff_ne]; exact h
    simp only [equalIgnoreHash]
    rw [e1, e2]

/-- the two-branch comparison chain of the handlers is "release change" -/
theorem isEffective_eq (old new : Obj) : isEffectiveRevisionChange old new = releaseChange old new := by
  unfold isEffectiveRevisionChange releaseChange
  rw [equalIgnoreHash_iff]
  by_cases h : new.rolloutId = "" <;> by_cases h2 : old.rolloutId = new.rolloutId <;>
    by_cases h3 : old.tmpl.body = new.tmpl.body <;> simp [h, h2, h3]

/-- the loop of `fetchMatchedRollout` returns the first active Rollout referencing the object -/
theorem fetch_eq (o : Obj) (rs : List Rollout) : fetchMatchedRollout o rs = matchedRollout o rs := by
  induction rs with
  | nil => rfl
  | cons r rs ih =>
    unfold fetchMatchedRollout matchedRollout
    simp only [List.find?_cons]
    unfold matchedRollout at ih
    by_cases hd : r.deleting = true
    · simp [hd, active, ih]
    · by_cases hp : r.phaseDisabled = true
      · simp [hd, hp, active, ih]
      · cases hg : parseGroupVersion r.refApiVersion with
        | none => simp [hd, hp, active, refMatches, hg, ih]
        | some g =>
          have hiff : (active r && refMatches o r) = (o.group == g && o.kind == r.refKind && o.name == r.refName) := by
            simp only [active, refMatches, hg]
            grind
          by_cases hm : (o.group == g && o.kind == r.refKind && o.name == r.refName) = true
          · simp [hd, hp, hm, hiff]
          · simp [hd, hp, hm, hiff, ih]

theorem matched_mem {o : Obj} {rs : List Rollout} {r : Rollout} (h : matchedRollout o rs = some r) :
    r ∈ rs ∧ active r = true ∧ refMatches o r = true := by
  unfold matchedRollout at h
  have h1 := List.mem_of_find?_eq_some h
  have h2 := List.find?_some h
  simp at h2
  exact ⟨h1, h2.1, h2.2⟩

/-! ### ReplicaSets -/

theorem getRS_eq (rq : Req) : getReplicaSetsForDeployment rq.rss = activeRS rq := by
  unfold getReplicaSetsForDeployment activeRS
  apply List.filter_congr
  intro rs _
  cases rs.selected <;> cases rs.deleting <;> cases h : (rs.replicas == some 0) <;>
    cases h2 : (rs.ctrl == Ctrl.same) <;> simp_all

theorem mem_insRev (x y : RS) (l : List RS) : y ∈ insRev x l ↔ y = x ∨ y ∈ l := by
  induction l with
  | nil => simp [insRev]
  | cons z zs ih =>
    unfold insRev
    split
    · simp only [List.mem_cons, ih]; grind
    · simp only [List.mem_cons]

theorem mem_foldl_insRev (y : RS) (l acc : List RS) :
    y ∈ l.foldl (fun accRev x => insRev x accRev) acc ↔ y ∈ l ∨ y ∈ acc := by
  induction l generalizing acc with
  | nil => simp
  | cons x xs ih => simp only [List.foldl_cons, ih, mem_insRev, List.mem_cons]; grind

theorem mem_sortRS (y : RS) (l : List RS) : y ∈ sortRS l ↔ y ∈ l := by
  simp [sortRS, mem_foldl_insRev]

/-- `FindCanaryAndStableReplicaSet` does not dereference nil when every ReplicaSet has `spec.replicas`. -/
theorem findLoop_isSome (b : Nat) (l : List RS) (n o : Option RS)
    (h : ∀ rs ∈ l, rs.replicas.isSome = true) : (findLoop b l n o).isSome = true := by
  induction l generalizing n o with
  | nil => simp [findLoop]
  | cons rs rest ih =>
    have hr := h rs (List.mem_cons_self ..)
    have ht : ∀ x ∈ rest, x.replicas.isSome = true := fun x hx => h x (List.mem_cons_of_mem _ hx)
    unfold findLoop
    split
    · exact ih _ _ ht
    · split
      · cases hrep : rs.replicas with
        | none => simp [hrep] at hr
        | some r => simp only []; split <;> exact ih _ _ ht
      · exact ih _ _ ht

/-- the "stable" ReplicaSet found is one of the list whose template differs from the Deployment's -/
theorem findLoop_stable (b : Nat) (P : RS → Prop) (l : List RS) (n o : Option RS) (res : Option RS × Option RS)
    (h : findLoop b l n o = some res)
    (hl : ∀ rs ∈ l, rs.tmplBody ≠ b → P rs) (ho : ∀ s, o = some s → P s) :
    ∀ s, res.2 = some s → P s := by
  induction l generalizing n o with
  | nil => simp [findLoop] at h; subst h; exact ho
  | cons rs rest ih =>
    have ht : ∀ x ∈ rest, x.tmplBody ≠ b → P x := fun x hx => hl x (List.mem_cons_of_mem _ hx)
    unfold findLoop at h
    split at h
    · exact ih _ _ h ht ho
    · rename_i hne
      have hP : P rs := hl rs (List.mem_cons_self ..) (by simpa using hne)
      split at h
      · cases hrep : rs.replicas with
        | none => simp [hrep] at h
        | some r =>
          simp only [hrep] at h
          split at h
          · exact ih _ _ h ht (fun s hs => by cases hs; exact hP)
          · exact ih _ _ h ht ho
      · exact ih _ _ h ht ho

theorem findCanary_stable (rq : Req) (a : Option RS) (s : RS)
    (h : findCanaryAndStableReplicaSet (activeRS rq) rq.new = some (a, some s)) :
    s ∈ activeRS rq ∧ s.tmplBody ≠ rq.new.tmpl.body := by
  unfold findCanaryAndStableReplicaSet at h
  refine findLoop_stable rq.new.tmpl.body (fun x => x ∈ activeRS rq ∧ x.tmplBody ≠ rq.new.tmpl.body)
    _ none none _ h ?_ ?_ s rfl
  · intro rs hrs hne
    exact ⟨(mem_sortRS rs _).mp hrs, hne⟩
  · intro s hs; cases hs

theorem findCanary_isSome (rq : Req) (h : rq.rss.all (fun rs => rs.replicas.isSome) = true) :
    (findCanaryAndStableReplicaSet (activeRS rq) rq.new).isSome = true := by
  unfold findCanaryAndStableReplicaSet
  apply findLoop_isSome
  intro rs hrs
  rw [mem_sortRS] at hrs
  have : rs ∈ rq.rss := (List.mem_filter.mp hrs).1
  exact List.all_eq_true.mp h rs this

/-! ### routing -/

theorem wkind_deployment {rq : Req} (h : wkind rq = .deployment) :
    rq.unified = false ∧ rq.new.group = "apps" ∧ rq.new.kind = "Deployment" := by
  unfold wkind isDeployment isCloneSet isDaemonSet at h
  repeat' (split at h)
  all_goals simp_all

theorem wkind_cloneSet {rq : Req} (h : wkind rq = .cloneSet) :
    rq.unified = false ∧ rq.new.group = "apps.kruise.io" ∧ rq.new.kind = "CloneSet" := by
  unfold wkind isDeployment isCloneSet isDaemonSet at h
  repeat' (split at h)
  all_goals simp_all

theorem wkind_daemonSet {rq : Req} (h : wkind rq = .daemonSet) :
    rq.unified = false ∧ rq.new.group = "apps.kruise.io" ∧ rq.new.kind = "DaemonSet" := by
  unfold wkind isDeployment isCloneSet isDaemonSet at h
  repeat' (split at h)
  all_goals simp_all

theorem wkind_stsLike {rq : Req} (h : wkind rq = .stsLike) :
    rq.unified = true ∧ dispatchUnified rq = finish (handleStatefulSetLike rq.new rq.old rq.oldMetaPresent rq.rollouts) := by
  unfold wkind isDeployment isCloneSet isDaemonSet at h
  unfold dispatchUnified isStatefulSetType
  repeat' (split at h)
  all_goals simp_all
  all_goals grind

theorem wkind_notHandled {rq : Req} (h : wkind rq = .notHandled) :
    (if rq.unified then dispatchUnified rq else dispatchWorkload rq) = .allowed := by
  unfold wkind isDeployment isCloneSet isDaemonSet at h
  unfold dispatchUnified dispatchWorkload isStatefulSetType
  repeat' (split at h)
  all_goals simp_all
  all_goals grind

theorem dispatch_deployment {rq : Req} (h : wkind rq = .deployment) :
    dispatchWorkload rq = finish (handleDeployment rq.new rq.old rq.rollouts rq.rss) := by
  obtain ⟨_, hg, hk⟩ := wkind_deployment h
  simp [dispatchWorkload, hg, hk]

theorem dispatch_cloneSet {rq : Req} (h : wkind rq = .cloneSet) :
    dispatchWorkload rq = finish (handleCloneSet rq.new rq.old rq.rollouts) := by
  obtain ⟨_, hg, hk⟩ := wkind_cloneSet h
  simp [dispatchWorkload, hg, hk]

theorem dispatch_daemonSet {rq : Req} (h : wkind rq = .daemonSet) :
    dispatchWorkload rq = dispatchDaemonSet rq := by
  obtain ⟨_, hg, hk⟩ := wkind_daemonSet h
  simp [dispatchWorkload, hg, hk]

/-! ### the gate in front of the handlers -/

theorem handle_selected {rq : Req} (hs : selected rq = true) :
    handle rq = if rq.dryRunSet then (if rq.unified then dispatchUnified rq else dispatchWorkload rq) else .panic := by
  unfold selected at hs
  unfold handle handleUnified handleWorkload checkWorkloadRules
  cases hc : rq.cfg with
  | none => simp [hc] at hs
  | some whs =>
    simp only [hc, Bool.and_eq_true, beq_iff_eq] at hs
    obtain ⟨⟨h1, h2⟩, h3⟩ := hs
    cases hd : rq.dryRunSet <;> cases hu : rq.unified <;> simp [h1, h2, h3]

theorem handle_unselected {rq : Req} (hs : selected rq = false) :
    handle rq = .allowed ∨ (handle rq = .errored ∧ rq.cfg = none ∧ rq.op = "UPDATE" ∧ rq.subResource = "")
      ∨ (handle rq = .panic ∧ rq.dryRunSet = false) := by
  unfold selected at hs
  unfold handle handleUnified handleWorkload checkWorkloadRules
  by_cases h1 : rq.op = "UPDATE" <;> by_cases h2 : rq.subResource = "" <;>
    cases hu : rq.unified <;> simp [h1, h2]
  all_goals
    cases hc : rq.cfg with
    | none => simp
    | some whs =>
      simp only [hc, h1, h2, beq_self_eq_true, Bool.true_and] at hs
      cases hd : rq.dryRunSet <;> simp [hs]

/-! ### the four handlers in terms of `mustHoldRollout` -/

theorem handleCloneSet_eq {rq : Req} (hk : wkind rq = .cloneSet) (hs : selected rq = true) :
    handleCloneSet rq.new rq.old rq.rollouts =
      match mustHoldRollout rq with
      | none => .ok false rq.new
      | some r => .ok true { rq.new with csPartition := some (.pct 100), inProgress := .rollout r.name } := by
  unfold handleCloneSet mustHoldRollout eligible singleRevision hasTrafficRoutings
  rw [isEffective_eq, fetch_eq]
  simp only [hk, hs]
  cases h0 : (rq.new.replicas == some 0) <;> cases hrc : releaseChange rq.old rq.new <;>
    cases hm : matchedRollout rq.new rq.rollouts <;> simp_all
  rename_i r
  cases he : r.emptyRelease <;> cases ht : r.hasTraffic <;>
    by_cases hst : rq.new.statusReplicas = rq.new.statusUpdated <;> simp_all

theorem isEffective_us (old new : Obj) (us : UpdStrat) :
    isEffectiveRevisionChange old { new with us := us } = isEffectiveRevisionChange old new := rfl

theorem fetch_us (new : Obj) (us : UpdStrat) (rs : List Rollout) :
    fetchMatchedRollout { new with us := us } rs = fetchMatchedRollout new rs := by
  induction rs with
  | nil => rfl
  | cons r rs ih => unfold fetchMatchedRollout; simp only [ih]

theorem dispatchDaemonSet_eq {rq : Req} (hk : wkind rq = .daemonSet) (hs : selected rq = true) :
    dispatchDaemonSet rq =
      if !(typedUSOk rq.new.us && typedUSOk rq.old.us) then .errored
      else match mustHoldRollout rq with
        | none => .allowed
        | some r =>
          match rq.new.us with
          | .present t (.present _) =>
            .patched { rq.new with us := .present t (.present (some maxInt16)), inProgress := .rollout r.name }
          | _ => .panic := by
  unfold dispatchDaemonSet
  have key : ∀ us, finish (handleDaemonSet { rq.new with us := us } rq.old rq.rollouts) =
      match mustHoldRollout rq with
      | none => .allowed
      | some r =>
        match us with
        | .present t (.present _) =>
          .patched { rq.new with us := .present t (.present (some maxInt16)), inProgress := .rollout r.name }
        | _ => .panic := by
    intro us
    unfold handleDaemonSet mustHoldRollout eligible singleRevision
    rw [isEffective_us, fetch_us, isEffective_eq, fetch_eq]
    simp only [hk, hs]
    cases hrc : releaseChange rq.old rq.new <;> cases hm : matchedRollout rq.new rq.rollouts <;> simp_all [finish]
    rename_i r
    cases he : r.emptyRelease <;> simp_all
    rcases us with _ | _ | ⟨t, _ | _ | p⟩ <;> simp
  cases hn : rq.new.us with
  | absent =>
    cases ho : rq.old.us with
    | absent => simp [decodeTypedUS, typedUSOk, key]
    | malformed => simp [decodeTypedUS, typedUSOk]
    | present t ru => cases ru <;> simp [decodeTypedUS, typedUSOk, key]
  | malformed => cases ho : rq.old.us <;> simp [decodeTypedUS, typedUSOk]
  | present t ru =>
    cases ru with
    | malformed => cases ho : rq.old.us <;> simp [decodeTypedUS, typedUSOk]
    | absent =>
      cases ho : rq.old.us with
      | absent => simp [decodeTypedUS, typedUSOk, key]
      | malformed => simp [decodeTypedUS, typedUSOk]
      | present t' ru' => cases ru' <;> simp [decodeTypedUS, typedUSOk, key]
    | present p =>
      cases ho : rq.old.us with
      | absent => simp [decodeTypedUS, typedUSOk, key]
      | malformed => simp [decodeTypedUS, typedUSOk]
      | present t' ru' => cases ru' <;> simp [decodeTypedUS, typedUSOk, key]

theorem isStsRolling_eq (o : Obj) : isStatefulSetRollingUpdate o = stsRolling o.us := by
  unfold isStatefulSetRollingUpdate stsRolling
  cases o.us <;> rfl

theorem getReplicas_zero (o : Obj) : (getReplicasUnstructured o == 0) = (o.replicas == some 0) := by
  unfold getReplicasUnstructured
  cases h : o.replicas with
  | none => simp
  | some r => by_cases h0 : r = 0 <;> simp [h0]

theorem handleSts_eq {rq : Req} (hk : wkind rq = .stsLike) (hs : selected rq = true) :
    finish (handleStatefulSetLike rq.new rq.old rq.oldMetaPresent rq.rollouts) =
      if eligible rq && rq.new.rolloutId != "" && !rq.oldMetaPresent then .panic
      else match mustHoldRollout rq with
        | none => .allowed
        | some r => .patched { rq.new with us := setStatefulSetPartition rq.new.us maxInt16,
                                            inProgress := .rollout r.name } := by
  unfold handleStatefulSetLike mustHoldRollout eligible singleRevision
  rw [isEffective_eq, fetch_eq, isStsRolling_eq, getReplicas_zero]
  simp only [hk, hs]
  cases h0 : (rq.new.replicas == some 0) <;> cases hr : stsRolling rq.new.us <;>
    cases hot : rq.old.tmplPresent <;> cases hnt : rq.new.tmplPresent <;> simp_all [finish]
  by_cases hid : rq.new.rolloutId = "" <;> cases hom : rq.oldMetaPresent <;> simp_all [finish]
  all_goals
    cases hrc : releaseChange rq.old rq.new <;> cases hm : matchedRollout rq.new rq.rollouts <;> simp_all [finish]
  all_goals
    rename_i r
    cases he : r.emptyRelease <;> simp_all [finish]

theorem handleDeployment_eq {rq : Req} (hk : wkind rq = .deployment) (hs : selected rq = true)
    (hip : rq.new.inProgress = .absent) :
    finish (handleDeployment rq.new rq.old rq.rollouts rq.rss) =
      match mustHoldRollout rq with
      | none => .allowed
      | some r =>
        match findCanaryAndStableReplicaSet (activeRS rq) rq.new with
        | none => .panic
        | some (_, none) => .patched { rq.new with paused := true, inProgress := .rollout r.name }
        | some (_, some s) =>
          .patched { rq.new with stableRev := s.hashLabel, paused := true, inProgress := .rollout r.name } := by
  unfold handleDeployment mustHoldRollout eligible singleRevision hasTrafficRoutings
  rw [isEffective_eq, fetch_eq, getRS_eq]
  simp only [hk, hs, hip]
  generalize hf : findCanaryAndStableReplicaSet (activeRS rq) rq.new = f
  have hlen : ((activeRS rq).length == 0) = (activeRS rq).isEmpty := by cases activeRS rq <;> simp
  rw [hlen]
  cases h0 : (rq.new.replicas == some 0) <;> cases hrc : releaseChange rq.old rq.new <;>
    cases hm : matchedRollout rq.new rq.rollouts <;> simp_all [finish]
  all_goals rename_i r
  all_goals cases he : r.emptyRelease <;> simp_all [finish]
  all_goals cases hl : (activeRS rq).isEmpty <;> simp_all [finish]
  all_goals cases ht : r.hasTraffic <;> simp_all [finish]
  all_goals try (by_cases h1 : (activeRS rq).length = 1 <;> simp_all [finish])
  all_goals rcases f with _ | ⟨a, _ | s⟩ <;> simp [finish]

theorem mustHold_selected {rq : Req} {r : Rollout} (hm : mustHoldRollout rq = some r) :
    selected rq = true ∧ eligible rq = true := by
  unfold mustHoldRollout at hm; split at hm <;> simp_all

/-! ### in-progress Deployments -/

theorem isPartitionStyle_eq (o : Obj) : isPartitionStyle (getDeploymentStrategy o) = partitionStyle o := by
  unfold isPartitionStyle getDeploymentStrategy partitionStyle
  cases o.stratAnno <;> simp [DepStrategy.zero] <;> decide +kernel

theorem handleDeployment_inProgress {new old : Obj} {ros : List Rollout} {rss : List RS}
    (h : new.inProgress ≠ .absent) :
    handleDeployment new old ros rss = handleDeploymentInProgress new old := by
  unfold handleDeployment
  simp [h]

/-- The in-progress branch never fails, touches only `paused`, `strategy` and the strategy
    annotation, and leaves the Deployment paused in a canary- or partition-style release and on
    every release change. -/
theorem inProgress_spec (new old : Obj) :
    ∃ c o, handleDeploymentInProgress new old = .ok c o
      ∧ { o with paused := new.paused, stratType := new.stratType, stratRU := new.stratRU,
                 stratAnno := new.stratAnno } = new
      ∧ ((repauseStyle new = true ∨ releaseChange old new = true) →
            o.paused = true ∧ (c = false → new.paused = true)) := by
  cases new with
  | mk g k n wt rep rid tp t ip pa st sru sa hos sr csp sR sU us rest =>
  simp only [handleDeploymentInProgress, isPartitionStyle_eq, repauseStyle, isEffective_eq]
  generalize partitionStyle _ = ps
  cases ps
  · cases hos
    · -- canary style
      simp only [Bool.false_eq_true, if_false]
      refine ⟨_, _, rfl, ?_, ?_⟩
      · split <;> rfl
      · intro _; constructor
        · split <;> rfl
        · cases pa <;> simp
    · -- blue-green style
      simp only [Bool.false_eq_true, if_false, if_true]
      refine ⟨_, _, rfl, ?_, ?_⟩
      · split <;> split <;> rfl
      · intro h
        simp only [Bool.false_or, Bool.not_true, Bool.false_eq_true, false_or] at h
        simp only [h, if_true]
        constructor
        · split <;> rfl
        · simp
  · -- partition style
    simp only [if_true]
    refine ⟨_, _, rfl, ?_, ?_⟩
    · split <;> rfl
    · intro _; constructor
      · split <;> rfl
      · cases pa <;> simp

end RV.Webhook
