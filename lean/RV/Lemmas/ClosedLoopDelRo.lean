/-
  Deletion of the Rollout, label `ro`: one Rollout reconcile of a Rollout that is being deleted (or is gone) preserves
  the deletion invariant `delInv` and cannot crash.
-/
import RV.Lemmas.ClosedLoopStepRo
namespace RV.Lemmas.ClosedLoop
open RV.Arith RV.Traffic RV.RolloutSM RV.ClosedLoop RV.Oracle.ClosedLoop RV.Oracle.Batch RV.Props.Reconcile

/-! ### the invariant in parts -/

/-- the rollouts the deletion theorems speak about: being deleted, still carrying the finalizer, otherwise as `RoGood` -/
structure DelroGood (ro : Rollout) : Prop where
  deleting : ro.deleting = true
  fin : ro.hasFinalizer = true
  enabled : ro.disabled = false
  unpaused : ro.paused = false
  canary : ro.style = .canary
  partitionStyle : ro.realPartition = true
  steps : ro.steps ≠ []

theorem del_delOK_iff (ro : Rollout) : delOK ro = true ↔ DelroGood ro := by
  unfold delOK
  constructor
  · intro h
    simp only [Bool.and_eq_true, Bool.not_eq_true', beq_iff_eq, List.isEmpty_eq_false_iff] at h
    obtain ⟨⟨⟨⟨⟨⟨h1, h2⟩, h3⟩, h4⟩, h5⟩, h6⟩, h7⟩ := h
    exact ⟨h1, h2, h3, h4, h5, h6, h7⟩
  · rintro ⟨h1, h2, h3, h4, h5, h6, h7⟩
    simp [h1, h2, h3, h4, h5, h6, h7]

theorem DelroGood.of_same {a b : Rollout} (g : DelroGood a) (h : Same a b) (hf : b.hasFinalizer = true) : DelroGood b := by
  obtain ⟨h1, _, h3, h4, _, _, _, h8, h9, h10⟩ := h
  exact ⟨by rw [h9]; exact g.deleting, hf, by rw [h8]; exact g.enabled, by rw [h4]; exact g.unpaused,
    by rw [h3]; exact g.canary, by rw [h10]; exact g.partitionStyle, by rw [h1]; exact g.steps⟩

/-- the phase-dependent part of `delInv` -/
def delro_ph (s : CS) (w : CWl) : Bool :=
  match s.ro.phase with
  | .healthy => true
  | .progressing => phaseInv s w
  | .terminating => s.ro.term != .none
  | _ => false

theorem del_parts (s : CS) :
    delInv s = true ↔ ∃ w, s.wl = some w ∧ wlOK w = true ∧ planMono w.replicas (planOf s.ro) = true ∧ brOKo s.br = true ∧
      (s.gone = true ∨ (DelroGood s.ro ∧ delro_ph s w = true)) := by
  unfold delInv
  cases hw : s.wl with
  | none => simp
  | some w =>
    rw [← del_delOK_iff]
    simp only [Bool.and_eq_true, Bool.or_eq_true, and_assoc, Option.some.injEq, exists_eq_left']
    rfl

theorem delro_ph_prog (s : CS) (w : CWl) (h : s.ro.phase = .progressing) : delro_ph s w = phaseInv s w := by
  unfold delro_ph; rw [h]

theorem delro_ph_term (s : CS) (w : CWl) (h : s.ro.phase = .terminating) : delro_ph s w = (s.ro.term != .none) := by
  unfold delro_ph; rw [h]

theorem delro_ph_term' (s : CS) (w : CWl) (h : s.ro.phase = .terminating) (h2 : s.ro.term ≠ .none) : delro_ph s w = true := by
  rw [delro_ph_term s w h]
  simpa using h2

/-! ### the finalizer and the status calculation of a rollout under deletion -/

theorem delro_hf (ro : Rollout) (hg : DelroGood ro) :
    ∃ f g ws, handleFinalizer ro = ({ ro with hasFinalizer := f }, g, ws) ∧ (g = false → f = true) := by
  unfold handleFinalizer
  rw [if_pos hg.deleting]
  by_cases ht : ro.term = .completed
  · rw [if_pos ⟨ht, hg.fin⟩]
    exact ⟨false, true, _, rfl, fun h => by cases h⟩
  · rw [if_neg (fun h => ht h.1)]
    refine ⟨true, false, [], ?_, fun _ => rfl⟩
    have := hg.fin
    cases ro
    simp only at this
    subst this
    rfl

theorem delro_cs_nt (ro : Rollout) (f : Bool) (wl : Option WL) (hd : ro.deleting = true) (hp : ro.phase ≠ .terminating) :
    calculateStatus { ro with hasFinalizer := f } wl =
      some { ro with hasFinalizer := f, phase := .terminating, term := .inTerminating } := by
  unfold calculateStatus
  rw [if_pos hd, if_pos hp]

theorem delro_cs_t (ro : Rollout) (f : Bool) (wl : Option WL) (hd : ro.deleting = true) (hp : ro.phase = .terminating) :
    calculateStatus { ro with hasFinalizer := f } wl = some { ro with hasFinalizer := f } := by
  unfold calculateStatus
  rw [if_pos hd, if_neg (fun h => h hp)]

/-! ### how the reconcile of a rollout under deletion is computed (any finalizer outcome, any new status): the body
`reconcileCore`; the cursor reset that follows it is handled once, in `del_land` -/

/-- Healthy: only the status is written -/
theorem delro_rec_plain (w : World) (wl : WL) (ro1 ns : Rollout) (g : Bool) (ws0 : List String)
    (hhf : handleFinalizer w.ro = (ro1, g, ws0)) (hwl : w.wl = some wl) (hcs : calculateStatus ro1 (some wl) = some ns)
    (hph : w.ro.phase = .healthy) :
    reconcileCore w = .val { w := { w with ro := ns }, roGone := g, requeue := false, err := false, writes := ws0 } := by
  unfold reconcileCore
  dsimp only
  rw [hhf]
  dsimp only
  rw [hwl, hcs]
  dsimp only
  rw [hph]

/-- Terminating / Completed: only the status is written -/
theorem delro_rec_termc (w : World) (wl : WL) (ro1 ns : Rollout) (g : Bool) (ws0 : List String)
    (hhf : handleFinalizer w.ro = (ro1, g, ws0)) (hwl : w.wl = some wl) (hcs : calculateStatus ro1 (some wl) = some ns)
    (hph : w.ro.phase = .terminating) (ht : w.ro.term = .completed) :
    reconcileCore w = .val { w := { w with ro := ns }, roGone := g, requeue := false, err := false, writes := ws0 } := by
  unfold reconcileCore
  dsimp only
  rw [hhf]
  dsimp only
  rw [hwl, hcs]
  dsimp only
  rw [hph]
  dsimp only
  rw [ht]

/-- Terminating / InTerminating: one clean-up round -/
theorem delro_rec_termi (w : World) (wl : WL) (ro1 ns : Rollout) (g : Bool) (ws0 : List String) (w' : World) (d e : Bool)
    (ws : List String)
    (hhf : handleFinalizer w.ro = (ro1, g, ws0)) (hwl : w.wl = some wl) (hcs : calculateStatus ro1 (some wl) = some ns)
    (hph : w.ro.phase = .terminating) (ht : w.ro.term = .inTerminating)
    (hfz : finalise w ns (some wl) .other false = some (w', d, e, ws)) :
    reconcileCore w =
      if e then .val { w := { w' with ro := ro1 }, roGone := g, requeue := false, err := true, writes := ws0 ++ ws }
      else if d then .val { w := { w' with ro := { w'.ro with term := .completed } }, roGone := g, requeue := false,
                            err := false, writes := ws0 ++ ws }
      else .val { w := w', roGone := g, requeue := true, err := false, writes := ws0 ++ ws } := by
  unfold reconcileCore
  dsimp only
  rw [hhf]
  dsimp only
  rw [hwl, hcs]
  dsimp only
  rw [hph]
  dsimp only
  rw [ht]
  dsimp only
  rw [hfz]

/-- Progressing over a workload whose status lags: only the status is written -/
theorem delro_rec_incons (w : World) (wl : WL) (ro1 ns : Rollout) (g : Bool) (ws0 : List String)
    (hhf : handleFinalizer w.ro = (ro1, g, ws0)) (hwl : w.wl = some wl) (hcs : calculateStatus ro1 (some wl) = some ns)
    (hph : w.ro.phase = .progressing) (hc : wl.consistent = false) :
    reconcileCore w = .val { w := { w with ro := ns }, roGone := g, requeue := false, err := false, writes := ws0 } := by
  unfold reconcileCore
  dsimp only
  rw [hhf]
  dsimp only
  rw [hwl, hcs]
  dsimp only
  rw [hph]
  dsimp only
  rw [if_pos (by simp [hc])]

/-- Progressing / Initializing -/
theorem delro_rec_init (w : World) (wl : WL) (ro1 ns : Rollout) (g : Bool) (ws0 : List String)
    (hhf : handleFinalizer w.ro = (ro1, g, ws0)) (hwl : w.wl = some wl) (hcs : calculateStatus ro1 (some wl) = some ns)
    (hph : w.ro.phase = .progressing) (hc : wl.consistent = true) (hr : w.ro.reason = .initializing)
    (hne : ns.steps ≠ []) :
    reconcileCore w = .val { w := { w with ro := ro1 }, roGone := g, requeue := false, err := true, writes := ws0 } ∨
    reconcileCore w = .val { w := { w with ro := { ns with sub := some (initSub ns wl) } }, roGone := g, requeue := true, err := false, writes := ws0 } ∨
    reconcileCore w = .val { w := { w with ro := { ns with sub := some (initSub ns wl), reason := .inRolling } }, roGone := g, requeue := false, err := false, writes := ws0 } := by
  have hne' : ns.steps.isEmpty = false := by simpa using hne
  unfold reconcileCore
  dsimp only
  rw [hhf]
  dsimp only
  rw [hwl, hcs]
  dsimp only
  rw [hph]
  dsimp only
  rw [if_neg (by simp [hc]), hr]
  dsimp only
  rw [if_neg (by rw [hne']; simp)]
  unfold initSub
  split
  · left; rfl
  · split
    · right; left; rfl
    · right; right; rfl

/-- Progressing / InRolling -/
theorem delro_rec_roll (w : World) (wl : WL) (ro1 ns : Rollout) (g : Bool) (ws0 : List String) (s1 : Sub) (r : StepResult)
    (hhf : handleFinalizer w.ro = (ro1, g, ws0)) (hwl : w.wl = some wl) (hcs : calculateStatus ro1 (some wl) = some ns)
    (hph : w.ro.phase = .progressing) (hc : wl.consistent = true) (hr : w.ro.reason = .inRolling)
    (hs1 : ns.sub = some s1) (hin : inRolling w w.ro ns s1 wl = .val r) :
    reconcileCore w =
      if r.err then .val { w := { r.w with ro := ro1 }, roGone := g, requeue := false, err := true, writes := ws0 ++ r.writes }
      else .val { w := r.w, roGone := g, requeue := r.requeue, err := false, writes := ws0 ++ r.writes } := by
  unfold reconcileCore
  dsimp only
  rw [hhf]
  dsimp only
  rw [hwl, hcs]
  dsimp only
  rw [hph]
  dsimp only
  rw [if_neg (by simp [hc]), hr]
  dsimp only
  rw [hs1]
  dsimp only
  rw [hin]

/-- Progressing / Finalising -/
theorem delro_rec_fin (w : World) (wl : WL) (ro1 ns : Rollout) (g : Bool) (ws0 : List String) (w' : World) (d e : Bool)
    (ws : List String)
    (hhf : handleFinalizer w.ro = (ro1, g, ws0)) (hwl : w.wl = some wl) (hcs : calculateStatus ro1 (some wl) = some ns)
    (hph : w.ro.phase = .progressing) (hc : wl.consistent = true) (hr : w.ro.reason = .finalising)
    (hfz : finalise w ns (some wl) .success true = some (w', d, e, ws)) :
    reconcileCore w =
      if e then .val { w := { w' with ro := ro1 }, roGone := g, requeue := false, err := true, writes := ws0 ++ ws }
      else if d then .val { w := { w' with ro := { w'.ro with reason := .completed, succeeded := some true } }, roGone := g,
                            requeue := false, err := false, writes := ws0 ++ ws }
      else .val { w := w', roGone := g, requeue := true, err := false, writes := ws0 ++ ws } := by
  unfold reconcileCore
  dsimp only
  rw [hhf]
  dsimp only
  rw [hwl, hcs]
  dsimp only
  rw [hph]
  dsimp only
  rw [if_neg (by simp [hc]), hr]
  dsimp only
  rw [hfz]

/-- Progressing / Completed -/
theorem delro_rec_done (w : World) (wl : WL) (ro1 ns : Rollout) (g : Bool) (ws0 : List String)
    (hhf : handleFinalizer w.ro = (ro1, g, ws0)) (hwl : w.wl = some wl) (hcs : calculateStatus ro1 (some wl) = some ns)
    (hph : w.ro.phase = .progressing) (hc : wl.consistent = true) (hr : w.ro.reason = .completed) :
    reconcileCore w = .val { w := { w with ro := { ns with phase := .healthy } }, roGone := g, requeue := false, err := false, writes := ws0 } := by
  unfold reconcileCore
  dsimp only
  rw [hhf]
  dsimp only
  rw [hwl, hcs]
  dsimp only
  rw [hph]
  dsimp only
  rw [if_neg (by simp [hc]), hr]

/-! ### one clean-up round through `finalise` -/

/-- whatever branch `finalise` takes on a canary rollout whose workload exists: nothing removed comes back, the
    BatchRelease is left alone / resumed / deleted, the workload still exists, and of the rollout only the sub-status
    is written -/
theorem delro_finalise (w w' : World) (ns : Rollout) (wl : WL) (reason : Reason) (wr d e : Bool) (ws : List String)
    (hst : ns.style = .canary) (hwl : w.wl = some wl)
    (h : finalise w ns (some wl) reason wr = some (w', d, e, ws)) :
    RV.Props.Cluster.NetLE w.net w'.net ∧ RV.Props.Cluster.BrLE w.br w'.br ∧ BrFin w.br w'.br ∧ (∃ v, w'.wl = some v) ∧
    ∃ sub', w'.ro = { ns with sub := sub' } := by
  unfold finalise at h
  split at h
  · rename_i hn
    cases h
    refine ⟨RV.Props.Cluster.NetLE.refl _, RV.Props.Cluster.BrLE.refl _, BrFin.same _, ⟨wl, hwl⟩, none, ?_⟩
    show ns = _
    rw [← hn]
  · rename_i s1 hs1
    dsimp only at h
    split at h
    · split at h
      · cases h
      · rename_i c d' e' hd
        cases h
        obtain ⟨a1, a2, a3, _⟩ := doFinalising_canary _ c _ _ _ _ hst hd
        exact ⟨a1, a2, a3, ⟨wl, rfl⟩, some c.sub, rfl⟩
    · split at h
      · cases h
      · rename_i c d' e' hd
        cases h
        obtain ⟨a1, a2, a3, _⟩ := doFinalising_canary _ c _ _ _ _ hst hd
        exact ⟨a1, a2, a3, ⟨c.wl, rfl⟩, some c.sub, rfl⟩

/-! ### how a reconcile result lands -/

/-- what every case of the proof starts from: a live state satisfying the deletion invariant, and the outcome of
    `handleFinalizer` (`f`: the finalizer afterwards, `g`: the object disappears) -/
structure DelroCtx (s : CS) (w : CWl) (f g : Bool) (ws0 : List String) : Prop where
  gone : s.gone = false
  good : DelroGood s.ro
  hw : s.wl = some w
  wok : wlOK w = true
  mono : planMono w.replicas (planOf s.ro) = true
  brok : brOKo s.br = true
  hf : handleFinalizer s.ro = ({ s.ro with hasFinalizer := f }, g, ws0)
  gf : g = false → f = true

/-- the general landing: a reconcile result whose BatchRelease / workload writes land as `(br', some w')` -/
theorem del_land_whole (s : CS) (w : CWl) (f g : Bool) (ws0 : List String) (D : DelroCtx s w f g ws0) (r : StepResult)
    (w' : CWl) (br' : Option CBr) (hrec : reconcile (roWorld s) = .val r) (hg : r.roGone = g)
    (hland : landBR s.br r.w.br (annoLand s.wl r.w.wl) = (br', some w'))
    (hsame : Same s.ro r.w.ro) (hfin : r.w.ro.hasFinalizer = f)
    (hwok : wlOK w' = true) (hrep : w'.replicas = w.replicas) (hbr : brOKo br' = true)
    (hph : g = false → delro_ph ⟨false, r.w.ro, some w', br', r.w.net, r.w.mem⟩ w' = true) :
    ∃ s', stepRo s = some s' ∧ delInv s' = true := by
  refine ⟨landRo s r, stepRo_eq s D.gone r hrec, ?_⟩
  have e : landRo s r = ⟨g, r.w.ro, some w', br', r.w.net, r.w.mem⟩ := by
    unfold landRo; rw [hland, hg]
  rw [e, del_parts]
  refine ⟨w', rfl, hwok, ?_, hbr, ?_⟩
  · show planMono w'.replicas (planOf r.w.ro) = true
    rw [planOf_same hsame, hrep]; exact D.mono
  · cases g with
    | true => exact Or.inl rfl
    | false => exact Or.inr ⟨D.good.of_same hsame (hfin.trans (D.gf rfl)), hph rfl⟩

/-- the phase-dependent part of the deletion invariant does not see the cursor reset: where the reset fires the rollout is
    Terminating (or Disabling), and there the invariant does not read the cursor -/
theorem delro_ph_reset (W : World) (r0 : StepResult) (w' : CWl) (br' : Option CBr) :
    delro_ph ⟨false, (resetOnExit W r0).w.ro, some w', br', (resetOnExit W r0).w.net, (resetOnExit W r0).w.mem⟩ w' =
    delro_ph ⟨false, r0.w.ro, some w', br', r0.w.net, r0.w.mem⟩ w' := by
  cases hx : exitsProgressing W r0 with
  | false => rw [resetOnExit_of_not W r0 hx]
  | true =>
    simp only [exitsProgressing, Bool.and_eq_true, Bool.or_eq_true, decide_eq_true_eq] at hx
    unfold delro_ph
    dsimp only
    rw [resetOnExit_phase, resetOnExit_term]
    rcases hx.2 with h | h <;> rw [h]

theorem same_reset (a : Rollout) (W : World) (r0 : StepResult) (h : Same a r0.w.ro) : Same a (resetOnExit W r0).w.ro := by
  rw [resetOnExit_ro]
  split
  · exact h
  · exact h

/-- the general landing: the result `r0` of the body of a reconcile (`reconcileCore`) whose BatchRelease / workload writes land
    as `(br', some w')`; the whole reconcile is `r0` after the cursor reset, which none of the premises sees -/
theorem del_land (s : CS) (w : CWl) (f g : Bool) (ws0 : List String) (D : DelroCtx s w f g ws0) (r0 : StepResult)
    (w' : CWl) (br' : Option CBr) (hrec : reconcileCore (roWorld s) = .val r0) (hg : r0.roGone = g)
    (hland : landBR s.br r0.w.br (annoLand s.wl r0.w.wl) = (br', some w'))
    (hsame : Same s.ro r0.w.ro) (hfin : r0.w.ro.hasFinalizer = f)
    (hwok : wlOK w' = true) (hrep : w'.replicas = w.replicas) (hbr : brOKo br' = true)
    (hph : g = false → delro_ph ⟨false, r0.w.ro, some w', br', r0.w.net, r0.w.mem⟩ w' = true) :
    ∃ s', stepRo s = some s' ∧ delInv s' = true := by
  refine del_land_whole s w f g ws0 D (resetOnExit (roWorld s) r0) w' br' (reconcile_of_core hrec) ?_ ?_ ?_ ?_ hwok hrep hbr ?_
  · rw [resetOnExit_roGone]; exact hg
  · rw [resetOnExit_br, resetOnExit_wl]; exact hland
  · exact same_reset _ _ _ hsame
  · rw [resetOnExit_hasFinalizer]; exact hfin
  · intro hg0; rw [delro_ph_reset]; exact hph hg0

/-- a reconcile that wrote neither the workload nor the BatchRelease -/
theorem del_status (s : CS) (w : CWl) (f g : Bool) (ws0 : List String) (D : DelroCtx s w f g ws0) (r : StepResult)
    (hrec : reconcileCore (roWorld s) = .val r) (hg : r.roGone = g)
    (hwl : r.w.wl = (roWorld s).wl) (hbr : r.w.br = (roWorld s).br)
    (hsame : Same s.ro r.w.ro) (hfin : r.w.ro.hasFinalizer = f)
    (hph : g = false → delro_ph ⟨false, r.w.ro, some w, s.br, r.w.net, r.w.mem⟩ w = true) :
    ∃ s', stepRo s = some s' ∧ delInv s' = true := by
  refine del_land s w f g ws0 D r w s.br hrec hg ?_ hsame hfin D.wok rfl D.brok hph
  rw [hwl, hbr]
  show landBR s.br (s.br.map roBr) (annoLand s.wl (s.wl.map roWl)) = _
  rw [annoLand_id, landBR_id, D.hw]

/-- the finalizer flag is not read by the phase-dependent part -/
theorem del_phaseInv_hf (s : CS) (w w' : CWl) (f gn : Bool) (br : Option CBr) (net : Net) (mem : Mem) :
    phaseInv ⟨gn, { s.ro with hasFinalizer := f }, some w', br, net, mem⟩ w = phaseInv ⟨gn, s.ro, some w', br, net, mem⟩ w := rfl

/-! ### the cases -/

theorem del_healthy (s : CS) (w : CWl) (f g : Bool) (ws0 : List String) (D : DelroCtx s w f g ws0)
    (hph : s.ro.phase = .healthy) : ∃ s', stepRo s = some s' ∧ delInv s' = true := by
  have hcs := delro_cs_nt s.ro f (some (roWl w)) D.good.deleting (by rw [hph]; decide)
  have hrec := delro_rec_plain (roWorld s) (roWl w) _ _ g ws0 D.hf (world_wl s w D.hw) hcs hph
  exact del_status s w f g ws0 D _ hrec rfl rfl rfl ⟨rfl, rfl, rfl, rfl, rfl, rfl, rfl, rfl, rfl, rfl⟩ rfl (fun _ => rfl)

theorem del_incons (s : CS) (w : CWl) (f g : Bool) (ws0 : List String) (D : DelroCtx s w f g ws0)
    (hph : s.ro.phase = .progressing) (hc : (roWl w).consistent = false) : ∃ s', stepRo s = some s' ∧ delInv s' = true := by
  have hcs := delro_cs_nt s.ro f (some (roWl w)) D.good.deleting (by rw [hph]; decide)
  have hrec := delro_rec_incons (roWorld s) (roWl w) _ _ g ws0 D.hf (world_wl s w D.hw) hcs hph hc
  exact del_status s w f g ws0 D _ hrec rfl rfl rfl ⟨rfl, rfl, rfl, rfl, rfl, rfl, rfl, rfl, rfl, rfl⟩ rfl (fun _ => rfl)

theorem del_completed (s : CS) (w : CWl) (f g : Bool) (ws0 : List String) (D : DelroCtx s w f g ws0)
    (hph : s.ro.phase = .progressing) (hc : (roWl w).consistent = true) (hr : s.ro.reason = .completed) :
    ∃ s', stepRo s = some s' ∧ delInv s' = true := by
  have hcs := delro_cs_nt s.ro f (some (roWl w)) D.good.deleting (by rw [hph]; decide)
  have hrec := delro_rec_done (roWorld s) (roWl w) _ _ g ws0 D.hf (world_wl s w D.hw) hcs hph hc hr
  exact del_status s w f g ws0 D _ hrec rfl rfl rfl ⟨rfl, rfl, rfl, rfl, rfl, rfl, rfl, rfl, rfl, rfl⟩ rfl (fun _ => rfl)

theorem del_initializing (s : CS) (w : CWl) (f g : Bool) (ws0 : List String) (D : DelroCtx s w f g ws0)
    (hpi : phaseInv s w = true)
    (hph : s.ro.phase = .progressing) (hc : (roWl w).consistent = true) (hr : s.ro.reason = .initializing) :
    ∃ s', stepRo s = some s' ∧ delInv s' = true := by
  have hcs := delro_cs_nt s.ro f (some (roWl w)) D.good.deleting (by rw [hph]; decide)
  rcases delro_rec_init (roWorld s) (roWl w) _ _ g ws0 D.hf (world_wl s w D.hw) hcs hph hc hr D.good.steps with hrec | hrec | hrec
  · refine del_status s w f g ws0 D _ hrec rfl rfl rfl ⟨rfl, rfl, rfl, rfl, rfl, rfl, rfl, rfl, rfl, rfl⟩ rfl (fun _ => ?_)
    exact (delro_ph_prog _ _ hph).trans hpi
  · exact del_status s w f g ws0 D _ hrec rfl rfl rfl ⟨rfl, rfl, rfl, rfl, rfl, rfl, rfl, rfl, rfl, rfl⟩ rfl (fun _ => rfl)
  · exact del_status s w f g ws0 D _ hrec rfl rfl rfl ⟨rfl, rfl, rfl, rfl, rfl, rfl, rfl, rfl, rfl, rfl⟩ rfl (fun _ => rfl)

/-- how the writes of one clean-up round land: BatchRelease as `fin_land` says, the workload at most loses its annotation -/
theorem del_fin_land (s : CS) (w : CWl) (nb : Option BR) (v : WL) (hw : s.wl = some w) (h : BrFin (s.br.map roBr) nb)
    (hbrok : brOKo s.br = true) :
    ∃ br', landBR s.br nb (annoLand s.wl (some v)) = (br', some { w with inProgressAnno := v.inProgressAnno }) ∧
      brOKo br' = true ∧ RV.Props.Cluster.BrLE nb (br'.map roBr) := by
  obtain ⟨br', h1, h2, h3, _⟩ := fin_land s.br nb (some { w with inProgressAnno := v.inProgressAnno }) h hbrok
  refine ⟨br', ?_, h2, h3⟩
  rw [hw]
  exact h1

theorem del_terminating (s : CS) (w : CWl) (f g : Bool) (ws0 : List String) (D : DelroCtx s w f g ws0)
    (hph : s.ro.phase = .terminating) (hterm : s.ro.term ≠ .none) : ∃ s', stepRo s = some s' ∧ delInv s' = true := by
  have hcs := delro_cs_t s.ro f (some (roWl w)) D.good.deleting hph
  cases ht : s.ro.term with
  | none => exact absurd ht hterm
  | completed =>
    have hrec := delro_rec_termc (roWorld s) (roWl w) _ _ g ws0 D.hf (world_wl s w D.hw) hcs hph ht
    refine del_status s w f g ws0 D _ hrec rfl rfl rfl ⟨rfl, rfl, rfl, rfl, rfl, rfl, rfl, rfl, rfl, rfl⟩ rfl (fun _ => ?_)
    refine delro_ph_term' _ _ ?_ ?_
    · exact hph
    · show s.ro.term ≠ .none
      rw [ht]; decide
  | inTerminating =>
    cases hfz : finalise (roWorld s) { s.ro with hasFinalizer := f } (some (roWl w)) .other false with
    | none => exact absurd hfz (finalise_total _ _ _ _ _ D.good.steps)
    | some x =>
      obtain ⟨w', d, e, ws⟩ := x
      obtain ⟨_, _, hbfin, ⟨v, hv⟩, sub', hro'⟩ :=
        delro_finalise (roWorld s) w' ({ s.ro with hasFinalizer := f } : Rollout) (roWl w) .other false d e ws D.good.canary
          (world_wl s w D.hw) hfz
      have hrec := delro_rec_termi (roWorld s) (roWl w) _ _ g ws0 w' d e ws D.hf (world_wl s w D.hw) hcs hph ht hfz
      obtain ⟨ro', wl', nb, net', mem'⟩ := w'
      have hv' : wl' = some v := hv
      have hro'' : ro' = { s.ro with hasFinalizer := f, sub := sub' } := hro'
      subst hv'
      subst hro''
      obtain ⟨br', hland, hbrok', _⟩ := del_fin_land s w nb v D.hw hbfin D.brok
      cases e with
      | true =>
        rw [if_pos rfl] at hrec
        refine del_land s w f g ws0 D _ _ br' hrec rfl hland ⟨rfl, rfl, rfl, rfl, rfl, rfl, rfl, rfl, rfl, rfl⟩ rfl D.wok rfl hbrok'
          (fun _ => ?_)
        refine delro_ph_term' _ _ ?_ ?_
        · exact hph
        · show s.ro.term ≠ .none
          rw [ht]; decide
      | false =>
        rw [if_neg (by simp)] at hrec
        cases d with
        | true =>
          rw [if_pos rfl] at hrec
          refine del_land s w f g ws0 D _ _ br' hrec rfl hland ⟨rfl, rfl, rfl, rfl, rfl, rfl, rfl, rfl, rfl, rfl⟩ rfl D.wok rfl hbrok'
            (fun _ => ?_)
          refine delro_ph_term' _ _ ?_ ?_
          · exact hph
          · show TermReason.completed ≠ .none
            decide
        | false =>
          rw [if_neg (by simp)] at hrec
          refine del_land s w f g ws0 D _ _ br' hrec rfl hland ⟨rfl, rfl, rfl, rfl, rfl, rfl, rfl, rfl, rfl, rfl⟩ rfl D.wok rfl hbrok'
            (fun _ => ?_)
          refine delro_ph_term' _ _ ?_ ?_
          · exact hph
          · show s.ro.term ≠ .none
            rw [ht]; decide

theorem del_finalising (s : CS) (w : CWl) (f g : Bool) (ws0 : List String) (D : DelroCtx s w f g ws0)
    (hpi : phaseInv s w = true)
    (hph : s.ro.phase = .progressing) (hc : (roWl w).consistent = true) (hr : s.ro.reason = .finalising) :
    ∃ s', stepRo s = some s' ∧ delInv s' = true := by
  cases hs : s.ro.sub with
  | none =>
    unfold phaseInv at hpi
    rw [hph, hr] at hpi
    dsimp only at hpi
    rw [hs] at hpi
    cases hpi
  | some sub =>
    rw [phaseInv_fin s w sub hph hr hs] at hpi
    simp only [Bool.and_eq_true] at hpi
    obtain ⟨hcur, hinv⟩ := hpi
    have hcs := delro_cs_nt s.ro f (some (roWl w)) D.good.deleting (by rw [hph]; decide)
    cases hfz : finalise (roWorld s) { s.ro with hasFinalizer := f, phase := .terminating, term := .inTerminating }
        (some (roWl w)) .success true with
    | none => exact absurd hfz (finalise_total _ _ _ _ _ D.good.steps)
    | some x =>
      obtain ⟨w', d, e, ws⟩ := x
      obtain ⟨hnle, hble, hbfin, ⟨v, hv⟩, sub', hro'⟩ :=
        delro_finalise (roWorld s) w'
          ({ s.ro with hasFinalizer := f, phase := .terminating, term := .inTerminating } : Rollout) (roWl w) .success true d e ws
          D.good.canary (world_wl s w D.hw) hfz
      have hrec := delro_rec_fin (roWorld s) (roWl w) _ _ g ws0 w' d e ws D.hf (world_wl s w D.hw) hcs hph hc hr hfz
      obtain ⟨ro', wl', nb, net', mem'⟩ := w'
      have hv' : wl' = some v := hv
      have hro'' : ro' = { s.ro with hasFinalizer := f, phase := .terminating, term := .inTerminating, sub := sub' } := hro'
      subst hv'
      subst hro''
      obtain ⟨br', hland, hbrok', hble2⟩ := del_fin_land s w nb v D.hw hbfin D.brok
      cases e with
      | true =>
        rw [if_pos rfl] at hrec
        refine del_land s w f g ws0 D _ _ br' hrec rfl hland ⟨rfl, rfl, rfl, rfl, rfl, rfl, rfl, rfl, rfl, rfl⟩ rfl D.wok rfl hbrok'
          (fun _ => ?_)
        refine (delro_ph_prog _ _ ?_).trans ?_
        · exact hph
        · refine (phaseInv_fin _ _ sub ?_ ?_ ?_).trans ?_
          · exact hph
          · exact hr
          · exact hs
          · simp only [Bool.and_eq_true]
            refine ⟨hcur, ?_⟩
            have h1 := RV.Props.Cluster.finInv_mono _ _ _ _ _ _ _ hnle hble hinv
            have h2 := RV.Props.Cluster.finInv_mono _ _ _ _ _ _ _ (RV.Props.Cluster.NetLE.refl _) hble2 h1
            exact (finInv_congr .success s.ro _ _ _ _ rfl rfl rfl).trans h2
      | false =>
        rw [if_neg (by simp)] at hrec
        cases d with
        | true =>
          rw [if_pos rfl] at hrec
          exact del_land s w f g ws0 D _ _ br' hrec rfl hland ⟨rfl, rfl, rfl, rfl, rfl, rfl, rfl, rfl, rfl, rfl⟩ rfl D.wok rfl hbrok'
            (fun _ => rfl)
        | false =>
          rw [if_neg (by simp)] at hrec
          exact del_land s w f g ws0 D _ _ br' hrec rfl hland ⟨rfl, rfl, rfl, rfl, rfl, rfl, rfl, rfl, rfl, rfl⟩ rfl D.wok rfl hbrok'
            (fun _ => rfl)

theorem del_rolling (s : CS) (w : CWl) (f g : Bool) (ws0 : List String) (D : DelroCtx s w f g ws0)
    (hpi : phaseInv s w = true)
    (hph : s.ro.phase = .progressing) (hc : (roWl w).consistent = true) (hr : s.ro.reason = .inRolling) :
    ∃ s', stepRo s = some s' ∧ delInv s' = true := by
  cases hs : s.ro.sub with
  | none =>
    unfold phaseInv at hpi
    rw [hph, hr] at hpi
    dsimp only at hpi
    rw [hs] at hpi
    cases hpi
  | some sub =>
    rw [phaseInv_rolling s w sub hph hr hs] at hpi
    simp only [Bool.and_eq_true] at hpi
    obtain ⟨⟨hsubok, hlink⟩, hwithin⟩ := hpi
    have hsg : SubGood s.ro sub (roWl w).canaryRev := (subOK_iff s.ro sub w).1 hsubok
    have hnr := noRollback w D.wok
    have hcs := delro_cs_nt s.ro f (some (roWl w)) D.good.deleting (by rw [hph]; decide)
    have hin := inRolling_roll (roWorld s)
      ({ s.ro with hasFinalizer := f, phase := .terminating, term := .inTerminating } : Rollout) sub sub (roWl w) hs hnr
      D.good.unpaused hsg.rev.symm hsg.hash
    by_cases hst : sub.state = .completed
    · rw [if_pos hst] at hin
      have hrec := delro_rec_roll (roWorld s) (roWl w) _ _ g ws0 sub _ D.hf (world_wl s w D.hw) hcs hph hc hr hs hin
      rw [if_neg (by simp)] at hrec
      exact del_status s w f g ws0 D _ hrec rfl rfl rfl ⟨rfl, rfl, rfl, rfl, rfl, rfl, rfl, rfl, rfl, rfl⟩ rfl (fun _ => rfl)
    · rw [if_neg hst] at hin
      have hgN : SubGood ({ s.ro with hasFinalizer := f, phase := .terminating, term := .inTerminating } : Rollout)
          (if sub.nextIdx ≤ 0 ∨ sub.nextIdx > (s.ro.steps.length : Int) then
            { sub with nextIdx := nextBatchIndex (s.ro.steps.length : Int) sub.curIdx } else sub) (roWl w).canaryRev := by
        split
        · exact ⟨hsg.lo, hsg.hi, rfl, hsg.lu, hsg.hash, hsg.rev, hsg.fin⟩
        · exact ⟨hsg.lo, hsg.hi, hsg.next, hsg.lu, hsg.hash, hsg.rev, hsg.fin⟩
      have hcurN : (if sub.nextIdx ≤ 0 ∨ sub.nextIdx > (s.ro.steps.length : Int) then
            { sub with nextIdx := nextBatchIndex (s.ro.steps.length : Int) sub.curIdx } else sub).curIdx = sub.curIdx := by
        split <;> rfl
      split at hin
      · rename_i hrc
        exact absurd hrc (runCanary_roll_total _ (roWl w).canaryRev hgN)
      · rename_i c err hrc
        obtain ⟨_, r2, _, _, _, r6⟩ := runCanary_roll _ c err (roWl w).canaryRev hrc hnr hgN
        have r2' : c.wl = roWl w := r2
        have hbr : BrRoll s.ro sub.curIdx (getRolloutID (roWl w)) (s.br.map roBr) c.br := by
          have := r6.congr (ro' := s.ro) rfl
          rw [← hcurN]
          exact this
        obtain ⟨br', o, hland, hbrok', hlink'⟩ :=
          roll_land s.ro (getRolloutID (roWl w)) sub sub s.br c.br w D.good.steps hbr hsg.lo (Int.le_refl _) D.brok hlink
        have hland' : landBR s.br c.br (annoLand s.wl (some c.wl)) = (br', some { w with owner := o }) := by
          rw [D.hw, r2']
          show landBR s.br c.br (annoLand (some w) ((some w).map roWl)) = _
          rw [annoLand_id]; exact hland
        have hrec := delro_rec_roll (roWorld s) (roWl w) _ _ g ws0 sub _ D.hf (world_wl s w D.hw) hcs hph hc hr hs hin
        cases err with
        | true =>
          rw [if_pos rfl] at hrec
          refine del_land s w f g ws0 D _ _ br' hrec rfl hland' ⟨rfl, rfl, rfl, rfl, rfl, rfl, rfl, rfl, rfl, rfl⟩ rfl D.wok rfl hbrok'
            (fun _ => ?_)
          refine (delro_ph_prog _ _ ?_).trans ?_
          · exact hph
          · refine (phaseInv_rolling _ _ sub ?_ ?_ ?_).trans ?_
            · exact hph
            · exact hr
            · exact hs
            · simp only [Bool.and_eq_true]
              exact ⟨⟨hsubok, hlink'⟩, hwithin⟩
        | false =>
          rw [if_neg (by simp)] at hrec
          exact del_land s w f g ws0 D _ _ br' hrec rfl hland' ⟨rfl, rfl, rfl, rfl, rfl, rfl, rfl, rfl, rfl, rfl⟩ rfl D.wok rfl hbrok'
            (fun _ => rfl)

/-! ### one Rollout reconcile -/

theorem stepRo_del (s : CS) (h : delInv s = true) : ∃ s', stepRo s = some s' ∧ delInv s' = true := by
  obtain ⟨w, hw, hwok, hmono, hbr, hrest⟩ := (del_parts s).1 h
  cases hgone : s.gone with
  | true => exact ⟨s, by unfold stepRo; rw [hgone]; rfl, h⟩
  | false =>
    rcases hrest with hg1 | ⟨hg, hdp⟩
    · rw [hgone] at hg1; cases hg1
    · obtain ⟨f, g, ws0, hhf, hgf⟩ := delro_hf s.ro hg
      have D : DelroCtx s w f g ws0 := ⟨hgone, hg, hw, hwok, hmono, hbr, hhf, hgf⟩
      have hdp' := hdp
      unfold delro_ph at hdp'
      split at hdp'
      · rename_i hph
        exact del_healthy s w f g ws0 D hph
      · rename_i hph
        cases hc : (roWl w).consistent with
        | false => exact del_incons s w f g ws0 D hph hc
        | true =>
          have hpi' := hdp'
          unfold phaseInv at hpi'
          split at hpi'
          · rename_i hph2
            rw [hph] at hph2; cases hph2
          · rename_i _ hr
            exact del_initializing s w f g ws0 D hdp' hph hc hr
          · rename_i _ hr
            exact del_rolling s w f g ws0 D hdp' hph hc hr
          · rename_i _ hr
            exact del_finalising s w f g ws0 D hdp' hph hc hr
          · rename_i _ hr
            exact del_completed s w f g ws0 D hph hc hr
          · cases hpi'
      · rename_i hph
        exact del_terminating s w f g ws0 D hph (by simpa using hdp')
      · cases hdp'

end RV.Lemmas.ClosedLoop
