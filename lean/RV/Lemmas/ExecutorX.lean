import RV.Oracle.ExecutorX
import RV.Lemmas.Executor
/-! Helper lemmas for the plane-parametric executor (`RV.ExecutorX`): the structure of one reconcile, for every plane. -/
namespace RV.ExecutorX
open RV.Arith RV.BatchCtx RV.Executor RV.Oracle.ExecutorX

variable {W : Type}

/-- the sync step over a plane, when it does not crash -/
theorem syncStatusX_val (P : Plane W) (br : BR) (ns : Status) (w : W) (s : SyncOut)
    (h : syncStatusX P br ns w = .val s) :
    ∃ ev info, P.syncInfo br ns w = .val (ev, info) ∧
      s.status = refreshStatus (syncDecide br ns ev info).1 info ∧
      s.stop = ((syncDecide br ns ev info).2 || decide (refreshStatus (syncDecide br ns ev info).1 info ≠ br.status)) := by
  unfold syncStatusX at h
  split at h
  · cases h
  · rename_i ei hei
    simp only [Out.val.injEq] at h
    subst h
    exact ⟨ei.1, ei.2, hei, rfl, rfl⟩

/-- If the sync step does not stop, it changed nothing: the executor acts on the persisted status. -/
theorem syncX_nostop_status (P : Plane W) (br : BR) (ns : Status) (w : W) (s : SyncOut)
    (h : syncStatusX P br ns w = .val s) (hs : s.stop = false) : s.status = br.status := by
  obtain ⟨ev, info, _, hst, hstop⟩ := syncStatusX_val P br ns w s h
  rw [hstop] at hs
  simp only [Bool.or_eq_false_iff, decide_eq_false_iff_not, ne_eq, Decidable.not_not] at hs
  rw [hst]; exact hs.2

/-- a completed plan stops the round -/
theorem syncX_completed_stops (P : Plane W) (br : BR) (ns : Status) (w : W) (s : SyncOut)
    (h : syncStatusX P br ns w = .val s) (hp : br.status.phase = .completed) : s.stop = true := by
  obtain ⟨ev, info, _, _, hstop⟩ := syncStatusX_val P br ns w s h
  rw [hstop]
  simp only [syncDecide, hp, if_true, Bool.true_or]

/-- `reconcileX` either removes the object (deleting ∧ Completed ∧ finalizer), stops after the sync step, or
    executes from the synced status. -/
theorem reconcileX_cases (P : Plane W) (br : BR) (w : W) (o : StepOutX W) (h : reconcileX P br w = .val o) :
    (br.deleting = true ∧ br.status.phase = .completed ∧ br.hasFinalizer = true ∧ o.br = none ∧ o.wl = w) ∨
    (¬ (br.deleting = true ∧ br.status.phase = .completed ∧ br.hasFinalizer = true) ∧
      ∃ s, syncStatusX P (withFinalizer br) (initializedStatus br.status) w = .val s ∧
      ((s.stop = true ∧ o.br = some { withFinalizer br with status := s.status } ∧ o.wl = w) ∨
       (s.stop = false ∧ ∃ ns' w' rq er, executeX P (withFinalizer br) s.status w = .val (ns', w', rq, er) ∧
          o.br = some { withFinalizer br with status := ns' } ∧ o.wl = w'))) := by
  unfold reconcileX at h
  split at h
  · rename_i hc
    left
    simp only [Out.val.injEq] at h
    subst h
    exact ⟨hc.1, hc.2.1, hc.2.2, rfl, rfl⟩
  · rename_i hc
    right
    refine ⟨hc, ?_⟩
    unfold reconcileBodyX at h
    split at h
    · cases h
    · rename_i s hs
      refine ⟨s, hs, ?_⟩
      split at h
      · rename_i hstop
        left
        simp only [Out.val.injEq] at h
        subst h
        exact ⟨hstop, rfl, rfl⟩
      · rename_i hstop
        right
        refine ⟨by simpa using hstop, ?_⟩
        split at h
        · cases h
        · rename_i ns' w' rq er hex
          simp only [Out.val.injEq] at h
          subst h
          exact ⟨ns', w', rq, er, hex, rfl, rfl⟩

/-- `stoppedX` agrees with the sync step of a reconcile that does not crash -/
theorem stoppedX_of_sync (P : Plane W) (br : BR) (w : W) (s : SyncOut)
    (h : syncStatusX P (withFinalizer br) (initializedStatus br.status) w = .val s) : stoppedX P br w = s.stop := by
  unfold stoppedX; rw [h]

/-- the executor branch of `reconcileX`, with the sync step eliminated -/
theorem reconcileX_exec (P : Plane W) (br : BR) (w : W) (o : StepOutX W) (h : reconcileX P br w = .val o)
    (hns : stoppedX P br w = false) :
    ∃ ns' w' rq er, executeX P (withFinalizer br) br.status w = .val (ns', w', rq, er) ∧
      o.br = some { withFinalizer br with status := ns' } ∧ o.wl = w' := by
  rcases reconcileX_cases P br w o h with ⟨hd, hp, hf, hb, hw⟩ | ⟨hnc, s, hs, hrest⟩
  · -- deleting ∧ Completed: the sync step stops (plan completed) or crashes; both count as stopped
    exfalso
    unfold stoppedX at hns
    split at hns
    · rename_i s hs
      have := syncX_completed_stops P (withFinalizer br) _ w s hs hp
      rw [this] at hns; cases hns
    · cases hns
  · rcases hrest with ⟨hstop, _, _⟩ | ⟨hstop, ns', w', rq, er, hex, hb, hw⟩
    · rw [stoppedX_of_sync P br w s hs, hstop] at hns; cases hns
    · have := syncX_nostop_status P (withFinalizer br) _ w s hs hstop
      rw [this] at hex
      exact ⟨ns', w', rq, er, hex, hb, hw⟩


/-- what one `progressBatches` round can do: keep the cursor (the world changes only through `UpgradeBatch`), or — only
    from `Ready`, only after `EnsureBatchPodsReadyAndLabeled` passed, only when not partitioned — move to the next batch -/
theorem execProgressingX_cases (P : Plane W) (br : BR) (ns : Status) (w : W) (ns' : Status) (w' : W) (rq er : Bool)
    (h : execProgressingX P br ns w = .val (ns', w', rq, er)) :
    (ns'.currentBatch = ns.currentBatch ∧ ns'.phase = ns.phase ∧
       (ns'.batchState = .ready → (ns.batchState = .verifying ∨ ns.batchState = .ready) ∧
          P.ensure br (normState ns) w = .val .ok) ∧
       (w' = w ∨ ∃ r, P.upgrade br (normState ns) w = .val (w', r))) ∨
    (ns' = moveToNextBatch br (normState ns) ∧ ns.batchState = .ready ∧
       P.ensure br (normState ns) w = .val .ok ∧ isPartitioned br = false ∧ w' = w) := by
  unfold execProgressingX at h
  dsimp only at h
  have hns : ∀ s, ns.batchState = s → s ≠ .empty → s ≠ .other → normState ns = ns := by
    intro s hs h1 h2; unfold normState; rw [hs]; simp [h1, h2]
  have hup : ∀ m : Status, m.batchState = .upgrading → m.currentBatch = ns.currentBatch → m.phase = ns.phase →
      (match P.upgrade br m w with
        | .panic => (Out.panic : ExecOutX W)
        | .val (w', .ok) => .val ({ m with batchState := .verifying }, w', true, false)
        | .val (w', .err) => .val (m, w', false, true)) = .val (ns', w', rq, er) →
      ns'.currentBatch = ns.currentBatch ∧ ns'.phase = ns.phase ∧ (ns'.batchState = .ready → False) ∧
        ∃ r, P.upgrade br m w = .val (w', r) := by
    intro m hm hcb hph hh
    split at hh
    · cases hh
    · rename_i w2 hu
      simp only [Out.val.injEq, Prod.mk.injEq] at hh
      obtain ⟨h1, h2, _⟩ := hh; subst h1 h2
      exact ⟨hcb, hph, (by intro hc; cases hc), _, hu⟩
    · rename_i w2 hu
      simp only [Out.val.injEq, Prod.mk.injEq] at hh
      obtain ⟨h1, h2, _⟩ := hh; subst h1 h2
      exact ⟨hcb, hph, (by intro hc; rw [hm] at hc; cases hc), _, hu⟩
  cases hbs : ns.batchState
  case upgrading =>
    rw [hns _ hbs (by decide) (by decide)] at h ⊢
    simp only [hbs] at h
    obtain ⟨a, b, c, d⟩ := hup ns hbs rfl rfl h
    left; exact ⟨a, b, fun hc => (c hc).elim, Or.inr d⟩
  case verifying =>
    rw [hns _ hbs (by decide) (by decide)] at h ⊢
    simp only [hbs] at h
    split at h
    · cases h
    · rename_i hok
      simp only [Out.val.injEq, Prod.mk.injEq] at h
      obtain ⟨h1, h2, _⟩ := h; subst h1 h2
      left; exact ⟨rfl, rfl, fun _ => ⟨Or.inl rfl, hok⟩, Or.inl rfl⟩
    · simp only [Out.val.injEq, Prod.mk.injEq] at h
      obtain ⟨h1, h2, _⟩ := h; subst h1 h2
      left; exact ⟨rfl, rfl, (by intro hc; cases hc), Or.inl rfl⟩
  case ready =>
    rw [hns _ hbs (by decide) (by decide)] at h ⊢
    simp only [hbs] at h
    split at h
    · cases h
    · simp only [Out.val.injEq, Prod.mk.injEq] at h
      obtain ⟨h1, h2, _⟩ := h; subst h1 h2
      left; exact ⟨rfl, rfl, (by intro hc; cases hc), Or.inl rfl⟩
    · rename_i hok
      split at h
      · rename_i hnp
        simp only [Out.val.injEq, Prod.mk.injEq] at h
        obtain ⟨h1, h2, _⟩ := h; subst h1 h2
        right; exact ⟨rfl, rfl, hok, by simpa using hnp, rfl⟩
      · simp only [Out.val.injEq, Prod.mk.injEq] at h
        obtain ⟨h1, h2, _⟩ := h; subst h1 h2
        left; exact ⟨rfl, rfl, fun _ => ⟨Or.inr rfl, hok⟩, Or.inl rfl⟩
  case empty =>
    have hn : normState ns = { ns with batchState := .upgrading } := by unfold normState; simp [hbs]
    rw [hn] at h ⊢
    dsimp only at h
    obtain ⟨a, b, c, d⟩ := hup { ns with batchState := .upgrading } rfl rfl rfl h
    left; exact ⟨a, b, fun hc => (c hc).elim, Or.inr d⟩
  case other =>
    have hn : normState ns = { ns with batchState := .upgrading } := by unfold normState; simp [hbs]
    rw [hn] at h ⊢
    dsimp only at h
    obtain ⟨a, b, c, d⟩ := hup { ns with batchState := .upgrading } rfl rfl rfl h
    left; exact ⟨a, b, fun hc => (c hc).elim, Or.inr d⟩

/-- `Initialize` leaves the executor's own status fields alone: it records revisions, replicas and the no-need-update
    count only (what every plane's `Initialize` writes into `newStatus`) -/
def InitFrame (P : Plane W) : Prop :=
  ∀ br ns w w' ns' r, P.init br ns w = .val (w', ns', r) →
    ns'.phase = ns.phase ∧ ns'.currentBatch = ns.currentBatch ∧ ns'.batchState = ns.batchState ∧
    ns'.hasReadyTime = ns.hasReadyTime ∧ ns'.hash = ns.hash

/-- what `executeX` can do to the cursor and phase -/
theorem executeX_cases (P : Plane W) (hI : InitFrame P) (br : BR) (ns : Status) (w : W) (ns' : Status) (w' : W) (rq er : Bool)
    (h : executeX P br ns w = .val (ns', w', rq, er)) :
    (ns.phase = .progressing ∧ execProgressingX P br ns w = .val (ns', w', rq, er)) ∨
    (ns.phase ≠ .progressing ∧ ns'.currentBatch = ns.currentBatch ∧
      (ns'.phase = .completed → ns.phase ≠ .completed →
         ns.phase = .finalizing ∧ P.fin br w = .val (w', .ok))) := by
  unfold executeX at h
  dsimp only at h
  have hprep : ∀ m : Status, m.phase = .preparing → m.currentBatch = ns.currentBatch →
      execPreparingX P br m w = .val (ns', w', rq, er) → ns'.currentBatch = ns.currentBatch ∧ ns'.phase ≠ .completed := by
    intro m hm hcb hh
    unfold execPreparingX at hh
    split at hh
    · cases hh
    · rename_i r hr
      obtain ⟨f1, f2, _⟩ := hI br m w r.1 r.2.1 r.2.2 hr
      split at hh <;> simp only [Out.val.injEq, Prod.mk.injEq] at hh <;> obtain ⟨h1, _⟩ := hh <;> subst h1
      · exact ⟨by simpa [hcb] using f2, by simp⟩
      · exact ⟨by rw [f2, hcb], by rw [f1, hm]; decide⟩
  cases hp : ns.phase
  case progressing =>
    left
    rw [normPhase_of_progressing ns hp] at h
    simp only [hp] at h
    exact ⟨rfl, h⟩
  case preparing =>
    right
    have hn : normPhase ns = ns := by unfold normPhase; simp [hp]
    rw [hn] at h; simp only [hp] at h
    obtain ⟨a, b⟩ := hprep ns hp rfl h
    exact ⟨by decide, a, fun hc => absurd hc b⟩
  case finalizing =>
    right
    have hn : normPhase ns = ns := by unfold normPhase; simp [hp]
    rw [hn] at h; simp only [hp] at h
    unfold execFinalizingX at h
    split at h
    · cases h
    · rename_i r hr
      split at h
      · rename_i hok
        simp only [Out.val.injEq, Prod.mk.injEq] at h
        obtain ⟨h1, h2, _⟩ := h; subst h1 h2
        refine ⟨by decide, rfl, fun _ _ => ⟨rfl, ?_⟩⟩
        rw [hr]; congr 1; exact Prod.ext rfl hok
      · simp only [Out.val.injEq, Prod.mk.injEq] at h
        obtain ⟨h1, h2, _⟩ := h; subst h1 h2
        exact ⟨by decide, rfl, by intro hc; rw [hp] at hc; cases hc⟩
  case completed =>
    right
    have hn : normPhase ns = ns := by unfold normPhase; simp [hp]
    rw [hn] at h; simp only [hp] at h
    simp only [Out.val.injEq, Prod.mk.injEq] at h
    obtain ⟨h1, _⟩ := h; subst h1
    exact ⟨by decide, rfl, by intro _ hc; exact absurd rfl hc⟩
  case empty =>
    right
    have hn : normPhase ns = { ns with phase := .preparing } := by unfold normPhase; simp [hp]
    rw [hn] at h; dsimp only at h
    obtain ⟨a, b⟩ := hprep { ns with phase := .preparing } rfl rfl h
    exact ⟨by decide, a, fun hc => absurd hc b⟩
  case other =>
    right
    have hn : normPhase ns = { ns with phase := .preparing } := by unfold normPhase; simp [hp]
    rw [hn] at h; dsimp only at h
    obtain ⟨a, b⟩ := hprep { ns with phase := .preparing } rfl rfl h
    exact ⟨by decide, a, fun hc => absurd hc b⟩

/-- the status after a stopped round -/
theorem stoppedX_status (P : Plane W) (br : BR) (w : W) (o : StepOutX W) (b : BR)
    (h : reconcileX P br w = .val o) (hb : o.br = some b) (hs : stoppedX P br w = true) :
    ∃ ev info, b.status = refreshStatus (syncDecide (withFinalizer br) (initializedStatus br.status) ev info).1 info ∧ o.wl = w := by
  rcases reconcileX_cases P br w o h with ⟨_, _, _, hn, _⟩ | ⟨_, s, hsync, hrest⟩
  · rw [hn] at hb; cases hb
  · rcases hrest with ⟨_, hb', hw⟩ | ⟨hstop, _⟩
    · rw [hb'] at hb; simp only [Option.some.injEq] at hb; subst hb
      obtain ⟨ev, info, _, hst, _⟩ := syncStatusX_val P _ _ w s hsync
      exact ⟨ev, info, hst, hw⟩
    · rw [stoppedX_of_sync P br w s hsync, hstop] at hs; cases hs

/-- If the executor acts on a `Progressing` release, the plan is not finalizing: it has a batch partition and is not
    being deleted. -/
theorem nostopX_progressing_partitioned (P : Plane W) (br : BR) (w : W) (s : SyncOut)
    (hsync : syncStatusX P br br.status w = .val s) (hns : s.stop = false) (hp : br.status.phase = .progressing) :
    isPlanFinalizing br = false := by
  have h1 := syncX_nostop_status P br br.status w s hsync hns
  obtain ⟨ev, info, _, hst, _⟩ := syncStatusX_val P br br.status w s hsync
  by_cases hf : isPlanFinalizing br = true
  · exfalso
    have : s.status.phase = .finalizing := by
      rw [hst]
      simp only [refresh_phase, syncDecide, hp, hf, if_true]
      simp
    rw [h1, hp] at this
    cases this
  · simpa using hf

end RV.ExecutorX
