/-
  Helper lemmas for C16 (value conversion).  Core Lean only.
-/
import RV.Model.LuaJson
namespace RV.LuaJson

/-! ## `J.beq` is reflexive -/

mutual
theorem J.beq_refl : (a : J) → J.beq a a = true
  | .null => rfl
  | .bool b => by simp [J.beq]
  | .num b => by simp [J.beq]
  | .str b => by simp [J.beq]
  | .arr xs => by simp only [J.beq]; exact J.beqList_refl xs
  | .obj xs => by simp only [J.beq]; exact J.beqFields_refl xs
theorem J.beqList_refl : (a : List J) → J.beqList a a = true
  | [] => rfl
  | x :: xs => by simp only [J.beqList, J.beq_refl x, J.beqList_refl xs]; rfl
theorem J.beqFields_refl : (a : List (String × J)) → J.beqFields a a = true
  | [] => rfl
  | (k, x) :: xs => by simp only [J.beqFields, J.beq_refl x, J.beqFields_refl xs]; simp
end

/-! ## insertion sort -/

section sort
variable {α β : Type} (key : α → String)

theorem insertBy_perm (a : α) (l : List α) : (insertBy key a l).Perm (a :: l) := by
  induction l with
  | nil => exact List.Perm.refl _
  | cons b l ih =>
    simp only [insertBy]
    split
    · exact List.Perm.refl _
    · exact (List.Perm.cons b ih).trans (List.Perm.swap a b l)

theorem isort_perm (l : List α) : (isort key l).Perm l := by
  induction l with
  | nil => exact List.Perm.refl _
  | cons a l ih =>
    simp only [isort]
    exact (insertBy_perm key a _).trans (List.Perm.cons a ih)

theorem insertBy_ne_nil (a : α) (l : List α) : insertBy key a l ≠ [] := by
  cases l with
  | nil => simp [insertBy]
  | cons b l => simp only [insertBy]; split <;> simp

theorem isort_eq_nil (l : List α) : isort key l = [] ↔ l = [] := by
  cases l with
  | nil => simp [isort]
  | cons a l => simp [isort, insertBy_ne_nil]

/-- sorting commutes with a map that preserves the sort key -/
theorem insertBy_map (keyB : β → String) (f : α → β) (h : ∀ a, keyB (f a) = key a) (a : α) (l : List α) :
    insertBy keyB (f a) (l.map f) = (insertBy key a l).map f := by
  induction l with
  | nil => rfl
  | cons b l ih =>
    simp only [List.map, insertBy, h]
    split
    · rfl
    · simp only [List.map, ih]

theorem isort_map (keyB : β → String) (f : α → β) (h : ∀ a, keyB (f a) = key a) (l : List α) :
    isort keyB (l.map f) = (isort key l).map f := by
  induction l with
  | nil => rfl
  | cons a l ih => simp only [List.map, isort, ih, insertBy_map key keyB f h]

end sort

/-- a list whose keys are strictly ascending is already sorted -/
theorem isort_ascending : ∀ (prev : Option String) (l : List (String × J)),
    ascendingFrom prev l = true → isort Prod.fst l = l
  | _, [] => fun _ => rfl
  | prev, [(k, x)] => fun _ => by simp [isort, insertBy]
  | prev, (k, x) :: (k2, x2) :: r => fun h => by
    simp only [ascendingFrom, Bool.and_eq_true] at h
    have ih := isort_ascending (some k) ((k2, x2) :: r) (by
      simp only [ascendingFrom, Bool.and_eq_true]; exact h.2)
    simp only [isort] at ih ⊢
    rw [ih]
    have hk : k < k2 := by simpa using h.2.1
    simp [insertBy, hk]

/-! ## allocation facts of `decode` -/

theorem decode_isNil (n : Nat) (v : J) : (decode n v).1.isNil = v.isNull := by
  cases v <;> simp [decode, LVal.isNil, J.isNull]

/-- allocation facts of `decodeValue`: the counter grows, every table identity of the
    result lies in `[n, n')`, and no identity occurs twice. -/
def AllocOK (n n' : Nat) (is : List Nat) : Prop :=
  n ≤ n' ∧ (∀ i ∈ is, n ≤ i ∧ i < n') ∧ is.Nodup

theorem allocOK_append {n m k : Nat} {a b : List Nat} (ha : AllocOK n m a) (hb : AllocOK m k b) :
    AllocOK n k (a ++ b) := by
  obtain ⟨h1, h2, h3⟩ := ha
  obtain ⟨g1, g2, g3⟩ := hb
  refine ⟨by omega, ?_, ?_⟩
  · intro i hi
    rcases List.mem_append.1 hi with h | h
    · have := h2 i h; omega
    · have := g2 i h; omega
  · refine List.nodup_append.2 ⟨h3, g3, ?_⟩
    intro x hx y hy hxy
    have := h2 x hx; have := g2 y hy; omega

mutual
theorem decode_alloc : (v : J) → (n : Nat) → AllocOK n (decode n v).2 (ids (decode n v).1)
  | .null, n => by simp [decode, ids, AllocOK]
  | .bool _, n => by simp [decode, ids, AllocOK]
  | .num _, n => by simp [decode, ids, AllocOK]
  | .str _, n => by simp [decode, ids, AllocOK]
  | .arr xs, n => by
    obtain ⟨h1, h2, h3⟩ := decodeArr_alloc xs (n + 1) 1
    simp only [decode, ids]
    refine ⟨by omega, ?_, ?_⟩
    · intro i hi
      rcases List.mem_cons.1 hi with h | h
      · omega
      · have := h2 i h; omega
    · refine List.nodup_cons.2 ⟨?_, h3⟩
      intro h; have := h2 n h; omega
  | .obj kvs, n => by
    obtain ⟨h1, h2, h3⟩ := decodeObj_alloc kvs (n + 1)
    simp only [decode, ids]
    refine ⟨by omega, ?_, ?_⟩
    · intro i hi
      rcases List.mem_cons.1 hi with h | h
      · omega
      · have := h2 i h; omega
    · refine List.nodup_cons.2 ⟨?_, h3⟩
      intro h; have := h2 n h; omega
theorem decodeArr_alloc : (xs : List J) → (n : Nat) → (idx : Int) →
    AllocOK n (decodeArr n idx xs).2 (idsKvs (decodeArr n idx xs).1)
  | [], n, idx => by simp [decodeArr, idsKvs, AllocOK]
  | x :: xs, n, idx => by
    have hx := decode_alloc x n
    simp only [decodeArr]
    split
    · have hr := decodeArr_alloc xs (decode n x).2 idx
      obtain ⟨h1, h2, h3⟩ := hx
      obtain ⟨g1, g2, g3⟩ := hr
      exact ⟨by omega, fun i hi => by have := g2 i hi; omega, g3⟩
    · have hr := decodeArr_alloc xs (decode n x).2 (idx + 1)
      simp only [idsKvs]
      exact allocOK_append hx hr
theorem decodeObj_alloc : (kvs : List (String × J)) → (n : Nat) →
    AllocOK n (decodeObj n kvs).2 (idsKvs (decodeObj n kvs).1)
  | [], n => by simp [decodeObj, idsKvs, AllocOK]
  | (k, x) :: rest, n => by
    have hx := decode_alloc x n
    simp only [decodeObj]
    split
    · have hr := decodeObj_alloc rest (decode n x).2
      obtain ⟨h1, h2, h3⟩ := hx
      obtain ⟨g1, g2, g3⟩ := hr
      exact ⟨by omega, fun i hi => by have := g2 i hi; omega, g3⟩
    · have hr := decodeObj_alloc rest (decode n x).2
      simp only [idsKvs]
      exact allocOK_append hx hr
end


/-! ## `norm` keeps keys and identities -/

theorem allStrKeys_normKvs : ∀ l, allStrKeys (normKvs l) = allStrKeys l
  | [] => rfl
  | (k, v) :: r => by simp only [normKvs, allStrKeys, allStrKeys_normKvs r]

theorem checkArrKeys_normKvs : ∀ l e, checkArrKeys e (normKvs l) = checkArrKeys e l
  | [], _ => rfl
  | (.int n, v) :: r, e => by
    simp only [normKvs, checkArrKeys, checkArrKeys_normKvs r]
  | (.str _, v) :: r, e => by simp only [normKvs, checkArrKeys]
  | (.other, v) :: r, e => by simp only [normKvs, checkArrKeys]

theorem idsKvs_cons (x : Key × LVal) (l : List (Key × LVal)) : idsKvs (x :: l) = ids x.2 ++ idsKvs l := by
  cases x; simp only [idsKvs]

theorem idsKvs_perm {l₁ l₂ : List (Key × LVal)} (h : l₁.Perm l₂) : (idsKvs l₁).Perm (idsKvs l₂) := by
  induction h with
  | nil => exact List.Perm.refl _
  | cons x _ ih => simp only [idsKvs_cons]; exact List.Perm.append_left _ ih
  | swap x y l => simp only [idsKvs_cons]; exact List.perm_append_comm_assoc _ _ _
  | trans _ _ ih1 ih2 => exact ih1.trans ih2

mutual
theorem ids_norm : (l : LVal) → (ids (norm l)).Perm (ids l)
  | .nil => List.Perm.refl _
  | .bool _ => List.Perm.refl _
  | .num _ => List.Perm.refl _
  | .str _ => List.Perm.refl _
  | .func => List.Perm.refl _
  | .tbl id kvs => by
    simp only [norm, ids]
    refine List.Perm.cons id ?_
    split
    · exact (idsKvs_perm (isort_perm entryName _)).trans (idsKvs_normKvs kvs)
    · exact idsKvs_normKvs kvs
theorem idsKvs_normKvs : (kvs : List (Key × LVal)) → (idsKvs (normKvs kvs)).Perm (idsKvs kvs)
  | [] => List.Perm.refl _
  | (k, v) :: r => by
    simp only [normKvs, idsKvs]
    exact List.Perm.append (ids_norm v) (idsKvs_normKvs r)
end

theorem encArrPure_cons_ok {k : Key} {v : LVal} {r : List (Key × LVal)} {js : List J}
    (h : encArrPure ((k, v) :: r) = .ok js) :
    ∃ j js', encPure v = .ok j ∧ encArrPure r = .ok js' ∧ js = j :: js' := by
  simp only [encArrPure] at h
  split at h
  · cases h
  · rename_i j hj
    split at h
    · cases h
    · rename_i js' hjs
      cases h
      exact ⟨j, js', hj, hjs, rfl⟩

theorem encObjPure_cons_ok {k : Key} {v : LVal} {r : List (Key × LVal)} {ms : List (String × J)}
    (h : encObjPure ((k, v) :: r) = .ok ms) :
    ∃ j ms', encPure v = .ok j ∧ encObjPure r = .ok ms' ∧ ms = (k.name, j) :: ms' := by
  simp only [encObjPure] at h
  split at h
  · cases h
  · rename_i j hj
    split at h
    · cases h
    · rename_i ms' hms
      cases h
      exact ⟨j, ms', hj, hms, rfl⟩


/-! ## Lemma A: with pairwise distinct, unvisited identities the `visited` map never fires -/

theorem contains_false_of_not_mem {vis : List Nat} {id : Nat} (h : id ∉ vis) : vis.contains id = false := by
  simpa using h

mutual
theorem encVal_of_pure : (l : LVal) → ∀ (vis : List Nat) (j : J), encPure l = .ok j → (ids l).Nodup →
    (∀ i ∈ ids l, i ∉ vis) →
    ∃ vis', encVal vis l = .ok (j, vis') ∧ ∀ i, i ∈ vis' ↔ (i ∈ ids l ∨ i ∈ vis)
  | .nil, vis, j, hp, _, _ => by
    simp only [encPure] at hp; cases hp; exact ⟨vis, by simp [encVal, ids]⟩
  | .bool b, vis, j, hp, _, _ => by
    simp only [encPure] at hp; cases hp; exact ⟨vis, by simp [encVal, ids]⟩
  | .num n, vis, j, hp, _, _ => by
    simp only [encPure] at hp; cases hp; exact ⟨vis, by simp [encVal, ids]⟩
  | .str s, vis, j, hp, _, _ => by
    simp only [encPure] at hp; cases hp; exact ⟨vis, by simp [encVal, ids]⟩
  | .func, vis, j, hp, _, _ => by simp only [encPure] at hp; cases hp
  | .tbl id [], vis, j, hp, hnd, hfresh => by
    have hid : vis.contains id = false := contains_false_of_not_mem (hfresh id (by simp [ids]))
    simp only [encPure] at hp; cases hp
    refine ⟨id :: vis, by simp only [encVal, hid]; rfl, ?_⟩
    intro i; simp [ids, idsKvs]
  | .tbl id ((.int m, v) :: r), vis, j, hp, hnd, hfresh => by
    have hid : vis.contains id = false := contains_false_of_not_mem (hfresh id (by simp [ids]))
    simp only [ids, List.nodup_cons] at hnd
    simp only [encPure] at hp
    split at hp
    · cases hp
    · rename_i hchk
      split at hp
      · rename_i js hjs
        cases hp
        obtain ⟨vis', he, hv⟩ := encArr_of_pure ((.int m, v) :: r) (id :: vis) js hjs hnd.2 (by
          intro i hi hmem
          rcases List.mem_cons.1 hmem with h | h
          · subst h; exact hnd.1 hi
          · exact hfresh i (by simp only [ids]; exact List.mem_cons_of_mem _ hi) h)
        refine ⟨vis', by simp only [encVal, hid, hchk, he]; rfl, ?_⟩
        intro i; rw [hv i]; simp only [ids, List.mem_cons]
        constructor
        · rintro (h | h | h)
          · exact Or.inl (Or.inr h)
          · exact Or.inl (Or.inl h)
          · exact Or.inr h
        · rintro ((h | h) | h)
          · exact Or.inr (Or.inl h)
          · exact Or.inl h
          · exact Or.inr (Or.inr h)
      · cases hp
  | .tbl id ((.str s, v) :: r), vis, j, hp, hnd, hfresh => by
    have hid : vis.contains id = false := contains_false_of_not_mem (hfresh id (by simp [ids]))
    simp only [ids, List.nodup_cons] at hnd
    simp only [encPure] at hp
    split at hp
    · rename_i hall
      split at hp
      · rename_i ms hms
        cases hp
        obtain ⟨vis', he, hv⟩ := encObj_of_pure ((.str s, v) :: r) (id :: vis) ms hms hnd.2 (by
          intro i hi hmem
          rcases List.mem_cons.1 hmem with h | h
          · subst h; exact hnd.1 hi
          · exact hfresh i (by simp only [ids]; exact List.mem_cons_of_mem _ hi) h)
        refine ⟨vis', by simp only [encVal, hid, hall, he]; rfl, ?_⟩
        intro i; rw [hv i]; simp only [ids, List.mem_cons]
        constructor
        · rintro (h | h | h)
          · exact Or.inl (Or.inr h)
          · exact Or.inl (Or.inl h)
          · exact Or.inr h
        · rintro ((h | h) | h)
          · exact Or.inr (Or.inl h)
          · exact Or.inl h
          · exact Or.inr (Or.inr h)
      · cases hp
    · cases hp
  | .tbl id ((.other, v) :: r), vis, j, hp, _, _ => by simp only [encPure] at hp; cases hp
theorem encArr_of_pure : (kvs : List (Key × LVal)) → ∀ (vis : List Nat) (js : List J), encArrPure kvs = .ok js →
    (idsKvs kvs).Nodup → (∀ i ∈ idsKvs kvs, i ∉ vis) →
    ∃ vis', encArr vis kvs = .ok (js, vis') ∧ ∀ i, i ∈ vis' ↔ (i ∈ idsKvs kvs ∨ i ∈ vis)
  | [], vis, js, hp, _, _ => by
    simp only [encArrPure] at hp; cases hp
    exact ⟨vis, by simp [encArr, idsKvs]⟩
  | (k, v) :: r, vis, js, hp, hnd, hfresh => by
    obtain ⟨j, js', hj, hjs, rfl⟩ := encArrPure_cons_ok hp
    simp only [idsKvs, List.nodup_append] at hnd
    obtain ⟨vis1, he1, hv1⟩ := encVal_of_pure v vis j hj hnd.1 (fun i hi => hfresh i (by
      simp only [idsKvs]; exact List.mem_append_left _ hi))
    obtain ⟨vis2, he2, hv2⟩ := encArr_of_pure r vis1 js' hjs hnd.2.1 (by
      intro i hi hmem
      rcases (hv1 i).1 hmem with h | h
      · exact hnd.2.2 i h i hi rfl
      · exact hfresh i (by simp only [idsKvs]; exact List.mem_append_right _ hi) h)
    refine ⟨vis2, by simp only [encArr, he1, he2], ?_⟩
    intro i; rw [hv2 i, hv1 i]; simp only [idsKvs, List.mem_append]
    constructor
    · rintro (h | h | h)
      · exact Or.inl (Or.inr h)
      · exact Or.inl (Or.inl h)
      · exact Or.inr h
    · rintro ((h | h) | h)
      · exact Or.inr (Or.inl h)
      · exact Or.inl h
      · exact Or.inr (Or.inr h)
theorem encObj_of_pure : (kvs : List (Key × LVal)) → ∀ (vis : List Nat) (ms : List (String × J)), encObjPure kvs = .ok ms →
    (idsKvs kvs).Nodup → (∀ i ∈ idsKvs kvs, i ∉ vis) →
    ∃ vis', encObj vis kvs = .ok (ms, vis') ∧ ∀ i, i ∈ vis' ↔ (i ∈ idsKvs kvs ∨ i ∈ vis)
  | [], vis, ms, hp, _, _ => by
    simp only [encObjPure] at hp; cases hp
    exact ⟨vis, by simp [encObj, idsKvs]⟩
  | (k, v) :: r, vis, ms, hp, hnd, hfresh => by
    obtain ⟨j, ms', hj, hms, rfl⟩ := encObjPure_cons_ok hp
    simp only [idsKvs, List.nodup_append] at hnd
    obtain ⟨vis1, he1, hv1⟩ := encVal_of_pure v vis j hj hnd.1 (fun i hi => hfresh i (by
      simp only [idsKvs]; exact List.mem_append_left _ hi))
    obtain ⟨vis2, he2, hv2⟩ := encObj_of_pure r vis1 ms' hms hnd.2.1 (by
      intro i hi hmem
      rcases (hv1 i).1 hmem with h | h
      · exact hnd.2.2 i h i hi rfl
      · exact hfresh i (by simp only [idsKvs]; exact List.mem_append_right _ hi) h)
    refine ⟨vis2, by simp only [encObj, he1, he2], ?_⟩
    intro i; rw [hv2 i, hv1 i]; simp only [idsKvs, List.mem_append]
    constructor
    · rintro (h | h | h)
      · exact Or.inl (Or.inr h)
      · exact Or.inl (Or.inl h)
      · exact Or.inr h
    · rintro ((h | h) | h)
      · exact Or.inr (Or.inl h)
      · exact Or.inl h
      · exact Or.inr (Or.inr h)
end


/-! ## Lemma B: the round trip without the `visited` map -/

theorem encObjPure_insert {k : Key} {v : LVal} {j : J} (hv : encPure v = .ok j) :
    ∀ (L : List (Key × LVal)) (M : List (String × J)), encObjPure L = .ok M →
      encObjPure (insertBy entryName (k, v) L) = .ok (insertBy Prod.fst (k.name, j) M)
  | [], M, h => by
    simp only [encObjPure] at h; cases h
    simp only [insertBy, encObjPure, hv]
  | (k', v') :: r, M, h => by
    obtain ⟨j', M', hj', hM', rfl⟩ := encObjPure_cons_ok h
    by_cases hlt : k.name < k'.name
    · have h1 : insertBy entryName (k, v) ((k', v') :: r) = (k, v) :: (k', v') :: r := by
        simp only [insertBy]; exact if_pos hlt
      have h2 : insertBy Prod.fst (k.name, j) ((k'.name, j') :: M') = (k.name, j) :: (k'.name, j') :: M' := by
        simp only [insertBy]; exact if_pos hlt
      rw [h1, h2]
      simp only [encObjPure, hv, hj', hM']
    · have h1 : insertBy entryName (k, v) ((k', v') :: r) = (k', v') :: insertBy entryName (k, v) r := by
        simp only [insertBy]; exact if_neg hlt
      have h2 : insertBy Prod.fst (k.name, j) ((k'.name, j') :: M') = (k'.name, j') :: insertBy Prod.fst (k.name, j) M' := by
        simp only [insertBy]; exact if_neg hlt
      rw [h1, h2]
      simp only [encObjPure, hj', encObjPure_insert hv r M' hM']

theorem encObjPure_isort : ∀ (L : List (Key × LVal)) (M : List (String × J)), encObjPure L = .ok M →
    encObjPure (isort entryName L) = .ok (isort Prod.fst M)
  | [], M, h => by
    simp only [encObjPure] at h; cases h; simp only [isort, encObjPure]
  | (k, v) :: r, M, h => by
    obtain ⟨j, M', hj, hM', rfl⟩ := encObjPure_cons_ok h
    simp only [isort]
    exact encObjPure_insert hj _ _ (encObjPure_isort r M' hM')

theorem allStrKeys_insertBy (a : Key × LVal) : ∀ L, allStrKeys (insertBy entryName a L) = (a.1.isStr && allStrKeys L)
  | [] => by cases a; simp [insertBy, allStrKeys]
  | (k, v) :: r => by
    obtain ⟨ka, va⟩ := a
    simp only [insertBy]
    split
    · simp only [allStrKeys]
    · simp only [allStrKeys, allStrKeys_insertBy (ka, va) r]
      cases ka.isStr <;> cases k.isStr <;> simp

theorem allStrKeys_isort : ∀ L, allStrKeys (isort entryName L) = allStrKeys L
  | [] => rfl
  | (k, v) :: r => by simp only [isort, allStrKeys_insertBy, allStrKeys_isort r, allStrKeys]

theorem allStrKeys_decodeObj : ∀ (kvs : List (String × J)) (n : Nat), allStrKeys (decodeObj n kvs).1 = true
  | [], n => rfl
  | (k, x) :: r, n => by
    simp only [decodeObj]
    split
    · exact allStrKeys_decodeObj r _
    · simp only [allStrKeys, Key.isStr, allStrKeys_decodeObj r, Bool.and_self]

theorem checkArrKeys_decodeArr : ∀ (xs : List J) (n : Nat) (idx : Int), checkArrKeys idx (decodeArr n idx xs).1 = none
  | [], n, idx => rfl
  | x :: xs, n, idx => by
    simp only [decodeArr]
    split
    · exact checkArrKeys_decodeArr xs _ idx
    · simp only [checkArrKeys, if_true, checkArrKeys_decodeArr xs]

/-- a non-empty list all of whose keys are strings starts with a string key -/
theorem head_str_of_allStrKeys {e : Key × LVal} {r : List (Key × LVal)} (h : allStrKeys (e :: r) = true) :
    ∃ s v, e = (.str s, v) := by
  obtain ⟨k, v⟩ := e
  cases k with
  | str s => exact ⟨s, v, rfl⟩
  | int n => simp [allStrKeys, Key.isStr] at h
  | other => simp [allStrKeys, Key.isStr] at h

theorem head_int_of_checkArrKeys {e : Key × LVal} {r : List (Key × LVal)} {idx : Int}
    (h : checkArrKeys idx (e :: r) = none) : ∃ v, e = (.int idx, v) := by
  obtain ⟨k, v⟩ := e
  cases k with
  | int n =>
    simp only [checkArrKeys] at h
    split at h
    · rename_i hn; subst hn; exact ⟨v, rfl⟩
    · cases h
  | str s => simp [checkArrKeys] at h
  | other => simp [checkArrKeys] at h

mutual
theorem encPure_decode : (v : J) → ∀ n, encPure (norm (decode n v).1) = .ok (canon v)
  | .null, n => by simp only [decode, norm, encPure, canon]
  | .bool _, n => by simp only [decode, norm, encPure, canon]
  | .num _, n => by simp only [decode, norm, encPure, canon]
  | .str _, n => by simp only [decode, norm, encPure, canon]
  | .arr xs, n => by
    have ih := encArrPure_decode xs (n + 1) 1
    have hchk := checkArrKeys_decodeArr xs (n + 1) 1
    simp only [decode, norm, canon]
    generalize (decodeArr (n + 1) 1 xs).1 = D at ih hchk
    cases D with
    | nil =>
      simp only [normKvs, encArrPure, Except.ok.injEq] at ih
      simp only [normKvs, allStrKeys, isort, if_true, encPure]
      rw [← ih]
    | cons e r =>
      obtain ⟨v, rfl⟩ := head_int_of_checkArrKeys hchk
      have hns : allStrKeys (normKvs ((Key.int 1, v) :: r)) = false := by
        simp [normKvs, allStrKeys, Key.isStr]
      rw [← checkArrKeys_normKvs] at hchk
      simp only [hns]
      simp only [normKvs] at ih hchk ⊢
      obtain ⟨j, js, _, _, hjs⟩ := encArrPure_cons_ok ih
      simp only [encPure, hchk, ih, Bool.false_eq_true, if_false]
      rw [hjs]
  | .obj kvs, n => by
    have ih := encObjPure_decode kvs (n + 1)
    have hall := allStrKeys_decodeObj kvs (n + 1)
    simp only [decode, norm, canon]
    generalize (decodeObj (n + 1) kvs).1 = D at ih hall
    rw [← allStrKeys_normKvs] at hall
    have ihs := encObjPure_isort _ _ ih
    have halls : allStrKeys (isort entryName (normKvs D)) = true := by rw [allStrKeys_isort]; exact hall
    simp only [hall, if_true]
    generalize isort entryName (normKvs D) = S at ihs halls
    cases S with
    | nil =>
      simp only [encObjPure, Except.ok.injEq] at ihs
      simp only [encPure]; rw [← ihs]
    | cons e r =>
      obtain ⟨s, v, rfl⟩ := head_str_of_allStrKeys halls
      obtain ⟨j, ms, _, _, hms⟩ := encObjPure_cons_ok ihs
      simp only [encPure, halls, ihs, if_true]
      rw [hms]
theorem encArrPure_decode : (xs : List J) → ∀ n idx, encArrPure (normKvs (decodeArr n idx xs).1) = .ok (canonList xs)
  | [], n, idx => by simp only [decodeArr, normKvs, encArrPure, canonList]
  | x :: xs, n, idx => by
    simp only [decodeArr, canonList, decode_isNil]
    split
    · exact encArrPure_decode xs _ idx
    · simp only [normKvs, encArrPure, encPure_decode x n, encArrPure_decode xs]
theorem encObjPure_decode : (kvs : List (String × J)) → ∀ n, encObjPure (normKvs (decodeObj n kvs).1) = .ok (canonFields kvs)
  | [], n => by simp only [decodeObj, normKvs, encObjPure, canonFields]
  | (k, x) :: r, n => by
    simp only [decodeObj, canonFields, decode_isNil]
    split
    · exact encObjPure_decode r _
    · simp only [normKvs, encObjPure, encPure_decode x n, encObjPure_decode r, Key.name]
end


/-! ## `canon` is the identity on clean values -/

mutual
theorem canon_clean : (v : J) → clean v = true → canon v = v
  | .null, _ => rfl
  | .bool _, _ => rfl
  | .num _, _ => rfl
  | .str _, _ => rfl
  | .arr xs, h => by
    simp only [clean, Bool.and_eq_true] at h
    have hl := canonList_clean xs h.2
    simp only [canon, hl]
    cases xs with
    | nil => simp at h
    | cons y ys => rfl
  | .obj kvs, h => by
    simp only [clean, Bool.and_eq_true] at h
    have hl := canonFields_clean kvs h.2
    have hs := isort_ascending none kvs h.1.2
    simp only [canon, hl, hs]
    cases kvs with
    | nil => simp at h
    | cons y ys => rfl
theorem canonList_clean : (xs : List J) → cleanList xs = true → canonList xs = xs
  | [], _ => rfl
  | x :: xs, h => by
    simp only [cleanList, Bool.and_eq_true, Bool.not_eq_true'] at h
    simp only [canonList, h.1.1, Bool.false_eq_true, if_false, canon_clean x h.1.2, canonList_clean xs h.2]
theorem canonFields_clean : (kvs : List (String × J)) → cleanFields kvs = true → canonFields kvs = kvs
  | [], _ => rfl
  | (k, x) :: r, h => by
    simp only [cleanFields, Bool.and_eq_true, Bool.not_eq_true'] at h
    simp only [canonFields, h.1.1, Bool.false_eq_true, if_false, canon_clean x h.1.2, canonFields_clean r h.2]
end


/-! ## converse of Lemma A: a successful `encVal` met only distinct, unvisited identities -/

theorem not_mem_of_contains_false {vis : List Nat} {id : Nat} (h : vis.contains id = false) : id ∉ vis := by
  simpa using h

theorem encArr_cons_ok {vis : List Nat} {k : Key} {v : LVal} {r : List (Key × LVal)} {js : List J} {vis' : List Nat}
    (h : encArr vis ((k, v) :: r) = .ok (js, vis')) :
    ∃ j vis1 js', encVal vis v = .ok (j, vis1) ∧ encArr vis1 r = .ok (js', vis') ∧ js = j :: js' := by
  simp only [encArr] at h
  split at h
  · cases h
  · rename_i j vis1 hj
    split at h
    · cases h
    · rename_i js' vis2 hjs
      simp only [Except.ok.injEq, Prod.mk.injEq] at h
      obtain ⟨rfl, rfl⟩ := h
      exact ⟨j, vis1, js', hj, hjs, rfl⟩

theorem encObj_cons_ok {vis : List Nat} {k : Key} {v : LVal} {r : List (Key × LVal)} {ms : List (String × J)} {vis' : List Nat}
    (h : encObj vis ((k, v) :: r) = .ok (ms, vis')) :
    ∃ j vis1 ms', encVal vis v = .ok (j, vis1) ∧ encObj vis1 r = .ok (ms', vis') ∧ ms = (k.name, j) :: ms' := by
  simp only [encObj] at h
  split at h
  · cases h
  · rename_i j vis1 hj
    split at h
    · cases h
    · rename_i ms' vis2 hms
      simp only [Except.ok.injEq, Prod.mk.injEq] at h
      obtain ⟨rfl, rfl⟩ := h
      exact ⟨j, vis1, ms', hj, hms, rfl⟩

/-- what a successful traversal guarantees -/
def Visited (is vis vis' : List Nat) : Prop :=
  is.Nodup ∧ (∀ i ∈ is, i ∉ vis) ∧ (∀ i, i ∈ vis' ↔ (i ∈ is ∨ i ∈ vis))

theorem visited_nil (vis : List Nat) : Visited [] vis vis := by
  refine ⟨List.nodup_nil, ?_, ?_⟩ <;> simp

theorem visited_cons {id : Nat} {is vis vis' : List Nat} (hid : id ∉ vis) (h : Visited is (id :: vis) vis') :
    Visited (id :: is) vis vis' := by
  obtain ⟨h1, h2, h3⟩ := h
  refine ⟨List.nodup_cons.2 ⟨fun hm => h2 id hm (List.mem_cons_self ..), h1⟩, ?_, ?_⟩
  · intro i hi hm
    rcases List.mem_cons.1 hi with rfl | hi
    · exact hid hm
    · exact h2 i hi (List.mem_cons_of_mem _ hm)
  · intro i; rw [h3 i]; simp only [List.mem_cons]
    constructor
    · rintro (h | h | h)
      · exact Or.inl (Or.inr h)
      · exact Or.inl (Or.inl h)
      · exact Or.inr h
    · rintro ((h | h) | h)
      · exact Or.inr (Or.inl h)
      · exact Or.inl h
      · exact Or.inr (Or.inr h)

theorem visited_append {a b vis vis1 vis2 : List Nat} (ha : Visited a vis vis1) (hb : Visited b vis1 vis2) :
    Visited (a ++ b) vis vis2 := by
  obtain ⟨a1, a2, a3⟩ := ha
  obtain ⟨b1, b2, b3⟩ := hb
  refine ⟨List.nodup_append.2 ⟨a1, b1, ?_⟩, ?_, ?_⟩
  · intro x hx y hy hxy
    subst hxy
    exact b2 x hy ((a3 x).2 (Or.inl hx))
  · intro i hi hm
    rcases List.mem_append.1 hi with h | h
    · exact a2 i h hm
    · exact b2 i h ((a3 i).2 (Or.inr hm))
  · intro i; rw [b3 i, a3 i]; simp only [List.mem_append]
    constructor
    · rintro (h | h | h)
      · exact Or.inl (Or.inr h)
      · exact Or.inl (Or.inl h)
      · exact Or.inr h
    · rintro ((h | h) | h)
      · exact Or.inr (Or.inl h)
      · exact Or.inl h
      · exact Or.inr (Or.inr h)

mutual
theorem pure_of_encVal : (l : LVal) → ∀ (vis : List Nat) (j : J) (vis' : List Nat), encVal vis l = .ok (j, vis') →
    encPure l = .ok j ∧ Visited (ids l) vis vis'
  | .nil, vis, j, vis', h => by
    simp only [encVal, Except.ok.injEq, Prod.mk.injEq] at h; obtain ⟨rfl, rfl⟩ := h
    exact ⟨rfl, visited_nil _⟩
  | .bool b, vis, j, vis', h => by
    simp only [encVal, Except.ok.injEq, Prod.mk.injEq] at h; obtain ⟨rfl, rfl⟩ := h
    exact ⟨rfl, visited_nil _⟩
  | .num n, vis, j, vis', h => by
    simp only [encVal, Except.ok.injEq, Prod.mk.injEq] at h; obtain ⟨rfl, rfl⟩ := h
    exact ⟨rfl, visited_nil _⟩
  | .str s, vis, j, vis', h => by
    simp only [encVal, Except.ok.injEq, Prod.mk.injEq] at h; obtain ⟨rfl, rfl⟩ := h
    exact ⟨rfl, visited_nil _⟩
  | .func, vis, j, vis', h => by simp only [encVal] at h; cases h
  | .tbl id [], vis, j, vis', h => by
    simp only [encVal] at h
    split at h
    · cases h
    · rename_i hc
      simp only [Except.ok.injEq, Prod.mk.injEq] at h; obtain ⟨rfl, rfl⟩ := h
      have hid := not_mem_of_contains_false (Bool.eq_false_iff.2 hc)
      exact ⟨rfl, by simpa [ids, idsKvs] using visited_cons hid (visited_nil (id :: vis))⟩
  | .tbl id ((.int m, v) :: r), vis, j, vis', h => by
    simp only [encVal] at h
    split at h
    · cases h
    · rename_i hc
      have hid := not_mem_of_contains_false (Bool.eq_false_iff.2 hc)
      split at h
      · cases h
      · rename_i hchk
        split at h
        · rename_i js vis2 hjs
          simp only [Except.ok.injEq, Prod.mk.injEq] at h; obtain ⟨rfl, rfl⟩ := h
          obtain ⟨hp, hv⟩ := pure_of_encArr ((.int m, v) :: r) (id :: vis) js vis2 hjs
          exact ⟨by simp only [encPure, hchk, hp], by simp only [ids]; exact visited_cons hid hv⟩
        · cases h
  | .tbl id ((.str s, v) :: r), vis, j, vis', h => by
    simp only [encVal] at h
    split at h
    · cases h
    · rename_i hc
      have hid := not_mem_of_contains_false (Bool.eq_false_iff.2 hc)
      split at h
      · rename_i hall
        split at h
        · rename_i ms vis2 hms
          simp only [Except.ok.injEq, Prod.mk.injEq] at h; obtain ⟨rfl, rfl⟩ := h
          obtain ⟨hp, hv⟩ := pure_of_encObj ((.str s, v) :: r) (id :: vis) ms vis2 hms
          exact ⟨by simp only [encPure, hall, hp, if_true], by simp only [ids]; exact visited_cons hid hv⟩
        · cases h
      · cases h
  | .tbl id ((.other, v) :: r), vis, j, vis', h => by
    simp only [encVal] at h
    split at h <;> cases h
theorem pure_of_encArr : (kvs : List (Key × LVal)) → ∀ (vis : List Nat) (js : List J) (vis' : List Nat),
    encArr vis kvs = .ok (js, vis') → encArrPure kvs = .ok js ∧ Visited (idsKvs kvs) vis vis'
  | [], vis, js, vis', h => by
    simp only [encArr, Except.ok.injEq, Prod.mk.injEq] at h; obtain ⟨rfl, rfl⟩ := h
    exact ⟨rfl, visited_nil _⟩
  | (k, v) :: r, vis, js, vis', h => by
    obtain ⟨j, vis1, js', hj, hjs, rfl⟩ := encArr_cons_ok h
    obtain ⟨p1, v1⟩ := pure_of_encVal v vis j vis1 hj
    obtain ⟨p2, v2⟩ := pure_of_encArr r vis1 js' vis' hjs
    exact ⟨by simp only [encArrPure, p1, p2], by simp only [idsKvs]; exact visited_append v1 v2⟩
theorem pure_of_encObj : (kvs : List (Key × LVal)) → ∀ (vis : List Nat) (ms : List (String × J)) (vis' : List Nat),
    encObj vis kvs = .ok (ms, vis') → encObjPure kvs = .ok ms ∧ Visited (idsKvs kvs) vis vis'
  | [], vis, ms, vis', h => by
    simp only [encObj, Except.ok.injEq, Prod.mk.injEq] at h; obtain ⟨rfl, rfl⟩ := h
    exact ⟨rfl, visited_nil _⟩
  | (k, v) :: r, vis, ms, vis', h => by
    obtain ⟨j, vis1, ms', hj, hms, rfl⟩ := encObj_cons_ok h
    obtain ⟨p1, v1⟩ := pure_of_encVal v vis j vis1 hj
    obtain ⟨p2, v2⟩ := pure_of_encObj r vis1 ms' vis' hms
    exact ⟨by simp only [encObjPure, p1, p2], by simp only [idsKvs]; exact visited_append v1 v2⟩
end


/-! ## errors: with distinct, unvisited identities `encVal` fails exactly as `encPure` does -/

theorem encArrPure_cons_err {k : Key} {v : LVal} {r : List (Key × LVal)} {e : EncErr}
    (h : encArrPure ((k, v) :: r) = .error e) :
    encPure v = .error e ∨ ∃ j, encPure v = .ok j ∧ encArrPure r = .error e := by
  simp only [encArrPure] at h
  split at h
  · rename_i e' he; cases h; exact Or.inl he
  · rename_i j hj
    split at h
    · rename_i e' he; cases h; exact Or.inr ⟨j, hj, he⟩
    · cases h

theorem encObjPure_cons_err {k : Key} {v : LVal} {r : List (Key × LVal)} {e : EncErr}
    (h : encObjPure ((k, v) :: r) = .error e) :
    encPure v = .error e ∨ ∃ j, encPure v = .ok j ∧ encObjPure r = .error e := by
  simp only [encObjPure] at h
  split at h
  · rename_i e' he; cases h; exact Or.inl he
  · rename_i j hj
    split at h
    · rename_i e' he; cases h; exact Or.inr ⟨j, hj, he⟩
    · cases h

theorem fresh_tail {id : Nat} {is vis : List Nat} (hnd : (id :: is).Nodup) (hf : ∀ i ∈ id :: is, i ∉ vis) :
    is.Nodup ∧ ∀ i ∈ is, i ∉ id :: vis := by
  have h := List.nodup_cons.1 hnd
  refine ⟨h.2, ?_⟩
  intro i hi hm
  rcases List.mem_cons.1 hm with rfl | hm
  · exact h.1 hi
  · exact hf i (List.mem_cons_of_mem _ hi) hm

mutual
theorem encVal_err_of_pure : (l : LVal) → ∀ (vis : List Nat) (e : EncErr), encPure l = .error e → (ids l).Nodup →
    (∀ i ∈ ids l, i ∉ vis) → encVal vis l = .error e
  | .nil, vis, e, hp, _, _ => by simp only [encPure] at hp; cases hp
  | .bool b, vis, e, hp, _, _ => by simp only [encPure] at hp; cases hp
  | .num n, vis, e, hp, _, _ => by simp only [encPure] at hp; cases hp
  | .str s, vis, e, hp, _, _ => by simp only [encPure] at hp; cases hp
  | .func, vis, e, hp, _, _ => by
    simp only [encPure] at hp; cases hp; simp only [encVal]
  | .tbl id [], vis, e, hp, _, _ => by simp only [encPure] at hp; cases hp
  | .tbl id ((.int m, v) :: r), vis, e, hp, hnd, hfresh => by
    have hid : vis.contains id = false := contains_false_of_not_mem (hfresh id (by simp [ids]))
    obtain ⟨hnd', hfresh'⟩ := fresh_tail (by simpa only [ids] using hnd) (by simpa only [ids] using hfresh)
    simp only [encPure] at hp
    split at hp
    · rename_i e' hchk; cases hp
      simp only [encVal, hid, hchk]; rfl
    · rename_i hchk
      split at hp
      · cases hp
      · rename_i e' he; cases hp
        have := encArr_err_of_pure ((.int m, v) :: r) (id :: vis) e he hnd' hfresh'
        simp only [encVal, hid, hchk, this]; rfl
  | .tbl id ((.str s, v) :: r), vis, e, hp, hnd, hfresh => by
    have hid : vis.contains id = false := contains_false_of_not_mem (hfresh id (by simp [ids]))
    obtain ⟨hnd', hfresh'⟩ := fresh_tail (by simpa only [ids] using hnd) (by simpa only [ids] using hfresh)
    simp only [encPure] at hp
    split at hp
    · rename_i hall
      split at hp
      · cases hp
      · rename_i e' he; cases hp
        have := encObj_err_of_pure ((.str s, v) :: r) (id :: vis) e he hnd' hfresh'
        simp only [encVal, hid, hall, this]; rfl
    · rename_i hall; cases hp
      simp only [encVal, hid, hall]; rfl
  | .tbl id ((.other, v) :: r), vis, e, hp, _, hfresh => by
    have hid : vis.contains id = false := contains_false_of_not_mem (hfresh id (by simp [ids]))
    simp only [encPure] at hp; cases hp
    simp only [encVal, hid]; rfl
theorem encArr_err_of_pure : (kvs : List (Key × LVal)) → ∀ (vis : List Nat) (e : EncErr), encArrPure kvs = .error e →
    (idsKvs kvs).Nodup → (∀ i ∈ idsKvs kvs, i ∉ vis) → encArr vis kvs = .error e
  | [], vis, e, hp, _, _ => by simp only [encArrPure] at hp; cases hp
  | (k, v) :: r, vis, e, hp, hnd, hfresh => by
    simp only [idsKvs, List.nodup_append] at hnd
    have hf1 : ∀ i ∈ ids v, i ∉ vis := fun i hi => hfresh i (by simp only [idsKvs]; exact List.mem_append_left _ hi)
    rcases encArrPure_cons_err hp with he | ⟨j, hj, he⟩
    · simp only [encArr, encVal_err_of_pure v vis e he hnd.1 hf1]
    · obtain ⟨vis1, he1, hv1⟩ := encVal_of_pure v vis j hj hnd.1 hf1
      have := encArr_err_of_pure r vis1 e he hnd.2.1 (by
        intro i hi hmem
        rcases (hv1 i).1 hmem with h | h
        · exact hnd.2.2 i h i hi rfl
        · exact hfresh i (by simp only [idsKvs]; exact List.mem_append_right _ hi) h)
      simp only [encArr, he1, this]
theorem encObj_err_of_pure : (kvs : List (Key × LVal)) → ∀ (vis : List Nat) (e : EncErr), encObjPure kvs = .error e →
    (idsKvs kvs).Nodup → (∀ i ∈ idsKvs kvs, i ∉ vis) → encObj vis kvs = .error e
  | [], vis, e, hp, _, _ => by simp only [encObjPure] at hp; cases hp
  | (k, v) :: r, vis, e, hp, hnd, hfresh => by
    simp only [idsKvs, List.nodup_append] at hnd
    have hf1 : ∀ i ∈ ids v, i ∉ vis := fun i hi => hfresh i (by simp only [idsKvs]; exact List.mem_append_left _ hi)
    rcases encObjPure_cons_err hp with he | ⟨j, hj, he⟩
    · simp only [encObj, encVal_err_of_pure v vis e he hnd.1 hf1]
    · obtain ⟨vis1, he1, hv1⟩ := encVal_of_pure v vis j hj hnd.1 hf1
      have := encObj_err_of_pure r vis1 e he hnd.2.1 (by
        intro i hi hmem
        rcases (hv1 i).1 hmem with h | h
        · exact hnd.2.2 i h i hi rfl
        · exact hfresh i (by simp only [idsKvs]; exact List.mem_append_right _ hi) h)
      simp only [encObj, he1, this]
end

theorem checkArrKeys_ne_nested : ∀ (l : List (Key × LVal)) (e : Int), checkArrKeys e l ≠ some .nested
  | [], _ => by simp [checkArrKeys]
  | (.int n, _) :: r, e => by
    simp only [checkArrKeys]
    split
    · exact checkArrKeys_ne_nested r _
    · simp
  | (.str _, _) :: _, _ => by simp [checkArrKeys]
  | (.other, _) :: _, _ => by simp [checkArrKeys]

/- the identity-free encoder never reports "recursively nested" -/
mutual
theorem encPure_ne_nested : (l : LVal) → encPure l ≠ .error .nested
  | .nil => by simp [encPure]
  | .bool _ => by simp [encPure]
  | .num _ => by simp [encPure]
  | .str _ => by simp [encPure]
  | .func => by simp [encPure]
  | .tbl id [] => by simp [encPure]
  | .tbl id ((.int m, v) :: r) => by
    intro h
    simp only [encPure] at h
    split at h
    · rename_i e hchk
      cases h
      exact checkArrKeys_ne_nested _ _ hchk
    · split at h
      · cases h
      · rename_i e he; cases h
        exact encArrPure_ne_nested _ he
  | .tbl id ((.str s, v) :: r) => by
    intro h
    simp only [encPure] at h
    split at h
    · split at h
      · cases h
      · rename_i e he; cases h
        exact encObjPure_ne_nested _ he
    · cases h
  | .tbl id ((.other, v) :: r) => by simp [encPure]
theorem encArrPure_ne_nested : (kvs : List (Key × LVal)) → encArrPure kvs ≠ .error .nested
  | [] => by simp [encArrPure]
  | (k, v) :: r => by
    intro h
    rcases encArrPure_cons_err h with he | ⟨_, _, he⟩
    · exact encPure_ne_nested v he
    · exact encArrPure_ne_nested r he
theorem encObjPure_ne_nested : (kvs : List (Key × LVal)) → encObjPure kvs ≠ .error .nested
  | [] => by simp [encObjPure]
  | (k, v) :: r => by
    intro h
    rcases encObjPure_cons_err h with he | ⟨_, _, he⟩
    · exact encPure_ne_nested v he
    · exact encObjPure_ne_nested r he
end

end RV.LuaJson
