/-
  C07 with traffic routing, closed loop: `StepTrafficRouting` is left within a bounded number of fair rounds
  (`round = [ro, br, env, approve, tick]`, `RV.Oracle.ClosedLoop.rounds`), from EVERY state of the traffic invariant.
-/
import RV.Lemmas.ClosedLoopTrafficDefs
import RV.Lemmas.ClosedLoopTrafficRoll
import RV.Lemmas.ClosedLoopTrafficBr
import RV.Lemmas.ClosedLoopTrafficLabels
import RV.Props.TrafficThms
import RV.Props.ClosedLoopThms
namespace RV.Lemmas.ClosedLoopTraffic
open RV.Arith RV.Traffic RV.RolloutSM RV.ClosedLoop RV.Oracle.ClosedLoop RV.Oracle.ClosedLoopTraffic RV.Lemmas.ClosedLoop

/-- the sub-state is past `StepTrafficRouting` -/
def routedState (st : StepState) : Bool := st == .metricsAnalysis || st == .paused || st == .ready || st == .completed

/-! ### the Manager work of one release-manager round in `StepTrafficRouting`, and its measure -/

/-- what the release manager asks of the traffic Manager in `StepTrafficRouting`: `DoTrafficRouting` on a step with a weight;
    on a step without one, `FinalisingTrafficRouting` first (`DoTrafficRouting` then reports done at once) -/
def live_call (t : TCtx) (n : Net) (m : Mem) : TOut :=
  match t.weight with
  | some _ => doTrafficRouting t n m
  | none => finalisingTrafficRouting t n m

/-- rounds still needed (an upper bound): weighted step — Services (4), create the route (3), set the weight (2), verify (1);
    step without weight — one per object still to restore -/
def live_rank (t : TCtx) (n : Net) : Nat :=
  match t.weight with
  | some wt =>
    if t.disableGen = true ∨ (n.canarySvc = some t.canaryRev ∧ n.stableSel.getD "" = t.stableRev) then
      (match n.canaryIng with
       | none => if wt = 0 then 1 else 3
       | some x => if x = wt then 1 else 2)
    else 4
  | none =>
    (if n.stableSel.getD "" ≠ "" then 1 else 0) + (if n.canaryIng.isSome = true then 1 else 0) +
    (if t.disableGen = false ∧ n.canarySvc.isSome = true then 1 else 0)

theorem live_rank_le (t : TCtx) (n : Net) : live_rank t n ≤ 4 := by
  unfold live_rank
  split
  · split
    · split <;> split <;> omega
    · omega
  · split <;> split <;> split <;> omega

/-- the measure does not read the last-update time -/
theorem live_rank_lu (t : TCtx) (n : Net) (a : Age) : live_rank { t with lastUpdate := a } n = live_rank t n := rfl

theorem live_dtr_progress (t : TCtx) (n : Net) (m : Mem) (wt : Nat) (hw : t.weight = some wt)
    (hbase : t.hasRef = true → n.stableExists = true ∧ n.stableIngress = true) (hl : t.lastUpdate ≠ .fresh)
    (hsr : t.stableRev ≠ "") (hcr : t.canaryRev ≠ "") :
    (doTrafficRouting t n m).done = true ∨ live_rank t (doTrafficRouting t n m).net < live_rank t n := by
  by_cases href : t.hasRef = true
  · obtain ⟨hex, hing⟩ := hbase href
    have hok : ∀ n' : Net, RV.Props.Traffic.SvcOk t n' ↔
        (t.disableGen = true ∨ (n'.canarySvc = some t.canaryRev ∧ n'.stableSel.getD "" = t.stableRev)) := by
      intro n'
      rw [RV.Props.Traffic.svcOk_iff]
      constructor
      · rintro (h | ⟨_, _, h1, h2⟩)
        · exact Or.inl h
        · exact Or.inr ⟨h1, h2⟩
      · rintro (h | ⟨h1, h2⟩)
        · exact Or.inl h
        · exact Or.inr ⟨hsr, hcr, h1, h2⟩
    by_cases hk : RV.Props.Traffic.SvcOk t n
    · rw [RV.Props.Traffic.doTR_of_svcOk t n m wt href hw hex hl hk]
      have hc := (hok n).1 hk
      unfold live_rank
      rw [hw]
      dsimp only
      unfold routeStep ensureRoutes
      cases hci : n.canaryIng with
      | none =>
        by_cases hw0 : wt = 0
        · left; simp [hw0]
        · right
          simp only [hw0, if_false, hing, if_true, Bool.false_eq_true]
          rw [if_pos hc, if_pos hc]
          by_cases h0 : 0 = wt
          · exact absurd h0.symm hw0
          · rw [if_neg h0]; omega
      | some x =>
        dsimp only
        by_cases hx : x = wt
        · left; simp [hx]
        · right
          simp only [hx, if_false, Bool.false_eq_true]
          rw [if_pos hc, if_pos hc]
          simp
    · right
      have hnc := fun h => hk ((hok n).2 h)
      have hr4 : live_rank t n = 4 := by
        unfold live_rank; rw [hw]; dsimp only; rw [if_neg hnc]
      rw [hr4]
      unfold doTrafficRouting
      simp only [href, not_true_eq_false, if_false, hw, hex, hl]
      cases hs : svcStep t n with
      | none =>
        exfalso
        unfold svcStep at hs
        by_cases hd : t.disableGen = true
        · simp [hd] at hs
        · simp [hd, hsr, hcr] at hs
      | some r =>
        obtain ⟨n2, ws⟩ := r
        dsimp only
        by_cases hws : ws = []
        · subst hws
          exfalso
          have hn2 : n2 = n := (RV.Props.Traffic.svcStep_nowrite t n n2 hs).1
          subst hn2
          exact hk hs
        · rw [if_pos hws]
          dsimp only
          have hk2 := (hok n2).1 (RV.Props.Traffic.svcStep_idem t n n2 ws hs)
          unfold live_rank
          rw [hw]
          dsimp only
          rw [if_pos hk2]
          split <;> split <;> omega
  · left
    unfold doTrafficRouting
    rw [if_pos href]

/-- no grace period of the clean-up calls is still running -/
def live_noFresh (m : Mem) : Prop := m.restoreService ≠ .fresh ∧ m.restoreGateway ≠ .fresh ∧ m.removeCanaryService ≠ .fresh

theorem live_fin_progress (t : TCtx) (n : Net) (m : Mem) (hw : t.weight = none)
    (hbase : t.hasRef = true → n.stableExists = true) (hm : live_noFresh m) (hkey : t.hasRevKey = true) :
    (finalisingTrafficRouting t n m).done = true ∨ live_rank t (finalisingTrafficRouting t n m).net < live_rank t n := by
  by_cases href : t.hasRef = true
  · by_cases hg : t.grace = 0
    · exact Or.inl (RV.Props.Traffic.finalising_immediate t n m hg).1
    · have hex := hbase href
      obtain ⟨hm1, hm2, hm3⟩ := hm
      obtain ⟨e1, a1, a2, a3, a4, a5, p1, p2⟩ := RV.Props.Traffic.rs_round t n m href hg hm1
      have hrk : ∀ n' : Net, live_rank t n' = (if n'.stableSel.getD "" ≠ "" then 1 else 0) + (if n'.canaryIng.isSome = true then 1 else 0) +
          (if t.disableGen = false ∧ n'.canarySvc.isSome = true then 1 else 0) := by
        intro n'; unfold live_rank; rw [hw]
      rw [hrk, hrk n]
      generalize hr1 : restoreStableService t n m = r1 at *
      unfold finalisingTrafficRouting
      simp only [href, not_true_eq_false, if_false, hr1]
      by_cases hpin : n.stableSel.getD "" ≠ ""
      · obtain ⟨d1, s1, _⟩ := p1 ⟨hex, hkey, hpin⟩
        simp only [e1, d1, Bool.false_eq_true, false_or, if_true]
        rw [s1, a1, a2, if_pos hpin]
        simp only [Option.getD_none, ne_eq, not_true_eq_false, if_false]
        omega
      · obtain ⟨d1, s1, _, _⟩ := p2 (fun h => hpin h.2.2)
        simp only [e1, d1, Bool.false_eq_true, or_self, if_false]
        have hm2' : r1.mem.restoreGateway ≠ .fresh := by rw [a4]; exact hm2
        have hm3' : r1.mem.removeCanaryService ≠ .fresh := by rw [a5]; exact hm3
        obtain ⟨e2, b1, b2, b3, b4, b5, b6, q1, q2⟩ := RV.Props.Traffic.rg_round t r1.net r1.mem href hg hm2'
        generalize hr2 : restoreGateway t r1.net r1.mem = r2 at *
        by_cases hing : r1.net.canaryIng.isSome = true
        · obtain ⟨d2, _⟩ := q1 hing
          simp only [e2, d2, Bool.false_eq_true, false_or, if_true]
          rw [b1, b2, b4, s1, if_neg hpin]
          rw [s1] at hing
          rw [if_pos hing]
          simp only [Option.isSome_none, Bool.false_eq_true, if_false]
          omega
        · have hing' : r1.net.canaryIng.isSome = false := by simpa using hing
          obtain ⟨d2, _⟩ := q2 hing'
          simp only [e2, d2, Bool.false_eq_true, or_self, if_false]
          have hm3'' : r2.mem.removeCanaryService ≠ .fresh := by rw [b6]; exact hm3'
          obtain ⟨e3, c1, c2, c3, c4, c5, t1, t2⟩ := RV.Props.Traffic.rc_round t r2.net r2.mem href hg hm3''
          generalize hr3 : removeCanaryService t r2.net r2.mem = r3 at *
          by_cases hd : t.disableGen = true
          · obtain ⟨d3, _, _⟩ := t1 hd
            simp only [e3, d3, Bool.false_eq_true, or_self, if_false]
            exact Or.inl trivial
          · have hd' : t.disableGen = false := by simpa using hd
            obtain ⟨u1, u2, u3⟩ := t2 hd'
            by_cases hsvc : r2.net.canarySvc.isSome = true
            · obtain ⟨d3, _⟩ := u2 hsvc
              simp only [e3, d3, Bool.false_eq_true, false_or, if_true]
              rw [c1, c2, u1, b1, b4, s1, if_neg hpin]
              rw [b2, s1] at hsvc
              have hc3 : t.disableGen = false ∧ n.canarySvc.isSome = true := ⟨hd', hsvc⟩
              rw [if_pos hc3]
              simp only [Option.isSome_none, Bool.false_eq_true, if_false, and_false]
              omega
            · have hsvc' : r2.net.canarySvc.isSome = false := by simpa using hsvc
              obtain ⟨d3, _⟩ := u3 hsvc'
              simp only [e3, d3, Bool.false_eq_true, or_self, if_false]
              exact Or.inl trivial
  · left
    unfold finalisingTrafficRouting
    rw [if_pos href]

/-- **one call makes progress**: it reports done, or the measure is strictly smaller on the network it leaves -/
theorem live_call_progress (t : TCtx) (n : Net) (m : Mem)
    (hbase : t.hasRef = true → n.stableExists = true ∧ n.stableIngress = true) (hl : t.lastUpdate ≠ .fresh)
    (hsr : t.stableRev ≠ "") (hcr : t.canaryRev ≠ "") (hm : live_noFresh m) (hkey : t.hasRevKey = true) :
    (live_call t n m).done = true ∨ live_rank t (live_call t n m).net < live_rank t n := by
  cases hw : t.weight with
  | none =>
    have e : live_call t n m = finalisingTrafficRouting t n m := by unfold live_call; rw [hw]
    rw [e]
    exact live_fin_progress t n m hw (fun h => (hbase h).1) hm hkey
  | some wt =>
    have e : live_call t n m = doTrafficRouting t n m := by unfold live_call; rw [hw]
    rw [e]
    exact live_dtr_progress t n m wt hw hbase hl hsr hcr

/-! ### one round of the release manager in `StepTrafficRouting`, exactly -/

theorem live_jump (ro : Rollout) (s : Sub) (hlo : 1 ≤ s.curIdx) (hhi : s.curIdx ≤ ro.steps.length)
    (hn : s.nextIdx = nextBatchIndex ro.steps.length s.curIdx) : doCanaryJump ro s = some (s, false) := by
  unfold doCanaryJump
  dsimp only
  rw [if_neg (by omega), if_neg (fun h => h.1 hn)]

theorem live_callTM (f : TCtx → Net → Mem → TOut) (c : Ctx) (cb : Bool) (t : TCtx) (ht : trCtx c.ro c.sub = some t) :
    callTM f c cb =
      some ({ c with net := (f { t with hasRevKey := c.wlSeen } c.net c.mem).net,
                     mem := (f { t with hasRevKey := c.wlSeen } c.net c.mem).mem,
                     writes := c.writes ++ (f { t with hasRevKey := c.wlSeen } c.net c.mem).writes,
                     sub := if (f { t with hasRevKey := c.wlSeen } c.net c.mem).touched ∧ cb then { c.sub with lastUpdate := .fresh } else c.sub },
            (f { t with hasRevKey := c.wlSeen } c.net c.mem).done, (f { t with hasRevKey := c.wlSeen } c.net c.mem).err) := by
  unfold callTM
  rw [ht]

/-- `StepTrafficRouting`: the sub-state moves on exactly when `DoTrafficRouting` reports done -/
theorem live_stateStep (ro : Rollout) (step : Step) (c3 c' : Ctx) (hst : c3.sub.state = .trafficRouting) (t : TCtx)
    (ht : trCtx c3.ro c3.sub = some t) (h : stateStep ro step c3 = .ok c' false) :
    c'.net = (doTrafficRouting { t with hasRevKey := c3.wlSeen } c3.net c3.mem).net ∧
    c'.mem = (doTrafficRouting { t with hasRevKey := c3.wlSeen } c3.net c3.mem).mem ∧
    ((doTrafficRouting { t with hasRevKey := c3.wlSeen } c3.net c3.mem).done = true → c'.sub.state = .metricsAnalysis) ∧
    ((doTrafficRouting { t with hasRevKey := c3.wlSeen } c3.net c3.mem).done = false → c'.sub.state = .trafficRouting) := by
  unfold stateStep at h
  simp only [hst] at h
  rw [live_callTM _ _ _ t ht] at h
  dsimp only at h
  generalize doTrafficRouting { t with hasRevKey := c3.wlSeen } c3.net c3.mem = o at h ⊢
  cases he : o.err with
  | true => rw [he] at h; simp at h
  | false =>
    rw [he] at h
    cases hd : o.done with
    | true =>
      rw [hd] at h
      simp only [Bool.false_eq_true, if_false, if_true, RunOut.ok.injEq, and_true] at h
      subst h
      exact ⟨rfl, rfl, fun _ => rfl, fun hh => by cases hh⟩
    | false =>
      rw [hd] at h
      simp only [Bool.false_eq_true, if_false, RunOut.ok.injEq, and_true] at h
      subst h
      refine ⟨rfl, rfl, fun hh => (by cases hh), fun _ => ?_⟩
      dsimp only
      split <;> exact hst

/-- the Manager context of a rollout on a step with weight `wt`, recorded stable revision `sr`, pod-template hash `cr` -/
def live_ctx (ro : Rollout) (sr cr : String) (wt : Option Nat) (lu : Age) : TCtx :=
  { hasRef := ro.hasTraffic, grace := ro.grace, weight := wt, disableGen := ro.disableGen, stableRev := sr, canaryRev := cr,
    lastUpdate := lu, hasRevKey := true }

theorem live_runCanary (c0 c' : Ctx) (rev : String) (h : runCanary c0 = .ok c' false) (hg : SubGood c0.ro c0.sub rev)
    (hst : c0.sub.state = .trafficRouting) (step : Step) (hstep : c0.ro.steps[(c0.sub.curIdx - 1).toNat]? = some step)
    (hseen : c0.wlSeen = true) (t : TCtx)
    (ht : t = live_ctx c0.ro c0.sub.stableRev (syncStep c0).sub.podHash step.weight c0.sub.lastUpdate) :
    c'.net = (live_call t c0.net c0.mem).net ∧ c'.mem = (live_call t c0.net c0.mem).mem ∧
    ((live_call t c0.net c0.mem).done = true → c'.sub.state = .metricsAnalysis) ∧
    ((live_call t c0.net c0.mem).done = false → c'.sub.state = .trafficRouting) := by
  obtain ⟨y1, y2, y3, y4, y5⟩ := RV.Props.Rollout.syncStep_sub c0
  obtain ⟨z1, z2, z3, z4⟩ := syncStep_eq c0
  have zsr : (syncStep c0).sub.stableRev = c0.sub.stableRev := by rw [z1]; split <;> rfl
  have zlu : (syncStep c0).sub.lastUpdate = c0.sub.lastUpdate := by rw [z1]; split <;> rfl
  have hstep1 : c0.ro.steps[((syncStep c0).sub.curIdx - 1).toNat]? = some step := by rw [y1]; exact hstep
  have htc := trCtx_eq c0.ro (syncStep c0).sub step (by rw [y1]; exact hg.lo) (by rw [y1]; exact hg.hi) hstep1
  rw [zsr, zlu] at htc
  unfold runCanary at h
  dsimp only at h
  rw [live_jump c0.ro (syncStep c0).sub (by rw [y1]; exact hg.lo) (by rw [y1]; exact hg.hi) (by rw [y2, y1]; exact hg.next)] at h
  dsimp only at h
  rw [hstep1] at h
  dsimp only at h
  rw [show (⟨(syncStep c0).ro, (syncStep c0).sub, (syncStep c0).wl, (syncStep c0).br, (syncStep c0).net, (syncStep c0).mem,
      (syncStep c0).requeue, (syncStep c0).writes, (syncStep c0).wlSeen⟩ : Ctx) = syncStep c0 from rfl] at h
  rw [← y4] at htc
  have y3' : (syncStep c0).sub.state = .trafficRouting := y3.trans hst
  rw [← z2, ← z3]
  have z4' : (syncStep c0).wlSeen = true := z4.trans hseen
  generalize syncStep c0 = c1 at *
  clear z1 y2 y3 y5
  generalize hT0 : (⟨c1.ro.hasTraffic, c1.ro.grace, step.weight, c1.ro.disableGen, c0.sub.stableRev, c1.sub.podHash, c0.sub.lastUpdate, true⟩ : TCtx) = T0 at htc
  have htc' := htc
  have et : ({ T0 with hasRevKey := c1.wlSeen } : TCtx) = t := by
    rw [ht, ← hT0, z4', y4]; rfl
  cases hwt : step.weight with
  | some wt =>
    have hpre : preStep step c1 = some (c1, true, false) := by
      unfold preStep stepHasTraffic
      rw [hwt]; rfl
    rw [hpre] at h
    simp only [Bool.false_eq_true, if_false, not_true_eq_false] at h
    obtain ⟨a1, a2, a3, a4⟩ := live_stateStep c0.ro step c1 c' y3' T0 htc' h
    rw [et] at a1 a2 a3 a4
    have ec : live_call t c1.net c1.mem = doTrafficRouting t c1.net c1.mem := by
      unfold live_call
      have : t.weight = some wt := by rw [ht]; exact hwt
      rw [this]
    rw [ec]
    exact ⟨a1, a2, a3, a4⟩
  | none =>
    have hwn : t.weight = none := by rw [ht]; exact hwt
    have ec : live_call t c1.net c1.mem = finalisingTrafficRouting t c1.net c1.mem := by
      unfold live_call
      rw [hwn]
    rw [ec]
    have hpre : preStep step c1 = callTM finalisingTrafficRouting c1 true := by
      unfold preStep stepHasTraffic
      rw [hwt]; rfl
    rw [hpre, live_callTM _ _ _ T0 htc', et] at h
    dsimp only at h
    generalize finalisingTrafficRouting t c1.net c1.mem = o at h ⊢
    generalize hs3 : (if o.touched = true ∧ true = true then ({ c1.sub with lastUpdate := Age.fresh } : Sub) else c1.sub) = s3 at h
    have f1 : s3.state = .trafficRouting := by rw [← hs3]; split <;> exact y3'
    have f2 : s3.curIdx = c1.sub.curIdx := by rw [← hs3]; split <;> rfl
    cases he : o.err with
    | true => rw [he] at h; simp at h
    | false =>
      rw [he] at h
      cases hd : o.done with
      | false =>
        rw [hd] at h
        simp only [Bool.false_eq_true, if_false, not_false_eq_true, if_true, RunOut.ok.injEq, and_true] at h
        subst h
        exact ⟨rfl, rfl, fun hh => (by cases hh), fun _ => f1⟩
      | true =>
        rw [hd] at h
        simp only [Bool.false_eq_true, if_false, not_true_eq_false] at h
        have htc3 := trCtx_eq c1.ro s3 step (by rw [f2, y1]; exact hg.lo) (by rw [f2, y1, y4]; exact hg.hi)
          (by rw [f2, y4]; exact hstep1)
        obtain ⟨a1, a2, a3, a4⟩ := live_stateStep c0.ro step _ c' f1 _ htc3 h
        have hnw : ∀ (x : TCtx) (n : Net) (m : Mem), x.weight = none → doTrafficRouting x n m = ⟨true, false, n, m, false, []⟩ := by
          intro x n m hx
          unfold doTrafficRouting
          split
          · rfl
          · rw [hx]
        rw [hnw _ _ _ hwt] at a1 a2 a3
        exact ⟨a1, a2, fun _ => a3 rfl, fun hh => (by cases hh)⟩

theorem live_ctx_congr (ro ro' : Rollout) (sr cr : String) (wt : Option Nat) (lu : Age) (h2 : ro'.hasTraffic = ro.hasTraffic)
    (h3 : ro'.grace = ro.grace) (h4 : ro'.disableGen = ro.disableGen) : live_ctx ro' sr cr wt lu = live_ctx ro sr cr wt lu := by
  unfold live_ctx
  rw [h2, h3, h4]

/-- **one Rollout reconcile of a rolling rollout in `StepTrafficRouting`** (hypotheses of `roll_world`): the network and the
    grace memory it leaves are those of the Manager call, and the sub-state moves on exactly when the call reports done -/
theorem live_world (W : World) (wl : WL) (sub : Sub) (alive : Prop)
    (hg : RoGood W.ro) (hph : W.ro.phase = .progressing) (hr : W.ro.reason = .inRolling)
    (hwl : W.wl = some wl) (hc : wl.consistent = true) (hnr : wl.inRollback = false)
    (hs : W.ro.sub = some sub) (hsub : SubGood W.ro sub wl.canaryRev)
    (hR : 0 < wl.replicas) (hm : planMono wl.replicas (planOf W.ro) = true)
    (hP : RollP W.ro wl.replicas wl.podTemplateHash alive sub.state sub.curIdx sub.stableRev sub.podHash
      (W.br.map (·.partition)) W.net)
    (hst : sub.state = .trafficRouting) (step : Step) (hstep : W.ro.steps[(sub.curIdx - 1).toNat]? = some step)
    (r : StepResult) (hrec : reconcile W = .val r) :
    ∃ s', r.w.ro.sub = some s' ∧
      r.w.net = (live_call (live_ctx W.ro sub.stableRev wl.podTemplateHash step.weight sub.lastUpdate) W.net W.mem).net ∧
      r.w.mem = (live_call (live_ctx W.ro sub.stableRev wl.podTemplateHash step.weight sub.lastUpdate) W.net W.mem).mem ∧
      ((live_call (live_ctx W.ro sub.stableRev wl.podTemplateHash step.weight sub.lastUpdate) W.net W.mem).done = true →
        s'.state = .metricsAnalysis) ∧
      ((live_call (live_ctx W.ro sub.stableRev wl.podTemplateHash step.weight sub.lastUpdate) W.net W.mem).done = false →
        s'.state = .trafficRouting) := by
  obtain ⟨o1, _, _⟩ := RV.Props.Reconcile.csObserve_same W.ro wl
  obtain ⟨id, gen, hs1⟩ := csObserve_sub W.ro wl sub hs
  have hpaused : (csObserve W.ro wl).paused = false := o1.2.2.2.1.trans hg.unpaused
  rw [reconcile_roll W wl _ hg hph hr hwl hc hs1,
    inRolling_roll W (csObserve W.ro wl) _ sub wl hs hnr hpaused hsub.rev.symm hsub.hash] at hrec
  generalize csObserve W.ro wl = ns at o1 hs1 hpaused hrec
  obtain ⟨q1, q2, q3, _, _, q6, q7, _, _, q10⟩ := o1
  have hne : ¬ sub.state = .completed := by rw [hst]; intro hh; cases hh
  rw [if_neg hne] at hrec
  have hN : (if ({ sub with observedRolloutID := id, observedGen := gen } : Sub).nextIdx ≤ 0 ∨
        ({ sub with observedRolloutID := id, observedGen := gen } : Sub).nextIdx > (ns.steps.length : Int) then
        { ({ sub with observedRolloutID := id, observedGen := gen } : Sub) with
          nextIdx := nextBatchIndex (ns.steps.length : Int) ({ sub with observedRolloutID := id, observedGen := gen } : Sub).curIdx }
      else ({ sub with observedRolloutID := id, observedGen := gen } : Sub)) =
      { sub with observedRolloutID := id, observedGen := gen } := by
    split
    · show ({ sub with observedRolloutID := id, observedGen := gen, nextIdx := nextBatchIndex (ns.steps.length : Int) sub.curIdx } : Sub) = _
      rw [q1, ← hsub.next]
    · rfl
  rw [hN] at hrec
  have hgN : SubGood ns { sub with observedRolloutID := id, observedGen := gen } wl.canaryRev :=
    ⟨hsub.lo, by rw [q1]; exact hsub.hi, by rw [q1]; exact hsub.next, hsub.lu, hsub.hash, hsub.rev, hsub.fin⟩
  cases hrc : runCanary (toCtx { W with ro := ns } { sub with observedRolloutID := id, observedGen := gen } wl) with
  | panic => rw [hrc] at hrec; cases hrec
  | ok c err =>
    rw [hrc] at hrec
    dsimp only at hrec
    have hC0 : RollC ns wl sub.stableRev alive
        (toCtx { W with ro := ns } { sub with observedRolloutID := id, observedGen := gen } wl) :=
      ⟨rfl, rfl, rfl, rfl, hP.congr_ro ns q1 q2 q6⟩
    have envN : RollEnv ns wl.replicas :=
      ⟨q3.trans hg.canary, q10.trans hg.partitionStyle, hR, by unfold planOf; rw [q1]; exact hm⟩
    obtain ⟨_, herr⟩ := roll_runCanary hC0 envN err wl.canaryRev hgN hrc
    subst herr
    rw [if_neg (by simp)] at hrec
    cases hrec
    have hph2 := (roll_syncStep hC0).2
    obtain ⟨a1, a2, a3, a4⟩ := live_runCanary _ c wl.canaryRev hrc hgN hst step (by rw [← q1] at hstep; exact hstep) rfl _ rfl
    rw [hph2] at a1 a2 a3 a4
    have ec : live_ctx ns sub.stableRev wl.podTemplateHash step.weight sub.lastUpdate =
        live_ctx W.ro sub.stableRev wl.podTemplateHash step.weight sub.lastUpdate := live_ctx_congr W.ro ns _ _ _ _ q2 q7 q6
    exact ⟨c.sub, rfl, by rw [← ec]; exact a1, by rw [← ec]; exact a2, by rw [← ec]; exact a3, by rw [← ec]; exact a4⟩

/-! ### the joint state while the rollout sits in `StepTrafficRouting` of step `k` -/

/-- the loop invariant of the progress argument: the traffic invariant, `InRolling`, sub-state `StepTrafficRouting` of step `k`,
    the recorded stable revision and the released revision fixed, the user's configuration that of `cfg` -/
structure LiveSt (cfg : Rollout) (k : Int) (sr rev : String) (s : CS) : Prop where
  inv : trInv s = true
  ph : s.ro.phase = .progressing
  re : s.ro.reason = .inRolling
  steps : s.ro.steps = cfg.steps
  ht : s.ro.hasTraffic = cfg.hasTraffic
  gr : s.ro.grace = cfg.grace
  dg : s.ro.disableGen = cfg.disableGen
  sub : ∃ sub, s.ro.sub = some sub ∧ sub.state = .trafficRouting ∧ sub.curIdx = k ∧ sub.stableRev = sr
  wl : ∃ w, s.wl = some w ∧ w.updateRevision = rev

/-- the goal: still rolling on step `k`, past `StepTrafficRouting` -/
def LiveDone (k : Int) (s : CS) : Prop :=
  trInv s = true ∧ s.ro.phase = .progressing ∧ s.ro.reason = .inRolling ∧
    ∃ sub', s.ro.sub = some sub' ∧ sub'.curIdx = k ∧ routedState sub'.state = true

/-- what holds at the end of every fair round: no grace period running, the workload status up to date, the last-update
    time aged -/
def LiveReady (s : CS) : Prop :=
  live_noFresh s.mem ∧ (∀ w, s.wl = some w → w.generation = w.observedGeneration) ∧
  (∀ sub, s.ro.sub = some sub → sub.lastUpdate ≠ .fresh)

/-- the measure on the joint state -/
def live_mu (cfg : Rollout) (k : Int) (sr rev : String) (n : Net) : Nat :=
  live_rank (live_ctx cfg sr rev (weightOf cfg k) .elapsed) n

/-- the state a Rollout reconcile (and then any of `br`, `env`, `approve`) leaves, coming from `s` -/
structure LiveMid (cfg : Rollout) (k : Int) (sr rev : String) (s a : CS) : Prop where
  inv : trInv a = true
  ph : a.ro.phase = .progressing
  re : a.ro.reason = .inRolling
  steps : a.ro.steps = cfg.steps
  ht : a.ro.hasTraffic = cfg.hasTraffic
  gr : a.ro.grace = cfg.grace
  dg : a.ro.disableGen = cfg.disableGen
  wl : ∃ w, a.wl = some w ∧ w.updateRevision = rev
  sub : ∃ sub, a.ro.sub = some sub ∧ sub.curIdx = k ∧ sub.stableRev = sr ∧
    (sub.state = .metricsAnalysis ∨
     (sub.state = .trafficRouting ∧ (LiveReady s → live_mu cfg k sr rev a.net < live_mu cfg k sr rev s.net)))

theorem live_weightOf (ro : Rollout) (k : Int) (step : Step) (hlo : 1 ≤ k) (hstep : ro.steps[(k - 1).toNat]? = some step) :
    weightOf ro k = step.weight := by
  unfold weightOf stepAt
  rw [if_neg (by omega), hstep]
  rfl

theorem live_eta (s : CS) (h : s.gone = false) : ({ s with gone := false, ro := (roWorld s).ro } : CS) = s := by
  cases s
  dsimp only at h
  subst h
  rfl

theorem live_ro (cfg : Rollout) (k : Int) (sr rev : String) (s : CS) (hL : LiveSt cfg k sr rev s) (hsr : sr ≠ "") (hrev : rev ≠ "") :
    ∃ a, stepRo s = some a ∧ LiveMid cfg k sr rev s a := by
  obtain ⟨h, hph, hr, c1, c2, c3, c4, ⟨sub, hsub, hst, hk, hsrev⟩, ⟨w, hw, hwrev⟩⟩ := hL
  obtain ⟨hf, hgone, hg, w0, hw0, hwok, hm, hbr, hpi, hR, htp⟩ := tr_parts s h
  rw [hw] at hw0
  cases hw0
  cases hc : (roWl w).consistent with
  | false =>
    have hrec := reconcile_wait (roWorld s) (roWl w) hg (world_wl s w hw) hc
    have e : ({ s with gone := false, ro := (roWorld s).ro } : CS) = s := live_eta s hgone
    have hs : stepRo s = some s := by
      rw [stepRo_eq s hgone _ hrec, landRo_status s _ rfl rfl rfl rfl, e]
    refine ⟨s, hs, ⟨h, hph, hr, c1, c2, c3, c4, ⟨w, hw, hwrev⟩, ⟨sub, hsub, hk, hsrev, Or.inr ⟨hst, fun hrd => ?_⟩⟩⟩⟩
    exfalso
    have := hrd.2.1 w hw
    have hc' : (roWl w).consistent = true := by
      show decide (w.generation = w.observedGeneration) = true
      exact decide_eq_true this
    rw [hc] at hc'; cases hc'
  | true =>
    rw [phaseInv_rolling s w sub hph hr hsub] at hpi
    simp only [Bool.and_eq_true] at hpi
    obtain ⟨⟨hsubok, hlink⟩, _⟩ := hpi
    have hsg : SubGood s.ro sub (roWl w).canaryRev := (subOK_iff s.ro sub w).1 hsubok
    rw [trPhase_rolling s w sub hph hr hsub] at htp
    have hP := roll_P_of_bool s sub w htp hlink hsg.lo hsg.hi
    have hwl := world_wl s w hw
    have hnr := noRollback w hwok
    obtain ⟨r, hrec, hrg, hk', hrph, hrwl, hout⟩ :=
      rolling_step (roWorld s) (roWl w) sub hg hph hr hwl hc hnr hsub hsg
    have hk'' : SpecKept s.ro r.w.ro := hk'
    obtain ⟨k1, k2, _, _, _, k6, k7, _, _, _⟩ := hk''.1
    have hP0 : RollP (roWorld s).ro (roWl w).replicas (roWl w).podTemplateHash (stableAlive sub w = true) sub.state sub.curIdx
        sub.stableRev sub.podHash ((roWorld s).br.map (·.partition)) (roWorld s).net := by
      have e : (roWorld s).br.map (·.partition) = s.br.map (·.partition) := by
        show (s.br.map roBr).map (·.partition) = _
        cases s.br <;> rfl
      rw [e]; exact hP
    obtain ⟨s1, hs1, hsr1, hcase⟩ :=
      roll_world (roWorld s) (roWl w) sub (stableAlive sub w = true) hg hph hr hwl hc hnr hsub hsg hR hm hP0 r hrec
    have hin : r.w.ro.reason = .inRolling := by
      rcases hcase with ⟨_, hcomp, _⟩ | ⟨hin, _⟩
      · rw [hst] at hcomp; cases hcomp
      · exact hin
    obtain ⟨step, hstep⟩ : ∃ step, s.ro.steps[(sub.curIdx - 1).toNat]? = some step := by
      have hlo := hsg.lo
      have hhi := hsg.hi
      have hlt : (sub.curIdx - 1).toNat < s.ro.steps.length := by omega
      exact ⟨s.ro.steps[(sub.curIdx - 1).toNat], List.getElem?_eq_getElem hlt⟩
    obtain ⟨s2, hs2, b1, b2, b3, b4⟩ :=
      live_world (roWorld s) (roWl w) sub (stableAlive sub w = true) hg hph hr hwl hc hnr hsub hsg hR hm hP0 hst step hstep r hrec
    rw [hs1] at hs2
    cases hs2
    have hcur : s1.curIdx = sub.curIdx := by
      rcases rolling_gate (roWorld s) (roWl w) sub hg hph hr hwl hc hnr hsub hsg r hrec hin s1 hs1 with ⟨_, hrd, _⟩ | ⟨hcur, _⟩
      · rw [hst] at hrd; cases hrd
      · exact hcur
    obtain ⟨a, ha, hfa⟩ := stepRo_fwd s hf
    have hta := ro_rolling_tr s a w h hw hc hph hr ha
    have hinv : trInv a = true := (trInv_iff a).2 ⟨hfa, hta⟩
    have ha' : a = landRo s r := by
      have := stepRo_eq s hgone r hrec
      rw [ha] at this
      exact Option.some.inj this
    have hroll : BrRoll s.ro sub.curIdx (getRolloutID (roWl w)) (s.br.map roBr) r.w.br := by
      rcases hout with ⟨a, _⟩ | ⟨_, _, a⟩
      · rw [hin] at a; cases a
      · exact a
    obtain ⟨br', o, hland, _⟩ := roll_land_part s.ro (getRolloutID (roWl w)) sub.curIdx s.br r.w.br w hroll
    have hl : landBR s.br r.w.br (annoLand s.wl r.w.wl) = (br', some { w with owner := o }) := by
      rw [hw, hrwl]
      show landBR s.br r.w.br (annoLand (some w) ((some w).map roWl)) = _
      rw [annoLand_id]; exact hland
    have e : landRo s r = ⟨r.roGone, r.w.ro, some { w with owner := o }, br', r.w.net, r.w.mem⟩ := by
      unfold landRo; rw [hl]
    rw [e] at ha'
    subst ha'
    refine ⟨_, ha, ⟨hinv, hrph, hin, k1.trans c1, k2.trans c2, k7.trans c3, k6.trans c4, ⟨_, rfl, hwrev⟩,
      ⟨s1, hs1, hcur.trans hk, hsr1.trans hsrev, ?_⟩⟩⟩
    -- the Manager call
    have hwt : weightOf cfg k = step.weight := by
      rw [← hk] at *
      exact live_weightOf cfg sub.curIdx step hsg.lo (by rw [← c1]; exact hstep)
    have erank : ∀ n : Net, live_rank (live_ctx (roWorld s).ro sub.stableRev (roWl w).podTemplateHash step.weight sub.lastUpdate) n =
        live_mu cfg k sr rev n := by
      intro n
      unfold live_mu
      rw [hwt, ← hsrev, ← hwrev]
      have := live_ctx_congr cfg s.ro sub.stableRev w.updateRevision step.weight sub.lastUpdate c2 c3 c4
      show live_rank (live_ctx s.ro sub.stableRev w.updateRevision step.weight sub.lastUpdate) n = _
      rw [this]
      rfl
    generalize hT : live_ctx (roWorld s).ro sub.stableRev (roWl w).podTemplateHash step.weight sub.lastUpdate = T at b1 b2 b3 b4 erank
    cases hd : (live_call T (roWorld s).net (roWorld s).mem).done with
    | true => exact Or.inl (b3 hd)
    | false =>
      refine Or.inr ⟨b4 hd, fun hrd => ?_⟩
      obtain ⟨rd1, _, rd3⟩ := hrd
      have hprog := live_call_progress T (roWorld s).net (roWorld s).mem (fun htr => hP0.base (by rw [← hT] at htr; exact htr))
        (by rw [← hT]; exact rd3 sub hsub) (by rw [← hT]; show sub.stableRev ≠ ""; rw [hsrev]; exact hsr)
        (by rw [← hT]; show w.updateRevision ≠ ""; rw [hwrev]; exact hrev) rd1 (by rw [← hT]; rfl)
      rcases hprog with hp | hp
      · rw [hd] at hp; cases hp
      · rw [erank, erank, ← b1] at hp
        exact hp

/-! ### the rest of the round -/

theorem live_stepBr_frame (a b : CS) (h : stepBr a = some b) :
    b.ro = a.ro ∧ b.net = a.net ∧ b.mem = a.mem ∧
    ∀ w, a.wl = some w → ∃ w', b.wl = some w' ∧ w'.updateRevision = w.updateRevision := by
  unfold stepBr at h
  cases hb : a.br with
  | none =>
    rw [hb] at h
    cases h
    exact ⟨rfl, rfl, rfl, fun w hw => ⟨w, hw, rfl⟩⟩
  | some c =>
    rw [hb] at h
    dsimp only at h
    cases he : Executor.reconcile (exBr c) (a.wl.map exWl) with
    | panic => rw [he] at h; cases h
    | val o =>
      rw [he] at h
      cases h
      refine ⟨rfl, rfl, rfl, fun w hw => ?_⟩
      unfold landBr
      dsimp only
      rw [hw]
      cases o.wl with
      | none => exact ⟨w, rfl, rfl⟩
      | some ew => exact ⟨_, rfl, rfl⟩

theorem live_br (cfg : Rollout) (k : Int) (sr rev : String) (s a : CS) (hM : LiveMid cfg k sr rev s a) :
    ∃ b, stepBr a = some b ∧ LiveMid cfg k sr rev s b := by
  obtain ⟨h, hph, hr, c1, c2, c3, c4, ⟨w, hw, hwrev⟩, ⟨sub, hsub, hrest⟩⟩ := hM
  obtain ⟨hf, _⟩ := (trInv_iff a).1 h
  obtain ⟨b, hb, hfb⟩ := stepBr_fwd a hf
  have htb := stepBr_tr a b h hb
  obtain ⟨f1, f2, f3, f4⟩ := live_stepBr_frame a b hb
  obtain ⟨w', hw', hrev'⟩ := f4 w hw
  refine ⟨b, hb, ⟨(trInv_iff b).2 ⟨hfb, htb⟩, by rw [f1]; exact hph, by rw [f1]; exact hr, by rw [f1]; exact c1,
    by rw [f1]; exact c2, by rw [f1]; exact c3, by rw [f1]; exact c4, ⟨w', hw', hrev'.trans hwrev⟩, ⟨sub, by rw [f1]; exact hsub, ?_⟩⟩⟩
  rw [f2]
  exact hrest

theorem live_envWl_gen (w : CWl) : (envWl w).generation = (envWl w).observedGeneration ∧ (envWl w).updateRevision = w.updateRevision := by
  unfold envWl
  dsimp only
  split <;> exact ⟨rfl, rfl⟩

theorem live_ageExp (e : Exp) : ageExp e ≠ .fresh := by cases e <;> simp [ageExp]

theorem live_ageAge (e : Age) : ageAge e ≠ .fresh := by cases e <;> simp [ageAge]

/-- `env`, `approve`, `tick` after the two reconciles -/
theorem live_tail (cfg : Rollout) (k : Int) (sr rev : String) (s b : CS) (hM : LiveMid cfg k sr rev s b) :
    LiveDone k (tick (approve { b with wl := b.wl.map envWl })) ∨
    (LiveSt cfg k sr rev (tick (approve { b with wl := b.wl.map envWl })) ∧
     LiveReady (tick (approve { b with wl := b.wl.map envWl })) ∧
     (LiveReady s → live_mu cfg k sr rev (tick (approve { b with wl := b.wl.map envWl })).net < live_mu cfg k sr rev s.net)) := by
  obtain ⟨h, hph, hr, c1, c2, c3, c4, ⟨w, hw, hwrev⟩, ⟨sub, hsub, hk, hsrev, hstate⟩⟩ := hM
  obtain ⟨hf, _⟩ := (trInv_iff b).1 h
  obtain ⟨_, hgone, _⟩ := tr_parts b h
  -- env
  have hinvC : trInv { b with wl := b.wl.map envWl } = true := (trInv_iff _).2 ⟨env_fwd b hf, env_tr b h⟩
  generalize hC : ({ b with wl := b.wl.map envWl } : CS) = c at hinvC ⊢
  have gC : c.gone = false := by rw [← hC]; exact hgone
  have roC : c.ro = b.ro := by rw [← hC]
  have netC : c.net = b.net := by rw [← hC]
  have wlC : c.wl = some (envWl w) := by rw [← hC]; show b.wl.map envWl = _; rw [hw]; rfl
  -- approve
  have hnp : sub.state ≠ .paused := by
    rcases hstate with h1 | ⟨h1, _⟩ <;> rw [h1] <;> intro hh <;> cases hh
  have hA : approve c = c := by
    unfold approve
    rw [if_neg (by simp [gC]), roC, hsub]
    dsimp only
    rw [if_neg hnp]
  rw [hA]
  -- tick
  obtain ⟨hfc, _⟩ := (trInv_iff c).1 hinvC
  have hinvT : trInv (tick c) = true := (trInv_iff _).2 ⟨tick_fwd c hfc, tick_tr c hinvC⟩
  have roT : (tick c).ro = { b.ro with sub := some { sub with lastUpdate := ageAge sub.lastUpdate }, condAge := ageAge b.ro.condAge } := by
    unfold tick
    dsimp only
    rw [if_neg (by simp [gC]), roC, hsub]
    rfl
  have netT : (tick c).net = b.net := netC
  have wlT : (tick c).wl = some (envWl w) := wlC
  have memT : live_noFresh (tick c).mem := ⟨live_ageExp _, live_ageExp _, live_ageExp _⟩
  have subT : (tick c).ro.sub = some { sub with lastUpdate := ageAge sub.lastUpdate } := by rw [roT]
  have hready : LiveReady (tick c) := by
    refine ⟨memT, fun w' hw' => ?_, fun sub' hs' => ?_⟩
    · rw [wlT] at hw'
      cases hw'
      exact (live_envWl_gen w).1
    · rw [subT] at hs'
      cases hs'
      exact live_ageAge _
  rcases hstate with h1 | ⟨h1, hmu⟩
  · left
    refine ⟨hinvT, by rw [roT]; exact hph, by rw [roT]; exact hr, _, subT, hk, ?_⟩
    show routedState sub.state = true
    rw [h1]; rfl
  · right
    refine ⟨⟨hinvT, by rw [roT]; exact hph, by rw [roT]; exact hr, by rw [roT]; exact c1, by rw [roT]; exact c2,
      by rw [roT]; exact c3, by rw [roT]; exact c4, ⟨_, subT, h1, hk, hsrev⟩, ⟨_, wlT, (live_envWl_gen w).2.trans hwrev⟩⟩, hready, ?_⟩
    rw [netT]
    exact hmu

/-- **one fair round** from a state of the loop invariant: every label is defined; afterwards the rollout has left
    `StepTrafficRouting` (still on step `k`), or the loop invariant and the round-boundary facts hold and — if they held
    before — the measure is strictly smaller -/
theorem live_round (cfg : Rollout) (k : Int) (sr rev : String) (s : CS) (hL : LiveSt cfg k sr rev s) (hsr : sr ≠ "") (hrev : rev ≠ "") :
    ∃ s', round s = some s' ∧
      (LiveDone k s' ∨
       (LiveSt cfg k sr rev s' ∧ LiveReady s' ∧ (LiveReady s → live_mu cfg k sr rev s'.net < live_mu cfg k sr rev s.net))) := by
  obtain ⟨a, ha, hMa⟩ := live_ro cfg k sr rev s hL hsr hrev
  obtain ⟨b, hb, hMb⟩ := live_br cfg k sr rev s a hMa
  refine ⟨tick (approve { b with wl := b.wl.map envWl }), ?_, live_tail cfg k sr rev s b hMb⟩
  simp only [round, roundLabels, run, step, ha, hb]

theorem live_rounds_succ (j : Nat) (s s' : CS) (h : round s = some s') : rounds (j + 1) s = rounds j s' := by
  show (match round s with | some s' => rounds j s' | none => none) = _
  rw [h]

theorem live_iter (cfg : Rollout) (k : Int) (sr rev : String) (hsr : sr ≠ "") (hrev : rev ≠ "") :
    ∀ (n : Nat) (s : CS), LiveSt cfg k sr rev s → LiveReady s → live_mu cfg k sr rev s.net ≤ n →
      ∃ j s', j ≤ n + 1 ∧ rounds j s = some s' ∧ LiveDone k s' := by
  intro n
  induction n with
  | zero =>
    intro s hL hrd hmu
    obtain ⟨s', hr, hcase⟩ := live_round cfg k sr rev s hL hsr hrev
    rcases hcase with hd | ⟨_, _, hlt⟩
    · exact ⟨1, s', by omega, by rw [live_rounds_succ 0 s s' hr]; rfl, hd⟩
    · have := hlt hrd
      omega
  | succ n ih =>
    intro s hL hrd hmu
    obtain ⟨s', hr, hcase⟩ := live_round cfg k sr rev s hL hsr hrev
    rcases hcase with hd | ⟨hL', hrd', hlt⟩
    · exact ⟨1, s', by omega, by rw [live_rounds_succ 0 s s' hr]; rfl, hd⟩
    · have := hlt hrd
      obtain ⟨j, s'', hj, hrs, hd⟩ := ih s' hL' hrd' (by omega)
      exact ⟨j + 1, s'', by omega, by rw [live_rounds_succ j s s' hr]; exact hrs, hd⟩

/-- **traffic routing converges inside the closed loop** — from every state of the traffic invariant in which the rollout is in
    `StepTrafficRouting` of step `k` (stable and released revision known), at most 7 fair rounds later — every round is defined:
    no reconciler panics — the rollout is still on step `k`, past `StepTrafficRouting`, and the invariant holds -/
theorem routing_converges (s : CS) (w : CWl) (sub : Sub) (h : trInv s = true) (hw : s.wl = some w)
    (hph : s.ro.phase = .progressing) (hr : s.ro.reason = .inRolling) (hsub : s.ro.sub = some sub)
    (hst : sub.state = .trafficRouting) (hsr : sub.stableRev ≠ "") (hur : w.updateRevision ≠ "") :
    ∃ k s', k ≤ 7 ∧ rounds k s = some s' ∧ trInv s' = true ∧ s'.ro.phase = .progressing ∧ s'.ro.reason = .inRolling ∧
      ∃ sub', s'.ro.sub = some sub' ∧ sub'.curIdx = sub.curIdx ∧ routedState sub'.state = true := by
  have hL : LiveSt s.ro sub.curIdx sub.stableRev w.updateRevision s :=
    ⟨h, hph, hr, rfl, rfl, rfl, rfl, ⟨sub, hsub, hst, rfl, rfl⟩, ⟨w, hw, rfl⟩⟩
  obtain ⟨s1, hr1, hcase⟩ := live_round s.ro sub.curIdx sub.stableRev w.updateRevision s hL hsr hur
  rcases hcase with hd | ⟨hL1, hrd1, _⟩
  · obtain ⟨d1, d2, d3, d4⟩ := hd
    exact ⟨1, s1, by omega, by rw [live_rounds_succ 0 s s1 hr1]; rfl, d1, d2, d3, d4⟩
  · obtain ⟨j, s2, hj, hrs, d1, d2, d3, d4⟩ :=
      live_iter s.ro sub.curIdx sub.stableRev w.updateRevision hsr hur 4 s1 hL1 hrd1 (live_rank_le _ _)
    exact ⟨j + 1, s2, by omega, by rw [live_rounds_succ j s s1 hr1]; exact hrs, d1, d2, d3, d4⟩

end RV.Lemmas.ClosedLoopTraffic
