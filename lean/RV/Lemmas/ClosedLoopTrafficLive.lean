/-
  C07 with traffic routing, closed loop: `StepTrafficRouting` is left within a bounded number of fair rounds
  (`round = [ro, br, env, approve, tick]`, `RV.Oracle.ClosedLoop.rounds`), from EVERY state of the traffic invariant.
-/
import RV.Lemmas.ClosedLoopTrafficDefs
import RV.Lemmas.ClosedLoopTrafficRoll
import RV.Lemmas.ClosedLoopTrafficBr
import RV.Lemmas.ClosedLoopTrafficLabels
import RV.Props.TrafficThms
import RV.Props.ClosedLoopThms
namespace RV.Lemmas.ClosedLoopTraffic
open RV.Arith RV.Traffic RV.RolloutSM RV.ClosedLoop RV.Oracle.ClosedLoop RV.Oracle.ClosedLoopTraffic RV.Lemmas.ClosedLoop

/-- the sub-state is past `StepTrafficRouting` -/
def routedState (st : StepState) : Bool := st == .metricsAnalysis || st == .paused || st == .ready || st == .completed

/-! ### the Manager work of one release-manager round in `StepTrafficRouting`, and its measure -/

/-- what the release manager asks of the traffic Manager in `StepTrafficRouting`: `DoTrafficRouting` on a step with a weight;
    on a step without one, `FinalisingTrafficRouting` first (`DoTrafficRouting` then reports done at once) -/
def live_call (t : TCtx) (n : Net) (m : Mem) : TOut :=
  match t.weight with
  | some _ => doTrafficRouting t n m
  | none => finalisingTrafficRouting t n m

/-- rounds still needed (an upper bound): weighted step — Services (4), create the route (3), set the weight (2), verify (1);
    step without weight — one per object still to restore -/
def live_rank (t : TCtx) (n : Net) : Nat :=
  match t.weight with
  | some wt =>
    if t.disableGen = true ∨ (n.canarySvc = some t.canaryRev ∧ n.stableSel.getD "" = t.stableRev) then
      (match n.canaryIng with
       | none => if wt = 0 then 1 else 3
       | some x => if x = wt then 1 else 2)
    else 4
  | none =>
    (if n.stableSel.getD "" ≠ "" then 1 else 0) + (if n.canaryIng.isSome = true then 1 else 0) +
    (if t.disableGen = false ∧ n.canarySvc.isSome = true then 1 else 0)

theorem live_rank_le (t : TCtx) (n : Net) : live_rank t n ≤ 4 := by
  unfold live_rank
  split
  · split
    · split <;> split <;> omega
    · omega
  · split <;> split <;> split <;> omega

/-- the measure does not read the last-update time -/
theorem live_rank_lu (t : TCtx) (n : Net) (a : Age) : live_rank { t with lastUpdate := a } n = live_rank t n := rfl

theorem live_dtr_progress (t : TCtx) (n : Net) (m : Mem) (wt : Nat) (hw : t.weight = some wt)
    (hbase : t.hasRef = true → n.stableExists = true ∧ n.stableIngress = true) (hl : t.lastUpdate ≠ .fresh)
    (hsr : t.stableRev ≠ "") (hcr : t.canaryRev ≠ "") :
    (doTrafficRouting t n m).done = true ∨ live_rank t (doTrafficRouting t n m).net < live_rank t n := by
  by_cases href : t.hasRef = true
  · obtain ⟨hex, hing⟩ := hbase href
    have hok : ∀ n' : Net, RV.Props.Traffic.SvcOk t n' ↔
        (t.disableGen = true ∨ (n'.canarySvc = some t.canaryRev ∧ n'.stableSel.getD "" = t.stableRev)) := by
      intro n'
      rw [RV.Props.Traffic.svcOk_iff]
      constructor
      · rintro (h | ⟨_, _, h1, h2⟩)
        · exact Or.inl h
        · exact Or.inr ⟨h1, h2⟩
      · rintro (h | ⟨h1, h2⟩)
        · exact Or.inl h
        · exact Or.inr ⟨hsr, hcr, h1, h2⟩
    by_cases hk : RV.Props.Traffic.SvcOk t n
    · rw [RV.Props.Traffic.doTR_of_svcOk t n m wt href hw hex hl hk]
      have hc := (hok n).1 hk
      unfold live_rank
      rw [hw]
      dsimp only
      unfold routeStep ensureRoutes
      cases hci : n.canaryIng with
      | none =>
        by_cases hw0 : wt = 0
        · left; simp [hw0]
        · right
          simp only [hw0, if_false, hing, if_true, Bool.false_eq_true]
          rw [if_pos hc, if_pos hc]
          by_cases h0 : 0 = wt
          · exact absurd h0.symm hw0
          · rw [if_neg h0]; omega
      | some x =>
        dsimp only
        by_cases hx : x = wt
        · left; simp [hx]
        · right
          simp only [hx, if_false, Bool.false_eq_true]
          rw [if_pos hc, if_pos hc]
          simp
    · right
      have hnc := fun h => hk ((hok n).2 h)
      have hr4 : live_rank t n = 4 := by
        unfold live_rank; rw [hw]; dsimp only; rw [if_neg hnc]
      rw [hr4]
      unfold doTrafficRouting
      simp only [href, not_true_eq_false, if_false, hw, hex, hl]
      cases hs : svcStep t n with
      | none =>
        exfalso
        unfold svcStep at hs
        by_cases hd : t.disableGen = true
        · simp [hd] at hs
        · simp [hd, hsr, hcr] at hs
      | some r =>
        obtain ⟨n2, ws⟩ := r
        dsimp only
        by_cases hws : ws = []
        · subst hws
          exfalso
          have hn2 : n2 = n := (RV.Props.Traffic.svcStep_nowrite t n n2 hs).1
          subst hn2
          exact hk hs
        · rw [if_pos hws]
          dsimp only
          have hk2 := (hok n2).1 (RV.Props.Traffic.svcStep_idem t n n2 ws hs)
          unfold live_rank
          rw [hw]
          dsimp only
          rw [if_pos hk2]
          split <;> split <;> omega
  · left
    unfold doTrafficRouting
    rw [if_pos href]

/-- no grace period of the clean-up calls is still running -/
def live_noFresh (m : Mem) : Prop := m.restoreService ≠ .fresh ∧ m.restoreGateway ≠ .fresh ∧ m.removeCanaryService ≠ .fresh

theorem live_fin_progress (t : TCtx) (n : Net) (m : Mem) (hw : t.weight = none)
    (hbase : t.hasRef = true → n.stableExists = true) (hm : live_noFresh m) (hkey : t.hasRevKey = true) :
    (finalisingTrafficRouting t n m).done = true ∨ live_rank t (finalisingTrafficRouting t n m).net < live_rank t n := by
  by_cases href : t.hasRef = true
  · by_cases hg : t.grace = 0
    · exact Or.inl (RV.Props.Traffic.finalising_immediate t n m hg).1
    · have hex := hbase href
      obtain ⟨hm1, hm2, hm3⟩ := hm
      obtain ⟨e1, a1, a2, a3, a4, a5, p1, p2⟩ := RV.Props.Traffic.rs_round t n m href hg hm1
      have hrk : ∀ n' : Net, live_rank t n' = (if n'.stableSel.getD "" ≠ "" then 1 else 0) + (if n'.canaryIng.isSome = true then 1 else 0) +
          (if t.disableGen = false ∧ n'.canarySvc.isSome = true then 1 else 0) := by
        intro n'; unfold live_rank; rw [hw]
      rw [hrk, hrk n]
      generalize hr1 : restoreStableService t n m = r1 at *
      unfold finalisingTrafficRouting
      simp only [href, not_true_eq_false, if_false, hr1]
      by_cases hpin : n.stableSel.getD "" ≠ ""
      · obtain ⟨d1, s1, _⟩ := p1 ⟨hex, hkey, hpin⟩
        simp only [e1, d1, Bool.false_eq_true, false_or, if_true]
        rw [s1, a1, a2, if_pos hpin]
        simp only [Option.getD_none, ne_eq, not_true_eq_false, if_false]
        omega
      · obtain ⟨d1, s1, _, _⟩ := p2 (fun h => hpin h.2.2)
        simp only [e1, d1, Bool.false_eq_true, or_self, if_false]
        have hm2' : r1.mem.restoreGateway ≠ .fresh := by rw [a4]; exact hm2
        have hm3' : r1.mem.removeCanaryService ≠ .fresh := by rw [a5]; exact hm3
        obtain ⟨e2, b1, b2, b3, b4, b5, b6, q1, q2⟩ := RV.Props.Traffic.rg_round t r1.net r1.mem href hg hm2'
        generalize hr2 : restoreGateway t r1.net r1.mem = r2 at *
        by_cases hing : r1.net.canaryIng.isSome = true
        · obtain ⟨d2, _⟩ := q1 hing
          simp only [e2, d2, Bool.false_eq_true, false_or, if_true]
          rw [b1, b2, b4, s1, if_neg hpin]
          rw [s1] at hing
          rw [if_pos hing]
          simp only [Option.isSome_none, Bool.false_eq_true, if_false]
          omega
        · have hing' : r1.net.canaryIng.isSome = false := by simpa using hing
          obtain ⟨d2, _⟩ := q2 hing'
          simp only [e2, d2, Bool.false_eq_true, or_self, if_false]
          have hm3'' : r2.mem.removeCanaryService ≠ .fresh := by rw [b6]; exact hm3'
          obtain ⟨e3, c1, c2, c3, c4, c5, t1, t2⟩ := RV.Props.Traffic.rc_round t r2.net r2.mem href hg hm3''
          generalize hr3 : removeCanaryService t r2.net r2.mem = r3 at *
          by_cases hd : t.disableGen = true
          · obtain ⟨d3, _, _⟩ := t1 hd
            simp only [e3, d3, Bool.false_eq_true, or_self, if_false]
            exact Or.inl trivial
          · have hd' : t.disableGen = false := by simpa using hd
            obtain ⟨u1, u2, u3⟩ := t2 hd'
            by_cases hsvc : r2.net.canarySvc.isSome = true
            · obtain ⟨d3, _⟩ := u2 hsvc
              simp only [e3, d3, Bool.false_eq_true, false_or, if_true]
              rw [c1, c2, u1, b1, b4, s1, if_neg hpin]
              rw [b2, s1] at hsvc
              have hc3 : t.disableGen = false ∧ n.canarySvc.isSome = true := ⟨hd', hsvc⟩
              rw [if_pos hc3]
              simp only [Option.isSome_none, Bool.false_eq_true, if_false, and_false]
              omega
            · have hsvc' : r2.net.canarySvc.isSome = false := by simpa using hsvc
              obtain ⟨d3, _⟩ := u3 hsvc'
              simp only [e3, d3, Bool.false_eq_true, or_self, if_false]
              exact Or.inl trivial
  · left
    unfold finalisingTrafficRouting
    rw [if_pos href]

/-- **one call makes progress**: it reports done, or the measure is strictly smaller on the network it leaves -/
theorem live_call_progress (t : TCtx) (n : Net) (m : Mem)
    (hbase : t.hasRef = true → n.stableExists = true ∧ n.stableIngress = true) (hl : t.lastUpdate ≠ .fresh)
    (hsr : t.stableRev ≠ "") (hcr : t.canaryRev ≠ "") (hm : live_noFresh m) (hkey : t.hasRevKey = true) :
    (live_call t n m).done = true ∨ live_rank t (live_call t n m).net < live_rank t n := by
  cases hw : t.weight with
  | none =>
    have e : live_call t n m = finalisingTrafficRouting t n m := by unfold live_call; rw [hw]
    rw [e]
    exact live_fin_progress t n m hw (fun h => (hbase h).1) hm hkey
  | some wt =>
    have e : live_call t n m = doTrafficRouting t n m := by unfold live_call; rw [hw]
    rw [e]
    exact live_dtr_progress t n m wt hw hbase hl hsr hcr

theorem routing_converges (s : CS) (w : CWl) (sub : Sub) (h : trInv s = true) (hw : s.wl = some w)
    (hph : s.ro.phase = .progressing) (hr : s.ro.reason = .inRolling) (hsub : s.ro.sub = some sub)
    (hst : sub.state = .trafficRouting) (hsr : sub.stableRev ≠ "") (hur : w.updateRevision ≠ "") :
    ∃ k s', k ≤ 7 ∧ rounds k s = some s' ∧ trInv s' = true ∧ s'.ro.phase = .progressing ∧ s'.ro.reason = .inRolling ∧
      ∃ sub', s'.ro.sub = some sub' ∧ sub'.curIdx = sub.curIdx ∧ routedState sub'.state = true := by
  sorry

end RV.Lemmas.ClosedLoopTraffic
