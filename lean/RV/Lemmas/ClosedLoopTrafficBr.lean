/-
  Label `br`: one BatchRelease reconcile preserves the traffic part of the invariant.
-/
import RV.Lemmas.ClosedLoopTrafficDefs
import RV.Lemmas.ClosedLoopTrafficArith
import RV.Lemmas.ClosedLoopExec
import RV.Props.ExecutorThms
namespace RV.Lemmas.ClosedLoopTraffic
open RV.Arith RV.Traffic RV.RolloutSM RV.ClosedLoop RV.Oracle.ClosedLoop RV.Oracle.ClosedLoopTraffic RV.Lemmas.ClosedLoop
open RV.BatchCtx

/-! ### what the traffic clauses read -/

/-- `effIdx` reads the BatchRelease only through its batch partition -/
theorem br_effIdx_ext (s s' : CS) (sub : Sub)
    (h : s'.br.bind (·.partition) = s.br.bind (·.partition)) : effIdx s' sub = effIdx s sub := by
  unfold effIdx
  cases hb : s.br with
  | none =>
    cases hb' : s'.br with
    | none => rfl
    | some b' =>
      rw [hb, hb'] at h
      simp only [Option.bind_some, Option.bind_none] at h
      dsimp only
      rw [h]
  | some b =>
    cases hb' : s'.br with
    | none =>
      rw [hb, hb'] at h
      simp only [Option.bind_some, Option.bind_none] at h
      dsimp only
      rw [← h]
    | some b' =>
      rw [hb, hb'] at h
      simp only [Option.bind_some] at h
      dsimp only
      rw [h]

/-- with a batch partition `p ≤ curIdx - 1` the BatchRelease was told to release at least step `p + 1`, at most the current one -/
theorem br_effIdx_bounds (s : CS) (sub : Sub) (b : CBr) (p : Int) (hb : s.br = some b) (hp : b.partition = some p)
    (hpc : p ≤ sub.curIdx - 1) : p + 1 ≤ effIdx s sub ∧ effIdx s sub ≤ sub.curIdx := by
  unfold effIdx
  rw [hb]
  dsimp only
  rw [hp]
  dsimp only
  split
  · split <;> omega
  · omega

theorem br_pinOK_ext (s s' : CS) (sub : Sub) (w w' : CWl) (hro : s'.ro = s.ro) (hnet : s'.net = s.net)
    (hbp : s'.br.bind (·.partition) = s.br.bind (·.partition)) (hrep : w'.replicas = w.replicas) :
    pinOK s' sub w' = pinOK s sub w := by
  unfold pinOK
  rw [br_effIdx_ext s s' sub hbp, hro, hnet, hrep]

theorem br_svcOK_ext (s s' : CS) (w w' : CWl) (hro : s'.ro = s.ro) (hnet : s'.net = s.net)
    (hrev : w'.updateRevision = w.updateRevision) : svcOK s' w' = svcOK s w := by
  unfold svcOK
  rw [hro, hnet, hrev]

theorem br_ingOK_ext (s s' : CS) (hro : s'.ro = s.ro) (hnet : s'.net = s.net) : ingOK s' = ingOK s := by
  unfold ingOK
  rw [hro, hnet]

theorem br_baseOK_ext (s s' : CS) (hro : s'.ro = s.ro) (hnet : s'.net = s.net) : baseOK s' = baseOK s := by
  unfold baseOK
  rw [hro, hnet]

theorem br_hashOK_ext (sub : Sub) (w w' : CWl) (hrev : w'.updateRevision = w.updateRevision) : hashOK sub w' = hashOK sub w := by
  unfold hashOK
  rw [hrev]

theorem br_trState_ext (s s' : CS) (sub : Sub) (w w' : CWl) (hro : s'.ro = s.ro) (hrep : w'.replicas = w.replicas) :
    trState s' sub w' = trState s sub w := by
  unfold trState
  rw [hro, hrep]

theorem br_firstPin_ext (s s' : CS) (sub : Sub) (w w' : CWl) (hro : s'.ro = s.ro) (hnet : s'.net = s.net)
    (hbs : s'.br.isSome = s.br.isSome) (hrep : w'.replicas = w.replicas) : firstPin s' sub w' = firstPin s sub w := by
  unfold firstPin
  rw [hro, hnet, hbs, hrep]

theorem br_brSome_ext (s s' : CS) (sub : Sub) (hbs : s'.br.isSome = s.br.isSome) : brSome s' sub = brSome s sub := by
  unfold brSome
  rw [hbs]

/-- `released` of the CloneSet after the executor's patch reads the patch only -/
theorem br_released_land (w : CWl) (ew : Executor.Workload) :
    released (landW w ew) = (ew.partition.isNone && !ew.paused && ew.owner == .none) := rfl

theorem br_released_same (w : CWl) : released (landW w (exWl w)) = released w := rfl

/-! ### the stable pods stay alive -/

/-- **T2** — a reconcile of a linked BatchRelease keeps at least one pod on the old revision as long as the highest
    step handed to it is not full -/
theorem br_keepsOne (s : CS) (sub : Sub) (b : CBr) (w : CWl) (ew : Executor.Workload)
    (hb : s.br = some b) (hR : 0 < w.replicas) (hmono : planMono w.replicas (planOf s.ro) = true)
    (hbok : brOK b = true) (hlink : linkOK s.ro sub b = true) (hlen : sub.curIdx ≤ s.ro.steps.length)
    (heff : WlEffect (exBr b) (exWl w) ew)
    (hnf : fullAt s.ro w.replicas (effIdx s sub) = false)
    (hk : keepsOne w = true) : keepsOne (landW w ew) = true := by
  obtain ⟨_, _, _, _, hnn⟩ := (brOK_iff b).1 hbok
  obtain ⟨hpl, ⟨p, hpp, hp0, hpc, hcb⟩, hd, hph⟩ := (linkOK_iff s.ro sub b).1 hlink
  obtain ⟨hlo, hhi⟩ := br_effIdx_bounds s sub b p hb hpp hpc
  cases heff with
  | same => exact hk
  | init =>
    show decide (1 ≤ scaledV (.pct 100) w.replicas true) = true
    rw [scaled_pct100]
    exact decide_eq_true hR
  | upgrade e h0 hbat =>
    have hnn' : (exBr b).status.noNeedUpdate = none := hnn
    have h0' : 0 ≤ b.st.currentBatch := h0
    have hbat' : (planOf s.ro)[b.st.currentBatch.toNat]? = some e := by rw [← hpl]; exact hbat
    have hidx : (b.st.currentBatch + 1 - 1).toNat = b.st.currentBatch.toNat := by
      have : b.st.currentBatch + 1 - 1 = b.st.currentBatch := by omega
      rw [this]
    have hfe := fullAt_entry s.ro w.replicas (b.st.currentBatch + 1) (by omega) e (by rw [hidx]; exact hbat')
    have hnfc : fullAt s.ro w.replicas (b.st.currentBatch + 1) = false := by
      cases hc : fullAt s.ro w.replicas (b.st.currentBatch + 1) with
      | false => rfl
      | true =>
        have := fullAt_mono s.ro w.replicas hR hmono
          (b.st.currentBatch + 1) (effIdx s sub) (by omega) (by omega) hc
        rw [this] at hnf
        cases hnf
    rw [hfe] at hnfc
    have hlt : scaledV e w.replicas true < w.replicas := by
      have := of_decide_eq_false hnfc
      omega
    show decide (1 ≤ scaledV (desKnob .cloneSet w.replicas e (exBr b).status.noNeedUpdate) w.replicas true) = true
    rw [hnn']
    exact decide_eq_true (desKnob_keepsOne w.replicas e hR hlt)
  | release hf =>
    have hf' : b.st.phase = .finalizing := hf
    rcases hph with h1 | h1 | h1 <;> rw [h1] at hf' <;> cases hf'

theorem br_alive (sub : Sub) (w : CWl) (ew : Executor.Workload) (h : stableAlive sub w = true)
    (hk : keepsOne (landW w ew) = true) : stableAlive sub (landW w ew) = true := by
  unfold stableAlive at h ⊢
  simp only [Bool.and_eq_true] at h ⊢
  exact ⟨⟨⟨hk, h.1.1.2⟩, h.1.2⟩, h.2⟩

theorem br_netCore_true (s : CS) (sub : Sub) (w : CWl) :
    netCore s sub w true = ((fullAt s.ro w.replicas (effIdx s sub) || stableAlive sub w) &&
      pinOK s sub w && svcOK s w && ingOK s && hashOK sub w && baseOK s) := rfl

theorem br_netCore_false (s : CS) (sub : Sub) (w : CWl) :
    netCore s sub w false = ((s.net.stableSel.isNone || stableAlive sub w) &&
      pinOK s sub w && svcOK s w && ingOK s && hashOK sub w && baseOK s) := rfl

/-! ### the executor, as far as the clean-up cursor needs it -/

/-- a BatchRelease that is not being deleted stays -/
theorem br_exec_some (b : CBr) (wl : Option Executor.Workload) (o : Executor.StepOut)
    (hrec : Executor.reconcile (exBr b) wl = .val o) (hd : b.deleting = false) : ∃ eb, o.br = some eb := by
  cases hb : o.br with
  | some eb => exact ⟨eb, rfl⟩
  | none =>
    have h1 : b.deleting = true := (exec_gone (exBr b) wl o hrec hb).1
    rw [hd] at h1
    cases h1

/-- a Completed BatchRelease does not touch the workload -/
theorem br_exec_completed_wl (br : Executor.BR) (wl : Option Executor.Workload) (o : Executor.StepOut)
    (h : Executor.reconcile br wl = .val o) (hph : br.status.phase = .completed) : o.wl = wl := by
  rcases rec_cases br wl o h with ⟨_, _, _, hw⟩ | ⟨_, _, hw⟩ | ⟨hs, _⟩
  · exact hw
  · exact hw
  · have := Executor.sync_completed_stops (Executor.withFinalizer br) (Executor.initializedStatus br.status) wl hph
    rw [this] at hs
    cases hs

theorem br_initialized_not_completed (st : Executor.Status) (h : st.phase ≠ .completed) :
    (Executor.initializedStatus st).phase ≠ .completed := by
  unfold Executor.initializedStatus
  split
  · intro hc; cases hc
  · exact h

/-- phase `Completed` is entered only from `Finalizing`, in the reconcile that ran `Finalize` -/
theorem br_exec_new_completed (br : Executor.BR) (wl : Option Executor.Workload) (o : Executor.StepOut) (b' : Executor.BR)
    (h : Executor.reconcile br wl = .val o) (hb : o.br = some b') (hc : b'.status.phase = .completed)
    (hnc : br.status.phase ≠ .completed) :
    br.status.phase = .finalizing ∧ o.wl = (Executor.finalize (Executor.withFinalizer br) wl).1 := by
  rcases rec_cases br wl o h with ⟨_, _, hn, _⟩ | ⟨_, hb', _⟩ | ⟨_, ns', wl', rq, er, hex, hb', hw⟩
  · rw [hn] at hb; cases hb
  · exfalso
    rw [hb'] at hb; simp only [Option.some.injEq] at hb; subst hb
    dsimp only at hc
    unfold Executor.syncStatus at hc
    simp only [Executor.refresh_phase] at hc
    exact Executor.syncDecide_not_completed _ _ _ _ (br_initialized_not_completed br.status hnc) hc
  · rw [hb'] at hb; simp only [Option.some.injEq] at hb; subst hb
    dsimp only at hc
    rcases RV.Props.Executor.execute_cases _ _ _ _ _ _ _ hex with ⟨hp, hpr⟩ | ⟨_, _, hfin⟩
    · exfalso
      rcases Executor.execProgressing_cases _ _ _ _ _ _ _ hpr with ⟨_, hph, _⟩ | ⟨hmv, _⟩
      · rw [hph, hp] at hc; cases hc
      · rw [hmv] at hc
        simp only [Executor.moveToNextBatch, normState_phase] at hc
        rw [hp] at hc; cases hc
    · obtain ⟨hf, hwl⟩ := hfin hc hnc
      exact ⟨hf, hw.trans hwl⟩

/-! ### the clean-up cursor -/

/-- from `ResumeWorkload` on, `RestoreStableService` has reported completion -/
theorem br_fin_restored (ro : Rollout) (cur : FinStep) (br : Option RolloutSM.BR) (n : Net)
    (hst : ro.style = .canary) (hcur : cur = .resumeWorkload ∨ cur = .releaseWorkloadControl)
    (h : RV.Oracle.Cluster.finInv .success ro cur br n = true) :
    RV.Oracle.Cluster.post .restoreStableService ro br n = true := by
  unfold RV.Oracle.Cluster.finInv at h
  rw [hst, List.all_eq_true] at h
  apply h
  rcases hcur with hc | hc <;> subst hc <;> decide

/-- … so the stable Service is no longer pinned -/
theorem br_unpinned (s : CS) (sub : Sub) (w : CWl) (br : Option RolloutSM.BR)
    (hpost : RV.Oracle.Cluster.post .restoreStableService s.ro br s.net = true)
    (hpin : pinOK s sub w = true) (hbase : baseOK s = true) : s.net.stableSel = none := by
  cases hsel : s.net.stableSel with
  | none => rfl
  | some r =>
    exfalso
    unfold pinOK at hpin
    rw [hsel] at hpin
    unfold baseOK at hbase
    have hpost' : (!s.ro.hasTraffic || !s.net.stableExists || s.net.stableSel.getD "" == "") = true := hpost
    rw [hsel] at hpost'
    simp only [Bool.and_eq_true, Bool.or_eq_true, Bool.not_eq_true', beq_iff_eq, bne_iff_ne, ne_eq, Option.getD_some] at hpin hbase hpost'
    obtain ⟨⟨⟨⟨_, hne⟩, _⟩, hht⟩, _⟩ := hpin
    rcases hpost' with (h1 | h1) | h1
    · rw [hht] at h1; cases h1
    · rcases hbase with h2 | h2
      · rw [hht] at h2; cases h2
      · rw [h2.1] at h1; cases h1
    · exact hne h1

/-! ### InRolling -/

theorem br_roll (s : CS) (b : CBr) (o : Executor.StepOut) (w : CWl) (ew : Executor.Workload) (sub : Sub)
    (hb : s.br = some b) (hrec : Executor.reconcile (exBr b) (some (exWl w)) = .val o)
    (heff : WlEffect (exBr b) (exWl w) ew) (hR : 0 < w.replicas)
    (hmono : planMono w.replicas (planOf s.ro) = true) (hbok : brOK b = true)
    (hp : s.ro.phase = .progressing) (hr : s.ro.reason = .inRolling) (hs : s.ro.sub = some sub)
    (hpi : phaseInv s w = true) (htp : trPhase s w = true) :
    trPhase (landBr s b o) (landW w ew) = true := by
  rw [phaseInv_rolling s w sub hp hr hs, hb] at hpi
  rw [trPhase_rolling s w sub hp hr hs, br_netCore_true] at htp
  rw [trPhase_rolling (landBr s b o) (landW w ew) sub hp hr hs, br_netCore_true]
  simp only [Bool.and_eq_true] at hpi htp ⊢
  obtain ⟨⟨hsub, hlink⟩, _⟩ := hpi
  have hlink' : linkOK s.ro sub b = true := hlink
  obtain ⟨⟨⟨⟨⟨⟨⟨⟨hal, hpin⟩, hsvc⟩, hing⟩, hhash⟩, hbase⟩, hbs⟩, hfp⟩, hts⟩ := htp
  obtain ⟨_, _, hd, _⟩ := (linkOK_iff s.ro sub b).1 hlink'
  obtain ⟨eb, heb⟩ := br_exec_some b _ o hrec hd
  have hbr' : (landBr s b o).br = some (stLand b eb) := by
    show o.br.map (stLand b) = _
    rw [heb]; rfl
  have hbp : (landBr s b o).br.bind (·.partition) = s.br.bind (·.partition) := by rw [hbr', hb]; rfl
  have hbsome : (landBr s b o).br.isSome = s.br.isSome := by rw [hbr', hb]; rfl
  have hlen : sub.curIdx ≤ s.ro.steps.length := ((subOK_iff s.ro sub w).1 hsub).hi
  refine ⟨⟨⟨⟨⟨⟨⟨⟨?_, ?_⟩, ?_⟩, ?_⟩, ?_⟩, ?_⟩, ?_⟩, ?_⟩, ?_⟩
  · rw [br_effIdx_ext s (landBr s b o) sub hbp]
    show (fullAt s.ro w.replicas (effIdx s sub) || stableAlive sub (landW w ew)) = true
    cases hfa : fullAt s.ro w.replicas (effIdx s sub) with
    | true => rfl
    | false =>
      rw [hfa] at hal
      have hal' : stableAlive sub w = true := by simpa using hal
      have hk : keepsOne w = true := by
        unfold stableAlive at hal'
        simp only [Bool.and_eq_true] at hal'
        exact hal'.1.1.1
      rw [Bool.false_or]
      exact br_alive sub w ew hal' (br_keepsOne s sub b w ew hb hR hmono hbok hlink' hlen heff hfa hk)
  · rw [br_pinOK_ext s (landBr s b o) sub w (landW w ew) rfl rfl hbp rfl]; exact hpin
  · rw [br_svcOK_ext s (landBr s b o) w (landW w ew) rfl rfl rfl]; exact hsvc
  · rw [br_ingOK_ext s (landBr s b o) rfl rfl]; exact hing
  · rw [br_hashOK_ext sub w (landW w ew) rfl]; exact hhash
  · rw [br_baseOK_ext s (landBr s b o) rfl rfl]; exact hbase
  · rw [br_brSome_ext s (landBr s b o) sub hbsome]; exact hbs
  · rw [br_firstPin_ext s (landBr s b o) sub w (landW w ew) rfl rfl hbsome rfl]; exact hfp
  · rw [br_trState_ext s (landBr s b o) sub w (landW w ew) rfl rfl]; exact hts

/-! ### Finalising -/

/-- `Finalize` of a resumed BatchRelease (no batch partition) hands the CloneSet back completely -/
theorem br_finalize_released (b : CBr) (w : CWl) (ew : Executor.Workload) (hpn : b.partition = none)
    (h : some ew = (Executor.finalize (Executor.withFinalizer (exBr b)) (some (exWl w))).1) :
    released (landW w ew) = true := by
  have hpn' : (Executor.withFinalizer (exBr b)).partition = none := hpn
  unfold Executor.finalize at h
  dsimp only at h
  rw [hpn'] at h
  simp only [Option.isNone_none, if_true, Option.some.injEq] at h
  subst h
  rfl

/-- the clean-up cursor is at or before `ResumeWorkload` and the BatchRelease is still linked -/
theorem br_fin_linked (s : CS) (b : CBr) (o : Executor.StepOut) (w : CWl) (ew : Executor.Workload) (sub : Sub) (eb : Executor.BR)
    (hb : s.br = some b) (hbr' : (landBr s b o).br = some (stLand b eb))
    (hlink : linkOK s.ro sub b = true) (hlink' : linkOK s.ro sub (stLand b eb) = true)
    (hfb : finBr s sub w = true) : finBr (landBr s b o) sub (landW w ew) = true := by
  obtain ⟨_, ⟨p, hpp, _⟩, _, _⟩ := (linkOK_iff s.ro sub b).1 hlink
  unfold finBr at hfb ⊢
  rw [hb] at hfb
  rw [hbr']
  cases hfs : sub.finStep <;> rw [hfs] at hfb <;> dsimp only at hfb ⊢
  case empty => exact hlink'
  case restoreStableService => exact hlink'
  case routeTrafficToStable => exact hlink'
  case removeCanaryService => exact hlink'
  case resumeWorkload =>
    have : linkOK (landBr s b o).ro sub (stLand b eb) = true := hlink'
    rw [this]; rfl
  case releaseWorkloadControl =>
    rw [hpp] at hfb
    simp at hfb
  all_goals simp at hfb

/-- the BatchRelease is no longer linked: it was resumed (cursor at `ResumeWorkload` / `ReleaseWorkloadControl`) -/
theorem br_fin_resumed (s : CS) (b : CBr) (o : Executor.StepOut) (w : CWl) (ew : Executor.Workload) (sub : Sub)
    (hb : s.br = some b) (hrec : Executor.reconcile (exBr b) (some (exWl w)) = .val o) (hew : o.wl = some ew)
    (hlk : linkOK s.ro sub b = false) (hfb : finBr s sub w = true) :
    b.partition = none ∧ (sub.finStep = .resumeWorkload ∨ sub.finStep = .releaseWorkloadControl) ∧
      finBr (landBr s b o) sub (landW w ew) = true := by
  unfold finBr at hfb ⊢
  rw [hb] at hfb
  cases hfs : sub.finStep <;> rw [hfs] at hfb <;> dsimp only at hfb ⊢
  case resumeWorkload =>
    rw [hlk, Bool.false_or] at hfb
    simp only [Bool.and_eq_true, Bool.not_eq_true', Option.isNone_iff_eq_none, Bool.or_eq_true, bne_iff_ne, ne_eq] at hfb
    obtain ⟨⟨hd, hpn⟩, hor⟩ := hfb
    obtain ⟨eb, heb⟩ := br_exec_some b _ o hrec hd
    have hbr' : (landBr s b o).br = some (stLand b eb) := by
      show o.br.map (stLand b) = _
      rw [heb]; rfl
    refine ⟨hpn, Or.inl rfl, ?_⟩
    rw [hbr']
    dsimp only
    rw [Bool.or_eq_true]
    right
    have h1 : (stLand b eb).deleting = false := hd
    have h2 : (stLand b eb).partition = none := hpn
    have h3 : (stLand b eb).st.phase = eb.status.phase := rfl
    rw [h1, h2, h3]
    simp only [Bool.not_false, Option.isNone_none, Bool.true_and, Bool.or_eq_true, bne_iff_ne, ne_eq]
    by_cases hc : eb.status.phase = .completed
    · right
      by_cases hbc : b.st.phase = .completed
      · have hwl := br_exec_completed_wl (exBr b) _ o hrec hbc
        rw [hew] at hwl
        simp only [Option.some.injEq] at hwl
        subst hwl
        rw [br_released_same]
        rcases hor with h | h
        · exact absurd hbc h
        · exact h
      · obtain ⟨_, hwl⟩ := br_exec_new_completed (exBr b) _ o eb hrec heb hc hbc
        rw [hew] at hwl
        exact br_finalize_released b w ew hpn hwl
    · left; exact hc
  case releaseWorkloadControl =>
    simp only [Bool.and_eq_true, Option.isNone_iff_eq_none, beq_iff_eq] at hfb
    obtain ⟨⟨hpn, hbc⟩, hrel⟩ := hfb
    have hwl := br_exec_completed_wl (exBr b) _ o hrec hbc
    rw [hew] at hwl
    simp only [Option.some.injEq] at hwl
    subst hwl
    refine ⟨hpn, Or.inr rfl, ?_⟩
    cases heb : o.br with
    | none =>
      have hbr' : (landBr s b o).br = none := by
        show o.br.map (stLand b) = _
        rw [heb]; rfl
      rw [hbr']
      dsimp only
      rw [br_released_same]; exact hrel
    | some eb =>
      have hbr' : (landBr s b o).br = some (stLand b eb) := by
        show o.br.map (stLand b) = _
        rw [heb]; rfl
      rw [hbr']
      dsimp only
      have h2 : (stLand b eb).partition = none := hpn
      have h3 : (stLand b eb).st.phase = .completed := exec_completed_stays (exBr b) _ o eb hrec heb hbc
      rw [h2, h3, br_released_same, hrel]
      rfl
  all_goals first | (rw [hlk] at hfb; cases hfb) | simp at hfb

theorem br_fin (s : CS) (b : CBr) (o : Executor.StepOut) (w : CWl) (ew : Executor.Workload) (sub : Sub)
    (hg : RoGood s.ro) (hb : s.br = some b) (hrec : Executor.reconcile (exBr b) (some (exWl w)) = .val o)
    (hew : o.wl = some ew) (heff : WlEffect (exBr b) (exWl w) ew) (hR : 0 < w.replicas)
    (hmono : planMono w.replicas (planOf s.ro) = true) (hbok : brOK b = true)
    (hp : s.ro.phase = .progressing) (hr : s.ro.reason = .finalising) (hs : s.ro.sub = some sub)
    (hpi : phaseInv s w = true) (htp : trPhase s w = true) :
    trPhase (landBr s b o) (landW w ew) = true := by
  rw [phaseInv_fin s w sub hp hr hs, hb] at hpi
  rw [trPhase_fin s w sub hp hr hs, br_netCore_false] at htp
  rw [trPhase_fin (landBr s b o) (landW w ew) sub hp hr hs, br_netCore_false]
  simp only [Bool.and_eq_true] at hpi htp ⊢
  obtain ⟨_, hfi⟩ := hpi
  obtain ⟨⟨⟨⟨⟨⟨⟨⟨hal, hpin⟩, hsvc⟩, hing⟩, hhash⟩, hbase⟩, hfb⟩, hrev⟩, hlen⟩ := htp
  -- the BatchRelease's batch partition, T2' and `finBr` after the reconcile
  have key : (landBr s b o).br.bind (·.partition) = s.br.bind (·.partition) ∧
      ((landBr s b o).net.stableSel.isNone || stableAlive sub (landW w ew)) = true ∧
      finBr (landBr s b o) sub (landW w ew) = true := by
    cases hlk : linkOK s.ro sub b with
    | true =>
      obtain ⟨_, _, hd, _⟩ := (linkOK_iff s.ro sub b).1 hlk
      obtain ⟨eb, heb⟩ := br_exec_some b _ o hrec hd
      have hbr' : (landBr s b o).br = some (stLand b eb) := by
        show o.br.map (stLand b) = _
        rw [heb]; rfl
      have hlink' : linkOK s.ro sub (stLand b eb) = true := by
        have := linkOK_land s.ro sub b (exWl w) o hrec hlk
        rw [heb] at this
        exact this
      refine ⟨by rw [hbr', hb]; rfl, ?_, br_fin_linked s b o w ew sub eb hb hbr' hlk hlink' hfb⟩
      show (s.net.stableSel.isNone || stableAlive sub (landW w ew)) = true
      cases hsel : s.net.stableSel with
      | none => rfl
      | some r =>
        rw [hsel] at hal
        have hal' : stableAlive sub w = true := by simpa using hal
        have hk : keepsOne w = true := by
          unfold stableAlive at hal'
          simp only [Bool.and_eq_true] at hal'
          exact hal'.1.1.1
        have hfa : fullAt s.ro w.replicas (effIdx s sub) = false := by
          unfold pinOK at hpin
          rw [hsel] at hpin
          simp only [Bool.and_eq_true, Bool.not_eq_true'] at hpin
          exact hpin.1.1.2
        have hlen' : sub.curIdx ≤ s.ro.steps.length := of_decide_eq_true hlen
        exact br_alive sub w ew hal' (br_keepsOne s sub b w ew hb hR hmono hbok hlk hlen' heff hfa hk)
    | false =>
      obtain ⟨hpn, hcur, hfb'⟩ := br_fin_resumed s b o w ew sub hb hrec hew hlk hfb
      have hfi' : RV.Oracle.Cluster.finInv .success s.ro sub.finStep (some (roBr b)) s.net = true := hfi
      have hsel : s.net.stableSel = none :=
        br_unpinned s sub w _ (br_fin_restored s.ro sub.finStep _ s.net hg.canary hcur hfi') hpin hbase
      refine ⟨?_, ?_, hfb'⟩
      · rw [hb]
        show (o.br.map (stLand b)).bind (·.partition) = b.partition
        cases o.br with
        | none => exact hpn.symm
        | some eb => rfl
      · show (s.net.stableSel.isNone || stableAlive sub (landW w ew)) = true
        rw [hsel]; rfl
  obtain ⟨hbp, hal', hfb'⟩ := key
  refine ⟨⟨⟨⟨⟨⟨⟨⟨hal', ?_⟩, ?_⟩, ?_⟩, ?_⟩, ?_⟩, hfb'⟩, hrev⟩, hlen⟩
  · rw [br_pinOK_ext s (landBr s b o) sub w (landW w ew) rfl rfl hbp rfl]; exact hpin
  · rw [br_svcOK_ext s (landBr s b o) w (landW w ew) rfl rfl rfl]; exact hsvc
  · rw [br_ingOK_ext s (landBr s b o) rfl rfl]; exact hing
  · rw [br_hashOK_ext sub w (landW w ew) rfl]; exact hhash
  · rw [br_baseOK_ext s (landBr s b o) rfl rfl]; exact hbase

/-! ### the step -/

theorem stepBr_tr (s s' : CS) (h : trInv s = true) (hs : stepBr s = some s') : trRest s' = true := by
  obtain ⟨hf, hgone, hg, w, hw, hwok, hmono, hbrok, hpi, hR, htp⟩ := tr_parts s h
  cases hb : s.br with
  | none =>
    unfold stepBr at hs
    rw [hb] at hs
    simp only [Option.some.injEq] at hs
    subst hs
    exact ((trInv_iff s).1 h).2
  | some b =>
    rw [hb] at hbrok
    have hbok : brOK b = true := hbrok
    obtain ⟨_, h0, _, _, _⟩ := (brOK_iff b).1 hbok
    cases hrec : Executor.reconcile (exBr b) (some (exWl w)) with
    | panic => exact absurd hrec (exec_total (exBr b) _ h0)
    | val o =>
      obtain ⟨ew, hew, heff⟩ := exec_wl_effect (exBr b) (exWl w) o hrec
      have hstep : stepBr s = some (landBr s b o) := by
        unfold stepBr
        rw [hb]
        dsimp only
        rw [hw]
        simp only [Option.map_some]
        rw [hrec]
      rw [hstep] at hs
      simp only [Option.some.injEq] at hs
      subst hs
      have hwl' : (landBr s b o).wl = some (landW w ew) := by
        show wlLand s.wl o.wl = _
        rw [hw, hew]; rfl
      rw [trRest_some (landBr s b o) (landW w ew) hwl']
      refine ⟨hR, ?_⟩
      obtain ⟨hp, sub, hsub, hr | hr⟩ := phaseInv_with_br s w b hb hpi
      · exact br_roll s b o w ew sub hb hrec heff hR hmono hbok hp hr hsub hpi htp
      · exact br_fin s b o w ew sub hg hb hrec hew heff hR hmono hbok hp hr hsub hpi htp

end RV.Lemmas.ClosedLoopTraffic
