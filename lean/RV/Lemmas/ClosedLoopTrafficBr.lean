/-
  Label `br`: one BatchRelease reconcile preserves the traffic part of the invariant.
-/
import RV.Lemmas.ClosedLoopTrafficDefs
import RV.Lemmas.ClosedLoopTrafficArith
import RV.Lemmas.ClosedLoopExec
import RV.Props.ExecutorThms
namespace RV.Lemmas.ClosedLoopTraffic
open RV.Arith RV.Traffic RV.RolloutSM RV.ClosedLoop RV.Oracle.ClosedLoop RV.Oracle.ClosedLoopTraffic RV.Lemmas.ClosedLoop

theorem stepBr_tr (s s' : CS) (h : trInv s = true) (hs : stepBr s = some s') : trRest s' = true := by
  sorry

end RV.Lemmas.ClosedLoopTraffic
