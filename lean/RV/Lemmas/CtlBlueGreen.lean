/-
  Helper lemmas about the blue-green control-plane model: inversion ("what can a call return")
  lemmas without `match`, and the facts about the HPA lists the theorems need.
-/
import RV.Oracle.CtlBlueGreen
namespace RV.Lemmas.CtlBlueGreen
open RV.Arith IntOrPct RV.CtlBlueGreen RV.Oracle.CtlBlueGreen

/-! ### HPA lists -/

theorem setHPA_wl (w : World) (v : Ver) (k : Nat) : (setHPA w v k).wl = w.wl := by
  cases v <;> rfl

theorem setHPA_rss (w : World) (v : Ver) (k : Nat) : (setHPA w v k).rss = w.rss := by
  cases v <;> rfl

theorem hpaMatches_set (a : HPA) (k : Nat) (hm : hpaMatches a = true) : hpaMatches { a with name := some k } = true := by
  unfold hpaMatches at hm ⊢
  simp only [Bool.and_eq_true] at hm ⊢
  exact ⟨hm.1, rfl⟩

theorem findIn_setFirst (l : List HPA) (k0 k : Nat) (h : findIn l = .val (some k0)) :
    findIn (setFirst k l) = .val (some k) := by
  induction l with
  | nil => simp [findIn] at h
  | cons a t ih =>
    unfold findIn at h
    split at h
    · cases h
    · rename_i hav
      split at h
      · rename_i hm
        simp only [setFirst, hm, if_true, findIn, hav, if_false, hpaMatches_set a k hm]
      · rename_i hm
        simp only [setFirst, hm, findIn, hav, if_false, Bool.false_eq_true]
        exact ih h

theorem setFirst_idem (l : List HPA) (k : Nat) : setFirst k (setFirst k l) = setFirst k l := by
  induction l with
  | nil => rfl
  | cons a t ih =>
    by_cases hm : hpaMatches a = true
    · simp only [setFirst, hm, if_true, hpaMatches_set a k hm]
    · have hm' : hpaMatches a = false := by simpa using hm
      simp only [setFirst, hm', Bool.false_eq_true, if_false, ih]

/-- a List that does not fail: `findHPA` does not depend on the other components of the fault -/
theorem findHPA_noList (w : World) (f : Fault) (h2 : f.listV2 = false) (h1 : f.listV1 = false) :
    findHPA w f = findHPA w noFault := by
  unfold findHPA findVer noFault
  simp only [h2, h1]

theorem findHPA_setHPA (w : World) (v : Ver) (k0 k : Nat) (h : findHPA w noFault = .val (some (v, k0))) :
    findHPA (setHPA w v k) noFault = .val (some (v, k)) := by
  unfold findHPA findVer noFault at h ⊢
  simp only [Bool.false_eq_true, if_false] at h ⊢
  cases v with
  | v2 =>
    simp only [setHPA]
    split at h
    · cases h
    · rename_i k' hk
      simp only [Out.val.injEq, Option.some.injEq, Prod.mk.injEq, true_and] at h
      subst h
      rw [findIn_setFirst _ _ k hk]
    · split at h
      · cases h
      · simp only [Out.val.injEq, Option.some.injEq, Prod.mk.injEq] at h; exact absurd h.1 (by decide)
      · cases h
  | v1 =>
    simp only [setHPA]
    split at h
    · cases h
    · simp only [Out.val.injEq, Option.some.injEq, Prod.mk.injEq] at h; exact absurd h.1 (by decide)
    · rename_i hk2
      split at h
      · cases h
      · rename_i k' hk
        simp only [Out.val.injEq, Option.some.injEq, Prod.mk.injEq, true_and] at h
        subst h
        rw [findIn_setFirst _ _ k hk]
      · cases h

/-! ### the write steps -/

theorem disableHPA_spec (w : World) (f : Fault) (n : Nat) (w1 : World) (b : Bool) (n1 : Nat)
    (h : disableHPA w f n = .val (w1, b, n1)) :
    (w1 = w ∧ n1 = n ∧ (b = true → ∀ v k, findHPA w f = .val (some (v, k)) → k ≠ 0)) ∨
    (n1 = n + 1 ∧ b = true ∧ canWrite f n = true ∧ ∃ v, findHPA w f = .val (some (v, 0)) ∧ w1 = setHPA w v 1) := by
  unfold disableHPA at h
  grind

theorem restoreHPA_spec (w : World) (f : Fault) (n : Nat) (w1 : World) (b : Bool) (n1 : Nat)
    (h : restoreHPA w f n = .val (w1, b, n1)) :
    (w1 = w ∧ n1 = n ∧ (b = true → ∀ v k, findHPA w f = .val (some (v, k)) → k = 0)) ∨
    (n1 = n + 1 ∧ b = true ∧ canWrite f n = true ∧ ∃ v k, k ≠ 0 ∧ findHPA w f = .val (some (v, k)) ∧ w1 = setHPA w v 0) := by
  unfold restoreHPA at h
  grind

theorem patchStableRS_spec (w : World) (f : Fault) (n : Nat) (w1 : World) (b : Bool) (n1 : Nat)
    (h : patchStableRS w f n = (w1, b, n1)) :
    (w1 = w ∧ n1 = n) ∨ (n1 = n + 1 ∧ b = true ∧ canWrite f n = true ∧ w1 = { w with rss := patchFirstRS w.rss }) := by
  unfold patchStableRS at h
  grind

theorem stableRSStep_spec (kind : Kind) (w : World) (f : Fault) (n : Nat) (w1 : World) (b : Bool) (n1 : Nat)
    (h : stableRSStep kind w f n = (w1, b, n1)) :
    (w1 = w ∧ n1 = n) ∨ (n1 = n + 1 ∧ b = true ∧ canWrite f n = true ∧ w1 = { w with rss := patchFirstRS w.rss }) := by
  unfold stableRSStep at h
  have := patchStableRS_spec w f n w1 b n1
  grind

theorem disableHPA_wl (w : World) (f : Fault) (n : Nat) (w1 : World) (b : Bool) (n1 : Nat)
    (h : disableHPA w f n = .val (w1, b, n1)) : w1.wl = w.wl := by
  rcases disableHPA_spec w f n w1 b n1 h with ⟨h1, _⟩ | ⟨_, _, _, v, _, h1⟩
  · rw [h1]
  · rw [h1, setHPA_wl]

theorem stableRSStep_wl (kind : Kind) (w : World) (f : Fault) (n : Nat) (w1 : World) (b : Bool) (n1 : Nat)
    (h : stableRSStep kind w f n = (w1, b, n1)) : w1.wl = w.wl := by
  rcases stableRSStep_spec kind w f n w1 b n1 h with ⟨h1, _⟩ | ⟨_, _, _, h1⟩ <;> rw [h1]

theorem finishHPA_spec (w : World) (f : Fault) (n : Nat) (out : CallOut) (h : finishHPA w f n = .val out) :
    out.observed = none ∧
    ((out.world = w ∧ out.writes = n ∧ (out.res = .ok ∨ out.res = .err) ∧
        (out.res = .ok → ∀ v k, findHPA w f = .val (some (v, k)) → k = 0)) ∨
     (out.writes = n + 1 ∧ out.res = .ok ∧ canWrite f n = true ∧
        ∃ v k, k ≠ 0 ∧ findHPA w f = .val (some (v, k)) ∧ out.world = setHPA w v 0)) := by
  unfold finishHPA at h
  have := restoreHPA_spec w f n
  grind

/-! ### inversion of `Initialize` -/

def InitWrite (kind : Kind) (br : BR) (f : Fault) (wl : Workload) (R : Int) (w2 : World) (n2 : Nat) (s : Setting)
    (out : CallOut) : Prop :=
  (canWrite f n2 = true ∧
    out = ⟨{ w2 with wl := some (initPatch kind br (initSetting kind s wl) wl) }, .ok, n2 + 1, some R⟩) ∨
  (canWrite f n2 = false ∧ out = ⟨w2, .err, n2, none⟩)

def InitSet (kind : Kind) (br : BR) (f : Fault) (wl : Workload) (R : Int) (w2 : World) (n2 : Nat) (out : CallOut) : Prop :=
  (getSetting wl.saved = none ∧ out = ⟨w2, .badRequest, n2, none⟩) ∨
  (∃ s, getSetting wl.saved = some s ∧ InitWrite kind br f wl R w2 n2 s out)

def InitRS (kind : Kind) (br : BR) (f : Fault) (wl : Workload) (R : Int) (w1 : World) (n1 : Nat) (out : CallOut) : Prop :=
  ∃ w2 b2 n2, stableRSStep kind w1 f n1 = (w2, b2, n2) ∧
    ((b2 = false ∧ out = ⟨w2, .err, n2, none⟩) ∨ (b2 = true ∧ InitSet kind br f wl R w2 n2 out))

def InitHPA (kind : Kind) (w : World) (br : BR) (f : Fault) (wl : Workload) (R : Int) (out : CallOut) : Prop :=
  ∃ w1 b1 n1, disableHPA w f 0 = .val (w1, b1, n1) ∧
    ((b1 = false ∧ out = ⟨w1, .err, n1, none⟩) ∨ (b1 = true ∧ InitRS kind br f wl R w1 n1 out))

def InitCases (kind : Kind) (w : World) (br : BR) (f : Fault) (out : CallOut) : Prop :=
  (f.get = true ∧ out = ⟨w, .err, 0, none⟩) ∨
  (f.get = false ∧ w.wl = none ∧ out = ⟨w, .notFound, 0, none⟩) ∨
  (∃ wl R, f.get = false ∧ w.wl = some wl ∧ wl.replicas = some R ∧
    ((controlled br wl = true ∧ out = ⟨w, .ok, 0, some R⟩) ∨
     (controlled br wl = false ∧ InitHPA kind w br f wl R out)))

theorem initialize_cases (kind : Kind) (w : World) (br : BR) (f : Fault) (out : CallOut)
    (h : cpInitialize kind w br f = .val out) : InitCases kind w br f out := by
  unfold cpInitialize at h
  unfold InitCases
  split at h
  · rename_i hg; left; exact ⟨hg, by cases h; rfl⟩
  · rename_i hg
    have hg' : f.get = false := by simpa using hg
    split at h
    · rename_i hw; right; left; exact ⟨hg', hw, by cases h; rfl⟩
    · rename_i wl hw
      split at h
      · cases h
      · rename_i R hR
        right; right
        refine ⟨wl, R, hg', hw, hR, ?_⟩
        split at h
        · rename_i hc; left; exact ⟨hc, by cases h; rfl⟩
        · rename_i hc
          right
          refine ⟨by simpa using hc, ?_⟩
          unfold InitHPA
          split at h
          · cases h
          · rename_i w1 n1 hd
            exact ⟨w1, false, n1, hd, Or.inl ⟨rfl, by cases h; rfl⟩⟩
          · rename_i w1 n1 hd
            refine ⟨w1, true, n1, hd, Or.inr ⟨rfl, ?_⟩⟩
            unfold InitRS
            split at h
            · rename_i w2 n2 hs
              exact ⟨w2, false, n2, hs, Or.inl ⟨rfl, by cases h; rfl⟩⟩
            · rename_i w2 n2 hs
              refine ⟨w2, true, n2, hs, Or.inr ⟨rfl, ?_⟩⟩
              unfold InitSet
              split at h
              · rename_i hgs; left; exact ⟨hgs, by cases h; rfl⟩
              · rename_i s hgs
                right
                refine ⟨s, hgs, ?_⟩
                unfold InitWrite
                split at h
                · rename_i hcw; left; exact ⟨hcw, by cases h; rfl⟩
                · rename_i hcw; right; exact ⟨by simpa using hcw, by cases h; rfl⟩

/-- what `Initialize` does to the workload object: nothing, or the one patch (then it reports success) -/
theorem initialize_wl (kind : Kind) (w : World) (br : BR) (f : Fault) (out : CallOut)
    (h : cpInitialize kind w br f = .val out) :
    (out.world.wl = w.wl ∧ (out.res = .ok → ∃ wl, w.wl = some wl ∧ controlled br wl = true)) ∨
    (∃ wl s, w.wl = some wl ∧ controlled br wl = false ∧ getSetting wl.saved = some s ∧ out.res = .ok ∧
      out.world.wl = some (initPatch kind br (initSetting kind s wl) wl)) := by
  rcases initialize_cases kind w br f out h with ⟨_, ho⟩ | ⟨_, _, ho⟩ | ⟨wl, R, _, hw, _, hc⟩
  · subst ho; left; exact ⟨rfl, by intro h; cases h⟩
  · subst ho; left; exact ⟨rfl, by intro h; cases h⟩
  · rcases hc with ⟨hc, ho⟩ | ⟨hc, w1, b1, n1, hd, hrest⟩
    · subst ho; left; exact ⟨rfl, fun _ => ⟨wl, hw, hc⟩⟩
    · have hw1 := disableHPA_wl w f 0 w1 b1 n1 hd
      rcases hrest with ⟨_, ho⟩ | ⟨_, w2, b2, n2, hs, hrest⟩
      · subst ho; left; exact ⟨hw1, by intro h; cases h⟩
      · have hw2 := stableRSStep_wl kind w1 f n1 w2 b2 n2 hs
        rcases hrest with ⟨_, ho⟩ | ⟨_, hset⟩
        · subst ho; left; exact ⟨hw2.trans hw1, by intro h; cases h⟩
        · rcases hset with ⟨_, ho⟩ | ⟨s, hgs, hwr⟩
          · subst ho; left; exact ⟨hw2.trans hw1, by intro h; cases h⟩
          · rcases hwr with ⟨_, ho⟩ | ⟨_, ho⟩
            · subst ho; right; exact ⟨wl, s, hw, hc, hgs, rfl, rfl⟩
            · subst ho; left; exact ⟨hw2.trans hw1, by intro h; cases h⟩

/-! ### inversion of `UpgradeBatch` -/

def UpgradeCases (kind : Kind) (w : World) (br : BR) (f : Fault) (out : CallOut) : Prop :=
  (f.get = true ∧ out = ⟨w, .err, 0, none⟩) ∨
  (f.get = false ∧ w.wl = none ∧ out = ⟨w, .notFound, 0, none⟩) ∨
  (∃ wl R, f.get = false ∧ w.wl = some wl ∧ wl.replicas = some R ∧
    ((R = 0 ∧ out = ⟨w, .ok, 0, none⟩) ∨
     (R ≠ 0 ∧ ∃ e, entryOf br = some e ∧
       ((validate kind wl = false ∧ out = ⟨w, .badRequest, 0, none⟩) ∨
        (validate kind wl = true ∧ scaledV (curSurge wl) R true ≥ scaledV e R true ∧ out = ⟨w, .ok, 0, none⟩) ∨
        (validate kind wl = true ∧ scaledV (curSurge wl) R true < scaledV e R true ∧ canWrite f 0 = true ∧
          out = ⟨{ w with wl := some (upgradePatch kind e wl) }, .ok, 1, none⟩) ∨
        (validate kind wl = true ∧ scaledV (curSurge wl) R true < scaledV e R true ∧ canWrite f 0 = false ∧
          out = ⟨w, .err, 0, none⟩)))))

theorem upgrade_cases (kind : Kind) (w : World) (br : BR) (f : Fault) (out : CallOut)
    (h : cpUpgradeBatch kind w br f = .val out) : UpgradeCases kind w br f out := by
  unfold cpUpgradeBatch at h
  unfold UpgradeCases
  split at h
  · rename_i hg; left; exact ⟨hg, by cases h; rfl⟩
  · rename_i hg
    have hg' : f.get = false := by simpa using hg
    split at h
    · rename_i hw; right; left; exact ⟨hg', hw, by cases h; rfl⟩
    · rename_i wl hw
      split at h
      · cases h
      · rename_i R hR
        right; right
        refine ⟨wl, R, hg', hw, hR, ?_⟩
        split at h
        · rename_i h0; left; exact ⟨h0, by cases h; rfl⟩
        · rename_i h0
          right
          refine ⟨h0, ?_⟩
          split at h
          · cases h
          · rename_i e he
            refine ⟨e, he, ?_⟩
            split at h
            · rename_i hv; left; exact ⟨by simpa using hv, by cases h; rfl⟩
            · rename_i hv
              have hv' : validate kind wl = true := by simpa using hv
              split at h
              · rename_i hge; right; left; exact ⟨hv', hge, by cases h; rfl⟩
              · rename_i hge
                have hlt : scaledV (curSurge wl) R true < scaledV e R true := by omega
                split at h
                · rename_i hcw; right; right; left; exact ⟨hv', hlt, hcw, by cases h; rfl⟩
                · rename_i hcw; right; right; right; exact ⟨hv', hlt, by simpa using hcw, by cases h; rfl⟩

/-! ### inversion of `Finalize` -/

/-- the tail `finishWait` -/
def FinWait (kind : Kind) (wl d : Workload) (w1 : World) (f : Fault) (n : Nat) (out : CallOut) : Prop :=
  (waitStep kind wl d = .val false ∧ out = ⟨w1, .retry, n, none⟩) ∨
  (waitStep kind wl d = .val true ∧ finishHPA w1 f n = .val out)

theorem finishWait_cases (kind : Kind) (wl d : Workload) (w1 : World) (f : Fault) (n : Nat) (out : CallOut)
    (h : finishWait kind wl d w1 f n = .val out) : FinWait kind wl d w1 f n out := by
  unfold finishWait at h
  unfold FinWait
  split at h
  · cases h
  · rename_i hw; left; exact ⟨hw, by cases h; rfl⟩
  · rename_i hw; right; exact ⟨hw, h⟩

def FinalizeCases (kind : Kind) (w : World) (br : BR) (f : Fault) (out : CallOut) : Prop :=
  (f.get = true ∧ out = ⟨w, .err, 0, none⟩) ∨
  (f.get = false ∧ w.wl = none ∧ out = ⟨w, .ok, 0, none⟩) ∨
  (∃ wl R, f.get = false ∧ w.wl = some wl ∧ wl.replicas = some R ∧
    ((br.partitioned = true ∧ out = ⟨w, .ok, 0, none⟩) ∨
     (br.partitioned = false ∧
       ((restored wl = true ∧ FinWait kind wl emptyDeployment w f 0 out) ∨
        (restored wl = false ∧
          ((getSetting wl.saved = none ∧ out = ⟨w, .err, 0, none⟩) ∨
           (∃ s, getSetting wl.saved = some s ∧
             ((canWrite f 0 = false ∧ out = ⟨w, .err, 0, none⟩) ∨
              (canWrite f 0 = true ∧
                FinWait kind wl (finalizePatch kind s wl) { w with wl := some (finalizePatch kind s wl) } f 1 out)))))))))

theorem finalize_cases (kind : Kind) (w : World) (br : BR) (f : Fault) (out : CallOut)
    (h : cpFinalize kind w br f = .val out) : FinalizeCases kind w br f out := by
  unfold cpFinalize at h
  unfold FinalizeCases
  split at h
  · rename_i hg; left; exact ⟨hg, by cases h; rfl⟩
  · rename_i hg
    have hg' : f.get = false := by simpa using hg
    split at h
    · rename_i hw; right; left; exact ⟨hg', hw, by cases h; rfl⟩
    · rename_i wl hw
      split at h
      · cases h
      · rename_i R hR
        right; right
        refine ⟨wl, R, hg', hw, hR, ?_⟩
        split at h
        · rename_i hp; left; exact ⟨hp, by cases h; rfl⟩
        · rename_i hp
          right
          refine ⟨by simpa using hp, ?_⟩
          split at h
          · rename_i hr; left; exact ⟨hr, finishWait_cases _ _ _ _ _ _ _ h⟩
          · rename_i hr
            right
            refine ⟨by simpa using hr, ?_⟩
            split at h
            · rename_i hgs; left; exact ⟨hgs, by cases h; rfl⟩
            · rename_i s hgs
              right
              refine ⟨s, hgs, ?_⟩
              split at h
              · rename_i hcw; left; exact ⟨by simpa using hcw, by cases h; rfl⟩
              · rename_i hcw
                right
                exact ⟨by simpa using hcw, finishWait_cases _ _ _ _ _ _ _ h⟩

theorem waitStep_empty (kind : Kind) (wl : Workload) (hk : kind = .deployment) :
    waitStep kind wl emptyDeployment = .val true := by
  subst hk; rfl

/-! ### summaries -/

theorem finishHPA_wl (w : World) (f : Fault) (n : Nat) (out : CallOut) (h : finishHPA w f n = .val out) :
    out.world.wl = w.wl := by
  rcases (finishHPA_spec w f n out h).2 with ⟨h1, _⟩ | ⟨_, _, _, v, k, _, _, h1⟩
  · rw [h1]
  · rw [h1, setHPA_wl]

/-- what `UpgradeBatch` does to the world: nothing, or the one patch -/
theorem upgrade_world (kind : Kind) (w : World) (br : BR) (f : Fault) (out : CallOut)
    (h : cpUpgradeBatch kind w br f = .val out) :
    (out.world = w ∧ out.writes = 0) ∨
    (∃ wl R e, w.wl = some wl ∧ wl.replicas = some R ∧ R ≠ 0 ∧ entryOf br = some e ∧ validate kind wl = true ∧
      scaledV (curSurge wl) R true < scaledV e R true ∧ out.res = .ok ∧ out.writes = 1 ∧
      out.world = { w with wl := some (upgradePatch kind e wl) }) := by
  rcases upgrade_cases kind w br f out h with ⟨_, ho⟩ | ⟨_, _, ho⟩ | ⟨wl, R, _, hw, hR, hc⟩
  · subst ho; left; exact ⟨rfl, rfl⟩
  · subst ho; left; exact ⟨rfl, rfl⟩
  · rcases hc with ⟨_, ho⟩ | ⟨h0, e, he, hc⟩
    · subst ho; left; exact ⟨rfl, rfl⟩
    · rcases hc with ⟨_, ho⟩ | ⟨_, _, ho⟩ | ⟨hv, hlt, _, ho⟩ | ⟨_, _, _, ho⟩
      · subst ho; left; exact ⟨rfl, rfl⟩
      · subst ho; left; exact ⟨rfl, rfl⟩
      · subst ho; right; exact ⟨wl, R, e, hw, hR, h0, he, hv, hlt, rfl, rfl, rfl⟩
      · subst ho; left; exact ⟨rfl, rfl⟩

/-- what `Finalize` does to the workload object: nothing, or the one restoring patch -/
theorem finalize_wl (kind : Kind) (w : World) (br : BR) (f : Fault) (out : CallOut)
    (h : cpFinalize kind w br f = .val out) :
    out.world.wl = w.wl ∨
    (∃ wl s, w.wl = some wl ∧ restored wl = false ∧ br.partitioned = false ∧ getSetting wl.saved = some s ∧
      out.world.wl = some (finalizePatch kind s wl)) := by
  rcases finalize_cases kind w br f out h with ⟨_, ho⟩ | ⟨_, _, ho⟩ | ⟨wl, R, _, hw, _, hc⟩
  · subst ho; left; rfl
  · subst ho; left; rfl
  · rcases hc with ⟨_, ho⟩ | ⟨hp, hc⟩
    · subst ho; left; rfl
    · rcases hc with ⟨_, hfw⟩ | ⟨hr, hc⟩
      · rcases hfw with ⟨_, ho⟩ | ⟨_, hfin⟩
        · subst ho; left; rfl
        · left; exact finishHPA_wl _ _ _ _ hfin
      · rcases hc with ⟨_, ho⟩ | ⟨s, hgs, hc⟩
        · subst ho; left; rfl
        · rcases hc with ⟨_, ho⟩ | ⟨_, hfw⟩
          · subst ho; left; rfl
          · right
            refine ⟨wl, s, hw, hr, hp, hgs, ?_⟩
            rcases hfw with ⟨_, ho⟩ | ⟨_, hfin⟩
            · subst ho; rfl
            · exact finishHPA_wl _ _ _ _ hfin

/-- a `Finalize` that reports success on an existing workload with `batchPartition` cleared went through the wait
    and through `RestoreHPA` -/
theorem finalize_done (kind : Kind) (w : World) (br : BR) (f : Fault) (out : CallOut) (wl : Workload)
    (h : cpFinalize kind w br f = .val out) (hw : w.wl = some wl) (hp : br.partitioned = false) (hok : out.res = .ok) :
    ∃ d w1 n,
      ((restored wl = true ∧ d = emptyDeployment ∧ w1 = w ∧ n = 0) ∨
       (restored wl = false ∧ ∃ s, getSetting wl.saved = some s ∧ d = finalizePatch kind s wl ∧
          w1 = { w with wl := some d } ∧ n = 1)) ∧
      waitStep kind wl d = .val true ∧ finishHPA w1 f n = .val out := by
  rcases finalize_cases kind w br f out h with ⟨_, ho⟩ | ⟨_, hn, _⟩ | ⟨wl', R, _, hw', _, hc⟩
  · subst ho; cases hok
  · rw [hw] at hn; cases hn
  · rw [hw] at hw'; cases hw'
    rcases hc with ⟨hp', _⟩ | ⟨_, hc⟩
    · rw [hp] at hp'; cases hp'
    · rcases hc with ⟨hr, hfw⟩ | ⟨hr, hc⟩
      · rcases hfw with ⟨_, ho⟩ | ⟨hwt, hfin⟩
        · subst ho; cases hok
        · exact ⟨emptyDeployment, w, 0, Or.inl ⟨hr, rfl, rfl, rfl⟩, hwt, hfin⟩
      · rcases hc with ⟨_, ho⟩ | ⟨s, hgs, hc⟩
        · subst ho; cases hok
        · rcases hc with ⟨_, ho⟩ | ⟨_, hfw⟩
          · subst ho; cases hok
          · rcases hfw with ⟨_, ho⟩ | ⟨hwt, hfin⟩
            · subst ho; cases hok
            · exact ⟨finalizePatch kind s wl, _, 1, Or.inr ⟨hr, s, hgs, rfl, rfl, rfl⟩, hwt, hfin⟩

end RV.Lemmas.CtlBlueGreen
