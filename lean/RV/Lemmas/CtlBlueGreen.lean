/-
  Helper lemmas about the blue-green control-plane model: inversion ("what can a call return")
  lemmas without `match`, the facts about the HPA lists the theorems need, and the proofs of the
  property theorems stated in `RV.Props.CtlBlueGreenThms`.
-/
import RV.Oracle.CtlBlueGreen
namespace RV.Lemmas.CtlBlueGreen
open RV.Arith IntOrPct RV.CtlBlueGreen RV.Oracle.CtlBlueGreen

/-! ### HPA lists -/

theorem setHPA_wl (w : World) (v : Ver) (k : Nat) : (setHPA w v k).wl = w.wl := by
  cases v <;> rfl

theorem setHPA_rss (w : World) (v : Ver) (k : Nat) : (setHPA w v k).rss = w.rss := by
  cases v <;> rfl

theorem hpaMatches_set (a : HPA) (k : Nat) (hm : hpaMatches a = true) : hpaMatches { a with name := some k } = true := by
  unfold hpaMatches at hm ⊢
  simp only [Bool.and_eq_true] at hm ⊢
  exact ⟨hm.1, rfl⟩

/-- after the patch of the first matching item, that item is found again with the new name -/
theorem findIn_setFirst (l : List HPA) (k0 k : Nat) (h : findIn l = some k0) :
    findIn (setFirst k l) = some k := by
  induction l with
  | nil => simp [findIn] at h
  | cons a t ih =>
    unfold findIn at h
    split at h
    · rename_i hm
      simp only [setFirst, hm, if_true, findIn, hpaMatches_set a k hm]
    · rename_i hm
      simp only [setFirst, hm, findIn, Bool.false_eq_true, if_false]
      exact ih h

theorem setFirst_idem (l : List HPA) (k : Nat) : setFirst k (setFirst k l) = setFirst k l := by
  induction l with
  | nil => rfl
  | cons a t ih =>
    by_cases hm : hpaMatches a = true
    · simp only [setFirst, hm, if_true, hpaMatches_set a k hm]
    · have hm' : hpaMatches a = false := by simpa using hm
      simp only [setFirst, hm', Bool.false_eq_true, if_false, ih]

/-- without faults the lookup always answers -/
theorem findHPA_noFault_val (w : World) : ∃ x, findHPA w noFault = .val x := by
  unfold findHPA findVer noFault
  simp only [Bool.false_eq_true, if_false]
  cases findIn w.hpaV2 with
  | some k => exact ⟨_, rfl⟩
  | none => cases findIn w.hpaV1 <;> exact ⟨_, rfl⟩

/-- a lookup that answers under List faults answers the same without them -/
theorem findHPA_val_noFault (w : World) (f : Fault) (x : Option (Ver × Nat)) (h : findHPA w f = .val x) :
    findHPA w noFault = .val x := by
  unfold findHPA findVer noFault at *
  simp only [Bool.false_eq_true, if_false]
  cases h2 : f.listV2 with
  | true => simp [h2] at h
  | false =>
    simp only [h2, Bool.false_eq_true, if_false] at h
    cases hk : findIn w.hpaV2 with
    | some k => simpa [hk] using h
    | none =>
      simp only [hk] at h ⊢
      cases h1 : f.listV1 with
      | true => simp [h1] at h
      | false => simpa [h1] using h

theorem findHPA_setHPA (w : World) (v : Ver) (k0 k : Nat) (h : findHPA w noFault = .val (some (v, k0))) :
    findHPA (setHPA w v k) noFault = .val (some (v, k)) := by
  unfold findHPA findVer noFault at h ⊢
  simp only [Bool.false_eq_true, if_false] at h ⊢
  cases v with
  | v2 =>
    simp only [setHPA]
    cases hk : findIn w.hpaV2 with
    | some k' =>
      simp only [hk, Lk.val.injEq, Option.some.injEq, Prod.mk.injEq, true_and] at h
      rw [findIn_setFirst _ _ k hk]
    | none =>
      simp only [hk] at h
      cases hk1 : findIn w.hpaV1 with
      | some k' => simp [hk1] at h
      | none => simp [hk1] at h
  | v1 =>
    simp only [setHPA]
    cases hk : findIn w.hpaV2 with
    | some k' => simp [hk] at h
    | none =>
      simp only [hk] at h ⊢
      cases hk1 : findIn w.hpaV1 with
      | some k' =>
        simp only [hk1, Lk.val.injEq, Option.some.injEq, Prod.mk.injEq, true_and] at h
        rw [findIn_setFirst _ _ k hk1]
      | none => simp [hk1] at h

/-! ### the write steps -/

theorem disableHPA_spec (w : World) (f : Fault) (n : Nat) (w1 : World) (b : Bool) (n1 : Nat)
    (h : disableHPA w f n = (w1, b, n1)) :
    (w1 = w ∧ n1 = n ∧ (b = true → ∃ x, findHPA w f = .val x ∧ ∀ v k, x = some (v, k) → k ≠ 0)) ∨
    (n1 = n + 1 ∧ b = true ∧ canWrite f n = true ∧ ∃ v, findHPA w f = .val (some (v, 0)) ∧ w1 = setHPA w v 1) := by
  unfold disableHPA at h
  grind

theorem restoreHPA_spec (w : World) (f : Fault) (n : Nat) (w1 : World) (b : Bool) (n1 : Nat)
    (h : restoreHPA w f n = (w1, b, n1)) :
    (w1 = w ∧ n1 = n ∧ (b = true → ∃ x, findHPA w f = .val x ∧ ∀ v k, x = some (v, k) → k = 0)) ∨
    (n1 = n + 1 ∧ b = true ∧ canWrite f n = true ∧ ∃ v k, k ≠ 0 ∧ findHPA w f = .val (some (v, k)) ∧ w1 = setHPA w v 0) := by
  unfold restoreHPA at h
  grind

theorem patchStableRS_spec (w : World) (f : Fault) (n : Nat) (w1 : World) (b : Bool) (n1 : Nat)
    (h : patchStableRS w f n = (w1, b, n1)) :
    (w1 = w ∧ n1 = n) ∨ (n1 = n + 1 ∧ b = true ∧ canWrite f n = true ∧ w1 = { w with rss := patchFirstRS w.rss }) := by
  unfold patchStableRS at h
  grind

theorem stableRSStep_spec (kind : Kind) (w : World) (f : Fault) (n : Nat) (w1 : World) (b : Bool) (n1 : Nat)
    (h : stableRSStep kind w f n = (w1, b, n1)) :
    (w1 = w ∧ n1 = n) ∨ (n1 = n + 1 ∧ b = true ∧ canWrite f n = true ∧ w1 = { w with rss := patchFirstRS w.rss }) := by
  unfold stableRSStep at h
  have := patchStableRS_spec w f n w1 b n1
  grind

theorem disableHPA_wl (w : World) (f : Fault) (n : Nat) (w1 : World) (b : Bool) (n1 : Nat)
    (h : disableHPA w f n = (w1, b, n1)) : w1.wl = w.wl := by
  rcases disableHPA_spec w f n w1 b n1 h with ⟨h1, _⟩ | ⟨_, _, _, v, _, h1⟩
  · rw [h1]
  · rw [h1, setHPA_wl]

theorem stableRSStep_wl (kind : Kind) (w : World) (f : Fault) (n : Nat) (w1 : World) (b : Bool) (n1 : Nat)
    (h : stableRSStep kind w f n = (w1, b, n1)) : w1.wl = w.wl := by
  rcases stableRSStep_spec kind w f n w1 b n1 h with ⟨h1, _⟩ | ⟨_, _, _, h1⟩ <;> rw [h1]

theorem finishHPA_spec (w : World) (f : Fault) (n : Nat) :
    (finishHPA w f n).observed = none ∧
    (((finishHPA w f n).world = w ∧ (finishHPA w f n).writes = n ∧
        ((finishHPA w f n).res = .ok ∨ (finishHPA w f n).res = .err) ∧
        ((finishHPA w f n).res = .ok → ∃ x, findHPA w f = .val x ∧ ∀ v k, x = some (v, k) → k = 0)) ∨
     ((finishHPA w f n).writes = n + 1 ∧ (finishHPA w f n).res = .ok ∧ canWrite f n = true ∧
        ∃ v k, k ≠ 0 ∧ findHPA w f = .val (some (v, k)) ∧ (finishHPA w f n).world = setHPA w v 0)) := by
  unfold finishHPA
  have := restoreHPA_spec w f n
  grind

/-! ### inversion of `Initialize` -/

def InitWrite (kind : Kind) (br : BR) (f : Fault) (wl : Workload) (R : Int) (w2 : World) (n2 : Nat) (s : Setting)
    (out : CallOut) : Prop :=
  (canWrite f n2 = true ∧
    out = ⟨{ w2 with wl := some (initPatch kind br (initSetting kind s wl) wl) }, .ok, n2 + 1, some R⟩) ∨
  (canWrite f n2 = false ∧ out = ⟨w2, .err, n2, none⟩)

def InitSet (kind : Kind) (br : BR) (f : Fault) (wl : Workload) (R : Int) (w2 : World) (n2 : Nat) (out : CallOut) : Prop :=
  (getSetting wl.saved = none ∧ out = ⟨w2, .badRequest, n2, none⟩) ∨
  (∃ s, getSetting wl.saved = some s ∧ InitWrite kind br f wl R w2 n2 s out)

def InitRS (kind : Kind) (br : BR) (f : Fault) (wl : Workload) (R : Int) (w1 : World) (n1 : Nat) (out : CallOut) : Prop :=
  ∃ w2 b2 n2, stableRSStep kind w1 f n1 = (w2, b2, n2) ∧
    ((b2 = false ∧ out = ⟨w2, .err, n2, none⟩) ∨ (b2 = true ∧ InitSet kind br f wl R w2 n2 out))

def InitHPA (kind : Kind) (w : World) (br : BR) (f : Fault) (wl : Workload) (R : Int) (out : CallOut) : Prop :=
  ∃ w1 b1 n1, disableHPA w f 0 = (w1, b1, n1) ∧
    ((b1 = false ∧ out = ⟨w1, .err, n1, none⟩) ∨ (b1 = true ∧ InitRS kind br f wl R w1 n1 out))

def InitCases (kind : Kind) (w : World) (br : BR) (f : Fault) (out : CallOut) : Prop :=
  (f.get = true ∧ out = ⟨w, .err, 0, none⟩) ∨
  (f.get = false ∧ w.wl = none ∧ out = ⟨w, .notFound, 0, none⟩) ∨
  (∃ wl R, f.get = false ∧ w.wl = some wl ∧ wl.replicas = some R ∧
    ((controlled br wl = true ∧ out = ⟨w, .ok, 0, some R⟩) ∨
     (controlled br wl = false ∧ InitHPA kind w br f wl R out)))

theorem initialize_cases (kind : Kind) (w : World) (br : BR) (f : Fault) (out : CallOut)
    (h : cpInitialize kind w br f = .val out) : InitCases kind w br f out := by
  unfold cpInitialize at h
  unfold InitCases
  split at h
  · rename_i hg; left; exact ⟨hg, by cases h; rfl⟩
  · rename_i hg
    have hg' : f.get = false := by simpa using hg
    split at h
    · rename_i hw; right; left; exact ⟨hg', hw, by cases h; rfl⟩
    · rename_i wl hw
      split at h
      · cases h
      · rename_i R hR
        right; right
        refine ⟨wl, R, hg', hw, hR, ?_⟩
        split at h
        · rename_i hc; left; exact ⟨hc, by cases h; rfl⟩
        · rename_i hc
          right
          refine ⟨by simpa using hc, ?_⟩
          unfold InitHPA
          split at h
          · rename_i w1 n1 hd
            exact ⟨w1, false, n1, hd, Or.inl ⟨rfl, by cases h; rfl⟩⟩
          · rename_i w1 n1 hd
            refine ⟨w1, true, n1, hd, Or.inr ⟨rfl, ?_⟩⟩
            unfold InitRS
            split at h
            · rename_i w2 n2 hs
              exact ⟨w2, false, n2, hs, Or.inl ⟨rfl, by cases h; rfl⟩⟩
            · rename_i w2 n2 hs
              refine ⟨w2, true, n2, hs, Or.inr ⟨rfl, ?_⟩⟩
              unfold InitSet
              split at h
              · rename_i hgs; left; exact ⟨hgs, by cases h; rfl⟩
              · rename_i s hgs
                right
                refine ⟨s, hgs, ?_⟩
                unfold InitWrite
                split at h
                · rename_i hcw; left; exact ⟨hcw, by cases h; rfl⟩
                · rename_i hcw; right; exact ⟨by simpa using hcw, by cases h; rfl⟩

/-- what `Initialize` does to the workload object: nothing, or the one patch (then it reports success) -/
theorem initialize_wl (kind : Kind) (w : World) (br : BR) (f : Fault) (out : CallOut)
    (h : cpInitialize kind w br f = .val out) :
    (out.world.wl = w.wl ∧ (out.res = .ok → ∃ wl, w.wl = some wl ∧ controlled br wl = true)) ∨
    (∃ wl s, w.wl = some wl ∧ controlled br wl = false ∧ getSetting wl.saved = some s ∧ out.res = .ok ∧
      out.world.wl = some (initPatch kind br (initSetting kind s wl) wl)) := by
  rcases initialize_cases kind w br f out h with ⟨_, ho⟩ | ⟨_, _, ho⟩ | ⟨wl, R, _, hw, _, hc⟩
  · subst ho; left; exact ⟨rfl, by intro h; cases h⟩
  · subst ho; left; exact ⟨rfl, by intro h; cases h⟩
  · rcases hc with ⟨hc, ho⟩ | ⟨hc, w1, b1, n1, hd, hrest⟩
    · subst ho; left; exact ⟨rfl, fun _ => ⟨wl, hw, hc⟩⟩
    · have hw1 := disableHPA_wl w f 0 w1 b1 n1 hd
      rcases hrest with ⟨_, ho⟩ | ⟨_, w2, b2, n2, hs, hrest⟩
      · subst ho; left; exact ⟨hw1, by intro h; cases h⟩
      · have hw2 := stableRSStep_wl kind w1 f n1 w2 b2 n2 hs
        rcases hrest with ⟨_, ho⟩ | ⟨_, hset⟩
        · subst ho; left; exact ⟨hw2.trans hw1, by intro h; cases h⟩
        · rcases hset with ⟨_, ho⟩ | ⟨s, hgs, hwr⟩
          · subst ho; left; exact ⟨hw2.trans hw1, by intro h; cases h⟩
          · rcases hwr with ⟨_, ho⟩ | ⟨_, ho⟩
            · subst ho; right; exact ⟨wl, s, hw, hc, hgs, rfl, rfl⟩
            · subst ho; left; exact ⟨hw2.trans hw1, by intro h; cases h⟩

/-! ### inversion of `UpgradeBatch` -/

def UpgradeCases (kind : Kind) (w : World) (br : BR) (f : Fault) (out : CallOut) : Prop :=
  (f.get = true ∧ out = ⟨w, .err, 0, none⟩) ∨
  (f.get = false ∧ w.wl = none ∧ out = ⟨w, .notFound, 0, none⟩) ∨
  (∃ wl R, f.get = false ∧ w.wl = some wl ∧ wl.replicas = some R ∧
    ((R = 0 ∧ out = ⟨w, .ok, 0, none⟩) ∨
     (R ≠ 0 ∧ ∃ e, entryOf br = some e ∧
       ((validate kind wl = false ∧ out = ⟨w, .badRequest, 0, none⟩) ∨
        (validate kind wl = true ∧ scaledV (curSurge wl) R true ≥ scaledV e R true ∧ out = ⟨w, .ok, 0, none⟩) ∨
        (validate kind wl = true ∧ scaledV (curSurge wl) R true < scaledV e R true ∧ canWrite f 0 = true ∧
          out = ⟨{ w with wl := some (upgradePatch kind e wl) }, .ok, 1, none⟩) ∨
        (validate kind wl = true ∧ scaledV (curSurge wl) R true < scaledV e R true ∧ canWrite f 0 = false ∧
          out = ⟨w, .err, 0, none⟩)))))

theorem upgrade_cases (kind : Kind) (w : World) (br : BR) (f : Fault) (out : CallOut)
    (h : cpUpgradeBatch kind w br f = .val out) : UpgradeCases kind w br f out := by
  unfold cpUpgradeBatch at h
  unfold UpgradeCases
  split at h
  · rename_i hg; left; exact ⟨hg, by cases h; rfl⟩
  · rename_i hg
    have hg' : f.get = false := by simpa using hg
    split at h
    · rename_i hw; right; left; exact ⟨hg', hw, by cases h; rfl⟩
    · rename_i wl hw
      split at h
      · cases h
      · rename_i R hR
        right; right
        refine ⟨wl, R, hg', hw, hR, ?_⟩
        split at h
        · rename_i h0; left; exact ⟨h0, by cases h; rfl⟩
        · rename_i h0
          right
          refine ⟨h0, ?_⟩
          split at h
          · cases h
          · rename_i e he
            refine ⟨e, he, ?_⟩
            split at h
            · rename_i hv; left; exact ⟨by simpa using hv, by cases h; rfl⟩
            · rename_i hv
              have hv' : validate kind wl = true := by simpa using hv
              split at h
              · rename_i hge; right; left; exact ⟨hv', hge, by cases h; rfl⟩
              · rename_i hge
                have hlt : scaledV (curSurge wl) R true < scaledV e R true := by omega
                split at h
                · rename_i hcw; right; right; left; exact ⟨hv', hlt, hcw, by cases h; rfl⟩
                · rename_i hcw; right; right; right; exact ⟨hv', hlt, by simpa using hcw, by cases h; rfl⟩


/-! ### inversion of `Finalize` -/

/-- the tail `finishWait` -/
def FinWait (kind : Kind) (wl d : Workload) (w1 : World) (f : Fault) (n : Nat) (out : CallOut) : Prop :=
  (waitStep kind wl d = .val false ∧ out = ⟨w1, .retry, n, none⟩) ∨
  (waitStep kind wl d = .val true ∧ out = finishHPA w1 f n)

theorem finishWait_cases (kind : Kind) (wl d : Workload) (w1 : World) (f : Fault) (n : Nat) (out : CallOut)
    (h : finishWait kind wl d w1 f n = .val out) : FinWait kind wl d w1 f n out := by
  unfold finishWait at h
  unfold FinWait
  split at h
  · cases h
  · rename_i hw; left; exact ⟨hw, by cases h; rfl⟩
  · rename_i hw; right; exact ⟨hw, by cases h; rfl⟩

def FinalizeCases (kind : Kind) (w : World) (br : BR) (f : Fault) (out : CallOut) : Prop :=
  (f.get = true ∧ out = ⟨w, .err, 0, none⟩) ∨
  (f.get = false ∧ w.wl = none ∧ out = ⟨w, .ok, 0, none⟩) ∨
  (∃ wl R, f.get = false ∧ w.wl = some wl ∧ wl.replicas = some R ∧
    ((br.partitioned = true ∧ out = ⟨w, .ok, 0, none⟩) ∨
     (br.partitioned = false ∧
       ((restored wl = true ∧ FinWait kind wl emptyDeployment w f 0 out) ∨
        (restored wl = false ∧
          ((getSetting wl.saved = none ∧ out = ⟨w, .err, 0, none⟩) ∨
           (∃ s, getSetting wl.saved = some s ∧
             ((canWrite f 0 = false ∧ out = ⟨w, .err, 0, none⟩) ∨
              (canWrite f 0 = true ∧ ∃ o,
                FinWait kind wl (finalizePatch kind s wl) { w with wl := some (finalizePatch kind s wl) } f 1 o ∧
                out = finishForget kind f o)))))))))

theorem finalize_cases (kind : Kind) (w : World) (br : BR) (f : Fault) (out : CallOut)
    (h : cpFinalize kind w br f = .val out) : FinalizeCases kind w br f out := by
  unfold cpFinalize at h
  unfold FinalizeCases
  split at h
  · rename_i hg; left; exact ⟨hg, by cases h; rfl⟩
  · rename_i hg
    have hg' : f.get = false := by simpa using hg
    split at h
    · rename_i hw; right; left; exact ⟨hg', hw, by cases h; rfl⟩
    · rename_i wl hw
      split at h
      · cases h
      · rename_i R hR
        right; right
        refine ⟨wl, R, hg', hw, hR, ?_⟩
        split at h
        · rename_i hp; left; exact ⟨hp, by cases h; rfl⟩
        · rename_i hp
          right
          refine ⟨by simpa using hp, ?_⟩
          split at h
          · rename_i hr; left; exact ⟨hr, finishWait_cases _ _ _ _ _ _ _ h⟩
          · rename_i hr
            right
            refine ⟨by simpa using hr, ?_⟩
            split at h
            · rename_i hgs; left; exact ⟨hgs, by cases h; rfl⟩
            · rename_i s hgs
              right
              refine ⟨s, hgs, ?_⟩
              split at h
              · rename_i hcw; left; exact ⟨by simpa using hcw, by cases h; rfl⟩
              · rename_i hcw
                right
                refine ⟨by simpa using hcw, ?_⟩
                split at h
                · cases h
                · rename_i o ho
                  exact ⟨o, finishWait_cases _ _ _ _ _ _ _ ho, by cases h; rfl⟩

theorem waitStep_empty (kind : Kind) (wl : Workload) (hk : kind = .deployment) :
    waitStep kind wl emptyDeployment = .val true := by
  subst hk; rfl

/-- the workload without its saved-settings annotation -/
def forgetWl (wl : Workload) : Workload := { wl with saved := .none }

theorem forget_wl (w : World) (wl : Workload) (h : w.wl = some wl) : (forget w).wl = some (forgetWl wl) := by
  simp [forget, forgetWl, h]

theorem forget_hpa (w : World) : (forget w).hpaV2 = w.hpaV2 ∧ (forget w).hpaV1 = w.hpaV1 ∧ (forget w).rss = w.rss :=
  ⟨rfl, rfl, rfl⟩

theorem forgetWl_finalizePatch_cs (s : Setting) (wl : Workload) :
    forgetWl (finalizePatch .cloneSet s wl) = finalizePatch .cloneSet s wl := rfl

/-- what the second patch of the Deployment control does to the outcome of the wait-and-restore tail -/
theorem finishForget_spec (kind : Kind) (f : Fault) (o : CallOut) :
    finishForget kind f o = o ∨
    (kind = .deployment ∧ o.res = .ok ∧ canWrite f o.writes = true ∧
      finishForget kind f o = ⟨forget o.world, .ok, o.writes + 1, none⟩) ∨
    (kind = .deployment ∧ o.res = .ok ∧ canWrite f o.writes = false ∧
      finishForget kind f o = ⟨o.world, .err, o.writes, none⟩) := by
  cases kind
  · by_cases hok : o.res = .ok
    · by_cases hc : canWrite f o.writes = true
      · right; left; exact ⟨rfl, hok, hc, by simp [finishForget, hok, hc]⟩
      · have hc' : canWrite f o.writes = false := by simpa using hc
        right; right; exact ⟨rfl, hok, hc', by simp [finishForget, hok, hc']⟩
    · left; simp [finishForget, hok]
  · left; rfl

/-- if the outcome after the second patch is a success, the tail succeeded and (Deployment) the annotation is gone -/
theorem finishForget_ok (kind : Kind) (f : Fault) (o : CallOut) (h : (finishForget kind f o).res = .ok) :
    o.res = .ok ∧
    ((kind = .cloneSet ∧ finishForget kind f o = o) ∨
     (kind = .deployment ∧ (finishForget kind f o).world = forget o.world)) := by
  rcases finishForget_spec kind f o with e | ⟨hk, hok, _, e⟩ | ⟨_, _, _, e⟩
  · rw [e] at h
    cases kind
    · -- Deployment, tail succeeded, outcome unchanged: impossible (a success always leads to the second patch)
      exfalso
      by_cases hc : canWrite f o.writes = true
      · have : (finishForget .deployment f o).writes = o.writes + 1 := by simp [finishForget, h, hc]
        rw [e] at this; omega
      · have hc' : canWrite f o.writes = false := by simpa using hc
        have : (finishForget .deployment f o).res = .err := by simp [finishForget, h, hc']
        rw [e, h] at this; cases this
    · exact ⟨h, Or.inl ⟨rfl, e⟩⟩
  · rw [e]; exact ⟨hok, Or.inr ⟨hk, rfl⟩⟩
  · rw [e] at h; cases h

/-! ### summaries -/

theorem finishHPA_wl (w : World) (f : Fault) (n : Nat) : (finishHPA w f n).world.wl = w.wl := by
  rcases (finishHPA_spec w f n).2 with ⟨h1, _⟩ | ⟨_, _, _, v, k, _, _, h1⟩
  · rw [h1]
  · rw [h1, setHPA_wl]

/-- what `UpgradeBatch` does to the world: nothing, or the one patch -/
theorem upgrade_world (kind : Kind) (w : World) (br : BR) (f : Fault) (out : CallOut)
    (h : cpUpgradeBatch kind w br f = .val out) :
    (out.world = w ∧ out.writes = 0) ∨
    (∃ wl R e, w.wl = some wl ∧ wl.replicas = some R ∧ R ≠ 0 ∧ entryOf br = some e ∧ validate kind wl = true ∧
      scaledV (curSurge wl) R true < scaledV e R true ∧ out.res = .ok ∧ out.writes = 1 ∧
      out.world = { w with wl := some (upgradePatch kind e wl) }) := by
  rcases upgrade_cases kind w br f out h with ⟨_, ho⟩ | ⟨_, _, ho⟩ | ⟨wl, R, _, hw, hR, hc⟩
  · subst ho; left; exact ⟨rfl, rfl⟩
  · subst ho; left; exact ⟨rfl, rfl⟩
  · rcases hc with ⟨_, ho⟩ | ⟨h0, e, he, hc⟩
    · subst ho; left; exact ⟨rfl, rfl⟩
    · rcases hc with ⟨_, ho⟩ | ⟨_, _, ho⟩ | ⟨hv, hlt, _, ho⟩ | ⟨_, _, _, ho⟩
      · subst ho; left; exact ⟨rfl, rfl⟩
      · subst ho; left; exact ⟨rfl, rfl⟩
      · subst ho; right; exact ⟨wl, R, e, hw, hR, h0, he, hv, hlt, rfl, rfl, rfl⟩
      · subst ho; left; exact ⟨rfl, rfl⟩

/-- the world after the wait-and-restore tail and the second patch: workload object as after the first patch, possibly
    without the saved annotation -/
theorem finishForget_wl (kind : Kind) (f : Fault) (o : CallOut) (wl' : Workload) (h : o.world.wl = some wl') :
    (finishForget kind f o).world.wl = some wl' ∨ (finishForget kind f o).world.wl = some (forgetWl wl') := by
  rcases finishForget_spec kind f o with e | ⟨_, _, _, e⟩ | ⟨_, _, _, e⟩
  · left; rw [e]; exact h
  · right; rw [e]; exact forget_wl _ _ h
  · left; rw [e]; exact h

theorem FinWait_wl (kind : Kind) (wl d : Workload) (w1 : World) (f : Fault) (n : Nat) (o : CallOut)
    (h : FinWait kind wl d w1 f n o) : o.world.wl = w1.wl := by
  rcases h with ⟨_, ho⟩ | ⟨_, ho⟩
  · subst ho; rfl
  · subst ho; exact finishHPA_wl _ _ _

/-- what `Finalize` does to the workload object: nothing, the restoring patch, or the restoring patch and the removal
    of the saved annotation -/
theorem finalize_wl (kind : Kind) (w : World) (br : BR) (f : Fault) (out : CallOut)
    (h : cpFinalize kind w br f = .val out) :
    out.world.wl = w.wl ∨
    (∃ wl s, w.wl = some wl ∧ restored wl = false ∧ br.partitioned = false ∧ getSetting wl.saved = some s ∧
      (out.world.wl = some (finalizePatch kind s wl) ∨ out.world.wl = some (forgetWl (finalizePatch kind s wl)))) := by
  rcases finalize_cases kind w br f out h with ⟨_, ho⟩ | ⟨_, _, ho⟩ | ⟨wl, R, _, hw, _, hc⟩
  · subst ho; left; rfl
  · subst ho; left; rfl
  · rcases hc with ⟨_, ho⟩ | ⟨hp, hc⟩
    · subst ho; left; rfl
    · rcases hc with ⟨_, hfw⟩ | ⟨hr, hc⟩
      · left; exact FinWait_wl _ _ _ _ _ _ _ hfw
      · rcases hc with ⟨_, ho⟩ | ⟨s, hgs, hc⟩
        · subst ho; left; rfl
        · rcases hc with ⟨_, ho⟩ | ⟨_, o, hfw, ho⟩
          · subst ho; left; rfl
          · right
            refine ⟨wl, s, hw, hr, hp, hgs, ?_⟩
            subst ho
            exact finishForget_wl kind f o _ (FinWait_wl _ _ _ _ _ _ _ hfw)

/-- a `Finalize` that reports success on an existing workload with `batchPartition` cleared went through the wait,
    through `RestoreHPA` (outcome `o`, a success) and — after a restoring patch — through the removal of the saved
    annotation -/
theorem finalize_done (kind : Kind) (w : World) (br : BR) (f : Fault) (out : CallOut) (wl : Workload)
    (h : cpFinalize kind w br f = .val out) (hw : w.wl = some wl) (hp : br.partitioned = false) (hok : out.res = .ok) :
    ∃ d w1 n o,
      waitStep kind wl d = .val true ∧ o = finishHPA w1 f n ∧ o.res = .ok ∧
      ((restored wl = true ∧ d = emptyDeployment ∧ w1 = w ∧ n = 0 ∧ out = o) ∨
       (restored wl = false ∧ ∃ s, getSetting wl.saved = some s ∧ d = finalizePatch kind s wl ∧
          w1 = { w with wl := some d } ∧ n = 1 ∧ out = finishForget kind f o ∧
          out.world.wl = some (forgetWl d) ∧ out.world.hpaV2 = o.world.hpaV2 ∧ out.world.hpaV1 = o.world.hpaV1)) := by
  rcases finalize_cases kind w br f out h with ⟨_, ho⟩ | ⟨_, hn, _⟩ | ⟨wl', R, _, hw', _, hc⟩
  · subst ho; cases hok
  · rw [hw] at hn; cases hn
  · rw [hw] at hw'; cases hw'
    rcases hc with ⟨hp', _⟩ | ⟨_, hc⟩
    · rw [hp] at hp'; cases hp'
    · rcases hc with ⟨hr, hfw⟩ | ⟨hr, hc⟩
      · rcases hfw with ⟨_, ho⟩ | ⟨hwt, hfin⟩
        · subst ho; cases hok
        · exact ⟨emptyDeployment, w, 0, out, hwt, hfin, hok, Or.inl ⟨hr, rfl, rfl, rfl, rfl⟩⟩
      · rcases hc with ⟨_, ho⟩ | ⟨s, hgs, hc⟩
        · subst ho; cases hok
        · rcases hc with ⟨_, ho⟩ | ⟨_, o, hfw, ho⟩
          · subst ho; cases hok
          · subst ho
            obtain ⟨hook, hkind⟩ := finishForget_ok kind f o hok
            rcases hfw with ⟨_, ho⟩ | ⟨hwt, hfin⟩
            · subst ho; cases hook
            · refine ⟨finalizePatch kind s wl, _, 1, o, hwt, hfin, hook, Or.inr ⟨hr, s, hgs, rfl, rfl, rfl, rfl, ?_⟩⟩
              have hwl : o.world.wl = some (finalizePatch kind s wl) := by rw [hfin]; exact finishHPA_wl _ _ _
              rcases hkind with ⟨hk, e⟩ | ⟨_, e⟩
              · subst hk
                rw [e]
                exact ⟨hwl, rfl, rfl⟩
              · rw [e]
                exact ⟨forget_wl _ _ hwl, rfl, rfl⟩



/-! ## proofs of the property theorems (statements with their documentation: `RV.Props.CtlBlueGreenThms`) -/

/-- a complete setting is a fixed point of `InitOriginalSetting` (its `maxSurge` is present, so `minReadySeconds`
    is never taken from the object) -/
theorem initSetting_complete (kind : Kind) (s : Setting) (wl : Workload) (hc : complete kind s = true) :
    initSetting kind s wl = s := by
  obtain ⟨mu, ms, mr, pd⟩ := s
  cases kind <;> cases mu <;> cases ms <;> cases pd <;>
    simp [complete] at hc <;> simp [initSetting, nothingSaved]

theorem effSetting_complete (kind : Kind) (wl : Workload) : complete kind (effSetting kind wl) = true := by
  cases kind <;> simp [effSetting, initSetting, complete, emptySetting]

/-- the restoring patch followed by a fresh read gives back a complete setting (the saved annotation does not matter) -/
theorem effSetting_finalizePatch (kind : Kind) (s : Setting) (wl : Workload) (hc : complete kind s = true) :
    effSetting kind (forgetWl (finalizePatch kind s wl)) = s := by
  obtain ⟨mu, ms, mr, pd⟩ := s
  cases kind <;> cases mu <;> cases ms <;> cases pd <;>
    simp [complete] at hc <;>
    simp [effSetting, initSetting, finalizePatch, forgetWl, emptySetting, ruSurge, ruUnavailable, nothingSaved]

/-! ## C05 — the invariant of a release -/

theorem invWl_none (kind : Kind) (o : Orig) (wl : Workload) (h : wl.saved = .none) :
    invWl kind o wl = true ↔
      (effSetting kind wl = o.setting ∧ wl.ctl = .none) ∧ (gOrigType kind o = true ∨ wl.stype = o.stype) := by
  unfold invWl
  simp only [h, Bool.and_eq_true, Bool.or_eq_true, decide_eq_true_eq]

theorem invWl_some (kind : Kind) (o : Orig) (wl : Workload) (s : Setting) (h : wl.saved = .some s) :
    invWl kind o wl = true ↔ s = o.setting ∧ (gOrigType kind o = true ∨ wl.stype = o.stype) := by
  unfold invWl
  simp only [h, Bool.and_eq_true, Bool.or_eq_true, decide_eq_true_eq]

theorem invWl_bad (kind : Kind) (o : Orig) (wl : Workload) (h : wl.saved = .bad) : invWl kind o wl = false := by
  unfold invWl
  simp only [h, Bool.false_and]

/-- a Deployment patch that sets the strategy type to `RollingUpdate` keeps the type clause of the invariant -/
theorem type_clause_expected (o : Orig) (t : SType)
    (_h : gOrigType .deployment o = true ∨ t = o.stype) :
    gOrigType .deployment o = true ∨ SType.expected = o.stype := by
  by_cases hg : gOrigType .deployment o = true
  · left; exact hg
  · right
    simp only [gOrigType, decide_true, Bool.true_and, ne_eq, decide_not, Bool.not_eq_true', decide_eq_false_iff_not,
      Decidable.not_not] at hg
    exact hg.symm

theorem invWl_initPatch (kind : Kind) (o : Orig) (br : BR) (wl : Workload) (s : Setting)
    (hc : complete kind o.setting = true) (hi : invWl kind o wl = true) (hgs : getSetting wl.saved = some s) :
    invWl kind o (initPatch kind br (initSetting kind s wl) wl) = true := by
  have hsv' : (initPatch kind br (initSetting kind s wl) wl).saved = .some (initSetting kind s wl) := by cases kind <;> rfl
  rw [invWl_some kind o _ _ hsv']
  cases hsv : wl.saved with
  | none =>
    rw [invWl_none kind o wl hsv] at hi
    rw [hsv] at hgs
    simp only [getSetting, Option.some.injEq] at hgs
    subst hgs
    refine ⟨hi.1.1, ?_⟩
    cases kind
    · exact type_clause_expected o _ hi.2
    · exact hi.2
  | bad => rw [invWl_bad kind o wl hsv] at hi; cases hi
  | some s0 =>
    rw [invWl_some kind o wl s0 hsv] at hi
    rw [hsv] at hgs
    simp only [getSetting, Option.some.injEq] at hgs
    subst hgs
    rw [initSetting_complete kind s0 wl (hi.1 ▸ hc)]
    refine ⟨hi.1, ?_⟩
    cases kind
    · exact type_clause_expected o _ hi.2
    · exact hi.2

theorem invWl_upgradePatch (kind : Kind) (o : Orig) (wl : Workload) (e : IntOrPct)
    (hi : invWl kind o wl = true) (hv : validate kind wl = true) :
    invWl kind o (upgradePatch kind e wl) = true := by
  have hctl : wl.ctl ≠ .none := by
    cases kind <;> simp only [validate, Bool.and_eq_true, ne_eq, decide_not, Bool.not_eq_true', decide_eq_false_iff_not] at hv
    · exact hv.1.1.1.1
    · exact hv.1.1
  cases hsv : wl.saved with
  | none => rw [invWl_none kind o wl hsv] at hi; exact absurd hi.1.2 hctl
  | bad => rw [invWl_bad kind o wl hsv] at hi; cases hi
  | some s0 =>
    rw [invWl_some kind o wl s0 hsv] at hi
    have hsv' : (upgradePatch kind e wl).saved = .some s0 := by cases kind <;> exact hsv
    rw [invWl_some kind o _ s0 hsv']
    refine ⟨hi.1, ?_⟩
    cases kind
    · exact type_clause_expected o _ hi.2
    · exact hi.2

/-- both stages of the restoration keep the invariant: the restoring patch (the Deployment still carries the saved
    annotation) and the workload without the annotation -/
theorem invWl_finalizePatch (kind : Kind) (o : Orig) (wl : Workload) (s : Setting)
    (hc : complete kind o.setting = true) (hi : invWl kind o wl = true) (hr : restored wl = false)
    (hgs : getSetting wl.saved = some s) :
    invWl kind o (finalizePatch kind s wl) = true ∧ invWl kind o (forgetWl (finalizePatch kind s wl)) = true ∧
    s = o.setting := by
  cases hsv : wl.saved with
  | none => simp [restored, hsv] at hr
  | bad => rw [invWl_bad kind o wl hsv] at hi; cases hi
  | some s0 =>
    rw [invWl_some kind o wl s0 hsv] at hi
    rw [hsv] at hgs
    simp only [getSetting, Option.some.injEq] at hgs
    subst hgs
    have heff := effSetting_finalizePatch kind s0 wl (hi.1 ▸ hc)
    have hf : (forgetWl (finalizePatch kind s0 wl)).saved = .none ∧ (forgetWl (finalizePatch kind s0 wl)).ctl = .none ∧
        (forgetWl (finalizePatch kind s0 wl)).stype = wl.stype := by
      cases kind <;> exact ⟨rfl, rfl, rfl⟩
    have h2 : invWl kind o (forgetWl (finalizePatch kind s0 wl)) = true := by
      rw [invWl_none kind o _ hf.1, hf.2.2]
      exact ⟨⟨heff.trans hi.1, hf.2.1⟩, hi.2⟩
    refine ⟨?_, h2, hi.1⟩
    cases kind
    · have hsv' : (finalizePatch .deployment s0 wl).saved = .some s0 := hsv
      rw [invWl_some _ o _ s0 hsv']
      exact ⟨hi.1, hi.2⟩
    · exact h2

theorem inv_of_wl (kind : Kind) (o : Orig) (w w' : World) (h : w'.wl = w.wl) : inv kind o w' = inv kind o w := by
  unfold inv; rw [h]

theorem inv_preserved (kind : Kind) (op : Op) (o : Orig) (w : World) (br : BR) (f : Fault) (out : CallOut)
    (h : call kind op w br f = .val out) :
    invPreserved kind o w out = true := by
  unfold invPreserved
  split
  · rename_i hi
    unfold inv at hi ⊢
    simp only [Bool.and_eq_true] at hi ⊢
    refine ⟨hi.1, ?_⟩
    cases op with
    | init =>
      rcases initialize_wl kind w br f out h with ⟨hw, _⟩ | ⟨wl, s, hw, _, hgs, _, hw'⟩
      · rw [hw]; exact hi.2
      · rw [hw']
        rw [hw] at hi
        exact invWl_initPatch kind o br wl s hi.1 hi.2 hgs
    | upgrade =>
      rcases upgrade_world kind w br f out h with ⟨hw, _⟩ | ⟨wl, R, e, hw, _, _, _, hv, _, _, _, hw'⟩
      · rw [hw]; exact hi.2
      · rw [hw']
        rw [hw] at hi
        exact invWl_upgradePatch kind o wl e hi.2 hv
    | fin =>
      rcases finalize_wl kind w br f out h with hw | ⟨wl, s, hw, hr, _, hgs, hw'⟩
      · rw [hw]; exact hi.2
      · rw [hw] at hi
        have := invWl_finalizePatch kind o wl s hi.1 hi.2 hr hgs
        rcases hw' with hw' | hw' <;> rw [hw']
        · exact this.1
        · exact this.2.1
  · rfl

theorem init_saves_original (kind : Kind) (w : World) (br : BR) (f : Fault) (out : CallOut)
    (h : cpInitialize kind w br f = .val out) : initSavesOriginal kind w br out = true := by
  unfold initSavesOriginal
  rcases initialize_wl kind w br f out h with ⟨hw, hok⟩ | ⟨wl, s, hw, hctl, hgs, _, hw'⟩
  · rw [hw]
    cases hwl : w.wl with
    | none => rfl
    | some wl =>
      simp only []
      split
      · rename_i hc
        obtain ⟨wl', hw2, hc2⟩ := hok hc.2.2
        rw [hwl] at hw2; cases hw2
        exact absurd hc2 hc.2.1
      · rfl
  · rw [hw, hw']
    simp only []
    split
    · rename_i hc
      rw [hc.1] at hgs
      simp only [getSetting, Option.some.injEq] at hgs
      subst hgs
      cases kind <;> simp [initPatch, effSetting, controlled]
    · rfl

/-! ## C05 — what a successful `Finalize` leaves behind -/

theorem finalizeDone_iff (w : World) (br : BR) (out : CallOut) :
    finalizeDone w br out = true ↔
      out.res = .ok ∧ br.partitioned = false ∧ ∃ wl, w.wl = some wl ∧ wl.deleting = false := by
  unfold finalizeDone
  cases hw : w.wl with
  | none => simp
  | some wl => simp [and_assoc]

/-- the facts about a successful, releasing `Finalize` every clause below starts from: `o` is the outcome of
    `RestoreHPA` on world `w1`, `d` the object the wait was evaluated on -/
theorem finalize_done_facts (kind : Kind) (w : World) (br : BR) (f : Fault) (out : CallOut)
    (h : cpFinalize kind w br f = .val out) (hd : finalizeDone w br out = true) :
    ∃ wl d w1 n o, w.wl = some wl ∧ wl.deleting = false ∧
      waitStep kind wl d = .val true ∧ o = finishHPA w1 f n ∧ o.res = .ok ∧
      out.world.hpaV2 = o.world.hpaV2 ∧ out.world.hpaV1 = o.world.hpaV1 ∧
      ((wl.saved = .none ∧ d = emptyDeployment ∧ w1 = w ∧ n = 0 ∧ out.world.wl = some wl) ∨
       (restored wl = false ∧ ∃ s, getSetting wl.saved = some s ∧ d = finalizePatch kind s wl ∧
          w1 = { w with wl := some d } ∧ n = 1 ∧ out.world.wl = some (forgetWl d))) := by
  obtain ⟨hok, hp, wl, hw, hdel⟩ := (finalizeDone_iff w br out).1 hd
  obtain ⟨d, w1, n, o, hwait, ho, hook, hpath⟩ := finalize_done kind w br f out wl h hw hp hok
  rcases hpath with ⟨hr, hd', hw1, hn, hout⟩ | ⟨hr, s, hgs, hd', hw1, hn, _, hwl, h2, h1⟩
  · have hs : wl.saved = .none := by
      simp only [restored, hdel, Bool.false_or, decide_eq_true_eq] at hr; exact hr
    refine ⟨wl, d, w1, n, o, hw, hdel, hwait, ho, hook, by rw [hout], by rw [hout], Or.inl ⟨hs, hd', hw1, hn, ?_⟩⟩
    rw [hout, ho, finishHPA_wl, hw1]; exact hw
  · exact ⟨wl, d, w1, n, o, hw, hdel, hwait, ho, hook, h2, h1, Or.inr ⟨hr, s, hgs, hd', hw1, hn, hwl⟩⟩

theorem finalize_restores_original_step (kind : Kind) (o : Orig) (w : World) (br : BR) (f : Fault) (out : CallOut)
    (h : cpFinalize kind w br f = .val out) : finalizeRestores kind o w br out = true := by
  unfold finalizeRestores
  split
  · rename_i hc
    obtain ⟨hi, hd⟩ := hc
    obtain ⟨wl, d, w1, n, oo, hw, _, _, _, _, _, _, hpath⟩ := finalize_done_facts kind w br f out h hd
    unfold inv at hi
    rw [hw] at hi
    simp only [Bool.and_eq_true] at hi
    rcases hpath with ⟨hs, _, _, _, hout⟩ | ⟨hr, s, hgs, hd', _, _, hout⟩
    · rw [hout]
      have := (invWl_none kind o wl hs).1 hi.2
      simp only [decide_eq_true_eq]
      exact ⟨hs, this.1.2, this.1.1⟩
    · rw [hout, hd']
      obtain ⟨_, _, hso⟩ := invWl_finalizePatch kind o wl s hi.1 hi.2 hr hgs
      have heff := effSetting_finalizePatch kind s wl (hso ▸ hi.1)
      simp only [decide_eq_true_eq]
      refine ⟨?_, ?_, heff.trans hso⟩ <;> cases kind <;> rfl
  · rfl

theorem finalize_restores_type_partial (kind : Kind) (o : Orig) (w : World) (br : BR) (f : Fault) (out : CallOut)
    (h : cpFinalize kind w br f = .val out) (hG : gOrigType kind o = false) :
    finalizeRestoresType kind o w br out = true := by
  unfold finalizeRestoresType
  split
  · rename_i hc
    obtain ⟨hi, hd⟩ := hc
    obtain ⟨wl, d, w1, n, oo, hw, _, _, _, _, _, _, hpath⟩ := finalize_done_facts kind w br f out h hd
    unfold inv at hi
    rw [hw] at hi
    simp only [Bool.and_eq_true] at hi
    have htype : wl.stype = o.stype := by
      have := hi.2
      unfold invWl at this
      simp only [Bool.and_eq_true, Bool.or_eq_true, decide_eq_true_eq, hG, Bool.false_eq_true, false_or] at this
      exact this.2
    rcases hpath with ⟨_, _, _, _, hout⟩ | ⟨_, s, _, hd', _, _, hout⟩
    · rw [hout]; simp only [decide_eq_true_eq]; exact htype
    · rw [hout, hd']
      simp only [decide_eq_true_eq]
      rw [← htype]
      cases kind <;> rfl
  · rfl

theorem findHPA_wl_irrel (w : World) (x : Option Workload) (f : Fault) : findHPA { w with wl := x } f = findHPA w f := rfl

theorem findHPA_congr (w w' : World) (f : Fault) (h2 : w'.hpaV2 = w.hpaV2) (h1 : w'.hpaV1 = w.hpaV1) :
    findHPA w' f = findHPA w f := by
  unfold findHPA; rw [h2, h1]

/-- after a successful `RestoreHPA` the HPA found without faults carries no suffix -/
theorem finishHPA_ok_restored (w : World) (f : Fault) (n : Nat) (hok : (finishHPA w f n).res = .ok) :
    hpaRestored (finishHPA w f n).world = true := by
  unfold hpaRestored
  rcases (finishHPA_spec w f n).2 with ⟨hw1, _, _, hall⟩ | ⟨_, _, _, v, k, _, hf, hw1⟩
  · rw [hw1]
    obtain ⟨x, hx, hk⟩ := hall hok
    rw [findHPA_val_noFault w f x hx]
    cases x with
    | none => rfl
    | some p => obtain ⟨v, k⟩ := p; simp only [decide_eq_true_eq]; exact hk v k rfl
  · rw [hw1, findHPA_setHPA w v k 0 (findHPA_val_noFault w f _ hf)]
    rfl

theorem finalize_restores_hpa (kind : Kind) (w : World) (br : BR) (f : Fault) (out : CallOut)
    (h : cpFinalize kind w br f = .val out) :
    finalizeRestoresHPA w br out = true := by
  unfold finalizeRestoresHPA
  split
  · rename_i hd
    obtain ⟨wl, d, w1, n, oo, _, _, _, ho, hook, h2, h1, _⟩ := finalize_done_facts kind w br f out h hd
    have : hpaRestored out.world = hpaRestored oo.world := by
      unfold hpaRestored; rw [findHPA_congr oo.world out.world noFault h2 h1]
    rw [this, ho]
    rw [ho] at hook
    exact finishHPA_ok_restored w1 f n hook
  · rfl

theorem finalize_releases_partial (kind : Kind) (w : World) (br : BR) (f : Fault) (out : CallOut)
    (h : cpFinalize kind w br f = .val out)
    (hG : ∀ wl, w.wl = some wl → gRestoredDeploy kind wl = false ∧ gCsPartition kind wl = false) :
    finalizeReleases kind w br out = true := by
  unfold finalizeReleases
  split
  · rename_i hd
    obtain ⟨wl, d, w1, n, oo, hw, _, _, _, _, _, _, hpath⟩ := finalize_done_facts kind w br f out h hd
    obtain ⟨hg1, hg2⟩ := hG wl hw
    rcases hpath with ⟨hs, _, _, _, hout⟩ | ⟨_, s, _, hd', _, _, hout⟩
    · rw [hout]
      cases kind
      · simp [gRestoredDeploy, restored, hs] at hg1
      · simp only [gCsPartition, decide_true, Bool.true_and] at hg2
        simp only []
        cases hp : wl.partition with
        | none => rfl
        | some p => rw [hp] at hg2; cases hg2
    · rw [hout, hd']
      cases kind
      · rfl
      · simp only [gCsPartition, decide_true, Bool.true_and] at hg2
        simp only [finalizePatch, forgetWl]
        cases hp : wl.partition with
        | none => rfl
        | some p => rw [hp] at hg2; cases hg2
  · rfl

/-! ## C06 / C11 — fault-safety of the single calls -/

theorem waitAll_forget (d : Workload) : waitAllUpdatedAndReady (forgetWl d) = waitAllUpdatedAndReady d := rfl

theorem finalize_done_means_ready_partial (kind : Kind) (w : World) (br : BR) (f : Fault) (out : CallOut)
    (h : cpFinalize kind w br f = .val out)
    (hG : ∀ wl, w.wl = some wl → gRestoredDeploy kind wl = false) :
    finalizeDoneMeansReady kind w br out = true := by
  unfold finalizeDoneMeansReady
  split
  · rename_i hd
    obtain ⟨wl, d, w1, n, oo, hw, _, hwait, _, _, _, _, hpath⟩ := finalize_done_facts kind w br f out h hd
    have hg1 := hG wl hw
    rcases hpath with ⟨hs, _, _, _, hout⟩ | ⟨_, s, _, hd', _, _, hout⟩
    · rw [hout]
      cases kind
      · simp [gRestoredDeploy, restored, hs] at hg1
      · simp only [waitStep, Out.val.injEq] at hwait
        exact hwait
    · rw [hout]
      subst hd'
      cases kind
      · simp only [waitStep] at hwait
        simp only [readyNow, waitAll_forget, hwait]
      · simp only [waitStep, Out.val.injEq] at hwait
        exact hwait
  · rfl

theorem init_keeps_saved (kind : Kind) (w : World) (br : BR) (f : Fault) (out : CallOut)
    (h : cpInitialize kind w br f = .val out) :
    initKeepsSaved w out = true := by
  unfold initKeepsSaved
  rcases initialize_wl kind w br f out h with ⟨hw, _⟩ | ⟨wl, s, hw, hctl, hgs, _, hw'⟩
  · rw [hw]
    cases hwl : w.wl with
    | none => rfl
    | some wl =>
      simp only []
      cases hs : wl.saved with
      | some s => simp
      | none => rfl
      | bad => rfl
  · rw [hw, hw']
    simp only []
    cases hs : wl.saved with
    | none => rfl
    | bad => rfl
    | some s0 =>
      rw [hs] at hgs
      simp only [getSetting, Option.some.injEq] at hgs
      subst hgs
      have hsv : (initPatch kind br (initSetting kind s0 wl) wl).saved = .some (initSetting kind s0 wl) := by cases kind <;> rfl
      rw [hsv]
      simp only [Bool.and_eq_true, Bool.or_eq_true, decide_eq_true_eq]
      obtain ⟨mu, ms, mr, pd⟩ := s0
      refine ⟨⟨⟨?_, ?_⟩, ?_⟩, ?_⟩
      · cases ms <;> cases kind <;> simp [initSetting]
      · cases mu <;> cases kind <;> simp [initSetting]
      · cases pd <;> cases kind <;> simp [initSetting]
      · have key : (if mr = 0 ∧ nothingSaved ⟨mu, ms, mr, pd⟩ = true then wl.minReadySeconds else mr) = mr ∨
            (nothingSaved ⟨mu, ms, mr, pd⟩ = true ∧ mr = 0) := by
          split
          · rename_i hc; right; exact ⟨hc.2, hc.1⟩
          · left; rfl
        cases kind <;> exact key

/-- the wait-and-restore tail writes at least what was written before it, and nothing more only if the world is as before -/
theorem finishHPA_writes (w : World) (f : Fault) (n : Nat) :
    ((finishHPA w f n).writes = n ∧ (finishHPA w f n).world = w) ∨ (finishHPA w f n).writes = n + 1 := by
  rcases (finishHPA_spec w f n).2 with ⟨e, hn, _⟩ | ⟨hn, _⟩
  · left; exact ⟨hn, e⟩
  · right; exact hn

theorem FinWait_writes (kind : Kind) (wl d : Workload) (w1 : World) (f : Fault) (n : Nat) (o : CallOut)
    (h : FinWait kind wl d w1 f n o) : (o.writes = n ∧ o.world = w1) ∨ o.writes = n + 1 := by
  rcases h with ⟨_, ho⟩ | ⟨_, ho⟩
  · subst ho; left; exact ⟨rfl, rfl⟩
  · subst ho; exact finishHPA_writes w1 f n

theorem finishForget_writes (kind : Kind) (f : Fault) (o : CallOut) : o.writes ≤ (finishForget kind f o).writes := by
  rcases finishForget_spec kind f o with e | ⟨_, _, _, e⟩ | ⟨_, _, _, e⟩ <;> rw [e] <;> simp

theorem no_write_no_change (kind : Kind) (op : Op) (w : World) (br : BR) (f : Fault) (out : CallOut)
    (h : call kind op w br f = .val out) : noWriteNoChange w out = true := by
  unfold noWriteNoChange
  split
  · rename_i h0
    simp only [decide_eq_true_eq]
    cases op with
    | init =>
      rcases initialize_cases kind w br f out h with ⟨_, ho⟩ | ⟨_, _, ho⟩ | ⟨wl, R, _, hw, _, hc⟩
      · subst ho; rfl
      · subst ho; rfl
      · rcases hc with ⟨_, ho⟩ | ⟨_, w1, b1, n1, hd, hrest⟩
        · subst ho; rfl
        · have h1 := disableHPA_spec w f 0 w1 b1 n1 hd
          rcases hrest with ⟨_, ho⟩ | ⟨_, w2, b2, n2, hs, hrest⟩
          · subst ho
            simp only at h0 ⊢
            rcases h1 with ⟨e, _⟩ | ⟨e, _⟩
            · exact e
            · omega
          · have h2 := stableRSStep_spec kind w1 f n1 w2 b2 n2 hs
            have key : n2 = 0 → w2 = w := by
              intro hn
              rcases h2 with ⟨e2, en2⟩ | ⟨en2, _⟩
              · rcases h1 with ⟨e1, _⟩ | ⟨en1, _⟩
                · rw [e2, e1]
                · omega
              · omega
            rcases hrest with ⟨_, ho⟩ | ⟨_, hset⟩
            · subst ho; exact key h0
            · rcases hset with ⟨_, ho⟩ | ⟨s, _, hwr⟩
              · subst ho; exact key h0
              · rcases hwr with ⟨_, ho⟩ | ⟨_, ho⟩
                · subst ho; simp at h0
                · subst ho; exact key h0
    | upgrade =>
      rcases upgrade_world kind w br f out h with ⟨hw, _⟩ | ⟨_, _, _, _, _, _, _, _, _, _, h1, _⟩
      · exact hw
      · rw [h1] at h0; cases h0
    | fin =>
      rcases finalize_cases kind w br f out h with ⟨_, ho⟩ | ⟨_, _, ho⟩ | ⟨wl, R, _, hw, _, hc⟩
      · subst ho; rfl
      · subst ho; rfl
      · rcases hc with ⟨_, ho⟩ | ⟨_, hc⟩
        · subst ho; rfl
        · rcases hc with ⟨_, hfw⟩ | ⟨_, hc⟩
          · rcases FinWait_writes _ _ _ _ _ _ _ hfw with ⟨_, e⟩ | e
            · exact e
            · omega
          · rcases hc with ⟨_, ho⟩ | ⟨s, _, hc⟩
            · subst ho; rfl
            · rcases hc with ⟨_, ho⟩ | ⟨_, o, hfw, ho⟩
              · subst ho; rfl
              · exfalso
                have h1 := finishForget_writes kind f o
                rw [← ho, h0] at h1
                rcases FinWait_writes _ _ _ _ _ _ _ hfw with ⟨e, _⟩ | e <;> omega
  · rfl

/-! ## C05 — whole releases -/

theorem effSetting_status (kind : Kind) (wl : Workload) (st : Status) :
    effSetting kind { wl with status := st } = effSetting kind wl := by
  cases kind <;> rfl

theorem effSetting_replicas (kind : Kind) (wl : Workload) (r : Option Int) :
    effSetting kind { wl with replicas := r } = effSetting kind wl := by
  cases kind <;> rfl

theorem inv_applyEv (kind : Kind) (o : Orig) (w w' : World) (e : Ev)
    (hi : inv kind o w = true) (he : applyEv kind w e = some w') :
    inv kind o w' = true := by
  cases e with
  | call op br f =>
    simp only [applyEv] at he
    split at he
    · rename_i out hc
      simp only [Option.some.injEq] at he
      subst he
      have := inv_preserved kind op o w br f out hc
      unfold invPreserved at this
      simp only [hi, if_true] at this
      exact this
    · cases he
  | status st =>
    simp only [applyEv, Option.some.injEq] at he
    subst he
    unfold inv at hi ⊢
    cases hw : w.wl with
    | none => simpa [hw] using hi
    | some wl =>
      rw [hw] at hi
      simp only [Option.map_some]
      unfold invWl at hi ⊢
      simp only [effSetting_status]
      exact hi
  | scale r =>
    simp only [applyEv, Option.some.injEq] at he
    subst he
    unfold inv at hi ⊢
    cases hw : w.wl with
    | none => simpa [hw] using hi
    | some wl =>
      rw [hw] at hi
      simp only [Option.map_some]
      unfold invWl at hi ⊢
      simp only [effSetting_replicas]
      exact hi

theorem inv_run (kind : Kind) (o : Orig) (evs : List Ev) (w w' : World)
    (hi : inv kind o w = true) (hr : run kind w evs = some w') :
    inv kind o w' = true := by
  induction evs generalizing w with
  | nil => simp only [run, Option.some.injEq] at hr; subst hr; exact hi
  | cons e t ih =>
    unfold run at hr
    cases he : applyEv kind w e with
    | none => rw [he] at hr; cases hr
    | some w1 =>
      rw [he] at hr
      exact ih w1 (inv_applyEv kind o w w1 e hi he) hr

theorem inv_fresh (kind : Kind) (w : World) (wl : Workload) (hw : w.wl = some wl)
    (hs : wl.saved = .none) (hc : wl.ctl = .none) : inv kind (origOf kind wl) w = true := by
  unfold inv
  rw [hw]
  simp only [Bool.and_eq_true]
  refine ⟨effSetting_complete kind wl, ?_⟩
  rw [invWl_none kind _ wl hs]
  exact ⟨⟨rfl, hc⟩, Or.inr rfl⟩

theorem finalize_restores_original (kind : Kind) (w0 : World) (wl0 : Workload) (evs : List Ev) (w : World)
    (br : BR) (f : Fault) (out : CallOut)
    (hw0 : w0.wl = some wl0) (hs0 : wl0.saved = .none) (hc0 : wl0.ctl = .none)
    (hr : run kind w0 evs = some w)
    (hfin : cpFinalize kind w br f = .val out) (hd : finalizeDone w br out = true) :
    ∃ wl', out.world.wl = some wl' ∧ wl'.saved = .none ∧ wl'.ctl = .none ∧
      effSetting kind wl' = effSetting kind wl0 := by
  have hi := inv_run kind (origOf kind wl0) evs w0 w (inv_fresh kind w0 wl0 hw0 hs0 hc0) hr
  have := finalize_restores_original_step kind (origOf kind wl0) w br f out hfin
  unfold finalizeRestores at this
  simp only [hi, hd, and_self, if_true] at this
  cases hwl : out.world.wl with
  | none => rw [hwl] at this; cases this
  | some wl' =>
    rw [hwl] at this
    simp only [decide_eq_true_eq] at this
    exact ⟨wl', rfl, this.1, this.2.1, this.2.2⟩

/-! ## C09 — panics, and C05 liveness of the retry -/

theorem Out.exists_of_ne_panic {α : Type} (o : Out α) (h : o ≠ .panic) : ∃ a, o = .val a := by
  cases o with
  | val a => exact ⟨a, rfl⟩
  | panic => exact absurd rfl h

theorem deployMaxUnavailable_noPanic (d : Workload) (R : Int) (ru : RU) (hR : d.replicas = some R) (hru : d.ru = some ru) :
    deployMaxUnavailable d ≠ .panic := by
  unfold deployMaxUnavailable
  rw [hR, hru]
  simp only []
  split
  · simp
  · split
    · simp
    · split <;> simp

theorem waitAll_noPanic (d : Workload) (R : Int) (ru : RU) (hR : d.replicas = some R) (hru : d.ru = some ru) :
    waitAllUpdatedAndReady d ≠ .panic := by
  unfold waitAllUpdatedAndReady
  cases hm : deployMaxUnavailable d with
  | panic => exact absurd hm (deployMaxUnavailable_noPanic d R ru hR hru)
  | val m =>
    split
    · simp
    · split <;> simp

/-- the wait of the Deployment control never panics on a patched object: the patch creates `rollingUpdate` -/
theorem waitStep_noPanic_patched (kind : Kind) (wl : Workload) (s : Setting) (hR : wl.replicas.isSome = true) :
    waitStep kind wl (finalizePatch kind s wl) ≠ .panic := by
  cases kind
  · obtain ⟨R, hR'⟩ := Option.isSome_iff_exists.1 hR
    exact waitAll_noPanic _ R ⟨s.maxSurge, s.maxUnavailable⟩ hR' rfl
  · simp [waitStep]

theorem finishWait_noPanic (kind : Kind) (wl d : Workload) (w1 : World) (f : Fault) (n : Nat)
    (hw : waitStep kind wl d ≠ .panic) : finishWait kind wl d w1 f n ≠ .panic := by
  unfold finishWait
  cases hb : waitStep kind wl d with
  | panic => exact absurd hb hw
  | val b => cases b <;> simp

theorem no_panic (kind : Kind) (op : Op) (w : World) (br : BR) (f : Fault)
    (hA : panicAllowed op w br = false) :
    ∃ out, call kind op w br f = .val out := by
  apply Out.exists_of_ne_panic
  unfold panicAllowed at hA
  simp only [Bool.or_eq_false_iff] at hA
  cases hw : w.wl with
  | none => cases op <;> simp only [call, cpInitialize, cpUpgradeBatch, cpFinalize, hw] <;> split <;> simp
  | some wl =>
    have hR := hA.1
    rw [hw] at hR
    simp only [Option.isNone_eq_false_iff] at hR
    obtain ⟨R, hR'⟩ := Option.isSome_iff_exists.1 hR
    cases op with
    | init =>
      simp only [call, cpInitialize, hw, hR']
      split
      · simp
      · split
        · simp
        · cases hr : disableHPA w f 0 with
          | mk w1 r1 =>
            obtain ⟨b1, n1⟩ := r1
            cases b1
            · simp
            · simp only []
              cases hs : stableRSStep kind w1 f n1 with
              | mk w2 r2 =>
                obtain ⟨b2, n2⟩ := r2
                cases b2
                · simp
                · simp only []
                  cases getSetting wl.saved with
                  | none => simp
                  | some s => simp only []; split <;> simp
    | upgrade =>
      have hE := hA.2
      simp only [decide_true, Bool.true_and, Option.isNone_eq_false_iff] at hE
      obtain ⟨e, he⟩ := Option.isSome_iff_exists.1 hE
      simp only [call, cpUpgradeBatch, hw, hR', he]
      split
      · simp
      · split
        · simp
        · split
          · simp
          · split
            · simp
            · split <;> simp
    | fin =>
      simp only [call, cpFinalize, hw, hR']
      split
      · simp
      · split
        · simp
        · split
          · apply finishWait_noPanic
            cases kind <;> simp [waitStep, waitAllUpdatedAndReady, emptyDeployment, deployMaxUnavailable]
          · cases getSetting wl.saved with
            | none => simp
            | some s =>
              simp only []
              split
              · simp
              · cases hfw : finishWait kind wl (finalizePatch kind s wl) { w with wl := some (finalizePatch kind s wl) } f 1 with
                | panic => exact absurd hfw (finishWait_noPanic _ _ _ _ _ _ (waitStep_noPanic_patched kind wl s hR))
                | val o => simp

theorem restoreHPA_noFault_ok (w : World) (n : Nat) (w1 : World) (b : Bool) (n1 : Nat)
    (h : restoreHPA w noFault n = (w1, b, n1)) : b = true := by
  unfold restoreHPA at h
  obtain ⟨x, hx⟩ := findHPA_noFault_val w
  rw [hx] at h
  cases x with
  | none => simp only [Prod.mk.injEq] at h; exact h.2.1.symm
  | some p =>
    obtain ⟨v, k⟩ := p
    simp only [] at h
    split at h
    · simp only [Prod.mk.injEq] at h; exact h.2.1.symm
    · simp only [canWrite, noFault, if_true, Prod.mk.injEq] at h; exact h.2.1.symm

theorem finishHPA_noFault_ok (w : World) (n : Nat) : (finishHPA w noFault n).res = .ok := by
  unfold finishHPA
  cases hr : restoreHPA w noFault n with
  | mk w1 r =>
    obtain ⟨b, n1⟩ := r
    have := restoreHPA_noFault_ok w n w1 b n1 hr
    subst this
    rfl

theorem waitStep_of_readyNow (kind : Kind) (wl d : Workload) (hst : d.status = wl.status)
    (h : readyNow kind d = true) : waitStep kind wl d = .val true := by
  cases kind
  · simp only [readyNow] at h
    simp only [waitStep]
    cases hw : waitAllUpdatedAndReady d with
    | panic => rw [hw] at h; cases h
    | val b => rw [hw] at h; simp only at h; rw [h]
  · simp only [readyNow, hst] at h
    simp only [waitStep, h]

theorem finalize_completes (kind : Kind) (o : Orig) (w : World) (br : BR) (wl : Workload)
    (hi : inv kind o w = true) (hw : w.wl = some wl) (hR : wl.replicas.isSome = true) (hp : br.partitioned = false)
    (hready : readyNow kind (finalizePatch kind o.setting wl) = true) :
    ∃ out, cpFinalize kind w br noFault = .val out ∧ out.res = .ok := by
  obtain ⟨R, hR'⟩ := Option.isSome_iff_exists.1 hR
  have hstat : (finalizePatch kind o.setting wl).status = wl.status := by cases kind <;> rfl
  unfold inv at hi
  rw [hw] at hi
  simp only [Bool.and_eq_true] at hi
  have hg : noFault.get = false := rfl
  simp only [cpFinalize, hg, Bool.false_eq_true, if_false, hw, hR', hp]
  by_cases hr : restored wl = true
  · simp only [hr, if_true]
    have hwt : waitStep kind wl emptyDeployment = .val true := by
      cases kind
      · rfl
      · have := waitStep_of_readyNow .cloneSet wl _ hstat hready
        simpa [waitStep] using this
    unfold finishWait
    rw [hwt]
    exact ⟨_, rfl, finishHPA_noFault_ok w 0⟩
  · have hr' : restored wl = false := by simpa using hr
    simp only [hr', Bool.false_eq_true, if_false]
    cases hsv : wl.saved with
    | none => simp [restored, hsv] at hr'
    | bad => rw [invWl_bad kind o wl hsv] at hi; exact absurd hi.2 (by decide)
    | some s =>
      have hso := ((invWl_some kind o wl s hsv).1 hi.2).1
      subst hso
      have hcw : canWrite noFault 0 = true := rfl
      simp only [getSetting, hcw, not_true_eq_false, if_false]
      unfold finishWait
      rw [waitStep_of_readyNow kind wl _ hstat hready]
      refine ⟨_, rfl, ?_⟩
      have hok := finishHPA_noFault_ok { w with wl := some (finalizePatch kind o.setting wl) } 1
      cases kind
      · have hc2 : ∀ n, canWrite noFault n = true := fun _ => rfl
        simp [finishForget, hok, hc2]
      · exact hok

/-! ## C01 — exposure of the new revision -/

theorem clampSurge_nonneg (s : IntOrPct) (R : Int) : 0 ≤ clampSurge s R := by unfold clampSurge; omega

theorem exposureBG_nonneg (kind : Kind) (wl : Workload) : 0 ≤ exposureBG kind wl := by
  unfold exposureBG
  cases wl.replicas with
  | none => simp
  | some R =>
    simp only []
    split
    · simp
    · have := clampSurge_nonneg ((ruSurge wl.ru).getD (defaultSurge kind)) R
      cases kind <;> simp only [] <;> split <;> omega

/-- the clamp of the surge is exactly what `CalculateBatchReplicas` plans, for a non-negative replica count -/
theorem clampSurge_le_planned (e : IntOrPct) (R X : Int) (hX : 0 ≤ X) :
    clampSurge e R ≤ max X (calcBatchReplicas R e) := by
  unfold clampSurge calcBatchReplicas
  simp only []
  omega

theorem held_upgradePatch_dep (e : IntOrPct) (wl : Workload) (hv : validate .deployment wl = true) :
    held (upgradePatch .deployment e wl) = true := by
  simp only [validate, Bool.and_eq_true, decide_eq_true_eq] at hv
  simp [held, upgradePatch, ruUnavailable, hv.1.2]

theorem held_upgradePatch_cs (e : IntOrPct) (wl : Workload) :
    held (upgradePatch .cloneSet e wl) = held wl := by
  cases hru : wl.ru <;> simp [held, upgradePatch, ruUnavailable, hru]

/-- **C01 `upgrade_within_step`** — for every workload, plan (ints, percents, malformed entries), current batch, replica
    count and fault: after `UpgradeBatch` the workload's own controller may run at most as many pods of the new
    revision as before the call or as the current batch plans (`CalculateBatchReplicas`), whichever is larger —
    no slack (for a CloneSet under the hold `Initialize` installs). -/
theorem upgrade_within_step (kind : Kind) (w : World) (br : BR) (f : Fault) (out : CallOut)
    (h : cpUpgradeBatch kind w br f = .val out) : upgradeWithinStep kind w br out = true := by
  unfold upgradeWithinStep
  cases hw : w.wl with
  | none => rfl
  | some wl =>
    simp only []
    cases hR : wl.replicas with
    | none => rfl
    | some R =>
      simp only []
      split
      · rfl
      · rename_i hcs
        simp only [decide_eq_true_eq]
        have hnn := exposureBG_nonneg kind wl
        rcases upgrade_world kind w br f out h with ⟨hw', _⟩ | ⟨wl', R', e, hw2, hR2, _, he, hv, _, _, _, hw'⟩
        · rw [hw']; simp only [exposureW, hw]; omega
        · rw [hw] at hw2; cases hw2
          rw [hR] at hR2; cases hR2
          rw [hw']
          have hpl : plannedOfBR br R = calcBatchReplicas R e := by simp [plannedOfBR, he]
          have hcl := clampSurge_le_planned e R (exposureBG kind wl) hnn
          rw [hpl]
          simp only [exposureW]
          cases kind
          · have hh := held_upgradePatch_dep e wl hv
            have : exposureBG .deployment (upgradePatch .deployment e wl) = clampSurge e R := by
              unfold exposureBG
              rw [hh]
              simp [upgradePatch, hR, ruSurge]
            rw [this]; exact hcl
          · have hheld : held wl = true := by
              by_cases hh : held wl = true
              · exact hh
              · exact absurd ⟨rfl, hh⟩ hcs
            have : exposureBG .cloneSet (upgradePatch .cloneSet e wl) ≤ clampSurge e R := by
              unfold exposureBG
              rw [held_upgradePatch_cs, hheld]
              simp only [upgradePatch, hR, ruSurge, Option.bind_some, Option.getD_some, if_true]
              split
              · exact clampSurge_nonneg e R
              · omega
            omega

theorem scaled_clamp_mono (s e : IntOrPct) (R : Int) (h : scaledV s R true ≤ scaledV e R true) :
    clampSurge s R ≤ clampSurge e R := by
  unfold clampSurge; omega

/-- the surge as the workload carries it is never exposed further than the (normalised) surge `UpgradeBatch` compares -/
theorem clamp_le_of_cur_lt (s e : IntOrPct) (R : Int)
    (h : scaledV (RV.BatchCtx.normSurge s) R true < scaledV e R true) : clampSurge s R ≤ clampSurge e R := by
  unfold RV.BatchCtx.normSurge at h
  split at h
  · rename_i h1
    subst h1
    have : scaledV (int 0) R true = 0 := rfl
    have h1 : scaledV (int 1) R true = 1 := rfl
    unfold clampSurge
    omega
  · exact scaled_clamp_mono s e R (by omega)

/-- **C01 (monotone knob)** — `UpgradeBatch` never moves the workload back toward the old revision: on a held
    workload whose surge is set, the exposure after the call is at least the exposure before. -/
theorem upgrade_monotone (kind : Kind) (w : World) (br : BR) (f : Fault) (out : CallOut)
    (h : cpUpgradeBatch kind w br f = .val out) : upgradeMonotone kind w out = true := by
  unfold upgradeMonotone
  cases hw : w.wl with
  | none => rfl
  | some wl =>
    simp only []
    split
    · rename_i hc
      obtain ⟨hheld, hsome⟩ := hc
      simp only [decide_eq_true_eq]
      rcases upgrade_world kind w br f out h with ⟨hw', _⟩ | ⟨wl', R, e, hw2, hR, _, _, hv, hlt, _, _, hw'⟩
      · rw [hw']; simp only [exposureW, hw]; omega
      · rw [hw] at hw2; cases hw2
        rw [hw']
        simp only [exposureW]
        obtain ⟨s, hs⟩ := Option.isSome_iff_exists.1 hsome
        have hcur : curSurge wl = RV.BatchCtx.normSurge s := by simp [curSurge, hs]
        rw [hcur] at hlt
        have hmono := clamp_le_of_cur_lt s e R hlt
        have hnn := clampSurge_nonneg s R
        cases kind
        · have hh := held_upgradePatch_dep e wl hv
          have h1 : exposureBG .deployment (upgradePatch .deployment e wl) = clampSurge e R := by
            unfold exposureBG
            rw [hh]
            simp [upgradePatch, hR, ruSurge]
          have h0 : exposureBG .deployment wl ≤ clampSurge s R := by
            unfold exposureBG
            rw [hheld]
            simp only [hR, hs, Option.getD_some, if_true]
            split <;> omega
          omega
        · unfold exposureBG
          rw [held_upgradePatch_cs, hheld]
          simp only [upgradePatch, hR, ruSurge, Option.bind_some, Option.getD_some, if_true, Option.getD_none]
          have hs' : (wl.ru.bind (·.maxSurge)) = some s := hs
          simp only [hs', Option.getD_some]
          split
          · omega
          · have : exposure (wl.partition.getD (int 0)) R ≤ exposure (int 0) R ∨ exposure (wl.partition.getD (int 0)) R ≤ 0 := by
              unfold exposure keptStable
              have : scaledV (int 0) R true = 0 := rfl
              omega
            have e0 : exposure (int 0) R = R - max 0 (min R 0) := by
              unfold exposure keptStable; rfl
            unfold clampSurge at hmono hnn ⊢
            omega
    · rfl

theorem exposure_pct100 (R : Int) : exposure (pct 100) R ≤ 0 := by
  unfold exposure keptStable scaledV scaled
  simp only [if_true]
  unfold ceilDiv100
  omega

theorem prepared_exposure_zero (kind : Kind) (wl : Workload) (hp : prepared kind wl = true) : exposureBG kind wl = 0 := by
  unfold exposureBG
  cases hR : wl.replicas with
  | none => rfl
  | some R =>
    simp only []
    cases kind
    · simp only [prepared] at hp
      simp [hp]
    · simp only [prepared, decide_eq_true_eq] at hp
      split
      · rfl
      · have := exposure_pct100 R
        simp only [hp, Option.getD_some]
        have hc : 0 ≤ (if held wl = true then clampSurge ((ruSurge wl.ru).getD (defaultSurge .cloneSet)) R else max 0 R) := by
          split
          · exact clampSurge_nonneg _ _
          · omega
        omega

/-- **C01 (`Initialize`)** — `Initialize` exposes nothing of the new revision on a workload the admission webhook
    prepared (Deployment paused, CloneSet partition `100%`), and in general never more than one pod beyond what
    was already exposed — for every workload, HPA constellation and fault. -/
theorem init_exposure (kind : Kind) (w : World) (br : BR) (f : Fault) (out : CallOut)
    (h : cpInitialize kind w br f = .val out) : initExposure kind w out = true := by
  unfold initExposure
  cases hw : w.wl with
  | none => rfl
  | some wl =>
    simp only [Bool.and_eq_true]
    rcases initialize_wl kind w br f out h with ⟨hw', _⟩ | ⟨wl', s, hw2, _, _, _, hw'⟩
    · have he : exposureW kind out.world = exposureBG kind wl := by simp only [exposureW, hw', hw]
      rw [he]
      constructor
      · split
        · rfl
        · simp only [decide_eq_true_eq]; omega
      · split
        · rename_i hp; simp only [decide_eq_true_eq]; exact prepared_exposure_zero kind wl hp
        · rfl
    · rw [hw] at hw2; cases hw2
      have he : exposureW kind out.world = exposureBG kind (initPatch kind br (initSetting kind s wl) wl) := by
        simp only [exposureW, hw']
      rw [he]
      have hnn := exposureBG_nonneg kind wl
      cases hR : wl.replicas with
      | none =>
        have hz : exposureBG kind (initPatch kind br (initSetting kind s wl) wl) = 0 := by
          cases kind <;> simp [exposureBG, initPatch, hR]
        rw [hz]
        constructor
        · split
          · rfl
          · simp only [decide_eq_true_eq]; omega
        · split <;> simp
      | some R =>
        have hc1 : clampSurge (int 1) R ≤ 1 ∧ 0 ≤ clampSurge (int 1) R := by
          have : scaledV (int 1) R true = 1 := rfl
          unfold clampSurge; omega
        cases kind
        · have hh : held (initPatch .deployment br (initSetting .deployment s wl) wl) = true := by
            simp [held, initPatch, ruUnavailable]
          have hex : exposureBG .deployment (initPatch .deployment br (initSetting .deployment s wl) wl) =
              if wl.paused then 0 else clampSurge (int 1) R := by
            unfold exposureBG
            rw [hh]
            simp [initPatch, hR, ruSurge]
          rw [hex]
          constructor
          · simp only [reduceCtorEq, false_and, if_false, decide_eq_true_eq]
            split <;> omega
          · split
            · rename_i hp
              simp only [prepared] at hp
              simp [hp]
            · rfl
        · have hex : exposureBG .cloneSet (initPatch .cloneSet br (initSetting .cloneSet s wl) wl) =
              min (max 0 (exposure (wl.partition.getD (int 0)) R))
                (if wl.stype ≠ .other then clampSurge (int 1) R else max 0 R) := by
            unfold exposureBG
            simp only [initPatch, hR, Bool.false_eq_true, if_false, held, ruUnavailable, ruSurge, Option.bind_some,
              Option.getD_some, decide_true, Bool.true_and, decide_eq_true_eq]
          rw [hex]
          constructor
          · split
            · rfl
            · rename_i hnc
              simp only [decide_eq_true_eq]
              by_cases hst : wl.stype = .other
              · have hpa : wl.paused = false := by
                  cases hpp : wl.paused with
                  | false => rfl
                  | true => exact absurd ⟨rfl, hpp, hst⟩ hnc
                have hb : exposureBG .cloneSet wl = min (max 0 (exposure (wl.partition.getD (int 0)) R)) (max 0 R) := by
                  unfold exposureBG
                  simp [hR, hpa, held, hst]
                rw [hb]
                simp only [hst, ne_eq, not_true_eq_false, if_false]
                omega
              · simp only [ne_eq, hst, not_false_eq_true, if_true]
                omega
          · split
            · rename_i hp
              simp only [prepared, decide_eq_true_eq] at hp
              simp only [decide_eq_true_eq, hp, Option.getD_some]
              have := exposure_pct100 R
              have : 0 ≤ (if wl.stype ≠ .other then clampSurge (int 1) R else max 0 R) := by
                split <;> omega
              omega
            · rfl


/-! ### C01 over histories -/







theorem exposureBG_status (kind : Kind) (wl : Workload) (st : Status) :
    exposureBG kind { wl with status := st } = exposureBG kind wl := by
  cases kind <;> rfl

theorem expInv_step (kind : Kind) (B : Int) (hB : 1 ≤ B) (w w' : World) (e : Ev)
    (hi : expInv kind B w = true) (hp : progressEv B w e = true) (he : applyEv kind w e = some w') :
    expInv kind B w' = true := by
  cases e with
  | status st =>
    simp only [applyEv, Option.some.injEq] at he
    subst he
    unfold expInv at hi ⊢
    cases hw : w.wl with
    | none => rfl
    | some wl =>
      rw [hw] at hi
      simp only [Option.map_some, exposureBG_status]
      exact hi
  | scale r => simp [progressEv] at hp
  | call op br f =>
    simp only [applyEv] at he
    split at he
    · rename_i out hc
      simp only [Option.some.injEq] at he
      subst he
      cases hw : w.wl with
      | none =>
        -- nothing to patch: the workload stays absent
        have : out.world.wl = none := by
          cases op with
          | init =>
            rcases initialize_wl kind w br f out hc with ⟨h1, _⟩ | ⟨wl, _, h1, _⟩
            · rw [h1, hw]
            · rw [hw] at h1; cases h1
          | upgrade =>
            rcases upgrade_world kind w br f out hc with ⟨h1, _⟩ | ⟨wl, _, _, h1, _⟩
            · rw [h1, hw]
            · rw [hw] at h1; cases h1
          | fin => simp [progressEv] at hp
        simp only [expInv, this]
      | some wl =>
        unfold expInv at hi
        rw [hw] at hi
        simp only [Bool.and_eq_true, Bool.or_eq_true, decide_eq_true_eq, Bool.not_eq_true', decide_eq_false_iff_not,
          bne_iff_ne, ne_eq] at hi
        obtain ⟨⟨hexp, hhold⟩, hcs⟩ := hi
        cases op with
        | fin => simp [progressEv] at hp
        | init =>
          have hie := init_exposure kind w br f out hc
          unfold initExposure at hie
          rw [hw] at hie
          simp only [Bool.and_eq_true] at hie
          have hnotex : ¬ (kind = .cloneSet ∧ wl.paused = true ∧ wl.stype = .other) := by
            intro ⟨hk, _, hst⟩
            rcases hcs with h | h
            · exact h hk
            · exact h hst
          have hle := hie.1
          simp only [hnotex, if_false, decide_eq_true_eq] at hle
          rcases initialize_wl kind w br f out hc with ⟨h1, _⟩ | ⟨wl', s, h1, _, _, _, h2⟩
          · unfold expInv
            rw [h1, hw]
            simp only [Bool.and_eq_true, Bool.or_eq_true, decide_eq_true_eq, Bool.not_eq_true', decide_eq_false_iff_not,
              bne_iff_ne, ne_eq]
            exact ⟨⟨hexp, hhold⟩, hcs⟩
          · rw [hw] at h1; cases h1
            simp only [exposureW, h2] at hle
            unfold expInv
            rw [h2]
            simp only [Bool.and_eq_true, Bool.or_eq_true, decide_eq_true_eq, Bool.not_eq_true', decide_eq_false_iff_not,
              bne_iff_ne, ne_eq]
            refine ⟨⟨by omega, ?_⟩, ?_⟩
            · right; cases kind <;> rfl
            · cases kind
              · left; decide
              · rcases hcs with h | h
                · exact absurd rfl h
                · right; exact h
        | upgrade =>
          rcases upgrade_world kind w br f out hc with ⟨h1, _⟩ | ⟨wl', R, e, h1, hR, _, he, hv, _, _, _, h2⟩
          · unfold expInv
            rw [h1, hw]
            simp only [Bool.and_eq_true, Bool.or_eq_true, decide_eq_true_eq, Bool.not_eq_true', decide_eq_false_iff_not,
              bne_iff_ne, ne_eq]
            exact ⟨⟨hexp, hhold⟩, hcs⟩
          · rw [hw] at h1; cases h1
            have hws := upgrade_within_step kind w br f out hc
            unfold upgradeWithinStep at hws
            simp only [hw, hR] at hws
            simp only [progressEv, hw, hR, decide_eq_true_eq] at hp
            have hmr : wl.minReadySeconds = maxReady := by
              cases kind <;> simp only [validate, Bool.and_eq_true, decide_eq_true_eq] at hv
              · exact hv.1.2
              · exact hv.2
            have hun : ruUnavailable wl.ru = some (int 0) := by
              rcases hhold with h | h
              · exact absurd hmr h
              · exact h
            have hheld : kind = .cloneSet → held wl = true := by
              intro hk
              subst hk
              simp only [validate, Bool.and_eq_true, decide_eq_true_eq, ne_eq, decide_not, Bool.not_eq_true',
                decide_eq_false_iff_not] at hv
              simp [held, hmr, hun, hv.1.2]
            have hle : exposureW kind out.world ≤ max (exposureBG kind wl) (plannedOfBR br R) := by
              by_cases hk : kind = .cloneSet
              · simp only [hk, hheld hk, not_true_eq_false, and_false, if_false, decide_eq_true_eq] at hws
                rw [hk]; exact hws
              · simp only [hk, false_and, if_false, decide_eq_true_eq] at hws
                exact hws
            rw [h2] at hle
            simp only [exposureW] at hle
            unfold expInv
            rw [h2]
            simp only [Bool.and_eq_true, Bool.or_eq_true, decide_eq_true_eq, Bool.not_eq_true', decide_eq_false_iff_not,
              bne_iff_ne, ne_eq]
            refine ⟨⟨by omega, ?_⟩, ?_⟩
            · right
              cases kind
              · rfl
              · simp only [upgradePatch, ruUnavailable, Option.bind_some]; exact hun
            · cases kind
              · left; decide
              · rcases hcs with h | h
                · exact absurd rfl h
                · right; exact h
    · cases he

/-- **C01 (whole progressing phase)** — from any world in which the exposure is within a bound `B ≥ 1`, along every
    history of `Initialize` / `UpgradeBatch` calls (any order, any BatchRelease, any fault) and status changes in
    which every `UpgradeBatch` works on a batch that plans at most `B` pods: at every point the workload's own
    controller may run at most `B` pods of the new revision.  (`B` = what the current step of the Rollout plans;
    the executor invariant `currentBatch ≤ batchPartition` supplies the hypothesis on the batches.) -/
theorem exposure_within_plan (kind : Kind) (B : Int) (hB : 1 ≤ B) (evs : List Ev) (w w' : World)
    (hi : expInv kind B w = true) (hp : progressRun kind B w evs = true) (hr : run kind w evs = some w') :
    exposureW kind w' ≤ B := by
  have key : expInv kind B w' = true := by
    induction evs generalizing w with
    | nil => simp only [run, Option.some.injEq] at hr; subst hr; exact hi
    | cons e t ih =>
      unfold run at hr
      unfold progressRun at hp
      cases he : applyEv kind w e with
      | none => rw [he] at hr; cases hr
      | some w1 =>
        rw [he] at hr hp
        simp only [Bool.and_eq_true] at hp
        exact ih w1 (expInv_step kind B hB w w1 e hi hp.1 he) hp.2 hr
  unfold expInv at key
  unfold exposureW
  cases hw : w'.wl with
  | none => simp only []; omega
  | some wl =>
    rw [hw] at key
    simp only [Bool.and_eq_true, decide_eq_true_eq] at key
    exact key.1.1


/-! ## C06 — attempts converge -/

/-- the world after an undisturbed `DisableHPA` -/
def disabledW (w : World) : World :=
  match findHPA w noFault with
  | .val (some (v, 0)) => setHPA w v 1
  | _ => w

/-- the world after an undisturbed `RestoreHPA` -/
def enabledW (w : World) : World :=
  match findHPA w noFault with
  | .val (some (v, _ + 1)) => setHPA w v 0
  | _ => w

/-- the world after an undisturbed `patchStableRSMinReadySeconds` (Deployment control only) -/
def rsW (kind : Kind) (w : World) : World :=
  match kind with
  | .deployment => if hasStableRS w.rss then { w with rss := patchFirstRS w.rss } else w
  | .cloneSet => w

theorem disabledW_of_zero (w : World) (v : Ver) (h : findHPA w noFault = .val (some (v, 0))) :
    disabledW w = setHPA w v 1 := by
  unfold disabledW; simp only [h]

theorem disabledW_of_not (w : World) (h : ∀ v, findHPA w noFault ≠ .val (some (v, 0))) : disabledW w = w := by
  unfold disabledW
  split
  · rename_i v hf; exact absurd hf (h v)
  · rfl

theorem enabledW_of_succ (w : World) (v : Ver) (k : Nat) (h : findHPA w noFault = .val (some (v, k + 1))) :
    enabledW w = setHPA w v 0 := by
  unfold enabledW; simp only [h]

theorem enabledW_of_not (w : World) (h : ∀ v k, findHPA w noFault ≠ .val (some (v, k + 1))) : enabledW w = w := by
  unfold enabledW
  split
  · rename_i v k hf; exact absurd hf (h v k)
  · rfl

theorem disabledW_idem (w : World) : disabledW (disabledW w) = disabledW w := by
  by_cases h : ∃ v, findHPA w noFault = .val (some (v, 0))
  · obtain ⟨v, hf⟩ := h
    rw [disabledW_of_zero w v hf]
    apply disabledW_of_not
    intro v'
    rw [findHPA_setHPA w v 0 1 hf]
    simp
  · have h' : ∀ v, findHPA w noFault ≠ .val (some (v, 0)) := fun v hv => h ⟨v, hv⟩
    rw [disabledW_of_not w h', disabledW_of_not w h']

theorem enabledW_idem (w : World) : enabledW (enabledW w) = enabledW w := by
  by_cases h : ∃ v k, findHPA w noFault = .val (some (v, k + 1))
  · obtain ⟨v, k, hf⟩ := h
    rw [enabledW_of_succ w v k hf]
    apply enabledW_of_not
    intro v' k'
    rw [findHPA_setHPA w v (k + 1) 0 hf]
    simp
  · have h' : ∀ v k, findHPA w noFault ≠ .val (some (v, k + 1)) := fun v k hv => h ⟨v, k, hv⟩
    rw [enabledW_of_not w h', enabledW_of_not w h']

theorem disabledW_frame (w : World) : (disabledW w).wl = w.wl ∧ (disabledW w).rss = w.rss := by
  unfold disabledW
  split
  · exact ⟨setHPA_wl _ _ _, setHPA_rss _ _ _⟩
  · exact ⟨rfl, rfl⟩

theorem enabledW_frame (w : World) : (enabledW w).wl = w.wl ∧ (enabledW w).rss = w.rss := by
  unfold enabledW
  split
  · exact ⟨setHPA_wl _ _ _, setHPA_rss _ _ _⟩
  · exact ⟨rfl, rfl⟩

theorem setHPA_with_wl (w : World) (x : Option Workload) (v : Ver) (k : Nat) :
    setHPA { w with wl := x } v k = { setHPA w v k with wl := x } := by
  cases v <;> rfl

theorem setHPA_with_rss (w : World) (x : List RS) (v : Ver) (k : Nat) :
    setHPA { w with rss := x } v k = { setHPA w v k with rss := x } := by
  cases v <;> rfl

/-- the HPA steps commute with changes of the workload object and of the ReplicaSets -/
theorem disabledW_with_wl (w : World) (x : Option Workload) :
    disabledW { w with wl := x } = { disabledW w with wl := x } := by
  unfold disabledW
  rw [findHPA_wl_irrel]
  split
  · rw [setHPA_with_wl]
  · rfl

theorem enabledW_with_wl (w : World) (x : Option Workload) :
    enabledW { w with wl := x } = { enabledW w with wl := x } := by
  unfold enabledW
  rw [findHPA_wl_irrel]
  split
  · rw [setHPA_with_wl]
  · rfl

theorem disabledW_with_rss (w : World) (x : List RS) :
    disabledW { w with rss := x } = { disabledW w with rss := x } := by
  unfold disabledW
  have : findHPA { w with rss := x } noFault = findHPA w noFault := rfl
  rw [this]
  split
  · rw [setHPA_with_rss]
  · rfl

theorem patchFirstRS_idem (l : List RS) : patchFirstRS (patchFirstRS l) = patchFirstRS l := by
  induction l with
  | nil => rfl
  | cons a t ih =>
    cases hz : a.zero with
    | true =>
      have e1 : patchFirstRS (a :: t) = a :: patchFirstRS t := by simp only [patchFirstRS, hz, if_true]
      rw [e1]
      have e2 : patchFirstRS (a :: patchFirstRS t) = a :: patchFirstRS (patchFirstRS t) := by
        simp only [patchFirstRS, hz, if_true]
      rw [e2, ih]
    | false =>
      have e1 : patchFirstRS (a :: t) = { a with mrs := maxReady } :: t := by
        simp only [patchFirstRS, hz, Bool.false_eq_true, if_false]
      rw [e1]
      simp only [patchFirstRS, hz, Bool.false_eq_true, if_false]

theorem hasStableRS_patch (l : List RS) : hasStableRS (patchFirstRS l) = hasStableRS l := by
  induction l with
  | nil => rfl
  | cons a t ih =>
    cases hz : a.zero with
    | true =>
      have e1 : patchFirstRS (a :: t) = a :: patchFirstRS t := by simp only [patchFirstRS, hz, if_true]
      rw [e1]
      unfold hasStableRS at ih ⊢
      simp only [List.any_cons, hz, Bool.not_true, Bool.false_or, ih]
    | false =>
      have e1 : patchFirstRS (a :: t) = { a with mrs := maxReady } :: t := by
        simp only [patchFirstRS, hz, Bool.false_eq_true, if_false]
      rw [e1]
      unfold hasStableRS
      simp only [List.any_cons, hz, Bool.not_false, Bool.true_or]

theorem rsW_dep_of (w : World) (h : hasStableRS w.rss = true) :
    rsW .deployment w = { w with rss := patchFirstRS w.rss } := by
  simp only [rsW, h, if_true]

theorem rsW_dep_not (w : World) (h : hasStableRS w.rss = false) : rsW .deployment w = w := by
  simp only [rsW, h, Bool.false_eq_true, if_false]

theorem rsW_idem (kind : Kind) (w : World) : rsW kind (rsW kind w) = rsW kind w := by
  cases kind
  · cases h : hasStableRS w.rss with
    | true =>
      rw [rsW_dep_of w h]
      rw [rsW_dep_of _ (by simpa [hasStableRS_patch] using h)]
      simp only [patchFirstRS_idem]
    | false => rw [rsW_dep_not w h, rsW_dep_not w h]
  · rfl

theorem rsW_frame (kind : Kind) (w : World) :
    (rsW kind w).wl = w.wl ∧ (rsW kind w).hpaV2 = w.hpaV2 ∧ (rsW kind w).hpaV1 = w.hpaV1 := by
  cases kind
  · unfold rsW; simp only []; split <;> exact ⟨rfl, rfl, rfl⟩
  · exact ⟨rfl, rfl, rfl⟩

theorem rsW_disabledW (kind : Kind) (w : World) : rsW kind (disabledW w) = disabledW (rsW kind w) := by
  cases kind
  · have hrss : (disabledW w).rss = w.rss := (disabledW_frame w).2
    cases h : hasStableRS w.rss with
    | true =>
      have h' : hasStableRS (disabledW w).rss = true := by rw [hrss]; exact h
      rw [rsW_dep_of w h, rsW_dep_of (disabledW w) h', disabledW_with_rss w (patchFirstRS w.rss), hrss]
    | false =>
      have h' : hasStableRS (disabledW w).rss = false := by rw [hrss]; exact h
      rw [rsW_dep_not w h, rsW_dep_not (disabledW w) h']
  · rfl

/-- `DisableHPA` after the ReplicaSet step changes nothing more once it has run before it -/
theorem disabledW_rsW (kind : Kind) (w : World) : disabledW (rsW kind (disabledW w)) = rsW kind (disabledW w) := by
  rw [rsW_disabledW, disabledW_idem]

/-! ### the calls in terms of the pure steps -/

theorem disableHPA_pure (w : World) (f : Fault) (n : Nat) (w1 : World) (b : Bool) (n1 : Nat)
    (h : disableHPA w f n = (w1, b, n1)) :
    (w1 = w ∨ w1 = disabledW w) ∧ (b = true → w1 = disabledW w) := by
  rcases disableHPA_spec w f n w1 b n1 h with ⟨h1, _, hall⟩ | ⟨_, _, _, v, hf, h1⟩
  · refine ⟨Or.inl h1, ?_⟩
    intro hb
    rw [h1]
    symm
    obtain ⟨x, hx, hk⟩ := hall hb
    apply disabledW_of_not
    intro v hv
    rw [findHPA_val_noFault w f x hx] at hv
    simp only [Lk.val.injEq] at hv
    exact hk v 0 hv rfl
  · rw [h1, disabledW_of_zero w v (findHPA_val_noFault w f _ hf)]
    exact ⟨Or.inr rfl, fun _ => rfl⟩

theorem disableHPA_noFault_ok (w : World) (n : Nat) (w1 : World) (b : Bool) (n1 : Nat)
    (h : disableHPA w noFault n = (w1, b, n1)) : b = true := by
  unfold disableHPA at h
  obtain ⟨x, hx⟩ := findHPA_noFault_val w
  rw [hx] at h
  cases x with
  | none => simp only [Prod.mk.injEq] at h; exact h.2.1.symm
  | some p =>
    obtain ⟨v, k⟩ := p
    simp only [] at h
    split at h
    · simp only [Prod.mk.injEq] at h; exact h.2.1.symm
    · simp only [canWrite, noFault, if_true, Prod.mk.injEq] at h; exact h.2.1.symm

theorem stableRSStep_pure (kind : Kind) (w : World) (f : Fault) (n : Nat) (w2 : World) (b : Bool) (n2 : Nat)
    (h : stableRSStep kind w f n = (w2, b, n2)) :
    (w2 = w ∨ w2 = rsW kind w) ∧ (b = true → w2 = rsW kind w) := by
  cases kind
  · simp only [stableRSStep, patchStableRS] at h
    cases hs : hasStableRS w.rss with
    | true =>
      rw [hs] at h
      simp only [if_true] at h
      split at h
      · simp only [Prod.mk.injEq] at h
        rw [← h.1, rsW_dep_of w hs]
        exact ⟨Or.inr rfl, fun _ => rfl⟩
      · simp only [Prod.mk.injEq] at h
        refine ⟨Or.inl h.1.symm, ?_⟩
        intro hb; rw [hb] at h; exact absurd h.2.1 (by decide)
    | false =>
      rw [hs] at h
      simp only [Bool.false_eq_true, if_false, Prod.mk.injEq] at h
      rw [← h.1, rsW_dep_not w hs]
      exact ⟨Or.inl rfl, fun _ => rfl⟩
  · simp only [stableRSStep, Prod.mk.injEq] at h
    rw [← h.1]
    exact ⟨Or.inl rfl, fun _ => rfl⟩

theorem stableRSStep_noFault_ok (kind : Kind) (w : World) (n : Nat) (w2 : World) (b : Bool) (n2 : Nat)
    (h : stableRSStep kind w noFault n = (w2, b, n2)) : b = true := by
  cases kind
  · simp only [stableRSStep, patchStableRS, canWrite, noFault, if_true] at h
    split at h <;> simp only [Prod.mk.injEq] at h <;> exact h.2.1.symm
  · simp only [stableRSStep, Prod.mk.injEq] at h; exact h.2.1.symm

theorem finishHPA_pure (w : World) (f : Fault) (n : Nat) :
    ((finishHPA w f n).world = w ∨ (finishHPA w f n).world = enabledW w) ∧
    ((finishHPA w f n).res = .ok → (finishHPA w f n).world = enabledW w) ∧
    ((finishHPA w f n).res = .ok ∨ (finishHPA w f n).res = .err) := by
  rcases (finishHPA_spec w f n).2 with ⟨h1, _, hres, hall⟩ | ⟨_, hok, _, v, k, hk, hf, h1⟩
  · refine ⟨Or.inl h1, ?_, hres⟩
    intro hok
    rw [h1]
    symm
    obtain ⟨x, hx, hk⟩ := hall hok
    apply enabledW_of_not
    intro v k hv
    rw [findHPA_val_noFault w f x hx] at hv
    simp only [Lk.val.injEq] at hv
    have := hk v (k + 1) hv
    omega
  · have hf' := findHPA_val_noFault w f _ hf
    obtain ⟨k', rfl⟩ : ∃ k', k = k' + 1 := ⟨k - 1, by omega⟩
    rw [h1, enabledW_of_succ w v k' hf']
    exact ⟨Or.inr rfl, fun _ => rfl, Or.inl hok⟩

theorem finishHPA_noFault (w : World) (n : Nat) :
    (finishHPA w noFault n).world = enabledW w ∧ (finishHPA w noFault n).res = .ok :=
  ⟨(finishHPA_pure w noFault n).2.1 (finishHPA_noFault_ok w n), finishHPA_noFault_ok w n⟩

/-- the world `Initialize` aims at, before the patch of the workload itself -/
def initBase (kind : Kind) (w : World) : World := rsW kind (disabledW w)

theorem initBase_wl (kind : Kind) (w : World) : (initBase kind w).wl = w.wl := by
  unfold initBase
  rw [(rsW_frame kind _).1, (disabledW_frame w).1]

/-- the three worlds a cut-short `Initialize` can leave behind all lead to the same base -/
theorem initBase_stable (kind : Kind) (w X : World)
    (hX : X = w ∨ X = disabledW w ∨ X = initBase kind w) : initBase kind X = initBase kind w := by
  unfold initBase at hX ⊢
  rcases hX with h | h | h
  · rw [h]
  · rw [h, disabledW_idem]
  · rw [h, disabledW_rsW, rsW_idem]

/-- an `Initialize` that is cut short by a fault on a workload it does not control yet -/
theorem init_first (kind : Kind) (w : World) (br : BR) (f : Fault) (o1 : CallOut) (wl : Workload)
    (h : cpInitialize kind w br f = .val o1) (hw : w.wl = some wl) (hc : controlled br wl = false) :
    ((o1.world = w ∨ o1.world = disabledW w ∨ o1.world = initBase kind w) ∧ o1.res ≠ .ok) ∨
    (∃ s, getSetting wl.saved = some s ∧ o1.res = .ok ∧
      o1.world = { initBase kind w with wl := some (initPatch kind br (initSetting kind s wl) wl) }) := by
  rcases initialize_cases kind w br f o1 h with ⟨_, ho⟩ | ⟨_, hn, _⟩ | ⟨wl', R, _, hw', _, hcc⟩
  · subst ho; left; exact ⟨Or.inl rfl, by simp⟩
  · rw [hw] at hn; cases hn
  · rw [hw] at hw'; cases hw'
    rcases hcc with ⟨hc', _⟩ | ⟨_, w1, b1, n1, hd, hrest⟩
    · rw [hc] at hc'; cases hc'
    · have hD := disableHPA_pure w f 0 w1 b1 n1 hd
      rcases hrest with ⟨_, ho⟩ | ⟨hb1, w2, b2, n2, hs, hrest⟩
      · subst ho; left
        refine ⟨?_, by simp⟩
        rcases hD.1 with e | e
        · exact Or.inl e
        · exact Or.inr (Or.inl e)
      · have hw1 := hD.2 hb1
        have hS := stableRSStep_pure kind w1 f n1 w2 b2 n2 hs
        have hw2 : w2 = disabledW w ∨ w2 = initBase kind w := by
          rcases hS.1 with e | e
          · left; rw [e, hw1]
          · right; rw [e, hw1]; rfl
        rcases hrest with ⟨_, ho⟩ | ⟨hb2, hset⟩
        · subst ho; left; exact ⟨Or.inr hw2, by simp⟩
        · have hw2' : w2 = initBase kind w := by rw [hS.2 hb2, hw1]; rfl
          rcases hset with ⟨_, ho⟩ | ⟨s, hgs, hwr⟩
          · subst ho; left; exact ⟨Or.inr (Or.inr hw2'), by simp⟩
          · rcases hwr with ⟨_, ho⟩ | ⟨_, ho⟩
            · subst ho; right; exact ⟨s, hgs, rfl, by rw [hw2']⟩
            · subst ho; left; exact ⟨Or.inr (Or.inr hw2'), by simp⟩

/-- an undisturbed `Initialize` on a workload it does not control yet -/
theorem init_direct (kind : Kind) (w : World) (br : BR) (o : CallOut) (wl : Workload)
    (h : cpInitialize kind w br noFault = .val o) (hw : w.wl = some wl) (hc : controlled br wl = false) :
    (getSetting wl.saved = none ∧ o.res = .badRequest ∧ o.world = initBase kind w) ∨
    (∃ s, getSetting wl.saved = some s ∧ o.res = .ok ∧
      o.world = { initBase kind w with wl := some (initPatch kind br (initSetting kind s wl) wl) }) := by
  rcases initialize_cases kind w br noFault o h with ⟨hg, _⟩ | ⟨_, hn, _⟩ | ⟨wl', R, _, hw', _, hcc⟩
  · cases hg
  · rw [hw] at hn; cases hn
  · rw [hw] at hw'; cases hw'
    rcases hcc with ⟨hc', _⟩ | ⟨_, w1, b1, n1, hd, hrest⟩
    · rw [hc] at hc'; cases hc'
    · have hb1 := disableHPA_noFault_ok w 0 w1 b1 n1 hd
      have hw1 := (disableHPA_pure w noFault 0 w1 b1 n1 hd).2 hb1
      rcases hrest with ⟨hb, _⟩ | ⟨_, w2, b2, n2, hs, hrest⟩
      · rw [hb1] at hb; cases hb
      · have hb2 := stableRSStep_noFault_ok kind w1 n1 w2 b2 n2 hs
        have hw2 : w2 = initBase kind w := by rw [(stableRSStep_pure kind w1 noFault n1 w2 b2 n2 hs).2 hb2, hw1]; rfl
        rcases hrest with ⟨hb, _⟩ | ⟨_, hset⟩
        · rw [hb2] at hb; cases hb
        · rcases hset with ⟨hgs, ho⟩ | ⟨s, hgs, hwr⟩
          · subst ho; left; exact ⟨hgs, rfl, hw2⟩
          · rcases hwr with ⟨_, ho⟩ | ⟨hcw, _⟩
            · subst ho; right; exact ⟨s, hgs, rfl, by rw [hw2]⟩
            · cases hcw

theorem init_converges (kind : Kind) (w : World) (br : BR) (f : Fault) (o1 o2 o3 : CallOut)
    (h1 : cpInitialize kind w br f = .val o1) (h2 : cpInitialize kind o1.world br noFault = .val o2)
    (h3 : cpInitialize kind w br noFault = .val o3) :
    o2.world = o3.world ∧ o2.res = o3.res := by
  cases hw : w.wl with
  | none =>
    -- no workload: every attempt reports NotFound (or the Get fault) and changes nothing
    have e1 : o1.world = w := by
      rcases initialize_cases kind w br f o1 h1 with ⟨_, ho⟩ | ⟨_, _, ho⟩ | ⟨wl, _, _, hw', _⟩
      · subst ho; rfl
      · subst ho; rfl
      · rw [hw] at hw'; cases hw'
    rw [e1] at h2
    rw [h2] at h3
    cases h3
    exact ⟨rfl, rfl⟩
  | some wl =>
    by_cases hc : controlled br wl = true
    · -- already controlled: nothing happens in any attempt
      have e1 : o1.world = w := by
        rcases initialize_cases kind w br f o1 h1 with ⟨_, ho⟩ | ⟨_, _, ho⟩ | ⟨wl', _, _, hw', _, hcc⟩
        · subst ho; rfl
        · subst ho; rfl
        · rw [hw] at hw'; cases hw'
          rcases hcc with ⟨_, ho⟩ | ⟨hc', _⟩
          · subst ho; rfl
          · rw [hc] at hc'; cases hc'
      rw [e1] at h2
      rw [h2] at h3
      cases h3
      exact ⟨rfl, rfl⟩
    · have hc' : controlled br wl = false := by simpa using hc
      rcases init_first kind w br f o1 wl h1 hw hc' with ⟨hX, _⟩ | ⟨s, hgs, _, hw1⟩
      · have hwl1 : o1.world.wl = some wl := by
          rcases hX with e | e | e
          · rw [e]; exact hw
          · rw [e, (disabledW_frame w).1]; exact hw
          · rw [e, initBase_wl]; exact hw
        have hbase := initBase_stable kind w o1.world hX
        rcases init_direct kind o1.world br o2 wl h2 hwl1 hc' with ⟨hg2, hr2, hw2⟩ | ⟨s2, hg2, hr2, hw2⟩ <;>
          rcases init_direct kind w br o3 wl h3 hw hc' with ⟨hg3, hr3, hw3⟩ | ⟨s3, hg3, hr3, hw3⟩
        · exact ⟨by rw [hw2, hw3, hbase], by rw [hr2, hr3]⟩
        · rw [hg2] at hg3; cases hg3
        · rw [hg2] at hg3; cases hg3
        · rw [hg2] at hg3; cases hg3
          exact ⟨by rw [hw2, hw3, hbase], by rw [hr2, hr3]⟩
      · -- the first attempt completed: the second finds the workload controlled
        have hctl : controlled br (initPatch kind br (initSetting kind s wl) wl) = true := by
          cases kind <;> simp [controlled, initPatch]
        have e2 : o2.world = o1.world ∧ o2.res = .ok := by
          rcases initialize_cases kind o1.world br noFault o2 h2 with ⟨hg, _⟩ | ⟨_, hn, _⟩ | ⟨wl', _, _, hw', _, hcc⟩
          · cases hg
          · rw [hw1] at hn; cases hn
          · rw [hw1] at hw'
            simp only [Option.some.injEq] at hw'
            subst hw'
            rcases hcc with ⟨_, ho⟩ | ⟨hc2, _⟩
            · subst ho; exact ⟨rfl, rfl⟩
            · rw [hctl] at hc2; cases hc2
        rcases init_direct kind w br o3 wl h3 hw hc' with ⟨hg3, _, _⟩ | ⟨s3, hg3, hr3, hw3⟩
        · rw [hgs] at hg3; cases hg3
        · rw [hgs] at hg3; cases hg3
          exact ⟨by rw [e2.1, hw1, hw3], by rw [e2.2, hr3]⟩

theorem validate_upgradePatch (kind : Kind) (e : IntOrPct) (wl : Workload) (hv : validate kind wl = true) :
    validate kind (upgradePatch kind e wl) = true := by
  cases kind
  · simp only [validate, Bool.and_eq_true, decide_eq_true_eq, ne_eq, decide_not, Bool.not_eq_true',
      decide_eq_false_iff_not] at hv ⊢
    simp only [upgradePatch, Option.isSome_some, reduceCtorEq, not_false_eq_true, and_true]
    exact ⟨⟨hv.1.1.1.1, hv.1.2⟩, hv.2⟩
  · exact hv

theorem upgradePatch_idem (kind : Kind) (e : IntOrPct) (wl : Workload) :
    upgradePatch kind e (upgradePatch kind e wl) = upgradePatch kind e wl := by
  cases kind
  · rfl
  · simp [upgradePatch, ruUnavailable]

theorem upgradePatch_replicas (kind : Kind) (e : IntOrPct) (wl : Workload) :
    (upgradePatch kind e wl).replicas = wl.replicas := by
  cases kind <;> rfl

theorem upgrade_converges (kind : Kind) (w : World) (br : BR) (f : Fault) (o1 o2 o3 : CallOut)
    (h1 : cpUpgradeBatch kind w br f = .val o1) (h2 : cpUpgradeBatch kind o1.world br noFault = .val o2)
    (h3 : cpUpgradeBatch kind w br noFault = .val o3) :
    o2.world = o3.world ∧ o2.res = o3.res := by
  rcases upgrade_world kind w br f o1 h1 with ⟨e1, _⟩ | ⟨wl, R, e, hw, hR, hR0, he, hv, hlt, _, _, hw1⟩
  · rw [e1] at h2
    rw [h2] at h3
    cases h3
    exact ⟨rfl, rfl⟩
  · have hcw : canWrite noFault 0 = true := rfl
    -- the undisturbed call writes the same patch
    have e3 : o3.world = o1.world ∧ o3.res = .ok := by
      rcases upgrade_cases kind w br noFault o3 h3 with ⟨hg, _⟩ | ⟨_, hn, _⟩ | ⟨wl', R', _, hw', hR', hc⟩
      · cases hg
      · rw [hw] at hn; cases hn
      · rw [hw] at hw'; cases hw'
        rw [hR] at hR'; cases hR'
        rcases hc with ⟨h0, _⟩ | ⟨_, e', he', hc⟩
        · exact absurd h0 hR0
        · rw [he] at he'; cases he'
          rcases hc with ⟨hv', _⟩ | ⟨_, hge, _⟩ | ⟨_, _, _, ho⟩ | ⟨_, _, hcw', _⟩
          · rw [hv] at hv'; cases hv'
          · omega
          · subst ho; exact ⟨hw1.symm, rfl⟩
          · rw [hcw] at hcw'; cases hcw'
    have e2 : o2.world = o1.world ∧ o2.res = .ok := by
      rcases upgrade_cases kind o1.world br noFault o2 h2 with ⟨hg, _⟩ | ⟨_, hn, _⟩ | ⟨wl', R', _, hw', hR', hc⟩
      · cases hg
      · rw [hw1] at hn; cases hn
      · rw [hw1] at hw'
        simp only [Option.some.injEq] at hw'
        subst hw'
        rw [upgradePatch_replicas, hR] at hR'; cases hR'
        rcases hc with ⟨h0, _⟩ | ⟨_, e', he', hc⟩
        · exact absurd h0 hR0
        · rw [he] at he'; cases he'
          rcases hc with ⟨hv', _⟩ | ⟨_, _, ho⟩ | ⟨_, _, _, ho⟩ | ⟨_, _, hcw', _⟩
          · rw [validate_upgradePatch kind e wl hv] at hv'; cases hv'
          · subst ho; exact ⟨rfl, rfl⟩
          · subst ho
            refine ⟨?_, rfl⟩
            rw [hw1]
            simp only [upgradePatch_idem]
          · rw [hcw] at hcw'; cases hcw'
    exact ⟨by rw [e2.1, e3.1], by rw [e2.2, e3.2]⟩


/-! ### `Finalize` in terms of the pure steps -/

theorem with_wl_id (W : World) (a : Workload) (h : W.wl = some a) : { W with wl := some a } = W := by
  cases W; simp_all

theorem forget_id (W : World) (a : Workload) (h : W.wl = some a) (hs : a.saved = .none) : forget W = W := by
  cases W; cases a; simp_all [forget]

theorem forget_idem (W : World) : forget (forget W) = forget W := by
  cases W with
  | mk wl rss v2 v1 => cases wl <;> simp [forget]

theorem enabledW_forget (W : World) : enabledW (forget W) = forget (enabledW W) := by
  have h1 : forget W = { W with wl := (forget W).wl } := rfl
  rw [h1, enabledW_with_wl]
  have h2 : (enabledW W).wl = W.wl := (enabledW_frame W).1
  cases hW : enabledW W with
  | mk wl rss v2 v1 =>
    rw [hW] at h2
    simp only at h2
    subst h2
    rfl

theorem finalizePatch_idem (kind : Kind) (s : Setting) (wl : Workload) :
    finalizePatch kind s (finalizePatch kind s wl) = finalizePatch kind s wl := by
  cases kind <;> rfl

/-- an undisturbed `Finalize` that is meant to release an existing workload -/
theorem finalize_direct (kind : Kind) (X : World) (br : BR) (o : CallOut) (wl : Workload)
    (h : cpFinalize kind X br noFault = .val o) (hw : X.wl = some wl) (hp : br.partitioned = false) :
    (restored wl = true ∧
      ((waitStep kind wl emptyDeployment = .val false ∧ o.world = X ∧ o.res = .retry) ∨
       (waitStep kind wl emptyDeployment = .val true ∧ o.world = enabledW X ∧ o.res = .ok))) ∨
    (restored wl = false ∧
      ((getSetting wl.saved = none ∧ o.world = X ∧ o.res = .err) ∨
       (∃ s, getSetting wl.saved = some s ∧
         ((waitStep kind wl (finalizePatch kind s wl) = .val false ∧
             o.world = { X with wl := some (finalizePatch kind s wl) } ∧ o.res = .retry) ∨
          (waitStep kind wl (finalizePatch kind s wl) = .val true ∧
             o.world = forget (enabledW { X with wl := some (finalizePatch kind s wl) }) ∧ o.res = .ok))))) := by
  rcases finalize_cases kind X br noFault o h with ⟨hg, _⟩ | ⟨_, hn, _⟩ | ⟨wl', R, _, hw', _, hc⟩
  · cases hg
  · rw [hw] at hn; cases hn
  · rw [hw] at hw'; cases hw'
    rcases hc with ⟨hp', _⟩ | ⟨_, hc⟩
    · rw [hp] at hp'; cases hp'
    · rcases hc with ⟨hr, hfw⟩ | ⟨hr, hc⟩
      · left
        refine ⟨hr, ?_⟩
        rcases hfw with ⟨hwt, ho⟩ | ⟨hwt, hfin⟩
        · subst ho; left; exact ⟨hwt, rfl, rfl⟩
        · right; rw [hfin]; exact ⟨hwt, finishHPA_noFault _ _⟩
      · right
        refine ⟨hr, ?_⟩
        rcases hc with ⟨hgs, ho⟩ | ⟨s, hgs, hc⟩
        · subst ho; left; exact ⟨hgs, rfl, rfl⟩
        · right
          refine ⟨s, hgs, ?_⟩
          rcases hc with ⟨hcw, _⟩ | ⟨_, oo, hfw, ho⟩
          · cases hcw
          · subst ho
            rcases hfw with ⟨hwt, ho⟩ | ⟨hwt, hfin⟩
            · subst ho
              left
              refine ⟨hwt, ?_, ?_⟩ <;> cases kind <;> rfl
            · right
              refine ⟨hwt, ?_⟩
              have hfn := finishHPA_noFault { X with wl := some (finalizePatch kind s wl) } 1
              rw [← hfin] at hfn
              have hc2 : ∀ n, canWrite noFault n = true := fun _ => rfl
              cases kind
              · simp only [finishForget, hfn.2, if_true, hc2, hfn.1, and_self]
              · simp only [finishForget]
                refine ⟨?_, hfn.2⟩
                rw [hfn.1]
                symm
                apply forget_id _ (finalizePatch .cloneSet s wl)
                · rw [(enabledW_frame _).1]
                · rfl

/-- the worlds a `Finalize` under faults can leave behind -/
theorem finalize_first (kind : Kind) (w : World) (br : BR) (f : Fault) (o1 : CallOut) (wl : Workload)
    (h : cpFinalize kind w br f = .val o1) (hw : w.wl = some wl) :
    o1.world = w ∨
    (restored wl = true ∧ br.partitioned = false ∧ waitStep kind wl emptyDeployment = .val true ∧ o1.world = enabledW w) ∨
    (restored wl = false ∧ br.partitioned = false ∧ ∃ s, getSetting wl.saved = some s ∧
      (o1.world = { w with wl := some (finalizePatch kind s wl) } ∨
       (waitStep kind wl (finalizePatch kind s wl) = .val true ∧
          (o1.world = enabledW { w with wl := some (finalizePatch kind s wl) } ∨
           o1.world = forget (enabledW { w with wl := some (finalizePatch kind s wl) }))))) := by
  rcases finalize_cases kind w br f o1 h with ⟨_, ho⟩ | ⟨_, _, ho⟩ | ⟨wl', R, _, hw', _, hc⟩
  · subst ho; left; rfl
  · subst ho; left; rfl
  · rw [hw] at hw'; cases hw'
    rcases hc with ⟨_, ho⟩ | ⟨hp, hc⟩
    · subst ho; left; rfl
    · rcases hc with ⟨hr, hfw⟩ | ⟨hr, hc⟩
      · rcases hfw with ⟨_, ho⟩ | ⟨hwt, hfin⟩
        · subst ho; left; rfl
        · rcases (finishHPA_pure w f 0).1 with e | e
          · left; rw [hfin]; exact e
          · right; left; rw [hfin]; exact ⟨hr, hp, hwt, e⟩
      · rcases hc with ⟨_, ho⟩ | ⟨s, hgs, hc⟩
        · subst ho; left; rfl
        · rcases hc with ⟨_, ho⟩ | ⟨_, oo, hfw, ho⟩
          · subst ho; left; rfl
          · right; right
            refine ⟨hr, hp, s, hgs, ?_⟩
            subst ho
            rcases hfw with ⟨_, ho⟩ | ⟨hwt, hfin⟩
            · subst ho
              left
              cases kind <;> rfl
            · have hpure := finishHPA_pure { w with wl := some (finalizePatch kind s wl) } f 1
              rw [← hfin] at hpure
              rcases finishForget_spec kind f oo with e | ⟨_, hok, _, e⟩ | ⟨_, hok, _, e⟩
              · rw [e]
                rcases hpure.1 with e1 | e1
                · left; exact e1
                · right; exact ⟨hwt, Or.inl e1⟩
              · rw [e]
                right
                refine ⟨hwt, Or.inr ?_⟩
                simp only []
                rw [hpure.2.1 hok]
              · rw [e]
                right
                refine ⟨hwt, Or.inl ?_⟩
                simp only []
                exact hpure.2.1 hok

theorem restored_forgetWl (a : Workload) : restored (forgetWl a) = true := by
  simp [restored, forgetWl]

theorem finalize_converges (kind : Kind) (w : World) (br : BR) (f : Fault) (o1 o2 o3 : CallOut)
    (h1 : cpFinalize kind w br f = .val o1) (h2 : cpFinalize kind o1.world br noFault = .val o2)
    (h3 : cpFinalize kind w br noFault = .val o3) :
    o2.world = o3.world ∧ o2.res = o3.res := by
  have same : o1.world = w → o2.world = o3.world ∧ o2.res = o3.res := by
    intro e
    rw [e] at h2
    rw [h2] at h3
    cases h3
    exact ⟨rfl, rfl⟩
  cases hw : w.wl with
  | none =>
    apply same
    rcases finalize_cases kind w br f o1 h1 with ⟨_, ho⟩ | ⟨_, _, ho⟩ | ⟨wl, _, _, hw', _⟩
    · subst ho; rfl
    · subst ho; rfl
    · rw [hw] at hw'; cases hw'
  | some wl =>
    rcases finalize_first kind w br f o1 wl h1 hw with e | ⟨hr, hp, hwt, e⟩ | ⟨hr, hp, s, hgs, hcase⟩
    · exact same e
    · -- restored path completed: the second attempt repeats it on the enabled world
      have hwl1 : o1.world.wl = some wl := by rw [e, (enabledW_frame w).1]; exact hw
      rcases finalize_direct kind o1.world br o2 wl h2 hwl1 hp with ⟨_, hc2⟩ | ⟨hr2, _⟩
      · rcases finalize_direct kind w br o3 wl h3 hw hp with ⟨_, hc3⟩ | ⟨hr3, _⟩
        · rcases hc2 with ⟨hw2, _⟩ | ⟨_, ew2, er2⟩
          · rw [hwt] at hw2; cases hw2
          · rcases hc3 with ⟨hw3, _⟩ | ⟨_, ew3, er3⟩
            · rw [hwt] at hw3; cases hw3
            · exact ⟨by rw [ew2, ew3, e, enabledW_idem], by rw [er2, er3]⟩
        · rw [hr] at hr3; cases hr3
      · rw [hr] at hr2; cases hr2
    · -- a restoring patch was made
      -- what the undisturbed call does
      rcases finalize_direct kind w br o3 wl h3 hw hp with ⟨hr3, _⟩ | ⟨_, hc3⟩
      · rw [hr] at hr3; cases hr3
      · rcases hc3 with ⟨hg3, _⟩ | ⟨s3, hg3, hc3⟩
        · rw [hgs] at hg3; cases hg3
        · rw [hgs] at hg3; cases hg3
          -- abbreviations are avoided on purpose: `wl'` is `finalizePatch kind s wl`, `X1` the world with it
          have hX1wl : ({ w with wl := some (finalizePatch kind s wl) } : World).wl = some (finalizePatch kind s wl) := rfl
          have hEwl : (enabledW { w with wl := some (finalizePatch kind s wl) }).wl = some (finalizePatch kind s wl) := by
            rw [(enabledW_frame _).1]
          have hFwl : (forget (enabledW { w with wl := some (finalizePatch kind s wl) })).wl =
              some (forgetWl (finalizePatch kind s wl)) := forget_wl _ _ hEwl
          -- the third possibility first: everything was done
          have caseC : waitStep kind wl (finalizePatch kind s wl) = .val true →
              o1.world = forget (enabledW { w with wl := some (finalizePatch kind s wl) }) →
              o2.world = o3.world ∧ o2.res = o3.res := by
            intro hwt e
            have hwl1 : o1.world.wl = some (forgetWl (finalizePatch kind s wl)) := by rw [e]; exact hFwl
            have hwt2 : waitStep kind (forgetWl (finalizePatch kind s wl)) emptyDeployment = .val true := by
              cases kind
              · rfl
              · exact hwt
            rcases finalize_direct kind o1.world br o2 _ h2 hwl1 hp with ⟨_, hc2⟩ | ⟨hr2, _⟩
            · rcases hc2 with ⟨hw2, _⟩ | ⟨_, ew2, er2⟩
              · rw [hwt2] at hw2; cases hw2
              · rcases hc3 with ⟨hw3, _⟩ | ⟨_, ew3, er3⟩
                · rw [hwt] at hw3; cases hw3
                · exact ⟨by rw [ew2, ew3, e, enabledW_forget, enabledW_idem], by rw [er2, er3]⟩
            · rw [restored_forgetWl] at hr2; cases hr2
          cases kind with
          | deployment =>
            -- the Deployment still carries the saved annotation: the second attempt patches again
            have hres : restored (finalizePatch .deployment s wl) = false := hr
            have hgs' : getSetting (finalizePatch .deployment s wl).saved = some s := hgs
            have second : o1.world.wl = some (finalizePatch .deployment s wl) →
                { o1.world with wl := some (finalizePatch .deployment s wl) } = o1.world →
                enabledW o1.world = enabledW { w with wl := some (finalizePatch .deployment s wl) } →
                (waitStep .deployment wl (finalizePatch .deployment s wl) = .val false →
                  o1.world = { w with wl := some (finalizePatch .deployment s wl) }) →
                o2.world = o3.world ∧ o2.res = o3.res := by
              intro hwl1 hid hen hfalse
              rcases finalize_direct .deployment o1.world br o2 _ h2 hwl1 hp with ⟨hr2, _⟩ | ⟨_, hc2⟩
              · rw [hres] at hr2; cases hr2
              · rcases hc2 with ⟨hg2, _⟩ | ⟨s2, hg2, hc2⟩
                · rw [hgs'] at hg2; cases hg2
                · rw [hgs'] at hg2; cases hg2
                  rw [finalizePatch_idem, hid] at hc2
                  have hwsame : waitStep .deployment (finalizePatch .deployment s wl) (finalizePatch .deployment s wl) =
                      waitStep .deployment wl (finalizePatch .deployment s wl) := rfl
                  rw [hwsame] at hc2
                  rcases hc2 with ⟨hw2, ew2, er2⟩ | ⟨hw2, ew2, er2⟩ <;>
                    rcases hc3 with ⟨hw3, ew3, er3⟩ | ⟨hw3, ew3, er3⟩
                  · exact ⟨by rw [ew2, ew3, hfalse hw2], by rw [er2, er3]⟩
                  · rw [hw2] at hw3; cases hw3
                  · rw [hw2] at hw3; cases hw3
                  · exact ⟨by rw [ew2, ew3, hen], by rw [er2, er3]⟩
            rcases hcase with e | ⟨hwt, e | e⟩
            · exact second (by rw [e]) (by rw [e]) (by rw [e]) (fun _ => e)
            · refine second (by rw [e]; exact hEwl) (by rw [e]; exact with_wl_id _ _ hEwl) (by rw [e, enabledW_idem]) ?_
              intro hf; rw [hwt] at hf; cases hf
            · exact caseC hwt e
          | cloneSet =>
            -- the CloneSet has lost the annotation with the first patch: the second attempt only waits and restores the HPA
            have hres : restored (finalizePatch .cloneSet s wl) = true := by simp [restored, finalizePatch]
            have hfid : forget (enabledW { w with wl := some (finalizePatch .cloneSet s wl) }) =
                enabledW { w with wl := some (finalizePatch .cloneSet s wl) } :=
              forget_id _ _ hEwl rfl
            have second : o1.world.wl = some (finalizePatch .cloneSet s wl) →
                enabledW o1.world = enabledW { w with wl := some (finalizePatch .cloneSet s wl) } →
                (waitStep .cloneSet wl (finalizePatch .cloneSet s wl) = .val false →
                  o1.world = { w with wl := some (finalizePatch .cloneSet s wl) }) →
                o2.world = o3.world ∧ o2.res = o3.res := by
              intro hwl1 hen hfalse
              have hwsame : waitStep .cloneSet (finalizePatch .cloneSet s wl) emptyDeployment =
                  waitStep .cloneSet wl (finalizePatch .cloneSet s wl) := rfl
              rcases finalize_direct .cloneSet o1.world br o2 _ h2 hwl1 hp with ⟨_, hc2⟩ | ⟨hr2, _⟩
              · rw [hwsame] at hc2
                rcases hc2 with ⟨hw2, ew2, er2⟩ | ⟨hw2, ew2, er2⟩ <;>
                  rcases hc3 with ⟨hw3, ew3, er3⟩ | ⟨hw3, ew3, er3⟩
                · exact ⟨by rw [ew2, ew3, hfalse hw2], by rw [er2, er3]⟩
                · rw [hw2] at hw3; cases hw3
                · rw [hw2] at hw3; cases hw3
                · exact ⟨by rw [ew2, ew3, hen, hfid], by rw [er2, er3]⟩
              · rw [hres] at hr2; cases hr2
            rcases hcase with e | ⟨hwt, e | e⟩
            · exact second (by rw [e]) (by rw [e]) (fun _ => e)
            · refine second (by rw [e]; exact hEwl) (by rw [e, enabledW_idem]) ?_
              intro hf; rw [hwt] at hf; cases hf
            · exact caseC hwt e

theorem retry_converges (kind : Kind) (op : Op) (w : World) (br : BR) (f : Fault) (o1 o2 o3 : CallOut)
    (h1 : call kind op w br f = .val o1) (h2 : call kind op o1.world br noFault = .val o2)
    (h3 : call kind op w br noFault = .val o3) :
    retryConverges o2 o3 = true := by
  unfold retryConverges
  simp only [Bool.and_eq_true, decide_eq_true_eq]
  cases op with
  | init => exact init_converges kind w br f o1 o2 o3 h1 h2 h3
  | upgrade => exact upgrade_converges kind w br f o1 o2 o3 h1 h2 h3
  | fin => exact finalize_converges kind w br f o1 o2 o3 h1 h2 h3

theorem findHPA_enabledW (w : World) (v : Ver) (k : Nat) (h : findHPA (enabledW w) noFault = .val (some (v, k))) :
    k = 0 := by
  by_cases hs : ∃ v' k', findHPA w noFault = .val (some (v', k' + 1))
  · obtain ⟨v', k', hf⟩ := hs
    rw [enabledW_of_succ w v' k' hf, findHPA_setHPA w v' (k' + 1) 0 hf] at h
    simp only [Lk.val.injEq, Option.some.injEq, Prod.mk.injEq] at h
    exact h.2.symm
  · have hs' : ∀ v' k', findHPA w noFault ≠ .val (some (v', k' + 1)) := fun v' k' hv => hs ⟨v', k', hv⟩
    rw [enabledW_of_not w hs'] at h
    cases k with
    | zero => rfl
    | succ k' => exact absurd h (hs' v k')

theorem init_controlled_writes (kind : Kind) (X : World) (br : BR) (f : Fault) (o : CallOut) (wl : Workload)
    (h : cpInitialize kind X br f = .val o) (hw : X.wl = some wl) (hc : controlled br wl = true) : o.writes = 0 := by
  rcases initialize_cases kind X br f o h with ⟨_, ho⟩ | ⟨_, _, ho⟩ | ⟨wl', _, _, hw', _, hcc⟩
  · subst ho; rfl
  · subst ho; rfl
  · rw [hw] at hw'; cases hw'
    rcases hcc with ⟨_, ho⟩ | ⟨hc', _⟩
    · subst ho; rfl
    · rw [hc] at hc'; cases hc'

theorem curSurge_upgradePatch (kind : Kind) (e : IntOrPct) (wl : Workload) :
    curSurge (upgradePatch kind e wl) = RV.BatchCtx.normSurge e := by
  cases kind <;> simp [curSurge, upgradePatch, ruSurge]

theorem idempotent_calls (kind : Kind) (op : Op) (w : World) (br : BR) (o3 o4 : CallOut)
    (h3 : call kind op w br noFault = .val o3) (h4 : call kind op o3.world br noFault = .val o4) :
    idempotent op br o3 o4 = true := by
  have hconv := retry_converges kind op w br noFault o3 o4 o3 h3 h4 h3
  unfold retryConverges at hconv
  simp only [Bool.and_eq_true, decide_eq_true_eq] at hconv
  unfold idempotent
  simp only [Bool.and_eq_true, Bool.or_eq_true, decide_eq_true_eq, ne_eq, decide_not, Bool.not_eq_true',
    decide_eq_false_iff_not]
  refine ⟨hconv, ?_⟩
  by_cases hok : o3.res = .ok
  · cases op with
    | init =>
      left; right
      rcases initialize_wl kind w br noFault o3 h3 with ⟨hwl, hc⟩ | ⟨wl, s, _, _, _, _, hwl⟩
      · obtain ⟨wl, hw, hcc⟩ := hc hok
        exact init_controlled_writes kind o3.world br noFault o4 wl h4 (hwl.trans hw) hcc
      · exact init_controlled_writes kind o3.world br noFault o4 _ h4 hwl (by cases kind <;> simp [controlled, initPatch])
    | upgrade =>
      rcases upgrade_world kind w br noFault o3 h3 with ⟨e1, hw0⟩ | ⟨wl, R, e, hw, hR, hR0, he, hv, hlt, _, _, hw1⟩
      · left; right
        rw [e1] at h4
        rw [h3] at h4
        cases h4
        exact hw0
      · rcases upgrade_cases kind o3.world br noFault o4 h4 with ⟨_, ho⟩ | ⟨_, _, ho⟩ | ⟨wl', R', _, hw', hR', hc⟩
        · subst ho; left; right; rfl
        · subst ho; left; right; rfl
        · rcases hc with ⟨_, ho⟩ | ⟨_, e', he', hc⟩
          · subst ho; left; right; rfl
          · rcases hc with ⟨_, ho⟩ | ⟨_, _, ho⟩ | ⟨_, hlt', _, ho⟩ | ⟨_, _, _, ho⟩
            · subst ho; left; right; rfl
            · subst ho; left; right; rfl
            · -- a second write happens only for the batch `1` (read back as "initial value")
              right
              rw [hw1] at hw'
              simp only [Option.some.injEq] at hw'
              subst hw'
              rw [he] at he'; cases he'
              rw [curSurge_upgradePatch] at hlt'
              refine ⟨rfl, ?_⟩
              rw [he]
              unfold RV.BatchCtx.normSurge at hlt'
              split at hlt'
              · rename_i h1; rw [h1]
              · omega
            · subst ho; left; right; rfl
    | fin =>
      left; right
      have fin0 : ∀ X : World, (∀ v k, findHPA X noFault = .val (some (v, k)) → k = 0) →
          (finishHPA X noFault 0).writes = 0 := by
        intro X hall
        rcases (finishHPA_spec X noFault 0).2 with ⟨_, e, _⟩ | ⟨_, _, _, v, k, hk, hfk, _⟩
        · exact e
        · exact absurd (hall v k hfk) hk
      -- the world the successful call left: restored workload, HPA enabled
      have hshape : (∀ wl4, o3.world.wl = some wl4 → br.partitioned = false → restored wl4 = true) ∧
          (br.partitioned = false → (∃ wl, w.wl = some wl) → ∀ v k, findHPA o3.world noFault = .val (some (v, k)) → k = 0) := by
        cases hw : w.wl with
        | none =>
          refine ⟨?_, ?_⟩
          · intro wl4 h4' _
            have : o3.world = w := by
              rcases finalize_cases kind w br noFault o3 h3 with ⟨_, ho⟩ | ⟨_, _, ho⟩ | ⟨wl, _, _, hw', _⟩
              · subst ho; rfl
              · subst ho; rfl
              · rw [hw] at hw'; cases hw'
            rw [this, hw] at h4'; cases h4'
          · intro _ ⟨wl, hwl⟩; cases hwl
        | some wl =>
          refine ⟨?_, ?_⟩
          · intro wl4 h4' hp
            rcases finalize_direct kind w br o3 wl h3 hw hp with ⟨hr, hc⟩ | ⟨_, hc⟩
            · rcases hc with ⟨_, _, er⟩ | ⟨_, ew, _⟩
              · rw [hok] at er; cases er
              · rw [ew, (enabledW_frame w).1, hw] at h4'; cases h4'; exact hr
            · rcases hc with ⟨_, _, er⟩ | ⟨s, _, hc⟩
              · rw [hok] at er; cases er
              · rcases hc with ⟨_, _, er⟩ | ⟨_, ew, _⟩
                · rw [hok] at er; cases er
                · rw [ew, forget_wl _ _ (by rw [(enabledW_frame _).1])] at h4'
                  simp only [Option.some.injEq] at h4'
                  rw [← h4']; exact restored_forgetWl _
          · intro hp _ v k hf
            rcases finalize_direct kind w br o3 wl h3 hw hp with ⟨_, hc⟩ | ⟨_, hc⟩
            · rcases hc with ⟨_, _, er⟩ | ⟨_, ew, _⟩
              · rw [hok] at er; cases er
              · rw [ew] at hf; exact findHPA_enabledW _ v k hf
            · rcases hc with ⟨_, _, er⟩ | ⟨s, _, hc⟩
              · rw [hok] at er; cases er
              · rcases hc with ⟨_, _, er⟩ | ⟨_, ew, _⟩
                · rw [hok] at er; cases er
                · rw [ew, findHPA_congr _ _ noFault (forget_hpa _).1 (forget_hpa _).2.1] at hf
                  exact findHPA_enabledW _ v k hf
      rcases finalize_cases kind o3.world br noFault o4 h4 with ⟨_, ho⟩ | ⟨_, _, ho⟩ | ⟨wl4, _, _, hw4, _, hc⟩
      · subst ho; rfl
      · subst ho; rfl
      · rcases hc with ⟨_, ho⟩ | ⟨hp, hc⟩
        · subst ho; rfl
        · have hex : ∃ wl, w.wl = some wl := by
            cases hw : w.wl with
            | some wl => exact ⟨wl, rfl⟩
            | none =>
              exfalso
              have : o3.world = w := by
                rcases finalize_cases kind w br noFault o3 h3 with ⟨_, ho⟩ | ⟨_, _, ho⟩ | ⟨wl, _, _, hw', _⟩
                · subst ho; rfl
                · subst ho; rfl
                · rw [hw] at hw'; cases hw'
              rw [this, hw] at hw4; cases hw4
          rcases hc with ⟨_, hfw⟩ | ⟨hr, _⟩
          · rcases hfw with ⟨_, ho⟩ | ⟨_, hfin⟩
            · subst ho; rfl
            · rw [hfin]; exact fin0 o3.world (hshape.2 hp hex)
          · rw [hshape.1 wl4 hw4 hp] at hr; cases hr
  · left; left; exact hok


theorem init_installs_hold (kind : Kind) (w : World) (br : BR) (f : Fault) (out : CallOut)
    (h : cpInitialize kind w br f = .val out) : initInstallsHold w br out = true := by
  unfold initInstallsHold
  rcases initialize_wl kind w br f out h with ⟨hw, hok⟩ | ⟨wl, s, hw, hctl, _, _, hw'⟩
  · rw [hw]
    cases hwl : w.wl with
    | none => rfl
    | some wl =>
      simp only []
      split
      · rename_i hc
        obtain ⟨wl', hw2, hc2⟩ := hok hc.2
        rw [hwl] at hw2; cases hw2
        exact absurd hc2 hc.1
      · rfl
  · rw [hw, hw']
    simp only []
    split
    · cases kind <;> simp [initPatch, ruUnavailable, curSurge, ruSurge, RV.BatchCtx.normSurge, controlled]
    · rfl

theorem findHPA_disabledW (w : World) (v : Ver) (k : Nat) (h : findHPA (disabledW w) noFault = .val (some (v, k))) :
    k ≠ 0 := by
  by_cases hs : ∃ v', findHPA w noFault = .val (some (v', 0))
  · obtain ⟨v', hf⟩ := hs
    rw [disabledW_of_zero w v' hf, findHPA_setHPA w v' 0 1 hf] at h
    simp only [Lk.val.injEq, Option.some.injEq, Prod.mk.injEq] at h
    omega
  · have hs' : ∀ v', findHPA w noFault ≠ .val (some (v', 0)) := fun v' hv => hs ⟨v', hv⟩
    rw [disabledW_of_not w hs'] at h
    intro hk
    subst hk
    exact hs' v h

theorem hpaDisabled_congr (w w' : World) (h2 : w'.hpaV2 = w.hpaV2) (h1 : w'.hpaV1 = w.hpaV1) :
    hpaDisabled w' = hpaDisabled w := by
  unfold hpaDisabled
  rw [findHPA_congr w w' noFault h2 h1]

theorem init_disables_hpa (kind : Kind) (w : World) (br : BR) (f : Fault) (out : CallOut)
    (h : cpInitialize kind w br f = .val out) : initDisablesHPA w br out = true := by
  unfold initDisablesHPA
  cases hw : w.wl with
  | none => rfl
  | some wl =>
    simp only []
    split
    · rename_i hc
      have hc' : controlled br wl = false := by simpa using hc.1
      rcases init_first kind w br f out wl h hw hc' with ⟨_, hne⟩ | ⟨s, _, _, hw1⟩
      · exact absurd hc.2 hne
      · rw [hw1]
        have : hpaDisabled { initBase kind w with wl := some (initPatch kind br (initSetting kind s wl) wl) } =
            hpaDisabled (disabledW w) := by
          apply hpaDisabled_congr
          · exact (rsW_frame kind (disabledW w)).2.1
          · exact (rsW_frame kind (disabledW w)).2.2
        rw [this]
        unfold hpaDisabled
        split
        · rename_i v k hf
          simp only [decide_eq_true_eq]
          exact findHPA_disabledW w v k hf
        · rfl
    · rfl

theorem upgrade_keeps_hold (kind : Kind) (w : World) (br : BR) (f : Fault) (out : CallOut)
    (h : cpUpgradeBatch kind w br f = .val out) : upgradeKeepsHold kind out = true := by
  unfold upgradeKeepsHold
  rcases upgrade_world kind w br f out h with ⟨_, h0⟩ | ⟨wl, R, e, _, _, _, _, hv, _, _, h1, hw'⟩
  · simp only [h0, if_true]
  · simp only [h1, Nat.succ_ne_zero, if_false, hw']
    cases kind
    · exact held_upgradePatch_dep e wl hv
    · simp only [validate, Bool.and_eq_true, decide_eq_true_eq] at hv
      simp only [upgradePatch, Bool.and_eq_true]
      exact ⟨decide_eq_true hv.2, decide_eq_true hv.1.2⟩


theorem finalize_patch_releases (kind : Kind) (w : World) (br : BR) (f : Fault) (out : CallOut)
    (h : cpFinalize kind w br f = .val out) : finalizePatchReleases kind w out = true := by
  unfold finalizePatchReleases
  rcases finalize_wl kind w br f out h with hw | ⟨wl, s, hw, _, _, _, hw'⟩
  · rw [hw]
    cases hwl : w.wl with
    | none => rfl
    | some wl => simp
  · rw [hw]
    rcases hw' with hw' | hw' <;> rw [hw'] <;> simp only [] <;> split
    · rename_i hc; obtain ⟨hk, _, _⟩ := hc; subst hk; rfl
    · rfl
    · rename_i hc; obtain ⟨hk, _, _⟩ := hc; subst hk; rfl
    · rfl

theorem finalize_completes_oracle (kind : Kind) (o : Orig) (w : World) (br : BR) (f : Fault) (out : CallOut)
    (h : cpFinalize kind w br f = .val out) : finalizeCompletes kind o w br f out = true := by
  unfold finalizeCompletes
  cases hw : w.wl with
  | none => rfl
  | some wl =>
    simp only []
    split
    · rename_i hc
      obtain ⟨hi, hf, hp, hR, hready⟩ := hc
      subst hf
      obtain ⟨out', h', hok⟩ := finalize_completes kind o w br wl hi hw hR hp hready
      rw [h] at h'
      cases h'
      simp only [decide_eq_true_eq]; exact hok
    · rfl

end RV.Lemmas.CtlBlueGreen
